(* Execution helpers for the C20 correspondence (QNum, vm_compute): the harness passes what the implementation returned and
   the raw CoolProp reads; every comparison happens inside Coq and only small integers are printed. *)
From Coq Require Import QArith ZArith String List Bool.
From PG Require Import Lib.Num Lib.Py Lib.Show Gen.UnitsGen1 Units.UnitsSpec Units.UnitsSpecQ Registry.AliasArg Gen.AdsorbatesGen
  Registry.Adsorbates Registry.Backend Gen.AdsMethodsGen.
Import ListNotations.
Open Scope string_scope.

(* ---- registry *)
Definition fi (s : string) : Z * Z :=
  (match find_index reg_db s 0 with Some k => Z.of_nat k | None => (-1)%Z end, 0%Z).
Fixpoint first_diff (k : Z) (l1 l2 : list ads) : Z :=
  match l1, l2 with
  | [], [] => (-1)%Z
  | a :: r1, b :: r2 => if ads_eqb a b then first_diff (k + 1) r1 r2 else k
  | _, _ => k end.
(* the implementation's ADSORBATE_LIST (name, alias list, backend_name present) vs the model of the database / of the JSON list *)
Definition reg_cmp (impl : list (string * list string * bool)) : Z * Z :=
  let L := map (fun '(n, al, b) => mkA n al b) impl in (first_diff 0 reg_db L, first_diff 0 reg_json L).
Definition slist_eqb (a b : list string) : bool := if list_eq_dec string_dec a b then true else false.
Definition norm_cmp (n : string) (a : alias_arg) (expected : list string) : Z * Z :=
  (if slist_eqb (norm_alias n a) expected then 1%Z else 0%Z, 0%Z).
(* Adsorbate(name, alias) == other *)
Definition eq_cmp (n : string) (a : alias_arg) (other : string) : Z * Z :=
  (if eq_str (new_ads n a false) other then 1%Z else 0%Z, 0%Z).

(* ---- property methods. reads recorded by the harness from a fresh CoolProp state:
   (name, input code, value | None = raised); code 0 = no input, 1 = QT 0 T, 2 = QT 1 T, 3 = PQ P 0, 4 = PQ P 1 *)
Fixpoint lookup_read (k : string) (c : Z) (l : list (string * Z * option Q)) : option Q :=
  match l with
  | [] => None
  | (k', c', v) :: r => if String.eqb k k' && Z.eqb c c' then v else lookup_read k c r end.
Definition tbl_backend (T P : Q) (l : list (string * Z * option Q)) : backend QNum :=
  fun k i =>
    let code := match i with
                | NoInput => 0
                | QT q T' => if Qeq_bool T' T then (if Z.eqb q 0 then 1 else if Z.eqb q 1 then 2 else -1) else -1
                | PQ p q => if Qeq_bool p P then (if Z.eqb q 0 then 3 else if Z.eqb q 1 then 4 else -1) else -1
                end%Z in
    lookup_read k code l.
Definition flag (r : res Q) (x : Z * Z * Z) : list Z :=
  let '(oc, m, e) := x in let '(code, ok) := cmpq 1 1000000000000 r oc m e in [code; ok].
Definition nth3 (l : list (Z * Z * Z)) (k : nat) : Z * Z * Z := nth k l (99, 0, 0)%Z.
Definition unit_names : list string := ["Pa"; "kPa"; "MPa"; "mbar"; "bar"; "atm"; "mmHg"; "torr"; "bogus"].
(* exp: what the implementation returned, in this order: molar_mass p_triple t_triple p_critical t_critical
   saturation_pressure(T) surface_tension liquid_density liquid_molar_density gas_density gas_molar_density
   enthalpy_vaporisation(T) enthalpy_vaporisation(press=P) enthalpy_liquefaction(T, P) pressure_saturation(T)
   liquid_density(T, calculate=False) ; then saturation_pressure(T, unit) for the 8 units and 'bogus' *)
Definition show_methods (T P : Q) (reads : list (string * Z * option Q)) (props : list (string * Q)) (exp : list (Z * Z * Z)) : list Z :=
  let b := tbl_backend T P reads in
  flag (molar_mass QNum b props true) (nth3 exp 0) ++ flag (p_triple QNum b props true) (nth3 exp 1)
  ++ flag (t_triple QNum b props true) (nth3 exp 2) ++ flag (p_critical QNum b props true) (nth3 exp 3)
  ++ flag (t_critical QNum b props true) (nth3 exp 4) ++ flag (saturation_pressure QNum b props T None true) (nth3 exp 5)
  ++ flag (surface_tension QNum b props T true) (nth3 exp 6) ++ flag (liquid_density QNum b props T true) (nth3 exp 7)
  ++ flag (liquid_molar_density QNum b props T true) (nth3 exp 8) ++ flag (gas_density QNum b props T true) (nth3 exp 9)
  ++ flag (gas_molar_density QNum b props T true) (nth3 exp 10)
  ++ flag (enthalpy_vaporisation QNum b props (Some T) None true) (nth3 exp 11)
  ++ flag (enthalpy_vaporisation QNum b props None (Some P) true) (nth3 exp 12)
  ++ flag (enthalpy_liquefaction QNum b props (Some T) (Some P) true) (nth3 exp 13)
  ++ flag (pressure_saturation QNum b props T None true) (nth3 exp 14)
  ++ flag (liquid_density QNum b props T false) (nth3 exp 15)
  ++ concat (map (fun '(k, u) => flag (saturation_pressure QNum b props T (Some u) true) (nth3 exp (16 + k)))
                 (combine (seq 0 9) unit_names)).

(* SPEC of the unit argument (Units/UnitsSpec.v): value in unit u = pascal value / pa_per u *)
Definition all_punits_q : list punit := [Pa; kPa; MPa; mbar; bar; atm; mmHg; torr].
Definition unit_spec (p : Q) (got : list (Z * Z)) : list Z :=
  map (fun '(u, (m, e)) => if close_q 1 100000000000 (p / pa_perQ u) (fl m e) then 1%Z else 0%Z) (combine all_punits_q got).
