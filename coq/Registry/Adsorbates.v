(* C20, registry half. Hand-written model (H) of
     Adsorbate.__init__   alias normalisation                      adsorbate.py:119-127
     Adsorbate.__eq__     with a string: other.lower() in alias    adsorbate.py:158-162
     Adsorbate.find       first match in list order, else ParameterError   adsorbate.py:184-216
     adsorbates_from_db   repeated `alias` rows grouped into a list, a single row stays a string   sqlite.py:318-326
     BaseIsotherm.adsorbate setter: find, else a fresh Adsorbate(value)    baseisotherm.py:248-258
   over the GENERATED data of Gen/AdsorbatesGen.v. The model is executed inside Coq against the implementation by
   tools/props/c20.py on every run (every alias in four letter cases, unknown strings, synthetic constructor calls). *)
From Coq Require Import String List Bool Ascii Arith Lia.
From PG Require Import Lib.Num Lib.Py Registry.AliasArg Gen.AdsorbatesGen.
Import ListNotations.
Open Scope string_scope.

Record ads := mkA { a_name : string; a_alias : list string; a_backend : bool }.

Fixpoint smem (s : string) (l : list string) : bool :=
  match l with [] => false | x :: r => String.eqb s x || smem s r end.

(* _name = name.lower(); alias None -> [_name]; str -> [alias.lower()]; else [a.lower() for a in alias];
   if _name not in self.alias: self.alias.append(_name) *)
Definition norm_alias (name : string) (a : alias_arg) : list string :=
  let _name := lower name in
  match a with
  | ANone => [_name]
  | AStr s => let l := [lower s] in if smem _name l then l else l ++ [_name]
  | AList l0 => let l := map lower l0 in if smem _name l then l else l ++ [_name]
  end.
Definition new_ads (name : string) (a : alias_arg) (backend : bool) : ads := mkA name (norm_alias name a) backend.

(* adsorbates_from_db: first row -> the value itself, further rows -> list *)
Definition db_group (rows : list string) : alias_arg :=
  match rows with [] => ANone | [s] => AStr s | _ => AList rows end.

Definition reg_json : list ads := map (fun '(n, a, b) => new_ads n a b) ads_json.
Definition reg_db : list ads := map (fun '(n, rows, b) => new_ads n (db_group rows) b) ads_db.

(* __eq__ with a string *)
Definition eq_str (a : ads) (other : string) : bool := smem (lower other) (a_alias a).
(* next(ads for ads in ADSORBATE_LIST if ads == name) ; None = StopIteration -> ParameterError *)
Fixpoint find (L : list ads) (s : string) : option ads :=
  match L with [] => None | a :: r => if eq_str a s then Some a else find r s end.
Fixpoint find_index (L : list ads) (s : string) (k : nat) : option nat :=
  match L with [] => None | a :: r => if eq_str a s then Some k else find_index r s (S k) end.
(* the isotherm's adsorbate setter *)
Definition set_adsorbate (L : list ads) (s : string) : ads :=
  match find L s with Some a => a | None => new_ads s ANone false end.

(* ------------------------------------------------------------------ strings *)
Lemma lower_ascii_idem c : lower_ascii (lower_ascii c) = lower_ascii c.
Proof. destruct c as [[] [] [] [] [] [] [] []]; vm_compute; reflexivity. Qed.
Lemma lower_idem s : lower (lower s) = lower s.
Proof. induction s; simpl; [reflexivity|]. now rewrite lower_ascii_idem, IHs. Qed.
Lemma smem_In s l : smem s l = true <-> In s l.
Proof.
  induction l; simpl; [split; [discriminate|tauto]|].
  rewrite orb_true_iff, IHl, String.eqb_eq. split; intros [H|H]; auto.
Qed.
Definition is_ascii7 (c : ascii) : bool := Nat.ltb (nat_of_ascii c) 128.
Fixpoint str_ascii7 (s : string) : bool :=
  match s with EmptyString => true | String c r => is_ascii7 c && str_ascii7 r end.

(* ------------------------------------------------------------------ find, for ALL registries and ALL strings *)
Lemma eq_str_lower a s : eq_str a s = eq_str a (lower s).
Proof. unfold eq_str. now rewrite lower_idem. Qed.
Lemma find_lower L s : find L s = find L (lower s).
Proof. induction L; simpl; [reflexivity|]. now rewrite <- eq_str_lower, IHL. Qed.
Theorem find_depends_only_on_lower L s1 s2 : lower s1 = lower s2 -> find L s1 = find L s2.
Proof. intro H. now rewrite (find_lower L s1), (find_lower L s2), H. Qed.
Lemma find_some_in L s a : find L s = Some a -> In a L /\ In (lower s) (a_alias a).
Proof.
  induction L as [|b r IH]; simpl; [discriminate|].
  destruct (eq_str b s) eqn:E.
  - intro H; injection H as <-. split; [now left|]. now apply smem_In.
  - intro H. destruct (IH H). split; [now right|assumption].
Qed.
Lemma find_none L s : find L s = None <-> forall a, In a L -> ~ In (lower s) (a_alias a).
Proof.
  induction L as [|b r IH]; simpl.
  - split; [intros _ a []|reflexivity].
  - destruct (eq_str b s) eqn:E.
    + split; [discriminate|]. intro H. exfalso. apply (H b); [now left|]. now apply smem_In.
    + rewrite IH. split.
      * intros H a [<-|Ha]; [|now apply H]. intro Hin. apply smem_In in Hin. unfold eq_str in E. congruence.
      * intros H a Ha. apply H. now right.
Qed.
(* if lower s is an alias of exactly one adsorbate of the registry, find returns it *)
Theorem find_unique L s a :
  In a L -> In (lower s) (a_alias a) ->
  (forall b, In b L -> In (lower s) (a_alias b) -> b = a) -> find L s = Some a.
Proof.
  intros Ha Hal Hu. destruct (find L s) as [b|] eqn:E.
  - apply find_some_in in E. destruct E as [Hb Hbl]. now rewrite (Hu b Hb Hbl).
  - exfalso. rewrite find_none in E. exact (E a Ha Hal).
Qed.
(* the setter links the isotherm to that adsorbate *)
Theorem set_adsorbate_links L s a :
  In a L -> In (lower s) (a_alias a) ->
  (forall b, In b L -> In (lower s) (a_alias b) -> b = a) -> set_adsorbate L s = a.
Proof. intros. unfold set_adsorbate. now rewrite (find_unique L s a). Qed.
Theorem find_first_match L1 a L2 s :
  (forall b, In b L1 -> eq_str b s = false) -> eq_str a s = true -> find (L1 ++ a :: L2) s = Some a.
Proof.
  induction L1 as [|b r IH]; simpl; intros H Ha; [now rewrite Ha|].
  rewrite (H b) by now left. apply IH; auto.
Qed.
(* normalisation: the lower-cased name is always an alias, every alias is lower case *)
Lemma norm_alias_has_name n a : In (lower n) (norm_alias n a).
Proof.
  unfold norm_alias. destruct a as [|s|l].
  - now left.
  - destruct (smem (lower n) [lower s]) eqn:E; [now apply smem_In|]. apply in_or_app; right; now left.
  - destruct (smem (lower n) (map lower l)) eqn:E; [now apply smem_In|]. apply in_or_app; right; now left.
Qed.
Lemma norm_alias_lower n a x : In x (norm_alias n a) -> lower x = x.
Proof.
  unfold norm_alias. destruct a as [|s|l].
  - intros [<-|[]]. apply lower_idem.
  - destruct (smem (lower n) [lower s]); simpl; intros H; repeat (destruct H as [<-|H]; [apply lower_idem|]); destruct H.
  - assert (Hm : forall y, In y (map lower l) -> lower y = y).
    { intros y Hy. apply in_map_iff in Hy. destruct Hy as (z & <- & _). apply lower_idem. }
    destruct (smem (lower n) (map lower l)); [apply Hm|].
    intro H; apply in_app_or in H; destruct H as [H|[<-|[]]]; [now apply Hm|apply lower_idem].
Qed.
(* a freshly constructed adsorbate is found by its own name in any letter case when no earlier entry claims it *)
Theorem new_ads_eq_own_name n a b s : lower s = lower n -> eq_str (new_ads n a b) s = true.
Proof. intro H. unfold eq_str, new_ads; simpl. rewrite H. apply smem_In, norm_alias_has_name. Qed.

(* ------------------------------------------------------------------ the shipped registry: finite, exhaustive *)
Definition ads_eqb (a b : ads) : bool :=
  String.eqb (a_name a) (a_name b) && (if list_eq_dec string_dec (a_alias a) (a_alias b) then true else false)
  && Bool.eqb (a_backend a) (a_backend b).
Lemma ads_eqb_eq a b : ads_eqb a b = true -> a = b.
Proof.
  unfold ads_eqb. destruct a as [n1 l1 b1], b as [n2 l2 b2]; simpl.
  rewrite !andb_true_iff. intros [[H1 H2] H3]. apply String.eqb_eq in H1. apply Bool.eqb_prop in H3.
  destruct (list_eq_dec string_dec l1 l2); [|discriminate]. now subst.
Qed.
(* every (lower-cased) alias of every adsorbate resolves to that adsorbate *)
Definition resolves_chk (L : list ads) : bool :=
  forallb (fun a => forallb (fun al => match find L al with Some b => ads_eqb b a | None => false end) (a_alias a)) L.
(* no string is an alias of two different adsorbates *)
Definition unique_chk (L : list ads) : bool :=
  forallb (fun a => forallb (fun b => forallb (fun al => negb (smem al (a_alias b)) || ads_eqb a b)
                                        (a_alias a)) L) L.
Fixpoint nodupb (l : list string) : bool := match l with [] => true | x :: r => negb (smem x r) && nodupb r end.
Definition ascii_chk (L : list ads) : bool :=
  forallb (fun a => str_ascii7 (a_name a) && forallb str_ascii7 (a_alias a)) L.

(* generic lemmas: the registry is a VARIABLE here, so that no proof term ever needs the 176-entry list unfolded *)
Section Lift.
Variable L : list ads.
Hypothesis Hnorm : forall a, In a L -> exists n al b, a = new_ads n al b.
Lemma gen_alias_lower a al : In a L -> In al (a_alias a) -> lower al = al.
Proof. intros Ha Hal. destruct (Hnorm a Ha) as (n & x & b & ->). now apply norm_alias_lower in Hal. Qed.
Lemma gen_all_ascii : ascii_chk L = true ->
  forall a, In a L -> str_ascii7 (a_name a) = true /\ forall al, In al (a_alias a) -> str_ascii7 al = true.
Proof.
  intros H a Ha. unfold ascii_chk in H. rewrite forallb_forall in H. specialize (H a Ha).
  apply andb_true_iff in H. destruct H as [H1 H2]. split; [assumption|]. now rewrite forallb_forall in H2.
Qed.
Lemma gen_alias_resolves : resolves_chk L = true -> forall a al s, In a L -> In al (a_alias a) ->
  lower s = al -> find L s = Some a /\ set_adsorbate L s = a.
Proof.
  intros H a al s Ha Hal Hs. unfold resolves_chk in H. rewrite forallb_forall in H. specialize (H a Ha).
  rewrite forallb_forall in H. specialize (H al Hal).
  assert (E : find L s = Some a).
  { rewrite find_lower, Hs. destruct (find L al) as [b|]; [|discriminate]. now rewrite (ads_eqb_eq _ _ H). }
  split; [assumption|]. unfold set_adsorbate. now rewrite E.
Qed.
Lemma gen_name_resolves : resolves_chk L = true ->
  forall a s, In a L -> lower s = lower (a_name a) -> find L s = Some a /\ set_adsorbate L s = a.
Proof.
  intros H a s Ha Hs.
  assert (Hin : In (lower (a_name a)) (a_alias a)).
  { destruct (Hnorm a Ha) as (n & x & b & ->). simpl. apply norm_alias_has_name. }
  exact (gen_alias_resolves H a _ s Ha Hin Hs).
Qed.
Lemma gen_alias_unique : unique_chk L = true -> forall a b al, In a L -> In b L -> In al (a_alias a) -> In al (a_alias b) ->
  a = b.
Proof.
  intros H a b al Ha Hb Hal Hbl. unfold unique_chk in H. rewrite forallb_forall in H. specialize (H a Ha).
  rewrite forallb_forall in H. specialize (H b Hb). rewrite forallb_forall in H. specialize (H al Hal).
  rewrite !orb_true_iff in H. destruct H as [H|H].
  - apply negb_true_iff in H. apply smem_In in Hbl. congruence.
  - now apply ads_eqb_eq.
Qed.
(* "every name or alias designates exactly one adsorbate", as the implementation tests it: for ANY string s (any letter
   case), at most one entry of the registry compares equal to it *)
Lemma gen_eq_str_unique : unique_chk L = true -> forall a b s, In a L -> In b L -> eq_str a s = true -> eq_str b s = true -> a = b.
Proof.
  intros H a b s Ha Hb Ea Eb. unfold eq_str in *. apply smem_In in Ea. apply smem_In in Eb.
  exact (gen_alias_unique H a b (lower s) Ha Hb Ea Eb).
Qed.
End Lift.
Lemma nodupb_NoDup l : nodupb l = true -> NoDup l.
Proof.
  induction l; simpl; intro H; constructor.
  - apply andb_true_iff in H. destruct H as [H _]. intro Hin. apply smem_In in Hin. rewrite Hin in H. discriminate.
  - apply IHl. now apply andb_true_iff in H.
Qed.
Lemma map_new_ads_norm (D : list (string * list string * bool)) a :
  In a (map (fun '(n, rows, b) => new_ads n (db_group rows) b) D) -> exists n al b, a = new_ads n al b.
Proof. intros Ha. apply in_map_iff in Ha. destruct Ha as ([[n rows] b] & <- & _). now exists n, (db_group rows), b. Qed.

(* the computational facts about THIS tree, each checked once by the VM *)
Lemma reg_counts : length reg_db = 176%nat /\ length reg_json = 176%nat
                   /\ length (concat (map a_alias reg_db)) = 817%nat
                   /\ length (filter a_backend reg_db) = 81%nat.
Proof. vm_compute. repeat split. Qed.
Lemma json_db_agree_lem : reg_json = reg_db.
Proof. vm_compute. reflexivity. Qed.
Lemma resolves_chk_true : resolves_chk reg_db = true. Proof. vm_compute. reflexivity. Qed.
Lemma unique_chk_true : unique_chk reg_db = true. Proof. vm_compute. reflexivity. Qed.
Lemma ascii_chk_true : ascii_chk reg_db = true. Proof. vm_compute. reflexivity. Qed.
Lemma nodupb_names_true : nodupb (map a_name reg_db) = true. Proof. vm_compute. reflexivity. Qed.
Lemma reg_db_norm : forall a, In a reg_db -> exists n al b, a = new_ads n al b.
Proof. exact (map_new_ads_norm ads_db). Qed.
Lemma names_distinct_lem : NoDup (map a_name reg_db).
Proof. exact (nodupb_NoDup _ nodupb_names_true). Qed.
Lemma all_ascii_lem : forall a, In a reg_db -> str_ascii7 (a_name a) = true /\ forall al, In al (a_alias a) -> str_ascii7 al = true.
Proof. exact (gen_all_ascii reg_db ascii_chk_true). Qed.
Lemma reg_alias_lower : forall a al, In a reg_db -> In al (a_alias a) -> lower al = al.
Proof. exact (gen_alias_lower reg_db reg_db_norm). Qed.
(* bound: the 176 adsorbates and the 817 alias strings of THIS tree; no string is exempted *)
Lemma alias_resolves_lem : forall a al s, In a reg_db -> In al (a_alias a) ->
  lower s = al -> find reg_db s = Some a /\ set_adsorbate reg_db s = a.
Proof. exact (gen_alias_resolves reg_db resolves_chk_true). Qed.
Lemma name_resolves_lem : forall a s, In a reg_db -> lower s = lower (a_name a) ->
  find reg_db s = Some a /\ set_adsorbate reg_db s = a.
Proof. exact (gen_name_resolves reg_db reg_db_norm resolves_chk_true). Qed.
Lemma alias_unique_lem : forall a b al, In a reg_db -> In b reg_db -> In al (a_alias a) -> In al (a_alias b) -> a = b.
Proof. exact (gen_alias_unique reg_db unique_chk_true). Qed.
Lemma string_designates_at_most_one_lem : forall a b s, In a reg_db -> In b reg_db ->
  eq_str a s = true -> eq_str b s = true -> a = b.
Proof. exact (gen_eq_str_unique reg_db unique_chk_true). Qed.
(* the hypotheses are satisfiable: the registry has entries with several aliases *)
Lemma alias_resolves_example : exists a, In a reg_db /\ a_name a = "cyclopentane" /\ find reg_db "CycloPentane" = Some a
  /\ set_adsorbate reg_db "CYCLOPENTANE" = a.
Proof.
  assert (H : existsb (fun a => String.eqb (a_name a) "cyclopentane") reg_db = true) by (vm_compute; reflexivity).
  apply existsb_exists in H. destruct H as (a & Ha & En). apply String.eqb_eq in En. exists a.
  split; [exact Ha|]. split; [exact En|].
  split; [apply (name_resolves_lem a "CycloPentane" Ha)|apply (name_resolves_lem a "CYCLOPENTANE" Ha)]; rewrite En; reflexivity.
Qed.
