(* Oracle boundary of C20's thermodynamic half: the CoolProp AbstractState as the Adsorbate methods use it.
   A read `state.X()` is a function of the LAST `state.update(...)` issued in the same method (the translator
   tools/py2v_adsmethods.py refuses a read without a preceding update); `None` = the update or the read raised
   (any BaseException, including ParameterError from a missing backend_name): the methods then fall back.
   Nothing about the VALUES is assumed here; theorems state their assumptions about `b` as hypotheses. *)
From Coq Require Import QArith ZArith String List Bool.
From PG Require Import Lib.Num Lib.Py.
Section B.
Variable N : Num.
Inductive binput := NoInput | QT (q : Z) (T : N) | PQ (p : N) (q : Z).
Definition backend := string -> binput -> option N.
Definition no_backend : backend := fun _ _ => None.
Definition obind {A B} (m : option A) (f : A -> option B) : option B := match m with Some a => f a | None => None end.
(* truthiness of an optional float argument (`if temp:`): present and not 0.0 *)
Definition otruthy (x : option N) : option N :=
  match x with Some v => if neqb v (nofQ 0) then None else Some v | None => None end.
Definition is_some {A} (x : option A) : bool := match x with Some _ => true | None => false end.
End B.
Arguments NoInput {N}. Arguments QT {N}. Arguments PQ {N}. Arguments otruthy {N}. Arguments no_backend {N}.
