(* C20, thermodynamic half: theorems about the GENERATED property methods (Gen/AdsMethodsGen.v, from adsorbate.py)
   against a hand-written SPEC of what each method must deliver: which backend quantity, the SI -> pyGAPS unit factor,
   the dictionary key and its factor. CoolProp itself is the oracle `b` (Registry/Backend.v). *)
From Coq Require Import Reals Lra QArith Qreals ZArith String List Bool.
From PG Require Import Lib.Num Lib.Py Lib.Tac Gen.UnitsGen1 Units.AdsOracle Gen.UnitsGen2 Units.UnitsSpec
  Units.PressureProofs Units.C01Theorems Registry.Backend Gen.AdsMethodsGen.
Import ListNotations.
Open Scope string_scope.
Open Scope R_scope.
Local Notation QT := (@QT RNum).
Local Notation PQ := (@PQ RNum).
Local Notation NoInput := (@NoInput RNum).

(* ---- SPEC: backend value (SI) x factor | user property x factor | CalculationError *)
Definition three_way (backend_val : option R) (bf : R) (user_val : option R) (uf : R) : res R :=
  match backend_val with
  | Some x => Ok (x * bf)
  | None => match user_val with Some u => Ok (u * uf) | None => Err CalculationError end
  end.
Definition hvap_backend (b : backend RNum) (i0 i1 : binput RNum) : option R :=
  match b "hmolar" i0, b "hmolar" i1 with Some hl, Some hv => Some (hv - hl) | _, _ => None end.

Section Methods.
Variable b : backend RNum.
Variable props : list (string * R).
Let up (k : string) : option R := assoc k props.

(* kg/mol -> g/mol; Pa; K; N/m -> mN/m; kg/m3 -> g/cm3; mol/m3 -> mol/cm3; J/mol -> kJ/mol; dictionary pressures are in bar *)
Theorem methods_meet_spec :
  molar_mass RNum b props true = three_way (b "molar_mass" NoInput) 1000 (up "molar_mass") 1
  /\ p_triple RNum b props true = three_way (b "PropsSI:PTRIPLE" NoInput) 1 (up "p_triple") 100000
  /\ t_triple RNum b props true = three_way (b "Ttriple" NoInput) 1 (up "t_triple") 1
  /\ p_critical RNum b props true = three_way (b "p_critical" NoInput) 1 (up "p_critical") 100000
  /\ t_critical RNum b props true = three_way (b "T_critical" NoInput) 1 (up "t_critical") 1
  /\ (forall T, saturation_pressure RNum b props T None true = three_way (b "p" (QT 0 T)) 1 (up "saturation_pressure") 1)
  /\ (forall T, surface_tension RNum b props T true = three_way (b "surface_tension" (QT 0 T)) 1000 (up "surface_tension") 1)
  /\ (forall T, liquid_density RNum b props T true = three_way (b "rhomass" (QT 0 T)) (/1000) (up "liquid_density") 1)
  /\ (forall T, liquid_molar_density RNum b props T true = three_way (b "rhomolar" (QT 0 T)) (/1000000) (up "liquid_molar_density") 1)
  /\ (forall T, gas_density RNum b props T true = three_way (b "rhomass" (QT 1 T)) (/1000) (up "gas_density") 1)
  /\ (forall T, gas_molar_density RNum b props T true = three_way (b "rhomolar" (QT 1 T)) (/1000000) (up "gas_molar_density") 1)
  /\ (forall T, T <> 0 -> enthalpy_liquefaction RNum b props (Some T) None true
                 = three_way (hvap_backend b (QT 0 T) (QT 1 T)) (/1000) (up "enthalpy_liquefaction") 1)
  /\ (forall p, p <> 0 -> enthalpy_liquefaction RNum b props None (Some p) true
                 = three_way (hvap_backend b (PQ p 0) (PQ p 1)) (/1000) (up "enthalpy_liquefaction") 1).
Proof.
  unfold molar_mass, p_triple, t_triple, p_critical, t_critical, saturation_pressure, surface_tension, liquid_density,
    liquid_molar_density, gas_density, gas_molar_density, enthalpy_liquefaction, three_way, hvap_backend, obind; subst up.
  repeat split; intros.
  all: try (match goal with |- context [otruthy (Some ?x)] =>
         assert (Ht : @otruthy RNum (Some x) = Some x)
           by (unfold otruthy; cbv [neqb RNum nofQ]; replace (Reqb x (Q2R 0)) with false;
               [reflexivity|symmetry; apply Reqb_false; rewrite Q2R_zero; assumption]);
         rewrite Ht; clear Ht end).
  all: cbv [otruthy is_some andb bind].
  all: cbv [nmul ndiv nsub nofQ RNum t].
  all: repeat match goal with |- context [b ?k ?i] => destruct (b k i) end.
  all: repeat match goal with |- context [assoc ?k props] => destruct (assoc k props) end.
  all: try reflexivity.
  all: f_equal; unfold Q2R; simpl; try field; try lra.
Qed.

(* ---- no fourth outcome (for any method meeting the three-way spec) *)
Lemma three_way_cases bv bf uv uf r :
  three_way bv bf uv uf = r ->
  (exists x, bv = Some x /\ r = Ok (x * bf)) \/ (bv = None /\ exists u, uv = Some u /\ r = Ok (u * uf))
  \/ (bv = None /\ uv = None /\ r = Err CalculationError).
Proof.
  unfold three_way. destruct bv as [x|]; [intros <-; left; now exists x|].
  destruct uv as [u|]; intros <-; right; [left; split; [reflexivity|now exists u]|right; auto].
Qed.
(* a silent wrong number is impossible: Ok r means r IS the backend value or the user's value (scaled as documented) *)
Theorem fallback_never_silent_density T r :
  liquid_density RNum b props T true = r ->
  (exists x, b "rhomass" (QT 0 T) = Some x /\ r = Ok (x * / 1000))
  \/ (b "rhomass" (QT 0 T) = None /\ exists u, assoc "liquid_density" props = Some u /\ r = Ok (u * 1))
  \/ (b "rhomass" (QT 0 T) = None /\ assoc "liquid_density" props = None /\ r = Err CalculationError).
Proof.
  destruct methods_meet_spec as (_ & _ & _ & _ & _ & _ & _ & H & _). rewrite H. apply three_way_cases.
Qed.

(* calculate=False never consults the backend *)
Theorem calculate_false_reads_dictionary_only (b' : backend RNum) T u :
  molar_mass RNum b props false = molar_mass RNum b' props false
  /\ saturation_pressure RNum b props T u false = saturation_pressure RNum b' props T u false
  /\ liquid_density RNum b props T false = liquid_density RNum b' props T false
  /\ enthalpy_liquefaction RNum b props (Some T) None false = enthalpy_liquefaction RNum b' props (Some T) None false.
Proof. repeat split. Qed.

(* ---- the unit argument: saturation_pressure(T, unit) = c_unit(_PRESSURE_UNITS, saturation_pressure(T), 'Pa', unit),
   for the backend value AND for the dictionary value; for the 8 units it is the pascal value divided by pa_per *)
Theorem unit_argument_is_c_unit T (u : string) :
  saturation_pressure RNum b props T (Some u) true
  = bind (saturation_pressure RNum b props T None true) (fun p => c_unit RNum (_PRESSURE_UNITS RNum) p (Some "Pa") (Some u) 1%Z).
Proof.
  unfold saturation_pressure. cbn [obind].
  destruct (b "p" (QT 0 T)); cbn [bind obind]; [reflexivity|].
  change (t RNum) with R in *. match goal with |- context [assoc ?k props] => destruct (assoc k props) end; reflexivity.
Qed.
Theorem unit_argument_honoured T (u : punit) p :
  saturation_pressure RNum b props T None true = Ok p ->
  saturation_pressure RNum b props T (Some (punit_name u)) true = Ok (p / pa_per u).
Proof.
  intro H. rewrite unit_argument_is_c_unit, H. cbn [bind]. destruct u; solve_conv.
Qed.
Theorem unit_argument_refused T (u : string) p :
  saturation_pressure RNum b props T None true = Ok p -> tbl_mem (Some u) (_PRESSURE_UNITS RNum) = false ->
  saturation_pressure RNum b props T (Some u) true = Err ParameterError.
Proof.
  intros H Hu. rewrite unit_argument_is_c_unit, H. cbn [bind]. unfold c_unit, _check_unit.
  rewrite Hu. destruct u; reflexivity.
Qed.

(* ---- the adsorbate record converter_mode.py consults (Units/AdsOracle.v), built from the generated methods *)
Definition r2o (r : res R) : option R := match r with Ok v => Some v | Err _ => None end.
Definition with_temp (f : R -> bool -> res R) (temp : option R) : option R :=
  match temp with Some T => r2o (f T true) | None => r2o (f 0 false) end.
Definition ads_of : adsorbate RNum :=
  mkAds RNum (with_temp (fun T c => saturation_pressure RNum b props T None c))
        (r2o (molar_mass RNum b props true))
        (with_temp (liquid_density RNum b props)) (with_temp (gas_density RNum b props))
        (with_temp (liquid_molar_density RNum b props)) (with_temp (gas_molar_density RNum b props)).
Lemma sat_p_error_is_calculation_error T e :
  saturation_pressure RNum b props T None true = Err e -> e = CalculationError.
Proof.
  unfold saturation_pressure. cbn [obind]. destruct (b "p" (QT 0 T)); cbn [bind]; [discriminate|].
  change (t RNum) with R in *.
  match goal with |- context [assoc ?k props] => destruct (assoc k props) end; [discriminate|]. now intros [= <-].
Qed.
Theorem oracle_is_generated_method T u :
  ads_saturation_pressure ads_of (Some T) u = saturation_pressure RNum b props T u true.
Proof.
  unfold ads_saturation_pressure, ads_of, with_temp, r2o, oget; cbn [a_psat_Pa].
  destruct u as [u|].
  - rewrite unit_argument_is_c_unit.
    destruct (saturation_pressure RNum b props T None true) as [p|e] eqn:Es; cbn [bind]; [reflexivity|].
    now rewrite (sat_p_error_is_calculation_error T e Es).
  - destruct (saturation_pressure RNum b props T None true) as [p|e] eqn:E; [reflexivity|].
    now rewrite (sat_p_error_is_calculation_error T e E).
Qed.

(* ---- consistency transfer: IF the backend's mass and molar densities are related by its molar mass (CoolProp:
   rhomass = rhomolar * molar_mass, SI), THEN the methods satisfy liquid_density = liquid_molar_density * molar_mass
   (g/cm3 = mol/cm3 * g/mol) and the gas analogue - which is exactly C01's `ads_at` hypothesis. *)
Theorem backend_consistency_transfer T mm yl yg :
  b "molar_mass" NoInput = Some mm ->
  b "rhomolar" (QT 0 T) = Some yl -> b "rhomolar" (QT 1 T) = Some yg ->
  b "rhomass" (QT 0 T) = Some (yl * mm) -> b "rhomass" (QT 1 T) = Some (yg * mm) ->
  exists M rml rmg,
    molar_mass RNum b props true = Ok M /\ liquid_molar_density RNum b props T true = Ok rml
    /\ gas_molar_density RNum b props T true = Ok rmg
    /\ liquid_density RNum b props T true = Ok (rml * M) /\ gas_density RNum b props T true = Ok (rmg * M)
    /\ ads_at ads_of (Some T) M rml rmg
    /\ M = mm * 1000 /\ rml = yl / 1000000 /\ rmg = yg / 1000000.
Proof.
  intros Hm Hl Hg Hml Hmg. exists (mm * 1000), (yl / 1000000), (yg / 1000000).
  unfold ads_at, ads_of, with_temp, r2o, molar_mass, liquid_molar_density, gas_molar_density, liquid_density, gas_density, obind;
  cbn [a_M a_rho_l a_rho_g a_rhom_l a_rhom_g]. rewrite Hm, Hl, Hg, Hml, Hmg.
  assert (E1 : @ndiv RNum (yl * mm) (@nofQ RNum (1000 # 1)) = yl / 1000000 * (mm * 1000)) by (cbv [nmul ndiv nofQ RNum]; unfold Q2R; simpl; field).
  assert (E2 : @ndiv RNum (yg * mm) (@nofQ RNum (1000 # 1)) = yg / 1000000 * (mm * 1000)) by (cbv [nmul ndiv nofQ RNum]; unfold Q2R; simpl; field).
  assert (E3 : @nmul RNum mm (@nofQ RNum (1000 # 1)) = mm * 1000) by (cbv [nmul ndiv nofQ RNum]; unfold Q2R; simpl; field).
  assert (E4 : @ndiv RNum yl (@nofQ RNum (1000000 # 1)) = yl / 1000000) by (cbv [nmul ndiv nofQ RNum]; unfold Q2R; simpl; field).
  assert (E5 : @ndiv RNum yg (@nofQ RNum (1000000 # 1)) = yg / 1000000) by (cbv [nmul ndiv nofQ RNum]; unfold Q2R; simpl; field).
  rewrite E1, E2, E3, E4, E5. repeat split; reflexivity.
Qed.
(* ... so the C01 loading factor theorem applies to every backend adsorbate at every temperature where the backend answers *)
Corollary backend_adsorbate_converts_by_SI_factor T mm yl yg v (mat : mrep) (r1 r2 : lrep) :
  b "molar_mass" NoInput = Some mm ->
  b "rhomolar" (QT 0 T) = Some yl -> b "rhomolar" (QT 1 T) = Some yg ->
  b "rhomass" (QT 0 T) = Some (yl * mm) -> b "rhomass" (QT 1 T) = Some (yg * mm) ->
  0 < mm -> 0 < yl -> 0 < yg ->
  c_loading RNum v (l_basis r1) (l_basis r2) (l_unit r1) (l_unit r2) ads_of (Some T) (m_basis mat) (m_unit mat)
  = Ok (spec_conv (l_canon (mm * 1000) (yl / 1000000) (yg / 1000000) mat r1) (l_canon (mm * 1000) (yl / 1000000) (yg / 1000000) mat r2) v).
Proof.
  intros Hm Hl Hg Hml Hmg Pm Pl Pg.
  destruct (backend_consistency_transfer T mm yl yg Hm Hl Hg Hml Hmg) as (M & rml & rmg & _ & _ & _ & _ & _ & Hat & -> & -> & ->).
  apply c_loading_factor_at; [assumption|lra|lra|lra].
Qed.
End Methods.

(* an adsorbate without backend (no backend_name: self.backend raises ParameterError, caught): dictionary or CalculationError *)
Theorem no_backend_is_dictionary props T :
  liquid_density RNum no_backend props T true = match assoc "liquid_density" props with Some v => Ok v | None => Err CalculationError end
  /\ saturation_pressure RNum no_backend props T None true = match assoc "saturation_pressure" props with Some v => Ok v | None => Err CalculationError end
  /\ molar_mass RNum no_backend props true = match assoc "molar_mass" props with Some v => Ok v | None => Err CalculationError end
  /\ p_critical RNum no_backend props true = match assoc "p_critical" props with Some v => Ok (v * 100000) | None => Err CalculationError end.
Proof.
  repeat split; unfold liquid_density, saturation_pressure, molar_mass, p_critical, no_backend, obind; cbn [bind];
  destruct (assoc _ props); try reflexivity. f_equal. cbv [nmul nofQ RNum]. unfold Q2R; simpl; field.
Qed.

(* non-vacuity: a backend with rhomass = rhomolar * M exists (nitrogen-like numbers), and the transfer hypotheses hold for it *)
Example consistent_backend_exists :
  exists b : backend RNum,
    b "molar_mass" NoInput = Some 0.0280134 /\ b "rhomolar" (QT 0 77) = Some 28800 /\ b "rhomolar" (QT 1 77) = Some 165
    /\ b "rhomass" (QT 0 77) = Some (28800 * 0.0280134) /\ b "rhomass" (QT 1 77) = Some (165 * 0.0280134)
    /\ 0 < 0.0280134 /\ 0 < 28800 /\ 0 < 165.
Proof.
  exists (fun k i => match i with
                     | Backend.NoInput => if String.eqb k "molar_mass" then Some 0.0280134 else None
                     | Backend.QT q _ => if String.eqb k "rhomolar" then Some (if Z.eqb q 0 then 28800 else 165)
                                 else if String.eqb k "rhomass" then Some ((if Z.eqb q 0 then 28800 else 165) * 0.0280134) else None
                     | Backend.PQ _ _ => None end).
  cbv [String.eqb Ascii.eqb Bool.eqb Z.eqb]. repeat split; lra.
Qed.
