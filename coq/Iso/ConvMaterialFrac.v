(* C02, material step in fraction/percent mode: the GENERATED convert_material on a well-labelled state, all 19 x 19 pairs,
   for physical loading bases and for fraction / percent. *)
From Coq Require Import Reals Lra QArith Qreals ZArith String List Bool.
From PG Require Import Lib.Num Lib.Py Lib.Tac Gen.UnitsGen1 Units.AdsOracle Gen.UnitsGen2 Units.UnitsSpec
  Units.LoadingPhys Units.MaterialProofs Units.C01Theorems Iso.IsoState Gen.IsoGen Iso.IsoSpec Iso.ConvPressure Iso.ConvLoading Iso.ConvMaterial.
Import ListNotations.
Open Scope R_scope.

(* fraction / percent: a unit change inside the same material basis is "virtual" (labels only, caches kept);
   a basis change converts the data twice: per-material part, then the adsorbate part (wt% -> vol%) *)
Theorem convert_material_step_frac (a : adsorbate RNum) M rml rmg dens mm T tk rp cp cl cb li pi vb (rl : lrep) (rm rm' : mrep) :
  ads_at a (Some (kelvin_of tk T)) M rml rmg -> 0 < dens -> 0 < mm -> 0 < M -> 0 < rml -> 0 < rmg -> l_is_phys rl = false ->
  convert_material RNum (mk_state rp rl rm tk T a (mat_full dens mm) cp cl cb li pi) (m_basis rm') (m_unit rm') vb
  = SOk (if mrep_eqb rm' rm then mk_state rp rl rm tk T a (mat_full dens mm) cp cl cb li pi
         else if same_mbasis rm' rm then mk_state rp rl rm' tk T a (mat_full dens mm) cp cl cb li pi
         else mk_state rp rl rm' tk T a (mat_full dens mm) cp
                (map (spec_conv (l_canon_phys M rml rmg (l_of_m rm)) (l_canon_phys M rml rmg (l_of_m rm')))
                   (map (spec_conv (m_canon dens mm rm') (m_canon dens mm rm)) cl)) cb None None).
Proof.
  intros Ha Hd Hm HM Hl Hg Hphys.
  pose proof (fun v => c_material_factor_all dens mm v rm rm' Hd Hm) as HF.
  assert (P1 : l_is_phys (l_of_m rm) = true) by (destruct rm; reflexivity).
  assert (P2 : l_is_phys (l_of_m rm') = true) by (destruct rm'; reflexivity).
  pose proof (fun v => c_loading_factor_phys_at M rml rmg (Some (kelvin_of tk T)) v None None (l_of_m rm) (l_of_m rm') a Ha HM Hl Hg P1 P2) as HG.
  clear P1 P2.
  unfold convert_material.
  destruct rl as [u|u|u|u| |]; try discriminate Hphys;
  destruct rm as [[]|[]|[]], rm' as [[]|[]|[]];
  cbn [m_basis m_unit l_of_m l_basis l_unit molunit_name massunit_name volunit_name] in HF, HG;
  ev_iso3; try reflexivity; col_step HF; ev_iso3;
  match goal with |- context [iso_temperature _ ?s] =>
    replace (iso_temperature RNum s) with (@Ok R (kelvin_of tk T)) by (destruct tk; symmetry; solve_conv) end;
  ev_iso3; col_step HG; ev_iso3; reflexivity.
Qed.
