(* Hand-written (H) model of the read-only side of PointIsotherm (pointisotherm.py:648-1174):
   data(branch), pressure(), loading(), loading_at(), pressure_at() with their interpolator caches, and
   scipy.interpolate.interp1d(kind='linear') as the piecewise-linear interpolant over the sorted knots
   (its documented contract; other kinds are not modelled and yield `Unmodelled`).
   Tied to the code by the correspondence checks of C03 / C04 on every run. Calls the GENERATED converters. *)
From Coq Require Import QArith ZArith String List Bool.
From PG Require Import Lib.Num Lib.Py Gen.UnitsGen1 Units.AdsOracle Gen.UnitsGen2 Iso.IsoState Gen.IsoGen.
Import ListNotations.
Open Scope string_scope.

Section Access.
Variable N : Num.
Local Notation iso := (iso N).

(* ---- data(branch): rows of one branch, in stored order *)
Fixpoint zip3 (a b : list N) (c : list bool) : list (N * N * bool) :=
  match a, b, c with x :: a', y :: b', z :: c' => (x, y, z) :: zip3 a' b' c' | _, _, _ => [] end.
Definition rows (s : iso) : list (N * N * bool) := zip3 (col_p s) (col_l s) (col_branch s).
Definition branch_rows (s : iso) (branch : option string) : res (list (N * N * bool)) :=
  match branch with
  | None => Ok (rows s)
  | Some b =>
      if String.prefix "all" b then Ok (rows s)
      else if String.eqb b "ads" then Ok (filter (fun r => negb (snd r)) (rows s))
      else if String.eqb b "des" then Ok (filter (fun r => snd r) (rows s))
      else Err ParameterError
  end.
Definition p_of (r : N * N * bool) : N := fst (fst r).
Definition l_of (r : N * N * bool) : N := snd (fst r).

(* ---- limits: `if limits and any(lim is not None for lim in limits): ret.loc[ret.between(lo or -inf, hi or +inf)]` (inclusive) *)
Definition limits_t := option (option N * option N).
Definition num_truthy (x : option N) : bool := match x with Some v => negb (neqb v (nofQ 0)) | None => false end.
Definition limits_active (l : limits_t) : bool :=
  match l with Some (a, b) => (match a with Some _ => true | None => false end) || (match b with Some _ => true | None => false end) | None => false end.
Definition between (lo hi : option N) (x : N) : bool :=
  (match lo with Some a => nleb a x | None => true end) && (match hi with Some b => nleb x b | None => true end).
Definition select_limits (l : limits_t) (xs : list N) : list N :=
  match l with
  | Some (a, b) => if limits_active l then filter (between a b) xs else xs
  | None => xs end.

Definition catch_pg {A} (m : res A) : res A :=
  match m with Err e => if is_pg e then Err CalculationError else Err e | x => x end.
Definition or_default (x d : option string) : option string := if ostr_truthy x then x else d.

(* ---- pressure(branch, pressure_unit, pressure_mode, limits) *)
Definition iso_pressure (s : iso) (branch pu pm : option string) (limits : limits_t) : res (list N) :=
  bind (branch_rows s branch) (fun rs =>
  let ret := map p_of rs in
  match ret with
  | [] => Ok []
  | _ =>
    bind (if ostr_truthy pm || ostr_truthy pu then
            let pm' := or_default pm (pressure_mode s) in
            let pu' := or_default pu (pressure_unit s) in
            catch_pg (bind (iso_temperature N s) (fun T =>
              conv_col (fun x => c_pressure N x (pressure_mode s) pm' (pressure_unit s) pu' (iso_adsorbate s) (Some T)) ret))
          else Ok ret) (fun ret' => Ok (select_limits limits ret'))
  end).

(* ---- loading(branch, loading_unit, loading_basis, material_unit, material_basis, limits) *)
Definition iso_loading (s : iso) (branch lu lb mu mb : option string) (limits : limits_t) : res (list N) :=
  bind (branch_rows s branch) (fun rs =>
  let ret := map l_of rs in
  match ret with
  | [] => Ok []
  | _ =>
    let mat_req := ostr_truthy mb || ostr_truthy mu in
    let mb1 := if mat_req then or_default mb (material_basis s) else mb in
    bind (if mat_req then
            conv_col (fun x => c_material N x (material_basis s) mb1 (material_unit s) mu (iso_material s)) ret
          else Ok ret) (fun ret1 =>
    bind (if ostr_truthy lb || ostr_truthy lu then
            let lb' := or_default lb (loading_basis s) in
            let mb2 := or_default mb1 (material_basis s) in
            let mu2 := or_default mu (material_unit s) in
            bind (iso_temperature N s) (fun T =>
              conv_col (fun x => c_loading N x (loading_basis s) lb' (loading_unit s) lu (iso_adsorbate s) (Some T) mb2 mu2) ret1)
          else Ok ret1) (fun ret2 => Ok (select_limits limits ret2)))
  end).

(* ---- interp1d(kind='linear'): knots sorted by abscissa (stable insertion sort), piecewise-linear inside,
        ValueError outside unless a fill value was given *)
Fixpoint insert_knot (k : N * N) (l : list (N * N)) : list (N * N) :=
  match l with
  | [] => [k]
  | h :: t => if nltb (fst k) (fst h) then k :: l else h :: insert_knot k t
  end.
Fixpoint sort_knots (l : list (N * N)) : list (N * N) :=
  match l with [] => [] | h :: t => insert_knot h (sort_knots t) end.
Definition chord (a b : N * N) (x : N) : N :=
  nadd (snd a) (nmul (ndiv (nsub (snd b) (snd a)) (nsub (fst b) (fst a))) (nsub x (fst a))).
(* value on the segment containing x, for x within [first, last] of a list of >= 2 sorted knots *)
Fixpoint seg_eval (k : list (N * N)) (x : N) : option N :=
  match k with
  | a :: ((b :: _) as t) => if nleb x (fst b) then Some (chord a b x) else seg_eval t x
  | _ => None
  end.
Definition last_two (k : list (N * N)) : option ((N * N) * (N * N)) :=
  match rev k with b :: a :: _ => Some (a, b) | _ => None end.
Definition interp_one (k : list (N * N)) (fill : fillv N) (x : N) : res N :=
  match k, last_two k with
  | a :: b :: _, Some (y, z) =>
      if nltb x (fst a) then
        match fill with FNone => Err ValueError | FNum v => Ok v | FPair lo _ => Ok lo | FExtrap => Ok (chord a b x) end
      else if nltb (fst z) x then
        match fill with FNone => Err ValueError | FNum v => Ok v | FPair _ hi => Ok hi | FExtrap => Ok (chord y z x) end
      else match seg_eval k x with Some v => Ok v | None => Err ValueError end
  | _, _ => Err ValueError
  end.

Definition fill_eqb (a b : fillv N) : bool :=
  match a, b with
  | FNone, FNone | FExtrap, FExtrap => true
  | FNum x, FNum y => neqb x y
  | FPair x1 x2, FPair y1 y2 => neqb x1 y1 && neqb x2 y2
  | _, _ => false end.
Definition cache_fresh (c : option (cache N)) (branch kind : option string) (fill : fillv N) : bool :=
  match c with
  | Some k => ostr_eqb (c_branch k) branch && ostr_eqb (c_kind k) kind && fill_eqb (c_fill k) fill
  | None => false end.
(* IsothermInterpolator(known, interp, branch, kind, fill): interp1d needs >= 2 points (ValueError otherwise) *)
Definition build_cache (xs ys : list N) (branch kind : option string) (fill : fillv N) : res (cache N) :=
  if Nat.ltb (length xs) 2 then Err ValueError else Ok (mkCache N branch kind fill xs ys).
Definition apply_cache (c : cache N) (xs : list N) : res (list N) :=
  if ostr_eqb (c_kind c) (Some "linear") then
    mapM (interp_one (sort_knots (combine (c_x c) (c_y c))) (c_fill c)) xs
  else Err FellOffEnd (* Unmodelled interpolation kind *).

(* ---- loading_at(pressure, branch, interpolation_type, interp_fill, pressure_unit, pressure_mode,
                   loading_unit, loading_basis, material_unit, material_basis): first (re)build the cached interpolator when its
        key differs, then convert the query, interpolate with the cache, convert the answer *)
Definition ensure_l_cache (s : iso) (branch kind : option string) (fill : fillv N) : sres iso iso :=
  if cache_fresh (l_interpolator s) branch kind fill then SOk s
  else sbind s (iso_pressure s branch None None None) (fun xs =>
       sbind s (iso_loading s branch None None None None None) (fun ys =>
       sbind s (build_cache xs ys branch kind fill) (fun c => SOk (set_l_interpolator (Some c) s)))).
Definition loading_at_with (s1 : iso) (pressure : list N) (pu pm lu lb mu mb : option string) : res (list N) :=
  bind (if ostr_truthy pm || ostr_truthy pu then
          let pm' := or_default pm (pressure_mode s1) in
          if ostr_eqb pm' (Some "absolute") && negb (ostr_truthy pu) then Err ParameterError
          else bind (iso_temperature N s1) (fun T =>
               conv_col (fun x => c_pressure N x pm' (pressure_mode s1) pu (pressure_unit s1) (iso_adsorbate s1) (Some T)) pressure)
        else Ok pressure) (fun p1 =>
  bind (match l_interpolator s1 with Some c => apply_cache c p1 | None => Err AttributeError end) (fun l0 =>
  let mat_req := ostr_truthy mb || ostr_truthy mu in
  bind (if mat_req then
          conv_col (fun x => c_material N x (material_basis s1) (or_default mb (material_basis s1)) (material_unit s1) mu (iso_material s1)) l0
        else Ok l0) (fun l1 =>
  if ostr_truthy lb || ostr_truthy lu then
    bind (iso_temperature N s1) (fun T =>
      conv_col (fun x => c_loading N x (loading_basis s1) (or_default lb (loading_basis s1)) (loading_unit s1) lu
                           (iso_adsorbate s1) (Some T) (material_basis s1) (material_unit s1)) l1)
  else Ok l1))).
Definition iso_loading_at (s : iso) (pressure : list N) (branch kind : option string) (fill : fillv N)
    (pu pm lu lb mu mb : option string) : sres iso (iso * list N) :=
  mbind (ensure_l_cache s branch kind fill) (fun s1 =>
  sbind s1 (loading_at_with s1 pressure pu pm lu lb mu mb) (fun l => SOk (s1, l))).

(* ---- pressure_at(loading, ...) *)
Definition ensure_p_cache (s : iso) (branch kind : option string) (fill : fillv N) : sres iso iso :=
  if cache_fresh (p_interpolator s) branch kind fill then SOk s
  else sbind s (iso_loading s branch None None None None None) (fun xs =>
       sbind s (iso_pressure s branch None None None) (fun ys =>
       sbind s (build_cache xs ys branch kind fill) (fun c => SOk (set_p_interpolator (Some c) s)))).
Definition pressure_at_with (s1 : iso) (loading : list N) (pu pm lu lb mu mb : option string) : res (list N) :=
  let mat_req := ostr_truthy mb || ostr_truthy mu in
  bind (if mat_req then
          if negb (ostr_truthy mu) then Err ParameterError
          else conv_col (fun x => c_material N x (or_default mb (material_basis s1)) (material_basis s1) mu (material_unit s1) (iso_material s1)) loading
        else Ok loading) (fun l1 =>
  bind (if ostr_truthy lb || ostr_truthy lu then
          if negb (ostr_truthy lu) then Err ParameterError
          else bind (iso_temperature N s1) (fun T =>
            conv_col (fun x => c_loading N x (or_default lb (loading_basis s1)) (loading_basis s1) lu (loading_unit s1)
                                 (iso_adsorbate s1) (Some T) (material_basis s1) (material_unit s1)) l1)
        else Ok l1) (fun l2 =>
  bind (match p_interpolator s1 with Some c => apply_cache c l2 | None => Err AttributeError end) (fun p0 =>
  if ostr_truthy pm || ostr_truthy pu then
    bind (iso_temperature N s1) (fun T =>
      conv_col (fun x => c_pressure N x (pressure_mode s1) (or_default pm (pressure_mode s1)) (pressure_unit s1) pu (iso_adsorbate s1) (Some T)) p0)
  else Ok p0))).
Definition iso_pressure_at (s : iso) (loading : list N) (branch kind : option string) (fill : fillv N)
    (pu pm lu lb mu mb : option string) : sres iso (iso * list N) :=
  mbind (ensure_p_cache s branch kind fill) (fun s1 =>
  sbind s1 (pressure_at_with s1 loading pu pm lu lb mu mb) (fun p => SOk (s1, p))).

(* ---- spreading_pressure_at(pressure, branch, units..., interp_fill): OUTCOME only (the value is the subject of C11).
        The range guard refuses pressures above the data range when no fill rule is passed (pointisotherm.py:1249). *)
Fixpoint lmax (d : N) (l : list N) : N := match l with [] => d | x :: r => let m := lmax d r in if nltb m x then x else m end.
Fixpoint lmin (d : N) (l : list N) : N := match l with [] => d | x :: r => let m := lmin d r in if nltb x m then x else m end.
Definition iso_spreading_outcome (s : iso) (p : N) (branch : option string) (fill : fillv N)
    (pu pm lu lb mu mb : option string) : sres iso (iso * Datatypes.unit) :=
  sbind s (iso_pressure s branch pu pm None) (fun ps =>
  sbind s (iso_loading s branch lu lb mu mb None) (fun ls =>
  match ps with
  | [] => SErr ValueError s
  | p0 :: _ =>
    let guard := match fill with FNone => true | _ => false end in     (* `if interp_fill is None and pressure > pressures.max()` *)
    if guard && nltb (lmax p0 ps) p then SErr CalculationError s
    else if Nat.eqb (length (filter (fun x => nltb x p) ps)) 0 then SOk (s, tt)   (* Henry segment: henry_const * p *)
    else mbind (iso_loading_at s [p] branch (Some "linear") fill pu pm lu lb mu mb) (fun '(s1, _) => SOk (s1, tt))
  end)).
End Access.
