(* C02, loading step: the GENERATED convert_loading on a well-labelled state, all 27 x 27 pairs, any material rep. *)
From Coq Require Import Reals Lra QArith Qreals ZArith String List Bool.
From PG Require Import Lib.Num Lib.Py Lib.Tac Gen.UnitsGen1 Units.AdsOracle Gen.UnitsGen2 Units.UnitsSpec
  Units.LoadingPhys Units.C01Theorems Iso.IsoState Gen.IsoGen Iso.IsoSpec Iso.ConvPressure.
Import ListNotations.
Open Scope R_scope.

Definition lrep_eqb (a b : lrep) : bool := ostr_eqb (l_basis a) (l_basis b) && ostr_eqb (l_unit a) (l_unit b).
Lemma lrep_eqb_eq a b : lrep_eqb a b = true <-> a = b.
Proof. destruct a as [[]|[]|[]|[]| |], b as [[]|[]|[]|[]| |]; cbv; split; congruence. Qed.

Ltac ev_iso2 := cbv -[Rmult Rdiv Rinv Rplus Rminus Ropp IZR Q2R Req_EM_T Rlt_dec Rle_dec Reqb Rltb Rleb
                      RNum conv_col c_pressure c_loading c_material c_temperature iso_temperature spec_conv p_canon l_canon m_canon
                      m_basis m_unit kelvin_of map].

Theorem convert_loading_step (a : adsorbate RNum) M rml rmg T tk rp rm m cp cl cb li pi vb (rl rl' : lrep) :
  ads_at a (Some (kelvin_of tk T)) M rml rmg -> 0 < M -> 0 < rml -> 0 < rmg ->
  convert_loading RNum (mk_state rp rl rm tk T a m cp cl cb li pi) (l_basis rl') (l_unit rl') vb
  = SOk (if lrep_eqb rl' rl then mk_state rp rl rm tk T a m cp cl cb li pi
         else mk_state rp rl' rm tk T a m cp
                (map (spec_conv (l_canon M rml rmg rm rl) (l_canon M rml rmg rm rl')) cl) cb None None).
Proof.
  intros Ha HM Hl Hg.
  pose proof (fun v => c_loading_factor_at M rml rmg (Some (kelvin_of tk T)) v rm rl rl' a Ha HM Hl Hg) as HF.
  pose proof (iso_temperature_mk rp rl rm tk T a m cp cl cb li pi) as HK.
  unfold convert_loading. rewrite ?HK. clear HK.
  destruct rl as [[]|[]|[]|[]| |], rl' as [[]|[]|[]|[]| |];
  cbn [l_basis l_unit molunit_name massunit_name volunit_name] in HF;
  ev_iso2; try reflexivity; col_step HF; ev_iso2; reflexivity.
Qed.
