(* execution of the GENERATED ModelIsotherm queries (Gen/ModelIsoGen.v) over exact rationals for the correspondence run of C03:
   the fitted model is an exact rational function (Langmuir, Henry), so model and implementation can be compared per call *)
From Coq Require Import QArith ZArith String List.
From PG Require Import Lib.Num Lib.Py Lib.Show Gen.UnitsGen1 Units.AdsOracle Gen.UnitsGen2 Iso.IsoState Gen.IsoGen Gen.ModelIsoGen.
Import ListNotations. Open Scope string_scope.

Inductive mkind := MLangmuir (nm K : Q) | MHenry (K : Q).
Definition qdiv (a b : Q) : res Q := if Qeq_bool b 0 then Err ZeroDivisionError else Ok (a / b).
Definition m_loading (k : mkind) (p : Q) : res Q :=
  match k with MLangmuir nm K => qdiv (nm * K * p) (1 + K * p) | MHenry K => Ok (K * p) end.
Definition m_pressure (k : mkind) (n : Q) : res Q :=
  match k with MLangmuir nm K => qdiv n (K * (nm - n)) | MHenry K => qdiv n K end.
(* one query: which method, the point, the seven optional arguments *)
Definition mquery (k : mkind) (br : option string) (s : iso QNum) (is_loading_at : bool) (x : Q)
    (b pu pm lu lb mu mb : option string) : res Q :=
  if is_loading_at then model_loading_at QNum br (m_loading k) s x b pu pm lu lb mu mb
  else model_pressure_at QNum br (m_pressure k) s x b pu pm lu lb mu mb.
Definition mcmp (tn td : Z) (r : res Q) (oc m e : Z) : Z * Z := cmpq tn td r oc m e.
