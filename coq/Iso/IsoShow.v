(* Execution helpers for the correspondence check of C02/C03/C04: histories of calls on the QNum instance,
   every intermediate state printed as a list of integers. *)
From Coq Require Import QArith ZArith String List Bool.
From PG Require Import Lib.Num Lib.Py Lib.Show Gen.UnitsGen1 Units.AdsOracle Gen.UnitsGen2 Iso.IsoState Gen.IsoGen.
Import ListNotations.
Open Scope string_scope.

Definition LABELS : list string :=
  ["absolute"; "relative"; "relative%"; "mass"; "volume_gas"; "volume_liquid"; "molar"; "percent"; "fraction"; "volume";
   "Pa"; "kPa"; "MPa"; "mbar"; "bar"; "atm"; "mmHg"; "torr";
   "mmol"; "mol"; "kmol"; "cm3(STP)"; "mL(STP)"; "cc(STP)"; "L(STP)";
   "amu"; "mg"; "cg"; "dg"; "g"; "kg"; "cm3"; "mL"; "cc"; "dm3"; "L"; "m3";
   "K"; "°C"; "C"; "celsius"; "bogus"; ""].
Fixpoint index_of (s : string) (l : list string) (k : Z) : Z :=
  match l with [] => (-1)%Z | x :: r => if String.eqb s x then k else index_of s r (k + 1)%Z end.
Definition lab_code (l : option string) : Z := match l with None => 0%Z | Some s => index_of s LABELS 1%Z end.

Definition qpair (q : Q) : list Z := [Qnum q; Zpos (Qden q)].
Definition snap_state (s : iso QNum) : list Z :=
  [lab_code (pressure_mode s); lab_code (pressure_unit s); lab_code (loading_basis s); lab_code (loading_unit s);
   lab_code (material_basis s); lab_code (material_unit s); lab_code (temperature_unit s)]
  ++ qpair (raw_temperature s)
  ++ [match l_interpolator s with Some _ => 1%Z | None => 0%Z end; match p_interpolator s with Some _ => 1%Z | None => 0%Z end;
      Z.of_nat (length (col_p s))]
  ++ flat_map qpair (col_p s) ++ flat_map qpair (col_l s).
Definition snap (r : sres (iso QNum) (iso QNum)) : list Z :=
  match r with SOk s => 0%Z :: snap_state s | SErr e s => exn_code e :: snap_state s end.

Inductive call :=
| CP (m u : option string) | CL (b u : option string) | CM (b u : option string) | CT (u : option string)
| CAll (pm pu lb lu mb mu : option string).
Definition do_call (s : iso QNum) (c : call) : sres (iso QNum) (iso QNum) :=
  match c with
  | CP m u => convert_pressure QNum s m u false
  | CL b u => convert_loading QNum s b u false
  | CM b u => convert_material QNum s b u false
  | CT u => convert_temperature QNum s u false
  | CAll pm pu lb lu mb mu => convert QNum s pm pu lb lu mb mu false
  end.
Fixpoint run_hist (s : iso QNum) (cs : list call) : list (list Z) :=
  match cs with
  | [] => []
  | c :: r => let o := do_call s c in snap o :: run_hist (state_after o) r
  end.

(* comparison inside Coq: expected = what the implementation holds after the call (T, col_p ++ col_l as mantissa/exponent) *)
Definition snap_cmp (tn td : Z) (r : sres (iso QNum) (iso QNum)) (expected : list (Z * Z)) : list Z :=
  let s := state_after r in
  [match r with SOk _ => 0%Z | SErr e _ => exn_code e end;
   lab_code (pressure_mode s); lab_code (pressure_unit s); lab_code (loading_basis s); lab_code (loading_unit s);
   lab_code (material_basis s); lab_code (material_unit s); lab_code (temperature_unit s);
   match l_interpolator s with Some _ => 1%Z | None => 0%Z end; match p_interpolator s with Some _ => 1%Z | None => 0%Z end;
   if all_close tn td (raw_temperature s :: col_p s ++ col_l s) expected then 1%Z else 0%Z].
Fixpoint run_hist_cmp (tn td : Z) (s : iso QNum) (cs : list (call * list (Z * Z))) : list (list Z) :=
  match cs with
  | [] => []
  | (c, ex) :: r => let o := do_call s c in snap_cmp tn td o ex :: run_hist_cmp tn td (state_after o) r
  end.
