(* C02, calls with ARBITRARY argument strings, part 2: the GENERATED convert_pressure / convert_loading / convert_material /
   convert_temperature (Gen/IsoGen.v) for ALL states: the common prelude (omitted / empty mode-basis = current one,
   omitted unit with unchanged basis = current unit), no-op, refusal, "the unit argument is ignored" and "label only" cases,
   the frame property of the pressure and temperature conversions w.r.t. the material unit label, and the pressure step
   for arbitrary strings on a well-labelled state (reduced to Iso/ConvPressure.v convert_pressure_step). *)
From Coq Require Import Reals Lra QArith Qreals ZArith String List Bool.
From PG Require Import Lib.Num Lib.Py Lib.Tac Gen.UnitsGen1 Units.AdsOracle Gen.UnitsGen2 Units.UnitsSpec
  Units.LoadingPhys Units.MaterialProofs Units.C01Theorems Units.Refusal Iso.IsoState Gen.IsoGen Iso.IsoSpec
  Iso.ConvPressure Iso.ConvLoading Iso.ConvMaterial Iso.ConvMaterialFrac Iso.C02Theorems Iso.C02Strings.
Import ListNotations.
Open Scope string_scope.

Definition smap (f : iso RNum -> iso RNum) (r : sres (iso RNum) (iso RNum)) : sres (iso RNum) (iso RNum) :=
  match r with SOk s => SOk (f s) | SErr e s => SErr e (f s) end.

Ltac red_s := cbn [pressure_mode pressure_unit loading_basis loading_unit material_basis material_unit temperature_unit raw_temperature
  iso_adsorbate iso_material col_p col_l col_branch l_interpolator p_interpolator
  set_pressure_mode set_pressure_unit set_loading_basis set_loading_unit set_material_basis set_material_unit set_temperature_unit
  set_raw_temperature set_col_p set_col_l set_l_interpolator set_p_interpolator
  srun sbindc sbind scatch_pg mbind smap negb andb].
Ltac split_ifs :=
  repeat (red_s; match goal with
    | |- context [if ?c then _ else _] => destruct c
    | |- context [match ?m with Ok _ => _ | Err _ => _ end] => destruct m
    | |- context [sbind _ ?m _] => lazymatch m with Ok _ => fail | Err _ => fail | _ => destruct m end
    end); red_s.

Lemma cp_frame_mu (s : iso RNum) mu m u vb :
  convert_pressure RNum (set_material_unit mu s) m u vb = smap (set_material_unit mu) (convert_pressure RNum s m u vb).
Proof.
  destruct s. unfold convert_pressure, iso_temperature. split_ifs. all: reflexivity.
Qed.
Lemma ct_frame_mu (s : iso RNum) mu u vb :
  convert_temperature RNum (set_material_unit mu s) u vb = smap (set_material_unit mu) (convert_temperature RNum s u vb).
Proof.
  destruct s. unfold convert_temperature. split_ifs. all: reflexivity.
Qed.

(* ------------------------------------------------------------------ the common prelude of the three conversions *)
Definition eff_b (cur b : option string) : option string := if ostr_truthy b then b else cur.
Definition eff_u (cur_b cur_u b' u : option string) : option string := if negb (ostr_truthy u) && ostr_eqb b' cur_b then cur_u else u.
Lemma prelude_b {C} cur b :
  (if negb (ostr_truthy b) then @SOk (iso RNum) (ctl C (option string)) (Fall cur) else SOk (Fall b)) = SOk (Fall (eff_b cur b)).
Proof. unfold eff_b; destruct (ostr_truthy b); reflexivity. Qed.
Lemma prelude_u {C} cur_b cur_u b' u :
  (if negb (ostr_truthy u) && ostr_eqb b' cur_b then @SOk (iso RNum) (ctl C (option string)) (Fall cur_u) else SOk (Fall u))
  = SOk (Fall (eff_u cur_b cur_u b' u)).
Proof. unfold eff_u; destruct (negb (ostr_truthy u) && ostr_eqb b' cur_b); reflexivity. Qed.
Lemma eff_b_truthy cur b : ostr_truthy cur = true -> ostr_truthy (eff_b cur b) = true.
Proof. unfold eff_b; destruct (ostr_truthy b) eqn:E; auto. Qed.
Lemma eff_b_idem cur b : ostr_truthy cur = true -> eff_b cur (eff_b cur b) = eff_b cur b.
Proof. intro H. unfold eff_b at 1. rewrite (eff_b_truthy _ b H). reflexivity. Qed.
Lemma eff_u_idem cb cu b' u : eff_u cb cu b' (eff_u cb cu b' u) = eff_u cb cu b' u.
Proof.
  unfold eff_u. destruct (negb (ostr_truthy u) && ostr_eqb b' cb) eqn:E; [|rewrite E; reflexivity].
  destruct (negb (ostr_truthy cu) && ostr_eqb b' cb); reflexivity.
Qed.
(* when the effective unit is not truthy, it is the current one or the call changes the basis *)
Lemma eff_u_falsy cb cu b' u : ostr_eqb b' cb = true -> ostr_truthy (eff_u cb cu b' u) = false -> eff_u cb cu b' u = cu.
Proof. unfold eff_u. intros ->. destruct (ostr_truthy u) eqn:E; cbn [negb andb]; [congruence|reflexivity]. Qed.

Lemma conv_col_congr (f g : R -> res R) col : (forall v, f v = g v) -> conv_col (N:=RNum) f col = conv_col (N:=RNum) g col.
Proof.
  intro H. destruct col as [|x r]; [simpl; rewrite H; reflexivity|]. unfold conv_col.
  induction (x :: r) as [|y l IH]; simpl; [reflexivity|]. rewrite H, IH. reflexivity.
Qed.
Ltac cp_open :=
  unfold convert_pressure; rewrite prelude_b;
  cbn [sbindc]; rewrite prelude_u; cbn [sbindc].

Section P.
  Variables (s : iso RNum) (m u : option string) (vb : bool).
  Let m' := eff_b (pressure_mode s) m.
  Let u' := eff_u (pressure_mode s) (pressure_unit s) m' u.
  Lemma cp_eff : ostr_truthy (pressure_mode s) = true -> convert_pressure RNum s m u vb = convert_pressure RNum s m' u' vb.
  Proof.
    intro H. cp_open. symmetry. cp_open. unfold m', u'. rewrite (eff_b_idem _ _ H), eff_u_idem. reflexivity.
  Qed.
  Lemma cp_noop : ostr_eqb m' (pressure_mode s) = true -> ostr_eqb u' (pressure_unit s) = true -> convert_pressure RNum s m u vb = SOk s.
  Proof. intros H1 H2. cp_open. fold m'. rewrite H1. fold u'. rewrite H2. reflexivity. Qed.
  Lemma cp_refused e : (ostr_eqb m' (pressure_mode s) && ostr_eqb u' (pressure_unit s))%bool = false ->
    (forall v t, c_pressure RNum v (pressure_mode s) m' (pressure_unit s) u' (iso_adsorbate s) (Some t) = Err e) ->
    exists e', outcome (convert_pressure RNum s m u vb) = Some e'.
  Proof.
    intros H1 H2. cp_open. fold m'. fold u'. rewrite H1. cbn [sbindc].
    destruct (iso_temperature RNum s) as [t|e0]; cbn [sbind scatch_pg sbindc srun outcome].
    - rewrite (conv_col_err _ e _ (fun v => H2 v t)). cbn [sbind scatch_pg sbindc srun outcome].
      destruct (is_pg e); eexists; reflexivity.
    - destruct (is_pg e0); eexists; reflexivity.
  Qed.
  Lemma cp_rel_ignores t t0 : pressure_mode s = Some (pmode_name t0) -> m' = Some (pmode_name t) -> t <> MAbs -> pmode_eqb t t0 = false ->
    convert_pressure RNum s m u vb = convert_pressure RNum s m' None vb.
  Proof.
    intros Hs Hm Ht Hne.
    assert (E : ostr_eqb m' (pressure_mode s) = false) by (rewrite Hs, Hm; rewrite pmode_name_eqb; exact Hne).
    assert (Ea : ostr_eqb m' (Some "absolute") = false) by (rewrite Hm; destruct t; [congruence|reflexivity|reflexivity]).
    assert (Hp : ostr_truthy (pressure_mode s) = true) by (rewrite Hs; destruct t0; reflexivity).
    assert (Hm' : eff_b (pressure_mode s) m' = m') by (unfold m'; apply eff_b_idem; exact Hp).
    cp_open. fold m'. symmetry. cp_open. rewrite Hm'.
    unfold eff_u. rewrite E, !andb_false_r. cbn [andb sbindc].
    destruct (iso_temperature RNum s) as [tK|e0]; [|cbn [sbind scatch_pg]; destruct (is_pg e0); reflexivity]. cbn [sbind].
    rewrite (conv_col_congr _ (fun x_3 => c_pressure RNum x_3 (pressure_mode s) m' (pressure_unit s) u (iso_adsorbate s) (Some tK))).
    2:{ intro v. rewrite Hs, Hm. symmetry. apply c_pressure_rel_target_ignores_unit. exact Ht. }
    destruct (conv_col _ (col_p s)) as [c|e1]; [|cbn [sbind scatch_pg]; destruct (is_pg e1); reflexivity].
    cbn [sbind scatch_pg sbindc]. rewrite Ea.
    match goal with |- context [if ?c then _ else _] => destruct c end; cbn [sbindc]; rewrite !andb_false_r; reflexivity.
  Qed.
  Lemma cp_same_rel t tK : pressure_mode s = Some (pmode_name t) -> t <> MAbs -> m' = pressure_mode s ->
    ostr_eqb u' (pressure_unit s) = false -> iso_temperature RNum s = Ok tK ->
    convert_pressure RNum s m u vb
    = SOk (set_p_interpolator None (set_l_interpolator None (set_pressure_unit None (set_col_p (map (fun x => x) (col_p s)) s)))).
  Proof.
    intros Hs Ht Hm Hu HT. cp_open. fold m'. fold u'. rewrite Hm, Hu, ostr_eqb_refl, HT. cbn [andb sbindc sbind].
    rewrite (conv_col_ext _ (fun x => x)).
    2:{ intro v. rewrite Hs. apply c_pressure_same_rel. exact Ht. }
    cbn [sbind scatch_pg sbindc]. red_s. rewrite ostr_eqb_refl. cbn [negb sbindc]. red_s.
    assert (Ea : ostr_eqb (pressure_mode s) (Some "absolute") = false) by (rewrite Hs; destruct t; [congruence|reflexivity|reflexivity]).
    rewrite Ea, andb_false_r. reflexivity.
  Qed.
End P.

Lemma neq_eqb a b : a <> b -> ostr_eqb a b = false.
Proof. intro H. destruct (ostr_eqb a b) eqn:E; [apply ostr_eqb_eq in E; contradiction|reflexivity]. Qed.
Lemma p_mode_name r : p_mode r = Some (pmode_name (pmode_of r)).
Proof. destruct r; reflexivity. Qed.
Lemma p_mode_truthy r : ostr_truthy (p_mode r) = true.
Proof. destruct r; reflexivity. Qed.

Open Scope R_scope.
(* the target of a pressure call with EFFECTIVE arguments m' u' from a state whose labels name rp *)
Definition resolve_p_eff (m' u' : option string) : option prep :=
  match parse_pmode m' with
  | None => None
  | Some MAbs => option_map PAbs (parse_punit u')
  | Some MRel => Some PRel
  | Some MRelPct => Some PRelPct end.
Definition resolve_p (rp : prep) (m u : option string) : option prep :=
  let m' := eff_b (p_mode rp) m in resolve_p_eff m' (eff_u (p_mode rp) (p_unit rp) m' u).

Section PStep.
  Variables (a : adsorbate RNum) (psat T : R) (tk : bool) (rl : lrep) (mat : material RNum) (cp cl : list R) (cb : list bool).
  Hypotheses (Ha : a_psat_Pa a (Some (kelvin_of tk T)) = Some psat) (Hp : 0 < psat) (HT : kelvin_of tk T <> 0).

  Lemma map_spec_conv_id c (l : list R) : c <> 0 -> map (spec_conv c c) l = l.
  Proof. intro H. erewrite map_ext; [apply map_id|]. intro v. apply spec_conv_id. exact H. Qed.

  Lemma gp_mk rm li pi rp m u vb :
    let S := mk_state rp rl rm tk T a mat cp cl cb li pi in
    match resolve_p rp m u with
    | Some rp' => exists li' pi', convert_pressure RNum S m u vb
          = SOk (mk_state rp' rl rm tk T a mat (map (spec_conv (p_canon psat rp) (p_canon psat rp')) cp) cl cb li' pi')
    | None => exists e, outcome (convert_pressure RNum S m u vb) = Some e
    end.
  Proof.
    intro S. unfold resolve_p.
    assert (Hpm : pressure_mode S = p_mode rp) by reflexivity. assert (Hpu : pressure_unit S = p_unit rp) by reflexivity.
    pose proof (cp_eff S m u vb) as Heff. pose proof (cp_noop S m u vb) as Hnoop. pose proof (cp_refused S m u vb) as Href.
    pose proof (cp_rel_ignores S m u vb) as Hrel. pose proof (cp_same_rel S m u vb) as Hsame.
    rewrite Hpm, Hpu in *. cbv zeta in *.
    assert (Hfalsy := eff_u_falsy (p_mode rp) (p_unit rp) (eff_b (p_mode rp) m) u).
    assert (Htm := eff_b_truthy (p_mode rp) m (p_mode_truthy rp)).
    specialize (Heff (p_mode_truthy rp)).
    set (m' := eff_b (p_mode rp) m) in *. set (u' := eff_u (p_mode rp) (p_unit rp) m' u) in *. clearbody u'. clearbody m'.
    assert (Hstep := fun rp' => convert_pressure_step a psat T tk rl rm mat cp cl cb li pi vb rp rp' Ha Hp HT). fold S in Hstep.
    assert (Hnorm : forall rp', exists li' pi',
       (if prep_eqb rp' rp then S else mk_state rp' rl rm tk T a mat (map (spec_conv (p_canon psat rp) (p_canon psat rp')) cp) cl cb None None)
       = mk_state rp' rl rm tk T a mat (map (spec_conv (p_canon psat rp) (p_canon psat rp')) cp) cl cb li' pi').
    { intro rp'. destruct (prep_eqb rp' rp) eqn:E; [|eexists; eexists; reflexivity].
      apply prep_eqb_eq in E; subst rp'. exists li, pi. rewrite map_spec_conv_id; [reflexivity|]. apply Rgt_not_eq, p_canon_pos; exact Hp. }
    unfold resolve_p_eff. destruct (parse_pmode m') as [t|] eqn:Ep.
    2:{ (* unknown mode *)
      apply (Href ParameterError).
      - rewrite neq_eqb; [reflexivity|]. intro E; rewrite E, parse_pmode_of in Ep; discriminate Ep.
      - intros v t. apply c_pressure_refuses_unknown_mode. right. rewrite parse_pmode_known, Ep. reflexivity. }
    apply parse_pmode_some in Ep. subst m'.
    destruct (pmode_eqb t (pmode_of rp)) eqn:Et.
    - (* same mode *)
      apply pmode_eqb_eq in Et. subst t. rewrite <- p_mode_name in *.
      destruct rp as [pu0| |]; cbn [pmode_of].
      + (* absolute -> absolute *)
        destruct (parse_punit u') as [pu'|] eqn:Eu; cbn [option_map].
        * apply parse_punit_some in Eu. subst u'. destruct (Hnorm (PAbs pu')) as [li' [pi' En]].
          exists li', pi'. rewrite Heff. change (p_mode (PAbs pu0)) with (p_mode (PAbs pu')). rewrite Hstep, En. reflexivity.
        * assert (Hk : known_punit u' = false) by (rewrite parse_punit_known, Eu; reflexivity).
          assert (Hne : ostr_eqb u' (p_unit (PAbs pu0)) = false).
          { apply neq_eqb. intro E. rewrite E, parse_punit_of in Eu. discriminate Eu. }
          apply (Href ParameterError).
          -- rewrite Hne. apply andb_false_r.
          -- intros v t. apply c_pressure_refuses_unknown_unit_abs; [|right; exact Hk].
             destruct (ostr_truthy u') eqn:Etr; [reflexivity|]. rewrite (Hfalsy (ostr_eqb_refl _) eq_refl) in Hne.
             rewrite ostr_eqb_refl in Hne. discriminate Hne.
      + (* relative -> relative *)
        destruct (Hnorm PRel) as [li' [pi' En]]. cbn [prep_eqb p_mode p_unit ostr_eqb String.eqb andb] in En.
        destruct (ostr_eqb u' (p_unit PRel)) eqn:Eu.
        * exists li, pi. rewrite Hnoop; [|apply ostr_eqb_refl|first [exact Eu|reflexivity]]. rewrite map_spec_conv_id; [reflexivity|]. apply Rgt_not_eq; exact Hp.
        * exists None, None. rewrite (Hsame MRel (kelvin_of tk T) eq_refl); [|discriminate|reflexivity|first [exact Eu|reflexivity]|apply iso_temperature_mk].
          unfold S, mk_state; red_s. rewrite map_id, map_spec_conv_id; [reflexivity|]. apply Rgt_not_eq; exact Hp.
      + destruct (ostr_eqb u' (p_unit PRelPct)) eqn:Eu.
        * exists li, pi. rewrite Hnoop; [|apply ostr_eqb_refl|first [exact Eu|reflexivity]]. rewrite map_spec_conv_id; [reflexivity|].
          apply Rgt_not_eq, (p_canon_pos psat PRelPct); exact Hp.
        * exists None, None. rewrite (Hsame MRelPct (kelvin_of tk T) eq_refl); [|discriminate|reflexivity|first [exact Eu|reflexivity]|apply iso_temperature_mk].
          unfold S, mk_state; red_s. rewrite map_id, map_spec_conv_id; [reflexivity|]. apply Rgt_not_eq, (p_canon_pos psat PRelPct); exact Hp.
    - (* another mode *)
      destruct t.
      + (* -> absolute *)
        destruct (parse_punit u') as [pu'|] eqn:Eu; cbn [option_map].
        * apply parse_punit_some in Eu. subst u'. destruct (Hnorm (PAbs pu')) as [li' [pi' En]].
          exists li', pi'. rewrite Heff. change (Some (pmode_name MAbs)) with (p_mode (PAbs pu')). rewrite Hstep, En. reflexivity.
        * assert (Hk : known_punit u' = false) by (rewrite parse_punit_known, Eu; reflexivity).
          apply (Href ParameterError).
          -- rewrite p_mode_name, pmode_name_eqb, Et. reflexivity.
          -- intros v t. destruct rp as [pu0| |]; [discriminate Et| |];
             (apply c_pressure_refuses_unknown_unit_to; [|exact Hk]); [left|right]; reflexivity.
      + destruct (Hnorm PRel) as [li' [pi' En]]. exists li', pi'.
        rewrite (Hrel MRel (pmode_of rp) (p_mode_name rp) eq_refl); [|discriminate|exact Et].
        change (Some (pmode_name MRel)) with (p_mode PRel). change (@None string) with (p_unit PRel). rewrite Hstep, En. reflexivity.
      + destruct (Hnorm PRelPct) as [li' [pi' En]]. exists li', pi'.
        rewrite (Hrel MRelPct (pmode_of rp) (p_mode_name rp) eq_refl); [|discriminate|exact Et].
        change (Some (pmode_name MRelPct)) with (p_mode PRelPct). change (@None string) with (p_unit PRelPct). rewrite Hstep, En. reflexivity.
  Qed.
End PStep.

Close Scope R_scope.
Lemma conv_col_fails (f : R -> res R) col : (forall v, exists e, f v = Err e) -> exists e, conv_col (N:=RNum) f col = Err e.
Proof.
  intro H. destruct col as [|x r]; unfold conv_col; cbn [mapM].
  - destruct (H (@nofQ RNum 1)) as [e E]. rewrite E. eexists; reflexivity.
  - destruct (H x) as [e E]. rewrite E. eexists; reflexivity.
Qed.

Definition fracs : list (option string) := [Some "percent"; Some "fraction"].
Ltac cl_open :=
  unfold convert_loading; rewrite prelude_b;
  cbn [sbindc]; rewrite prelude_u; cbn [sbindc].

Definition pct_f (t0 : lbasis) (v : R) : R := match t0 with BLFraction => v * 100 | _ => v / 100 end%R.
Section L.
  Variables (s : iso RNum) (b u : option string) (vb : bool).
  Let b' := eff_b (loading_basis s) b.
  Let u' := eff_u (loading_basis s) (loading_unit s) b' u.
  Lemma cl_eff : ostr_truthy (loading_basis s) = true -> convert_loading RNum s b u vb = convert_loading RNum s b' u' vb.
  Proof.
    intro H. cl_open. symmetry. cl_open. unfold b', u'. rewrite (eff_b_idem _ _ H), eff_u_idem. reflexivity.
  Qed.
  Lemma cl_noop : ostr_eqb b' (loading_basis s) = true ->
    ostr_eqb u' (loading_unit s) = true \/ ostr_in (loading_basis s) fracs = true -> convert_loading RNum s b u vb = SOk s.
  Proof.
    intros H1 H2. cl_open. fold b'. rewrite H1. fold u'. cbn [andb].
    destruct (ostr_eqb u' (loading_unit s)) eqn:E; [reflexivity|]. destruct H2 as [H2|H2]; [discriminate H2|].
    cbn [sbindc]. unfold fracs in H2. rewrite H2. reflexivity.
  Qed.
  Lemma cl_refused :
    ostr_eqb b' (loading_basis s) = false \/ (ostr_eqb u' (loading_unit s) = false /\ ostr_in (loading_basis s) fracs = false) ->
    (forall v t, exists e, c_loading RNum v (loading_basis s) b' (loading_unit s) u' (iso_adsorbate s) (Some t) (material_basis s) (material_unit s) = Err e) ->
    exists e', outcome (convert_loading RNum s b u vb) = Some e'.
  Proof.
    intros H1 H2. cl_open. fold b'. fold u'.
    assert (E1 : (ostr_eqb b' (loading_basis s) && ostr_eqb u' (loading_unit s))%bool = false).
    { destruct H1 as [->|[-> _]]; [reflexivity|apply andb_false_r]. }
    rewrite E1. cbn [sbindc].
    assert (E2 : (if ostr_in (loading_basis s) [Some "percent"; Some "fraction"]
                  then sbindc (if (ostr_eqb b' (loading_basis s) && negb (ostr_eqb u' (loading_unit s)))%bool
                               then @SOk (iso RNum) (ctl (iso RNum) Datatypes.unit) (Return s) else SOk (Fall tt)) (fun _ => SOk (Fall tt))
                  else SOk (Fall tt)) = SOk (Fall tt)).
    { destruct H1 as [->|[_ H1]]; [destruct (ostr_in _ _); reflexivity|]. unfold fracs in H1. rewrite H1. reflexivity. }
    rewrite E2. cbn [sbindc].
    destruct (iso_temperature RNum s) as [t|e0]; cbn [sbind srun outcome]; [|eexists; reflexivity].
    match goal with |- context [conv_col ?f ?c] => destruct (conv_col_fails f c (fun v => H2 v t)) as [e E]; rewrite E end. cbn [sbind srun outcome]. eexists; reflexivity.
  Qed.
  Lemma cl_frac_ignores t t0 : loading_basis s = Some (lbasis_name t0) -> b' = Some (lbasis_name t) ->
    lbasis_phys t = false -> lbasis_phys t0 = true -> convert_loading RNum s b u vb = convert_loading RNum s b' None vb.
  Proof.
    intros Hs Hb Ht Ht0.
    assert (E : ostr_eqb b' (loading_basis s) = false).
    { rewrite Hs, Hb, lbasis_name_eqb. destruct t, t0; try discriminate; reflexivity. }
    assert (Ein : ostr_in b' [Some "percent"; Some "fraction"] = true) by (rewrite Hb; destruct t; try discriminate; reflexivity).
    assert (Hp : ostr_truthy (loading_basis s) = true) by (rewrite Hs; destruct t0; reflexivity).
    assert (Hb' : eff_b (loading_basis s) b' = b') by (unfold b'; apply eff_b_idem; exact Hp).
    cl_open. fold b'. symmetry. cl_open. rewrite Hb'.
    unfold eff_u. rewrite E, !andb_false_r. cbn [andb sbindc].
    destruct (ostr_in (loading_basis s) _); cbn [sbindc].
    all: (destruct (iso_temperature RNum s) as [tK|e0]; [|reflexivity]); cbn [sbind].
    all: rewrite (conv_col_congr _ (fun x_3 => c_loading RNum x_3 (loading_basis s) b' (loading_unit s) u (iso_adsorbate s) (Some tK) (material_basis s) (material_unit s)))
      by (intro v; rewrite Hs, Hb; symmetry; apply c_loading_frac_target_ignores_unit; assumption).
    all: (destruct (conv_col _ (col_l s)) as [c|e1]; [|reflexivity]); cbn [sbind sbindc].
    all: match goal with |- context [if ?c then _ else _] => destruct c end; cbn [sbindc]; rewrite Ein; reflexivity.
  Qed.
  Lemma cl_frac_frac t t0 tK : loading_basis s = Some (lbasis_name t0) -> b' = Some (lbasis_name t) ->
    lbasis_phys t = false -> lbasis_phys t0 = false -> lbasis_eqb t t0 = false -> iso_temperature RNum s = Ok tK ->
    convert_loading RNum s b u vb
    = SOk (set_p_interpolator None (set_l_interpolator None (set_loading_unit None (set_loading_basis b'
            (@set_col_l RNum (map (pct_f t0) (col_l s)) s))))).
  Proof.
    intros Hs Hb Ht Ht0 Hne HT.
    assert (E : ostr_eqb b' (loading_basis s) = false) by (rewrite Hs, Hb, lbasis_name_eqb; exact Hne).
    assert (Ein : ostr_in b' [Some "percent"; Some "fraction"] = true) by (rewrite Hb; destruct t; try discriminate; reflexivity).
    cl_open. fold b'. fold u'. rewrite E. cbn [andb sbindc].
    destruct (ostr_in (loading_basis s) _); cbn [sbindc]; rewrite HT; cbn [sbind].
    all: assert (Hc : forall v, c_loading RNum v (loading_basis s) b' (loading_unit s) u' (iso_adsorbate s) (Some tK) (material_basis s) (material_unit s) = Ok (pct_f t0 v))
      by (intro v; rewrite Hs, Hb; destruct t; try discriminate Ht; destruct t0; try discriminate Ht0; try discriminate Hne;
          [exact (c_loading_frac_to_pct _ _ _ _ _ _ _)|exact (c_loading_pct_to_frac _ _ _ _ _ _ _)]).
    all: (rewrite (conv_col_ext _ (pct_f t0) _ Hc)).
    all: (cbn [sbind sbindc]; red_s; rewrite E; cbn [negb sbindc]; rewrite Ein; reflexivity).
  Qed.
End L.

Ltac cm_open :=
  unfold convert_material; rewrite prelude_b;
  cbn [sbindc]; rewrite prelude_u; cbn [sbindc].
Section M.
  Variables (s : iso RNum) (b u : option string) (vb : bool).
  Let b' := eff_b (material_basis s) b.
  Let u' := eff_u (material_basis s) (material_unit s) b' u.
  Lemma cm_eff : ostr_truthy (material_basis s) = true -> convert_material RNum s b u vb = convert_material RNum s b' u' vb.
  Proof.
    intro H. cm_open. symmetry. cm_open. unfold b', u'. rewrite (eff_b_idem _ _ H), eff_u_idem. reflexivity.
  Qed.
  Lemma cm_noop : ostr_eqb b' (material_basis s) = true -> ostr_eqb u' (material_unit s) = true -> convert_material RNum s b u vb = SOk s.
  Proof. intros H1 H2. cm_open. fold b'. rewrite H1. fold u'. rewrite H2. reflexivity. Qed.
  (* fraction / percent loading, same material basis, another unit string: the string is CHECKED against the units of the
     basis; a unit -> only the label is written; anything else -> ParameterError, nothing changes *)
  Lemma cm_label_only t : ostr_in (loading_basis s) fracs = true -> material_basis s = mb_label t -> ostr_eqb b' (material_basis s) = true ->
    ostr_eqb u' (material_unit s) = false -> ostr_truthy u' = true -> tbl_mem u' (munits t) = true ->
    convert_material RNum s b u vb = SOk (set_material_unit u' s).
  Proof.
    intros H0 Hb H1 H2 Ht Hk. cm_open. fold b'. rewrite H1. fold u'. rewrite H2. unfold fracs in H0. rewrite H0. cbn [andb negb sbindc].
    apply ostr_eqb_eq in H1. rewrite H1, Hb.
    assert (Hc : _check_unit RNum u' (munits t) (Some "material") = Ok tt) by (unfold _check_unit; rewrite Ht, Hk; reflexivity).
    destruct t; cbn [mb_label mbasis_name mtbl_get _MATERIAL_MODE assoc String.eqb Ascii.eqb Bool.eqb sbind otbl_force]; cbn [munits] in Hc;
    rewrite Hc; reflexivity.
  Qed.
  Lemma cm_label_refused t : ostr_in (loading_basis s) fracs = true -> material_basis s = mb_label t -> ostr_eqb b' (material_basis s) = true ->
    ostr_eqb u' (material_unit s) = false -> tbl_mem u' (munits t) = false ->
    convert_material RNum s b u vb = SErr ParameterError s.
  Proof.
    intros H0 Hb H1 H2 Hk. cm_open. fold b'. rewrite H1. fold u'. rewrite H2. unfold fracs in H0. rewrite H0. cbn [andb negb sbindc].
    apply ostr_eqb_eq in H1. rewrite H1, Hb.
    pose proof (check_unit_unknown u' (munits t) (Some "material") Hk) as Hc.
    destruct t; cbn [mb_label mbasis_name mtbl_get _MATERIAL_MODE assoc String.eqb Ascii.eqb Bool.eqb sbind otbl_force]; cbn [munits] in Hc;
    rewrite Hc; reflexivity.
  Qed.
  Lemma cm_refused e :
    ostr_eqb b' (material_basis s) = false \/ (ostr_eqb u' (material_unit s) = false /\ ostr_in (loading_basis s) fracs = false) ->
    (forall v, c_material RNum v (material_basis s) b' (material_unit s) u' (iso_material s) = Err e) ->
    exists e', outcome (convert_material RNum s b u vb) = Some e'.
  Proof.
    intros H1 H2. cm_open. fold b'. fold u'.
    assert (E1 : (ostr_eqb b' (material_basis s) && ostr_eqb u' (material_unit s))%bool = false).
    { destruct H1 as [->|[-> _]]; [reflexivity|apply andb_false_r]. }
    rewrite E1. cbn [sbindc].
    assert (E2 : (ostr_in (loading_basis s) [Some "percent"; Some "fraction"] && ostr_eqb b' (material_basis s)
                  && negb (ostr_eqb u' (material_unit s)))%bool = false).
    { destruct H1 as [->|[_ H1]]; [rewrite andb_false_r; reflexivity|]. unfold fracs in H1. rewrite H1. reflexivity. }
    rewrite E2. cbn [sbindc]. rewrite (conv_col_err _ e _ H2). cbn [sbind srun outcome]. eexists; reflexivity.
  Qed.
End M.

(* temperature *)
Section Tm.
  Variables (s : iso RNum) (u : option string) (vb : bool).
  Lemma ct_celsius : celsius_like u = true -> convert_temperature RNum s u vb = convert_temperature RNum s (Some "°C") vb.
  Proof.
    intro H. unfold convert_temperature. fold (celsius_like u). rewrite H.
    replace (ostr_truthy (Some "°C") && ostr_contains (Some "c") (ostr_lower (Some "°C")))%bool with true by (vm_compute; reflexivity).
    reflexivity.
  Qed.
  Lemma ct_refused : celsius_like u = false -> ostr_eqb u (Some "K") = false ->
    exists e, outcome (convert_temperature RNum s u vb) = Some e.
  Proof.
    intros H1 H2. unfold convert_temperature. fold (celsius_like u). rewrite H1. cbn [sbindc].
    rewrite (c_temperature_refuses _ _ _ H1 H2). cbn [sbind srun outcome]. eexists; reflexivity.
  Qed.
End Tm.
