(* Hand-written (H): the state of a PointIsotherm as far as the permanent conversions and the accessors
   are concerned, and the state-and-exception monad in which the GENERATED methods (Gen/IsoGen.v) live.
   A raised exception carries the state reached at that moment: SErr e s. *)
From Coq Require Import QArith ZArith String List Bool.
From PG Require Import Lib.Num Lib.Py Units.AdsOracle.
Import ListNotations.

Section St.
Variable N : Num.
(* an interpolator cache entry: the key it was built with (branch, kind, fill value) and the knots it holds *)
Inductive fillv := FNone | FNum (v : N) | FPair (lo hi : N) | FExtrap.
Record cache := mkCache { c_branch : option string; c_kind : option string; c_fill : fillv; c_x : list N; c_y : list N }.
Record iso := mkIso {
  pressure_mode : option string; pressure_unit : option string;
  loading_basis : option string; loading_unit : option string;
  material_basis : option string; material_unit : option string;
  temperature_unit : option string; raw_temperature : N;
  iso_adsorbate : adsorbate N; iso_material : material N;
  col_p : list N; col_l : list N;      (* data_raw[pressure_key], data_raw[loading_key], in row order *)
  col_branch : list bool;              (* data_raw['branch'] : never written by a conversion *)
  l_interpolator : option cache; p_interpolator : option cache }.

Definition set_pressure_mode v (s : iso) := mkIso v (pressure_unit s) (loading_basis s) (loading_unit s) (material_basis s) (material_unit s) (temperature_unit s) (raw_temperature s) (iso_adsorbate s) (iso_material s) (col_p s) (col_l s) (col_branch s) (l_interpolator s) (p_interpolator s).
Definition set_pressure_unit v (s : iso) := mkIso (pressure_mode s) v (loading_basis s) (loading_unit s) (material_basis s) (material_unit s) (temperature_unit s) (raw_temperature s) (iso_adsorbate s) (iso_material s) (col_p s) (col_l s) (col_branch s) (l_interpolator s) (p_interpolator s).
Definition set_loading_basis v (s : iso) := mkIso (pressure_mode s) (pressure_unit s) v (loading_unit s) (material_basis s) (material_unit s) (temperature_unit s) (raw_temperature s) (iso_adsorbate s) (iso_material s) (col_p s) (col_l s) (col_branch s) (l_interpolator s) (p_interpolator s).
Definition set_loading_unit v (s : iso) := mkIso (pressure_mode s) (pressure_unit s) (loading_basis s) v (material_basis s) (material_unit s) (temperature_unit s) (raw_temperature s) (iso_adsorbate s) (iso_material s) (col_p s) (col_l s) (col_branch s) (l_interpolator s) (p_interpolator s).
Definition set_material_basis v (s : iso) := mkIso (pressure_mode s) (pressure_unit s) (loading_basis s) (loading_unit s) v (material_unit s) (temperature_unit s) (raw_temperature s) (iso_adsorbate s) (iso_material s) (col_p s) (col_l s) (col_branch s) (l_interpolator s) (p_interpolator s).
Definition set_material_unit v (s : iso) := mkIso (pressure_mode s) (pressure_unit s) (loading_basis s) (loading_unit s) (material_basis s) v (temperature_unit s) (raw_temperature s) (iso_adsorbate s) (iso_material s) (col_p s) (col_l s) (col_branch s) (l_interpolator s) (p_interpolator s).
Definition set_temperature_unit v (s : iso) := mkIso (pressure_mode s) (pressure_unit s) (loading_basis s) (loading_unit s) (material_basis s) (material_unit s) v (raw_temperature s) (iso_adsorbate s) (iso_material s) (col_p s) (col_l s) (col_branch s) (l_interpolator s) (p_interpolator s).
Definition set_raw_temperature v (s : iso) := mkIso (pressure_mode s) (pressure_unit s) (loading_basis s) (loading_unit s) (material_basis s) (material_unit s) (temperature_unit s) v (iso_adsorbate s) (iso_material s) (col_p s) (col_l s) (col_branch s) (l_interpolator s) (p_interpolator s).
Definition set_col_p v (s : iso) := mkIso (pressure_mode s) (pressure_unit s) (loading_basis s) (loading_unit s) (material_basis s) (material_unit s) (temperature_unit s) (raw_temperature s) (iso_adsorbate s) (iso_material s) v (col_l s) (col_branch s) (l_interpolator s) (p_interpolator s).
Definition set_col_l v (s : iso) := mkIso (pressure_mode s) (pressure_unit s) (loading_basis s) (loading_unit s) (material_basis s) (material_unit s) (temperature_unit s) (raw_temperature s) (iso_adsorbate s) (iso_material s) (col_p s) v (col_branch s) (l_interpolator s) (p_interpolator s).
Definition set_l_interpolator v (s : iso) := mkIso (pressure_mode s) (pressure_unit s) (loading_basis s) (loading_unit s) (material_basis s) (material_unit s) (temperature_unit s) (raw_temperature s) (iso_adsorbate s) (iso_material s) (col_p s) (col_l s) (col_branch s) v (p_interpolator s).
Definition set_p_interpolator v (s : iso) := mkIso (pressure_mode s) (pressure_unit s) (loading_basis s) (loading_unit s) (material_basis s) (material_unit s) (temperature_unit s) (raw_temperature s) (iso_adsorbate s) (iso_material s) (col_p s) (col_l s) (col_branch s) (l_interpolator s) v.

(* converting a data column: numpy/pandas apply the scalar arithmetic element-wise; the label checks of
   the converter run once whatever the length, hence the probe on an empty column *)
Fixpoint mapM (f : N -> res N) (l : list N) : res (list N) :=
  match l with
  | [] => Ok []
  | x :: r => bind (f x) (fun y => bind (mapM f r) (fun ys => Ok (y :: ys)))
  end.
Definition conv_col (f : N -> res N) (col : list N) : res (list N) :=
  match col with [] => bind (f (nofQ 1)) (fun _ => Ok []) | _ => mapM f col end.
End St.

Arguments pressure_mode {N}. Arguments pressure_unit {N}. Arguments loading_basis {N}. Arguments loading_unit {N}.
Arguments material_basis {N}. Arguments material_unit {N}. Arguments temperature_unit {N}. Arguments raw_temperature {N}.
Arguments iso_adsorbate {N}. Arguments iso_material {N}. Arguments col_p {N}. Arguments col_l {N}. Arguments col_branch {N}.
Arguments l_interpolator {N}. Arguments p_interpolator {N}.
Arguments set_pressure_mode {N}. Arguments set_pressure_unit {N}. Arguments set_loading_basis {N}. Arguments set_loading_unit {N}.
Arguments set_material_basis {N}. Arguments set_material_unit {N}. Arguments set_temperature_unit {N}. Arguments set_raw_temperature {N}.
Arguments set_col_p {N}. Arguments set_col_l {N}. Arguments set_l_interpolator {N}. Arguments set_p_interpolator {N}.
Arguments conv_col {N}. Arguments mapM {N}.
Arguments FNone {N}. Arguments FNum {N}. Arguments FPair {N}. Arguments FExtrap {N}.
Arguments c_branch {N}. Arguments c_kind {N}. Arguments c_fill {N}. Arguments c_x {N}. Arguments c_y {N}.

(* state-and-exception monad *)
Inductive sres (St A : Type) := SOk (a : A) | SErr (e : exn) (s : St).
Arguments SOk {St A}. Arguments SErr {St A}.
Definition sbind {St A B} (s : St) (m : res A) (f : A -> sres St B) : sres St B :=
  match m with Ok a => f a | Err e => SErr e s end.
Definition mbind {St A B} (m : sres St A) (f : A -> sres St B) : sres St B :=
  match m with SOk a => f a | SErr e s => SErr e s end.
Definition sbindc {St R S S'} (m : sres St (ctl R S)) (f : S -> sres St (ctl R S')) : sres St (ctl R S') :=
  match m with SOk (Return r) => SOk (Return r) | SOk (Fall s) => f s | SErr e s => SErr e s end.
Definition srun {St R} (s0 : St) (m : sres St (ctl R Datatypes.unit)) : sres St R :=
  match m with SOk (Return r) => SOk r | SOk (Fall _) => SErr FellOffEnd s0 | SErr e s => SErr e s end.
Definition is_pg (e : exn) : bool :=
  match e with ParameterError | CalculationError | ParsingError => true | _ => false end.
(* try: ... except pgError as err: raise CalculationError(...) from err *)
Definition scatch_pg {St A} (m : sres St A) : sres St A :=
  match m with SErr e s => if is_pg e then SErr CalculationError s else SErr e s | x => x end.
(* the object after the call, whatever the outcome *)
Definition state_after {St} (m : sres St St) : St := match m with SOk s => s | SErr _ s => s end.
Definition outcome {St A} (m : sres St A) : option exn := match m with SOk _ => None | SErr e _ => Some e end.
