(* C02, pressure step: the GENERATED convert_pressure on a well-labelled state, for all 10 x 10 representation pairs. *)
From Coq Require Import Reals Lra QArith Qreals ZArith String List Bool.
From PG Require Import Lib.Num Lib.Py Lib.Tac Gen.UnitsGen1 Units.AdsOracle Gen.UnitsGen2 Units.UnitsSpec
  Units.PressureProofs Units.LoadingPhys Units.C01Theorems Iso.IsoState Gen.IsoGen Iso.IsoSpec.
Import ListNotations.
Open Scope R_scope.

Lemma iso_temperature_mk rp rl rm tk T a m cp cl cb li pi :
  iso_temperature RNum (mk_state rp rl rm tk T a m cp cl cb li pi) = Ok (kelvin_of tk T).
Proof. destruct tk; unfold iso_temperature, mk_state; cbn [temperature_unit raw_temperature tunit_label]; solve_conv. Qed.

Definition prep_eqb (a b : prep) : bool :=
  ostr_eqb (p_mode a) (p_mode b) && ostr_eqb (p_unit a) (p_unit b).
Lemma prep_eqb_eq a b : prep_eqb a b = true <-> a = b.
Proof. destruct a as [[]| |], b as [[]| |]; cbv; split; congruence. Qed.

Ltac ev_iso := cbv -[Rmult Rdiv Rinv Rplus Rminus Ropp IZR Q2R Req_EM_T Rlt_dec Rle_dec Reqb Rltb Rleb
                      RNum conv_col c_pressure c_loading c_material c_temperature iso_temperature spec_conv p_canon l_canon m_canon kelvin_of map].
Ltac col_step HF :=
  match goal with |- context [@conv_col ?N ?F ?c] =>
    let H := fresh "Hc" in
    assert (H : @conv_col N F c = Ok (map _ c)) by (apply conv_col_ext; intro v; timeout 60 (apply HF));
    rewrite H; clear H end.

Theorem convert_pressure_step (a : adsorbate RNum) psat T tk rl rm m cp cl cb li pi vb (rp rp' : prep) :
  a_psat_Pa a (Some (kelvin_of tk T)) = Some psat -> 0 < psat -> kelvin_of tk T <> 0 ->
  convert_pressure RNum (mk_state rp rl rm tk T a m cp cl cb li pi) (p_mode rp') (p_unit rp') vb
  = SOk (if prep_eqb rp' rp then mk_state rp rl rm tk T a m cp cl cb li pi
         else mk_state rp' rl rm tk T a m
                (map (spec_conv (p_canon psat rp) (p_canon psat rp')) cp) cl cb None None).
Proof.
  intros Ha Hp HT.
  pose proof (fun v => c_pressure_factor_at psat (kelvin_of tk T) v rp rp' a Ha Hp HT) as HF.
  pose proof (iso_temperature_mk rp rl rm tk T a m cp cl cb li pi) as HK.
  unfold convert_pressure. rewrite ?HK.
  destruct rp as [[]| |], rp' as [[]| |]; cbn [p_mode p_unit punit_name] in HF; clear HK;
  ev_iso; try reflexivity; col_step HF; ev_iso; reflexivity.
Qed.
