(* Hand-written specification side of C02: well-labelled states, the constructor's validity test,
   the canonical content of an isotherm. *)
From Coq Require Import Reals Lra QArith ZArith String List Bool.
From PG Require Import Lib.Num Lib.Py Gen.UnitsGen1 Units.AdsOracle Gen.UnitsGen2 Units.UnitsSpec Units.LoadingPhys Units.C01Theorems Iso.IsoState.
Import ListNotations.
Open Scope R_scope.

Definition tunit_label (kelvin : bool) : option string := if kelvin then Some "K"%string else Some "°C"%string.

(* a state whose seven labels name the representation (rp, rl, rm, kelvin?) *)
Definition mk_state (rp : prep) (rl : lrep) (rm : mrep) (tk : bool) (T : R)
    (a : adsorbate RNum) (m : material RNum) (cp cl : list R) (cb : list bool) (li pi : option (cache RNum)) : iso RNum :=
  mkIso RNum (p_mode rp) (p_unit rp) (l_basis rl) (l_unit rl) (m_basis rm) (m_unit rm) (tunit_label tk) T a m cp cl cb li pi.

(* the adsorbate at the isotherm temperature, with every constant available and consistent densities *)
Definition ads_full (psat M rml rmg : R) : adsorbate RNum :=
  @ads_const RNum (Some psat) (Some M) (Some (rml * M)) (Some (rmg * M)) (Some rml) (Some rmg).
(* an adsorbate (any functions of temperature) whose constants AT the kelvin temperature TK are these *)
Definition ads_full_at (a : adsorbate RNum) (TK psat M rml rmg : R) : Prop :=
  a_psat_Pa a (Some TK) = Some psat /\ ads_at a (Some TK) M rml rmg.
Definition mat_full (dens mm : R) : material RNum := mkMat RNum (Some dens) (Some mm).

(* temperature in kelvin of a state *)
Definition kelvin_of (tk : bool) (T : R) : R := if tk then T else T + 273.15.

(* BaseIsotherm.__init__ label checks (baseisotherm.py:162-208), as a boolean *)
Definition in_tbl (u : option string) (t : list (string * R)) : bool := tbl_mem (N:=RNum) u t.
Definition valid_labels (s : iso RNum) : bool :=
  mtbl_mem (N:=RNum) (pressure_mode s) (_PRESSURE_MODE RNum)
  && mtbl_mem (N:=RNum) (loading_basis s) (_LOADING_MODE RNum)
  && mtbl_mem (N:=RNum) (material_basis s) (_MATERIAL_MODE RNum)
  && (negb (ostr_eqb (pressure_mode s) (Some "absolute"%string)) || in_tbl (pressure_unit s) (_PRESSURE_UNITS RNum))
  && (ostr_in (loading_basis s) [Some "percent"; Some "fraction"]%string
      || (match mtbl_get (_LOADING_MODE RNum) (loading_basis s) with Ok (Some t) => in_tbl (loading_unit s) t | _ => false end
          && match mtbl_get (_MATERIAL_MODE RNum) (material_basis s) with Ok (Some t) => in_tbl (material_unit s) t | _ => false end))
  && in_tbl (temperature_unit s) (_TEMPERATURE_UNITS RNum).

Lemma mk_state_valid rp rl rm tk T a m cp cl cb li pi : valid_labels (mk_state rp rl rm tk T a m cp cl cb li pi) = true.
Proof. destruct rp as [[]| |], rl as [[]|[]|[]|[]| |], rm as [[]|[]|[]], tk; reflexivity. Qed.

(* canonical content: pascals; mol of adsorbate per gram of material *)
Definition canon_p (psat : R) (rp : prep) (cp : list R) : list R := map (fun v => v * p_canon psat rp) cp.
Definition l_per_m (M rml rmg dens mm : R) (rl : lrep) (rm : mrep) : R := l_canon M rml rmg rm rl / m_canon dens mm rm.
Definition canon_l (M rml rmg dens mm : R) (rl : lrep) (rm : mrep) (cl : list R) : list R :=
  map (fun v => v * l_per_m M rml rmg dens mm rl rm) cl.

(* converting a column with a converter that is a known real function *)
Lemma mapM_ext (f : R -> res R) (g : R -> R) col : (forall v, f v = Ok (g v)) -> mapM (N:=RNum) f col = Ok (map g col).
Proof. intro H; induction col as [|x r IH]; simpl; [reflexivity|]. rewrite H; simpl. rewrite IH. reflexivity. Qed.
Lemma conv_col_ext (f : R -> res R) (g : R -> R) col : (forall v, f v = Ok (g v)) -> conv_col (N:=RNum) f col = Ok (map g col).
Proof. intro H. destruct col as [|x r]; [simpl; rewrite H; reflexivity|]. unfold conv_col. now apply mapM_ext. Qed.
Lemma conv_col_err (f : R -> res R) e col : (forall v, f v = Err e) -> conv_col (N:=RNum) f col = Err e.
Proof. intro H. destruct col as [|x r]; simpl; rewrite H; reflexivity. Qed.
