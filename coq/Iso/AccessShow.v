(* Execution helpers for the correspondence checks of C03 / C04: histories of read-only queries (and permanent
   conversions) on the QNum instance; each result is compared INSIDE Coq with what the implementation returned. *)
From Coq Require Import QArith Qabs ZArith String List Bool.
From PG Require Import Lib.Num Lib.Py Lib.Show Gen.UnitsGen1 Units.AdsOracle Gen.UnitsGen2 Iso.IsoState Gen.IsoGen Iso.IsoShow Iso.IsoAccess.
Import ListNotations.
Open Scope string_scope.

Definition lim (a b : option Q) : limits_t QNum := Some (a, b).
Definition nolim : limits_t QNum := None.
Definition fnum (v : Q) : fillv QNum := @FNum QNum v.
Definition fpair (a b : Q) : fillv QNum := @FPair QNum a b.
Definition fnone : fillv QNum := @FNone QNum.
Definition fextrap : fillv QNum := @FExtrap QNum.
Inductive query :=
| QPressure (branch pu pm : option string) (limits : limits_t QNum)
| QLoading (branch lu lb mu mb : option string) (limits : limits_t QNum)
| QLoadingAt (ps : list Q) (branch kind : option string) (fill : fillv QNum) (pu pm lu lb mu mb : option string)
| QPressureAt (ls : list Q) (branch kind : option string) (fill : fillv QNum) (pu pm lu lb mu mb : option string)
| QSpread (p : Q) (branch : option string) (fill : fillv QNum) (pu pm lu lb mu mb : option string)
| QConv (c : call).

Definition res_code {A} (r : res A) : Z := match r with Ok _ => 0%Z | Err e => exn_code e end.
Definition res_vals (r : res (list Q)) : list Q := match r with Ok l => l | Err _ => [] end.
(* new state, outcome code, returned values *)
Definition do_query (s : iso QNum) (q : query) : iso QNum * Z * list Q :=
  match q with
  | QPressure b pu pm lim => let r := iso_pressure QNum s b pu pm lim in (s, res_code r, res_vals r)
  | QLoading b lu lb mu mb lim => let r := iso_loading QNum s b lu lb mu mb lim in (s, res_code r, res_vals r)
  | QLoadingAt ps b k f pu pm lu lb mu mb =>
      match iso_loading_at QNum s ps b k f pu pm lu lb mu mb with
      | SOk (s', v) => (s', 0%Z, v) | SErr e s' => (s', exn_code e, []) end
  | QPressureAt ls b k f pu pm lu lb mu mb =>
      match iso_pressure_at QNum s ls b k f pu pm lu lb mu mb with
      | SOk (s', v) => (s', 0%Z, v) | SErr e s' => (s', exn_code e, []) end
  | QSpread p b f pu pm lu lb mu mb =>
      match iso_spreading_outcome QNum s p b f pu pm lu lb mu mb with
      | SOk (s', _) => (s', 0%Z, []) | SErr e s' => (s', exn_code e, []) end
  | QConv c => let o := do_call s c in (state_after o, match o with SOk _ => 0%Z | SErr e _ => exn_code e end, [])
  end.
Definition cache_code (c : option (cache QNum)) : Z :=
  match c with None => 0%Z | Some k => 1%Z end.
(* values that come out of an extrapolation or a difference can be tiny compared with the data they were computed from: the comparison
   tolerance is relative to the largest magnitude in the returned list (cancellation error of binary64 is absolute at that scale) *)
Definition qmax_abs (l : list Q) : Q := fold_left (fun m x => if Qle_bool m (Qabs x) then Qabs x else m) l 0.
Fixpoint all_close_abs (tol : Q) (qs : list Q) (ps : list (Z * Z)) : bool :=
  match qs, ps with
  | [], [] => true
  | q :: qr, (m, e) :: pr => Qle_bool (Qabs (q - fl m e)) tol && all_close_abs tol qr pr
  | _, _ => false end.
Definition all_close_scaled (tn td : Z) (qs : list Q) (ps : list (Z * Z)) : bool :=
  all_close tn td qs ps || all_close_abs (inject_Z tn / inject_Z td * qmax_abs qs) qs ps.
Fixpoint run_queries_cmp (tn td : Z) (s : iso QNum) (qs : list (query * list (Z * Z))) : list (list Z) :=
  match qs with
  | [] => []
  | (q, ex) :: r =>
      let '(s', code, vals) := do_query s q in
      [code; if all_close_scaled tn td vals ex then 1%Z else 0%Z; cache_code (l_interpolator s'); cache_code (p_interpolator s');
       lab_code (pressure_mode s'); lab_code (pressure_unit s'); lab_code (loading_basis s'); lab_code (loading_unit s');
       lab_code (material_basis s'); lab_code (material_unit s')]
      :: run_queries_cmp tn td s' r
  end.
