(* C02: refusals change nothing; histories of well-specified conversions; the combined convert();
   and the deviations of the unchanged tree as refuted statements with witnesses. *)
From Coq Require Import Reals Lra QArith Qreals ZArith String List Bool.
From PG Require Import Lib.Num Lib.Py Lib.Tac Gen.UnitsGen1 Units.AdsOracle Gen.UnitsGen2 Units.UnitsSpec
  Units.LoadingPhys Units.MaterialProofs Units.C01Theorems Iso.IsoState Gen.IsoGen Iso.IsoSpec
  Iso.ConvPressure Iso.ConvLoading Iso.ConvMaterial Iso.ConvMaterialFrac.
Import ListNotations.
Open Scope R_scope.

(* ------------------------------------------------------------------ refusals, for ALL arguments and ALL states *)
Ltac crush :=
  repeat (cbv beta iota delta [srun sbindc sbind scatch_pg mbind outcome state_after negb andb] in *;
    match goal with
    | |- context [if ?c then _ else _] => destruct c eqn:?
    | |- context [match ?m with Ok _ => _ | Err _ => _ end] => destruct m eqn:?
    | H : context [if ?c then _ else _] |- _ => destruct c eqn:?
    | H : context [match ?m with Ok _ => _ | Err _ => _ end] |- _ => destruct m eqn:?
    end); try discriminate; try reflexivity.

Theorem convert_pressure_refusal_changes_nothing (s : iso RNum) m u vb e :
  outcome (convert_pressure RNum s m u vb) = Some e -> state_after (convert_pressure RNum s m u vb) = s.
Proof. unfold convert_pressure. intro H. crush. Qed.

Theorem convert_loading_refusal_changes_nothing (s : iso RNum) b u vb e :
  outcome (convert_loading RNum s b u vb) = Some e -> state_after (convert_loading RNum s b u vb) = s.
Proof. unfold convert_loading. intro H. crush. Qed.

Theorem convert_temperature_refusal_changes_nothing (s : iso RNum) u vb e :
  outcome (convert_temperature RNum s u vb) = Some e -> state_after (convert_temperature RNum s u vb) = s.
Proof. unfold convert_temperature. intro H. crush. Qed.

Theorem convert_material_refusal_changes_nothing (s : iso RNum) b u vb e :
  outcome (convert_material RNum s b u vb) = Some e -> state_after (convert_material RNum s b u vb) = s.
Proof. unfold convert_material. intro H. crush. Qed.

(* an omitted unit with an unchanged (or omitted) mode / basis is a no-op, for ALL states *)
Lemma ostr_eqb_refl a : ostr_eqb a a = true.
Proof. apply ostr_eqb_eq; reflexivity. Qed.
Theorem omitted_unit_is_noop (s : iso RNum) vb :
  (forall m, m = None \/ m = pressure_mode s -> ostr_truthy (pressure_mode s) = true -> convert_pressure RNum s m None vb = SOk s)
  /\ (forall b, b = None \/ b = loading_basis s -> ostr_truthy (loading_basis s) = true -> convert_loading RNum s b None vb = SOk s)
  /\ (forall b, b = None \/ b = material_basis s -> ostr_truthy (material_basis s) = true -> convert_material RNum s b None vb = SOk s).
Proof.
  repeat split; intros x [-> | ->] Ht;
  unfold convert_pressure, convert_loading, convert_material, srun, sbindc;
  cbn [ostr_truthy negb]; rewrite ?Ht; cbn [negb]; rewrite ?ostr_eqb_refl; cbn [andb negb ostr_truthy];
  rewrite ?ostr_eqb_refl; reflexivity.
Qed.

(* convert() = pressure; material; loading, stopping at the first refusal and keeping the earlier steps *)
Theorem convert_is_sequence (s : iso RNum) pm pu lb lu mb mu vb :
  convert RNum s pm pu lb lu mb mu vb =
  mbind (if ostr_truthy pm || ostr_truthy pu then convert_pressure RNum s pm pu vb else SOk s) (fun s1 =>
  mbind (if ostr_truthy mb || ostr_truthy mu then convert_material RNum s1 mb mu vb else SOk s1) (fun s2 =>
        (if ostr_truthy lb || ostr_truthy lu then convert_loading RNum s2 lb lu vb else SOk s2))).
Proof.
  unfold convert, srun, sbindc, mbind.
  destruct (ostr_truthy pm || ostr_truthy pu); [destruct (convert_pressure RNum s pm pu vb) as [s1|e s1]; [|reflexivity]|];
  (destruct (ostr_truthy mb || ostr_truthy mu);
   [match goal with |- context [convert_material RNum ?x mb mu vb] => destruct (convert_material RNum x mb mu vb) as [s2|e s2]; [|reflexivity] end|]);
  (destruct (ostr_truthy lb || ostr_truthy lu);
   [match goal with |- context [convert_loading RNum ?x lb lu vb] => destruct (convert_loading RNum x lb lu vb) as [s3|e s3]; reflexivity end|reflexivity]).
Qed.

(* ------------------------------------------------------------------ temperature step *)
Lemma convert_temperature_step rp rl rm tk T a m cp cl cb li pi vb (tk' : bool) :
  exists T', convert_temperature RNum (mk_state rp rl rm tk T a m cp cl cb li pi) (tunit_label tk') vb
             = SOk (mk_state rp rl rm tk' T' a m cp cl cb li pi) /\ kelvin_of tk' T' = kelvin_of tk T.
Proof.
  destruct tk, tk'; unfold convert_temperature, mk_state, srun, sbind, sbindc; cbn [raw_temperature temperature_unit tunit_label];
  repeat match goal with |- context [(ostr_truthy ?a && ostr_contains ?b ?c)%bool] =>
    let v := eval vm_compute in (ostr_truthy a && ostr_contains b c)%bool in
    change (ostr_truthy a && ostr_contains b c)%bool with v end; cbv iota beta.
  - rewrite c_temperature_same_K. exists T. split; reflexivity.
  - rewrite (c_temperature_K_to_C T "°C" eq_refl). exists (T - 273.15). split; [reflexivity|unfold kelvin_of; lra].
  - rewrite (c_temperature_C_to_K T "°C" eq_refl). exists (T + 273.15). split; [reflexivity|unfold kelvin_of; lra].
  - rewrite (c_temperature_same_C T "°C" "°C" eq_refl eq_refl). exists T. split; reflexivity.
Qed.

(* ------------------------------------------------------------------ histories *)
Record rs := mkRS { r_p : prep; r_l : lrep; r_m : mrep; r_k : bool }.
Inductive op := OpP (r : prep) | OpL (r : lrep) | OpM (r : mrep) | OpT (k : bool).
Definition rs_step (r : rs) (o : op) : rs :=
  match o with
  | OpP p => mkRS p (r_l r) (r_m r) (r_k r) | OpL l => mkRS (r_p r) l (r_m r) (r_k r)
  | OpM m => mkRS (r_p r) (r_l r) m (r_k r) | OpT k => mkRS (r_p r) (r_l r) (r_m r) k end.
Definition apply_op (s : iso RNum) (o : op) : sres (iso RNum) (iso RNum) :=
  match o with
  | OpP r => convert_pressure RNum s (p_mode r) (p_unit r) false
  | OpL r => convert_loading RNum s (l_basis r) (l_unit r) false
  | OpM r => convert_material RNum s (m_basis r) (m_unit r) false
  | OpT k => convert_temperature RNum s (tunit_label k) false end.
Definition run_ops (s : iso RNum) (ops : list op) : iso RNum := fold_left (fun s o => state_after (apply_op s o)) ops s.
Definition all_ok (s : iso RNum) (ops : list op) : Prop :=
  forall pre o post, ops = (pre ++ o :: post)%list -> outcome (apply_op (run_ops s pre) o) = None.

Section History.
  Variables (psat M rml rmg dens mm TK : R).
  Hypotheses (Hp : 0 < psat) (HM : 0 < M) (Hl : 0 < rml) (Hg : 0 < rmg) (Hd : 0 < dens) (Hmm : 0 < mm) (HT : TK <> 0).
  Variables (r0 : rs) (cp0 cl0 : list R) (cb : list bool).
  (* ANY adsorbate (functions of temperature) whose constants at the kelvin temperature TK are psat, M, rml, rmg *)
  Variable a : adsorbate RNum.
  Hypothesis Ha : ads_full_at a TK psat M rml rmg.
  Let m := mat_full dens mm.
  Let lpm (l : lrep) (mr : mrep) := l_per_m M rml rmg dens mm l mr.

  (* the state holds the ORIGINAL data converted directly to representation r, and its labels name r *)
  Definition Rep (r : rs) (s : iso RNum) : Prop :=
    exists T li pi, kelvin_of (r_k r) T = TK /\
      s = mk_state (r_p r) (r_l r) (r_m r) (r_k r) T a m
            (map (spec_conv (p_canon psat (r_p r0)) (p_canon psat (r_p r))) cp0)
            (map (fun v => v * lpm (r_l r0) (r_m r0) / lpm (r_l r) (r_m r)) cl0) cb li pi.

  Lemma lpm_pos l mr : 0 < lpm l mr.
  Proof. unfold lpm, l_per_m. apply Rdiv_lt_0_compat; [apply l_canon_pos|apply m_canon_pos]; assumption. Qed.
  Lemma lc_pos mr l : 0 < l_canon M rml rmg mr l. Proof. apply l_canon_pos; assumption. Qed.
  Lemma mc_pos mr : 0 < m_canon dens mm mr. Proof. apply m_canon_pos; assumption. Qed.
  Lemma pc_pos p : 0 < p_canon psat p. Proof. apply p_canon_pos; assumption. Qed.

  Lemma l_canon_frac_split (mr : mrep) l : l_is_phys l = false ->
    exists F, 0 < F /\ forall mr', l_canon M rml rmg mr' l = l_canon_phys M rml rmg (l_of_m mr') / F.
  Proof.
    destruct l; try discriminate; intros _; [exists 1|exists 100]; (split; [lra|]); intro mr'; simpl; field.
  Qed.
  Lemma lphys_pos mr : 0 < l_canon_phys M rml rmg (l_of_m mr).
  Proof. apply l_canon_phys_pos; try assumption. destruct mr; reflexivity. Qed.
  Lemma lpm_frac_same_basis l mr mr' : l_is_phys l = false -> same_mbasis mr' mr = true -> lpm l mr = lpm l mr'.
  Proof.
    intros Hf Hs. destruct (l_canon_frac_split mr l Hf) as [F [HF HFe]].
    unfold lpm, l_per_m. rewrite (HFe mr), (HFe mr').
    destruct mr as [u|u|u], mr' as [u'|u'|u']; try discriminate Hs; simpl;
    [pose proof (g_per_pos u); pose proof (g_per_pos u')|pose proof (cm3_per_pos u); pose proof (cm3_per_pos u')
    |pose proof (mol_per_pos u); pose proof (mol_per_pos u')]; field; repeat split; lra.
  Qed.

  Lemma map_map_ext (f g h : R -> R) l : (forall v, f (g v) = h v) -> map f (map g l) = map h l.
  Proof. intro H. rewrite map_map. apply map_ext. exact H. Qed.

  Lemma rep_step r s o : Rep r s -> outcome (apply_op s o) = None /\ Rep (rs_step r o) (state_after (apply_op s o)).
  Proof.
    intros [T [li [pi [HK ->]]]]. destruct r as [rp rl rm rk]; cbn [r_p r_l r_m r_k] in *.
    destruct o as [p'|l'|m'|k']; cbn [apply_op rs_step r_p r_l r_m r_k].
    - (* pressure *)
      rewrite (convert_pressure_step a psat) by (rewrite ?HK; try assumption; apply Ha).
      cbn [outcome state_after]. split; [reflexivity|].
      destruct (prep_eqb p' rp) eqn:E.
      + apply prep_eqb_eq in E; subst p'. exists T, li, pi. split; [assumption|reflexivity].
      + exists T, None, None. split; [assumption|]. f_equal.
        apply map_map_ext. intro v. apply spec_conv_compose; apply Rgt_not_eq, pc_pos.
    - (* loading *)
      rewrite (convert_loading_step a M rml rmg) by (rewrite ?HK; try assumption; apply Ha).
      cbn [outcome state_after]. split; [reflexivity|].
      destruct (lrep_eqb l' rl) eqn:E.
      + apply lrep_eqb_eq in E; subst l'. exists T, li, pi. split; [assumption|reflexivity].
      + exists T, None, None. split; [assumption|]. f_equal.
        apply map_map_ext. intro v. unfold spec_conv, lpm, l_per_m. cbv beta; cbn [r_p r_l r_m r_k].
        pose proof (lc_pos rm rl); pose proof (lc_pos rm l'); pose proof (mc_pos rm);
        pose proof (lc_pos (r_m r0) (r_l r0)); pose proof (mc_pos (r_m r0)). field. repeat split; lra.
    - (* material *)
      unfold m. destruct (l_is_phys rl) eqn:Ephys.
      + rewrite convert_material_step_phys by assumption.
        cbn [outcome state_after]. split; [reflexivity|].
        destruct (mrep_eqb m' rm) eqn:E.
        * apply mrep_eqb_eq in E; subst m'. exists T, li, pi. split; [assumption|reflexivity].
        * exists T, None, None. split; [assumption|]. f_equal.
          apply map_map_ext. intro v. unfold spec_conv, lpm, l_per_m. cbv beta; cbn [r_p r_l r_m r_k].
          rewrite !(l_canon_phys_eq _ _ _ _ rl Ephys).
          assert (0 < l_canon_phys M rml rmg rl) by (apply l_canon_phys_pos; assumption).
          pose proof (mc_pos rm); pose proof (mc_pos m'); pose proof (lc_pos (r_m r0) (r_l r0)); pose proof (mc_pos (r_m r0)).
          field. repeat split; lra.
      + rewrite (convert_material_step_frac a M rml rmg) by (rewrite ?HK; try assumption; apply Ha).
        cbn [outcome state_after]. split; [reflexivity|].
        destruct (mrep_eqb m' rm) eqn:E.
        * apply mrep_eqb_eq in E; subst m'. exists T, li, pi. split; [assumption|reflexivity].
        * destruct (same_mbasis m' rm) eqn:Es.
          -- exists T, li, pi. split; [assumption|]. f_equal.
             apply map_ext. intro v. rewrite (lpm_frac_same_basis rl rm m' Ephys Es). reflexivity.
          -- exists T, None, None. split; [assumption|]. f_equal.
             rewrite map_map. apply map_map_ext. intro v. unfold spec_conv, lpm, l_per_m. cbv beta; cbn [r_p r_l r_m r_k].
             destruct (l_canon_frac_split rm rl Ephys) as [F [HF HFe]]. rewrite (HFe rm), (HFe m').
             pose proof (lphys_pos rm); pose proof (lphys_pos m'); pose proof (mc_pos rm); pose proof (mc_pos m');
             pose proof (lc_pos (r_m r0) (r_l r0)); pose proof (mc_pos (r_m r0)).
             field. repeat split; lra.
    - (* temperature *)
      destruct (convert_temperature_step rp rl rm rk T a m
                  (map (spec_conv (p_canon psat (r_p r0)) (p_canon psat rp)) cp0)
                  (map (fun v => v * lpm (r_l r0) (r_m r0) / lpm rl rm) cl0) cb li pi false k') as [T' [He HK']].
      rewrite He. cbn [outcome state_after]. split; [reflexivity|].
      exists T', li, pi. split; [cbn [r_k]; rewrite HK'; assumption|reflexivity].
  Qed.

  Lemma rep_init T li pi : kelvin_of (r_k r0) T = TK ->
    Rep r0 (mk_state (r_p r0) (r_l r0) (r_m r0) (r_k r0) T a m cp0 cl0 cb li pi).
  Proof.
    intro HK. exists T, li, pi. split; [assumption|]. f_equal.
    - symmetry. erewrite map_ext; [apply map_id|]. intro v. apply spec_conv_id. apply Rgt_not_eq, pc_pos.
    - symmetry. erewrite map_ext; [apply map_id|]. intro v. pose proof (lpm_pos (r_l r0) (r_m r0)). simpl. field. lra.
  Qed.

  (* THE PROPERTY: after any history of conversions naming a representation, no call is refused, the labels
     name exactly the final representation (rs_step: last request of each kind) and the data are the ORIGINAL
     data converted directly to it; the state is one the constructor accepts. *)
  Theorem history_direct T li pi ops : kelvin_of (r_k r0) T = TK ->
    let s0 := mk_state (r_p r0) (r_l r0) (r_m r0) (r_k r0) T a m cp0 cl0 cb li pi in
    all_ok s0 ops /\ Rep (fold_left rs_step ops r0) (run_ops s0 ops) /\ valid_labels (run_ops s0 ops) = true.
  Proof.
    intros HK s0. pose proof (rep_init T li pi HK) as H0. fold s0 in H0.
    assert (G : forall ops' r s, Rep r s -> all_ok s ops' /\ Rep (fold_left rs_step ops' r) (run_ops s ops')).
    { clear HK H0. intro ops'. induction ops' as [|o ops' IH]; intros r s Hr.
      - split; [|exact Hr]. intros pre o post E. destruct pre; discriminate E.
      - destruct (rep_step r s o Hr) as [Hok Hr']. destruct (IH _ _ Hr') as [Hall Hrep]. split; [|exact Hrep].
        intros pre o' post E. destruct pre as [|x pre]; cbn in E; injection E as -> ->.
        + exact Hok.
        + cbn [run_ops fold_left]. apply (Hall pre o' post eq_refl). }
    destruct (G ops r0 s0 H0) as [Hall Hr]. split; [exact Hall|]. split; [exact Hr|].
    destruct Hr as [T' [li' [pi' [_ ->]]]]. apply mk_state_valid.
  Qed.

  (* converting back to the starting representation restores the original numbers *)
  Theorem history_back_restores T li pi ops : kelvin_of (r_k r0) T = TK ->
    let s0 := mk_state (r_p r0) (r_l r0) (r_m r0) (r_k r0) T a m cp0 cl0 cb li pi in
    let back := [OpP (r_p r0); OpM (r_m r0); OpL (r_l r0); OpT (r_k r0)] in
    col_p (run_ops s0 (ops ++ back)%list) = cp0 /\ col_l (run_ops s0 (ops ++ back)%list) = cl0
    /\ col_branch (run_ops s0 (ops ++ back)%list) = cb.
  Proof.
    intros HK s0 back. destruct (history_direct T li pi (ops ++ back)%list HK) as [_ [[T' [li' [pi' [_ He]]]] _]].
    fold s0 in He. rewrite He. clear He.
    rewrite fold_left_app. destruct (fold_left rs_step ops r0) as [p l mr k]. destruct r0 as [p0 l0 m0 k0].
    cbn [back fold_left rs_step r_p r_l r_m r_k mk_state col_p col_l col_branch].
    split; [|split; [|reflexivity]].
    - erewrite map_ext; [apply map_id|]. intro v. apply spec_conv_id. apply Rgt_not_eq, pc_pos.
    - erewrite map_ext; [apply map_id|]. intro v. pose proof (lpm_pos l0 m0). simpl. field. lra.
  Qed.
End History.

(* ------------------------------------------------------------------ deviations of the unchanged tree *)


(* convert_temperature stores the normalised label, whatever the spelling of celsius *)
Theorem temperature_label_normalised (s : iso RNum) u vb s' :
  is_celsius u = true -> convert_temperature RNum s (Some u) vb = SOk s' -> temperature_unit s' = Some "°C"%string.
Proof.
  intros Hc. unfold convert_temperature, srun, sbindc, sbind.
  assert (Ht : ostr_truthy (Some u) = true) by (destruct u; [discriminate Hc|reflexivity]).
  rewrite Ht. cbn [ostr_lower option_map ostr_contains andb]. unfold is_celsius in Hc. rewrite Hc.
  destruct (c_temperature RNum (raw_temperature s) (temperature_unit s) (Some "°C"%string)); [|discriminate].
  intro H; injection H as <-. reflexivity.
Qed.

Definition st_frac := mk_state (PAbs bar) LFraction (MMass g) true 77 (@ads_const RNum (Some 101325) (Some 28) None None None None) (mat_full 2 60) [1] [3] [false] None None.
(* in fraction mode a material unit string that names no unit of the basis is refused and nothing changes
   (repaired by "fix: convert_material checks the unit it stores on a fraction/percent isotherm"; before, the string was stored) *)
Remark fraction_material_unit_checked :
  convert_material RNum st_frac (Some "mass"%string) (Some "bogus"%string) false = SErr ParameterError st_frac.
Proof. unfold st_frac; eval_model; reflexivity. Qed.

(* non-vacuity *)
Example history_example :
  let r0 := mkRS (PAbs bar) (LMolar mmol) (MMass g) true in
  let ops := [OpP PRel; OpL (LMass mg); OpM (MVol cm3); OpL LPercent; OpT false; OpP (PAbs torr)] in
  fold_left rs_step ops r0 = mkRS (PAbs torr) LPercent (MVol cm3) false.
Proof. reflexivity. Qed.
