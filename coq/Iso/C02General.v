(* C02, histories of calls with ARBITRARY argument strings (the property's full quantifier):
   gop = a call of convert_pressure / convert_loading / convert_material / convert_temperature / convert with raw strings;
   `resolve` = the explicit reference semantics on representations (which calls are refused, what the others name);
   theorem: along ANY history every call is refused exactly when `resolve` says so, a refused single-quantity call changes
   nothing, convert() is its pressure / material / loading steps in that order stopping at the first refusal, and the state
   always satisfies `Rep r` (Iso/C02Theorems.v): it holds the ORIGINAL data converted directly to the resolved representation r
   and its labels name r. Hence converting back always restores the original numbers.
   (Before "fix: convert_material checks the unit it stores on a fraction/percent isotherm" the material-unit label of a
   fraction / percent isotherm could be any string; the invariant had to carry the raw label. No longer.) *)
From Coq Require Import Reals Lra QArith Qreals ZArith String List Bool.
From PG Require Import Lib.Num Lib.Py Lib.Tac Gen.UnitsGen1 Units.AdsOracle Gen.UnitsGen2 Units.UnitsSpec
  Units.LoadingPhys Units.MaterialProofs Units.C01Theorems Units.Refusal Iso.IsoState Gen.IsoGen Iso.IsoSpec
  Iso.ConvPressure Iso.ConvLoading Iso.ConvMaterial Iso.ConvMaterialFrac Iso.C02Theorems Iso.C02Strings Iso.C02GenSteps.
Import ListNotations.
Open Scope string_scope.

(* ------------------------------------------------------------------ small facts about the label functions *)
Lemma l_basis_name r : l_basis r = Some (lbasis_name (lbasis_of r)).
Proof. destruct r; reflexivity. Qed.
Lemma l_basis_truthy r : ostr_truthy (l_basis r) = true.
Proof. destruct r; reflexivity. Qed.
Lemma lphys_of r : lbasis_phys (lbasis_of r) = l_is_phys r.
Proof. destruct r; reflexivity. Qed.
Lemma frac_in r : ostr_in (l_basis r) fracs = negb (l_is_phys r).
Proof. destruct r; reflexivity. Qed.
Lemma mb_label_truthy b : ostr_truthy (mb_label b) = true.
Proof. destruct b; reflexivity. Qed.
Lemma ostr_eqb_sym a b : ostr_eqb a b = ostr_eqb b a.
Proof. destruct a, b; simpl; try reflexivity. apply String.eqb_sym. Qed.
Lemma nonphys_unique r t u r' : lbasis_of r = t -> lbasis_phys t = false -> parse_lunit t u = Some r' -> r' = r.
Proof. intros <- Hp. destruct r; try discriminate Hp; intro H; injection H as <-; reflexivity. Qed.
Lemma m_basis_truthy r : ostr_truthy (m_basis r) = true.
Proof. destruct r; reflexivity. Qed.

(* ------------------------------------------------------------------ reference semantics on representations *)
Definition resolve_t (u : option string) : option bool :=
  if celsius_like u then Some false else if ostr_eqb u (Some "K") then Some true else None.
(* loading: basis omitted / empty = current; fraction / percent ignore the unit; a physical target needs a unit of its
   table (omitted with unchanged basis = current) *)
Definition resolve_l (rl : lrep) (b u : option string) : option lrep :=
  let b' := eff_b (l_basis rl) b in
  let u' := eff_u (l_basis rl) (l_unit rl) b' u in
  match parse_lbasis b' with
  | None => None
  | Some t => parse_lunit t u'
  end.
(* material: basis omitted / empty = current; the unit must be one of the target basis (omitted with unchanged basis = current),
   whatever the loading basis *)
Definition resolve_m (rm : mrep) (b u : option string) : option mrep :=
  let b' := eff_b (m_basis rm) b in
  let u' := eff_u (m_basis rm) (m_unit rm) b' u in
  match parse_mbasis b' with
  | None => None
  | Some t => parse_munit t u'
  end.

(* ------------------------------------------------------------------ calls with raw strings *)
Inductive gop := GP (m u : option string) | GL (b u : option string) | GM (b u : option string) | GT (u : option string)
               | GC (pm pu lb lu mb mu : option string).
Definition apply_gop (s : iso RNum) (o : gop) : sres (iso RNum) (iso RNum) :=
  match o with
  | GP m u => convert_pressure RNum s m u false
  | GL b u => convert_loading RNum s b u false
  | GM b u => convert_material RNum s b u false
  | GT u => convert_temperature RNum s u false
  | GC pm pu lb lu mb mu => convert RNum s pm pu lb lu mb mu false
  end.
Definition is_single (o : gop) : bool := match o with GC _ _ _ _ _ _ => false | _ => true end.
(* convert(): the pressure, material, loading calls it makes, in this order *)
Definition steps (o : gop) : list gop :=
  match o with
  | GC pm pu lb lu mb mu =>
      (if ostr_truthy pm || ostr_truthy pu then [GP pm pu] else []) ++
      (if ostr_truthy mb || ostr_truthy mu then [GM mb mu] else []) ++
      (if ostr_truthy lb || ostr_truthy lu then [GL lb lu] else [])
  | _ => [o]
  end.
(* a list of calls executed until the first refusal *)
Fixpoint run_seq (s : iso RNum) (l : list gop) : sres (iso RNum) (iso RNum) :=
  match l with [] => SOk s | o :: r => mbind (apply_gop s o) (fun s' => run_seq s' r) end.
Definition run_gops (s : iso RNum) (ops : list gop) : iso RNum := fold_left (fun s o => state_after (apply_gop s o)) ops s.

(* what a single-quantity call does to the representation (rs of Iso/C02Theorems.v); None = refused *)
Definition resolve1 (r : rs) (o : gop) : option rs :=
  match o with
  | GP m u => option_map (fun p => mkRS p (r_l r) (r_m r) (r_k r)) (resolve_p (r_p r) m u)
  | GL b u => option_map (fun l => mkRS (r_p r) l (r_m r) (r_k r)) (resolve_l (r_l r) b u)
  | GM b u => option_map (fun m => mkRS (r_p r) (r_l r) m (r_k r)) (resolve_m (r_m r) b u)
  | GT u => option_map (fun k => mkRS (r_p r) (r_l r) (r_m r) k) (resolve_t u)
  | GC _ _ _ _ _ _ => None
  end.
(* a sequence: stop at the first refused call, keeping what was done; the boolean says "no call was refused" *)
Fixpoint resolve_seq (r : rs) (l : list gop) : rs * bool :=
  match l with
  | [] => (r, true)
  | o :: q => match resolve1 r o with Some r' => resolve_seq r' q | None => (r, false) end
  end.
Definition resolve (r : rs) (o : gop) : rs * bool := resolve_seq r (steps o).
Definition ref_gops (r : rs) (ops : list gop) : rs := fold_left (fun r o => fst (resolve r o)) ops r.

Lemma mbind_ret {St A} (m : sres St A) : mbind m (fun x => SOk x) = m.
Proof. destruct m; reflexivity. Qed.
(* every call is the sequence of its steps (for convert(): Iso/C02Theorems.v convert_is_sequence) *)
Theorem apply_gop_steps s o : apply_gop s o = run_seq s (steps o).
Proof.
  destruct o; cbn [steps run_seq apply_gop]; rewrite ?mbind_ret; try reflexivity.
  rewrite convert_is_sequence.
  destruct (ostr_truthy pm || ostr_truthy pu); destruct (ostr_truthy mb || ostr_truthy mu); destruct (ostr_truthy lb || ostr_truthy lu);
  cbn [app run_seq apply_gop mbind]; rewrite ?mbind_ret;
  repeat match goal with |- context [mbind ?m _] => destruct m; cbn [mbind] end; reflexivity.
Qed.
Lemma steps_single o : Forall (fun x => is_single x = true) (steps o).
Proof.
  destruct o; cbn [steps]; repeat constructor.
  destruct (ostr_truthy pm || ostr_truthy pu); destruct (ostr_truthy mb || ostr_truthy mu); destruct (ostr_truthy lb || ostr_truthy lu);
  cbn [app]; repeat constructor.
Qed.
(* a refused single-quantity call changes nothing (the four theorems of Iso/C02Theorems.v) *)
Lemma single_refusal_changes_nothing s o e : is_single o = true -> outcome (apply_gop s o) = Some e -> state_after (apply_gop s o) = s.
Proof.
  destruct o; try discriminate; intros _; cbn [apply_gop].
  - apply convert_pressure_refusal_changes_nothing.
  - apply convert_loading_refusal_changes_nothing.
  - apply convert_material_refusal_changes_nothing.
  - apply convert_temperature_refusal_changes_nothing.
Qed.
(* a refused sequence leaves exactly the effect of the calls completed before the refusal: for ALL states and strings *)
Theorem run_seq_refusal_keeps_completed s l e : Forall (fun x => is_single x = true) l -> outcome (run_seq s l) = Some e ->
  exists pre o post s', l = (pre ++ o :: post)%list /\ run_seq s pre = SOk s' /\ outcome (apply_gop s' o) = Some e
                        /\ state_after (run_seq s l) = s'.
Proof.
  revert s. induction l as [|o r IH]; intros s Hs H; [discriminate H|]. inversion Hs as [|? ? Ho Hr]; subst.
  cbn [run_seq] in *. destruct (apply_gop s o) as [s1|e1 s1] eqn:E; cbn [mbind] in *.
  - destruct (IH s1 Hr H) as [pre [o' [post [s' [-> [H1 [H2 H3]]]]]]].
    exists (o :: pre), o', post, s'. cbn [app run_seq]. rewrite E. cbn [mbind]. repeat split; assumption.
  - exists [], o, r, s. cbn [app run_seq]. rewrite E. cbn [outcome state_after] in *. repeat split; try assumption.
    pose proof (single_refusal_changes_nothing s o e1 Ho) as H1. rewrite E in H1. apply H1. reflexivity.
Qed.

Open Scope R_scope.
Section General.
  Variables (psat M rml rmg dens mm TK : R).
  Hypotheses (Hp : 0 < psat) (HM : 0 < M) (Hl : 0 < rml) (Hg : 0 < rmg) (Hd : 0 < dens) (Hmm : 0 < mm) (HT : TK <> 0).
  Variable a : adsorbate RNum.
  Hypothesis Ha : ads_full_at a TK psat M rml rmg.
  Let mat := mat_full dens mm.
  Let lpm (l : lrep) (mr : mrep) := l_per_m M rml rmg dens mm l mr.
  Let lc mr l := l_canon M rml rmg mr l.
  Let mc mr := m_canon dens mm mr.

  (* ---- positivity and the algebra of the data columns *)
  Lemma lpm_pos' l mr : 0 < lpm l mr.
  Proof. unfold lpm, l_per_m. apply Rdiv_lt_0_compat; [apply l_canon_pos|apply m_canon_pos]; assumption. Qed.
  Lemma lc_pos' mr l : 0 < lc mr l. Proof. apply l_canon_pos; assumption. Qed.
  Lemma mc_pos' mr : 0 < mc mr. Proof. apply m_canon_pos; assumption. Qed.
  Lemma map_same (f : R -> R) (l : list R) : (forall v, f v = v) -> map f l = l.
  Proof. intro H. erewrite map_ext; [apply map_id|exact H]. Qed.
  Lemma norm_id l mr (cl : list R) : map (fun v => v * lpm l mr / lpm l mr) cl = cl.
  Proof. apply map_same. intro v. pose proof (lpm_pos' l mr). field. lra. Qed.
  Lemma norm_l l l' mr (cl : list R) :
    map (spec_conv (l_canon M rml rmg mr l) (l_canon M rml rmg mr l')) cl = map (fun v => v * lpm l mr / lpm l' mr) cl.
  Proof.
    apply map_ext. intro v. unfold spec_conv, lpm, l_per_m.
    pose proof (lc_pos' mr l); pose proof (lc_pos' mr l'); pose proof (mc_pos' mr). unfold lc, mc in *. field. repeat split; lra.
  Qed.
  Lemma l_canon_frac_split' l : l_is_phys l = false ->
    exists F, 0 < F /\ forall mr', l_canon M rml rmg mr' l = l_canon_phys M rml rmg (l_of_m mr') / F.
  Proof. destruct l; try discriminate; intros _; [exists 1|exists 100]; (split; [lra|]); intro mr'; simpl; field. Qed.
  Lemma lphys_pos' mr : 0 < l_canon_phys M rml rmg (l_of_m mr).
  Proof. apply l_canon_phys_pos; try assumption. destruct mr; reflexivity. Qed.
  Lemma lpm_frac_same l mr mr' : l_is_phys l = false -> mbasis_of mr' = mbasis_of mr -> lpm l mr = lpm l mr'.
  Proof.
    intros Hf Hs. destruct (l_canon_frac_split' l Hf) as [F [HF HFe]].
    unfold lpm, l_per_m. rewrite (HFe mr), (HFe mr').
    destruct mr as [u|u|u], mr' as [u'|u'|u']; try discriminate Hs; simpl;
    [pose proof (g_per_pos u); pose proof (g_per_pos u')|pose proof (cm3_per_pos u); pose proof (cm3_per_pos u')
    |pose proof (mol_per_pos u); pose proof (mol_per_pos u')]; field; repeat split; lra.
  Qed.
  Lemma norm_pct l l' mr (cl : list R) : l_is_phys l = false -> l_is_phys l' = false -> lbasis_eqb (lbasis_of l') (lbasis_of l) = false ->
    map (pct_f (lbasis_of l)) cl = map (fun v => v * lpm l mr / lpm l' mr) cl.
  Proof.
    intros H1 H2 Hne. apply map_ext. intro v. unfold lpm, l_per_m.
    pose proof (lphys_pos' mr); pose proof (mc_pos' mr). unfold mc in *.
    destruct l; try discriminate H1; destruct l'; try discriminate H2; try discriminate Hne; simpl; field; repeat split; lra.
  Qed.
  Lemma norm_m_phys l mr mr' (cl : list R) : l_is_phys l = true ->
    map (spec_conv (m_canon dens mm mr') (m_canon dens mm mr)) cl = map (fun v => v * lpm l mr / lpm l mr') cl.
  Proof.
    intro Hph. apply map_ext. intro v. unfold spec_conv, lpm, l_per_m. rewrite !(l_canon_phys_eq _ _ _ _ l Hph).
    assert (0 < l_canon_phys M rml rmg l) by (apply l_canon_phys_pos; assumption).
    pose proof (mc_pos' mr); pose proof (mc_pos' mr'). unfold mc in *. field. repeat split; lra.
  Qed.
  Lemma norm_m_frac l mr mr' (cl : list R) : l_is_phys l = false ->
    map (spec_conv (l_canon_phys M rml rmg (l_of_m mr)) (l_canon_phys M rml rmg (l_of_m mr')))
      (map (spec_conv (m_canon dens mm mr') (m_canon dens mm mr)) cl) = map (fun v => v * lpm l mr / lpm l mr') cl.
  Proof.
    intro Hf. rewrite map_map. apply map_ext. intro v. unfold spec_conv, lpm, l_per_m.
    destruct (l_canon_frac_split' l Hf) as [F [HF HFe]]. rewrite (HFe mr), (HFe mr').
    pose proof (lphys_pos' mr); pose proof (lphys_pos' mr'); pose proof (mc_pos' mr); pose proof (mc_pos' mr'). unfold mc in *.
    field. repeat split; lra.
  Qed.

  (* ================================================================== the four steps from a well-labelled state *)
  Section Steps.
    Variables (rp : prep) (rl : lrep) (rm : mrep) (tk : bool) (T : R)
              (cp cl : list R) (cb : list bool) (li pi : option (cache RNum)).
    Hypothesis HK : kelvin_of tk T = TK.
    Let S := mk_state rp rl rm tk T a mat cp cl cb li pi.
    Let HaP : a_psat_Pa a (Some (kelvin_of tk T)) = Some psat. Proof. rewrite HK. apply Ha. Qed.
    Let HaL : ads_at a (Some (kelvin_of tk T)) M rml rmg. Proof. rewrite HK. apply Ha. Qed.
    Let HTk : kelvin_of tk T <> 0. Proof. rewrite HK. exact HT. Qed.

    Lemma g_pressure m u :
      match resolve_p rp m u with
      | Some rp' => exists li' pi', convert_pressure RNum S m u false
            = SOk (mk_state rp' rl rm tk T a mat (map (spec_conv (p_canon psat rp) (p_canon psat rp')) cp) cl cb li' pi')
      | None => exists e, outcome (convert_pressure RNum S m u false) = Some e
      end.
    Proof. exact (gp_mk a psat T tk rl mat cp cl cb HaP Hp HTk rm li pi rp m u false). Qed.

    Lemma g_temperature u :
      match resolve_t u with
      | Some tk' => exists T', convert_temperature RNum S u false = SOk (mk_state rp rl rm tk' T' a mat cp cl cb li pi)
                               /\ kelvin_of tk' T' = kelvin_of tk T
      | None => exists e, outcome (convert_temperature RNum S u false) = Some e
      end.
    Proof.
      unfold resolve_t. destruct (celsius_like u) eqn:Ec; [|destruct (ostr_eqb u (Some "K"%string)) eqn:Ek].
      - rewrite (ct_celsius S u false Ec). unfold S.
        destruct (convert_temperature_step rp rl rm tk T a mat cp cl cb li pi false false) as [T' [He HK']].
        cbn [tunit_label] in He. exists T'. rewrite He. split; [reflexivity|exact HK'].
      - apply ostr_eqb_eq in Ek. subst u. unfold S.
        destruct (convert_temperature_step rp rl rm tk T a mat cp cl cb li pi false true) as [T' [He HK']].
        cbn [tunit_label] in He. exists T'. rewrite He. split; [reflexivity|exact HK'].
      - apply ct_refused; assumption.
    Qed.

    Lemma g_loading b u :
      match resolve_l rl b u with
      | Some rl' => exists li' pi', convert_loading RNum S b u false
            = SOk (mk_state rp rl' rm tk T a mat cp (map (fun v => v * lpm rl rm / lpm rl' rm) cl) cb li' pi')
      | None => exists e, outcome (convert_loading RNum S b u false) = Some e
      end.
    Proof.
      unfold resolve_l.
      pose proof (cl_eff S b u false) as Heff. pose proof (cl_noop S b u false) as Hnoop. pose proof (cl_refused S b u false) as Href.
      pose proof (cl_frac_ignores S b u false) as Hign. pose proof (cl_frac_frac S b u false) as Hff.
      assert (Hlb : loading_basis S = l_basis rl) by reflexivity. assert (Hlu : loading_unit S = l_unit rl) by reflexivity.
      rewrite Hlb, Hlu in *. cbv zeta in *.
      assert (Hfalsy := eff_u_falsy (l_basis rl) (l_unit rl) (eff_b (l_basis rl) b) u).
      specialize (Heff (l_basis_truthy rl)).
      set (b' := eff_b (l_basis rl) b) in *. set (u' := eff_u (l_basis rl) (l_unit rl) b' u) in *. clearbody u'. clearbody b'.
      assert (HTemp : iso_temperature RNum S = Ok (kelvin_of tk T)) by apply iso_temperature_mk.
      (* the canonical call *)
      assert (Hcanon : forall rl', exists li' pi',
                 convert_loading RNum S (l_basis rl') (l_unit rl') false
                 = SOk (mk_state rp rl' rm tk T a mat cp (map (fun v => v * lpm rl rm / lpm rl' rm) cl) cb li' pi')).
      { intros rl'. unfold S. rewrite (convert_loading_step a M rml rmg) by (try assumption).
        destruct (lrep_eqb rl' rl) eqn:E.
        - apply lrep_eqb_eq in E; subst rl'. exists li, pi. rewrite norm_id. reflexivity.
        - exists None, None. rewrite norm_l. reflexivity. }
      destruct (parse_lbasis b') as [t|] eqn:Eb.
      2:{ apply Href.
          - left. apply neq_eqb. intro E; rewrite E, parse_lbasis_of in Eb; discriminate Eb.
          - intros v t. exists ParameterError. apply c_loading_refuses_unknown_basis_to. rewrite parse_lbasis_known, Eb. reflexivity. }
      apply parse_lbasis_some in Eb. subst b'.
      destruct (parse_lunit t u') as [rl'|] eqn:Eu.
      2:{ (* the unit argument names no unit of the (physical) target basis *)
          assert (Hph : lbasis_phys t = true) by (destruct t; try reflexivity; discriminate Eu).
          assert (Hk : tbl_mem u' (lunits t) = false) by (rewrite (parse_lunit_known _ _ Hph), Eu; reflexivity).
          destruct (lbasis_eqb t (lbasis_of rl)) eqn:Et.
          - apply lbasis_eqb_eq in Et. subst t.
            assert (Hne : ostr_eqb u' (l_unit rl) = false).
            { apply neq_eqb. intro E. rewrite E, parse_lunit_of in Eu. discriminate Eu. }
            apply Href.
            + right. split; [exact Hne|]. rewrite frac_in, <- lphys_of, Hph. reflexivity.
            + intros v t0. exists ParameterError. rewrite l_basis_name. apply c_loading_refuses_unknown_unit_same; try assumption.
              * destruct (ostr_truthy u') eqn:Etr; [reflexivity|].
                rewrite (Hfalsy (eq_trans (f_equal (fun x => ostr_eqb x (l_basis rl)) (eq_sym (l_basis_name rl))) (ostr_eqb_refl _)) eq_refl) in Hne.
                rewrite ostr_eqb_refl in Hne. discriminate Hne.
              * rewrite ostr_eqb_sym. exact Hne.
          - apply Href.
            + left. rewrite l_basis_name, lbasis_name_eqb. exact Et.
            + intros v t0. exists ParameterError. rewrite l_basis_name. apply c_loading_refuses_unknown_unit_to; try assumption.
              destruct t, (lbasis_of rl); try discriminate Et; reflexivity. }
      destruct (lbasis_phys t) eqn:Hph.
      - (* a physical target whose unit argument names a unit: the canonical call *)
        destruct (parse_lunit_some _ _ _ Hph Eu) as [E1 [E2 _]]. subst u'. rewrite Heff, <- E1. exact (Hcanon rl').
      - destruct (parse_lunit_frac _ _ _ Hph Eu) as [E1 [E2 E3]].
        destruct (lbasis_eqb t (lbasis_of rl)) eqn:Et.
        + (* fraction -> fraction, percent -> percent: nothing happens whatever the unit string *)
          apply lbasis_eqb_eq in Et. rewrite (nonphys_unique rl t u' rl' (eq_sym Et) Hph Eu).
          exists li, pi. rewrite Hnoop.
          * rewrite norm_id. reflexivity.
          * rewrite Et, <- l_basis_name. apply ostr_eqb_refl.
          * right. rewrite frac_in, <- lphys_of, <- Et, Hph. reflexivity.
        + destruct (l_is_phys rl) eqn:Hrl.
          * rewrite (Hign t (lbasis_of rl) (l_basis_name rl) eq_refl Hph); [|rewrite lphys_of; exact Hrl].
            rewrite <- E1, <- E2. exact (Hcanon rl').
          * exists None, None.
            rewrite (Hff t (lbasis_of rl) (kelvin_of tk T) (l_basis_name rl) eq_refl Hph); [|rewrite lphys_of; exact Hrl|exact Et|exact HTemp].
            unfold S, mk_state; red_s. rewrite <- E1, E2.
            rewrite (norm_pct rl rl' rm cl Hrl); [reflexivity|rewrite <- lphys_of, E3; exact Hph|rewrite E3; exact Et].
    Qed.

    Lemma g_material b u :
      match resolve_m rm b u with
      | Some rm' => exists li' pi', convert_material RNum S b u false
            = SOk (mk_state rp rl rm' tk T a mat cp (map (fun v => v * lpm rl rm / lpm rl rm') cl) cb li' pi')
      | None => exists e, outcome (convert_material RNum S b u false) = Some e
      end.
    Proof.
      unfold resolve_m.
      pose proof (cm_eff S b u false) as Heff. pose proof (cm_refused S b u false) as Href.
      pose proof (cm_label_refused S b u false) as Hlab.
      assert (Hlb : loading_basis S = l_basis rl) by reflexivity.
      assert (Hmb : material_basis S = m_basis rm) by reflexivity. assert (Hmu : material_unit S = m_unit rm) by reflexivity.
      assert (Hmat : iso_material S = mat) by reflexivity.
      rewrite Hmb, Hmu in *. rewrite ?Hlb, ?Hmat in Href, Hlab. cbv zeta in *.
      assert (Hfalsy := eff_u_falsy (m_basis rm) (m_unit rm) (eff_b (m_basis rm) b) u).
      specialize (Heff (m_basis_truthy rm)).
      set (b' := eff_b (m_basis rm) b) in *. set (u' := eff_u (m_basis rm) (m_unit rm) b' u) in *. clearbody u'. clearbody b'.
      (* the canonical call *)
      assert (Hcanon : forall rm', exists li' pi',
                 convert_material RNum S (m_basis rm') (m_unit rm') false
                 = SOk (mk_state rp rl rm' tk T a mat cp (map (fun v => v * lpm rl rm / lpm rl rm') cl) cb li' pi')).
      { intros rm'. unfold S, mat.
        destruct (l_is_phys rl) eqn:Hrl.
        - rewrite convert_material_step_phys by assumption. fold mat.
          destruct (mrep_eqb rm' rm) eqn:E.
          + apply mrep_eqb_eq in E; subst rm'. exists li, pi. rewrite norm_id. reflexivity.
          + exists None, None. rewrite (norm_m_phys rl) by exact Hrl. reflexivity.
        - rewrite (convert_material_step_frac a M rml rmg) by assumption. fold mat.
          destruct (mrep_eqb rm' rm) eqn:E.
          + apply mrep_eqb_eq in E; subst rm'. exists li, pi. rewrite norm_id. reflexivity.
          + destruct (same_mbasis rm' rm) eqn:Es.
            * exists li, pi. unfold same_mbasis in Es. rewrite !m_basis_label, mbasis_name_eqb in Es. apply mbasis_eqb_eq in Es.
              rewrite (lpm_frac_same rl rm rm' Hrl Es), norm_id. reflexivity.
            * exists None, None. rewrite (norm_m_frac rl) by exact Hrl. reflexivity. }
      destruct (parse_mbasis b') as [t|] eqn:Eb.
      2:{ apply (Href ParameterError).
          - left. apply neq_eqb. intro E; rewrite E, parse_mbasis_of in Eb; discriminate Eb.
          - intros v. apply c_material_refuses_unknown_basis_to. rewrite parse_mbasis_known, Eb. reflexivity. }
      apply parse_mbasis_some in Eb. subst b'.
      destruct (parse_munit t u') as [rm'|] eqn:Eu'.
      - (* the unit argument names a unit of the target basis: the canonical call *)
        destruct (parse_munit_some _ _ _ Eu') as [E1 [E2 _]]. subst u'. rewrite Heff, <- E1. exact (Hcanon rm').
      - assert (Hk : tbl_mem u' (munits t) = false) by (rewrite parse_munit_known, Eu'; reflexivity).
        destruct (mbasis_eqb t (mbasis_of rm)) eqn:Et.
        + (* same basis, a string that is no unit of it: refused, by c_unit for a physical loading, by the label check for a fraction *)
          apply mbasis_eqb_eq in Et. subst t.
          assert (Hne : ostr_eqb u' (m_unit rm) = false).
          { apply neq_eqb. intro E. rewrite E, parse_munit_of in Eu'. discriminate Eu'. }
          rewrite <- m_basis_label in *.
          destruct (l_is_phys rl) eqn:Hrl.
          * apply (Href ParameterError).
            -- right. split; [exact Hne|]. rewrite frac_in, Hrl. reflexivity.
            -- intros v. rewrite m_basis_label. apply c_material_refuses_unknown_unit_same.
               ++ destruct (ostr_truthy u') eqn:Etr; [reflexivity|].
                  rewrite (Hfalsy (ostr_eqb_refl _) eq_refl), ostr_eqb_refl in Hne. discriminate Hne.
               ++ rewrite ostr_eqb_sym. exact Hne.
               ++ exact Hk.
          * exists ParameterError. rewrite (Hlab (mbasis_of rm)); [reflexivity|rewrite frac_in, Hrl; reflexivity|apply m_basis_label|apply ostr_eqb_refl|exact Hne|exact Hk].
        + apply (Href ParameterError).
          * left. rewrite m_basis_label, mbasis_name_eqb. exact Et.
          * intros v. rewrite m_basis_label. apply c_material_refuses_unknown_unit; [|left; exact Hk].
            destruct t, (mbasis_of rm); try discriminate Et; reflexivity.
    Qed.
  End Steps.

  (* ================================================================== histories *)
  Variables (r0 : rs) (cp0 cl0 : list R) (cb : list bool).
  Local Notation Rep' := (Rep psat M rml rmg dens mm TK r0 cp0 cl0 cb a).

  Lemma comp_p rp rp' : map (spec_conv (p_canon psat rp) (p_canon psat rp')) (map (spec_conv (p_canon psat (r_p r0)) (p_canon psat rp)) cp0)
                        = map (spec_conv (p_canon psat (r_p r0)) (p_canon psat rp')) cp0.
  Proof. rewrite map_map. apply map_ext. intro v. apply spec_conv_compose; apply Rgt_not_eq, p_canon_pos; exact Hp. Qed.
  Lemma comp_l X l mr l' mr' : map (fun v => v * lpm l mr / lpm l' mr') (map (fun v => v * X / lpm l mr) cl0) = map (fun v => v * X / lpm l' mr') cl0.
  Proof.
    rewrite map_map. apply map_ext. intro v. pose proof (lpm_pos' l mr); pose proof (lpm_pos' l' mr'). field. split; lra.
  Qed.

  (* ONE single-quantity call with arbitrary strings from a state of the invariant *)
  Lemma gstep1 r s o : is_single o = true -> Rep' r s ->
    match resolve1 r o with
    | Some r' => outcome (apply_gop s o) = None /\ Rep' r' (state_after (apply_gop s o))
    | None => (exists e, outcome (apply_gop s o) = Some e) /\ state_after (apply_gop s o) = s
    end.
  Proof.
    intros Hs [T [li [pi [HK ->]]]].
    destruct r as [rp rl rm tk]; cbn [r_p r_l r_m r_k] in *. fold mat.
    set (cpX := map (spec_conv (p_canon psat (r_p r0)) (p_canon psat rp)) cp0).
    set (clX := map (fun v => v * l_per_m M rml rmg dens mm (r_l r0) (r_m r0) / l_per_m M rml rmg dens mm rl rm) cl0).
    set (S := mk_state rp rl rm tk T a mat cpX clX cb li pi).
    assert (Href : forall e, outcome (apply_gop S o) = Some e ->
             (exists e', outcome (apply_gop S o) = Some e') /\ state_after (apply_gop S o) = S).
    { intros e H. split; [exists e; exact H|]. exact (single_refusal_changes_nothing _ o e Hs H). }
    destruct o as [m u|b u|b u|u|]; try discriminate Hs; cbn [resolve1 apply_gop r_p r_l r_m r_k] in *.
    - pose proof (g_pressure rp rl rm tk T cpX clX cb li pi HK m u) as H; fold S in H.
      destruct (resolve_p rp m u) as [rp'|]; cbn [option_map]; [|destruct H as [e H]; exact (Href e H)].
      destruct H as [li' [pi' H]]. rewrite H. cbn [outcome state_after]. split; [reflexivity|].
      exists T, li', pi'. cbn [r_p r_l r_m r_k]. split; [exact HK|]. unfold cpX. rewrite comp_p. reflexivity.
    - pose proof (g_loading rp rl rm tk T cpX clX cb li pi HK b u) as H; fold S in H.
      destruct (resolve_l rl b u) as [rl'|] eqn:Er; cbn [option_map]; [|destruct H as [e H]; exact (Href e H)].
      destruct H as [li' [pi' H]]. rewrite H. cbn [outcome state_after]. split; [reflexivity|].
      exists T, li', pi'. cbn [r_p r_l r_m r_k]. split; [exact HK|]. unfold clX.
      change (l_per_m M rml rmg dens mm) with lpm. rewrite comp_l. reflexivity.
    - pose proof (g_material rp rl rm tk T cpX clX cb li pi HK b u) as H; fold S in H.
      destruct (resolve_m rm b u) as [rm'|] eqn:Er; cbn [option_map]; [|destruct H as [e H]; exact (Href e H)].
      destruct H as [li' [pi' H]]. rewrite H. cbn [outcome state_after]. split; [reflexivity|].
      exists T, li', pi'. cbn [r_p r_l r_m r_k]. split; [exact HK|]. unfold clX.
      change (l_per_m M rml rmg dens mm) with lpm. rewrite comp_l. reflexivity.
    - pose proof (g_temperature rp rl rm tk T cpX clX cb li pi u) as H; fold S in H.
      destruct (resolve_t u) as [tk'|]; cbn [option_map]; [|destruct H as [e H]; exact (Href e H)].
      destruct H as [T' [H HK']]. rewrite H. cbn [outcome state_after]. split; [reflexivity|].
      exists T', li, pi. cbn [r_p r_l r_m r_k]. split; [rewrite HK'; exact HK|reflexivity].
  Qed.

  (* a sequence of single-quantity calls executed until the first refusal *)
  Lemma gseq l : Forall (fun x => is_single x = true) l -> forall r s, Rep' r s ->
    Rep' (fst (resolve_seq r l)) (state_after (run_seq s l))
    /\ (outcome (run_seq s l) = None <-> snd (resolve_seq r l) = true).
  Proof.
    induction 1 as [|o q Ho Hq IH]; intros r s Hr; cbn [resolve_seq run_seq].
    - cbn [fst snd state_after outcome]. repeat split; try assumption; reflexivity.
    - pose proof (gstep1 r s o Ho Hr) as H. destruct (resolve1 r o) as [r'|].
      + destruct H as [H1 H2]. destruct (apply_gop s o) as [s1|e1 s1]; [|discriminate H1]. cbn [mbind state_after] in *.
        exact (IH r' s1 H2).
      + destruct H as [[e H1] H2]. destruct (apply_gop s o) as [s1|e1 s1]; [discriminate H1|]. cbn [mbind state_after outcome fst snd] in *.
        subst s1. repeat split; try assumption; intro; discriminate.
  Qed.

  (* ONE call (single-quantity or combined) *)
  Lemma gstep r s o : Rep' r s ->
    Rep' (fst (resolve r o)) (state_after (apply_gop s o))
    /\ (outcome (apply_gop s o) = None <-> snd (resolve r o) = true).
  Proof. intros Hr. rewrite apply_gop_steps. exact (gseq (steps o) (steps_single o) r s Hr). Qed.

  (* THE PROPERTY over histories of calls with ARBITRARY strings *)
  Theorem history_general T li pi ops : kelvin_of (r_k r0) T = TK ->
    let s0 := mk_state (r_p r0) (r_l r0) (r_m r0) (r_k r0) T a mat cp0 cl0 cb li pi in
    (forall pre o post, ops = (pre ++ o :: post)%list ->
       let s := run_gops s0 pre in let r := ref_gops r0 pre in
       (outcome (apply_gop s o) = None <-> snd (resolve r o) = true)
       /\ (is_single o = true -> forall e, outcome (apply_gop s o) = Some e -> state_after (apply_gop s o) = s)
       /\ apply_gop s o = run_seq s (steps o))
    /\ Rep' (ref_gops r0 ops) (run_gops s0 ops)
    /\ valid_labels (run_gops s0 ops) = true.
  Proof.
    intros HK s0.
    pose proof (rep_init psat M rml rmg dens mm TK Hp HM Hl Hg Hd Hmm r0 cp0 cl0 cb a T li pi HK) as H0. fold mat in H0. fold s0 in H0.
    assert (G : forall ops' r s, Rep' r s ->
       (forall pre o post, ops' = (pre ++ o :: post)%list ->
          (outcome (apply_gop (run_gops s pre) o) = None <-> snd (resolve (ref_gops r pre) o) = true))
       /\ Rep' (ref_gops r ops') (run_gops s ops')).
    { clear H0. intro ops'. induction ops' as [|o ops' IH]; intros r s Hr.
      - split; [|assumption]. intros pre o post E. destruct pre; discriminate E.
      - destruct (gstep r s o Hr) as [H1 H3]. destruct (IH _ _ H1) as [Hall Hrep].
        split; [|assumption].
        intros pre o' post E. destruct pre as [|x pre]; cbn in E; injection E as -> ->.
        + exact H3.
        + cbn [run_gops ref_gops fold_left]. apply (Hall pre o' post eq_refl). }
    destruct (G ops r0 s0 H0) as [Hall Hr].
    split; [|split; [exact Hr|]].
    - intros pre o post E s r. split; [exact (Hall pre o post E)|]. split; [|apply apply_gop_steps].
      intros Hs e He. exact (single_refusal_changes_nothing _ o e Hs He).
    - destruct Hr as [T' [li' [pi' [_ ->]]]]. apply mk_state_valid.
  Qed.

  (* converting back to the starting representation restores the original numbers - after ANY history *)
  Theorem history_general_back_restores T li pi ops : kelvin_of (r_k r0) T = TK ->
    let s0 := mk_state (r_p r0) (r_l r0) (r_m r0) (r_k r0) T a mat cp0 cl0 cb li pi in
    let back := [OpP (r_p r0); OpM (r_m r0); OpL (r_l r0); OpT (r_k r0)] in
    col_p (run_ops (run_gops s0 ops) back) = cp0 /\ col_l (run_ops (run_gops s0 ops) back) = cl0
    /\ col_branch (run_ops (run_gops s0 ops) back) = cb.
  Proof.
    intros HK s0 back. destruct (history_general T li pi ops HK) as [_ [Hr _]]. fold s0 in Hr.
    set (sf := run_gops s0 ops) in *. set (r := ref_gops r0 ops) in *.
    pose proof (rep_step psat M rml rmg dens mm TK Hp HM Hl Hg Hd Hmm HT r0 cp0 cl0 cb a Ha) as Hstep.
    destruct (Hstep _ _ (OpP (r_p r0)) Hr) as [_ H1]. destruct (Hstep _ _ (OpM (r_m r0)) H1) as [_ H2].
    destruct (Hstep _ _ (OpL (r_l r0)) H2) as [_ H3]. destruct (Hstep _ _ (OpT (r_k r0)) H3) as [_ H4].
    unfold back, run_ops. cbn [fold_left].
    destruct H4 as [T' [li' [pi' [_ ->]]]]. destruct r as [p l mr k]. destruct r0 as [p0 l0 m0 k0].
    cbn [rs_step r_p r_l r_m r_k mk_state col_p col_l col_branch].
    split; [|split; [|reflexivity]].
    - apply map_same. intro v. apply spec_conv_id. apply Rgt_not_eq, p_canon_pos; exact Hp.
    - apply map_same. intro v. pose proof (lpm_pos' l0 m0). unfold lpm in *. field. lra.
  Qed.
End General.

(* ------------------------------------------------------------------ the repaired deviation, examples *)
Close Scope R_scope.
Open Scope string_scope.
Fixpoint accepted (r : rs) (ops : list gop) : list bool :=
  match ops with [] => [] | o :: q => snd (resolve r o) :: accepted (fst (resolve r o)) q end.

(* on a fraction / percent isotherm, naming the current material basis (or none) with a string that is no unit of it is
   refused and changes nothing: for ALL such states and ALL strings (before the repair the string was stored unchecked) *)
Theorem unknown_material_unit_refused_on_fraction (s : iso RNum) (t : mbasis) b u vb :
  ostr_in (loading_basis s) fracs = true -> material_basis s = mb_label t ->
  ostr_truthy b = false \/ b = material_basis s ->
  ostr_truthy u = true -> ostr_eqb u (material_unit s) = false -> tbl_mem u (munits t) = false ->
  convert_material RNum s b u vb = SErr ParameterError s.
Proof.
  intros Hf Hb Hbb Hu Hne Hk.
  assert (Eb : eff_b (material_basis s) b = material_basis s).
  { unfold eff_b. destruct Hbb as [->| ->]; [reflexivity|]. rewrite Hb, mb_label_truthy. reflexivity. }
  assert (Eu : eff_u (material_basis s) (material_unit s) (eff_b (material_basis s) b) u = u).
  { unfold eff_u. rewrite Hu. reflexivity. }
  apply (cm_label_refused s b u vb t Hf Hb).
  - rewrite Eb. apply ostr_eqb_refl.
  - rewrite Eu. exact Hne.
  - rewrite Eu. exact Hk.
Qed.
(* ... hence the history that used to end in an isotherm that could not be converted back is now stopped at its third call *)
Definition r0w := mkRS (PAbs bar) (LMolar mmol) (MMass g) true.
Definition opsw := [GL (Some "fraction") None; GM (Some "volume") (Some "cm3"); GM None (Some "bogus")].
Example former_unchecked_history : accepted r0w opsw = [true; true; false] /\ ref_gops r0w opsw = mkRS (PAbs bar) LFraction (MVol cm3) true.
Proof. vm_compute. split; reflexivity. Qed.

(* strings that name no representation and are nevertheless accepted - always with a normalised label afterwards *)
Remark accepted_strings_that_name_nothing :
  resolve_t (Some "kcal") = Some false                                         (* any string containing c / C = degrees Celsius *)
  /\ resolve_p PRel (Some "relative%") (Some "bogus") = Some PRelPct           (* relative targets ignore the unit *)
  /\ resolve_p PRel None (Some "torr") = Some PRel                             (* ... also when only a unit is given *)
  /\ resolve_l (LMolar mmol) (Some "fraction") (Some "bogus") = Some LFraction (* fraction / percent ignore the unit *)
  /\ resolve_l LFraction None (Some "bogus") = Some LFraction
  /\ resolve_m (MMass g) (Some "") (Some "bogus") = None.                      (* a material unit is always checked *)
Proof. vm_compute. repeat split. Qed.

(* a mixed history: accepted, refused, omitted, empty, garbage; evaluated by the reference semantics *)
Example mixed_history_resolved :
  let ops := [GP None None;                                   (* nothing named: no-op *)
              GP (Some "relative") (Some "bogus");            (* accepted, unit ignored *)
              GL (Some "mass") None;                          (* refused: basis change without unit *)
              GL (Some "mass") (Some "mg");
              GM (Some "") (Some "kg");                       (* empty basis = current one *)
              GT (Some "Celsius"); GT (Some "bogus");         (* second one refused *)
              GL (Some "percent") (Some "bogus");             (* accepted, unit ignored *)
              GM None (Some "furlong");                       (* refused: no unit of the mass basis (percent mode too) *)
              GL (Some "molar") (Some "mmol");
              GM (Some "mass") (Some "g");
              GC None (Some "torr") (Some "molar") (Some "mol") (Some "volume") (Some "furlong");
                                                              (* convert(): pressure step kept, material step refused, loading not tried *)
              GC (Some "absolute") (Some "torr") (Some "molar") (Some "mol") (Some "volume") (Some "cm3")] in
  accepted r0w ops = [true; true; false; true; true; true; false; true; false; true; true; false; true]
  /\ ref_gops r0w ops = mkRS (PAbs torr) (LMolar mol) (MVol cm3) false.
Proof. vm_compute. split; reflexivity. Qed.

(* the hypotheses of the history theorems are satisfiable *)
Example general_hypotheses_satisfiable :
  (0 < 101325 /\ 0 < 28 /\ 0 < 0.03 /\ 0 < 0.0002 /\ 0 < 2 /\ 0 < 60 /\ 77 <> 0 /\ kelvin_of true 77 = 77
   /\ ads_full_at (ads_full 101325 28 0.03 0.0002) 77 101325 28 0.03 0.0002)%R.
Proof. unfold kelvin_of, ads_full_at, ads_at, ads_full, ads_const. cbn. repeat split; lra. Qed.

(* convert(): a refusal leaves exactly the effect of the steps completed before it, for ALL states and ALL strings *)
Theorem convert_refusal_keeps_completed (s : iso RNum) pm pu lb lu mb mu e :
  outcome (convert RNum s pm pu lb lu mb mu false) = Some e ->
  exists pre o post s', steps (GC pm pu lb lu mb mu) = (pre ++ o :: post)%list /\ run_seq s pre = SOk s'
     /\ outcome (apply_gop s' o) = Some e /\ state_after (convert RNum s pm pu lb lu mb mu false) = s'.
Proof.
  intro H. change (convert RNum s pm pu lb lu mb mu false) with (apply_gop s (GC pm pu lb lu mb mu)) in *.
  rewrite apply_gop_steps in *. exact (run_seq_refusal_keeps_completed s _ e (steps_single _) H).
Qed.
