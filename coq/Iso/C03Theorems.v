(* C03: accessors in requested units = permanent conversion + native read; selection; linear interpolation. *)
From Coq Require Import Reals Lra Lia QArith Qreals ZArith String List Bool Sorted.
From PG Require Import Lib.Num Lib.Py Lib.Tac Gen.UnitsGen1 Units.AdsOracle Gen.UnitsGen2 Units.UnitsSpec
  Units.PressureProofs Units.LoadingPhys Units.MaterialProofs Units.C01Theorems Iso.IsoState Gen.IsoGen Iso.IsoSpec
  Iso.ConvPressure Iso.ConvLoading Iso.ConvMaterial Iso.IsoAccess Iso.AccessFactor.
Import ListNotations.
Open Scope list_scope.
Open Scope R_scope.

(* ------------------------------------------------------------------ rows of a branch *)
Definition std_branch (b : option string) : Prop := b = None \/ b = Some "ads"%string \/ b = Some "des"%string.
Definition keep (b : option string) (r : R * R * bool) : bool :=
  match b with Some "ads"%string => negb (snd r) | Some "des"%string => snd r | _ => true end.
Lemma branch_rows_std (s : iso RNum) b : std_branch b -> branch_rows RNum s b = Ok (filter (keep b) (rows RNum s)).
Proof.
  intros [-> | [-> | ->]]; cbn.
  - f_equal. symmetry. induction (rows RNum s) as [|x l IH]; simpl; congruence.
  - reflexivity.
  - reflexivity.
Qed.
Lemma zip3_map_p f (cp cl : list R) cb :
  zip3 RNum (map f cp) cl cb = map (fun r => (f (p_of RNum r), l_of RNum r, snd r)) (zip3 RNum cp cl cb).
Proof. revert cl cb; induction cp as [|x cp IH]; intros [|y cl] [|z cb]; simpl; try reflexivity. now rewrite IH. Qed.
Lemma zip3_map_l f (cp cl : list R) cb :
  zip3 RNum cp (map f cl) cb = map (fun r => (p_of RNum r, f (l_of RNum r), snd r)) (zip3 RNum cp cl cb).
Proof. revert cl cb; induction cp as [|x cp IH]; intros [|y cl] [|z cb]; simpl; try reflexivity. now rewrite IH. Qed.
Lemma filter_keep_map b (g : R * R * bool -> R * R * bool) l :
  (forall r, snd (g r) = snd r) -> filter (keep b) (map g l) = map g (filter (keep b) l).
Proof.
  intro H. induction l as [|x l IH]; simpl; [reflexivity|].
  assert (E : keep b (g x) = keep b x) by (unfold keep; rewrite H; reflexivity).
  rewrite E. destruct (keep b x); simpl; now rewrite IH.
Qed.

(* ------------------------------------------------------------------ pressure(): factor form, for every data list *)
Section Acc.
  Variables (a : adsorbate RNum) (psat M rml rmg dens mm T : R) (tk : bool).
  Hypotheses (Hpsat : a_psat_Pa a (Some (kelvin_of tk T)) = Some psat) (Hads : ads_at a (Some (kelvin_of tk T)) M rml rmg)
             (Hp : 0 < psat) (HM : 0 < M) (Hl : 0 < rml) (Hg : 0 < rmg) (Hd : 0 < dens) (Hmm : 0 < mm) (HT : kelvin_of tk T <> 0).
  Variables (rp : prep) (rl : lrep) (rm : mrep) (cp cl : list R) (cb : list bool) (li pi : option (cache RNum)).
  Let m := mat_full dens mm.
  Let s := mk_state rp rl rm tk T a m cp cl cb li pi.

  Theorem pressure_accessor_factor b (rp' : prep) : std_branch b ->
    iso_pressure RNum s b (p_unit rp') (p_mode rp') None
    = Ok (map (spec_conv (p_canon psat rp) (p_canon psat rp')) (map (p_of RNum) (filter (keep b) (rows RNum s)))).
  Proof.
    intro Hb. unfold iso_pressure. rewrite (branch_rows_std s b Hb). cbn [bind].
    destruct (map (p_of RNum) (filter (keep b) (rows RNum s))) as [|x0 xs] eqn:E; [reflexivity|].
    assert (Hm : ostr_truthy (p_mode rp') = true) by (destruct rp'; reflexivity).
    rewrite Hm. cbn [orb]. unfold s at 1. rewrite iso_temperature_mk. cbn [bind].
    erewrite conv_col_ext.
    2:{ intro v. unfold s, mk_state; cbn [pressure_mode pressure_unit iso_adsorbate].
        apply (c_pressure_factor_acc psat (kelvin_of tk T) v rp rp' a Hpsat Hp HT). }
    reflexivity.
  Qed.

  (* ... which is exactly: permanently convert, then read natively *)
  Theorem pressure_accessor_is_convert_then_read b (rp' : prep) : std_branch b ->
    iso_pressure RNum s b (p_unit rp') (p_mode rp') None
    = iso_pressure RNum (state_after (convert_pressure RNum s (p_mode rp') (p_unit rp') false)) b None None None.
  Proof.
    intro Hb. rewrite pressure_accessor_factor by assumption.
    unfold s. rewrite (convert_pressure_step a psat) by assumption. cbn [state_after].
    destruct (prep_eqb rp' rp) eqn:E.
    - apply prep_eqb_eq in E; subst rp'.
      unfold iso_pressure. rewrite (branch_rows_std _ b Hb). cbn [bind ostr_truthy orb].
      erewrite map_ext; [rewrite map_id|intro v; apply spec_conv_id; apply Rgt_not_eq, p_canon_pos; assumption].
      destruct (map _ _); reflexivity.
    - unfold iso_pressure. rewrite (branch_rows_std _ b Hb). cbn [bind ostr_truthy orb].
      unfold rows, mk_state; cbn [col_p col_l col_branch]. rewrite zip3_map_p.
      rewrite filter_keep_map by reflexivity. rewrite !map_map. cbn [p_of fst].
      match goal with |- _ = match ?l with [] => _ | _ => _ end => destruct l eqn:El end.
      + apply map_eq_nil in El. rewrite El. reflexivity.
      + rewrite <- El. reflexivity.
  Qed.

  (* loading() without material arguments, any stored basis (fraction and percent included) *)
  Theorem loading_accessor_factor b (rl' : lrep) : std_branch b ->
    iso_loading RNum s b (l_unit rl') (l_basis rl') None None None
    = Ok (map (spec_conv (l_canon M rml rmg rm rl) (l_canon M rml rmg rm rl')) (map (l_of RNum) (filter (keep b) (rows RNum s)))).
  Proof.
    intro Hb. unfold iso_loading. rewrite (branch_rows_std s b Hb). cbn [bind].
    destruct (map (l_of RNum) (filter (keep b) (rows RNum s))) as [|x0 xs] eqn:E; [reflexivity|].
    assert (Hm : ostr_truthy (l_basis rl') = true) by (destruct rl'; reflexivity).
    cbn [ostr_truthy orb bind]. rewrite Hm. cbn [orb]. unfold s at 1. rewrite iso_temperature_mk. cbn [bind].
    erewrite conv_col_ext.
    2:{ intro v. unfold s, mk_state, or_default; cbn [loading_basis loading_unit iso_adsorbate material_basis material_unit ostr_truthy].
        rewrite Hm.
        assert (Hmb : ostr_truthy (m_basis rm) = true) by (destruct rm; reflexivity).
        assert (Hmu : ostr_truthy (m_unit rm) = true) by (destruct rm as [[]|[]|[]]; reflexivity).
        rewrite ?Hmb, ?Hmu.
        apply (c_loading_factor_at M rml rmg (Some (kelvin_of tk T)) v rm rl rl' a Hads HM Hl Hg). }
    reflexivity.
  Qed.

  Theorem loading_accessor_is_convert_then_read b (rl' : lrep) : std_branch b ->
    iso_loading RNum s b (l_unit rl') (l_basis rl') None None None
    = iso_loading RNum (state_after (convert_loading RNum s (l_basis rl') (l_unit rl') false)) b None None None None None.
  Proof.
    intro Hb. rewrite loading_accessor_factor by assumption.
    unfold s. rewrite (convert_loading_step a M rml rmg) by assumption. cbn [state_after].
    destruct (lrep_eqb rl' rl) eqn:E.
    - apply lrep_eqb_eq in E; subst rl'.
      unfold iso_loading. rewrite (branch_rows_std _ b Hb). cbn [bind ostr_truthy orb].
      erewrite map_ext; [rewrite map_id|intro v; apply spec_conv_id; apply Rgt_not_eq, l_canon_pos; assumption].
      destruct (map _ _); reflexivity.
    - unfold iso_loading. rewrite (branch_rows_std _ b Hb). cbn [bind ostr_truthy orb].
      unfold rows, mk_state; cbn [col_p col_l col_branch]. rewrite zip3_map_l.
      rewrite filter_keep_map by reflexivity. rewrite !map_map. cbn [l_of fst snd].
      match goal with |- _ = match ?l with [] => _ | _ => _ end => destruct l eqn:El end.
      + apply map_eq_nil in El. rewrite El. reflexivity.
      + rewrite <- El. reflexivity.
  Qed.
End Acc.

(* ------------------------------------------------------------------ limits *)
Theorem limits_select_is_filter (s : iso RNum) b pu pm lo hi :
  limits_active RNum (Some (lo, hi)) = true ->
  iso_pressure RNum s b pu pm (Some (lo, hi)) = res_map (filter (between RNum lo hi)) (iso_pressure RNum s b pu pm None).
Proof.
  intro Ha. unfold iso_pressure. destruct (branch_rows RNum s b) as [rs|e]; [|reflexivity]. cbn [bind].
  destruct (map (p_of RNum) rs) as [|x xs]; [reflexivity|].
  match goal with |- bind ?m _ = _ => destruct m as [r|e] end; [|reflexivity].
  cbn [bind res_map select_limits]. unfold select_limits. rewrite Ha. reflexivity.
Qed.
Theorem limits_none_selects_all (s : iso RNum) b pu pm r :
  iso_pressure RNum s b pu pm None = Ok r -> iso_pressure RNum s b pu pm (Some (None, None)) = Ok r.
Proof.
  unfold iso_pressure. destruct (branch_rows RNum s b) as [rs|e]; [|discriminate]. cbn [bind].
  destruct (map (p_of RNum) rs) as [|x xs]; [auto|].
  match goal with |- bind ?m _ = _ -> _ => destruct m as [r'|e] end; [|discriminate]. cbn. auto.
Qed.
(* a bound equal to 0 is a bound (repaired in /repo by "fix: limits with a bound equal to 0 ..."; before, `any(limits)` dropped it) *)
Theorem zero_limits_are_limits (s : iso RNum) b pu pm :
  iso_pressure RNum s b pu pm (Some (Some 0, Some 0)) = res_map (filter (between RNum (Some 0) (Some 0))) (iso_pressure RNum s b pu pm None).
Proof. apply limits_select_is_filter. reflexivity. Qed.
Lemma filter_in_order (f : R -> bool) xs : forall x, In x (filter f xs) <-> In x xs /\ f x = true.
Proof. intro x. apply filter_In. Qed.

(* ------------------------------------------------------------------ linear interpolation over sorted knots *)
Ltac nrm := change (t RNum) with R in *.
Definition increasing (k : list (R * R)) : Prop := StronglySorted (fun p q => fst p < fst q) k.

Lemma chord_left (p q : R * R) : fst p <> fst q -> chord RNum p q (fst p) = snd p.
Proof. intro H. unfold chord; cbv [nadd nmul ndiv nsub t RNum]. field. lra. Qed.
Lemma chord_right (p q : R * R) : fst p <> fst q -> chord RNum p q (fst q) = snd q.
Proof. intro H. unfold chord; cbv [nadd nmul ndiv nsub t RNum]. field. lra. Qed.

Lemma Rleb_t x y : x <= y -> nleb (n:=RNum) x y = true. Proof. intro; apply Rleb_true; assumption. Qed.
Lemma Rleb_f x y : y < x -> nleb (n:=RNum) x y = false. Proof. intro; apply Rleb_false; lra. Qed.

(* inside a segment of an increasing knot list the value is on the chord of that segment *)
Lemma seg_eval_segment pre p q post x :
  increasing (pre ++ p :: q :: post) -> fst p < x <= fst q ->
  seg_eval RNum (pre ++ p :: q :: post) x = Some (chord RNum p q x).
Proof.
  induction pre as [|h pre IH]; intros Hinc Hx.
  - cbn [app seg_eval]. rewrite Rleb_t by (nrm; lra). reflexivity.
  - cbn [app] in *. inversion Hinc as [|? ? Hs Hall]; subst.
    destruct pre as [|h2 pre'].
    + cbn [app seg_eval] in *. inversion Hall as [|? ? Hhp _]; subst. rewrite Rleb_f by (nrm; lra).
      rewrite Rleb_t by (nrm; lra). reflexivity.
    + cbn [app] in *. change (seg_eval RNum (h :: h2 :: pre' ++ p :: q :: post) x)
        with (if nleb (n:=RNum) x (fst h2) then Some (chord RNum h h2 x) else seg_eval RNum (h2 :: pre' ++ p :: q :: post) x).
      assert (Hlt : fst h2 < fst p).
      { inversion Hs as [|? ? _ Hall2]; subst. rewrite Forall_forall in Hall2. apply Hall2. apply in_or_app. right. left. reflexivity. }
      rewrite Rleb_f by (nrm; lra). apply IH; assumption.
Qed.
Lemma seg_eval_first p q post x : x <= fst q -> seg_eval RNum (p :: q :: post) x = Some (chord RNum p q x).
Proof. intro H. cbn [seg_eval]. rewrite Rleb_t by (nrm; assumption). reflexivity. Qed.

Lemma last_two_decomp (k : list (R * R)) y z : last_two RNum k = Some (y, z) -> exists pre, k = (pre ++ [y; z])%list.
Proof.
  unfold last_two. nrm. destruct (rev k) as [|b [|a0 r]] eqn:E; try discriminate. intro H; inversion H; subst.
  exists (rev r). rewrite <- (rev_involutive k), E. cbn [rev]. rewrite <- app_assoc. reflexivity.
Qed.
Lemma last_two_some (a0 b0 : R * R) t0 : exists y z, last_two RNum (a0 :: b0 :: t0) = Some (y, z).
Proof.
  unfold last_two. nrm. pose proof (rev_length (a0 :: b0 :: t0)) as HL.
  destruct (rev (a0 :: b0 :: t0)) as [|r1 [|r2 rr]]; cbn in HL; try discriminate HL. eauto.
Qed.
Lemma incr_head_le (a0 : R * R) t q : increasing (a0 :: t) -> In q (a0 :: t) -> fst a0 <= fst q.
Proof.
  intros Hinc [->|Hin]; [nrm; lra|]. inversion Hinc as [|? ? _ Hall]; subst. rewrite Forall_forall in Hall. specialize (Hall q Hin). nrm. lra.
Qed.
Lemma incr_le_last pre (y z q : R * R) : increasing (pre ++ [y; z]) -> In q (pre ++ [y; z]) -> fst q <= fst z.
Proof.
  induction pre as [|h pre IH]; intros Hinc Hin.
  - cbn in *. inversion Hinc as [|? ? _ Hall]; subst. inversion Hall as [|? ? Hyz _]; subst.
    destruct Hin as [->|[->|[]]]; nrm; lra.
  - cbn [app] in *. inversion Hinc as [|? ? Hs Hall]; subst. destruct Hin as [->|Hin].
    + rewrite Forall_forall in Hall. assert (In z (pre ++ [y; z])) by (apply in_or_app; right; right; left; reflexivity).
      specialize (Hall z H). nrm. lra.
    + apply IH; assumption.
Qed.
Lemma Rltb_f x y : y <= x -> nltb (n:=RNum) x y = false. Proof. intro; apply Rltb_false; lra. Qed.
Lemma Rltb_t x y : x < y -> nltb (n:=RNum) x y = true. Proof. intro; apply Rltb_true; assumption. Qed.

(* THE interpolation facts of the property, for any increasing knot list *)
Theorem interp_on_chord pre p q post fill x :
  increasing (pre ++ p :: q :: post) -> fst p < x <= fst q ->
  interp_one RNum (pre ++ p :: q :: post) fill x = Ok (chord RNum p q x).
Proof.
  intros Hinc Hx. unfold interp_one.
  assert (Hlen : exists a0 b0 t0, pre ++ p :: q :: post = a0 :: b0 :: t0) by (destruct pre as [|a0 [|b0 t0]]; cbn; eauto).
  destruct Hlen as [a0 [b0 [t0 E]]].
  assert (Hseg := seg_eval_segment pre p q post x Hinc Hx).
  assert (Hp : In p (pre ++ p :: q :: post)) by (apply in_or_app; right; left; reflexivity).
  assert (Hq : In q (pre ++ p :: q :: post)) by (apply in_or_app; right; right; left; reflexivity).
  rewrite E in *.
  nrm. destruct (last_two_some a0 b0 t0) as [y [z El]]. rewrite El.
  destruct (last_two_decomp _ _ _ El) as [pre' Ek].
  pose proof (incr_head_le a0 (b0 :: t0) p Hinc Hp) as H1.
  rewrite Ek in Hinc, Hq. pose proof (incr_le_last pre' y z q Hinc Hq) as H2.
  rewrite Rltb_f by (nrm; lra). rewrite Rltb_f by (nrm; lra). rewrite Hseg. reflexivity.
Qed.

Theorem interp_at_knots p q post pre fill :
  increasing (pre ++ p :: q :: post) ->
  interp_one RNum (pre ++ p :: q :: post) fill (fst q) = Ok (snd q)
  /\ (pre = [] -> interp_one RNum (p :: q :: post) fill (fst p) = Ok (snd p)).
Proof.
  intro Hinc.
  assert (Hpq : fst p < fst q).
  { clear -Hinc. induction pre as [|h pre IH]; cbn [app] in Hinc.
    - inversion Hinc as [|? ? _ Hall]; subst. inversion Hall; subst. assumption.
    - inversion Hinc; subst. apply IH. assumption. }
  split.
  - rewrite interp_on_chord by (try assumption; nrm; lra). rewrite chord_right by (nrm; lra). reflexivity.
  - intros ->. cbn [app] in *. unfold interp_one.
    nrm. destruct (last_two_some p q post) as [y [z El]]. rewrite El.
    destruct (last_two_decomp _ _ _ El) as [pre' Ek].
    assert (Hp : In p (p :: q :: post)) by (left; reflexivity).
    rewrite Ek in Hinc, Hp. pose proof (incr_le_last pre' y z p Hinc Hp) as H2.
    rewrite Rltb_f by (nrm; lra). rewrite Rltb_f by (nrm; lra). rewrite seg_eval_first by (nrm; lra). rewrite chord_left by (nrm; lra). reflexivity.
Qed.

Theorem interp_outside_refused (k : list (R * R)) a0 b0 t0 y z x :
  k = a0 :: b0 :: t0 -> last_two RNum k = Some (y, z) -> x < fst a0 \/ fst z < x ->
  interp_one RNum k (@FNone RNum) x = Err ValueError.
Proof.
  intros -> El Hx. unfold interp_one. nrm. rewrite El. destruct Hx as [Hx|Hx].
  - rewrite Rltb_t by (nrm; assumption). reflexivity.
  - destruct (Rlt_dec x (fst a0)) as [H|H]; [rewrite Rltb_t by (nrm; assumption); reflexivity|].
    rewrite Rltb_f by (nrm; lra). rewrite Rltb_t by (nrm; assumption). reflexivity.
Qed.
Theorem interp_outside_filled (k : list (R * R)) a0 b0 t0 y z x lo hi :
  k = a0 :: b0 :: t0 -> last_two RNum k = Some (y, z) ->
  (x < fst a0 -> interp_one RNum k (@FPair RNum lo hi) x = Ok lo)
  /\ (fst a0 <= x -> fst z < x -> interp_one RNum k (@FPair RNum lo hi) x = Ok hi).
Proof.
  intros -> El. unfold interp_one. nrm. rewrite El. split.
  - intro Hx. rewrite Rltb_t by (nrm; assumption). reflexivity.
  - intros H1 H2. rewrite Rltb_f by (nrm; lra). rewrite Rltb_t by (nrm; assumption). reflexivity.
Qed.

(* rescaling both axes by positive factors (a unit change of the stored data and of the query) commutes with
   interpolation: this is why querying in foreign units equals converting the isotherm first *)
Lemma chord_scale c d (p q : R * R) x : c <> 0 ->  fst p <> fst q ->
  chord RNum (c * fst p, d * snd p) (c * fst q, d * snd q) (c * x) = d * chord RNum p q x.
Proof.
  intros Hc Hpq. unfold chord; cbv [nadd nmul ndiv nsub t RNum]. cbn [fst snd].
  assert (H : c * fst q - c * fst p <> 0).
  { replace (c * fst q - c * fst p) with (c * (fst q - fst p)) by ring. apply Rmult_integral_contrapositive_currified; lra. }
  field. repeat split; try lra; try exact H.
Qed.

(* ------------------------------------------------------------------ the branch guess (math_utilities.split_ads_data) *)
(* inflexion = position of the first maximum + 1; all adsorption when the maximum is last, all desorption when it is first
   (repaired in /repo: the test used to compare the position with the first row LABEL) *)
Fixpoint argmax_from (best : R) (besti i : nat) (l : list R) : nat :=
  match l with [] => besti | x :: r => if Rlt_dec best x then argmax_from x i (S i) r else argmax_from best besti (S i) r end.
Definition first_argmax (l : list R) : nat := match l with [] => 0%nat | x :: r => argmax_from x 0 1 r end.
Definition split_point (ps : list R) : nat :=
  let n := length ps in let infl := S (first_argmax ps) in
  if Nat.eqb infl n then n else if Nat.eqb infl 1 then 0%nat else infl.
Definition split_model (ps : list R) : list bool := repeat false (split_point ps) ++ repeat true (length ps - split_point ps).
Lemma argmax_from_lt best besti i l : (besti < i)%nat -> (argmax_from best besti i l < i + length l)%nat.
Proof.
  revert best besti i. induction l as [|x r IH]; intros best besti i H; cbn [argmax_from length]; [lia|].
  destruct (Rlt_dec best x); [specialize (IH x i (S i))|specialize (IH best besti (S i))]; lia.
Qed.
(* the guess is a function of the pressure sequence alone and has the shape "adsorption ... then desorption ..." with one row per point *)
Theorem split_shape (ps : list R) : ps <> [] ->
  (split_point ps <= length ps)%nat /\ length (split_model ps) = length ps.
Proof.
  intro Hne. assert (H : (split_point ps <= length ps)%nat).
  { unfold split_point. destruct ps as [|x r]; [congruence|]. cbn [first_argmax length].
    pose proof (argmax_from_lt x 0 1 r ltac:(lia)) as Hlt.
    destruct (Nat.eqb _ _) eqn:E1; [lia|]. destruct (Nat.eqb (S (argmax_from x 0 1 r)) 1); lia. }
  split; [exact H|]. unfold split_model. rewrite app_length, !repeat_length. lia.
Qed.
Theorem split_maximum_last_is_all_adsorption : split_model [1; 2; 3] = [false; false; false].
Proof.
  unfold split_model, split_point, first_argmax. cbn [length argmax_from].
  destruct (Rlt_dec 1 2) as [_|H]; [|lra]. cbn [argmax_from]. destruct (Rlt_dec 2 3) as [_|H]; [|lra]. reflexivity.
Qed.
Theorem split_maximum_first_is_all_desorption : split_model [3; 2; 1] = [true; true; true].
Proof.
  unfold split_model, split_point, first_argmax. cbn [length argmax_from].
  destruct (Rlt_dec 3 2) as [H|_]; [lra|]. cbn [argmax_from]. destruct (Rlt_dec 3 1) as [H|_]; [lra|]. reflexivity.
Qed.

(* ------------------------------------------------------------------ stored fraction / percent with material arguments *)
(* the accessor rescales a dimensionless fraction by the material unit factor; the permanent conversion (correctly) does not *)
Definition st_fr : iso RNum :=
  mk_state (PAbs bar) LFraction (MMass g) true 77 (@ads_const RNum (Some 101325) (Some 28) (Some 0.84) (Some 0.0056) (Some 0.03) (Some 0.0002))
           (mat_full 2 60) [1] [0.028] [false] None None.
Theorem accessor_fraction_material_refuted :
  iso_loading RNum st_fr None None None (Some "kg"%string) None None = Ok [0.028 * 1000]
  /\ iso_loading RNum (state_after (convert_material RNum st_fr None (Some "kg"%string) false)) None None None None None None = Ok [0.028].
Proof.
  split.
  - unfold st_fr. eval_model. repeat f_equal. unfold Q2R; simpl; lra.
  - unfold st_fr. eval_model. reflexivity.
Qed.
