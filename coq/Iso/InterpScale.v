(* C03: linear interpolation commutes with a positive rescaling of both axes, at the level of whole knot lists.
   Consequence: querying loading_at / pressure_at in foreign units (query and answer rescaled by SI factors) gives what
   interpolating the permanently converted isotherm gives. *)
From Coq Require Import Reals Lra QArith Qreals ZArith String List Bool Sorted.
From PG Require Import Lib.Num Lib.Py Lib.Tac Iso.IsoState Iso.IsoAccess Iso.C03Theorems.
Import ListNotations.
Open Scope list_scope.
Open Scope R_scope.

Definition scale_knots (c d : R) (k : list (R * R)) : list (R * R) := map (fun p => (c * fst p, d * snd p)) k.
Definition scale_fill (d : R) (f : fillv RNum) : fillv RNum :=
  match f with FNone => @FNone RNum | FNum v => @FNum RNum (d * v) | FPair lo hi => @FPair RNum (d * lo) (d * hi) | FExtrap => @FExtrap RNum end.

Lemma chord_scale' c d (p q : R * R) x : 0 < c -> fst p <> fst q ->
  chord RNum (c * fst p, d * snd p) (c * fst q, d * snd q) (c * x) = d * chord RNum p q x.
Proof. intros Hc Hpq. apply chord_scale; lra. Qed.

Lemma nleb_scale c x y : 0 < c -> nleb (n:=RNum) (c * x) (c * y) = nleb (n:=RNum) x y.
Proof.
  intro Hc. cbn [nleb RNum]. destruct (Rle_dec x y) as [H|H].
  - rewrite (proj2 (Rleb_true x y) H). apply Rleb_true. nra.
  - rewrite (proj2 (Rleb_false x y) H). apply Rleb_false. nra.
Qed.
Lemma nltb_scale c x y : 0 < c -> nltb (n:=RNum) (c * x) (c * y) = nltb (n:=RNum) x y.
Proof.
  intro Hc. cbn [nltb RNum]. destruct (Rlt_dec x y) as [H|H].
  - rewrite (proj2 (Rltb_true x y) H). apply Rltb_true. nra.
  - rewrite (proj2 (Rltb_false x y) H). apply Rltb_false. nra.
Qed.

Lemma increasing_distinct_heads (a b : R * R) t : increasing (a :: b :: t) -> fst a <> fst b.
Proof. intro H. inversion H as [|? ? _ Hall]; subst. inversion Hall; subst. nrm. lra. Qed.
Lemma increasing_tail (a : R * R) t : increasing (a :: t) -> increasing t.
Proof. intro H. inversion H; assumption. Qed.

Lemma seg_eval_cons2 (a b : R * R) t x :
  seg_eval RNum (a :: b :: t) x = if nleb (n:=RNum) x (fst b) then Some (chord RNum a b x) else seg_eval RNum (b :: t) x.
Proof. reflexivity. Qed.
Lemma seg_eval_scale c d (k : list (R * R)) x : 0 < c -> increasing k ->
  seg_eval RNum (scale_knots c d k) (c * x) = option_map (Rmult d) (seg_eval RNum k x).
Proof.
  intros Hc. induction k as [|a k IH]; intro Hinc; [reflexivity|].
  destruct k as [|b t]; [reflexivity|].
  change (scale_knots c d (a :: b :: t)) with ((c * fst a, d * snd a) :: (c * fst b, d * snd b) :: scale_knots c d t).
  rewrite !seg_eval_cons2. cbn [fst]. rewrite nleb_scale by assumption.
  destruct (nleb (n:=RNum) x (fst b)).
  - cbn [option_map]. rewrite chord_scale' by (try assumption; now apply increasing_distinct_heads with t). reflexivity.
  - change ((c * fst b, d * snd b) :: scale_knots c d t) with (scale_knots c d (b :: t)). apply IH. now apply increasing_tail with a.
Qed.

Lemma last_two_scale c d (k : list (R * R)) :
  last_two RNum (scale_knots c d k) = option_map (fun yz => ((c * fst (fst yz), d * snd (fst yz)), (c * fst (snd yz), d * snd (snd yz)))) (last_two RNum k).
Proof.
  unfold last_two, scale_knots. nrm. rewrite <- map_rev. destruct (rev k) as [|b [|a r]]; reflexivity.
Qed.

(* THE list-level statement: rescaled knots, rescaled query, rescaled fill => rescaled answer, same refusals *)
Theorem interp_scale c d (k : list (R * R)) f x : 0 < c -> increasing k ->
  interp_one RNum (scale_knots c d k) (scale_fill d f) (c * x) = res_map (Rmult d) (interp_one RNum k f x).
Proof.
  intros Hc Hinc.
  destruct k as [|a [|b t]]; try reflexivity.
  pose proof (last_two_scale c d (a :: b :: t)) as HL.
  destruct (last_two_some a b t) as [y [z El]]. rewrite El in HL. cbn [option_map fst snd] in HL.
  unfold interp_one.
  change (scale_knots c d (a :: b :: t)) with ((c * fst a, d * snd a) :: (c * fst b, d * snd b) :: scale_knots c d t) in *.
  nrm. cbv beta iota. rewrite HL, El. cbn [fst snd]. rewrite !nltb_scale by assumption.
  destruct (nltb (n:=RNum) x (fst a)).
  - destruct f; cbn [scale_fill res_map]; try reflexivity.
    rewrite chord_scale' by (try assumption; now apply increasing_distinct_heads with t). reflexivity.
  - destruct (nltb (n:=RNum) (fst z) x).
    + destruct f; cbn [scale_fill res_map]; try reflexivity.
      assert (Hyz : fst y <> fst z).
      { destruct (last_two_decomp _ _ _ El) as [pre Ek]. rewrite Ek in Hinc. clear -Hinc.
        induction pre as [|h pre IH]; cbn [app] in Hinc.
        - now apply increasing_distinct_heads with (@nil (R * R)).
        - apply IH. now apply increasing_tail with h. }
      rewrite chord_scale' by assumption. reflexivity.
    + change ((c * fst a, d * snd a) :: (c * fst b, d * snd b) :: scale_knots c d t) with (scale_knots c d (a :: b :: t)).
      rewrite seg_eval_scale by assumption.
      destruct (seg_eval RNum (a :: b :: t) x); reflexivity.
Qed.

(* over a whole list of query points *)
Theorem interp_list_scale c d (k : list (R * R)) f xs : 0 < c -> increasing k ->
  mapM (N:=RNum) (interp_one RNum (scale_knots c d k) (scale_fill d f)) (map (Rmult c) xs)
  = res_map (map (Rmult d)) (mapM (N:=RNum) (interp_one RNum k f) xs).
Proof.
  intros Hc Hinc. induction xs as [|x xs IH]; [reflexivity|].
  cbn [map mapM]. rewrite interp_scale by assumption.
  destruct (interp_one RNum k f x) as [v|e]; cbn [res_map bind]; [|reflexivity].
  rewrite IH. destruct (mapM (interp_one RNum k f) xs); reflexivity.
Qed.
