(* C04: read-only queries are pure and history independent. On the accessor model of Iso/IsoAccess.v:
   - obs: everything observable of an isotherm except its interpolator caches;
   - every query leaves obs unchanged, for ALL arguments (purity);
   - cache_ok: a cached interpolator was built from the CURRENT data with its key; established by ensure_*_cache,
     preserved by every query and by every permanent conversion (ALL arguments, over the GENERATED convert_* code);
   - hence the outcome of loading_at / pressure_at after any history equals the outcome on a fresh object.
   spreading_pressure_at's range guard reads the cache (pointisotherm.py:1249): history dependence refuted with a witness. *)
From Coq Require Import Reals Lra QArith Qreals ZArith String List Bool.
From PG Require Import Lib.Num Lib.Py Lib.Tac Gen.UnitsGen1 Units.AdsOracle Gen.UnitsGen2 Iso.IsoState Gen.IsoGen Iso.IsoAccess Gen.PurityGen.
Import ListNotations.
Open Scope list_scope.

Section Purity.
Variable N : Num.
Local Notation iso := (iso N).

Definition clear (s : iso) : iso := set_p_interpolator None (set_l_interpolator None s).
Definition obs (s : iso) : iso := clear s.        (* observable content = the state with its caches erased *)

Definition res_state {A} (r : sres iso (iso * A)) : iso := match r with SOk (s, _) => s | SErr _ s => s end.
Definition res_out {A} (r : sres iso (iso * A)) : res A := match r with SOk (_, v) => Ok v | SErr e _ => Err e end.

(* value-returning accessors never see the caches *)
Lemma iso_pressure_obs s s' b pu pm lim : obs s = obs s' -> iso_pressure N s b pu pm lim = iso_pressure N s' b pu pm lim.
Proof. intro H. change (iso_pressure N (clear s) b pu pm lim = iso_pressure N (clear s') b pu pm lim). unfold obs in H. rewrite H. reflexivity. Qed.
Lemma iso_loading_obs s s' b lu lb mu mb lim : obs s = obs s' -> iso_loading N s b lu lb mu mb lim = iso_loading N s' b lu lb mu mb lim.
Proof. intro H. change (iso_loading N (clear s) b lu lb mu mb lim = iso_loading N (clear s') b lu lb mu mb lim). unfold obs in H. rewrite H. reflexivity. Qed.

(* ---- phase 1: (re)building the cache *)
Lemma ensure_l_obs s b k f : obs (state_after (ensure_l_cache N s b k f)) = obs s.
Proof.
  unfold ensure_l_cache. destruct (cache_fresh _ _ _ _ _); [reflexivity|].
  unfold sbind. destruct (iso_pressure _ _ _ _ _ _); [|reflexivity]. destruct (iso_loading _ _ _ _ _ _ _ _); [|reflexivity].
  destruct (build_cache _ _ _ _ _ _); reflexivity.
Qed.
Lemma ensure_p_obs s b k f : obs (state_after (ensure_p_cache N s b k f)) = obs s.
Proof.
  unfold ensure_p_cache. destruct (cache_fresh _ _ _ _ _); [reflexivity|].
  unfold sbind. destruct (iso_loading _ _ _ _ _ _ _ _); [|reflexivity]. destruct (iso_pressure _ _ _ _ _ _); [|reflexivity].
  destruct (build_cache _ _ _ _ _ _); reflexivity.
Qed.

(* ---- purity of the four query kinds, for ALL states and ALL arguments *)
Theorem loading_at_pure s ps b k f pu pm lu lb mu mb :
  obs (res_state (iso_loading_at N s ps b k f pu pm lu lb mu mb)) = obs s.
Proof.
  unfold iso_loading_at. pose proof (ensure_l_obs s b k f) as H.
  destruct (ensure_l_cache N s b k f) as [s1|e s1]; cbn [mbind state_after] in *; [|exact H].
  unfold sbind. destruct (loading_at_with _ _ _ _ _ _ _ _ _); exact H.
Qed.
Theorem pressure_at_pure s ls b k f pu pm lu lb mu mb :
  obs (res_state (iso_pressure_at N s ls b k f pu pm lu lb mu mb)) = obs s.
Proof.
  unfold iso_pressure_at. pose proof (ensure_p_obs s b k f) as H.
  destruct (ensure_p_cache N s b k f) as [s1|e s1]; cbn [mbind state_after] in *; [|exact H].
  unfold sbind. destruct (pressure_at_with _ _ _ _ _ _ _ _ _); exact H.
Qed.
Theorem spreading_pure s p b f pu pm lu lb mu mb :
  obs (res_state (iso_spreading_outcome N s p b f pu pm lu lb mu mb)) = obs s.
Proof.
  unfold iso_spreading_outcome, sbind.
  destruct (iso_pressure _ _ _ _ _ _) as [ps|]; [|reflexivity]. destruct (iso_loading _ _ _ _ _ _ _ _); [|reflexivity].
  destruct ps as [|p0 ps]; [reflexivity|].
  destruct (_ && _); [reflexivity|]. destruct (Nat.eqb _ _); [reflexivity|].
  pose proof (loading_at_pure s [p] b (Some "linear"%string) f pu pm lu lb mu mb) as H.
  destruct (iso_loading_at _ _ _ _ _ _ _ _ _ _ _ _) as [[s1 v]|e s1]; exact H.
Qed.

(* ---- the cache invariant *)
Definition l_cache_ok (s : iso) : Prop :=
  forall c, l_interpolator s = Some c ->
    exists xs ys, iso_pressure N s (c_branch c) None None None = Ok xs
               /\ iso_loading N s (c_branch c) None None None None None = Ok ys
               /\ build_cache N xs ys (c_branch c) (c_kind c) (c_fill c) = Ok c.
Definition p_cache_ok (s : iso) : Prop :=
  forall c, p_interpolator s = Some c ->
    exists xs ys, iso_loading N s (c_branch c) None None None None None = Ok xs
               /\ iso_pressure N s (c_branch c) None None None = Ok ys
               /\ build_cache N xs ys (c_branch c) (c_kind c) (c_fill c) = Ok c.
Definition cache_ok (s : iso) : Prop := l_cache_ok s /\ p_cache_ok s.

Lemma cache_ok_clear s : cache_ok (clear s).
Proof. split; intros c H; discriminate H. Qed.
Lemma build_cache_fields xs ys b k f c : build_cache N xs ys b k f = Ok c -> c = mkCache N b k f xs ys.
Proof. unfold build_cache. destruct (Nat.ltb _ _); [discriminate|]. intro H; injection H as <-. reflexivity. Qed.

Lemma ensure_l_keeps s b k f : cache_ok s -> cache_ok (state_after (ensure_l_cache N s b k f)).
Proof.
  intros [Hl Hp]. unfold ensure_l_cache. destruct (cache_fresh _ _ _ _ _); [split; assumption|].
  unfold sbind. destruct (iso_pressure N s b None None None) as [xs|] eqn:E1; [|split; assumption].
  destruct (iso_loading N s b None None None None None) as [ys|] eqn:E2; [|split; assumption].
  destruct (build_cache N xs ys b k f) as [c|] eqn:E3; [|split; assumption].
  cbn [state_after]. split.
  - intros c' H. cbn in H. injection H as <-. pose proof (build_cache_fields _ _ _ _ _ _ E3) as ->. cbn [c_branch c_kind c_fill].
    exists xs, ys. repeat split; assumption.
  - intros c' H. apply (Hp c'). exact H.
Qed.
Lemma ensure_p_keeps s b k f : cache_ok s -> cache_ok (state_after (ensure_p_cache N s b k f)).
Proof.
  intros [Hl Hp]. unfold ensure_p_cache. destruct (cache_fresh _ _ _ _ _); [split; assumption|].
  unfold sbind. destruct (iso_loading N s b None None None None None) as [xs|] eqn:E1; [|split; assumption].
  destruct (iso_pressure N s b None None None) as [ys|] eqn:E2; [|split; assumption].
  destruct (build_cache N xs ys b k f) as [c|] eqn:E3; [|split; assumption].
  cbn [state_after]. split.
  - intros c' H. apply (Hl c'). exact H.
  - intros c' H. cbn in H. injection H as <-. pose proof (build_cache_fields _ _ _ _ _ _ E3) as ->. cbn [c_branch c_kind c_fill].
    exists xs, ys. repeat split; assumption.
Qed.
Theorem loading_at_keeps_cache_ok s ps b k f pu pm lu lb mu mb :
  cache_ok s -> cache_ok (res_state (iso_loading_at N s ps b k f pu pm lu lb mu mb)).
Proof.
  intro H. unfold iso_loading_at. pose proof (ensure_l_keeps s b k f H) as H1.
  destruct (ensure_l_cache N s b k f) as [s1|e s1]; cbn [mbind state_after] in *; [|exact H1].
  unfold sbind. destruct (loading_at_with _ _ _ _ _ _ _ _ _); exact H1.
Qed.
Theorem pressure_at_keeps_cache_ok s ls b k f pu pm lu lb mu mb :
  cache_ok s -> cache_ok (res_state (iso_pressure_at N s ls b k f pu pm lu lb mu mb)).
Proof.
  intro H. unfold iso_pressure_at. pose proof (ensure_p_keeps s b k f H) as H1.
  destruct (ensure_p_cache N s b k f) as [s1|e s1]; cbn [mbind state_after] in *; [|exact H1].
  unfold sbind. destruct (pressure_at_with _ _ _ _ _ _ _ _ _); exact H1.
Qed.
End Purity.

(* ------------------------------------------------------------------ history independence (over the reals) *)
Lemma fill_eqb_eq (a b : fillv RNum) : fill_eqb RNum a b = true -> a = b.
Proof.
  destruct a, b; cbn; try discriminate; try reflexivity.
  - intro H. apply Reqb_true in H. congruence.
  - intro H. apply andb_true_iff in H. destruct H as [H1 H2]. apply Reqb_true in H1. apply Reqb_true in H2. congruence.
Qed.

Lemma clear_pressure (s : iso RNum) br pu pm lim : iso_pressure RNum (clear RNum s) br pu pm lim = iso_pressure RNum s br pu pm lim.
Proof. destruct s; reflexivity. Qed.
Lemma clear_loading (s : iso RNum) br lu lb mu mb lim : iso_loading RNum (clear RNum s) br lu lb mu mb lim = iso_loading RNum s br lu lb mu mb lim.
Proof. destruct s; reflexivity. Qed.
Lemma law_clear c (s : iso RNum) ps pu pm lu lb mu mb :
  loading_at_with RNum (set_l_interpolator (Some c) (clear RNum s)) ps pu pm lu lb mu mb
  = loading_at_with RNum (set_l_interpolator (Some c) s) ps pu pm lu lb mu mb.
Proof. destruct s; reflexivity. Qed.
Lemma law_same c (s : iso RNum) ps pu pm lu lb mu mb : l_interpolator s = Some c ->
  loading_at_with RNum (set_l_interpolator (Some c) s) ps pu pm lu lb mu mb = loading_at_with RNum s ps pu pm lu lb mu mb.
Proof. destruct s; cbn; intros ->; reflexivity. Qed.
Lemma paw_clear c (s : iso RNum) ls pu pm lu lb mu mb :
  pressure_at_with RNum (set_p_interpolator (Some c) (clear RNum s)) ls pu pm lu lb mu mb
  = pressure_at_with RNum (set_p_interpolator (Some c) s) ls pu pm lu lb mu mb.
Proof. destruct s; reflexivity. Qed.
Lemma paw_same c (s : iso RNum) ls pu pm lu lb mu mb : p_interpolator s = Some c ->
  pressure_at_with RNum (set_p_interpolator (Some c) s) ls pu pm lu lb mu mb = pressure_at_with RNum s ls pu pm lu lb mu mb.
Proof. destruct s; cbn; intros ->; reflexivity. Qed.
Lemma cache_fresh_decomp (c : cache RNum) b k f : cache_fresh RNum (Some c) b k f = true -> c_branch c = b /\ c_kind c = k /\ c_fill c = f.
Proof.
  unfold cache_fresh. intro Ef. apply andb_true_iff in Ef. destruct Ef as [Ef Ef3]. apply andb_true_iff in Ef. destruct Ef as [Ef1 Ef2].
  apply ostr_eqb_eq in Ef1. apply ostr_eqb_eq in Ef2. apply fill_eqb_eq in Ef3. auto.
Qed.

(* the answer of loading_at after ANY history that left the cache invariant intact is the answer a fresh object gives *)
Theorem loading_at_history_independent (s : iso RNum) ps b k f pu pm lu lb mu mb :
  l_cache_ok RNum s ->
  res_out RNum (iso_loading_at RNum s ps b k f pu pm lu lb mu mb)
  = res_out RNum (iso_loading_at RNum (clear RNum s) ps b k f pu pm lu lb mu mb).
Proof.
  intro Hok. unfold iso_loading_at, ensure_l_cache.
  replace (cache_fresh RNum (l_interpolator (clear RNum s)) b k f) with false by (destruct s; reflexivity).
  rewrite clear_pressure, clear_loading.
  destruct (cache_fresh RNum (l_interpolator s) b k f) eqn:Ef.
  - destruct (l_interpolator s) as [c|] eqn:El; [|discriminate Ef].
    destruct (cache_fresh_decomp c b k f Ef) as [E1 [E2 E3]].
    destruct (Hok c El) as [xs [ys [H1 [H2 H3]]]]. rewrite E1, E2, E3 in *.
    rewrite H1, H2. cbn [sbind mbind]. rewrite H3. cbn [sbind mbind].
    rewrite law_clear, (law_same c s ps pu pm lu lb mu mb El).
    destruct (loading_at_with RNum s ps pu pm lu lb mu mb); reflexivity.
  - unfold sbind, mbind.
    destruct (iso_pressure RNum s b None None None) as [xs|]; [|reflexivity].
    destruct (iso_loading RNum s b None None None None None) as [ys|]; [|reflexivity].
    destruct (build_cache RNum xs ys b k f) as [c|]; [|reflexivity].
    rewrite law_clear. destruct (loading_at_with RNum _ ps pu pm lu lb mu mb); reflexivity.
Qed.

Theorem pressure_at_history_independent (s : iso RNum) ls b k f pu pm lu lb mu mb :
  p_cache_ok RNum s ->
  res_out RNum (iso_pressure_at RNum s ls b k f pu pm lu lb mu mb)
  = res_out RNum (iso_pressure_at RNum (clear RNum s) ls b k f pu pm lu lb mu mb).
Proof.
  intro Hok. unfold iso_pressure_at, ensure_p_cache.
  replace (cache_fresh RNum (p_interpolator (clear RNum s)) b k f) with false by (destruct s; reflexivity).
  rewrite clear_pressure, clear_loading.
  destruct (cache_fresh RNum (p_interpolator s) b k f) eqn:Ef.
  - destruct (p_interpolator s) as [c|] eqn:El; [|discriminate Ef].
    destruct (cache_fresh_decomp c b k f Ef) as [E1 [E2 E3]].
    destruct (Hok c El) as [xs [ys [H1 [H2 H3]]]]. rewrite E1, E2, E3 in *.
    rewrite H1, H2. cbn [sbind mbind]. rewrite H3. cbn [sbind mbind].
    rewrite paw_clear, (paw_same c s ls pu pm lu lb mu mb El).
    destruct (pressure_at_with RNum s ls pu pm lu lb mu mb); reflexivity.
  - unfold sbind, mbind.
    destruct (iso_loading RNum s b None None None None None) as [xs|]; [|reflexivity].
    destruct (iso_pressure RNum s b None None None) as [ys|]; [|reflexivity].
    destruct (build_cache RNum xs ys b k f) as [c|]; [|reflexivity].
    rewrite paw_clear. destruct (pressure_at_with RNum _ ls pu pm lu lb mu mb); reflexivity.
Qed.

(* ------------------------------------------------------------------ permanent conversions keep the invariant (ALL arguments) *)
Lemma cache_ok_none (s : iso RNum) : l_interpolator s = None -> p_interpolator s = None -> cache_ok RNum s.
Proof. intros H1 H2. split; intros c H; congruence. Qed.
Lemma cache_ok_set_mu (s : iso RNum) u : cache_ok RNum s -> cache_ok RNum (set_material_unit u s).
Proof.
  intros [Hl Hp]. destruct s. split; intros c H; cbn in H.
  - destruct (Hl c H) as [xs [ys [H1 [H2 H3]]]]. exists xs, ys. repeat split; assumption.
  - destruct (Hp c H) as [xs [ys [H1 [H2 H3]]]]. exists xs, ys. repeat split; assumption.
Qed.
Ltac crushc :=
  repeat (cbv beta iota delta [srun sbindc sbind scatch_pg mbind state_after] in *;
    match goal with
    | |- context [if ?c then _ else _] => destruct c eqn:?
    | |- context [match ?m with Ok _ => _ | Err _ => _ end] => destruct m eqn:?
    end);
  first [assumption | apply cache_ok_none; reflexivity | apply cache_ok_set_mu; assumption].

Theorem convert_pressure_keeps_cache_ok (s : iso RNum) m u vb :
  cache_ok RNum s -> cache_ok RNum (state_after (convert_pressure RNum s m u vb)).
Proof. intro H. unfold convert_pressure. crushc. Qed.
Theorem convert_loading_keeps_cache_ok (s : iso RNum) b u vb :
  cache_ok RNum s -> cache_ok RNum (state_after (convert_loading RNum s b u vb)).
Proof. intro H. unfold convert_loading. crushc. Qed.
Theorem convert_material_keeps_cache_ok (s : iso RNum) b u vb :
  cache_ok RNum s -> cache_ok RNum (state_after (convert_material RNum s b u vb)).
Proof. intro H. unfold convert_material. crushc. Qed.

(* ------------------------------------------------------------------ histories *)
Inductive act :=
| APressureAt (ls : list R) (b k : option string) (f : fillv RNum) (pu pm lu lb mu mb : option string)
| ALoadingAt (ps : list R) (b k : option string) (f : fillv RNum) (pu pm lu lb mu mb : option string)
| ASpreading (p : R) (b : option string) (f : fillv RNum) (pu pm lu lb mu mb : option string)
| AConvP (m u : option string) | AConvL (b u : option string) | AConvM (b u : option string).
Definition is_query (a : act) : bool := match a with AConvP _ _ | AConvL _ _ | AConvM _ _ => false | _ => true end.
Definition do_act (s : iso RNum) (a : act) : iso RNum :=
  match a with
  | APressureAt ls b k f pu pm lu lb mu mb => res_state RNum (iso_pressure_at RNum s ls b k f pu pm lu lb mu mb)
  | ALoadingAt ps b k f pu pm lu lb mu mb => res_state RNum (iso_loading_at RNum s ps b k f pu pm lu lb mu mb)
  | ASpreading p b f pu pm lu lb mu mb => res_state RNum (iso_spreading_outcome RNum s p b f pu pm lu lb mu mb)
  | AConvP m u => state_after (convert_pressure RNum s m u false)
  | AConvL b u => state_after (convert_loading RNum s b u false)
  | AConvM b u => state_after (convert_material RNum s b u false)
  end.

Lemma spreading_keeps_cache_ok (s : iso RNum) p b f pu pm lu lb mu mb :
  cache_ok RNum s -> cache_ok RNum (res_state RNum (iso_spreading_outcome RNum s p b f pu pm lu lb mu mb)).
Proof.
  intro H. unfold iso_spreading_outcome, sbind.
  destruct (iso_pressure _ _ _ _ _ _) as [ps|]; [|exact H]. destruct (iso_loading _ _ _ _ _ _ _ _); [|exact H].
  destruct ps as [|p0 ps]; [exact H|].
  destruct (_ && _); [exact H|]. destruct (Nat.eqb _ _); [exact H|].
  pose proof (loading_at_keeps_cache_ok RNum s [p] b (Some "linear"%string) f pu pm lu lb mu mb H) as H1.
  destruct (iso_loading_at _ _ _ _ _ _ _ _ _ _ _ _) as [[s1 v]|e s1]; exact H1.
Qed.

(* after ANY history of queries and permanent conversions starting from a fresh object the cache invariant holds ... *)
Theorem cache_ok_reachable (s0 : iso RNum) (acts : list act) : cache_ok RNum (fold_left do_act acts (clear RNum s0)).
Proof.
  assert (G : forall acts s, cache_ok RNum s -> cache_ok RNum (fold_left do_act acts s)).
  { induction acts0 as [|a acts0 IH]; intros s H; [exact H|]. cbn [fold_left]. apply IH.
    destruct a; cbn [do_act].
    - now apply pressure_at_keeps_cache_ok. - now apply loading_at_keeps_cache_ok. - now apply spreading_keeps_cache_ok.
    - now apply convert_pressure_keeps_cache_ok. - now apply convert_loading_keeps_cache_ok. - now apply convert_material_keeps_cache_ok. }
  apply G, cache_ok_clear.
Qed.
(* ... hence every interpolation query answers as it would on an identical fresh object *)
Theorem queries_history_independent (s0 : iso RNum) (acts : list act) ps b k f pu pm lu lb mu mb :
  let s := fold_left do_act acts (clear RNum s0) in
  res_out RNum (iso_loading_at RNum s ps b k f pu pm lu lb mu mb) = res_out RNum (iso_loading_at RNum (clear RNum s) ps b k f pu pm lu lb mu mb)
  /\ res_out RNum (iso_pressure_at RNum s ps b k f pu pm lu lb mu mb) = res_out RNum (iso_pressure_at RNum (clear RNum s) ps b k f pu pm lu lb mu mb).
Proof.
  intro s. destruct (cache_ok_reachable s0 acts) as [Hl Hp]. split.
  - apply loading_at_history_independent. exact Hl.
  - apply pressure_at_history_independent. exact Hp.
Qed.
(* purity over histories of read-only queries: the observable content never changes *)
Theorem query_histories_are_pure (s : iso RNum) (acts : list act) :
  forallb is_query acts = true -> obs RNum (fold_left do_act acts s) = obs RNum s.
Proof.
  revert s. induction acts as [|a acts IH]; intros s H; [reflexivity|].
  cbn [forallb] in H. apply andb_true_iff in H. destruct H as [Ha H]. cbn [fold_left]. rewrite (IH _ H).
  destruct a; try discriminate Ha; cbn [do_act].
  - apply pressure_at_pure. - apply loading_at_pure. - apply spreading_pure.
Qed.

(* ------------------------------------------------------------------ spreading_pressure_at: outcome independent of the history
   (repaired in /repo by "fix: spreading_pressure_at range guard ..."; the guard used to read the cached interpolator) *)
Definition out_unit (r : sres (iso RNum) (iso RNum * Datatypes.unit)) : option exn := match r with SOk _ => None | SErr e _ => Some e end.
Lemma out_unit_of_loading_at (s : iso RNum) p b f pu pm lu lb mu mb :
  out_unit (mbind (iso_loading_at RNum s [p] b (Some "linear"%string) f pu pm lu lb mu mb) (fun '(s1, _) => SOk (s1, tt)))
  = match res_out RNum (iso_loading_at RNum s [p] b (Some "linear"%string) f pu pm lu lb mu mb) with Ok _ => None | Err e => Some e end.
Proof. destruct (iso_loading_at RNum s [p] b (Some "linear"%string) f pu pm lu lb mu mb) as [[s1 v]|e s1]; reflexivity. Qed.
Theorem spreading_outcome_history_independent (s : iso RNum) p b f pu pm lu lb mu mb :
  l_cache_ok RNum s ->
  out_unit (iso_spreading_outcome RNum s p b f pu pm lu lb mu mb) = out_unit (iso_spreading_outcome RNum (clear RNum s) p b f pu pm lu lb mu mb).
Proof.
  intro Hok. unfold iso_spreading_outcome. rewrite clear_pressure, clear_loading. unfold sbind.
  destruct (iso_pressure RNum s b pu pm None) as [ps|]; [|reflexivity].
  destruct (iso_loading RNum s b lu lb mu mb None); [|reflexivity].
  destruct ps as [|p0 ps]; [reflexivity|].
  destruct (_ && _); [reflexivity|]. destruct (Nat.eqb _ _); [reflexivity|].
  rewrite !out_unit_of_loading_at. rewrite (loading_at_history_independent s [p] b (Some "linear"%string) f pu pm lu lb mu mb Hok). reflexivity.
Qed.
Theorem spreading_history_independent_reachable (s0 : iso RNum) (acts : list act) p b f pu pm lu lb mu mb :
  let s := fold_left do_act acts (clear RNum s0) in
  out_unit (iso_spreading_outcome RNum s p b f pu pm lu lb mu mb) = out_unit (iso_spreading_outcome RNum (clear RNum s) p b f pu pm lu lb mu mb).
Proof. intro s. apply spreading_outcome_history_independent. exact (proj1 (cache_ok_reachable s0 acts)). Qed.

(* ------------------------------------------------------------------ the analyses that are not modelled: a static census of the source
   (Gen/PurityGen.v, regenerated on every run) of every place where a characterisation / IAST / fitting / export entry point calls a
   mutating method on, or assigns into, an isotherm handed to it. There is none (Whittaker's in-place conversion, C04-F2, was repaired). *)
Theorem no_analysis_mutates_its_argument : mutating_sites = [].
Proof. reflexivity. Qed.
