(* C03: the converter call made by the pressure() accessor: a missing requested unit is replaced by the stored unit
   (pointisotherm.py `if not pressure_unit: pressure_unit = self.pressure_unit`); all 10 x 10 pairs by evaluation. *)
From Coq Require Import Reals Lra QArith Qreals ZArith String List Bool.
From PG Require Import Lib.Num Lib.Py Lib.Tac Gen.UnitsGen1 Units.AdsOracle Gen.UnitsGen2 Units.UnitsSpec
  Units.PressureProofs Units.LoadingPhys Units.C01Theorems Iso.IsoState Gen.IsoGen Iso.IsoAccess.
Import ListNotations.
Open Scope R_scope.

Lemma c_pressure_factor_acc_const psat T v (r1 r2 : prep) oM o1 o2 o3 o4 :
  0 < psat -> T <> 0 ->
  c_pressure RNum v (p_mode r1) (or_default (p_mode r2) (p_mode r1)) (p_unit r1) (or_default (p_unit r2) (p_unit r1))
    (@ads_const RNum (Some psat) oM o1 o2 o3 o4) (Some T)
  = Ok (spec_conv (p_canon psat r1) (p_canon psat r2) v).
Proof.
  intros Hp HT. unfold spec_conv.
  destruct r1 as [[]| |], r2 as [[]| |]; cbn [p_mode p_unit p_canon pa_per punit_name or_default ostr_truthy]; solve_conv.
Qed.
Lemma c_pressure_factor_acc psat T v (r1 r2 : prep) (a : adsorbate RNum) :
  a_psat_Pa a (Some T) = Some psat -> 0 < psat -> T <> 0 ->
  c_pressure RNum v (p_mode r1) (or_default (p_mode r2) (p_mode r1)) (p_unit r1) (or_default (p_unit r2) (p_unit r1)) a (Some T)
  = Ok (spec_conv (p_canon psat r1) (p_canon psat r2) v).
Proof.
  intros Ha Hp HT. rewrite c_pressure_at_temp. unfold at_temp. rewrite Ha. now apply c_pressure_factor_acc_const.
Qed.
