(* Execution helper for the C02 harness: the reference semantics `resolve` of Iso/C02General.v evaluated (vm_compute, strings
   only) on the histories the harness runs on real PointIsotherms: per call [accepted?; the seven labels of the reference state]. *)
From Coq Require Import ZArith String List Bool.
From PG Require Import Lib.Num Lib.Py Units.UnitsSpec Iso.IsoSpec Iso.IsoShow Iso.C02Theorems Iso.C02Strings Iso.C02GenSteps Iso.C02General.
Import ListNotations.
Open Scope string_scope.

Definition r_of_labels (pm pu lb lu mb mu tu : option string) : option rs :=
  match resolve_p_eff pm pu, parse_lbasis lb, parse_mbasis mb with
  | Some p, Some tl, Some tm =>
      match parse_lunit tl lu, parse_munit tm mu with
      | Some l, Some m => Some (mkRS p l m (ostr_eqb tu (Some "K")))
      | _, _ => None
      end
  | _, _, _ => None
  end.
Definition r_codes (r : rs) : list Z :=
  [lab_code (p_mode (r_p r)); lab_code (p_unit (r_p r)); lab_code (l_basis (r_l r)); lab_code (l_unit (r_l r));
   lab_code (m_basis (r_m r)); lab_code (m_unit (r_m r)); lab_code (tunit_label (r_k r))].
Fixpoint ref_trace (r : rs) (ops : list gop) : list (list Z) :=
  match ops with
  | [] => []
  | o :: q => let x := resolve r o in ((if snd x then 1%Z else 0%Z) :: r_codes (fst x)) :: ref_trace (fst x) q
  end.
Definition ref_trace_from (pm pu lb lu mb mu tu : option string) (ops : list gop) : list (list Z) :=
  match r_of_labels pm pu lb lu mb mu tu with Some r0 => ref_trace r0 ops | None => [[(-1)%Z]] end.
