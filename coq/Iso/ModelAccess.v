(* C03 for MODEL isotherms: the GENERATED ModelIsotherm.loading_at / pressure_at (Gen/ModelIsoGen.v, translated from
   core/modelisotherm.py on every run) for ANY fitted model functions: a query in foreign units = convert the argument to the stored
   representation with the SI factor, evaluate the model, convert the answer with the SI factor; the same factors as the point
   isotherm's accessors (Iso/C03Theorems.v), which are the factors of the permanent conversions (C02). *)
From Coq Require Import Reals Lra QArith Qreals ZArith String List Bool.
From PG Require Import Lib.Num Lib.Py Lib.Tac Gen.UnitsGen1 Units.AdsOracle Gen.UnitsGen2 Units.UnitsSpec
  Units.PressureProofs Units.LoadingPhys Units.MaterialProofs Units.C01Theorems Iso.IsoState Gen.IsoGen Iso.IsoSpec
  Iso.ConvPressure Iso.IsoAccess Iso.AccessFactor Gen.ModelIsoGen.
Import ListNotations.
Open Scope R_scope.

Lemma truthy_pmode r : ostr_truthy (p_mode r) = true. Proof. destruct r; reflexivity. Qed.
Lemma truthy_lbasis r : ostr_truthy (l_basis r) = true. Proof. destruct r; reflexivity. Qed.
Lemma truthy_mbasis r : ostr_truthy (m_basis r) = true. Proof. destruct r; reflexivity. Qed.
Lemma truthy_munit r : ostr_truthy (m_unit r) = true. Proof. destruct r as [[]|[]|[]]; reflexivity. Qed.
Lemma abs_has_unit r : (ostr_eqb (p_mode r) (Some "absolute"%string) && negb (ostr_truthy (p_unit r)))%bool = false.
Proof. destruct r as [[]| |]; reflexivity. Qed.
Lemma truthy_lunit_phys r : l_is_phys r = true -> ostr_truthy (l_unit r) = true.
Proof. destruct r as [[]|[]|[]|[]| |]; intro H; try discriminate H; reflexivity. Qed.

Section ModelAcc.
  Variables (a : adsorbate RNum) (psat M rml rmg dens mm T : R) (tk : bool).
  Hypotheses (Hpsat : a_psat_Pa a (Some (kelvin_of tk T)) = Some psat) (Hads : ads_at a (Some (kelvin_of tk T)) M rml rmg)
             (Hp : 0 < psat) (HM : 0 < M) (Hl : 0 < rml) (Hg : 0 < rmg) (Hd : 0 < dens) (Hmm : 0 < mm) (HT : kelvin_of tk T <> 0).
  Variables (rp : prep) (rl : lrep) (rm : mrep).
  Variable br : option string.                  (* the branch the model was fitted on *)
  Variables f g : R -> res R.                   (* ANY model: loading(p), pressure(n) *)
  Let m := mat_of dens mm.
  (* the label part of a ModelIsotherm: no data columns *)
  Let s := mk_state rp rl rm tk T a m [] [] [] None None.
  Let pc := p_canon psat.
  Let lc := l_canon M rml rmg.
  Let mc := m_canon dens mm.

  Notation LA := (model_loading_at RNum br f s).
  Notation PA := (model_pressure_at RNum br g s).

  Lemma temp_s : iso_temperature RNum s = Ok (kelvin_of tk T).
  Proof. apply iso_temperature_mk. Qed.
  Lemma s_pm : pressure_mode s = p_mode rp. Proof. reflexivity. Qed.
  Lemma s_pu : pressure_unit s = p_unit rp. Proof. reflexivity. Qed.
  Lemma s_lb : loading_basis s = l_basis rl. Proof. reflexivity. Qed.
  Lemma s_lu : loading_unit s = l_unit rl. Proof. reflexivity. Qed.
  Lemma s_mb : material_basis s = m_basis rm. Proof. reflexivity. Qed.
  Lemma s_mu : material_unit s = m_unit rm. Proof. reflexivity. Qed.
  Lemma s_ads : iso_adsorbate s = a. Proof. reflexivity. Qed.
  Lemma s_mat : iso_material s = m. Proof. reflexivity. Qed.
  Ltac labels := rewrite ?s_pm, ?s_pu, ?s_lb, ?s_lu, ?s_mb, ?s_mu, ?s_ads, ?s_mat.

  (* no unit arguments: the model, natively *)
  Theorem model_loading_at_native p : LA p None None None None None None None = f p.
  Proof. unfold model_loading_at. cbn [ostr_truthy andb orb negb run bindc bind]. destruct (f p); reflexivity. Qed.
  Theorem model_pressure_at_native n : PA n None None None None None None None = g n.
  Proof. unfold model_pressure_at. cbn [ostr_truthy andb orb negb run bindc bind]. destruct (g n); reflexivity. Qed.

  (* a branch other than the fitted one is refused, whatever else is passed *)
  Theorem model_query_refuses_other_branch b x pu pm lu lb mu mb :
    ostr_truthy b = true -> ostr_eqb b br = false ->
    LA x b pu pm lu lb mu mb = Err ParameterError /\ PA x b pu pm lu lb mu mb = Err ParameterError.
  Proof. intros H1 H2. unfold model_loading_at, model_pressure_at. rewrite H1, H2. split; reflexivity. Qed.

  (* an absolute pressure without a unit is refused *)
  Theorem model_loading_at_refuses_absolute_without_unit p pu lu lb mu mb :
    ostr_truthy pu = false -> LA p None pu (Some "absolute"%string) lu lb mu mb = Err ParameterError.
  Proof. intro H. unfold model_loading_at. cbn [ostr_truthy andb orb negb run bindc bind ostr_eqb String.eqb Ascii.eqb Bool.eqb]. rewrite H. reflexivity. Qed.

  (* ---- every requested representation: pressure in rp', answer in rl' per rm' *)
  Theorem model_loading_at_factor p (rp' : prep) (rl' : lrep) (rm' : mrep) :
    LA p None (p_unit rp') (p_mode rp') (l_unit rl') (l_basis rl') (m_unit rm') (m_basis rm')
    = bind (f (spec_conv (pc rp') (pc rp) p)) (fun n =>
        Ok (spec_conv (lc rm' rl) (lc rm' rl') (spec_conv (mc rm') (mc rm) n))).
  Proof.
    unfold model_loading_at. cbn [ostr_truthy andb negb]. rewrite !truthy_pmode. cbn [orb negb bindc bind].
    rewrite abs_has_unit. cbn [bindc bind]. rewrite ?temp_s. cbn [run bindc bind].
    labels.
    rewrite (c_pressure_factor_at psat (kelvin_of tk T) p rp' rp a Hpsat Hp HT). cbn [bind bindc].
    fold pc. destruct (f (spec_conv (pc rp') (pc rp) p)) as [n|e]; [|reflexivity]. cbn [bind bindc].
    rewrite !truthy_mbasis. cbn [orb negb bindc bind].
    labels. unfold m.
    rewrite (c_material_factor_all dens mm n rm rm' Hd Hmm). cbn [bind bindc].
    rewrite !truthy_lbasis, !truthy_mbasis, !truthy_munit. cbn [orb negb bindc bind]. rewrite ?temp_s. cbn [bind].
    labels.
    rewrite (c_loading_factor_at M rml rmg (Some (kelvin_of tk T)) _ rm' rl rl' a Hads HM Hl Hg). reflexivity.
  Qed.

  (* only the pressure representation is named *)
  Theorem model_loading_at_pressure_only p (rp' : prep) :
    LA p None (p_unit rp') (p_mode rp') None None None None = f (spec_conv (pc rp') (pc rp) p).
  Proof.
    unfold model_loading_at. cbn [ostr_truthy andb negb]. rewrite !truthy_pmode. cbn [orb negb bindc bind].
    rewrite abs_has_unit. cbn [bindc bind]. rewrite ?temp_s. cbn [run bindc bind].
    labels.
    rewrite (c_pressure_factor_at psat (kelvin_of tk T) p rp' rp a Hpsat Hp HT). cbn [bind bindc].
    destruct (f _) as [n|e]; reflexivity.
  Qed.

  (* only the loading representation is named: the stored material representation is the context (fractions included) *)
  Theorem model_loading_at_loading_only p (rl' : lrep) :
    LA p None None None (l_unit rl') (l_basis rl') None None
    = bind (f p) (fun n => Ok (spec_conv (lc rm rl) (lc rm rl') n)).
  Proof.
    unfold model_loading_at. cbn [ostr_truthy andb orb negb run bindc bind].
    destruct (f p) as [n|e]; [|reflexivity]. cbn [bind bindc].
    rewrite !truthy_lbasis. cbn [orb negb bindc bind ostr_truthy]. rewrite ?temp_s. cbn [bind].
    labels.
    rewrite (c_loading_factor_at M rml rmg (Some (kelvin_of tk T)) _ rm rl rl' a Hads HM Hl Hg). reflexivity.
  Qed.

  (* ---- pressure_at: loading given in rl' per rm' (a representation with a unit), answer in rp' *)
  Theorem model_pressure_at_factor n (rp' : prep) (rl' : lrep) (rm' : mrep) : l_is_phys rl' = true ->
    PA n None (p_unit rp') (p_mode rp') (l_unit rl') (l_basis rl') (m_unit rm') (m_basis rm')
    = bind (g (spec_conv (lc rm' rl') (lc rm' rl) (spec_conv (mc rm) (mc rm') n))) (fun p =>
        Ok (spec_conv (pc rp) (pc rp') p)).
  Proof.
    intro Hph. unfold model_pressure_at. cbn [ostr_truthy andb negb]. rewrite !truthy_mbasis, !truthy_munit. cbn [orb negb run bindc bind].
    labels. unfold m.
    rewrite (c_material_factor_all dens mm n rm' rm Hd Hmm). cbn [bind bindc].
    rewrite !truthy_lbasis, (truthy_lunit_phys rl' Hph). cbn [orb negb bindc bind].
    rewrite ?truthy_mbasis, ?truthy_munit. cbn [negb bindc bind]. rewrite ?temp_s. cbn [bind bindc].
    labels.
    rewrite (c_loading_factor_at M rml rmg (Some (kelvin_of tk T)) _ rm' rl' rl a Hads HM Hl Hg). cbn [bind bindc].
    fold lc mc. destruct (g _) as [p|e]; [|reflexivity]. cbn [bind bindc].
    rewrite !truthy_pmode. cbn [orb negb bindc bind].
    pose proof (c_pressure_factor_acc psat (kelvin_of tk T) p rp rp' a Hpsat Hp HT) as H.
    unfold or_default in H. rewrite truthy_pmode in H.
    destruct (ostr_truthy (p_unit rp')) eqn:Eu; cbn [negb bindc bind]; rewrite ?temp_s; cbn [bind bindc]; labels;
    rewrite H; reflexivity.
  Qed.

  (* only the loading representation is named: the STORED material representation is the context, fractions included
     (before the fix: commit 1ff1900 the omitted material labels were passed on as None and a stored fraction raised KeyError) *)
  Theorem model_pressure_at_loading_only n (rl' : lrep) : l_is_phys rl' = true ->
    PA n None None None (l_unit rl') (l_basis rl') None None = g (spec_conv (lc rm rl') (lc rm rl) n).
  Proof.
    intro Hph. unfold model_pressure_at. cbn [ostr_truthy andb orb negb run bindc bind].
    rewrite !truthy_lbasis, (truthy_lunit_phys rl' Hph). cbn [orb negb bindc bind ostr_truthy]. rewrite ?temp_s. cbn [bind bindc].
    labels. rewrite ?truthy_mbasis, ?truthy_munit. cbn [negb bindc bind].
    rewrite (c_loading_factor_at M rml rmg (Some (kelvin_of tk T)) _ rm rl' rl a Hads HM Hl Hg). cbn [bind bindc].
    fold lc. destruct (g _) as [p|e]; reflexivity.
  Qed.

  (* a loading given as a fraction / percent (no unit) is refused by pressure_at *)
  Theorem model_pressure_at_refuses_unitless_loading n pu pm lb mu mb :
    ostr_truthy lb = true -> ostr_truthy mb = false -> ostr_truthy mu = false ->
    PA n None pu pm None lb mu mb = Err ParameterError.
  Proof.
    intros H1 H2 H3. unfold model_pressure_at. cbn [ostr_truthy andb negb]. rewrite H1, H2, H3. cbn [orb negb run bindc bind]. reflexivity.
  Qed.

  (* ---- foreign-unit queries are interpreted consistently in both directions: if the model's pressure function inverts its
          loading function at the point, then asking for the loading at p in ANY representation and feeding the answer back in
          that representation returns p *)
  Theorem model_round_trip_in_foreign_units p n (rp' : prep) (rl' : lrep) (rm' : mrep) : l_is_phys rl' = true ->
    f (spec_conv (pc rp') (pc rp) p) = Ok n -> g n = Ok (spec_conv (pc rp') (pc rp) p) ->
    bind (LA p None (p_unit rp') (p_mode rp') (l_unit rl') (l_basis rl') (m_unit rm') (m_basis rm'))
         (fun y => PA y None (p_unit rp') (p_mode rp') (l_unit rl') (l_basis rl') (m_unit rm') (m_basis rm')) = Ok p.
  Proof.
    intros Hph Hf Hgf. rewrite model_loading_at_factor, Hf. cbn [bind].
    rewrite (model_pressure_at_factor _ rp' rl' rm' Hph).
    assert (E : spec_conv (lc rm' rl') (lc rm' rl) (spec_conv (mc rm) (mc rm') (spec_conv (lc rm' rl) (lc rm' rl') (spec_conv (mc rm') (mc rm) n))) = n).
    { unfold spec_conv, lc, mc.
      pose proof (l_canon_pos M rml rmg rm' rl HM Hl Hg); pose proof (l_canon_pos M rml rmg rm' rl' HM Hl Hg);
      pose proof (m_canon_pos dens mm rm Hd Hmm); pose proof (m_canon_pos dens mm rm' Hd Hmm). cbv [t RNum] in *. field. repeat split; lra. }
    rewrite E, Hgf. cbn [bind]. f_equal. unfold spec_conv, pc.
    pose proof (p_canon_pos psat rp Hp); pose proof (p_canon_pos psat rp' Hp). cbv [t RNum] in *. field. split; lra.
  Qed.
End ModelAcc.

(* the same statements with one uniform context (what Props/C03.v states) *)
Lemma model_loading_at_in_any_representation_is_convert_evaluate_convert_u :
  forall (a : adsorbate RNum) psat M rml rmg dens mm T tk,
  a_psat_Pa a (Some (kelvin_of tk T)) = Some psat -> ads_at a (Some (kelvin_of tk T)) M rml rmg ->
  0 < psat -> 0 < M -> 0 < rml -> 0 < rmg -> 0 < dens -> 0 < mm -> kelvin_of tk T <> 0 ->
  forall (rp : prep) (rl : lrep) (rm : mrep) (br : option string) (f g : R -> res R),
  let s := mk_state rp rl rm tk T a (mat_of dens mm) [] [] [] None None in
  forall p (rp' : prep) (rl' : lrep) (rm' : mrep),
  model_loading_at RNum br f s p None (p_unit rp') (p_mode rp') (l_unit rl') (l_basis rl') (m_unit rm') (m_basis rm')
  = bind (f (spec_conv (p_canon psat rp') (p_canon psat rp) p)) (fun n =>
      Ok (spec_conv (l_canon M rml rmg rm' rl) (l_canon M rml rmg rm' rl') (spec_conv (m_canon dens mm rm') (m_canon dens mm rm) n))).
Proof. intros; eapply model_loading_at_factor; eassumption. Qed.

Lemma model_pressure_at_in_any_representation_is_convert_evaluate_convert_u :
  forall (a : adsorbate RNum) psat M rml rmg dens mm T tk,
  a_psat_Pa a (Some (kelvin_of tk T)) = Some psat -> ads_at a (Some (kelvin_of tk T)) M rml rmg ->
  0 < psat -> 0 < M -> 0 < rml -> 0 < rmg -> 0 < dens -> 0 < mm -> kelvin_of tk T <> 0 ->
  forall (rp : prep) (rl : lrep) (rm : mrep) (br : option string) (f g : R -> res R),
  let s := mk_state rp rl rm tk T a (mat_of dens mm) [] [] [] None None in
  forall n (rp' : prep) (rl' : lrep) (rm' : mrep), l_is_phys rl' = true ->
  model_pressure_at RNum br g s n None (p_unit rp') (p_mode rp') (l_unit rl') (l_basis rl') (m_unit rm') (m_basis rm')
  = bind (g (spec_conv (l_canon M rml rmg rm' rl') (l_canon M rml rmg rm' rl) (spec_conv (m_canon dens mm rm) (m_canon dens mm rm') n))) (fun p =>
      Ok (spec_conv (p_canon psat rp) (p_canon psat rp') p)).
Proof. intros; eapply model_pressure_at_factor; eassumption. Qed.

Lemma model_queries_without_unit_arguments_are_the_model_u :
  forall (a : adsorbate RNum) psat M rml rmg dens mm T tk,
  a_psat_Pa a (Some (kelvin_of tk T)) = Some psat -> ads_at a (Some (kelvin_of tk T)) M rml rmg ->
  0 < psat -> 0 < M -> 0 < rml -> 0 < rmg -> 0 < dens -> 0 < mm -> kelvin_of tk T <> 0 ->
  forall (rp : prep) (rl : lrep) (rm : mrep) (br : option string) (f g : R -> res R),
  let s := mk_state rp rl rm tk T a (mat_of dens mm) [] [] [] None None in
  forall x, model_loading_at RNum br f s x None None None None None None None = f x
         /\ model_pressure_at RNum br g s x None None None None None None None = g x.
Proof. intros; split; [eapply model_loading_at_native|eapply model_pressure_at_native]; eassumption. Qed.

Lemma model_loading_at_with_pressure_representation_only_u :
  forall (a : adsorbate RNum) psat M rml rmg dens mm T tk,
  a_psat_Pa a (Some (kelvin_of tk T)) = Some psat -> ads_at a (Some (kelvin_of tk T)) M rml rmg ->
  0 < psat -> 0 < M -> 0 < rml -> 0 < rmg -> 0 < dens -> 0 < mm -> kelvin_of tk T <> 0 ->
  forall (rp : prep) (rl : lrep) (rm : mrep) (br : option string) (f g : R -> res R),
  let s := mk_state rp rl rm tk T a (mat_of dens mm) [] [] [] None None in
  forall p (rp' : prep),
  model_loading_at RNum br f s p None (p_unit rp') (p_mode rp') None None None None = f (spec_conv (p_canon psat rp') (p_canon psat rp) p).
Proof. intros; eapply model_loading_at_pressure_only; eassumption. Qed.

Lemma model_loading_at_with_loading_representation_only_u :
  forall (a : adsorbate RNum) psat M rml rmg dens mm T tk,
  a_psat_Pa a (Some (kelvin_of tk T)) = Some psat -> ads_at a (Some (kelvin_of tk T)) M rml rmg ->
  0 < psat -> 0 < M -> 0 < rml -> 0 < rmg -> 0 < dens -> 0 < mm -> kelvin_of tk T <> 0 ->
  forall (rp : prep) (rl : lrep) (rm : mrep) (br : option string) (f g : R -> res R),
  let s := mk_state rp rl rm tk T a (mat_of dens mm) [] [] [] None None in
  forall p (rl' : lrep),
  model_loading_at RNum br f s p None None None (l_unit rl') (l_basis rl') None None
  = bind (f p) (fun n => Ok (spec_conv (l_canon M rml rmg rm rl) (l_canon M rml rmg rm rl') n)).
Proof. intros; eapply model_loading_at_loading_only; eassumption. Qed.

Lemma model_queries_refuse_another_branch_u :
  forall (a : adsorbate RNum) psat M rml rmg dens mm T tk,
  a_psat_Pa a (Some (kelvin_of tk T)) = Some psat -> ads_at a (Some (kelvin_of tk T)) M rml rmg ->
  0 < psat -> 0 < M -> 0 < rml -> 0 < rmg -> 0 < dens -> 0 < mm -> kelvin_of tk T <> 0 ->
  forall (rp : prep) (rl : lrep) (rm : mrep) (br : option string) (f g : R -> res R),
  let s := mk_state rp rl rm tk T a (mat_of dens mm) [] [] [] None None in
  forall b x pu pm lu lb mu mb, ostr_truthy b = true -> ostr_eqb b br = false ->
  model_loading_at RNum br f s x b pu pm lu lb mu mb = Err ParameterError /\ model_pressure_at RNum br g s x b pu pm lu lb mu mb = Err ParameterError.
Proof. intros; eapply model_query_refuses_other_branch; eassumption. Qed.

Lemma model_queries_refuse_unitless_arguments_u :
  forall (a : adsorbate RNum) psat M rml rmg dens mm T tk,
  a_psat_Pa a (Some (kelvin_of tk T)) = Some psat -> ads_at a (Some (kelvin_of tk T)) M rml rmg ->
  0 < psat -> 0 < M -> 0 < rml -> 0 < rmg -> 0 < dens -> 0 < mm -> kelvin_of tk T <> 0 ->
  forall (rp : prep) (rl : lrep) (rm : mrep) (br : option string) (f g : R -> res R),
  let s := mk_state rp rl rm tk T a (mat_of dens mm) [] [] [] None None in
  (forall p pu lu lb mu mb, ostr_truthy pu = false -> model_loading_at RNum br f s p None pu (Some "absolute"%string) lu lb mu mb = Err ParameterError)
  /\ (forall n pu pm lb mu mb, ostr_truthy lb = true -> ostr_truthy mb = false -> ostr_truthy mu = false ->
       model_pressure_at RNum br g s n None pu pm None lb mu mb = Err ParameterError).
Proof. intros; split; intros; [eapply model_loading_at_refuses_absolute_without_unit|eapply model_pressure_at_refuses_unitless_loading]; eassumption. Qed.

Lemma model_round_trip_through_any_foreign_representation_u :
  forall (a : adsorbate RNum) psat M rml rmg dens mm T tk,
  a_psat_Pa a (Some (kelvin_of tk T)) = Some psat -> ads_at a (Some (kelvin_of tk T)) M rml rmg ->
  0 < psat -> 0 < M -> 0 < rml -> 0 < rmg -> 0 < dens -> 0 < mm -> kelvin_of tk T <> 0 ->
  forall (rp : prep) (rl : lrep) (rm : mrep) (br : option string) (f g : R -> res R),
  let s := mk_state rp rl rm tk T a (mat_of dens mm) [] [] [] None None in
  forall p n (rp' : prep) (rl' : lrep) (rm' : mrep), l_is_phys rl' = true ->
  f (spec_conv (p_canon psat rp') (p_canon psat rp) p) = Ok n -> g n = Ok (spec_conv (p_canon psat rp') (p_canon psat rp) p) ->
  bind (model_loading_at RNum br f s p None (p_unit rp') (p_mode rp') (l_unit rl') (l_basis rl') (m_unit rm') (m_basis rm'))
       (fun y => model_pressure_at RNum br g s y None (p_unit rp') (p_mode rp') (l_unit rl') (l_basis rl') (m_unit rm') (m_basis rm')) = Ok p.
Proof. intros; eapply model_round_trip_in_foreign_units; eassumption. Qed.
Lemma model_pressure_at_with_loading_representation_only_u :
  forall (a : adsorbate RNum) psat M rml rmg dens mm T tk,
  a_psat_Pa a (Some (kelvin_of tk T)) = Some psat -> ads_at a (Some (kelvin_of tk T)) M rml rmg ->
  0 < psat -> 0 < M -> 0 < rml -> 0 < rmg -> 0 < dens -> 0 < mm -> kelvin_of tk T <> 0 ->
  forall (rp : prep) (rl : lrep) (rm : mrep) (br : option string) (f g : R -> res R),
  let s := mk_state rp rl rm tk T a (mat_of dens mm) [] [] [] None None in
  forall n (rl' : lrep), l_is_phys rl' = true ->
  model_pressure_at RNum br g s n None None None (l_unit rl') (l_basis rl') None None
  = g (spec_conv (l_canon M rml rmg rm rl') (l_canon M rml rmg rm rl) n).
Proof. intros; eapply model_pressure_at_loading_only; eassumption. Qed.
