(* C02, material step: the GENERATED convert_material on a well-labelled state, all 19 x 19 pairs,
   for physical loading bases and for fraction / percent. *)
From Coq Require Import Reals Lra QArith Qreals ZArith String List Bool.
From PG Require Import Lib.Num Lib.Py Lib.Tac Gen.UnitsGen1 Units.AdsOracle Gen.UnitsGen2 Units.UnitsSpec
  Units.LoadingPhys Units.MaterialProofs Units.C01Theorems Iso.IsoState Gen.IsoGen Iso.IsoSpec Iso.ConvPressure Iso.ConvLoading.
Import ListNotations.
Open Scope R_scope.

Definition mrep_eqb (a b : mrep) : bool := ostr_eqb (m_basis a) (m_basis b) && ostr_eqb (m_unit a) (m_unit b).
Lemma mrep_eqb_eq a b : mrep_eqb a b = true <-> a = b.
Proof. destruct a as [[]|[]|[]], b as [[]|[]|[]]; cbv; split; congruence. Qed.
Definition same_mbasis (a b : mrep) : bool := ostr_eqb (m_basis a) (m_basis b).

Ltac ev_iso3 := cbv -[Rmult Rdiv Rinv Rplus Rminus Ropp IZR Q2R Req_EM_T Rlt_dec Rle_dec Reqb Rltb Rleb
                      RNum conv_col c_pressure c_loading c_material c_temperature iso_temperature spec_conv p_canon l_canon l_canon_phys m_canon
                      l_unit kelvin_of map].

Ltac ev_iso3f := cbv -[Rmult Rdiv Rinv Rplus Rminus Ropp IZR Q2R Req_EM_T Rlt_dec Rle_dec Reqb Rltb Rleb
                      RNum conv_col c_pressure c_loading c_material c_temperature iso_temperature spec_conv p_canon l_canon l_canon_phys m_canon
                      l_unit l_basis ostr_in kelvin_of map].

Theorem convert_material_step_phys (a : adsorbate RNum) dens mm T tk rp cp cl cb li pi vb (rl : lrep) (rm rm' : mrep) :
  0 < dens -> 0 < mm -> l_is_phys rl = true ->
  convert_material RNum (mk_state rp rl rm tk T a (mat_full dens mm) cp cl cb li pi) (m_basis rm') (m_unit rm') vb
  = SOk (if mrep_eqb rm' rm then mk_state rp rl rm tk T a (mat_full dens mm) cp cl cb li pi
         else mk_state rp rl rm' tk T a (mat_full dens mm) cp
                (map (spec_conv (m_canon dens mm rm') (m_canon dens mm rm)) cl) cb None None).
Proof.
  intros Hd Hm Hphys.
  pose proof (fun v => c_material_factor_all dens mm v rm rm' Hd Hm) as HF.
  assert (Hf : ostr_in (l_basis rl) [Some "percent"; Some "fraction"]%string = false) by (destruct rl; try discriminate Hphys; reflexivity).
  clear Hphys. unfold convert_material.
  destruct rm as [[]|[]|[]], rm' as [[]|[]|[]];
  cbn [m_basis m_unit molunit_name massunit_name volunit_name] in HF;
  ev_iso3f; rewrite ?Hf; ev_iso3f; try reflexivity; col_step HF; ev_iso3f; rewrite ?Hf; ev_iso3f; reflexivity.
Qed.
