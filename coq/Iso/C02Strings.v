(* C02, calls with ARBITRARY argument strings, part 1: classification of an arbitrary `option string` against the
   finite label sets (parse functions that invert p_mode / p_unit / l_basis / l_unit / m_basis / m_unit), and
   the behaviour of the GENERATED converters (Gen/UnitsGen2.v) on strings that name nothing. *)
From Coq Require Import Reals Lra QArith Qreals ZArith String List Bool.
From PG Require Import Lib.Num Lib.Py Lib.Tac Gen.UnitsGen1 Units.AdsOracle Gen.UnitsGen2 Units.UnitsSpec
  Units.PressureProofs Units.LoadingPhys Units.MaterialProofs Units.C01Theorems Units.Refusal.
Import ListNotations.
Open Scope string_scope.

(* ------------------------------------------------------------------ generic: association lists keyed by label *)
Definition is_some {A} (o : option A) : bool := match o with Some _ => true | None => false end.
Definition parse_in {A} (l : list (string * A)) (o : option string) : option A :=
  match o with Some s => assoc s l | None => None end.
Definition named {A} (name : A -> string) (l : list A) : list (string * A) := map (fun x => (name x, x)) l.

Lemma assoc_in {A} s (l : list (string * A)) a : assoc s l = Some a -> In (s, a) l.
Proof.
  induction l as [|[k v] r IH]; simpl; [discriminate|]. destruct (String.eqb s k) eqn:E.
  - apply String.eqb_eq in E; subst. intro H; injection H as ->. now left.
  - intro H; right; auto.
Qed.
(* a successful parse returns the element whose label is the string *)
Lemma parse_in_name {A} (name : A -> string) (l : list A) o a :
  parse_in (named name l) o = Some a -> o = Some (name a).
Proof.
  destruct o as [s|]; [|discriminate]. simpl. intro H. apply assoc_in in H. apply in_map_iff in H.
  destruct H as [x [E _]]. injection E as <- <-. reflexivity.
Qed.
Lemma assoc_keys {A B} (l1 : list (string * A)) (l2 : list (string * B)) s :
  map fst l1 = map fst l2 -> is_some (assoc s l1) = is_some (assoc s l2).
Proof.
  revert l2; induction l1 as [|[k v] r IH]; intros [|[k' v'] r'] H; simpl in *; try discriminate; [reflexivity|].
  injection H as -> H. destruct (String.eqb s k'); [reflexivity|auto].
Qed.
(* a failed parse = the string is not a key of the GENERATED table with the same keys *)
Lemma tbl_mem_parse {A} (l : list (string * A)) (t : tbl RNum) o :
  map fst l = map fst t -> tbl_mem o t = is_some (parse_in l o).
Proof. intro H. destruct o as [s|]; [|reflexivity]. unfold tbl_mem, parse_in. symmetry. apply (assoc_keys l t s H). Qed.
Lemma ostr_in_parse {A} (l : list (string * A)) o :
  ostr_in o (map (fun kv => Some (fst kv)) l) = is_some (parse_in l o).
Proof.
  induction l as [|[k v] r IH]; [destruct o; reflexivity|]. cbn [map ostr_in fst].
  destruct o as [s|]; cbn [ostr_eqb parse_in assoc] in *; [|exact IH].
  destruct (String.eqb s k); [reflexivity|exact IH].
Qed.
Lemma tbl_get_not_mem (t : tbl RNum) o : tbl_mem o t = false -> tbl_get t o = Err KeyError.
Proof. destruct o as [s|]; [|reflexivity]. unfold tbl_mem, tbl_get. destruct (assoc s t); [discriminate|reflexivity]. Qed.
Lemma tbl_mem_neq (t : tbl RNum) a b : tbl_mem a t = true -> tbl_mem b t = false -> ostr_eqb b a = false.
Proof. intros Ha Hb. destruct (ostr_eqb b a) eqn:E; [|reflexivity]. apply ostr_eqb_eq in E; subst. congruence. Qed.
Lemma truthy_not_none u : ostr_truthy u = true -> ostr_eqb u None = false.
Proof. destruct u; [reflexivity|discriminate]. Qed.

(* ------------------------------------------------------------------ the label sets *)
Inductive pmode := MAbs | MRel | MRelPct.
Definition pmode_name m := match m with MAbs => "absolute" | MRel => "relative" | MRelPct => "relative%" end.
Definition pmode_of (r : prep) : pmode := match r with PAbs _ => MAbs | PRel => MRel | PRelPct => MRelPct end.
Definition pmode_eqb (a b : pmode) : bool :=
  match a, b with MAbs, MAbs | MRel, MRel | MRelPct, MRelPct => true | _, _ => false end.
Inductive lbasis := BLMass | BLVolGas | BLVolLiq | BLMolar | BLPercent | BLFraction.
Definition lbasis_name b := match b with BLMass => "mass" | BLVolGas => "volume_gas" | BLVolLiq => "volume_liquid"
                                       | BLMolar => "molar" | BLPercent => "percent" | BLFraction => "fraction" end.
Definition lbasis_of (r : lrep) : lbasis :=
  match r with LMolar _ => BLMolar | LMass _ => BLMass | LVolGas _ => BLVolGas | LVolLiq _ => BLVolLiq
             | LFraction => BLFraction | LPercent => BLPercent end.
Definition lbasis_eqb (a b : lbasis) : bool :=
  match a, b with BLMass, BLMass | BLVolGas, BLVolGas | BLVolLiq, BLVolLiq | BLMolar, BLMolar
                | BLPercent, BLPercent | BLFraction, BLFraction => true | _, _ => false end.
Definition lbasis_phys (b : lbasis) : bool := match b with BLPercent | BLFraction => false | _ => true end.
Inductive mbasis := BMass | BVol | BMolar.
Definition mbasis_name b := match b with BMass => "mass" | BVol => "volume" | BMolar => "molar" end.
Definition mbasis_of (r : mrep) : mbasis := match r with MMass _ => BMass | MVol _ => BVol | MMolar _ => BMolar end.
Definition mbasis_eqb (a b : mbasis) : bool :=
  match a, b with BMass, BMass | BVol, BVol | BMolar, BMolar => true | _, _ => false end.
Definition mb_label (b : mbasis) : option string := Some (mbasis_name b).

Definition parse_pmode := parse_in (named pmode_name [MAbs; MRel; MRelPct]).
Definition parse_lbasis := parse_in (named lbasis_name [BLMass; BLVolGas; BLVolLiq; BLMolar; BLPercent; BLFraction]).
Definition parse_mbasis := parse_in (named mbasis_name [BMass; BVol; BMolar]).
Definition parse_punit := parse_in (named punit_name all_punits).
Definition parse_molunit := parse_in (named molunit_name all_molunits).
Definition parse_massunit := parse_in (named massunit_name all_massunits).
Definition parse_volunit := parse_in (named volunit_name all_volunits).

(* the target of a loading call naming basis b with unit argument u: fraction / percent ignore the unit *)
Definition parse_lunit (b : lbasis) (u : option string) : option lrep :=
  match b with
  | BLMolar => option_map LMolar (parse_molunit u) | BLMass => option_map LMass (parse_massunit u)
  | BLVolGas => option_map LVolGas (parse_volunit u) | BLVolLiq => option_map LVolLiq (parse_volunit u)
  | BLFraction => Some LFraction | BLPercent => Some LPercent end.
Definition parse_munit (b : mbasis) (u : option string) : option mrep :=
  match b with
  | BMass => option_map MMass (parse_massunit u) | BVol => option_map MVol (parse_volunit u)
  | BMolar => option_map MMolar (parse_molunit u) end.
Definition default_mrep (b : mbasis) : mrep := match b with BMass => MMass g | BVol => MVol cm3 | BMolar => MMolar mol end.
(* the units table of a basis in the GENERATED tables *)
Definition lunits (b : lbasis) : tbl RNum :=
  match b with BLMass => _MASS_UNITS RNum | BLVolGas | BLVolLiq => _VOLUME_UNITS RNum | BLMolar => _MOLAR_UNITS RNum | _ => [] end.
Definition munits (b : mbasis) : tbl RNum :=
  match b with BMass => _MASS_UNITS RNum | BVol => _VOLUME_UNITS RNum | BMolar => _MOLAR_UNITS RNum end.

(* ---- successful parses name the canonical labels *)
Lemma parse_pmode_some o m : parse_pmode o = Some m -> o = Some (pmode_name m).
Proof. apply parse_in_name. Qed.
Lemma parse_lbasis_some o b : parse_lbasis o = Some b -> o = Some (lbasis_name b).
Proof. apply parse_in_name. Qed.
Lemma parse_mbasis_some o b : parse_mbasis o = Some b -> o = mb_label b.
Proof. apply parse_in_name. Qed.
Lemma parse_punit_some o u : parse_punit o = Some u -> o = p_unit (PAbs u).
Proof. apply parse_in_name. Qed.
Lemma parse_lunit_some b o r : lbasis_phys b = true -> parse_lunit b o = Some r ->
  l_basis r = Some (lbasis_name b) /\ o = l_unit r /\ lbasis_of r = b.
Proof.
  destruct b; try discriminate; intros _; unfold parse_lunit;
  [destruct (parse_massunit o) eqn:E|destruct (parse_volunit o) eqn:E|destruct (parse_volunit o) eqn:E|destruct (parse_molunit o) eqn:E];
  try discriminate; intro H; injection H as <-; apply parse_in_name in E; subst o; repeat split.
Qed.
Lemma parse_lunit_frac b o r : lbasis_phys b = false -> parse_lunit b o = Some r ->
  l_basis r = Some (lbasis_name b) /\ l_unit r = None /\ lbasis_of r = b.
Proof. destruct b; try discriminate; intros _ H; injection H as <-; repeat split. Qed.
Lemma parse_munit_some b o r : parse_munit b o = Some r -> m_basis r = mb_label b /\ o = m_unit r /\ mbasis_of r = b.
Proof.
  destruct b; unfold parse_munit;
  [destruct (parse_massunit o) eqn:E|destruct (parse_volunit o) eqn:E|destruct (parse_molunit o) eqn:E];
  try discriminate; intro H; injection H as <-; apply parse_in_name in E; subst o; repeat split.
Qed.
(* ---- the canonical labels parse back *)
Lemma parse_pmode_of r : parse_pmode (p_mode r) = Some (pmode_of r).
Proof. destruct r; reflexivity. Qed.
Lemma parse_punit_of u : parse_punit (p_unit (PAbs u)) = Some u.
Proof. destruct u; reflexivity. Qed.
Lemma parse_lbasis_of r : parse_lbasis (l_basis r) = Some (lbasis_of r).
Proof. destruct r; reflexivity. Qed.
Lemma parse_lunit_of r : parse_lunit (lbasis_of r) (l_unit r) = Some r.
Proof. destruct r as [[]|[]|[]|[]| |]; reflexivity. Qed.
Lemma parse_mbasis_of r : parse_mbasis (m_basis r) = Some (mbasis_of r).
Proof. destruct r; reflexivity. Qed.
Lemma parse_mbasis_label b : parse_mbasis (mb_label b) = Some b.
Proof. destruct b; reflexivity. Qed.
Lemma parse_munit_of r : parse_munit (mbasis_of r) (m_unit r) = Some r.
Proof. destruct r as [[]|[]|[]]; reflexivity. Qed.
Lemma m_basis_label r : m_basis r = mb_label (mbasis_of r).
Proof. destruct r; reflexivity. Qed.
Lemma default_mrep_basis b : mbasis_of (default_mrep b) = b.
Proof. destruct b; reflexivity. Qed.
Lemma pmode_eqb_eq a b : pmode_eqb a b = true <-> a = b.
Proof. destruct a, b; simpl; split; congruence. Qed.
Lemma lbasis_eqb_eq a b : lbasis_eqb a b = true <-> a = b.
Proof. destruct a, b; simpl; split; congruence. Qed.
Lemma mbasis_eqb_eq a b : mbasis_eqb a b = true <-> a = b.
Proof. destruct a, b; simpl; split; congruence. Qed.
Lemma pmode_name_eqb a b : ostr_eqb (Some (pmode_name a)) (Some (pmode_name b)) = pmode_eqb a b.
Proof. destruct a, b; reflexivity. Qed.
Lemma lbasis_name_eqb a b : ostr_eqb (Some (lbasis_name a)) (Some (lbasis_name b)) = lbasis_eqb a b.
Proof. destruct a, b; reflexivity. Qed.
Lemma mbasis_name_eqb a b : ostr_eqb (mb_label a) (mb_label b) = mbasis_eqb a b.
Proof. destruct a, b; reflexivity. Qed.

(* ---- failed parses are exactly the strings the GENERATED tables do not know *)
Lemma parse_pmode_known o : known_pmode o = is_some (parse_pmode o).
Proof. exact (ostr_in_parse (named pmode_name [MAbs; MRel; MRelPct]) o). Qed.
Lemma parse_lbasis_known o : known_lbasis o = is_some (parse_lbasis o).
Proof. exact (ostr_in_parse (named lbasis_name [BLMass; BLVolGas; BLVolLiq; BLMolar; BLPercent; BLFraction]) o). Qed.
Lemma parse_mbasis_known o : known_mbasis o = is_some (parse_mbasis o).
Proof. exact (ostr_in_parse (named mbasis_name [BMass; BVol; BMolar]) o). Qed.
Lemma parse_punit_known o : known_punit o = is_some (parse_punit o).
Proof. apply tbl_mem_parse. reflexivity. Qed.
Lemma parse_lunit_known b o : lbasis_phys b = true -> tbl_mem o (lunits b) = is_some (parse_lunit b o).
Proof.
  destruct b; try discriminate; intros _; unfold parse_lunit, lunits;
  [rewrite (tbl_mem_parse (named massunit_name all_massunits)) by reflexivity; fold parse_massunit; destruct (parse_massunit o)
  |rewrite (tbl_mem_parse (named volunit_name all_volunits)) by reflexivity; fold parse_volunit; destruct (parse_volunit o)
  |rewrite (tbl_mem_parse (named volunit_name all_volunits)) by reflexivity; fold parse_volunit; destruct (parse_volunit o)
  |rewrite (tbl_mem_parse (named molunit_name all_molunits)) by reflexivity; fold parse_molunit; destruct (parse_molunit o)];
  reflexivity.
Qed.
Lemma parse_munit_known b o : tbl_mem o (munits b) = is_some (parse_munit b o).
Proof.
  destruct b; unfold parse_munit, munits;
  [rewrite (tbl_mem_parse (named massunit_name all_massunits)) by reflexivity; fold parse_massunit; destruct (parse_massunit o)
  |rewrite (tbl_mem_parse (named volunit_name all_volunits)) by reflexivity; fold parse_volunit; destruct (parse_volunit o)
  |rewrite (tbl_mem_parse (named molunit_name all_molunits)) by reflexivity; fold parse_molunit; destruct (parse_molunit o)];
  reflexivity.
Qed.
Lemma is_some_false {A} (o : option A) : o = None -> is_some o = false.
Proof. intros ->; reflexivity. Qed.

(* ------------------------------------------------------------------ the generated converters on arbitrary strings *)
Lemma check_unit_unknown u (t : tbl RNum) ty : tbl_mem u t = false -> _check_unit RNum u t ty = Err ParameterError.
Proof. unfold _check_unit; intro H. destruct (ostr_truthy u); cbn [negb]; [rewrite H|]; reflexivity. Qed.
Lemma check_unit_cases u (t : tbl RNum) ty : _check_unit RNum u t ty = Ok tt \/ _check_unit RNum u t ty = Err ParameterError.
Proof. unfold _check_unit. destruct (ostr_truthy u); cbn [negb]; [destruct (tbl_mem u t)|]; auto. Qed.
Lemma check_basis_known_l s : known_lbasis s = true -> _check_basis RNum s (_LOADING_MODE RNum) (Some "loading") = Ok tt.
Proof.
  unfold known_lbasis; cbn [ostr_in]. rewrite !orb_true_iff, !ostr_eqb_eq.
  intros [H|[H|[H|[H|[H|[H|H]]]]]]; try discriminate H; subst; reflexivity.
Qed.
Lemma check_basis_known_m s : known_mbasis s = true -> _check_basis RNum s (_MATERIAL_MODE RNum) (Some "material") = Ok tt.
Proof.
  unfold known_mbasis; cbn [ostr_in]. rewrite !orb_true_iff, !ostr_eqb_eq.
  intros [H|[H|[H|H]]]; try discriminate H; subst; reflexivity.
Qed.

(* -- pressure: a relative target never looks at unit_to *)
Lemma c_pressure_rel_target_ignores_unit v (m1 m2 : pmode) u1 u2 a T : m2 <> MAbs ->
  c_pressure RNum v (Some (pmode_name m1)) (Some (pmode_name m2)) u1 u2 a T
  = c_pressure RNum v (Some (pmode_name m1)) (Some (pmode_name m2)) u1 None a T.
Proof.
  intro H. destruct m2; [congruence| |]; destruct m1; try reflexivity;
  unfold c_pressure; cbn [pmode_name _check_basis ostr_truthy negb mtbl_mem _PRESSURE_MODE assoc String.eqb Ascii.eqb Bool.eqb run bindc bind ostr_eqb andb];
  rewrite ?andb_false_r; reflexivity.
Qed.
(* same relative mode: the value is returned whatever the unit strings *)
Lemma c_pressure_same_rel v (m : pmode) u1 u2 a T : m <> MAbs ->
  c_pressure RNum v (Some (pmode_name m)) (Some (pmode_name m)) u1 u2 a T = Ok v.
Proof.
  intro H. destruct m; [congruence| |]; unfold c_pressure;
  cbn [pmode_name _check_basis ostr_truthy negb mtbl_mem _PRESSURE_MODE assoc String.eqb Ascii.eqb Bool.eqb run bindc bind ostr_eqb andb];
  rewrite ?andb_false_r; reflexivity.
Qed.

(* -- loading *)
Theorem c_loading_refuses_unknown_basis_to v b1 b2 u1 u2 a T bm um :
  known_lbasis b2 = false -> c_loading RNum v b1 b2 u1 u2 a T bm um = Err ParameterError.
Proof.
  intro H; unfold c_loading. destruct (known_lbasis b1) eqn:E1.
  - rewrite (check_basis_known_l _ E1), (check_basis_unknown_l _ H). reflexivity.
  - rewrite (check_basis_unknown_l _ E1). reflexivity.
Qed.
(* different bases, physical target: the target unit is checked first *)
Theorem c_loading_refuses_unknown_unit_to v (b1 b2 : lbasis) u1 u2 a T bm um :
  lbasis_eqb b1 b2 = false -> lbasis_phys b2 = true -> tbl_mem u2 (lunits b2) = false ->
  c_loading RNum v (Some (lbasis_name b1)) (Some (lbasis_name b2)) u1 u2 a T bm um = Err ParameterError.
Proof.
  intros Hne Hp Hu. unfold c_loading.
  destruct b2; try discriminate Hp; destruct b1; try discriminate Hne;
  cbn [lbasis_name _check_basis ostr_truthy negb mtbl_mem mtbl_get _LOADING_MODE assoc String.eqb Ascii.eqb Bool.eqb run bindc bind ostr_eqb
       otbl_truthy otbl_force];
  cbn [lunits] in Hu;
  rewrite (check_unit_unknown _ _ _ Hu); reflexivity.
Qed.
(* same physical basis, a target unit is named and differs from the current one: c_unit checks it *)
Theorem c_loading_refuses_unknown_unit_same v (b : lbasis) u1 u2 a T bm um :
  lbasis_phys b = true -> ostr_truthy u2 = true -> ostr_eqb u1 u2 = false -> tbl_mem u2 (lunits b) = false ->
  c_loading RNum v (Some (lbasis_name b)) (Some (lbasis_name b)) u1 u2 a T bm um = Err ParameterError.
Proof.
  intros Hp Ht Hne Hu. unfold c_loading.
  destruct b; try discriminate Hp;
  cbn [lbasis_name _check_basis ostr_truthy negb mtbl_mem mtbl_get _LOADING_MODE assoc String.eqb Ascii.eqb Bool.eqb run bindc bind ostr_eqb
       otbl_truthy otbl_force];
  rewrite Ht, Hne; cbn [andb negb bindc bind]; unfold c_unit; cbn [lunits] in Hu;
  rewrite (check_unit_unknown _ _ _ Hu); reflexivity.
Qed.

(* ---- symbolic evaluation helpers for the generated converters with abstract strings *)
Ltac red_m := cbn [bind bindc run lbasis_name mbasis_name mb_label _check_basis ostr_truthy negb mtbl_mem mtbl_get _LOADING_MODE _MATERIAL_MODE assoc String.eqb Ascii.eqb Bool.eqb ostr_eqb
       otbl_truthy otbl_force otbl_get ostr_in orb andb fst snd].

(* a computation that never falls through: the continuation of a bindc after it is irrelevant *)
Definition no_fall {R S} (m : res (ctl R S)) : Prop := match m with Ok (Fall _) => False | _ => True end.
Lemma bindc_no_fall {R S S'} (m : res (ctl R S)) (k1 k2 : S -> res (ctl R S')) : no_fall m -> bindc m k1 = bindc m k2.
Proof. destruct m as [[r|s]|e]; simpl; intros H; [reflexivity|destruct H|reflexivity]. Qed.
Lemma no_fall_bind {A R S} (m : res A) (f : A -> res (ctl R S)) : (forall x, no_fall (f x)) -> no_fall (bind m f).
Proof. destruct m; simpl; auto. Qed.
Lemma no_fall_bindc {R S S'} (m : res (ctl R S)) (f : S -> res (ctl R S')) : (forall x, no_fall (f x)) -> no_fall (bindc m f).
Proof. destruct m as [[r|s]|e]; simpl; auto. Qed.
Ltac no_fall_tac :=
  repeat first [ fail
               | match goal with |- no_fall (bind _ _) => apply no_fall_bind; intro end
               | match goal with |- no_fall (bindc _ _) => apply no_fall_bindc; intro end
               | match goal with |- no_fall (Ok (Return _)) => exact I end
               | match goal with |- no_fall (Err _) => exact I end
               | match goal with |- no_fall (if ?c then _ else _) => destruct c end
               | match goal with |- no_fall (let '(_, _) := ?p in _) => destruct p end
               | progress red_m ].

Lemma c_loading_frac_target_ignores_unit v (b1 b2 : lbasis) u1 u2 a T bm um :
  lbasis_phys b1 = true -> lbasis_phys b2 = false ->
  c_loading RNum v (Some (lbasis_name b1)) (Some (lbasis_name b2)) u1 u2 a T bm um
  = c_loading RNum v (Some (lbasis_name b1)) (Some (lbasis_name b2)) u1 None a T bm um.
Proof.
  intros Hne Hp. destruct b2; try discriminate Hp; destruct b1; try discriminate Hne.
  all: unfold c_loading; red_m.
  all: f_equal; apply bindc_no_fall.
  all: no_fall_tac.
Qed.

Open Scope R_scope.
Lemma c_loading_frac_to_pct v u1 u2 a T bm um :
  c_loading RNum v (Some "fraction") (Some "percent") u1 u2 a T bm um = Ok (v * 100).
Proof. unfold c_loading. solve_conv. Qed.
Lemma c_loading_pct_to_frac v u1 u2 a T bm um :
  c_loading RNum v (Some "percent") (Some "fraction") u1 u2 a T bm um = Ok (v / 100).
Proof. unfold c_loading. solve_conv. Qed.
Close Scope R_scope.

Ltac red_t := cbn [bind bindc run lbasis_name mbasis_name mb_label _check_basis ostr_truthy negb mtbl_mem mtbl_get _LOADING_MODE _MATERIAL_MODE assoc String.eqb Ascii.eqb Bool.eqb ostr_eqb
       otbl_truthy otbl_force otbl_get ostr_in orb andb fst snd _MASS_UNITS _VOLUME_UNITS _MOLAR_UNITS munits lunits].
Ltac ads_step :=
  match goal with
  | |- context [bind (ads_gas_density ?a ?T) _] => destruct (ads_gas_density a T); [|eexists; reflexivity]
  | |- context [bind (ads_liquid_density ?a ?T) _] => destruct (ads_liquid_density a T); [|eexists; reflexivity]
  | |- context [bind (ads_gas_molar_density ?a ?T) _] => destruct (ads_gas_molar_density a T); [|eexists; reflexivity]
  | |- context [bind (ads_liquid_molar_density ?a ?T) _] => destruct (ads_liquid_molar_density a T); [|eexists; reflexivity]
  | |- context [bind (ads_molar_mass ?a) _] => destruct (ads_molar_mass a); [|eexists; reflexivity]
  end.
Lemma c_loading_frac_from_bad_material v (b1 b2 : lbasis) (bm : mbasis) u1 u2 a T um :
  lbasis_phys b1 = false -> lbasis_phys b2 = true -> tbl_mem um (munits bm) = false ->
  exists e, c_loading RNum v (Some (lbasis_name b1)) (Some (lbasis_name b2)) u1 u2 a T (mb_label bm) um = Err e.
Proof.
  intros H1 H2 Hu. apply tbl_get_not_mem in Hu.
  destruct b1; try discriminate H1; destruct b2; try discriminate H2; destruct bm; cbn [munits] in Hu; pose proof Hu as Hu'; cbn [_MASS_UNITS _VOLUME_UNITS _MOLAR_UNITS] in Hu'.
  all: unfold c_loading; red_t.
  all: match goal with |- context [_check_unit RNum ?u ?t ?ty] => destruct (_check_unit RNum u t ty) as [[]|e0]; [|eexists; reflexivity] end; red_t.
  all: repeat (ads_step; red_t).
  all: try match goal with |- context [bind (safe_div ?x ?y) _] => destruct (safe_div x y); [|eexists; reflexivity]; red_t end.
  all: first [rewrite Hu | rewrite Hu']; eexists; reflexivity.
Qed.

(* -- material *)
Theorem c_material_refuses_unknown_basis_to v b1 b2 u1 u2 m :
  known_mbasis b2 = false -> c_material RNum v b1 b2 u1 u2 m = Err ParameterError.
Proof.
  intro H; unfold c_material. destruct (known_mbasis b1) eqn:E1.
  - rewrite (check_basis_known_m _ E1), (check_basis_unknown_m _ H). reflexivity.
  - rewrite (check_basis_unknown_m _ E1). reflexivity.
Qed.
Theorem c_material_refuses_unknown_unit v (b1 b2 : mbasis) u1 u2 m :
  mbasis_eqb b1 b2 = false -> tbl_mem u2 (munits b2) = false \/ tbl_mem u1 (munits b1) = false ->
  c_material RNum v (mb_label b1) (mb_label b2) u1 u2 m = Err ParameterError.
Proof.
  intros Hne Hu. unfold c_material.
  destruct b1, b2; try discriminate Hne; cbn [munits] in Hu; red_m;
  match goal with |- context [bind (_check_unit RNum u2 ?t ?ty) _] =>
    destruct (check_unit_cases u2 t ty) as [E|E]; rewrite E; [|reflexivity];
    destruct Hu as [Hu|Hu]; [rewrite (check_unit_unknown _ _ ty Hu) in E; discriminate E|] end;
  red_m; rewrite (check_unit_unknown _ _ _ Hu); reflexivity.
Qed.
Theorem c_material_refuses_unknown_unit_same v (b : mbasis) u1 u2 m :
  ostr_truthy u2 = true -> ostr_eqb u1 u2 = false -> tbl_mem u2 (munits b) = false ->
  c_material RNum v (mb_label b) (mb_label b) u1 u2 m = Err ParameterError.
Proof.
  intros Ht Hne Hu. unfold c_material. destruct b; red_m; rewrite Ht, Hne; cbn [andb negb bindc bind]; unfold c_unit;
  cbn [munits] in Hu; rewrite (check_unit_unknown _ _ _ Hu); reflexivity.
Qed.

(* -- temperature *)
Definition celsius_like (u : option string) : bool := ostr_truthy u && ostr_contains (Some "c") (ostr_lower u).
Theorem c_temperature_refuses v uf u :
  celsius_like u = false -> ostr_eqb u (Some "K") = false -> c_temperature RNum v uf u = Err ParameterError.
Proof.
  intros Hc Hk. unfold c_temperature. fold (celsius_like u). rewrite Hc. cbn [bindc].
  assert (Hm : tbl_mem u (_TEMPERATURE_UNITS RNum) = false).
  { destruct u as [s|]; [|reflexivity]. unfold tbl_mem, _TEMPERATURE_UNITS; cbn [assoc]. cbn [ostr_eqb] in Hk. rewrite Hk.
    destruct (String.eqb s "°C") eqn:E; [|reflexivity]. apply String.eqb_eq in E; subst s. vm_compute in Hc. discriminate Hc. }
  destruct (ostr_truthy uf && ostr_contains (Some "c") (ostr_lower uf))%bool; cbn [bindc];
  rewrite (check_unit_unknown _ _ _ Hm); reflexivity.
Qed.
