(* Correspondence driver for C05: does the model predict the same input to md5 for two (route, isotherm) pairs? *)
From Coq Require Import QArith ZArith String List Bool.
From PG Require Import Lib.Num Lib.Py Codec.PyVal Gen.TablesGen Codec.JsonDoc Codec.JsonRoundtrip Ident.Prehash.
Import ListNotations.
Open Scope string_scope.
Open Scope list_scope.
Fixpoint remove_first (x : pyval) (l : list pyval) : option (list pyval) :=
  match l with [] => None | y :: r => if veqb x y then Some r else option_map (cons y) (remove_first x r) end.
Fixpoint mset_eqb (a b : list pyval) : bool :=
  match a with [] => match b with [] => true | _ => false end
  | x :: r => match remove_first x b with Some b' => mset_eqb r b' | None => false end end.
(* [same to_dict; same data part] *)
Definition same_prehash (rt1 : route) (i1 : iso) (rt2 : route) (i2 : iso) : list Z :=
  [ b2z (dict_eqb (to_dict i1) (to_dict i2));
    b2z (match i_body i1, i_body i2 with
         | BBase, BBase => true
         | BPoint _ _ _ _ _, BPoint _ _ _ _ _ => mset_eqb (tokens rt1 i1) (tokens rt2 i2)
         | BModel _ m1, BModel _ m2 => veqb (jnorm (model_doc m1)) (jnorm (model_doc m2))   (* json.dumps writes tuples and lists alike *)
         | _, _ => false end) ].
(* the same, plus: is the model's to_dict of each abstracted object the dictionary the implementation's to_dict() returned (typed, as maps)?
   -> [same to_dict; same data part; to_dict of 1 agrees; to_dict of 2 agrees] *)
Definition chk_pair (rt1 : route) (i1 : iso) (d1 : dict) (rt2 : route) (i2 : iso) (d2 : dict) : list Z :=
  same_prehash rt1 i1 rt2 i2 ++ [ b2z (dict_eqb (to_dict i1) d1); b2z (dict_eqb (to_dict i2) d2) ].
