(* Hand-written (H), tied to the code by the correspondence part of ./check C05:
   what utilities/hashgen.py feeds to md5, as a function of the CONTENT of an isotherm (Codec/JsonDoc.v `iso`) and of the
   ROUTE by which its data frame was built (row labels, per-column dtype, column order):
     raw_dict = isotherm.to_dict(); raw_dict["data_hash"] = str(hash_pandas_object(data_raw.round(8)).sum())   (point)
                                                          = isotherm.model.to_dict()                            (model)
     md5(json.dumps(raw_dict, sort_keys=True))
   hash_pandas_object gives one hash per row, computed from the row label and the cells with their dtypes in column order; the
   code SUMS the row hashes, so only the multiset of row tokens matters. md5, the row hash and json.dumps are oracles; their
   collision-freeness is an explicit hypothesis of the sensitivity theorem, never an axiom. *)
From Coq Require Import QArith ZArith String List Bool Permutation Lia.
From PG Require Import Lib.Num Lib.Py Codec.PyVal Gen.TablesGen Codec.JsonDoc Codec.JsonRoundtrip.
Import ListNotations.
Open Scope string_scope.
Open Scope list_scope.

(* numpy round(8) on a float cell, as the integer number of 1e-8 units (half to even); other cells are kept *)
Definition rint_half_even (q : Q) : Z :=
  let n := Qnum q in let d := Zpos (Qden q) in
  let f := (n / d)%Z in let r := (2 * (n - f * d))%Z in
  if (r <? d)%Z then f else if (d <? r)%Z then (f + 1)%Z else if Z.even f then f else (f + 1)%Z.
Definition round8 (v : pyval) : pyval :=
  match v with VFloat q => VInt (rint_half_even (q * inject_Z (10 ^ parser_precision))) | x => x end.

Record route := mkRoute {
  rt_index : list pyval;                 (* row labels of data_raw *)
  rt_dtypes : list (string * string);    (* column -> dtype name *)
  rt_columns : list string }.            (* column order of data_raw, 'branch' included *)
(* one row as hash_pandas_object sees it: label, then (column, dtype, rounded cell) in column order *)
Definition cell_of (r : row) (c : string) : pyval :=
  if String.eqb c "branch" then VBool (r_des r) else match dget c (r_cells r) with Some v => round8 v | None => VNone end.
(* hash_pandas_object sees a column as unsigned 64-bit integers (all int widths and bool alike), as floats, or as objects / text *)
Definition dtype_class (d : string) : string :=
  if mem d ["int8"; "int16"; "int32"; "int64"; "uint8"; "uint16"; "uint32"; "uint64"; "bool"] then "i"
  else if mem d ["float16"; "float32"; "float64"] then "f" else "o".
Definition dtype_of (rt : route) (c : string) : string := match Lib.Py.assoc c (rt_dtypes rt) with Some d => dtype_class d | None => "" end.
Definition norm_cell (v : pyval) : pyval := match v with VBool b => VInt (if b then 1 else 0) | x => x end.
Definition token (rt : route) (lab : pyval) (r : row) : pyval :=
  VList (lab :: map (fun c => VList [VStr c; VStr (dtype_of rt c); norm_cell (cell_of r c)]) (rt_columns rt)).
Definition tokens (rt : route) (i : iso) : list pyval :=
  match i_body i with BPoint _ _ rows _ _ => map (fun lr => token rt (fst lr) (snd lr)) (combine (rt_index rt) rows) | _ => [] end.

Fixpoint zsum (l : list Z) : Z := match l with [] => 0%Z | x :: r => (x + zsum r)%Z end.
Lemma zsum_perm a b : Permutation a b -> zsum a = zsum b.
Proof. induction 1; simpl; lia. Qed.

Section Hash.
Variable rowhash : pyval -> Z.            (* hash_pandas_object on one row *)
Variable zshow : Z -> string.             (* str(int) *)
Variable dumps : dict -> string.          (* json.dumps(sort_keys=True) *)
Variable md5 : string -> string.

Definition data_hash (rt : route) (i : iso) : option pyval :=
  match i_body i with
  | BBase => None
  | BPoint _ _ _ _ _ => Some (VStr (zshow (zsum (map rowhash (tokens rt i)))))
  | BModel _ m => Some (model_doc m) end.
Definition prehash (rt : route) (i : iso) : dict :=
  match data_hash rt i with Some h => dict_set "data_hash" h (to_dict i) | None => to_dict i end.
Definition iso_id (rt : route) (i : iso) : string := md5 (dumps (prehash rt i)).

(* reading data or filling the interpolator caches does not change the identifier *)
Lemma to_dict_ignores_caches i : length (i_units i) = length unit_params -> to_dict (clear_caches i) = to_dict i.
Proof.
  intros L. destruct i as [us mat mp ads temp meta b]. cbn [i_units] in L.
  destruct us as [|u1 [|u2 [|u3 [|u4 [|u5 [|u6 [|u7 [|u8 r]]]]]]]]; try discriminate L.
  destruct b; reflexivity.
Qed.
Theorem id_ignores_caches rt i : length (i_units i) = length unit_params -> iso_id rt (clear_caches i) = iso_id rt i.
Proof.
  intros L. unfold iso_id, prehash, data_hash, tokens. rewrite (to_dict_ignores_caches i L).
  destruct i as [us mat mp ads temp meta b]. destruct b; reflexivity.
Qed.

(* the identifier is a function of to_dict, the model dictionary and the MULTISET of row tokens: equal content built by any
   route that yields the same tokens (in any row order) has the same identifier; no salted hash, no unordered container *)
Theorem id_determined_by_content rt1 rt2 i j :
  to_dict i = to_dict j ->
  match i_body i, i_body j with
  | BBase, BBase => True
  | BPoint _ _ _ _ _, BPoint _ _ _ _ _ => Permutation (tokens rt1 i) (tokens rt2 j)
  | BModel _ m, BModel _ m' => m = m'
  | _, _ => False end ->
  iso_id rt1 i = iso_id rt2 j.
Proof.
  intros T B. unfold iso_id, prehash, data_hash. rewrite T.
  destruct (i_body i) eqn:Ei, (i_body j) eqn:Ej; try contradiction; auto.
  - rewrite (zsum_perm _ _ (Permutation_map rowhash B)). reflexivity.
  - subst. reflexivity.
Qed.
End Hash.

(* ------------------------------------------------------------------ sensitivity: every content component reaches the prehash *)
Lemma app_eq_len {A} (a b c d : list A) : length a = length b -> a ++ c = b ++ d -> a = b /\ c = d.
Proof.
  revert b. induction a as [|x a IH]; destruct b as [|y b]; simpl; try discriminate; auto.
  intros L E. injection L as L. injection E as -> E. destruct (IH b L E) as [-> ->]. auto.
Qed.
Lemma mat_val_inj n1 p1 n2 p2 :
  mem "name" (keys p1) = false -> mem "name" (keys p2) = false -> nodup_keys p1 = true -> nodup_keys p2 = true ->
  mat_val' n1 p1 = mat_val' n2 p2 -> n1 = n2 /\ p1 = p2.
Proof.
  intros H1 H2 N1 N2. unfold mat_val'.
  assert (D : forall n p, mem "name" (keys p) = false -> nodup_keys p = true -> dict_update [("name", VStr n)] p = ("name", VStr n) :: p).
  { intros n p Hn Hd. rewrite dict_update_disjoint; auto. rewrite forallb_forall. intros k Hk. cbn [keys map fst mem]. rewrite orb_false_r.
    destruct (String.eqb k "name") eqn:E; auto. apply String.eqb_eq in E. subst k. apply mem_In in Hk. rewrite Hk in Hn. discriminate. }
  destruct p1 as [|a p1], p2 as [|b p2]; try (intros E; discriminate E).
  - intros E. injection E as ->. auto.
  - rewrite (D n1 (a :: p1) H1 N1), (D n2 (b :: p2) H2 N2). intros E. injection E. intros; subst. auto.
Qed.

Section Sens.
Variable ads_canon : string -> string.
Variable labels_ok : dict -> bool.
(* two well-formed isotherms of the same class with the same to_dict have the same unit labels, material and properties,
   adsorbate, temperature and metadata (key by key, value by value, type by type) *)
Theorem to_dict_injective i j :
  wf ads_canon labels_ok i -> wf ads_canon labels_ok j ->
  match i_body i, i_body j with BBase, BBase | BPoint _ _ _ _ _, BPoint _ _ _ _ _ | BModel _ _, BModel _ _ => True | _, _ => False end ->
  to_dict i = to_dict j ->
  i_units i = i_units j /\ i_mat i = i_mat j /\ i_mprops i = i_mprops j /\ i_ads i = i_ads j /\ i_temp i = i_temp j /\ i_meta i = i_meta j
  /\ match i_body i, i_body j with BModel b _, BModel b' _ => b = b' | _, _ => True end.
Proof.
  intros Wi Wj K E.
  destruct (units7 _ _ i Wi) as (u1 & u2 & u3 & u4 & u5 & u6 & u7 & Hu).
  destruct (units7 _ _ j Wj) as (v1 & v2 & v3 & v4 & v5 & v6 & v7 & Hv).
  pose proof (wf_mp_name _ _ i Wi) as A1. pose proof (wf_mp_name _ _ j Wj) as A2.
  pose proof (wf_mp_nodup _ _ i Wi) as B1. pose proof (wf_mp_nodup _ _ j Wj) as B2.
  assert (Ti : to_dict i = fixed i ++ i_meta i).
  { pose proof (wf_meta _ _ i Wi) as Hd. pose proof (wf_meta_nodup _ _ i Wi) as Hn. destruct i as [us mat mp ads temp meta b]. simpl in *. subst us.
    destruct b; cbv -[dict_update mat_val']; (rewrite dict_update_disjoint; [reflexivity|exact Hn|]); apply (disjoint_subset reserved_all); auto. }
  assert (Tj : to_dict j = fixed j ++ i_meta j).
  { pose proof (wf_meta _ _ j Wj) as Hd. pose proof (wf_meta_nodup _ _ j Wj) as Hn. destruct j as [us mat mp ads temp meta b]. simpl in *. subst us.
    destruct b; cbv -[dict_update mat_val']; (rewrite dict_update_disjoint; [reflexivity|exact Hn|]); apply (disjoint_subset reserved_all); auto. }
  rewrite Ti, Tj in E.
  destruct i as [us mat mp ads temp meta b], j as [us' mat' mp' ads' temp' meta' b']. cbn [i_units i_mat i_mprops i_ads i_temp i_meta i_body] in *. subst us us'.
  destruct b, b'; try contradiction;
    (apply app_eq_len in E; [|reflexivity]); destruct E as [E ->];
    unfold fixed, labels, unit_params, mat_val in E; cbn [i_units i_body i_mat i_mprops i_ads i_temp map fst combine app] in E;
    injection E; intros; subst; clear Ti Tj Wi Wj.
  all: pose proof (mat_val_inj _ _ _ _ A1 A2 B1 B2 H0) as XY; destruct XY as [XX YY]; subst; repeat split; auto.
Qed.
End Sens.

(* ------------------------------------------------------------------ route dependence (same content, other tokens) *)
Definition w_rows : list row := [w_row 1 1 false; w_row 2 2 false].
Definition w_pt : iso := mkIso w_units "m1" [] "nitrogen" (VFloat 77) [] (BPoint "pressure" "loading" w_rows VNone VNone).
Definition rt_a := mkRoute [VInt 0; VInt 1] [("pressure", "float64"); ("loading", "float64"); ("branch", "int8")] ["pressure"; "loading"; "branch"].
Definition rt_int := mkRoute [VInt 0; VInt 1] [("pressure", "int64"); ("loading", "int64"); ("branch", "int8")] ["pressure"; "loading"; "branch"].
Definition rt_idx := mkRoute [VInt 5; VInt 6] [("pressure", "float64"); ("loading", "float64"); ("branch", "int8")] ["pressure"; "loading"; "branch"].
Definition rt_obj := mkRoute [VInt 0; VInt 1] [("pressure", "float64"); ("loading", "float64"); ("branch", "object")] ["pressure"; "loading"; "branch"].
Ltac no_perm :=
  let P := fresh in intros P; vm_compute in P;
  match type of P with Permutation (?t :: _) ?m =>
    assert (I : In t m) by (eapply Permutation_in; [exact P|left; reflexivity]);
    cbn [In] in I; repeat (destruct I as [I|I]; [congruence|]); exact I end.
(* same content, other route => other row tokens (so another identifier unless the row hash collides) *)
Lemma route_int_vs_float : ~ Permutation (tokens rt_a w_pt) (tokens rt_int w_pt).
Proof. no_perm. Qed.
Lemma route_row_labels : ~ Permutation (tokens rt_a w_pt) (tokens rt_idx w_pt).
Proof. no_perm. Qed.
Lemma route_branch_dtype : ~ Permutation (tokens rt_a w_pt) (tokens rt_obj w_pt).
Proof. no_perm. Qed.
(* rounding: two values that differ by less than the threshold and round alike give the same token, values one threshold apart do not *)
Lemma round8_same : round8 (VFloat (123456789 # 100000000)) = round8 (VFloat (1234567891 # 1000000000)).
Proof. vm_compute. reflexivity. Qed.
Lemma round8_differs : round8 (VFloat (123456789 # 100000000)) <> round8 (VFloat (123456791 # 100000000)).
Proof. vm_compute. congruence. Qed.
