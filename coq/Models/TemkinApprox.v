(* TemkinApprox: n(p) = n_m (L + tht L^2 (L - 1)), L = K p / (1 + K p); the pressure is a numerical root.
   Proofs about the GENERATED definitions of Gen/FormulasGen.v. *)
From Coq Require Import Reals Lra Psatz.
From Coquelicot Require Import Coquelicot.
From PG Require Import Models.PyReal Models.Common Gen.FormulasGen.
Open Scope R_scope.

(* ---------------- auxiliary facts: the Langmuir coverage L and the cubic f L = L + tht L^2 (L - 1) *)
Lemma Temkin_L_range K p : 0 <= K -> 0 <= p -> 0 <= K * p / (1 + K * p) < 1.
Proof.
  intros HK Hp. assert (0 <= K * p) by (apply Rmult_le_pos; lra).
  split.
  - apply Rmult_le_pos; [lra | left; apply Rinv_0_lt_compat; lra].
  - apply Rmult_lt_reg_r with (1 + K * p); [lra|]. unfold Rdiv. rewrite Rmult_assoc, Rinv_l by lra. lra.
Qed.

Lemma Temkin_L_diff K p q : 0 <= K -> 0 <= p -> 0 <= q ->
  K * q / (1 + K * q) - K * p / (1 + K * p) = K * (q - p) / ((1 + K * q) * (1 + K * p)) /\
  0 < (1 + K * q) * (1 + K * p).
Proof.
  intros HK Hp Hq.
  assert (0 <= K * p) by (apply Rmult_le_pos; lra).
  assert (0 <= K * q) by (apply Rmult_le_pos; lra).
  split; [field; lra | apply Rmult_lt_0_compat; lra].
Qed.

Lemma Temkin_L_incr K p q : 0 <= K -> 0 <= p -> p <= q -> K * p / (1 + K * p) <= K * q / (1 + K * q).
Proof.
  intros HK Hp Hpq. destruct (Temkin_L_diff K p q) as [E Hd]; try lra.
  assert (0 <= K * (q - p) / ((1 + K * q) * (1 + K * p))).
  { apply Rmult_le_pos; [apply Rmult_le_pos; lra | left; apply Rinv_0_lt_compat; exact Hd]. }
  lra.
Qed.

Lemma Temkin_L_strict K p q : 0 < K -> 0 <= p -> p < q -> K * p / (1 + K * p) < K * q / (1 + K * q).
Proof.
  intros HK Hp Hpq. destruct (Temkin_L_diff K p q) as [E Hd]; try lra.
  assert (0 < K * (q - p) / ((1 + K * q) * (1 + K * p))).
  { apply Rdiv_lt_0_compat; [apply Rmult_lt_0_compat; lra | exact Hd]. }
  lra.
Qed.

(* L (1 - L) <= 1/4 *)
Lemma Temkin_cubic_nonneg tht l : tht <= 4 -> 0 <= l -> l < 1 -> 0 <= l + tht * l ^ 2 * (l - 1).
Proof.
  intros Ht Hl Hl1.
  replace (l + tht * l ^ 2 * (l - 1)) with (l * (1 - tht * (l * (1 - l)))) by ring.
  apply Rmult_le_pos; [lra|].
  assert (0 <= l * (1 - l)) by (apply Rmult_le_pos; lra).
  assert (l * (1 - l) <= 1 / 4).
  { assert (0 <= (l - 1 / 2) ^ 2) by apply pow2_ge_0. replace (l * (1 - l)) with (1 / 4 - (l - 1 / 2) ^ 2) by field. lra. }
  generalize dependent (l * (1 - l)). intros m Hm0 Hm4.
  assert (0 <= (4 - tht) * m) by (apply Rmult_le_pos; lra). lra.
Qed.

(* f b - f a = (b - a) (1 + tht Q), Q = a^2 + a b + b^2 - a - b >= -1/3 with equality only at a = b = 1/3 *)
Lemma Temkin_cubic_incr tht a b : 0 <= tht -> tht <= 3 -> a <= b ->
  a + tht * a ^ 2 * (a - 1) <= b + tht * b ^ 2 * (b - 1).
Proof.
  intros H0 H3 Hab.
  assert (E : (b + tht * b ^ 2 * (b - 1)) - (a + tht * a ^ 2 * (a - 1)) =
              (b - a) * (1 + tht * (a ^ 2 + a * b + b ^ 2 - a - b))) by ring.
  assert (HQ : - (1 / 3) <= a ^ 2 + a * b + b ^ 2 - a - b).
  { assert (0 <= ((a - 1/3) + (b - 1/3) / 2) ^ 2) by apply pow2_ge_0.
    assert (0 <= (b - 1/3) ^ 2) by apply pow2_ge_0. nra. }
  assert (0 <= 1 + tht * (a ^ 2 + a * b + b ^ 2 - a - b)).
  { generalize dependent (a ^ 2 + a * b + b ^ 2 - a - b). intros Q _ HQ.
    assert (0 <= tht * (Q + 1 / 3)) by (apply Rmult_le_pos; lra). lra. }
  assert (0 <= (b - a) * (1 + tht * (a ^ 2 + a * b + b ^ 2 - a - b))) by (apply Rmult_le_pos; lra).
  lra.
Qed.

Lemma Temkin_cubic_strict tht a b : 0 <= tht -> tht <= 3 -> a < b ->
  a + tht * a ^ 2 * (a - 1) < b + tht * b ^ 2 * (b - 1).
Proof.
  intros H0 H3 Hab.
  assert (E : (b + tht * b ^ 2 * (b - 1)) - (a + tht * a ^ 2 * (a - 1)) =
              (b - a) * (1 + tht * (a ^ 2 + a * b + b ^ 2 - a - b))) by ring.
  assert (HQ : - (1 / 3) < a ^ 2 + a * b + b ^ 2 - a - b).
  { assert (0 <= ((a - 1/3) + (b - 1/3) / 2) ^ 2) by apply pow2_ge_0.
    assert (0 <= (b - 1/3) ^ 2) by apply pow2_ge_0.
    assert (0 < (b - a) ^ 2) by (apply pow_lt; lra).
    (* Q + 1/3 = u^2 + u v + v^2 with u = a - 1/3, v = b - 1/3, and (v - u)^2 > 0 *)
    assert (3 * (a ^ 2 + a * b + b ^ 2 - a - b + 1 / 3) =
            3 * ((a - 1/3) + (b - 1/3)) ^ 2 / 1 * (3 / 4) + (b - a) ^ 2 * (3 / 4)) by field.
    assert (0 <= ((a - 1/3) + (b - 1/3)) ^ 2) by apply pow2_ge_0.
    nra. }
  assert (0 < 1 + tht * (a ^ 2 + a * b + b ^ 2 - a - b)).
  { generalize dependent (a ^ 2 + a * b + b ^ 2 - a - b). intros Q _ HQ.
    destruct (Req_dec tht 0) as [->|Hne]; [lra|].
    assert (0 < tht * (Q + 1 / 3)) by (apply Rmult_lt_0_compat; lra). lra. }
  assert (0 < (b - a) * (1 + tht * (a ^ 2 + a * b + b ^ 2 - a - b))) by (apply Rmult_lt_0_compat; lra).
  lra.
Qed.

(* ---------------- C10 *)
Lemma TemkinApprox_zero n_m K tht : TemkinApprox_loading n_m K tht 0 = 0.
Proof. unfold TemkinApprox_loading; cbv zeta. rewrite !Rmult_0_r. unfold Rdiv. rewrite !Rmult_0_l. ring. Qed.

Lemma TemkinApprox_loading_defined n_m K tht p : 0 <= K -> 0 <= p -> TemkinApprox_loading_def n_m K tht p.
Proof.
  intros HK Hp. assert (0 <= K * p) by (apply Rmult_le_pos; lra).
  unfold TemkinApprox_loading_def; cbv zeta. split; [lra | exact I].
Qed.

(* non-negativity needs tht <= 4 (L (1 - L) <= 1/4); the library bounds only say 0 <= tht *)
Lemma TemkinApprox_nonneg n_m K tht p : TemkinApprox_bounds n_m K tht -> tht <= 4 -> 0 <= p ->
  0 <= TemkinApprox_loading n_m K tht p.
Proof.
  intros [Hn [HK Ht]] Ht4 Hp. unfold TemkinApprox_loading; cbv zeta.
  destruct (Temkin_L_range K p HK Hp) as [H0 H1].
  apply Rmult_le_pos; [lra|]. apply Temkin_cubic_nonneg; lra.
Qed.

Lemma TemkinApprox_saturation n_m K tht p : TemkinApprox_bounds n_m K tht -> 0 < n_m -> 0 <= p ->
  TemkinApprox_loading n_m K tht p < n_m.
Proof.
  intros [Hn [HK Ht]] Hn0 Hp. unfold TemkinApprox_loading; cbv zeta.
  destruct (Temkin_L_range K p HK Hp) as [H0 H1].
  set (l := K * p / (1 + K * p)) in *.
  assert (0 <= tht * l ^ 2 * (1 - l)).
  { apply Rmult_le_pos; [apply Rmult_le_pos; [lra | apply pow2_ge_0] | lra]. }
  assert (l + tht * l ^ 2 * (l - 1) < 1) by nra.
  nra.
Qed.

Lemma TemkinApprox_monotone n_m K tht p q : TemkinApprox_bounds n_m K tht -> tht <= 3 -> 0 <= p -> p <= q ->
  TemkinApprox_loading n_m K tht p <= TemkinApprox_loading n_m K tht q.
Proof.
  intros [Hn [HK Ht]] Ht3 Hp Hpq. unfold TemkinApprox_loading; cbv zeta.
  apply Rmult_le_compat_l; [lra|]. apply Temkin_cubic_incr; try lra. apply Temkin_L_incr; lra.
Qed.

(* strict also at tht = 3: dn/dL = 1 + tht (3 L^2 - 2 L) vanishes at the single point L = 1/3 only *)
Lemma TemkinApprox_strictly_monotone n_m K tht p q : 0 < n_m -> 0 < K -> 0 <= tht -> tht <= 3 -> 0 <= p -> p < q ->
  TemkinApprox_loading n_m K tht p < TemkinApprox_loading n_m K tht q.
Proof.
  intros Hn HK Ht Ht3 Hp Hpq. unfold TemkinApprox_loading; cbv zeta.
  apply Rmult_lt_compat_l; [lra|]. apply Temkin_cubic_strict; try lra. apply Temkin_L_strict; lra.
Qed.

(* Henry slope *)
Lemma TemkinApprox_henry n_m K tht : is_derive (TemkinApprox_loading n_m K tht) 0 (n_m * K).
Proof.
  unfold TemkinApprox_loading; cbv zeta. auto_derive.
  - rewrite !Rmult_0_r. lra.
  - rewrite !Rmult_0_r. field.
Qed.

(* any two non-negative roots the solver may return for the same loading coincide *)
Lemma TemkinApprox_root_unique n_m K tht n x1 x2 : 0 < n_m -> 0 < K -> 0 <= tht -> tht <= 3 ->
  0 <= x1 -> 0 <= x2 ->
  TemkinApprox_pressure_spec n_m K tht n x1 -> TemkinApprox_pressure_spec n_m K tht n x2 -> x1 = x2.
Proof.
  unfold TemkinApprox_pressure_spec. intros Hn HK Ht Ht3 H1 H2 S1 S2.
  apply (strict_incr_injective (TemkinApprox_loading n_m K tht) (fun x => 0 <= x)); [|exact H1|exact H2|lra].
  intros u v Hu Hv Huv. apply TemkinApprox_strictly_monotone; lra.
Qed.

(* the exact root is a fixed point of loading-after-pressure and pressure-after-loading *)
Lemma TemkinApprox_inverse_lp n_m K tht p x : 0 < n_m -> 0 < K -> 0 <= tht -> tht <= 3 -> 0 <= p -> 0 <= x ->
  TemkinApprox_pressure_spec n_m K tht (TemkinApprox_loading n_m K tht p) x -> x = p.
Proof.
  intros Hn HK Ht Ht3 Hp Hx S.
  apply (TemkinApprox_root_unique n_m K tht (TemkinApprox_loading n_m K tht p)); try assumption.
  unfold TemkinApprox_pressure_spec. ring.
Qed.

(* ---------------- C11 *)
(* the Gibbs identity HOLDS: d Pi / d p = n / p *)
Lemma TemkinApprox_gibbs n_m K tht p : 0 <= K -> 0 < p ->
  TemkinApprox_spreading_pressure_def n_m K tht p /\
  is_derive (TemkinApprox_spreading_pressure n_m K tht) p (TemkinApprox_loading n_m K tht p / p).
Proof.
  intros HK Hp. assert (0 <= K * p) by (apply Rmult_le_pos; lra).
  assert (0 < (1 + K * p) ^ 2) by (apply pow_lt; lra).
  unfold TemkinApprox_spreading_pressure_def, TemkinApprox_spreading_pressure, TemkinApprox_loading; cbv zeta.
  split; [split; lra|].
  auto_derive.
  - split; [lra|]. split; [|exact I]. nra.
  - field. lra.
Qed.

(* ... but the closed form does not vanish at zero pressure: the integration constant n_m tht / 2 is kept *)
Lemma TemkinApprox_spread_at_zero n_m K tht : TemkinApprox_spreading_pressure n_m K tht 0 = n_m * tht / 2.
Proof.
  unfold TemkinApprox_spreading_pressure; cbv zeta. rewrite !Rmult_0_r, !Rplus_0_r, ln_1. field.
Qed.

Lemma TemkinApprox_spread_zero_refuted : exists n_m K tht,
  TemkinApprox_bounds n_m K tht /\ TemkinApprox_spreading_pressure n_m K tht 0 <> 0.
Proof.
  exists 5, 5, 1. unfold TemkinApprox_bounds. split; [lra|]. rewrite TemkinApprox_spread_at_zero. lra.
Qed.

Lemma TemkinApprox_spread_derive n_m K tht x : 0 <= K -> 0 <= x ->
  is_derive (TemkinApprox_spreading_pressure n_m K tht) x
    (n_m * K / (1 + K * x) * (1 + tht * (K * x / (1 + K * x)) * (K * x / (1 + K * x) - 1))).
Proof.
  intros HK Hx. assert (0 <= K * x) by (apply Rmult_le_pos; lra).
  assert (0 < (1 + K * x) ^ 2) by (apply pow_lt; lra).
  unfold TemkinApprox_spreading_pressure; cbv zeta.
  auto_derive.
  - split; [lra|]. split; [|exact I]. nra.
  - field. lra.
Qed.

(* differences of the closed form are right: only the constant is off *)
Lemma TemkinApprox_spread_is_RInt n_m K tht a p : 0 <= K -> 0 <= a -> a <= p ->
  is_RInt (fun x => TemkinApprox_loading n_m K tht x / x) a p
          (TemkinApprox_spreading_pressure n_m K tht p - TemkinApprox_spreading_pressure n_m K tht a).
Proof.
  intros HK Ha Hap.
  apply (RInt_from_derivative (TemkinApprox_spreading_pressure n_m K tht) _
    (fun x => n_m * K / (1 + K * x) * (1 + tht * (K * x / (1 + K * x)) * (K * x / (1 + K * x) - 1))));
    [exact Hap| | |].
  - intros x Hx. apply TemkinApprox_spread_derive; lra.
  - intros x Hx. assert (0 <= K * x) by (apply Rmult_le_pos; lra).
    apply (ex_derive_continuous
      (fun x => n_m * K / (1 + K * x) * (1 + tht * (K * x / (1 + K * x)) * (K * x / (1 + K * x) - 1))) x).
    auto_derive. repeat split; lra.
  - intros x Hx. assert (0 <= K * x) by (apply Rmult_le_pos; lra).
    unfold TemkinApprox_loading; cbv zeta. field. repeat split; lra.
Qed.

(* what the integral from zero really is: closed form minus the constant *)
Lemma TemkinApprox_spread_from_zero n_m K tht p : 0 <= K -> 0 <= p ->
  is_RInt (fun x => TemkinApprox_loading n_m K tht x / x) 0 p
          (TemkinApprox_spreading_pressure n_m K tht p - n_m * tht / 2).
Proof.
  intros HK Hp. generalize (TemkinApprox_spread_is_RInt n_m K tht 0 p HK (Rle_refl 0) Hp).
  rewrite TemkinApprox_spread_at_zero. exact (fun H => H).
Qed.

Lemma TemkinApprox_spread_incr n_m K tht p q : TemkinApprox_bounds n_m K tht -> tht <= 4 -> 0 <= p -> p <= q ->
  TemkinApprox_spreading_pressure n_m K tht p <= TemkinApprox_spreading_pressure n_m K tht q.
Proof.
  intros [Hn [HK Ht]] Ht4 Hp Hpq.
  apply (incr_from_derivative (TemkinApprox_spreading_pressure n_m K tht)
    (fun x => n_m * K / (1 + K * x) * (1 + tht * (K * x / (1 + K * x)) * (K * x / (1 + K * x) - 1))) 0 q); try lra.
  - intros x Hx. apply TemkinApprox_spread_derive; lra.
  - intros x Hx. assert (0 <= K * x) by (apply Rmult_le_pos; lra).
    destruct (Temkin_L_range K x) as [H0 H1]; try lra.
    set (l := K * x / (1 + K * x)) in *.
    apply Rmult_le_pos.
    + apply Rmult_le_pos; [apply Rmult_le_pos; lra | left; apply Rinv_0_lt_compat; lra].
    + assert (0 <= l * (1 - l)) by (apply Rmult_le_pos; lra).
      assert (l * (1 - l) <= 1 / 4).
  { assert (0 <= (l - 1 / 2) ^ 2) by apply pow2_ge_0. replace (l * (1 - l)) with (1 / 4 - (l - 1 / 2) ^ 2) by field. lra. }
      replace (1 + tht * l * (l - 1)) with (1 - tht * (l * (1 - l))) by ring.
      generalize dependent (l * (1 - l)). intros m Hm0 Hm4.
      assert (0 <= (4 - tht) * m) by (apply Rmult_le_pos; lra). lra.
Qed.

(* the hypotheses of the main theorems are satisfiable *)
Example TemkinApprox_monotone_example : TemkinApprox_loading 5 5 3 1 < TemkinApprox_loading 5 5 3 2.
Proof. apply TemkinApprox_strictly_monotone; lra. Qed.

(* the declared bounds leave tht unbounded above; beyond 4 the approximation yields NEGATIVE loadings (L (1 - tht L (1 - L)) with L (1-L) <= 1/4):
   the non-negativity clause of the property is refuted for such in-bounds parameters (TemkinApprox_nonneg above needs tht <= 4) *)
Lemma TemkinApprox_nonneg_refuted : exists n_m K tht p,
  TemkinApprox_bounds n_m K tht /\ 0 <= p /\ TemkinApprox_loading_def n_m K tht p /\ TemkinApprox_loading n_m K tht p < 0.
Proof.
  exists 1, 1, 8, 1. unfold TemkinApprox_bounds, TemkinApprox_loading_def, TemkinApprox_loading; cbv zeta.
  assert (E : 1 * 1 / (1 + 1 * 1) = 1 / 2) by field. rewrite E.
  repeat split; lra.
Qed.
