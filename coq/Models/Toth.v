(* Toth: n(p) = n_m K p / (1 + (K p)^t)^(1/t),  p(n) = n/(n_m K) / (1 - (n/n_m)^t)^(1/t).
   Proofs about the GENERATED definitions of Gen/FormulasGen.v. *)
From Coq Require Import Reals Lra Psatz.
From Coquelicot Require Import Coquelicot.
From PG Require Import Models.PyReal Models.Common Models.PowAux Gen.FormulasGen.
Open Scope R_scope.

(* the loading on p with K p > 0, with Rpower in place of pypow *)
Lemma Toth_loading_pos n_m K t p : 0 < K * p ->
  Toth_loading n_m K t p = n_m * (K * p) / Rpower (1 + Rpower (K * p) t) (1 / t).
Proof.
  intros Hx. unfold Toth_loading; cbv zeta.
  rewrite (pypow_pos (K * p)) by exact Hx.
  rewrite pypow_pos by (generalize (Rpower_gt0 (K * p) t); lra). reflexivity.
Qed.

(* (x / (1 + x^t)^(1/t))^t = x^t / (1 + x^t) *)
Lemma Toth_cov_pow x t : 0 < x -> 0 < t ->
  Rpower (x / Rpower (1 + Rpower x t) (1 / t)) t = Rpower x t / (1 + Rpower x t).
Proof.
  intros Hx Ht. assert (Hu := Rpower_gt0 x t).
  rewrite Rpower_div_base; [|exact Hx|apply Rpower_gt0].
  rewrite Rpower_inv_l by lra. reflexivity.
Qed.

(* the coverage as a composition of increasing maps: n/n_m = (u/(1+u))^(1/t), u = (K p)^t *)
Lemma Toth_loading_compose n_m K t p : 0 < K * p -> 0 < t ->
  Toth_loading n_m K t p = n_m * Rpower (Rpower (K * p) t / (1 + Rpower (K * p) t)) (1 / t).
Proof.
  intros Hx Ht. rewrite Toth_loading_pos by exact Hx.
  assert (Hu := Rpower_gt0 (K * p) t).
  rewrite Rpower_div_base by lra. rewrite Rpower_inv_r by lra. field.
  generalize (Rpower_gt0 (1 + Rpower (K * p) t) (1 / t)); lra.
Qed.

(* ---------------- C10 *)
Lemma Toth_inverse_lp n_m K t p : Toth_bounds n_m K t -> 0 < n_m -> 0 < K -> 0 < t -> 0 < p ->
  Toth_loading_def n_m K t p /\ Toth_pressure_def n_m K t (Toth_loading n_m K t p) /\
  Toth_pressure n_m K t (Toth_loading n_m K t p) = p.
Proof.
  intros _ Hn HK Ht Hp.
  assert (Hx : 0 < K * p) by (apply Rmult_lt_0_compat; lra).
  assert (Hu := Rpower_gt0 (K * p) t).
  assert (Hw := Rpower_gt0 (1 + Rpower (K * p) t) (1 / t)).
  unfold Toth_loading_def, Toth_pressure_def, Toth_pressure; cbv zeta.
  rewrite Toth_loading_pos by exact Hx.
  rewrite (pypow_pos (K * p)) by exact Hx.
  rewrite (pypow_pos (1 + Rpower (K * p) t)) by lra.
  set (u := Rpower (K * p) t) in *. set (w := Rpower (1 + u) (1 / t)) in *.
  assert (Ec : n_m * (K * p) / w / n_m = K * p / w) by (field; lra).
  rewrite Ec.
  assert (Hc : 0 < K * p / w) by (apply Rdiv_lt_0_compat; lra).
  rewrite (pypow_pos (K * p / w)) by exact Hc.
  assert (Ecp : Rpower (K * p / w) t = u / (1 + u)) by (unfold w, u; apply Toth_cov_pow; lra).
  rewrite Ecp.
  assert (E1 : 1 - u / (1 + u) = / (1 + u)) by (field; lra). rewrite E1.
  assert (Hi : 0 < / (1 + u)) by (apply Rinv_0_lt_compat; lra).
  rewrite (pypow_pos (/ (1 + u))) by exact Hi.
  rewrite Rpower_Rinv_base by lra. fold w.
  assert (Hiw : 0 < / w) by (apply Rinv_0_lt_compat; lra).
  repeat split; try lra.
  - left; exact Hx.
  - left; lra.
  - apply Rmult_integral_contrapositive_currified; lra.
  - left; exact Hc.
  - left; exact Hi.
  - field. repeat split; lra.
Qed.

Lemma Toth_inverse_pl n_m K t n : Toth_bounds n_m K t -> 0 < n_m -> 0 < K -> 0 < t -> 0 < n < n_m ->
  Toth_pressure_def n_m K t n /\ Toth_loading_def n_m K t (Toth_pressure n_m K t n) /\
  Toth_loading n_m K t (Toth_pressure n_m K t n) = n.
Proof.
  intros _ Hn HK Ht Hr.
  assert (Hr0 : 0 < n / n_m) by (apply Rdiv_lt_0_compat; lra).
  assert (Hr1 : n / n_m < 1) by (apply Rmult_lt_reg_r with n_m; [lra|]; unfold Rdiv; rewrite Rmult_assoc, Rinv_l by lra; lra).
  assert (Hv0 := Rpower_gt0 (n / n_m) t).
  assert (Hv1 : Rpower (n / n_m) t < 1) by (apply Rpower_lt1; lra).
  assert (Hd := Rpower_gt0 (1 - Rpower (n / n_m) t) (1 / t)).
  unfold Toth_loading_def, Toth_pressure_def, Toth_loading, Toth_pressure; cbv zeta.
  rewrite (pypow_pos (n / n_m)) by exact Hr0.
  rewrite (pypow_pos (1 - Rpower (n / n_m) t)) by lra.
  set (r := n / n_m) in *. set (v := Rpower r t) in *. set (d := Rpower (1 - v) (1 / t)) in *.
  assert (Ex : K * (n / (n_m * K) / d) = r / d) by (unfold r; field; lra).
  rewrite Ex.
  assert (Hx : 0 < r / d) by (apply Rdiv_lt_0_compat; lra).
  rewrite (pypow_pos (r / d)) by exact Hx.
  assert (Ep : Rpower (r / d) t = v / (1 - v)).
  { rewrite Rpower_div_base by lra. unfold d. rewrite Rpower_inv_l by lra. reflexivity. }
  rewrite Ep.
  assert (E1 : 1 + v / (1 - v) = / (1 - v)) by (field; lra). rewrite E1.
  assert (Hi : 0 < / (1 - v)) by (apply Rinv_0_lt_compat; lra).
  rewrite (pypow_pos (/ (1 - v))) by exact Hi.
  rewrite Rpower_Rinv_base by lra. fold d.
  assert (Hid : 0 < / d) by (apply Rinv_0_lt_compat; lra).
  repeat split; try lra.
  - apply Rmult_integral_contrapositive_currified; lra.
  - left; exact Hr0.
  - left; lra.
  - left; exact Hx.
  - left; exact Hi.
  - unfold r. field. repeat split; lra.
Qed.

Lemma Toth_zero n_m K t : 0 < t -> Toth_loading_def n_m K t 0 /\ Toth_loading n_m K t 0 = 0.
Proof.
  intros Ht. unfold Toth_loading_def, Toth_loading; cbv zeta.
  rewrite Rmult_0_r, pypow_0, Rplus_0_r. rewrite pypow_pos by lra. rewrite Rpower_base1. repeat split; try lra.
  - right; split; [reflexivity | exact Ht].
  - left; lra.
Qed.

Lemma Toth_zero_point_inverse n_m K t : n_m <> 0 -> K <> 0 -> 0 < t ->
  Toth_pressure_def n_m K t 0 /\ Toth_pressure n_m K t 0 = 0.
Proof.
  intros Hn HK Ht. unfold Toth_pressure_def, Toth_pressure; cbv zeta.
  assert (E : 0 / n_m = 0) by (field; exact Hn). rewrite E.
  rewrite pypow_0, Rminus_0_r. rewrite pypow_pos by lra. rewrite Rpower_base1. repeat split; try lra.
  - apply Rmult_integral_contrapositive_currified; assumption.
  - right; split; [reflexivity | exact Ht].
  - left; lra.
Qed.

Lemma Toth_nonneg n_m K t p : Toth_bounds n_m K t -> 0 < t -> 0 <= p -> 0 <= Toth_loading n_m K t p.
Proof.
  unfold Toth_bounds, Toth_loading. intros [Hn [HK _]] Ht Hp; cbv zeta.
  assert (0 <= K * p) by (apply Rmult_le_pos; lra).
  assert (Hb : 0 < 1 + pypow (K * p) t) by (generalize (pypow_nonneg (K * p) t); lra).
  apply Rmult_le_pos; [apply Rmult_le_pos; lra|]. left; apply Rinv_0_lt_compat. apply pypow_gt0; exact Hb.
Qed.

Lemma Toth_saturation n_m K t p : Toth_bounds n_m K t -> 0 < n_m -> 0 < t -> 0 <= p -> Toth_loading n_m K t p < n_m.
Proof.
  unfold Toth_bounds. intros [_ [HK _]] Hn Ht Hp.
  assert (Hx : 0 <= K * p) by (apply Rmult_le_pos; lra).
  destruct (Req_dec (K * p) 0) as [E|Hne].
  - unfold Toth_loading; cbv zeta. rewrite E, Rmult_0_r. unfold Rdiv. rewrite Rmult_0_l. exact Hn.
  - assert (Hx0 : 0 < K * p) by lra.
    rewrite Toth_loading_pos by exact Hx0.
    assert (Hu := Rpower_gt0 (K * p) t).
    assert (Hw := Rpower_gt0 (1 + Rpower (K * p) t) (1 / t)).
    assert (Hlt : K * p < Rpower (1 + Rpower (K * p) t) (1 / t)).
    { apply (Rpower_lt_reg_l _ _ t); [exact Ht | exact Hx0 | exact Hw |]. rewrite Rpower_inv_l by lra. lra. }
    apply Rmult_lt_reg_r with (Rpower (1 + Rpower (K * p) t) (1 / t)); [exact Hw|].
    unfold Rdiv. rewrite Rmult_assoc, Rinv_l by lra. nra.
Qed.

Lemma Toth_strictly_monotone n_m K t p q : 0 < n_m -> 0 < K -> 0 < t -> 0 <= p -> p < q ->
  Toth_loading n_m K t p < Toth_loading n_m K t q.
Proof.
  intros Hn HK Ht Hp Hpq.
  assert (Hq : 0 < K * q) by (apply Rmult_lt_0_compat; lra).
  rewrite (Toth_loading_compose n_m K t q) by assumption.
  assert (Huq := Rpower_gt0 (K * q) t).
  destruct (Req_dec p 0) as [->|Hne].
  - destruct (Toth_zero n_m K t Ht) as [_ ->]. apply Rmult_lt_0_compat; [exact Hn | apply Rpower_gt0].
  - assert (Hp0 : 0 < K * p) by (apply Rmult_lt_0_compat; lra).
    rewrite (Toth_loading_compose n_m K t p) by assumption.
    assert (Hup := Rpower_gt0 (K * p) t).
    assert (Hu : Rpower (K * p) t < Rpower (K * q) t).
    { apply Rlt_Rpower_l; [exact Ht|]. split; [exact Hp0|]. apply Rmult_lt_compat_l; lra. }
    apply Rmult_lt_compat_l; [exact Hn|].
    apply Rlt_Rpower_l; [apply Rdiv_lt_0_compat; lra|]. split.
    + apply Rdiv_lt_0_compat; lra.
    + set (a := Rpower (K * p) t) in *. set (b := Rpower (K * q) t) in *.
      assert (E : b / (1 + b) - a / (1 + a) = (b - a) / ((1 + b) * (1 + a))) by (field; lra).
      assert (0 < (b - a) / ((1 + b) * (1 + a))) by (apply Rdiv_lt_0_compat; [lra | apply Rmult_lt_0_compat; lra]).
      lra.
Qed.

Lemma Toth_monotone n_m K t p q : Toth_bounds n_m K t -> 0 < t -> 0 <= p -> p <= q ->
  Toth_loading n_m K t p <= Toth_loading n_m K t q.
Proof.
  unfold Toth_bounds. intros [Hn [HK _]] Ht Hp Hpq.
  destruct (Req_dec p q) as [->|Hne]; [apply Rle_refl|].
  destruct (Req_dec n_m 0) as [->|Hn0].
  { unfold Toth_loading; cbv zeta. unfold Rdiv. rewrite !Rmult_0_l. apply Rle_refl. }
  destruct (Req_dec K 0) as [->|HK0].
  { unfold Toth_loading; cbv zeta. unfold Rdiv. rewrite !Rmult_0_l, !Rmult_0_r, !Rmult_0_l. apply Rle_refl. }
  left. apply Toth_strictly_monotone; lra.
Qed.

Example Toth_hyps_sat : Toth_bounds 2 1 1 /\ Toth_loading 2 1 1 1 = 1.
Proof.
  split; [unfold Toth_bounds; lra|].
  rewrite Toth_loading_pos by lra. rewrite Rmult_1_l.
  replace (1 / 1) with 1 by field. rewrite !Rpower_1 by (try rewrite Rpower_1; lra). field.
Qed.
