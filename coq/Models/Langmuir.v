(* Langmuir: n(p) = n_m K p / (1 + K p).  Proofs about the GENERATED definitions of Gen/FormulasGen.v. *)
From Coq Require Import Reals Lra Psatz.
From Coquelicot Require Import Coquelicot.
From PG Require Import Models.PyReal Models.Common Gen.FormulasGen.
Open Scope R_scope.

(* ---------------- C10 *)
Lemma Langmuir_inverse_lp K n_m p : Langmuir_bounds K n_m -> K <> 0 -> n_m <> 0 -> 0 <= p ->
  Langmuir_loading_def K n_m p /\ Langmuir_pressure_def K n_m (Langmuir_loading K n_m p) /\
  Langmuir_pressure K n_m (Langmuir_loading K n_m p) = p.
Proof.
  unfold Langmuir_bounds, Langmuir_loading_def, Langmuir_pressure_def, Langmuir_pressure, Langmuir_loading.
  intros [HK Hn] HK0 Hn0 Hp. cbv zeta.
  assert (0 <= K * p) by (apply Rmult_le_pos; lra).
  assert (E : n_m - n_m * (K * p) / (1 + K * p) = n_m / (1 + K * p)) by (field; lra).
  repeat split.
  - lra.
  - rewrite E. apply Rmult_integral_contrapositive_currified; [lra|].
    unfold Rdiv. apply Rmult_integral_contrapositive_currified; [lra|]. apply Rinv_neq_0_compat; lra.
  - rewrite E. field. repeat split; lra.
Qed.

Lemma Langmuir_inverse_pl K n_m n : Langmuir_bounds K n_m -> K <> 0 -> 0 <= n < n_m ->
  Langmuir_pressure_def K n_m n /\ Langmuir_loading_def K n_m (Langmuir_pressure K n_m n) /\
  Langmuir_loading K n_m (Langmuir_pressure K n_m n) = n.
Proof.
  unfold Langmuir_bounds, Langmuir_loading_def, Langmuir_pressure_def, Langmuir_pressure, Langmuir_loading.
  intros [HK Hn] HK0 Hr. cbv zeta.
  assert (E : 1 + K * (n / (K * (n_m - n))) = n_m / (n_m - n)) by (field; repeat split; lra).
  assert (0 < n_m / (n_m - n)) by (apply Rdiv_lt_0_compat; lra).
  repeat split.
  - apply Rmult_integral_contrapositive_currified; lra.
  - rewrite E. lra.
  - rewrite E. field. repeat split; lra.
Qed.

Lemma Langmuir_zero K n_m : Langmuir_loading K n_m 0 = 0.
Proof. unfold Langmuir_loading; cbv zeta. rewrite !Rmult_0_r. unfold Rdiv. rewrite Rmult_0_l. reflexivity. Qed.

Lemma Langmuir_nonneg K n_m p : Langmuir_bounds K n_m -> 0 <= p -> 0 <= Langmuir_loading K n_m p.
Proof.
  unfold Langmuir_bounds, Langmuir_loading. intros [HK Hn] Hp; cbv zeta.
  assert (0 <= K * p) by (apply Rmult_le_pos; lra).
  apply Rmult_le_pos; [apply Rmult_le_pos; lra | left; apply Rinv_0_lt_compat; lra].
Qed.

Lemma Langmuir_saturation K n_m p : Langmuir_bounds K n_m -> 0 < n_m -> 0 <= p -> Langmuir_loading K n_m p < n_m.
Proof.
  unfold Langmuir_bounds, Langmuir_loading. intros [HK Hn] Hn0 Hp; cbv zeta.
  assert (0 <= K * p) by (apply Rmult_le_pos; lra).
  apply Rmult_lt_reg_r with (1 + K * p); [lra|]. unfold Rdiv. rewrite Rmult_assoc, Rinv_l by lra. nra.
Qed.

Lemma Langmuir_monotone K n_m p q : Langmuir_bounds K n_m -> 0 <= p -> p <= q ->
  Langmuir_loading K n_m p <= Langmuir_loading K n_m q.
Proof.
  unfold Langmuir_bounds, Langmuir_loading. intros [HK Hn] Hp Hpq; cbv zeta.
  assert (0 <= K * p) by (apply Rmult_le_pos; lra).
  assert (0 <= K * q) by (apply Rmult_le_pos; lra).
  assert (E : n_m * (K * q) / (1 + K * q) - n_m * (K * p) / (1 + K * p) = n_m * K * (q - p) / ((1 + K * q) * (1 + K * p))) by (field; lra).
  assert (0 <= n_m * K * (q - p) / ((1 + K * q) * (1 + K * p))).
  { apply Rmult_le_pos; [|left; apply Rinv_0_lt_compat; apply Rmult_lt_0_compat; lra].
    apply Rmult_le_pos; [apply Rmult_le_pos|]; lra. }
  lra.
Qed.

Lemma Langmuir_strictly_monotone K n_m p q : 0 < K -> 0 < n_m -> 0 <= p -> p < q ->
  Langmuir_loading K n_m p < Langmuir_loading K n_m q.
Proof.
  unfold Langmuir_loading. intros HK Hn Hp Hpq; cbv zeta.
  assert (0 <= K * p) by (apply Rmult_le_pos; lra).
  assert (0 <= K * q) by (apply Rmult_le_pos; lra).
  assert (E : n_m * (K * q) / (1 + K * q) - n_m * (K * p) / (1 + K * p) = n_m * K * (q - p) / ((1 + K * q) * (1 + K * p))) by (field; lra).
  assert (0 < n_m * K * (q - p) / ((1 + K * q) * (1 + K * p))).
  { apply Rdiv_lt_0_compat; [|apply Rmult_lt_0_compat; lra].
    apply Rmult_lt_0_compat; [apply Rmult_lt_0_compat|]; lra. }
  lra.
Qed.

(* Henry slope: the derivative of the loading at zero pressure is K n_m *)
Lemma Langmuir_henry K n_m : is_derive (Langmuir_loading K n_m) 0 (n_m * K).
Proof.
  unfold Langmuir_loading; cbv zeta. auto_derive.
  - rewrite Rmult_0_r; lra.
  - rewrite Rmult_0_r. field.
Qed.

(* ---------------- C11 *)
Lemma Langmuir_gibbs K n_m p : 0 <= K -> 0 < p ->
  Langmuir_spreading_pressure_def K n_m p /\
  is_derive (Langmuir_spreading_pressure K n_m) p (Langmuir_loading K n_m p / p).
Proof.
  intros HK Hp. assert (0 <= K * p) by (apply Rmult_le_pos; lra).
  unfold Langmuir_spreading_pressure_def, Langmuir_spreading_pressure, Langmuir_loading; cbv zeta. split; [lra|].
  auto_derive; [lra|]. field. lra.
Qed.

Lemma Langmuir_spread_zero K n_m : Langmuir_spreading_pressure K n_m 0 = 0.
Proof. unfold Langmuir_spreading_pressure. rewrite Rmult_0_r, Rplus_0_r, ln_1. ring. Qed.

(* integral form, from 0: the integrand n(x)/x is singular as an expression at 0 only *)
Lemma Langmuir_spread_is_RInt K n_m a p : 0 <= K -> 0 <= a -> a <= p ->
  is_RInt (fun x => Langmuir_loading K n_m x / x) a p
          (Langmuir_spreading_pressure K n_m p - Langmuir_spreading_pressure K n_m a).
Proof.
  intros HK Ha Hap.
  apply (RInt_from_derivative (Langmuir_spreading_pressure K n_m) _ (fun x => n_m * K / (1 + K * x))); [exact Hap| | |].
  - intros x Hx. assert (0 <= K * x) by (apply Rmult_le_pos; lra).
    unfold Langmuir_spreading_pressure. auto_derive; [lra|]. field; lra.
  - intros x Hx. assert (0 <= K * x) by (apply Rmult_le_pos; lra).
    apply (ex_derive_continuous (fun x => n_m * K / (1 + K * x)) x). auto_derive. lra.
  - intros x Hx. assert (0 <= K * x) by (apply Rmult_le_pos; lra).
    unfold Langmuir_loading; cbv zeta. field. repeat split; lra.
Qed.

Lemma Langmuir_spread_from_zero K n_m p : 0 <= K -> 0 <= p ->
  is_RInt (fun x => Langmuir_loading K n_m x / x) 0 p (Langmuir_spreading_pressure K n_m p).
Proof.
  intros HK Hp. generalize (Langmuir_spread_is_RInt K n_m 0 p HK (Rle_refl 0) Hp).
  rewrite Langmuir_spread_zero, Rminus_0_r. exact (fun H => H).
Qed.

Lemma Langmuir_spread_incr K n_m p q : Langmuir_bounds K n_m -> 0 <= p -> p <= q ->
  Langmuir_spreading_pressure K n_m p <= Langmuir_spreading_pressure K n_m q.
Proof.
  intros [HK Hn] Hp Hpq. unfold Langmuir_spreading_pressure.
  assert (0 <= K * p) by (apply Rmult_le_pos; lra).
  assert (K * p <= K * q) by (apply Rmult_le_compat_l; lra).
  apply Rmult_le_compat_l; [lra|].
  destruct (Req_dec (K * p) (K * q)) as [->|]; [lra|]. left; apply ln_increasing; lra.
Qed.
