(* Freundlich: n(p) = K p^(1/m), p(n) = (n/K)^m, Pi(p) = m K p^(1/m).  Proofs about the GENERATED definitions of Gen/FormulasGen.v.
   The model has no Henry slope (the slope at 0 is infinite for m > 1) and no saturation. *)
From Coq Require Import Reals Lra Psatz.
From Coquelicot Require Import Coquelicot.
From PG Require Import Models.PyReal Models.Common Models.PowAux Gen.FormulasGen.
Open Scope R_scope.

(* ---------------- C10 *)
Lemma Freundlich_inverse_lp K m p : Freundlich_bounds K m -> 0 < K -> 0 < m -> 0 < p ->
  Freundlich_loading_def K m p /\ Freundlich_pressure_def K m (Freundlich_loading K m p) /\
  Freundlich_pressure K m (Freundlich_loading K m p) = p.
Proof.
  unfold Freundlich_loading_def, Freundlich_pressure_def, Freundlich_pressure, Freundlich_loading.
  intros _ HK Hm Hp.
  rewrite (pypow_pos p) by exact Hp.
  assert (E : K * Rpower p (1 / m) / K = Rpower p (1 / m)) by (field; lra).
  rewrite E. repeat split.
  - lra.
  - left; exact Hp.
  - lra.
  - left; apply Rpower_gt0.
  - rewrite pypow_pos by apply Rpower_gt0. apply Rpower_inv_l; lra.
Qed.

Lemma Freundlich_inverse_pl K m n : Freundlich_bounds K m -> 0 < K -> 0 < m -> 0 < n ->
  Freundlich_pressure_def K m n /\ Freundlich_loading_def K m (Freundlich_pressure K m n) /\
  Freundlich_loading K m (Freundlich_pressure K m n) = n.
Proof.
  unfold Freundlich_loading_def, Freundlich_pressure_def, Freundlich_pressure, Freundlich_loading.
  intros _ HK Hm Hn.
  assert (Hq : 0 < n / K) by (apply Rdiv_lt_0_compat; lra).
  rewrite (pypow_pos (n / K)) by exact Hq.
  repeat split.
  - lra.
  - left; exact Hq.
  - lra.
  - left; apply Rpower_gt0.
  - rewrite pypow_pos by apply Rpower_gt0. rewrite Rpower_inv_r by lra. field; lra.
Qed.

(* zero pressure: 0 ** (1/m) is defined (and 0) exactly because 1/m > 0 *)
Lemma Freundlich_zero K m : 0 < m -> Freundlich_loading_def K m 0 /\ Freundlich_loading K m 0 = 0.
Proof.
  intros Hm. unfold Freundlich_loading_def, Freundlich_loading. repeat split.
  - lra.
  - right; split; [reflexivity|]. apply Rdiv_lt_0_compat; lra.
  - rewrite pypow_0; ring.
Qed.

Lemma Freundlich_zero_point_inverse K m : K <> 0 -> 0 < m ->
  Freundlich_pressure_def K m 0 /\ Freundlich_pressure K m 0 = 0.
Proof.
  intros HK Hm. unfold Freundlich_pressure_def, Freundlich_pressure.
  assert (E : 0 / K = 0) by (field; exact HK). rewrite E. repeat split.
  - exact HK.
  - right; split; [reflexivity | exact Hm].
  - apply pypow_0.
Qed.

Lemma Freundlich_nonneg K m p : Freundlich_bounds K m -> 0 < m -> 0 <= p -> 0 <= Freundlich_loading K m p.
Proof.
  unfold Freundlich_bounds, Freundlich_loading. intros [HK _] _ _. apply Rmult_le_pos; [exact HK | apply pypow_nonneg].
Qed.

Lemma Freundlich_strictly_monotone K m p q : 0 < K -> 0 < m -> 0 <= p -> p < q ->
  Freundlich_loading K m p < Freundlich_loading K m q.
Proof.
  unfold Freundlich_loading. intros HK Hm Hp Hpq.
  apply Rmult_lt_compat_l; [exact HK|]. apply pypow_lt; [apply Rdiv_lt_0_compat; lra | exact Hp | exact Hpq].
Qed.

Lemma Freundlich_monotone K m p q : Freundlich_bounds K m -> 0 < m -> 0 <= p -> p <= q ->
  Freundlich_loading K m p <= Freundlich_loading K m q.
Proof.
  intros HB Hm Hp Hpq. assert (HK : 0 <= K) by (unfold Freundlich_bounds in HB; tauto).
  destruct (Req_dec p q) as [->|Hne]; [apply Rle_refl|].
  destruct (Req_dec K 0) as [->|HK0].
  { unfold Freundlich_loading. rewrite !Rmult_0_l. apply Rle_refl. }
  left. apply Freundlich_strictly_monotone; lra.
Qed.

(* ---------------- C11 *)
Lemma Freundlich_gibbs K m p : m <> 0 -> 0 < p ->
  Freundlich_spreading_pressure_def K m p /\
  is_derive (Freundlich_spreading_pressure K m) p (Freundlich_loading K m p / p).
Proof.
  intros Hm Hp. unfold Freundlich_spreading_pressure_def, Freundlich_spreading_pressure, Freundlich_loading; cbv zeta.
  split; [split; [exact Hm | left; exact Hp]|].
  rewrite (pypow_pos p) by exact Hp.
  replace (K * Rpower p (1 / m) / p) with ((m * K) * (1 / m * Rpower p (1 / m) / p)) by (field; lra).
  apply (is_derive_scal (fun x => pypow x (1 / m)) p (m * K)).
  apply is_derive_pypow_base; exact Hp.
Qed.

Lemma Freundlich_spread_zero K m : 0 < m ->
  Freundlich_spreading_pressure_def K m 0 /\ Freundlich_spreading_pressure K m 0 = 0.
Proof.
  intros Hm. unfold Freundlich_spreading_pressure_def, Freundlich_spreading_pressure; cbv zeta. repeat split.
  - lra.
  - right; split; [reflexivity|]. apply Rdiv_lt_0_compat; lra.
  - rewrite pypow_0; ring.
Qed.

(* integral form.  Only from a > 0: for m > 1 the integrand n(x)/x = K x^(1/m - 1) is unbounded near 0
   (the improper integral from 0 converges to Pi(p), but it is not a Riemann integral on [0, p]). *)
Lemma Freundlich_spread_is_RInt K m a p : m <> 0 -> 0 < a -> a <= p ->
  is_RInt (fun x => Freundlich_loading K m x / x) a p
          (Freundlich_spreading_pressure K m p - Freundlich_spreading_pressure K m a).
Proof.
  intros Hm Ha Hap.
  apply (RInt_from_derivative (Freundlich_spreading_pressure K m) _ (fun x => K * Rpower x (1 / m) / x)); [exact Hap| | |].
  - intros x Hx. assert (Hx0 : 0 < x) by lra.
    destruct (Freundlich_gibbs K m x Hm Hx0) as [_ HD].
    unfold Freundlich_loading in HD. rewrite (pypow_pos x) in HD by exact Hx0. exact HD.
  - intros x Hx. assert (Hx0 : 0 < x) by lra.
    apply (ex_derive_continuous (fun x => K * Rpower x (1 / m) / x) x). unfold Rpower. auto_derive. lra.
  - intros x Hx. unfold Freundlich_loading. rewrite pypow_pos by lra. reflexivity.
Qed.

Lemma Freundlich_spread_incr K m p q : Freundlich_bounds K m -> 0 < m -> 0 <= p -> p <= q ->
  Freundlich_spreading_pressure K m p <= Freundlich_spreading_pressure K m q.
Proof.
  unfold Freundlich_bounds, Freundlich_spreading_pressure. intros [HK _] Hm Hp Hpq; cbv zeta.
  apply Rmult_le_compat_l; [apply Rmult_le_pos; lra|].
  apply pypow_le; [apply Rdiv_lt_0_compat; lra | exact Hp | exact Hpq].
Qed.

Example Freundlich_hyps_sat : Freundlich_bounds 2 3 /\ Freundlich_loading_def 2 3 1 /\ Freundlich_loading 2 3 1 = 2.
Proof.
  unfold Freundlich_bounds, Freundlich_loading_def, Freundlich_loading. repeat split; try lra.
  - left; lra.
  - rewrite pypow_pos by lra. rewrite Rpower_base1. ring.
Qed.
