(* GAB: n(p) = n_m C K p / ((1 - K p) (1 - K p + C K p)), validity range 0 <= p, K p < 1.
   Proofs about the GENERATED definitions of Gen/FormulasGen.v.  The generated GAB formulas are the generated BET
   formulas with N := K and C := C K (bridging lemmas GAB_*_as_BET below, proved by rewriting the generated terms),
   so every statement is obtained from the corresponding lemma of Models/BET.v. *)
From Coq Require Import Reals Lra Psatz.
From Coquelicot Require Import Coquelicot.
From PG Require Import Models.PyReal Models.Common Gen.FormulasGen Models.BET.
Open Scope R_scope.

(* ---------------- bridge to BET *)
Lemma GAB_loading_as_BET n_m C K p : GAB_loading n_m C K p = BET_loading n_m (C * K) K p.
Proof.
  unfold GAB_loading, BET_loading; cbv zeta.
  replace (n_m * (C * K) * p) with (n_m * C * (K * p)) by ring.
  replace (C * K * p) with (C * (K * p)) by ring. reflexivity.
Qed.

Lemma GAB_loading_def_as_BET n_m C K p : GAB_loading_def n_m C K p = BET_loading_def n_m (C * K) K p.
Proof.
  unfold GAB_loading_def, BET_loading_def; cbv zeta.
  replace (C * K * p) with (C * (K * p)) by ring. reflexivity.
Qed.

Lemma GAB_pressure_as_BET n_m C K n : GAB_pressure n_m C K n = BET_pressure n_m (C * K) K n.
Proof.
  unfold GAB_pressure, BET_pressure; cbv zeta.
  replace (n * K * (K - C * K)) with (n * (1 - C) * K ^ 2) by ring.
  replace (n * (C * K) - 2 * n * K - n_m * (C * K)) with ((n * (C - 2) - n_m * C) * K) by ring. reflexivity.
Qed.

Lemma GAB_pressure_def_as_BET n_m C K n : GAB_pressure_def n_m C K n = BET_pressure_def n_m (C * K) K n.
Proof.
  unfold GAB_pressure_def, BET_pressure_def; cbv zeta.
  replace (n * K * (K - C * K)) with (n * (1 - C) * K ^ 2) by ring.
  replace (n * (C * K) - 2 * n * K - n_m * (C * K)) with ((n * (C - 2) - n_m * C) * K) by ring. reflexivity.
Qed.

Lemma GAB_spreading_pressure_as_BET n_m C K p :
  GAB_spreading_pressure n_m C K p = BET_spreading_pressure n_m (C * K) K p.
Proof.
  unfold GAB_spreading_pressure, BET_spreading_pressure; cbv zeta.
  replace (C * K * p) with (C * (K * p)) by ring. reflexivity.
Qed.

Lemma GAB_spreading_pressure_def_as_BET n_m C K p :
  GAB_spreading_pressure_def n_m C K p = BET_spreading_pressure_def n_m (C * K) K p.
Proof.
  unfold GAB_spreading_pressure_def, BET_spreading_pressure_def; cbv zeta.
  replace (C * K * p) with (C * (K * p)) by ring. reflexivity.
Qed.

Lemma GAB_bounds_as_BET n_m C K : GAB_bounds n_m C K -> BET_bounds n_m (C * K) K.
Proof.
  unfold GAB_bounds, BET_bounds. intros [Hn [HC [HK HK1]]].
  assert (0 <= C * K) by (apply Rmult_le_pos; lra). repeat split; lra.
Qed.

(* ---------------- C10 *)
Lemma GAB_inverse_lp n_m C K p : GAB_bounds n_m C K -> 0 < n_m -> 0 < C -> 0 < K -> C <> 1 -> 0 < p -> K * p < 1 ->
  GAB_loading_def n_m C K p /\ GAB_pressure_def n_m C K (GAB_loading n_m C K p) /\
  GAB_pressure n_m C K (GAB_loading n_m C K p) = p.
Proof.
  intros Hb Hn HC HK HC1 Hp HKp.
  rewrite GAB_loading_def_as_BET, GAB_loading_as_BET, GAB_pressure_def_as_BET, GAB_pressure_as_BET.
  assert (0 < C * K) by (apply Rmult_lt_0_compat; lra).
  apply BET_inverse_lp; try lra.
  - apply GAB_bounds_as_BET; exact Hb.
  - intros E. apply HC1. apply Rmult_eq_reg_r with K; lra.
Qed.

(* covers every loading in the image of the validity range {p | 0 < p, K p < 1};
   surjectivity of the loading onto (0, +inf) is not proved here *)
Lemma GAB_inverse_pl_partial n_m C K p : GAB_bounds n_m C K -> 0 < n_m -> 0 < C -> 0 < K -> C <> 1 -> 0 < p -> K * p < 1 ->
  let n := GAB_loading n_m C K p in
  GAB_pressure_def n_m C K n /\ GAB_loading_def n_m C K (GAB_pressure n_m C K n) /\
  GAB_loading n_m C K (GAB_pressure n_m C K n) = n.
Proof.
  intros Hb Hn HC HK HC1 Hp HKp n.
  destruct (GAB_inverse_lp n_m C K p Hb Hn HC HK HC1 Hp HKp) as [H1 [H2 H3]].
  unfold n. rewrite H3. split; [exact H2 | split; [exact H1 | reflexivity]].
Qed.

(* zero loading: x = 0, y = - n_m C K, numerator 0: the 0/0 is turned into 0 by nan_to_num *)
Lemma GAB_zero_point n_m C K : 0 <= n_m -> 0 <= C -> 0 <= K ->
  GAB_pressure n_m C K 0 = 0 /\ GAB_pressure_def n_m C K 0.
Proof.
  intros Hn HC HK. rewrite GAB_pressure_as_BET, GAB_pressure_def_as_BET.
  apply BET_zero_point; [lra | apply Rmult_le_pos; lra].
Qed.

(* C = 1 (inside the parameter bounds; the model is then n_m K p / (1 - K p)): x = 0 and the formula returns 0
   for EVERY loading *)
Lemma GAB_pressure_C_eq_1 n_m C K n : C = 1 -> 0 <= n -> 0 <= n_m -> 0 <= K ->
  GAB_pressure_def n_m C K n /\ GAB_pressure n_m C K n = 0.
Proof.
  intros E Hl Hn HK. rewrite GAB_pressure_as_BET, GAB_pressure_def_as_BET.
  apply BET_pressure_C_eq_N; subst C; lra.
Qed.

Lemma GAB_pressure_C_eq_1_refuted : exists n_m C K n p,
  GAB_bounds n_m C K /\ 0 < p /\ K * p < 1 /\ n = GAB_loading n_m C K p /\ GAB_pressure n_m C K n = 0 /\ p <> 0.
Proof.
  exists 5, 1, (1/2), (GAB_loading 5 1 (1/2) 1), 1.
  unfold GAB_bounds.
  split; [lra|]. split; [lra|]. split; [lra|]. split; [reflexivity|]. split; [|lra].
  apply GAB_pressure_C_eq_1; try lra.
  rewrite GAB_loading_as_BET. left. apply BET_loading_pos; lra.
Qed.

(* K = 0: the loading is identically zero and the formula returns 0 for every loading *)
Lemma GAB_pressure_K_eq_0 n_m C K n : K = 0 -> 0 <= n -> 0 <= n_m ->
  GAB_pressure_def n_m C K n /\ GAB_pressure n_m C K n = 0.
Proof.
  intros E Hl Hn. rewrite GAB_pressure_as_BET, GAB_pressure_def_as_BET. subst K.
  apply BET_pressure_C_eq_N; try lra; ring.
Qed.

Lemma GAB_zero n_m C K : GAB_loading n_m C K 0 = 0.
Proof. rewrite GAB_loading_as_BET. apply BET_zero. Qed.

Lemma GAB_nonneg n_m C K p : GAB_bounds n_m C K -> 0 <= p -> K * p < 1 -> 0 <= GAB_loading n_m C K p.
Proof.
  intros Hb Hp HKp. rewrite GAB_loading_as_BET. apply BET_nonneg; [apply GAB_bounds_as_BET; exact Hb | lra | lra].
Qed.

Lemma GAB_monotone n_m C K p q : GAB_bounds n_m C K -> 0 <= p -> p <= q -> K * q < 1 ->
  GAB_loading n_m C K p <= GAB_loading n_m C K q.
Proof.
  intros Hb Hp Hpq HKq. rewrite !GAB_loading_as_BET.
  apply BET_monotone; [apply GAB_bounds_as_BET; exact Hb | lra | lra | lra].
Qed.

Lemma GAB_strictly_monotone n_m C K p q : 0 < n_m -> 0 < C -> 0 < K -> 0 <= p -> p < q -> K * q < 1 ->
  GAB_loading n_m C K p < GAB_loading n_m C K q.
Proof.
  intros Hn HC HK Hp Hpq HKq. rewrite !GAB_loading_as_BET.
  assert (0 < C * K) by (apply Rmult_lt_0_compat; lra).
  apply BET_strictly_monotone; lra.
Qed.

(* Henry slope: the derivative of the loading at zero pressure is n_m C K *)
Lemma GAB_henry n_m C K : is_derive (GAB_loading n_m C K) 0 (n_m * C * K).
Proof.
  unfold GAB_loading; cbv zeta. auto_derive.
  - rewrite !Rmult_0_r. lra.
  - rewrite !Rmult_0_r. field.
Qed.

(* ---------------- C11 *)
Lemma GAB_gibbs n_m C K p : 0 <= K -> 0 <= C -> 0 < p -> K * p < 1 ->
  GAB_spreading_pressure_def n_m C K p /\
  is_derive (GAB_spreading_pressure n_m C K) p (GAB_loading n_m C K p / p).
Proof.
  intros HK HC Hp HKp. assert (0 <= C * K) by (apply Rmult_le_pos; lra).
  destruct (BET_gibbs n_m (C * K) K p) as [H1 H2]; try lra.
  rewrite GAB_spreading_pressure_def_as_BET, GAB_loading_as_BET. split; [exact H1|].
  apply (is_derive_ext (BET_spreading_pressure n_m (C * K) K)); [|exact H2].
  intros t. symmetry. apply GAB_spreading_pressure_as_BET.
Qed.

Lemma GAB_spread_zero n_m C K : GAB_spreading_pressure n_m C K 0 = 0.
Proof. rewrite GAB_spreading_pressure_as_BET. apply BET_spread_zero. Qed.

(* integral form: the integrand n(x)/x is singular as an expression at 0 only *)
Lemma GAB_spread_is_RInt n_m C K a p : 0 <= K -> 0 <= C -> 0 <= a -> a <= p -> K * p < 1 ->
  is_RInt (fun x => GAB_loading n_m C K x / x) a p
          (GAB_spreading_pressure n_m C K p - GAB_spreading_pressure n_m C K a).
Proof.
  intros HK HC Ha Hap HKp. assert (0 <= C * K) by (apply Rmult_le_pos; lra).
  rewrite !GAB_spreading_pressure_as_BET.
  apply (is_RInt_ext (fun x => BET_loading n_m (C * K) K x / x)).
  - intros x _. rewrite GAB_loading_as_BET. reflexivity.
  - apply BET_spread_is_RInt; lra.
Qed.

Lemma GAB_spread_from_zero n_m C K p : 0 <= K -> 0 <= C -> 0 <= p -> K * p < 1 ->
  is_RInt (fun x => GAB_loading n_m C K x / x) 0 p (GAB_spreading_pressure n_m C K p).
Proof.
  intros HK HC Hp HKp. generalize (GAB_spread_is_RInt n_m C K 0 p HK HC (Rle_refl 0) Hp HKp).
  rewrite GAB_spread_zero, Rminus_0_r. exact (fun H => H).
Qed.

Lemma GAB_spread_incr n_m C K p q : GAB_bounds n_m C K -> 0 <= p -> p <= q -> K * q < 1 ->
  GAB_spreading_pressure n_m C K p <= GAB_spreading_pressure n_m C K q.
Proof.
  intros Hb Hp Hpq HKq. rewrite !GAB_spreading_pressure_as_BET.
  apply BET_spread_incr; [apply GAB_bounds_as_BET; exact Hb | lra | lra | lra].
Qed.

(* the hypotheses of the main theorems are satisfiable *)
Example GAB_inverse_example : GAB_pressure 5 2 (1/2) (GAB_loading 5 2 (1/2) 1) = 1.
Proof. apply GAB_inverse_lp; unfold GAB_bounds; lra. Qed.
