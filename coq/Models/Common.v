(* Lemmas shared by the per-model proofs of C10 / C11. *)
From Coq Require Import Reals Lra Psatz.
From Coquelicot Require Import Coquelicot.
From PG Require Import Models.PyReal.
Open Scope R_scope.

(* the quadratic-formula branches of BET / GAB / Quadratic (minus root) and DSLangmuir (plus root):
   if p solves x p^2 + y p + c = 0 and lies on the stated side of the vertex, the formula returns p *)
Lemma quad_disc x y c p : x * p ^ 2 + y * p + c = 0 -> y ^ 2 - 4 * x * c = (2 * x * p + y) ^ 2.
Proof. intros H. replace c with (- (x * p ^ 2 + y * p)) by lra. ring. Qed.

Lemma quad_root_minus x y c p : x <> 0 -> x * p ^ 2 + y * p + c = 0 -> 2 * x * p + y <= 0 ->
  (- y - sqrt (y ^ 2 - 4 * x * c)) / (2 * x) = p.
Proof.
  intros Hx Hq Hs. rewrite (quad_disc x y c p Hq).
  replace ((2 * x * p + y) ^ 2) with ((- (2 * x * p + y)) ^ 2) by ring.
  rewrite <- Rsqr_pow2, sqrt_Rsqr by lra. field. exact Hx.
Qed.

Lemma quad_root_plus x y c p : x <> 0 -> x * p ^ 2 + y * p + c = 0 -> 0 <= 2 * x * p + y ->
  (- y + sqrt (y ^ 2 - 4 * x * c)) / (2 * x) = p.
Proof.
  intros Hx Hq Hs. rewrite (quad_disc x y c p Hq).
  rewrite <- Rsqr_pow2, sqrt_Rsqr by lra. field. exact Hx.
Qed.

(* from the Gibbs identity F' = g on [a,b], g continuous, and f = g inside (a,b): the integral of f is F b - F a.
   f may be singular as an expression at the end points (n(x)/x at x = 0). *)
Lemma RInt_from_derivative (F f g : R -> R) (a b : R) : a <= b ->
  (forall x, a <= x <= b -> is_derive F x (g x)) ->
  (forall x, a <= x <= b -> continuous g x) ->
  (forall x, a < x < b -> g x = f x) ->
  is_RInt f a b (F b - F a).
Proof.
  intros Hab HD HC HE.
  apply (is_RInt_ext g f a b).
  - intros x Hx. rewrite Rmin_left, Rmax_right in Hx by lra. apply HE; lra.
  - change (F b - F a) with (minus (F b) (F a)).
    apply (is_RInt_derive F g a b).
    + intros x Hx. rewrite Rmin_left, Rmax_right in Hx by lra. apply HD; lra.
    + intros x Hx. rewrite Rmin_left, Rmax_right in Hx by lra. apply HC; lra.
Qed.

(* a function with a non-negative derivative on an interval is non-decreasing on it (mean value theorem) *)
Lemma incr_from_derivative (f df : R -> R) (a b : R) :
  (forall x, a <= x <= b -> is_derive f x (df x)) -> (forall x, a <= x <= b -> 0 <= df x) ->
  forall u v, a <= u -> u <= v -> v <= b -> f u <= f v.
Proof.
  intros HD Hpos u v Hu Huv Hv.
  destruct (Req_dec u v) as [->|Hne]; [lra|].
  assert (Hlt : u < v) by lra.
  destruct (MVT_gen f u v df) as [c [Hc Hfc]].
  - intros x Hx. rewrite Rmin_left, Rmax_right in Hx by lra. apply HD; lra.
  - intros x Hx. rewrite Rmin_left, Rmax_right in Hx by lra.
    apply continuity_pt_filterlim. apply (ex_derive_continuous f x). exists (df x). apply HD; lra.
  - rewrite Rmin_left, Rmax_right in Hc by lra.
    assert (0 <= df c) by (apply Hpos; lra).
    assert (0 <= df c * (v - u)) by (apply Rmult_le_pos; lra). lra.
Qed.

Lemma strict_incr_from_derivative (f df : R -> R) (a b : R) :
  (forall x, a <= x <= b -> is_derive f x (df x)) -> (forall x, a <= x <= b -> 0 < df x) ->
  forall u v, a <= u -> u < v -> v <= b -> f u < f v.
Proof.
  intros HD Hpos u v Hu Huv Hv.
  destruct (MVT_gen f u v df) as [c [Hc Hfc]].
  - intros x Hx. rewrite Rmin_left, Rmax_right in Hx by lra. apply HD; lra.
  - intros x Hx. rewrite Rmin_left, Rmax_right in Hx by lra.
    apply continuity_pt_filterlim. apply (ex_derive_continuous f x). exists (df x). apply HD; lra.
  - rewrite Rmin_left, Rmax_right in Hc by lra.
    assert (0 < df c) by (apply Hpos; lra).
    assert (0 < df c * (v - u)) by (apply Rmult_lt_0_compat; lra). lra.
Qed.

(* strictly increasing functions are injective: any root a solver returns is THE inverse *)
Lemma strict_incr_injective (f : R -> R) (D : R -> Prop) :
  (forall u v, D u -> D v -> u < v -> f u < f v) -> forall u v, D u -> D v -> f u = f v -> u = v.
Proof.
  intros H u v Du Dv E. destruct (Rtotal_order u v) as [L|[L|L]]; [|exact L|].
  - specialize (H u v Du Dv L). lra.
  - specialize (H v u Dv Du L). lra.
Qed.
