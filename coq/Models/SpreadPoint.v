(* C11, point isotherms.  HAND-WRITTEN model of PointIsotherm.spreading_pressure_at (pointisotherm.py 1276-1329) over a list
   of (pressure, loading) rows, and the proof, by induction over the row list, that it equals the integral of
   interpolant(x)/x from 0 to p, where the interpolant is Henry's line below the first point and the piecewise-linear
   interpolation of the data above it.  The model is executed against the implementation by the correspondence goals
   of tools/props/c11.py (same definition, concrete rows, comparisons decided by lra, logarithms enclosed by interval).
   scipy's interp1d (loading_at) is an oracle: `lin` is its contract (linear interpolation between the two neighbours). *)
From Coq Require Import Reals Lra List.
From Coquelicot Require Import Coquelicot.
Import ListNotations.
Open Scope R_scope.

Definition row := (R * R)%type.

(* loading_at(p) for p between two neighbouring data points: linear interpolation *)
Definition lin (p0 l0 p1 l1 x : R) : R := l0 + (l1 - l0) / (p1 - p0) * (x - p0).

(* one full segment of the loop `for i in range(n_points - 1)` *)
Definition seg (p0 l0 p1 l1 : R) : R :=
  let slope := (l1 - l0) / (p1 - p0) in
  let intercept := l0 - slope * p0 in
  slope * (p1 - p0) + intercept * ln (p1 / p0).

(* the last, partial segment: slope from loading_at(p) = lp *)
Definition last_seg (p0 l0 lp p : R) : R :=
  let slope := (lp - l0) / (p - p0) in
  let intercept := l0 - slope * p0 in
  slope * (p - p0) + intercept * ln (p / p0).

(* (p0,l0) is the last data point below p *)
Fixpoint sp_from (p0 l0 : R) (rest : list row) (p : R) : R :=
  match rest with
  | [] => 0            (* p above the last data point: loading_at refuses; outside sp_point_def *)
  | (p1, l1) :: rest' =>
      if Rlt_dec p1 p then seg p0 l0 p1 l1 + sp_from p1 l1 rest' p
      else last_seg p0 l0 (lin p0 l0 p1 l1 p) p
  end.

Definition sp_point (rows : list row) (p : R) : R :=
  match rows with
  | [] => 0
  | (p1, l1) :: rest =>
      if Rlt_dec p1 p then l1 + sp_from p1 l1 rest p      (* area = loadings[0] + segments *)
      else l1 / p1 * p                                      (* n_points = 0: henry_const * pressure *)
  end.

(* the isotherm the integral is taken of *)
Fixpoint interp_from (p0 l0 : R) (rest : list row) (x : R) : R :=
  match rest with
  | [] => l0
  | (p1, l1) :: rest' => if Rle_dec x p1 then lin p0 l0 p1 l1 x else interp_from p1 l1 rest' x
  end.
Definition interp (rows : list row) (x : R) : R :=
  match rows with
  | [] => 0
  | (p1, l1) :: rest => if Rle_dec x p1 then l1 / p1 * x else interp_from p1 l1 rest x
  end.

Fixpoint increasing_from (p0 : R) (rest : list row) : Prop :=
  match rest with [] => True | (p1, _) :: r => p0 < p1 /\ increasing_from p1 r end.
Fixpoint last_from (p0 : R) (rest : list row) : R :=
  match rest with [] => p0 | (p1, _) :: r => last_from p1 r end.
(* strictly increasing positive pressures *)
Definition increasing (rows : list row) : Prop :=
  match rows with [] => False | (p1, _) :: r => 0 < p1 /\ increasing_from p1 r end.
Definition last_pressure (rows : list row) : R :=
  match rows with [] => 0 | (p1, _) :: r => last_from p1 r end.
(* the calls the implementation answers (without interp_fill): 0 <= p <= highest data pressure *)
Definition sp_point_def (rows : list row) (p : R) : Prop := increasing rows /\ 0 <= p <= last_pressure rows.

(* ------------------------------------------------------------------ segment lemma *)
Lemma Chasles_R (f : R -> R) a b c l1 l2 : is_RInt f a b l1 -> is_RInt f b c l2 -> is_RInt f a c (l1 + l2).
Proof. exact (is_RInt_Chasles f a b c l1 l2). Qed.

Lemma affine_over_x_RInt s c a b : 0 < a -> a <= b ->
  is_RInt (fun x => (s * x + c) / x) a b (s * (b - a) + c * ln (b / a)).
Proof.
  intros Ha Hab.
  replace (s * (b - a) + c * ln (b / a)) with ((s * b + c * ln b) - (s * a + c * ln a)).
  2:{ unfold Rdiv. rewrite ln_mult, ln_Rinv by (try apply Rinv_0_lt_compat; lra). ring. }
  change ((s * b + c * ln b) - (s * a + c * ln a)) with (minus ((fun x => s * x + c * ln x) b) ((fun x => s * x + c * ln x) a)).
  apply (is_RInt_derive (fun x => s * x + c * ln x) (fun x => (s * x + c) / x)).
  - intros x Hx. rewrite Rmin_left, Rmax_right in Hx by lra. auto_derive; [lra|]. field; lra.
  - intros x Hx. rewrite Rmin_left, Rmax_right in Hx by lra.
    apply (ex_derive_continuous (fun x => (s * x + c) / x) x). auto_derive. lra.
Qed.

Lemma lin_affine p0 l0 p1 l1 x :
  lin p0 l0 p1 l1 x = (l1 - l0) / (p1 - p0) * x + (l0 - (l1 - l0) / (p1 - p0) * p0).
Proof. unfold lin. ring. Qed.

Lemma seg_is_RInt p0 l0 p1 l1 : 0 < p0 -> p0 <= p1 ->
  is_RInt (fun x => lin p0 l0 p1 l1 x / x) p0 p1 (seg p0 l0 p1 l1).
Proof.
  intros H0 H1. unfold seg; cbv zeta.
  apply (is_RInt_ext (fun x => ((l1 - l0) / (p1 - p0) * x + (l0 - (l1 - l0) / (p1 - p0) * p0)) / x)).
  - intros x _. now rewrite lin_affine.
  - apply affine_over_x_RInt; assumption.
Qed.

(* the last partial segment: the slope recomputed from loading_at(p) is the slope of the data segment *)
Lemma last_seg_is_RInt p0 l0 p1 l1 p : 0 < p0 -> p0 < p -> p0 < p1 ->
  is_RInt (fun x => lin p0 l0 p1 l1 x / x) p0 p (last_seg p0 l0 (lin p0 l0 p1 l1 p) p).
Proof.
  intros H0 H1 H2. unfold last_seg; cbv zeta.
  assert (E : (lin p0 l0 p1 l1 p - l0) / (p - p0) = (l1 - l0) / (p1 - p0)) by (unfold lin; field; lra).
  rewrite E.
  apply (is_RInt_ext (fun x => ((l1 - l0) / (p1 - p0) * x + (l0 - (l1 - l0) / (p1 - p0) * p0)) / x)).
  - intros x _. now rewrite lin_affine.
  - apply affine_over_x_RInt; lra.
Qed.

(* ------------------------------------------------------------------ induction over the rows *)
Lemma sp_from_is_RInt : forall rest p0 l0 p, 0 < p0 -> increasing_from p0 rest -> p0 < p <= last_from p0 rest ->
  is_RInt (fun x => interp_from p0 l0 rest x / x) p0 p (sp_from p0 l0 rest p).
Proof.
  induction rest as [|[p1 l1] rest IH]; intros p0 l0 p H0 Hinc Hp; simpl in *.
  - lra.
  - destruct Hinc as [H01 Hinc]. destruct (Rlt_dec p1 p) as [Hlt|Hge].
    + apply (Chasles_R _ p0 p1 p).
      * apply (is_RInt_ext (fun x => lin p0 l0 p1 l1 x / x)).
        -- intros x Hx. rewrite Rmin_left, Rmax_right in Hx by lra.
           destruct (Rle_dec x p1); [reflexivity | lra].
        -- apply seg_is_RInt; lra.
      * apply (is_RInt_ext (fun x => interp_from p1 l1 rest x / x)).
        -- intros x Hx. rewrite Rmin_left, Rmax_right in Hx by lra.
           destruct (Rle_dec x p1); [lra | reflexivity].
        -- apply IH; [lra | exact Hinc | lra].
    + apply (is_RInt_ext (fun x => lin p0 l0 p1 l1 x / x)).
      * intros x Hx. rewrite Rmin_left, Rmax_right in Hx by lra.
        destruct (Rle_dec x p1); [reflexivity | lra].
      * apply last_seg_is_RInt; lra.
Qed.

Lemma henry_head_is_RInt p1 l1 b : 0 < p1 -> 0 <= b ->
  is_RInt (fun x => l1 / p1 * x / x) 0 b (l1 / p1 * b).
Proof.
  intros H1 Hb.
  apply (is_RInt_ext (fun _ => l1 / p1)).
  - intros x Hx. rewrite Rmin_left, Rmax_right in Hx by lra. change (@eq R (l1 / p1) (l1 / p1 * x / x)). field; lra.
  - assert (E : l1 / p1 * b = scal (b - 0) (l1 / p1)) by (change (l1 / p1 * b = (b - 0) * (l1 / p1)); ring).
    rewrite E. apply (@is_RInt_const R_CompleteNormedModule).
Qed.

(* MAIN THEOREM: for any strictly increasing positive pressures and any 0 <= p <= highest pressure, the value computed by
   spreading_pressure_at is the integral from 0 to p of interpolant(x)/x *)
Theorem sp_point_is_RInt : forall rows p, sp_point_def rows p ->
  is_RInt (fun x => interp rows x / x) 0 p (sp_point rows p).
Proof.
  intros [|[p1 l1] rest] p [Hinc [Hp0 Hp]]; simpl in *; [tauto|].
  destruct Hinc as [H1 Hinc]. destruct (Rlt_dec p1 p) as [Hlt|Hge].
  - apply (Chasles_R _ 0 p1 p).
    + apply (is_RInt_ext (fun x => l1 / p1 * x / x)).
      * intros x Hx. rewrite Rmin_left, Rmax_right in Hx by lra. destruct (Rle_dec x p1); [reflexivity | lra].
      * assert (Hh : is_RInt (fun x => l1 / p1 * x / x) 0 p1 (l1 / p1 * p1)) by (apply henry_head_is_RInt; lra).
        replace (l1 / p1 * p1) with l1 in Hh by (field; lra). exact Hh.
    + apply (is_RInt_ext (fun x => interp_from p1 l1 rest x / x)).
      * intros x Hx. rewrite Rmin_left, Rmax_right in Hx by lra. destruct (Rle_dec x p1); [lra | reflexivity].
      * apply sp_from_is_RInt; [exact H1 | exact Hinc | lra].
  - apply (is_RInt_ext (fun x => l1 / p1 * x / x)).
    + intros x Hx. rewrite Rmin_left, Rmax_right in Hx by lra. destruct (Rle_dec x p1); [reflexivity | lra].
    + apply henry_head_is_RInt; lra.
Qed.

(* ------------------------------------------------------------------ consequences *)
Lemma sp_point_zero rows : increasing rows -> sp_point rows 0 = 0.
Proof.
  destruct rows as [|[p1 l1] rest]; simpl; [tauto|]. intros [H1 _].
  destruct (Rlt_dec p1 0); [lra | ring].
Qed.

Lemma sp_point_below_first p1 l1 rest p : p <= p1 -> sp_point ((p1, l1) :: rest) p = l1 / p1 * p.
Proof. intros H; simpl. destruct (Rlt_dec p1 p); [lra | reflexivity]. Qed.

(* additivity over pressure intervals: the difference of two values is the integral over the interval between them *)
Lemma sp_point_additive rows p q : sp_point_def rows p -> sp_point_def rows q -> p < q ->
  is_RInt (fun x => interp rows x / x) p q (sp_point rows q - sp_point rows p).
Proof.
  intros Hp Hq Hpq.
  destruct (Req_dec p 0) as [->|Hne].
  - rewrite sp_point_zero by (apply Hp). rewrite Rminus_0_r. apply sp_point_is_RInt; assumption.
  - change (sp_point rows q - sp_point rows p) with (minus (sp_point rows q) (sp_point rows p)).
    apply (is_RInt_Chasles_2 (fun x => interp rows x / x) 0 p q).
    + destruct Hp as [_ [H0 _]]. lra.
    + apply sp_point_is_RInt; assumption.
    + apply sp_point_is_RInt; assumption.
Qed.

(* the hypotheses are satisfiable, and the model computes: two rows, a query inside the data range *)
Example sp_point_example : sp_point_def [(1, 2); (2, 3)] (3 / 2) /\
  sp_point [(1, 2); (2, 3)] (3 / 2) = 2 + ((lin 1 2 2 3 (3/2) - 2) / (3/2 - 1) * (3/2 - 1) + (2 - (lin 1 2 2 3 (3/2) - 2) / (3/2 - 1) * 1) * ln (3/2 / 1)).
Proof.
  split.
  - unfold sp_point_def; simpl. lra.
  - simpl. destruct (Rlt_dec 1 (3/2)); [|lra]. destruct (Rlt_dec 2 (3/2)); [lra|]. unfold last_seg. reflexivity.
Qed.

(* unfolding steps used by the correspondence goals (Models/EvalTac.v) *)
Lemma sp_point_head_lt p1 l1 rest p : p1 < p -> sp_point ((p1, l1) :: rest) p = l1 + sp_from p1 l1 rest p.
Proof. intros H; simpl. destruct (Rlt_dec p1 p); [reflexivity | contradiction]. Qed.
Lemma sp_from_step_lt p0 l0 p1 l1 rest p : p1 < p ->
  sp_from p0 l0 ((p1, l1) :: rest) p = seg p0 l0 p1 l1 + sp_from p1 l1 rest p.
Proof. intros H; simpl. destruct (Rlt_dec p1 p); [reflexivity | contradiction]. Qed.
Lemma sp_from_step_ge p0 l0 p1 l1 rest p : p <= p1 ->
  sp_from p0 l0 ((p1, l1) :: rest) p = last_seg p0 l0 (lin p0 l0 p1 l1 p) p.
Proof. intros H; simpl. destruct (Rlt_dec p1 p); [lra | reflexivity]. Qed.

(* ------------------------------------------------------------------ the CALL with its range guard
   pointisotherm.py (after fix 797ce8e):
       if interp_fill is None and pressure > pressures.max(): raise CalculationError(...)
   The guard reads the rows and the argument only (no cached interpolator): the outcome of a call without interp_fill is a
   FUNCTION of (rows, p) - the same on a fresh isotherm and on one that has answered other calls before (the harness runs both). *)
Inductive outcome : Type := Value (v : R) | CalculationError.

Fixpoint max_from (p0 : R) (rest : list row) : R :=
  match rest with [] => p0 | (p1, _) :: r => max_from (Rmax p0 p1) r end.
(* pressures.max() *)
Definition max_pressure (rows : list row) : R :=
  match rows with [] => 0 | (p1, _) :: r => max_from p1 r end.

Definition sp_point_at (rows : list row) (p : R) : outcome :=
  if Rlt_dec (max_pressure rows) p then CalculationError else Value (sp_point rows p).

Lemma max_from_increasing : forall rest p0, increasing_from p0 rest -> max_from p0 rest = last_from p0 rest.
Proof.
  induction rest as [|[p1 l1] rest IH]; intros p0 H; simpl in *; [reflexivity|].
  destruct H as [H01 H]. rewrite Rmax_right by lra. apply IH; exact H.
Qed.

Lemma max_pressure_increasing rows : increasing rows -> max_pressure rows = last_pressure rows.
Proof. destruct rows as [|[p1 l1] rest]; simpl; [tauto|]. intros [_ H]. apply max_from_increasing; exact H. Qed.

(* above the highest data pressure: always refused with CalculationError *)
Lemma sp_point_at_above rows p : increasing rows -> last_pressure rows < p -> sp_point_at rows p = CalculationError.
Proof.
  intros Hinc Hp. unfold sp_point_at. rewrite (max_pressure_increasing rows Hinc).
  destruct (Rlt_dec (last_pressure rows) p); [reflexivity | contradiction].
Qed.

(* up to and including the highest data pressure: always answered, with the value of sp_point *)
Lemma sp_point_at_value rows p : increasing rows -> p <= last_pressure rows -> sp_point_at rows p = Value (sp_point rows p).
Proof.
  intros Hinc Hp. unfold sp_point_at. rewrite (max_pressure_increasing rows Hinc).
  destruct (Rlt_dec (last_pressure rows) p); [lra | reflexivity].
Qed.

(* the call answers exactly on [.., highest pressure] *)
Lemma sp_point_at_answers_iff rows p : increasing rows ->
  (exists v, sp_point_at rows p = Value v) <-> p <= last_pressure rows.
Proof.
  intros Hinc. split.
  - intros [v Hv]. destruct (Rle_lt_dec p (last_pressure rows)) as [H|H]; [exact H|].
    rewrite (sp_point_at_above rows p Hinc H) in Hv. discriminate.
  - intros H. exists (sp_point rows p). apply sp_point_at_value; assumption.
Qed.

(* MAIN THEOREM for the call: whenever 0 <= p, the call either refuses (exactly when p is above the data) or returns
   the integral from 0 to p of interpolant(x)/x *)
Theorem sp_point_at_spec rows p : increasing rows -> 0 <= p ->
  (last_pressure rows < p /\ sp_point_at rows p = CalculationError) \/
  (p <= last_pressure rows /\ exists v, sp_point_at rows p = Value v /\ is_RInt (fun x => interp rows x / x) 0 p v).
Proof.
  intros Hinc Hp. destruct (Rle_lt_dec p (last_pressure rows)) as [H|H].
  - right. split; [exact H|]. exists (sp_point rows p). split; [apply sp_point_at_value; assumption|].
    apply sp_point_is_RInt. split; [exact Hinc | lra].
  - left. split; [exact H | apply sp_point_at_above; assumption].
Qed.

(* below (or at) the first data point: ALWAYS the Henry value - never refused *)
Lemma last_from_ge : forall rest p0, increasing_from p0 rest -> p0 <= last_from p0 rest.
Proof.
  induction rest as [|[p1 l1] rest IH]; intros p0 H; simpl in *; [lra|].
  destruct H as [H01 H]. specialize (IH p1 H). lra.
Qed.

Lemma sp_point_at_below_first p1 l1 rest p : increasing ((p1, l1) :: rest) -> p <= p1 ->
  sp_point_at ((p1, l1) :: rest) p = Value (l1 / p1 * p).
Proof.
  intros Hinc Hp. rewrite sp_point_at_value; [rewrite sp_point_below_first by exact Hp; reflexivity | exact Hinc |].
  simpl in *. destruct Hinc as [_ H]. pose proof (last_from_ge rest p1 H). lra.
Qed.

Example sp_point_at_example :
  sp_point_at [(1, 2); (2, 3)] (5 / 2) = CalculationError /\ sp_point_at [(1, 2); (2, 3)] (1 / 2) = Value (2 / 1 * (1 / 2)).
Proof.
  assert (Hinc : increasing [(1, 2); (2, 3)]) by (simpl; lra).
  split.
  - apply sp_point_at_above; [exact Hinc | simpl; lra].
  - apply sp_point_at_below_first; [exact Hinc | lra].
Qed.
