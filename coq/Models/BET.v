(* BET: n(p) = n_m C p / ((1 - N p) (1 - N p + C p)), validity range 0 <= p, N p < 1.
   Proofs about the GENERATED definitions of Gen/FormulasGen.v. *)
From Coq Require Import Reals Lra Psatz.
From Coquelicot Require Import Coquelicot.
From PG Require Import Models.PyReal Models.Common Gen.FormulasGen.
Open Scope R_scope.

(* ---------------- auxiliary facts *)
Lemma BET_den_pos C N p : 0 <= C -> 0 <= p -> N * p < 1 ->
  0 < 1 - N * p /\ 0 < 1 - N * p + C * p /\ 0 < (1 - N * p) * (1 - N * p + C * p).
Proof.
  intros HC Hp HN. assert (0 <= C * p) by (apply Rmult_le_pos; lra).
  repeat split; try lra. apply Rmult_lt_0_compat; lra.
Qed.

(* N (N - C) p q < 1 on the validity range *)
Lemma BET_cross C N p q : 0 <= C -> 0 <= N -> 0 <= p -> p <= q -> N * q < 1 -> N * (N - C) * p * q < 1.
Proof.
  intros HC HN Hp Hpq Hq.
  assert (0 <= N * p) by (apply Rmult_le_pos; lra).
  assert (N * p <= N * q) by (apply Rmult_le_compat_l; lra).
  assert (0 <= (N * p) * (C * q)) by (apply Rmult_le_pos; [lra | apply Rmult_le_pos; lra]).
  assert ((N * p) * (N * q) < 1) by nra.
  replace (N * (N - C) * p * q) with ((N * p) * (N * q) - (N * p) * (C * q)) by ring. lra.
Qed.

(* every positive loading n that satisfies the model equation at p is a root of the quadratic the code solves,
   and p lies on the left of the vertex (minus root) *)
Lemma BET_quad n_m C N p n : 0 <= C -> 0 <= N -> 0 < p -> N * p < 1 -> 0 < n ->
  n * ((1 - N * p) * (1 - N * p + C * p)) = n_m * C * p ->
  (n * N * (N - C)) * p ^ 2 + (n * C - 2 * n * N - n_m * C) * p + n = 0 /\
  2 * (n * N * (N - C)) * p + (n * C - 2 * n * N - n_m * C) < 0.
Proof.
  intros HC HN Hp HNp Hn E.
  assert (Hq : (n * N * (N - C)) * p ^ 2 + (n * C - 2 * n * N - n_m * C) * p + n = 0).
  { replace ((n * N * (N - C)) * p ^ 2 + (n * C - 2 * n * N - n_m * C) * p + n)
      with (n * ((1 - N * p) * (1 - N * p + C * p)) - n_m * C * p) by ring. lra. }
  split; [exact Hq|].
  assert (Hc : N * (N - C) * p * p < 1) by (apply BET_cross; lra).
  assert (Hm : (2 * (n * N * (N - C)) * p + (n * C - 2 * n * N - n_m * C)) * p = n * (N * (N - C) * p * p - 1)).
  { replace ((2 * (n * N * (N - C)) * p + (n * C - 2 * n * N - n_m * C)) * p)
      with (((n * N * (N - C)) * p ^ 2 + (n * C - 2 * n * N - n_m * C) * p + n) + n * (N * (N - C) * p * p - 1)) by ring.
    rewrite Hq. ring. }
  assert (n * (N * (N - C) * p * p - 1) < 0) by nra.
  nra.
Qed.

Lemma BET_loading_pos n_m C N p : 0 < n_m -> 0 < C -> 0 < p -> N * p < 1 -> 0 < BET_loading n_m C N p.
Proof.
  intros Hn HC Hp HN. unfold BET_loading; cbv zeta.
  destruct (BET_den_pos C N p) as [Ha [Hb Hab]]; try lra.
  apply Rdiv_lt_0_compat; [|exact Hab]. apply Rmult_lt_0_compat; [apply Rmult_lt_0_compat|]; lra.
Qed.

Lemma BET_loading_eq n_m C N p : 0 <= C -> 0 <= p -> N * p < 1 ->
  BET_loading n_m C N p * ((1 - N * p) * (1 - N * p + C * p)) = n_m * C * p.
Proof.
  intros HC Hp HN. unfold BET_loading; cbv zeta.
  destruct (BET_den_pos C N p) as [Ha [Hb Hab]]; try lra.
  field. split; lra.
Qed.

(* the pressure formula applied to any positive loading n that the model attains at p returns p *)
Lemma BET_pressure_of_root n_m C N p n : 0 <= C -> 0 < N -> N <> C -> 0 < p -> N * p < 1 -> 0 < n ->
  n * ((1 - N * p) * (1 - N * p + C * p)) = n_m * C * p ->
  BET_pressure_def n_m C N n /\ BET_pressure n_m C N n = p.
Proof.
  intros HC HN HNC Hp HNp Hn E.
  destruct (BET_quad n_m C N p n) as [Hq Hs]; try lra.
  assert (Hx : n * N * (N - C) <> 0).
  { apply Rmult_integral_contrapositive_currified; [apply Rmult_integral_contrapositive_currified|]; lra. }
  unfold BET_pressure_def, BET_pressure; cbv zeta.
  rewrite (quad_disc _ _ _ p Hq).
  repeat split.
  - apply pow2_ge_0.
  - left. lra.
  - rewrite <- (quad_disc _ _ _ p Hq). rewrite nan_div_nz by lra.
    apply quad_root_minus; [exact Hx | exact Hq | lra].
Qed.

(* ---------------- C10 *)
Lemma BET_inverse_lp n_m C N p : BET_bounds n_m C N -> 0 < n_m -> 0 < C -> 0 < N -> N <> C -> 0 < p -> N * p < 1 ->
  BET_loading_def n_m C N p /\ BET_pressure_def n_m C N (BET_loading n_m C N p) /\
  BET_pressure n_m C N (BET_loading n_m C N p) = p.
Proof.
  intros _ Hn HC HN HNC Hp HNp.
  destruct (BET_den_pos C N p) as [Ha [Hb Hab]]; try lra.
  split.
  - unfold BET_loading_def; cbv zeta. lra.
  - apply BET_pressure_of_root; try lra.
    + apply BET_loading_pos; lra.
    + apply BET_loading_eq; lra.
Qed.

(* covers every loading in the image of the validity range {p | 0 < p, N p < 1};
   surjectivity of the loading onto (0, +inf) is not proved here *)
Lemma BET_inverse_pl_partial n_m C N p : BET_bounds n_m C N -> 0 < n_m -> 0 < C -> 0 < N -> N <> C -> 0 < p -> N * p < 1 ->
  let n := BET_loading n_m C N p in
  BET_pressure_def n_m C N n /\ BET_loading_def n_m C N (BET_pressure n_m C N n) /\
  BET_loading n_m C N (BET_pressure n_m C N n) = n.
Proof.
  intros Hb Hn HC HN HNC Hp HNp n.
  destruct (BET_inverse_lp n_m C N p Hb Hn HC HN HNC Hp HNp) as [H1 [H2 H3]].
  unfold n. rewrite H3. split; [exact H2 | split; [exact H1 | reflexivity]].
Qed.

Lemma BET_sqrt_sq_neg y : y <= 0 -> - y - sqrt (y ^ 2 - 0) = 0.
Proof.
  intros H. rewrite Rminus_0_r. replace (y ^ 2) with ((- y) ^ 2) by ring.
  rewrite <- Rsqr_pow2, sqrt_Rsqr by lra. ring.
Qed.

(* zero loading: x = 0, y = - n_m C, numerator 0: the 0/0 is turned into 0 by nan_to_num *)
Lemma BET_zero_point n_m C N : 0 <= n_m -> 0 <= C ->
  BET_pressure n_m C N 0 = 0 /\ BET_pressure_def n_m C N 0.
Proof.
  intros Hn HC. assert (0 <= n_m * C) by (apply Rmult_le_pos; lra).
  unfold BET_pressure, BET_pressure_def; cbv zeta.
  replace (2 * (0 * N * (N - C))) with 0 by ring.
  replace (4 * (0 * N * (N - C)) * 0) with 0 by ring.
  split; [apply nan_div_0|]. repeat split.
  - rewrite Rminus_0_r. apply pow2_ge_0.
  - right. apply BET_sqrt_sq_neg. lra.
Qed.

(* C = N (inside the parameter bounds): x = 0 and the formula returns 0 for EVERY loading *)
Lemma BET_pressure_C_eq_N n_m C N n : C = N -> 0 <= n -> 0 <= n_m -> 0 <= C ->
  BET_pressure_def n_m C N n /\ BET_pressure n_m C N n = 0.
Proof.
  intros E Hl Hn HC. subst N.
  assert (0 <= n_m * C) by (apply Rmult_le_pos; lra).
  assert (0 <= n * C) by (apply Rmult_le_pos; lra).
  unfold BET_pressure, BET_pressure_def; cbv zeta.
  replace (2 * (n * C * (C - C))) with 0 by ring.
  replace (4 * (n * C * (C - C)) * n) with 0 by ring.
  split; [|apply nan_div_0]. repeat split.
  - rewrite Rminus_0_r. apply pow2_ge_0.
  - right. apply BET_sqrt_sq_neg. lra.
Qed.

Lemma BET_pressure_C_eq_N_refuted : exists n_m C N n p,
  BET_bounds n_m C N /\ 0 < p /\ N * p < 1 /\ n = BET_loading n_m C N p /\ BET_pressure n_m C N n = 0 /\ p <> 0.
Proof.
  exists 5, (1/2), (1/2), (BET_loading 5 (1/2) (1/2) 1), 1.
  unfold BET_bounds. repeat split; try lra.
  apply BET_pressure_C_eq_N; try lra.
  left. apply BET_loading_pos; lra.
Qed.

Lemma BET_zero n_m C N : BET_loading n_m C N 0 = 0.
Proof. unfold BET_loading; cbv zeta. rewrite !Rmult_0_r. unfold Rdiv. rewrite Rmult_0_l. reflexivity. Qed.

Lemma BET_nonneg n_m C N p : BET_bounds n_m C N -> 0 <= p -> N * p < 1 -> 0 <= BET_loading n_m C N p.
Proof.
  unfold BET_bounds, BET_loading. intros [Hn [HC [HN _]]] Hp HNp; cbv zeta.
  destruct (BET_den_pos C N p) as [Ha [Hb Hab]]; try lra.
  apply Rmult_le_pos; [apply Rmult_le_pos; [apply Rmult_le_pos|]; lra | left; apply Rinv_0_lt_compat; lra].
Qed.

Lemma BET_diff n_m C N p q : 0 <= C -> 0 <= N -> 0 <= p -> p <= q -> N * q < 1 ->
  BET_loading n_m C N q - BET_loading n_m C N p =
  n_m * C * (q - p) * (1 - N * (N - C) * p * q) /
  (((1 - N * q) * (1 - N * q + C * q)) * ((1 - N * p) * (1 - N * p + C * p))) /\
  0 < ((1 - N * q) * (1 - N * q + C * q)) * ((1 - N * p) * (1 - N * p + C * p)).
Proof.
  intros HC HN Hp Hpq HNq.
  assert (N * p <= N * q) by (apply Rmult_le_compat_l; lra).
  destruct (BET_den_pos C N p) as [Ha [Hb Hab]]; try lra.
  destruct (BET_den_pos C N q) as [Ha' [Hb' Hab']]; try lra.
  split; [|apply Rmult_lt_0_compat; lra].
  unfold BET_loading; cbv zeta. field. repeat split; lra.
Qed.

Lemma BET_monotone n_m C N p q : BET_bounds n_m C N -> 0 <= p -> p <= q -> N * q < 1 ->
  BET_loading n_m C N p <= BET_loading n_m C N q.
Proof.
  intros [Hn [HC [HN _]]] Hp Hpq HNq.
  destruct (BET_diff n_m C N p q) as [E Hd]; try lra.
  assert (Hc := BET_cross C N p q HC HN Hp Hpq HNq).
  assert (0 <= n_m * C * (q - p) * (1 - N * (N - C) * p * q) /
    (((1 - N * q) * (1 - N * q + C * q)) * ((1 - N * p) * (1 - N * p + C * p)))).
  { apply Rmult_le_pos; [|left; apply Rinv_0_lt_compat; exact Hd].
    apply Rmult_le_pos; [apply Rmult_le_pos; [apply Rmult_le_pos|]|]; lra. }
  lra.
Qed.

Lemma BET_strictly_monotone n_m C N p q : 0 < n_m -> 0 < C -> 0 <= N -> 0 <= p -> p < q -> N * q < 1 ->
  BET_loading n_m C N p < BET_loading n_m C N q.
Proof.
  intros Hn HC HN Hp Hpq HNq.
  destruct (BET_diff n_m C N p q) as [E Hd]; try lra.
  assert (Hc : N * (N - C) * p * q < 1) by (apply BET_cross; lra).
  assert (0 < n_m * C * (q - p) * (1 - N * (N - C) * p * q) /
    (((1 - N * q) * (1 - N * q + C * q)) * ((1 - N * p) * (1 - N * p + C * p)))).
  { apply Rdiv_lt_0_compat; [|exact Hd].
    apply Rmult_lt_0_compat; [apply Rmult_lt_0_compat; [apply Rmult_lt_0_compat|]|]; lra. }
  lra.
Qed.

(* Henry slope: the derivative of the loading at zero pressure is n_m C *)
Lemma BET_henry n_m C N : is_derive (BET_loading n_m C N) 0 (n_m * C).
Proof.
  unfold BET_loading; cbv zeta. auto_derive.
  - rewrite !Rmult_0_r. lra.
  - rewrite !Rmult_0_r. field.
Qed.

(* ---------------- C11 *)
Lemma BET_gibbs n_m C N p : 0 <= N -> 0 <= C -> 0 < p -> N * p < 1 ->
  BET_spreading_pressure_def n_m C N p /\
  is_derive (BET_spreading_pressure n_m C N) p (BET_loading n_m C N p / p).
Proof.
  intros HN HC Hp HNp.
  destruct (BET_den_pos C N p) as [Ha [Hb Hab]]; try lra.
  assert (Hq : 0 < (1 - N * p + C * p) / (1 - N * p)) by (apply Rdiv_lt_0_compat; lra).
  unfold BET_spreading_pressure_def, BET_spreading_pressure, BET_loading; cbv zeta. split; [split; lra|].
  auto_derive; [split; [lra|]; split; [apply Rmult_lt_0_compat; [lra | apply Rinv_0_lt_compat; lra] | exact I]|]. field. repeat split; lra.
Qed.

Lemma BET_spread_zero n_m C N : BET_spreading_pressure n_m C N 0 = 0.
Proof.
  unfold BET_spreading_pressure; cbv zeta. rewrite !Rmult_0_r, Rminus_0_r, Rplus_0_r.
  replace (1 / 1) with 1 by field. rewrite ln_1. ring.
Qed.

Lemma BET_spread_derive n_m C N x : 0 <= C -> 0 <= x -> N * x < 1 ->
  is_derive (BET_spreading_pressure n_m C N) x (n_m * C / ((1 - N * x) * (1 - N * x + C * x))).
Proof.
  intros HC Hx HNx.
  destruct (BET_den_pos C N x) as [Ha [Hb Hab]]; try lra.
  assert (Hq : 0 < (1 - N * x + C * x) / (1 - N * x)) by (apply Rdiv_lt_0_compat; lra).
  unfold BET_spreading_pressure; cbv zeta.
  auto_derive; [split; [lra|]; split; [apply Rmult_lt_0_compat; [lra | apply Rinv_0_lt_compat; lra] | exact I]|]. field. repeat split; lra.
Qed.

(* integral form: the integrand n(x)/x is singular as an expression at 0 only *)
Lemma BET_spread_is_RInt n_m C N a p : 0 <= N -> 0 <= C -> 0 <= a -> a <= p -> N * p < 1 ->
  is_RInt (fun x => BET_loading n_m C N x / x) a p
          (BET_spreading_pressure n_m C N p - BET_spreading_pressure n_m C N a).
Proof.
  intros HN HC Ha Hap HNp.
  apply (RInt_from_derivative (BET_spreading_pressure n_m C N) _
           (fun x => n_m * C / ((1 - N * x) * (1 - N * x + C * x)))); [exact Hap| | |].
  - intros x Hx. assert (N * x <= N * p) by (apply Rmult_le_compat_l; lra).
    apply BET_spread_derive; lra.
  - intros x Hx. assert (N * x <= N * p) by (apply Rmult_le_compat_l; lra).
    destruct (BET_den_pos C N x) as [Ha' [Hb' Hab']]; try lra.
    apply (ex_derive_continuous (fun x => n_m * C / ((1 - N * x) * (1 - N * x + C * x))) x). auto_derive. lra.
  - intros x Hx. assert (N * x <= N * p) by (apply Rmult_le_compat_l; lra).
    destruct (BET_den_pos C N x) as [Ha' [Hb' Hab']]; try lra.
    unfold BET_loading; cbv zeta. field. repeat split; lra.
Qed.

Lemma BET_spread_from_zero n_m C N p : 0 <= N -> 0 <= C -> 0 <= p -> N * p < 1 ->
  is_RInt (fun x => BET_loading n_m C N x / x) 0 p (BET_spreading_pressure n_m C N p).
Proof.
  intros HN HC Hp HNp. generalize (BET_spread_is_RInt n_m C N 0 p HN HC (Rle_refl 0) Hp HNp).
  rewrite BET_spread_zero, Rminus_0_r. exact (fun H => H).
Qed.

Lemma BET_spread_incr n_m C N p q : BET_bounds n_m C N -> 0 <= p -> p <= q -> N * q < 1 ->
  BET_spreading_pressure n_m C N p <= BET_spreading_pressure n_m C N q.
Proof.
  intros [Hn [HC [HN _]]] Hp Hpq HNq.
  apply (incr_from_derivative (BET_spreading_pressure n_m C N)
           (fun x => n_m * C / ((1 - N * x) * (1 - N * x + C * x))) 0 q); try lra.
  - intros x Hx. assert (N * x <= N * q) by (apply Rmult_le_compat_l; lra).
    apply BET_spread_derive; lra.
  - intros x Hx. assert (N * x <= N * q) by (apply Rmult_le_compat_l; lra).
    destruct (BET_den_pos C N x) as [Ha' [Hb' Hab']]; try lra.
    apply Rmult_le_pos; [apply Rmult_le_pos; lra | left; apply Rinv_0_lt_compat; lra].
Qed.

(* the hypotheses of the main theorems are satisfiable *)
Example BET_inverse_example : BET_pressure 5 2 (1/2) (BET_loading 5 2 (1/2) 1) = 1.
Proof. apply BET_inverse_lp; unfold BET_bounds; lra. Qed.
