(* Quadratic: n(p) = n_m (Ka + 2 Kb p) p / (1 + Ka p + Kb p^2).
   Proofs about the GENERATED definitions of Gen/FormulasGen.v.
   The library bounds only state 0 <= n_m; the property excludes negative constants, so the lemmas carry
   0 <= Ka, 0 <= Kb (or 0 < Kb) explicitly. *)
From Coq Require Import Reals Lra Psatz.
From Coquelicot Require Import Coquelicot.
From PG Require Import Models.PyReal Models.Common Gen.FormulasGen.
Open Scope R_scope.

(* ---------------- auxiliary facts *)
Lemma Quadratic_den_pos Ka Kb p : 0 <= Ka -> 0 <= Kb -> 0 <= p -> 0 < 1 + Ka * p + Kb * p ^ 2.
Proof.
  intros HKa HKb Hp. assert (0 <= Ka * p) by (apply Rmult_le_pos; lra).
  assert (0 <= Kb * p ^ 2) by (apply Rmult_le_pos; [lra | apply pow2_ge_0]). lra.
Qed.

Lemma Quadratic_loading_eq n_m Ka Kb p : 0 <= Ka -> 0 <= Kb -> 0 <= p ->
  Quadratic_loading n_m Ka Kb p * (1 + Ka * p + Kb * p ^ 2) = n_m * (Ka + 2 * Kb * p) * p.
Proof.
  intros HKa HKb Hp. assert (Hd := Quadratic_den_pos Ka Kb p HKa HKb Hp).
  unfold Quadratic_loading; cbv zeta. field. lra.
Qed.

Lemma Quadratic_loading_pos n_m Ka Kb p : 0 < n_m -> 0 <= Ka -> 0 < Kb -> 0 < p -> 0 < Quadratic_loading n_m Ka Kb p.
Proof.
  intros Hn HKa HKb Hp. assert (Hd : 0 < 1 + Ka * p + Kb * p ^ 2) by (apply Quadratic_den_pos; lra).
  assert (0 <= Ka * p) by (apply Rmult_le_pos; lra).
  assert (0 < Kb * p) by (apply Rmult_lt_0_compat; lra).
  unfold Quadratic_loading; cbv zeta.
  apply Rdiv_lt_0_compat; [|exact Hd]. apply Rmult_lt_0_compat; [apply Rmult_lt_0_compat|]; lra.
Qed.

Lemma Quadratic_saturation n_m Ka Kb p : Quadratic_bounds n_m Ka Kb -> 0 < n_m -> 0 <= Ka -> 0 <= Kb -> 0 <= p ->
  Quadratic_loading n_m Ka Kb p < 2 * n_m.
Proof.
  intros _ Hn HKa HKb Hp. assert (Hd := Quadratic_den_pos Ka Kb p HKa HKb Hp).
  assert (0 <= Ka * p) by (apply Rmult_le_pos; lra).
  assert (E : 2 * n_m - Quadratic_loading n_m Ka Kb p = n_m * (2 + Ka * p) / (1 + Ka * p + Kb * p ^ 2)).
  { unfold Quadratic_loading; cbv zeta. field. lra. }
  assert (0 < n_m * (2 + Ka * p) / (1 + Ka * p + Kb * p ^ 2)).
  { apply Rdiv_lt_0_compat; [apply Rmult_lt_0_compat; lra | exact Hd]. }
  lra.
Qed.

(* every loading 0 < n < 2 n_m that satisfies the model equation at p is a root of the quadratic the code solves,
   and p lies on the side of the vertex the minus root selects *)
Lemma Quadratic_quad n_m Ka Kb p n : 0 < Kb -> 0 < p -> 0 < n -> n < 2 * n_m ->
  n * (1 + Ka * p + Kb * p ^ 2) = n_m * (Ka + 2 * Kb * p) * p ->
  ((n - 2 * n_m) * Kb) * p ^ 2 + ((n - n_m) * Ka) * p + n = 0 /\
  2 * ((n - 2 * n_m) * Kb) * p + (n - n_m) * Ka < 0.
Proof.
  intros HKb Hp Hn Hn2 E.
  assert (Hq : ((n - 2 * n_m) * Kb) * p ^ 2 + ((n - n_m) * Ka) * p + n = 0).
  { replace (((n - 2 * n_m) * Kb) * p ^ 2 + ((n - n_m) * Ka) * p + n)
      with (n * (1 + Ka * p + Kb * p ^ 2) - n_m * (Ka + 2 * Kb * p) * p) by ring. lra. }
  split; [exact Hq|].
  assert (Hm : (2 * ((n - 2 * n_m) * Kb) * p + (n - n_m) * Ka) * p = ((n - 2 * n_m) * Kb) * p ^ 2 - n).
  { replace ((2 * ((n - 2 * n_m) * Kb) * p + (n - n_m) * Ka) * p)
      with ((((n - 2 * n_m) * Kb) * p ^ 2 + ((n - n_m) * Ka) * p + n) + (((n - 2 * n_m) * Kb) * p ^ 2 - n)) by ring.
    rewrite Hq. ring. }
  assert (0 < (2 * n_m - n) * Kb * p ^ 2).
  { apply Rmult_lt_0_compat; [apply Rmult_lt_0_compat; lra | apply pow_lt; lra]. }
  assert (((n - 2 * n_m) * Kb) * p ^ 2 - n < 0) by lra.
  nra.
Qed.

Lemma Quadratic_pressure_of_root n_m Ka Kb p n : 0 < Kb -> 0 < p -> 0 < n -> n < 2 * n_m ->
  n * (1 + Ka * p + Kb * p ^ 2) = n_m * (Ka + 2 * Kb * p) * p ->
  Quadratic_pressure_def n_m Ka Kb n /\ Quadratic_pressure n_m Ka Kb n = p.
Proof.
  intros HKb Hp Hn Hn2 E.
  destruct (Quadratic_quad n_m Ka Kb p n) as [Hq Hs]; try lra.
  assert (Hx : (n - 2 * n_m) * Kb <> 0) by (apply Rmult_integral_contrapositive_currified; lra).
  unfold Quadratic_pressure_def, Quadratic_pressure; cbv zeta.
  rewrite (quad_disc _ _ _ p Hq).
  repeat split.
  - apply pow2_ge_0.
  - left. lra.
  - rewrite <- (quad_disc _ _ _ p Hq). rewrite nan_div_nz by lra.
    apply quad_root_minus; [exact Hx | exact Hq | lra].
Qed.

(* ---------------- C10 *)
Lemma Quadratic_inverse_lp n_m Ka Kb p : Quadratic_bounds n_m Ka Kb -> 0 < n_m -> 0 <= Ka -> 0 < Kb -> 0 < p ->
  Quadratic_loading_def n_m Ka Kb p /\ Quadratic_pressure_def n_m Ka Kb (Quadratic_loading n_m Ka Kb p) /\
  Quadratic_pressure n_m Ka Kb (Quadratic_loading n_m Ka Kb p) = p.
Proof.
  intros Hb Hn HKa HKb Hp.
  assert (Hd : 0 < 1 + Ka * p + Kb * p ^ 2) by (apply Quadratic_den_pos; lra).
  split.
  - unfold Quadratic_loading_def; cbv zeta. lra.
  - apply Quadratic_pressure_of_root; try lra.
    + apply Quadratic_loading_pos; lra.
    + apply Quadratic_saturation; try lra. exact Hb.
    + apply Quadratic_loading_eq; lra.
Qed.

(* covers every loading in the image of {p | 0 < p}; surjectivity of the loading onto (0, 2 n_m) is not proved here *)
Lemma Quadratic_inverse_pl_partial n_m Ka Kb p : Quadratic_bounds n_m Ka Kb -> 0 < n_m -> 0 <= Ka -> 0 < Kb -> 0 < p ->
  let n := Quadratic_loading n_m Ka Kb p in
  Quadratic_pressure_def n_m Ka Kb n /\ Quadratic_loading_def n_m Ka Kb (Quadratic_pressure n_m Ka Kb n) /\
  Quadratic_loading n_m Ka Kb (Quadratic_pressure n_m Ka Kb n) = n.
Proof.
  intros Hb Hn HKa HKb Hp n.
  destruct (Quadratic_inverse_lp n_m Ka Kb p Hb Hn HKa HKb Hp) as [H1 [H2 H3]].
  unfold n. rewrite H3. split; [exact H2 | split; [exact H1 | reflexivity]].
Qed.

Lemma Quadratic_sqrt_sq_neg y : y <= 0 -> - y - sqrt (y ^ 2 - 0) = 0.
Proof.
  intros H. rewrite Rminus_0_r. replace (y ^ 2) with ((- y) ^ 2) by ring.
  rewrite <- Rsqr_pow2, sqrt_Rsqr by lra. ring.
Qed.

(* zero loading: x = - 2 n_m Kb <> 0, y = - n_m Ka <= 0: (- y - |y|) / (2 x) = 0 *)
Lemma Quadratic_zero_point n_m Ka Kb : 0 < n_m -> 0 <= Ka -> Kb <> 0 ->
  Quadratic_pressure n_m Ka Kb 0 = 0 /\ Quadratic_pressure_def n_m Ka Kb 0.
Proof.
  intros Hn HKa HKb. assert (0 <= n_m * Ka) by (apply Rmult_le_pos; lra).
  assert (Hx : 2 * ((0 - 2 * n_m) * Kb) <> 0).
  { apply Rmult_integral_contrapositive_currified; [lra|]. apply Rmult_integral_contrapositive_currified; lra. }
  unfold Quadratic_pressure, Quadratic_pressure_def; cbv zeta.
  replace (4 * ((0 - 2 * n_m) * Kb) * 0) with 0 by ring.
  split.
  - rewrite nan_div_nz by exact Hx. rewrite Quadratic_sqrt_sq_neg by lra. unfold Rdiv. apply Rmult_0_l.
  - repeat split; [rewrite Rminus_0_r; apply pow2_ge_0 | left; exact Hx].
Qed.

(* with a NEGATIVE Ka (allowed by the library bounds) zero loading is mapped to - Ka / (2 Kb), not to 0 *)
Lemma Quadratic_zero_point_negKa n_m Ka Kb : 0 < n_m -> Ka <= 0 -> Kb <> 0 ->
  Quadratic_pressure_def n_m Ka Kb 0 /\ Quadratic_pressure n_m Ka Kb 0 = - Ka / (2 * Kb).
Proof.
  intros Hn HKa HKb.
  assert (Hx : 2 * ((0 - 2 * n_m) * Kb) <> 0).
  { apply Rmult_integral_contrapositive_currified; [lra|]. apply Rmult_integral_contrapositive_currified; lra. }
  unfold Quadratic_pressure, Quadratic_pressure_def; cbv zeta.
  replace (4 * ((0 - 2 * n_m) * Kb) * 0) with 0 by ring.
  split.
  - repeat split; [rewrite Rminus_0_r; apply pow2_ge_0 | left; exact Hx].
  - rewrite nan_div_nz by exact Hx. rewrite Rminus_0_r.
    assert (0 <= (0 - n_m) * Ka) by nra.
    rewrite <- Rsqr_pow2, sqrt_Rsqr by lra. field. split; lra.
Qed.

(* Kb = 0 (the model is then a Langmuir isotherm): x = 0 and the formula returns 0 for every loading n <= n_m *)
Lemma Quadratic_pressure_Kb_eq_0 n_m Ka n : 0 <= Ka -> n <= n_m ->
  Quadratic_pressure_def n_m Ka 0 n /\ Quadratic_pressure n_m Ka 0 n = 0.
Proof.
  intros HKa Hn. assert ((n - n_m) * Ka <= 0) by nra.
  unfold Quadratic_pressure, Quadratic_pressure_def; cbv zeta.
  replace (2 * ((n - 2 * n_m) * 0)) with 0 by ring.
  replace (4 * ((n - 2 * n_m) * 0) * n) with 0 by ring.
  split; [|apply nan_div_0]. repeat split.
  - rewrite Rminus_0_r. apply pow2_ge_0.
  - right. apply Quadratic_sqrt_sq_neg. lra.
Qed.

Lemma Quadratic_pressure_Kb_eq_0_refuted : exists n_m Ka Kb n p,
  Quadratic_bounds n_m Ka Kb /\ 0 <= Ka /\ 0 <= Kb /\ 0 < p /\ n = Quadratic_loading n_m Ka Kb p /\
  Quadratic_pressure_def n_m Ka Kb n /\ Quadratic_pressure n_m Ka Kb n = 0 /\ p <> 0.
Proof.
  exists 5, 1, 0, (Quadratic_loading 5 1 0 1), 1.
  assert (E : Quadratic_loading 5 1 0 1 = 5 / 2) by (unfold Quadratic_loading; cbv zeta; field).
  destruct (Quadratic_pressure_Kb_eq_0 5 1 (Quadratic_loading 5 1 0 1)) as [H1 H2]; try lra.
  unfold Quadratic_bounds.
  split; [lra|]. split; [lra|]. split; [lra|]. split; [lra|]. split; [reflexivity|].
  split; [exact H1|]. split; [exact H2 | lra].
Qed.

Lemma Quadratic_zero n_m Ka Kb : Quadratic_loading n_m Ka Kb 0 = 0.
Proof. unfold Quadratic_loading; cbv zeta. rewrite Rmult_0_r. unfold Rdiv. rewrite Rmult_0_l. reflexivity. Qed.

Lemma Quadratic_nonneg n_m Ka Kb p : Quadratic_bounds n_m Ka Kb -> 0 <= Ka -> 0 <= Kb -> 0 <= p ->
  0 <= Quadratic_loading n_m Ka Kb p.
Proof.
  unfold Quadratic_bounds, Quadratic_loading. intros Hn HKa HKb Hp; cbv zeta.
  assert (Hd := Quadratic_den_pos Ka Kb p HKa HKb Hp).
  assert (0 <= Kb * p) by (apply Rmult_le_pos; lra).
  apply Rmult_le_pos; [apply Rmult_le_pos; [apply Rmult_le_pos|]; lra | left; apply Rinv_0_lt_compat; lra].
Qed.

Lemma Quadratic_diff n_m Ka Kb p q : 0 <= Ka -> 0 <= Kb -> 0 <= p -> 0 <= q ->
  Quadratic_loading n_m Ka Kb q - Quadratic_loading n_m Ka Kb p =
  n_m * (q - p) * (Ka + 2 * Kb * (p + q) + Ka * Kb * p * q) /
  ((1 + Ka * q + Kb * q ^ 2) * (1 + Ka * p + Kb * p ^ 2)) /\
  0 < (1 + Ka * q + Kb * q ^ 2) * (1 + Ka * p + Kb * p ^ 2).
Proof.
  intros HKa HKb Hp Hq.
  assert (Hdp := Quadratic_den_pos Ka Kb p HKa HKb Hp).
  assert (Hdq := Quadratic_den_pos Ka Kb q HKa HKb Hq).
  split; [|apply Rmult_lt_0_compat; lra].
  unfold Quadratic_loading; cbv zeta. field. split; lra.
Qed.

Lemma Quadratic_monotone n_m Ka Kb p q : Quadratic_bounds n_m Ka Kb -> 0 <= Ka -> 0 <= Kb -> 0 <= p -> p <= q ->
  Quadratic_loading n_m Ka Kb p <= Quadratic_loading n_m Ka Kb q.
Proof.
  unfold Quadratic_bounds. intros Hn HKa HKb Hp Hpq.
  destruct (Quadratic_diff n_m Ka Kb p q) as [E Hd]; try lra.
  assert (0 <= Kb * (p + q)) by (apply Rmult_le_pos; lra).
  assert (0 <= Ka * Kb * p * q) by (apply Rmult_le_pos; [apply Rmult_le_pos; [apply Rmult_le_pos|]|]; lra).
  assert (0 <= n_m * (q - p) * (Ka + 2 * Kb * (p + q) + Ka * Kb * p * q) /
    ((1 + Ka * q + Kb * q ^ 2) * (1 + Ka * p + Kb * p ^ 2))).
  { apply Rmult_le_pos; [|left; apply Rinv_0_lt_compat; exact Hd].
    apply Rmult_le_pos; [apply Rmult_le_pos|]; lra. }
  lra.
Qed.

Lemma Quadratic_strictly_monotone n_m Ka Kb p q : 0 < n_m -> 0 <= Ka -> 0 <= Kb -> 0 < Ka + Kb -> 0 <= p -> p < q ->
  Quadratic_loading n_m Ka Kb p < Quadratic_loading n_m Ka Kb q.
Proof.
  intros Hn HKa HKb HK Hp Hpq.
  destruct (Quadratic_diff n_m Ka Kb p q) as [E Hd]; try lra.
  assert (0 <= Kb * (p + q)) by (apply Rmult_le_pos; lra).
  assert (0 <= Ka * Kb * p * q) by (apply Rmult_le_pos; [apply Rmult_le_pos; [apply Rmult_le_pos|]|]; lra).
  assert (0 < Ka + 2 * Kb * (p + q) + Ka * Kb * p * q).
  { destruct (Req_dec Ka 0) as [->|HKa0]; [|lra].
    assert (0 < Kb * (p + q)) by (apply Rmult_lt_0_compat; lra). lra. }
  assert (0 < n_m * (q - p) * (Ka + 2 * Kb * (p + q) + Ka * Kb * p * q) /
    ((1 + Ka * q + Kb * q ^ 2) * (1 + Ka * p + Kb * p ^ 2))).
  { apply Rdiv_lt_0_compat; [|exact Hd]. apply Rmult_lt_0_compat; [apply Rmult_lt_0_compat|]; lra. }
  lra.
Qed.

(* Henry slope: the derivative of the loading at zero pressure is n_m Ka *)
Lemma Quadratic_henry n_m Ka Kb : is_derive (Quadratic_loading n_m Ka Kb) 0 (n_m * Ka).
Proof.
  unfold Quadratic_loading; cbv zeta. auto_derive.
  - replace (1 + Ka * 0 + Kb * (0 * (0 * 1))) with 1 by ring. lra.
  - replace (1 + Ka * 0 + Kb * (0 * (0 * 1))) with 1 by ring. field.
Qed.

(* ---------------- C11 *)
Lemma Quadratic_spread_derive n_m Ka Kb x : 0 <= Ka -> 0 <= Kb -> 0 <= x ->
  is_derive (Quadratic_spreading_pressure n_m Ka Kb) x (n_m * (Ka + 2 * Kb * x) / (1 + Ka * x + Kb * x ^ 2)).
Proof.
  intros HKa HKb Hx. assert (Hd := Quadratic_den_pos Ka Kb x HKa HKb Hx).
  unfold Quadratic_spreading_pressure.
  auto_derive.
  - replace (1 + Ka * x + Kb * (x * (x * 1))) with (1 + Ka * x + Kb * x ^ 2) by ring. exact Hd.
  - field. replace (1 + Ka * x + Kb * (x * (x * 1))) with (1 + Ka * x + Kb * x ^ 2) by ring. lra.
Qed.

Lemma Quadratic_gibbs n_m Ka Kb p : 0 <= Ka -> 0 <= Kb -> 0 < p ->
  Quadratic_spreading_pressure_def n_m Ka Kb p /\
  is_derive (Quadratic_spreading_pressure n_m Ka Kb) p (Quadratic_loading n_m Ka Kb p / p).
Proof.
  intros HKa HKb Hp. assert (Hd : 0 < 1 + Ka * p + Kb * p ^ 2) by (apply Quadratic_den_pos; lra).
  split; [unfold Quadratic_spreading_pressure_def; exact Hd|].
  replace (Quadratic_loading n_m Ka Kb p / p) with (n_m * (Ka + 2 * Kb * p) / (1 + Ka * p + Kb * p ^ 2)).
  - apply Quadratic_spread_derive; lra.
  - unfold Quadratic_loading; cbv zeta. field. split; lra.
Qed.

Lemma Quadratic_spread_zero n_m Ka Kb : Quadratic_spreading_pressure n_m Ka Kb 0 = 0.
Proof.
  unfold Quadratic_spreading_pressure. replace (1 + Ka * 0 + Kb * 0 ^ 2) with 1 by ring. rewrite ln_1. ring.
Qed.

(* integral form: the integrand n(x)/x is singular as an expression at 0 only *)
Lemma Quadratic_spread_is_RInt n_m Ka Kb a p : 0 <= Ka -> 0 <= Kb -> 0 <= a -> a <= p ->
  is_RInt (fun x => Quadratic_loading n_m Ka Kb x / x) a p
          (Quadratic_spreading_pressure n_m Ka Kb p - Quadratic_spreading_pressure n_m Ka Kb a).
Proof.
  intros HKa HKb Ha Hap.
  apply (RInt_from_derivative (Quadratic_spreading_pressure n_m Ka Kb) _
           (fun x => n_m * (Ka + 2 * Kb * x) / (1 + Ka * x + Kb * x ^ 2))); [exact Hap| | |].
  - intros x Hx. apply Quadratic_spread_derive; lra.
  - intros x Hx. assert (Hd : 0 < 1 + Ka * x + Kb * x ^ 2) by (apply Quadratic_den_pos; lra).
    apply (ex_derive_continuous (fun x => n_m * (Ka + 2 * Kb * x) / (1 + Ka * x + Kb * x ^ 2)) x). auto_derive.
    replace (1 + Ka * x + Kb * (x * (x * 1))) with (1 + Ka * x + Kb * x ^ 2) by ring. lra.
  - intros x Hx. assert (Hd : 0 < 1 + Ka * x + Kb * x ^ 2) by (apply Quadratic_den_pos; lra).
    unfold Quadratic_loading; cbv zeta. field. split; lra.
Qed.

Lemma Quadratic_spread_from_zero n_m Ka Kb p : 0 <= Ka -> 0 <= Kb -> 0 <= p ->
  is_RInt (fun x => Quadratic_loading n_m Ka Kb x / x) 0 p (Quadratic_spreading_pressure n_m Ka Kb p).
Proof.
  intros HKa HKb Hp. generalize (Quadratic_spread_is_RInt n_m Ka Kb 0 p HKa HKb (Rle_refl 0) Hp).
  rewrite Quadratic_spread_zero, Rminus_0_r. exact (fun H => H).
Qed.

Lemma Quadratic_spread_incr n_m Ka Kb p q : Quadratic_bounds n_m Ka Kb -> 0 <= Ka -> 0 <= Kb -> 0 <= p -> p <= q ->
  Quadratic_spreading_pressure n_m Ka Kb p <= Quadratic_spreading_pressure n_m Ka Kb q.
Proof.
  unfold Quadratic_bounds. intros Hn HKa HKb Hp Hpq.
  apply (incr_from_derivative (Quadratic_spreading_pressure n_m Ka Kb)
           (fun x => n_m * (Ka + 2 * Kb * x) / (1 + Ka * x + Kb * x ^ 2)) 0 q); try lra.
  - intros x Hx. apply Quadratic_spread_derive; lra.
  - intros x Hx. assert (Hd : 0 < 1 + Ka * x + Kb * x ^ 2) by (apply Quadratic_den_pos; lra).
    assert (0 <= Kb * x) by (apply Rmult_le_pos; lra).
    apply Rmult_le_pos; [apply Rmult_le_pos; lra | left; apply Rinv_0_lt_compat; lra].
Qed.

(* the hypotheses of the main theorems are satisfiable *)
Example Quadratic_inverse_example : Quadratic_pressure 5 1 2 (Quadratic_loading 5 1 2 1) = 1.
Proof. apply Quadratic_inverse_lp; unfold Quadratic_bounds; lra. Qed.
