(* Vacancy solution theory models; both calculate the pressure, the loading is a numerical root (scipy.optimize.root):
   FHVST: p(n) = (n_m/K) (cov/(1-cov)) exp(a1v^2 cov / (1 + a1v cov)),  cov = n/n_m
   WVST : p(n) = (n_m/K) (cov/(1-cov)) coef exp(expcoef)   (Wilson activity coefficients L1v, Lv1)
   Proofs about the GENERATED definitions of Gen/FormulasGen.v. *)
From Coq Require Import Reals Lra Psatz.
From Coquelicot Require Import Coquelicot.
From PG Require Import Models.PyReal Models.Common Models.PowAux Gen.FormulasGen.
Open Scope R_scope.

(* ---------------- FHVST *)
Lemma FHVST_zero n_m K a1v : n_m <> 0 -> K <> 0 ->
  FHVST_pressure_def n_m K a1v 0 /\ FHVST_pressure n_m K a1v 0 = 0.
Proof.
  intros Hn HK. unfold FHVST_pressure_def, FHVST_pressure; cbv zeta.
  assert (E : 0 / n_m = 0) by (field; exact Hn). rewrite E.
  repeat split; try assumption; lra.
Qed.

(* on 0 <= n < n_m with a1v > -1 every denominator is positive *)
Lemma FHVST_defined n_m K a1v n : 0 < n_m -> K <> 0 -> -1 < a1v -> 0 <= n < n_m -> FHVST_pressure_def n_m K a1v n.
Proof.
  intros Hn HK Ha Hr. unfold FHVST_pressure_def; cbv zeta.
  assert (H0 : 0 <= n / n_m) by (apply Rmult_le_pos; [lra | left; apply Rinv_0_lt_compat; lra]).
  assert (H1 : n / n_m < 1) by (apply Rmult_lt_reg_r with n_m; [lra|]; unfold Rdiv; rewrite Rmult_assoc, Rinv_l by lra; lra).
  repeat split; try lra. nra.
Qed.

Lemma FHVST_nonneg n_m K a1v n : FHVST_bounds n_m K a1v -> 0 < n_m -> 0 < K -> 0 <= n < n_m ->
  0 <= FHVST_pressure n_m K a1v n.
Proof.
  intros _ Hn HK Hr. unfold FHVST_pressure; cbv zeta.
  assert (H0 : 0 <= n / n_m) by (apply Rmult_le_pos; [lra | left; apply Rinv_0_lt_compat; lra]).
  assert (H1 : n / n_m < 1) by (apply Rmult_lt_reg_r with n_m; [lra|]; unfold Rdiv; rewrite Rmult_assoc, Rinv_l by lra; lra).
  apply Rmult_le_pos; [|left; apply exp_pos].
  apply Rmult_le_pos; [left; apply Rdiv_lt_0_compat; lra|].
  apply Rmult_le_pos; [exact H0 | left; apply Rinv_0_lt_compat; lra].
Qed.

Lemma FHVST_strictly_monotone n_m K a1v u v : FHVST_bounds n_m K a1v -> 0 < n_m -> 0 < K -> -1 < a1v ->
  0 <= u -> u < v -> v < n_m -> FHVST_pressure n_m K a1v u < FHVST_pressure n_m K a1v v.
Proof.
  intros _ Hn HK Ha Hu Huv Hv. unfold FHVST_pressure; cbv zeta.
  assert (Hi : 0 < / n_m) by (apply Rinv_0_lt_compat; lra).
  assert (Hc : 0 < n_m / K) by (apply Rdiv_lt_0_compat; lra).
  assert (Hu0 : 0 <= u / n_m) by (apply Rmult_le_pos; lra).
  assert (Huv' : u / n_m < v / n_m) by (apply Rmult_lt_compat_r; lra).
  assert (Hv1 : v / n_m < 1) by (apply Rmult_lt_reg_r with n_m; [lra|]; unfold Rdiv; rewrite Rmult_assoc, Rinv_l by lra; lra).
  set (s := u / n_m) in *. set (t := v / n_m) in *.
  assert (Has : 0 < 1 + a1v * s) by nra.
  assert (Hat : 0 < 1 + a1v * t) by nra.
  assert (Hf : s / (1 - s) < t / (1 - t)).
  { assert (E : t / (1 - t) - s / (1 - s) = (t - s) / ((1 - t) * (1 - s))) by (field; lra).
    assert (0 < (t - s) / ((1 - t) * (1 - s))) by (apply Rdiv_lt_0_compat; [lra | apply Rmult_lt_0_compat; lra]). lra. }
  assert (Hfs : 0 <= s / (1 - s)) by (apply Rmult_le_pos; [lra | left; apply Rinv_0_lt_compat; lra]).
  assert (Hg : a1v ^ 2 * s / (1 + a1v * s) <= a1v ^ 2 * t / (1 + a1v * t)).
  { assert (E : a1v ^ 2 * t / (1 + a1v * t) - a1v ^ 2 * s / (1 + a1v * s)
               = a1v ^ 2 * (t - s) / ((1 + a1v * t) * (1 + a1v * s))) by (field; lra).
    assert (0 <= a1v ^ 2 * (t - s) / ((1 + a1v * t) * (1 + a1v * s))).
    { apply Rmult_le_pos; [|left; apply Rinv_0_lt_compat; apply Rmult_lt_0_compat; lra].
      apply Rmult_le_pos; [apply pow2_ge_0 | lra]. }
    lra. }
  assert (He := exp_le_mono _ _ Hg).
  assert (Hes := exp_pos (a1v ^ 2 * s / (1 + a1v * s))).
  set (es := exp (a1v ^ 2 * s / (1 + a1v * s))) in *. set (et := exp (a1v ^ 2 * t / (1 + a1v * t))) in *.
  apply Rle_lt_trans with (n_m / K * (s / (1 - s)) * et).
  - apply Rmult_le_compat_l; [apply Rmult_le_pos; lra | exact He].
  - apply Rmult_lt_compat_r; [lra|]. apply Rmult_lt_compat_l; [exact Hc | exact Hf].
Qed.

Lemma FHVST_root_unique_from_monotone n_m K a1v p x y :
  (forall u v, 0 <= u -> u < v -> v < n_m -> FHVST_pressure n_m K a1v u < FHVST_pressure n_m K a1v v) ->
  0 <= x < n_m -> 0 <= y < n_m ->
  FHVST_loading_spec n_m K a1v p x -> FHVST_loading_spec n_m K a1v p y -> x = y.
Proof.
  unfold FHVST_loading_spec. intros Hmono Hx Hy Ex Ey.
  apply (strict_incr_injective (FHVST_pressure n_m K a1v) (fun u => 0 <= u < n_m)); [|exact Hx|exact Hy|lra].
  intros u v Hu Hv Huv. apply Hmono; lra.
Qed.

Lemma FHVST_root_unique n_m K a1v p x y : FHVST_bounds n_m K a1v -> 0 < n_m -> 0 < K -> -1 < a1v ->
  0 <= x < n_m -> 0 <= y < n_m ->
  FHVST_loading_spec n_m K a1v p x -> FHVST_loading_spec n_m K a1v p y -> x = y.
Proof.
  intros HB Hn HK Ha. apply FHVST_root_unique_from_monotone.
  intros u v Hu Huv Hv. apply FHVST_strictly_monotone; assumption.
Qed.

(* the numerically inverted loading is strictly increasing in the pressure: roots for a lower pressure lie strictly lower *)
Lemma FHVST_loading_increasing n_m K a1v p q x y : FHVST_bounds n_m K a1v -> 0 < n_m -> 0 < K -> -1 < a1v ->
  0 <= x < n_m -> 0 <= y < n_m ->
  FHVST_loading_spec n_m K a1v p x -> FHVST_loading_spec n_m K a1v q y -> p < q -> x < y.
Proof.
  unfold FHVST_loading_spec. intros HB Hn HK Ha Hx Hy Ex Ey Hpq.
  destruct (Rlt_le_dec x y) as [Hlt|Hle]; [exact Hlt|exfalso].
  destruct (Req_dec y x) as [->|Hne]; [lra|].
  assert (H := FHVST_strictly_monotone n_m K a1v y x HB Hn HK Ha). lra.
Qed.

(* ---------------- WVST *)
Lemma WVST_zero n_m K L1v Lv1 : n_m <> 0 -> K <> 0 -> L1v <> 0 ->
  WVST_pressure_def n_m K L1v Lv1 0 /\ WVST_pressure n_m K L1v Lv1 0 = 0.
Proof.
  intros Hn HK HL. unfold WVST_pressure_def, WVST_pressure; cbv zeta.
  assert (E : 0 / n_m = 0) by (field; exact Hn). rewrite E.
  rewrite !Rmult_0_r, !Rplus_0_r, !Rminus_0_r.
  repeat split; try assumption; lra.
Qed.

Lemma WVST_root_unique_from_monotone n_m K L1v Lv1 p x y :
  (forall u v, 0 <= u -> u < v -> v < n_m -> WVST_pressure n_m K L1v Lv1 u < WVST_pressure n_m K L1v Lv1 v) ->
  0 <= x < n_m -> 0 <= y < n_m ->
  WVST_loading_spec n_m K L1v Lv1 p x -> WVST_loading_spec n_m K L1v Lv1 p y -> x = y.
Proof.
  unfold WVST_loading_spec. intros Hmono Hx Hy Ex Ey.
  apply (strict_incr_injective (WVST_pressure n_m K L1v Lv1) (fun u => 0 <= u < n_m)); [|exact Hx|exact Hy|lra].
  intros u v Hu Hv Huv. apply Hmono; lra.
Qed.

Example FHVST_hyps_sat : FHVST_bounds 2 1 0 /\ FHVST_pressure_def 2 1 0 1 /\ FHVST_pressure 2 1 0 1 = 2.
Proof.
  unfold FHVST_bounds, FHVST_pressure_def, FHVST_pressure; cbv zeta. repeat split; try lra.
  replace (0 ^ 2 * (1 / 2) / (1 + 0 * (1 / 2))) with 0 by field. rewrite exp_0. field.
Qed.
