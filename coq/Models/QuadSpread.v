(* C11, models whose spreading_pressure() is `integrate.quad(lambda x: self.loading(x) / x, 0, pressure)[0]`:
   the GENERATED definition is the Riemann integral of the model's own generated loading over x from 0 to p.
   (A change of the integrand or of the limits in the source changes the generated term and breaks these statements;
   scipy.integrate.quad is an oracle, compared on every run with coq-interval enclosures of this very integrand.) *)
From Coq Require Import Reals.
From Coquelicot Require Import Coquelicot.
From PG Require Import Models.PyReal Gen.FormulasGen.
Open Scope R_scope.

Lemma Toth_spreading_is_quad_of_own_loading n_m K t p :
  Toth_spreading_pressure n_m K t p = RInt (fun x => Toth_loading n_m K t x / x) 0 p.
Proof. reflexivity. Qed.
Lemma JensenSeaton_spreading_is_quad_of_own_loading K a b c p :
  JensenSeaton_spreading_pressure K a b c p = RInt (fun x => JensenSeaton_loading K a b c x / x) 0 p.
Proof. reflexivity. Qed.
Lemma DR_spreading_is_quad_of_own_loading minus_rt n_m e p :
  DR_spreading_pressure minus_rt n_m e p = RInt (fun x => DR_loading minus_rt n_m e x / x) 0 p.
Proof. reflexivity. Qed.
Lemma DA_spreading_is_quad_of_own_loading minus_rt n_m e m p :
  DA_spreading_pressure minus_rt n_m e m p = RInt (fun x => DA_loading minus_rt n_m e m x / x) 0 p.
Proof. reflexivity. Qed.
