(* C10 - "for any parameters ...": a model evaluates its equations at the parameters it was BUILT with.  Theorems over the bindings
   GENERATED from IsothermBaseModel.__init__ / to_dict() (Gen/ModelInitGen.v) in the heap model Models/ParamHeap.v: the constructor's
   dictionary is a new object, so neither the caller's later edits of the dictionary it passed (a parameter sweep) nor the re-fit of a
   clone obtained through to_dict() - which hands out the LIVE dictionary - can change an existing model. *)
From Coq Require Import Reals List String Arith Lia Lra.
From PG Require Import Models.ParamHeap Gen.ModelInitGen.
Import ListNotations.
Open Scope string_scope.

(* the constructor copies by name (fails to type-check when the generated binding is Alias) *)
Lemma model_parameters_are_a_copy : forall names h src, live h src ->
  let r := construct Base_init_params names h src in
  snd r <> src /\ ~ live h (snd r) /\ live (fst r) (snd r) /\
  (forall k, In k names -> cell (fst r) (snd r) k = cell h src k) /\
  (forall i, live h i -> cell (fst r) i = cell h i).
Proof. exact fresh_is_new. Qed.

Lemma model_unaffected_by_stores_elsewhere : forall names h src ws,
  live h src -> (forall w, In w ws -> live h (target w)) ->
  let r := construct Base_init_params names h src in
  forall k, In k names -> cell (writes (fst r) ws) (snd r) k = cell h src k.
Proof. exact fresh_frame. Qed.

Lemma parameter_sweep_keeps_earlier_models : forall names h src ws,
  live h src -> (forall w, In w ws -> target w = src) ->
  let r1 := construct Base_init_params names h src in
  let h2 := writes (fst r1) ws in
  let r2 := construct Base_init_params names h2 src in
  forall k, In k names ->
    cell (fst r2) (snd r1) k = cell h src k /\ cell (fst r2) (snd r2) k = cell h2 src k.
Proof.
  intros names h src ws H Hws r1 h2 r2 k Hk.
  assert (F : cell h2 (snd r1) k = cell h src k).
  { subst h2 r1. apply fresh_frame; [exact H| |exact Hk]. intros w Hw. rewrite (Hws w Hw). exact H. }
  subst r2. change Base_init_params with Fresh. unfold construct at 1 2 3. rewrite alloc_id. split.
  - rewrite alloc_old; [exact F|]. unfold live. subst h2. rewrite writes_next. subst r1. change Base_init_params with Fresh.
    unfold construct. rewrite alloc_id, alloc_next. lia.
  - rewrite alloc_new. apply restrict_in; exact Hk.
Qed.

Lemma clone_refit_gen : forall T names h src ws,
  live h src ->
  let r1 := construct Fresh names h src in
  let r2 := to_dict_parameters T (fst r1) (snd r1) in
  let r3 := construct Fresh names (fst r2) (snd r2) in
  (forall w, In w ws -> target w = snd r3) ->
  forall k, In k names -> cell (writes (fst r3) ws) (snd r1) k = cell h src k /\ snd r3 <> snd r1.
Proof.
  intros T names h src ws H r1 r2 r3 Hws k Hk.
  assert (N1 : snd r1 = next h) by reflexivity.
  assert (C1 : cell (fst r1) (next h) k = cell h src k).
  { subst r1. unfold construct. rewrite alloc_new. apply restrict_in; exact Hk. }
  assert (X1 : next (fst r1) = S (next h)) by reflexivity.
  assert (SIDE : forall i j : nat, i < j -> i <> j) by (intros; lia).
  destruct T.
  - (* to_dict copies *)
    assert (N3 : snd r3 = S (S (next h))) by reflexivity.
    split; [|rewrite N1, N3; lia].
    rewrite writes_frame by (intros w Hw; rewrite (Hws w Hw), N1, N3; lia).
    rewrite N1. unfold r3, construct. rewrite alloc_old.
    + unfold r2, to_dict_parameters. rewrite alloc_old; [exact C1|]. unfold live. rewrite X1. lia.
    + unfold live, r2, to_dict_parameters. rewrite alloc_next. rewrite X1. lia.
  - (* to_dict hands out the live dictionary *)
    assert (N3 : snd r3 = S (next h)) by reflexivity.
    split; [|rewrite N1, N3; lia].
    rewrite writes_frame by (intros w Hw; rewrite (Hws w Hw), N1, N3; lia).
    rewrite N1. unfold r3, construct. rewrite alloc_old; [exact C1|].
    unfold live, r2, to_dict_parameters. cbn [fst]. rewrite X1. lia.
Qed.

(* m = Model(parameters = src); clone = model_from_dict(m.to_dict()); clone.fit(...) stores into clone.params: m is unchanged *)
Lemma refitting_a_clone_keeps_the_original : forall names h src ws,
  live h src ->
  let r1 := construct Base_init_params names h src in
  let r2 := to_dict_parameters Base_to_dict_parameters (fst r1) (snd r1) in
  let r3 := construct Base_init_params names (fst r2) (snd r2) in
  (forall w, In w ws -> target w = snd r3) ->
  forall k, In k names -> cell (writes (fst r3) ws) (snd r1) k = cell h src k /\ snd r3 <> snd r1.
Proof. exact (clone_refit_gen Base_to_dict_parameters). Qed.

(* what a constructor that KEEPS the caller's dictionary would do (the theorems above are not vacuous) *)
Definition demo_heap : heap := {| cell := fun _ _ => Some 0%R; next := 1 |}.

Lemma aliasing_constructor_shares_refuted :
  exists names h src ws k, live h src /\ (forall w, In w ws -> target w = src) /\ In k names /\
    let r := construct Alias names h src in cell (writes (fst r) ws) (snd r) k <> cell h src k.
Proof.
  exists ["K"], demo_heap, 0, [(0, "K", 1%R)], "K". repeat split.
  - unfold live; simpl; lia.
  - intros w [E|[]]. subst w. reflexivity.
  - left; reflexivity.
  - simpl. destruct (string_dec "K" "K") as [_|n]; [|exfalso; apply n; reflexivity].
    intros E. injection E. lra.
Qed.

(* the hypotheses are satisfiable: a sweep K = 0 -> 1 over one dictionary; the first model still reads 0, the second reads 1 *)
Lemma sweep_example :
  let r1 := construct Base_init_params ["K"] demo_heap 0 in
  let h2 := writes (fst r1) [(0, "K", 1%R)] in
  let r2 := construct Base_init_params ["K"] h2 0 in
  cell (fst r2) (snd r1) "K" = Some 0%R /\ cell (fst r2) (snd r2) "K" = Some 1%R.
Proof.
  assert (L : live demo_heap 0) by (unfold live; simpl; lia).
  assert (W : forall w, In w [(0, "K", 1%R)] -> target w = 0) by (intros w [E|[]]; subst w; reflexivity).
  assert (K : In "K" ["K"]) by (left; reflexivity).
  destruct (parameter_sweep_keeps_earlier_models ["K"] demo_heap 0 [(0, "K", 1%R)] L W "K" K) as [A B].
  split; [exact A|]. cbv zeta in B. rewrite B. simpl.
  destruct (string_dec "K" "K") as [_|n]; [reflexivity|exfalso; apply n; reflexivity].
Qed.
