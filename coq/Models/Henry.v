(* Henry: n(p) = K p.  Proofs about the GENERATED definitions of Gen/FormulasGen.v. *)
From Coq Require Import Reals Lra Psatz.
From Coquelicot Require Import Coquelicot.
From PG Require Import Models.PyReal Models.Common Gen.FormulasGen.
Open Scope R_scope.

(* ---------------- C10 *)
Lemma Henry_inverse_lp K p : K <> 0 ->
  Henry_loading_def K p /\ Henry_pressure_def K (Henry_loading K p) /\
  Henry_pressure K (Henry_loading K p) = p.
Proof.
  unfold Henry_loading_def, Henry_pressure_def, Henry_pressure, Henry_loading.
  intros HK. repeat split.
  - exact HK.
  - field. exact HK.
Qed.

Lemma Henry_inverse_pl K n : K <> 0 ->
  Henry_pressure_def K n /\ Henry_loading_def K (Henry_pressure K n) /\
  Henry_loading K (Henry_pressure K n) = n.
Proof.
  unfold Henry_loading_def, Henry_pressure_def, Henry_pressure, Henry_loading.
  intros HK. repeat split.
  - exact HK.
  - field. exact HK.
Qed.

Lemma Henry_zero K : Henry_loading K 0 = 0.
Proof. unfold Henry_loading. apply Rmult_0_r. Qed.

Lemma Henry_nonneg K p : Henry_bounds K -> 0 <= p -> 0 <= Henry_loading K p.
Proof. unfold Henry_bounds, Henry_loading. intros HK Hp. apply Rmult_le_pos; assumption. Qed.

Lemma Henry_monotone K p q : Henry_bounds K -> 0 <= p -> p <= q ->
  Henry_loading K p <= Henry_loading K q.
Proof. unfold Henry_bounds, Henry_loading. intros HK Hp Hpq. apply Rmult_le_compat_l; assumption. Qed.

Lemma Henry_strictly_monotone K p q : 0 < K -> 0 <= p -> p < q ->
  Henry_loading K p < Henry_loading K q.
Proof. unfold Henry_loading. intros HK Hp Hpq. apply Rmult_lt_compat_l; assumption. Qed.

(* Henry slope: the derivative of the loading at zero pressure is K *)
Lemma Henry_henry K : is_derive (Henry_loading K) 0 K.
Proof. unfold Henry_loading. auto_derive; [exact I|]. ring. Qed.

(* ---------------- C11 *)
Lemma Henry_gibbs K p : 0 < p ->
  Henry_spreading_pressure_def K p /\
  is_derive (Henry_spreading_pressure K) p (Henry_loading K p / p).
Proof.
  intros Hp. unfold Henry_spreading_pressure_def, Henry_spreading_pressure, Henry_loading. split; [exact I|].
  auto_derive; [exact I|]. field. lra.
Qed.

Lemma Henry_spread_zero K : Henry_spreading_pressure K 0 = 0.
Proof. unfold Henry_spreading_pressure. apply Rmult_0_r. Qed.

(* integral form, from 0: the integrand n(x)/x is singular as an expression at 0 only *)
Lemma Henry_spread_is_RInt K a p : 0 <= a -> a <= p ->
  is_RInt (fun x => Henry_loading K x / x) a p
          (Henry_spreading_pressure K p - Henry_spreading_pressure K a).
Proof.
  intros Ha Hap.
  apply (RInt_from_derivative (Henry_spreading_pressure K) _ (fun _ => K)); [exact Hap| | |].
  - intros x Hx. unfold Henry_spreading_pressure. auto_derive; [exact I|]. ring.
  - intros x Hx. apply continuous_const.
  - intros x Hx. unfold Henry_loading. field. lra.
Qed.

Lemma Henry_spread_from_zero K p : 0 <= p ->
  is_RInt (fun x => Henry_loading K x / x) 0 p (Henry_spreading_pressure K p).
Proof.
  intros Hp. generalize (Henry_spread_is_RInt K 0 p (Rle_refl 0) Hp).
  rewrite Henry_spread_zero, Rminus_0_r. exact (fun H => H).
Qed.

Lemma Henry_spread_incr K p q : Henry_bounds K -> 0 <= p -> p <= q ->
  Henry_spreading_pressure K p <= Henry_spreading_pressure K q.
Proof.
  unfold Henry_bounds, Henry_spreading_pressure. intros HK Hp Hpq. apply Rmult_le_compat_l; assumption.
Qed.
