(* TSLangmuir: n(p) = sum over three sites of n_mi Ki p / (1 + Ki p); pressure() is a numerical root
   (TSLangmuir_pressure_spec).  Proofs about the GENERATED definitions of Gen/FormulasGen.v. *)
From Coq Require Import Reals Lra Psatz.
From Coquelicot Require Import Coquelicot.
From PG Require Import Models.PyReal Models.Common Gen.FormulasGen Models.Langmuir.
Open Scope R_scope.

(* the loading / spreading pressure are sums of three Langmuir terms (definitional) *)
Lemma TSLangmuir_loading_split n_m1 n_m2 n_m3 K1 K2 K3 p :
  TSLangmuir_loading n_m1 n_m2 n_m3 K1 K2 K3 p =
  Langmuir_loading K1 n_m1 p + Langmuir_loading K2 n_m2 p + Langmuir_loading K3 n_m3 p.
Proof. reflexivity. Qed.

Lemma TSLangmuir_spreading_split n_m1 n_m2 n_m3 K1 K2 K3 p :
  TSLangmuir_spreading_pressure n_m1 n_m2 n_m3 K1 K2 K3 p =
  Langmuir_spreading_pressure K1 n_m1 p + Langmuir_spreading_pressure K2 n_m2 p + Langmuir_spreading_pressure K3 n_m3 p.
Proof. reflexivity. Qed.

Lemma TSLangmuir_loading_defined n_m1 n_m2 n_m3 K1 K2 K3 p : TSLangmuir_bounds n_m1 n_m2 n_m3 K1 K2 K3 -> 0 <= p ->
  TSLangmuir_loading_def n_m1 n_m2 n_m3 K1 K2 K3 p.
Proof.
  unfold TSLangmuir_bounds, TSLangmuir_loading_def. intros (Hn1 & Hn2 & Hn3 & HK1 & HK2 & HK3) Hp; cbv zeta.
  assert (0 <= K1 * p) by (apply Rmult_le_pos; lra).
  assert (0 <= K2 * p) by (apply Rmult_le_pos; lra).
  assert (0 <= K3 * p) by (apply Rmult_le_pos; lra).
  repeat split; lra.
Qed.

(* ---------------- C10 *)
Lemma TSLangmuir_zero n_m1 n_m2 n_m3 K1 K2 K3 : TSLangmuir_loading n_m1 n_m2 n_m3 K1 K2 K3 0 = 0.
Proof. rewrite TSLangmuir_loading_split, !Langmuir_zero. lra. Qed.

Lemma TSLangmuir_nonneg n_m1 n_m2 n_m3 K1 K2 K3 p : TSLangmuir_bounds n_m1 n_m2 n_m3 K1 K2 K3 -> 0 <= p ->
  0 <= TSLangmuir_loading n_m1 n_m2 n_m3 K1 K2 K3 p.
Proof.
  intros (Hn1 & Hn2 & Hn3 & HK1 & HK2 & HK3) Hp. rewrite TSLangmuir_loading_split.
  assert (0 <= Langmuir_loading K1 n_m1 p) by (apply Langmuir_nonneg; [split|]; assumption).
  assert (0 <= Langmuir_loading K2 n_m2 p) by (apply Langmuir_nonneg; [split|]; assumption).
  assert (0 <= Langmuir_loading K3 n_m3 p) by (apply Langmuir_nonneg; [split|]; assumption).
  lra.
Qed.

(* a single Langmuir term never exceeds its capacity (also when the capacity is 0) *)
Lemma TSLangmuir_site_le_capacity K n_m p : Langmuir_bounds K n_m -> 0 <= p -> Langmuir_loading K n_m p <= n_m.
Proof.
  intros [HK Hn] Hp. destruct (Req_dec n_m 0) as [->|Hne].
  - unfold Langmuir_loading; cbv zeta. unfold Rdiv. rewrite !Rmult_0_l. lra.
  - left. apply Langmuir_saturation; [split; assumption | lra | assumption].
Qed.

(* strictly below the total capacity as soon as one site has positive capacity *)
Lemma TSLangmuir_saturation n_m1 n_m2 n_m3 K1 K2 K3 p : TSLangmuir_bounds n_m1 n_m2 n_m3 K1 K2 K3 ->
  0 < n_m1 \/ 0 < n_m2 \/ 0 < n_m3 -> 0 <= p ->
  TSLangmuir_loading n_m1 n_m2 n_m3 K1 K2 K3 p < n_m1 + n_m2 + n_m3.
Proof.
  intros (Hn1 & Hn2 & Hn3 & HK1 & HK2 & HK3) Hpos Hp. rewrite TSLangmuir_loading_split.
  assert (B1 : Langmuir_bounds K1 n_m1) by (split; assumption).
  assert (B2 : Langmuir_bounds K2 n_m2) by (split; assumption).
  assert (B3 : Langmuir_bounds K3 n_m3) by (split; assumption).
  assert (L1 := TSLangmuir_site_le_capacity K1 n_m1 p B1 Hp).
  assert (L2 := TSLangmuir_site_le_capacity K2 n_m2 p B2 Hp).
  assert (L3 := TSLangmuir_site_le_capacity K3 n_m3 p B3 Hp).
  destruct Hpos as [H|[H|H]].
  - generalize (Langmuir_saturation K1 n_m1 p B1 H Hp). lra.
  - generalize (Langmuir_saturation K2 n_m2 p B2 H Hp). lra.
  - generalize (Langmuir_saturation K3 n_m3 p B3 H Hp). lra.
Qed.

Lemma TSLangmuir_monotone n_m1 n_m2 n_m3 K1 K2 K3 p q : TSLangmuir_bounds n_m1 n_m2 n_m3 K1 K2 K3 ->
  0 <= p -> p <= q ->
  TSLangmuir_loading n_m1 n_m2 n_m3 K1 K2 K3 p <= TSLangmuir_loading n_m1 n_m2 n_m3 K1 K2 K3 q.
Proof.
  intros (Hn1 & Hn2 & Hn3 & HK1 & HK2 & HK3) Hp Hpq. rewrite !TSLangmuir_loading_split.
  apply Rplus_le_compat; [apply Rplus_le_compat|]; apply Langmuir_monotone; try split; assumption.
Qed.

Lemma TSLangmuir_strictly_monotone n_m1 n_m2 n_m3 K1 K2 K3 p q :
  0 < n_m1 -> 0 < n_m2 -> 0 < n_m3 -> 0 < K1 -> 0 < K2 -> 0 < K3 -> 0 <= p -> p < q ->
  TSLangmuir_loading n_m1 n_m2 n_m3 K1 K2 K3 p < TSLangmuir_loading n_m1 n_m2 n_m3 K1 K2 K3 q.
Proof.
  intros Hn1 Hn2 Hn3 HK1 HK2 HK3 Hp Hpq. rewrite !TSLangmuir_loading_split.
  apply Rplus_lt_compat; [apply Rplus_lt_compat|]; apply Langmuir_strictly_monotone; assumption.
Qed.

(* strict monotonicity already holds when ONE site is active (n_m K > 0), the others merely within bounds *)
Lemma TSLangmuir_strictly_monotone_one_site n_m1 n_m2 n_m3 K1 K2 K3 p q :
  TSLangmuir_bounds n_m1 n_m2 n_m3 K1 K2 K3 ->
  (0 < n_m1 /\ 0 < K1) \/ (0 < n_m2 /\ 0 < K2) \/ (0 < n_m3 /\ 0 < K3) -> 0 <= p -> p < q ->
  TSLangmuir_loading n_m1 n_m2 n_m3 K1 K2 K3 p < TSLangmuir_loading n_m1 n_m2 n_m3 K1 K2 K3 q.
Proof.
  intros (Hn1 & Hn2 & Hn3 & HK1 & HK2 & HK3) Hact Hp Hpq. rewrite !TSLangmuir_loading_split.
  assert (Hle : p <= q) by lra.
  assert (M1 := Langmuir_monotone K1 n_m1 p q (conj HK1 Hn1) Hp Hle).
  assert (M2 := Langmuir_monotone K2 n_m2 p q (conj HK2 Hn2) Hp Hle).
  assert (M3 := Langmuir_monotone K3 n_m3 p q (conj HK3 Hn3) Hp Hle).
  destruct Hact as [[A B]|[[A B]|[A B]]].
  - generalize (Langmuir_strictly_monotone K1 n_m1 p q B A Hp Hpq). lra.
  - generalize (Langmuir_strictly_monotone K2 n_m2 p q B A Hp Hpq). lra.
  - generalize (Langmuir_strictly_monotone K3 n_m3 p q B A Hp Hpq). lra.
Qed.

(* Henry slope: the derivative of the loading at zero pressure is n_m1 K1 + n_m2 K2 + n_m3 K3 *)
Lemma TSLangmuir_henry n_m1 n_m2 n_m3 K1 K2 K3 :
  is_derive (TSLangmuir_loading n_m1 n_m2 n_m3 K1 K2 K3) 0 (n_m1 * K1 + n_m2 * K2 + n_m3 * K3).
Proof.
  apply (is_derive_ext (fun p => plus (plus (Langmuir_loading K1 n_m1 p) (Langmuir_loading K2 n_m2 p))
                                      (Langmuir_loading K3 n_m3 p))).
  - intros t. reflexivity.
  - apply (is_derive_plus (fun p => plus (Langmuir_loading K1 n_m1 p) (Langmuir_loading K2 n_m2 p))
                          (Langmuir_loading K3 n_m3)); [|apply Langmuir_henry].
    apply (is_derive_plus (Langmuir_loading K1 n_m1) (Langmuir_loading K2 n_m2)); apply Langmuir_henry.
Qed.

(* the numerical inverse: any non-negative root the solver returns is THE root, and it inverts the loading *)
Lemma TSLangmuir_root_unique n_m1 n_m2 n_m3 K1 K2 K3 n x1 x2 :
  0 < n_m1 -> 0 < n_m2 -> 0 < n_m3 -> 0 < K1 -> 0 < K2 -> 0 < K3 -> 0 <= x1 -> 0 <= x2 ->
  TSLangmuir_pressure_spec n_m1 n_m2 n_m3 K1 K2 K3 n x1 ->
  TSLangmuir_pressure_spec n_m1 n_m2 n_m3 K1 K2 K3 n x2 -> x1 = x2.
Proof.
  unfold TSLangmuir_pressure_spec. intros Hn1 Hn2 Hn3 HK1 HK2 HK3 H1 H2 S1 S2.
  apply (strict_incr_injective (TSLangmuir_loading n_m1 n_m2 n_m3 K1 K2 K3) (fun u => 0 <= u)); [|exact H1|exact H2|lra].
  intros u v Du Dv Huv. apply TSLangmuir_strictly_monotone; assumption.
Qed.

Lemma TSLangmuir_root_is_inverse n_m1 n_m2 n_m3 K1 K2 K3 p x :
  0 < n_m1 -> 0 < n_m2 -> 0 < n_m3 -> 0 < K1 -> 0 < K2 -> 0 < K3 -> 0 <= p -> 0 <= x ->
  TSLangmuir_pressure_spec n_m1 n_m2 n_m3 K1 K2 K3 (TSLangmuir_loading n_m1 n_m2 n_m3 K1 K2 K3 p) x -> x = p.
Proof.
  intros Hn1 Hn2 Hn3 HK1 HK2 HK3 Hp Hx S.
  apply (TSLangmuir_root_unique n_m1 n_m2 n_m3 K1 K2 K3 (TSLangmuir_loading n_m1 n_m2 n_m3 K1 K2 K3 p)); try assumption.
  unfold TSLangmuir_pressure_spec. ring.
Qed.

(* p itself satisfies the root specification of its own loading (the spec is satisfiable) *)
Lemma TSLangmuir_root_exists n_m1 n_m2 n_m3 K1 K2 K3 p :
  TSLangmuir_pressure_spec n_m1 n_m2 n_m3 K1 K2 K3 (TSLangmuir_loading n_m1 n_m2 n_m3 K1 K2 K3 p) p.
Proof. unfold TSLangmuir_pressure_spec. ring. Qed.

(* ---------------- C11 *)
Lemma TSLangmuir_gibbs n_m1 n_m2 n_m3 K1 K2 K3 p : 0 <= K1 -> 0 <= K2 -> 0 <= K3 -> 0 < p ->
  TSLangmuir_spreading_pressure_def n_m1 n_m2 n_m3 K1 K2 K3 p /\
  is_derive (TSLangmuir_spreading_pressure n_m1 n_m2 n_m3 K1 K2 K3) p
            (TSLangmuir_loading n_m1 n_m2 n_m3 K1 K2 K3 p / p).
Proof.
  intros HK1 HK2 HK3 Hp.
  destruct (Langmuir_gibbs K1 n_m1 p HK1 Hp) as [D1 G1].
  destruct (Langmuir_gibbs K2 n_m2 p HK2 Hp) as [D2 G2].
  destruct (Langmuir_gibbs K3 n_m3 p HK3 Hp) as [D3 G3].
  split; [split; [exact D1 | split; [exact D2 | exact D3]]|].
  apply (is_derive_ext (fun p => plus (plus (Langmuir_spreading_pressure K1 n_m1 p) (Langmuir_spreading_pressure K2 n_m2 p))
                                      (Langmuir_spreading_pressure K3 n_m3 p))).
  - intros t. reflexivity.
  - rewrite TSLangmuir_loading_split.
    replace ((Langmuir_loading K1 n_m1 p + Langmuir_loading K2 n_m2 p + Langmuir_loading K3 n_m3 p) / p)
      with (plus (plus (Langmuir_loading K1 n_m1 p / p) (Langmuir_loading K2 n_m2 p / p)) (Langmuir_loading K3 n_m3 p / p))
      by (unfold plus; simpl; field; lra).
    apply (is_derive_plus (fun p => plus (Langmuir_spreading_pressure K1 n_m1 p) (Langmuir_spreading_pressure K2 n_m2 p))
                          (Langmuir_spreading_pressure K3 n_m3)); [|assumption].
    apply (is_derive_plus (Langmuir_spreading_pressure K1 n_m1) (Langmuir_spreading_pressure K2 n_m2)); assumption.
Qed.

Lemma TSLangmuir_spread_zero n_m1 n_m2 n_m3 K1 K2 K3 : TSLangmuir_spreading_pressure n_m1 n_m2 n_m3 K1 K2 K3 0 = 0.
Proof. rewrite TSLangmuir_spreading_split, !Langmuir_spread_zero. lra. Qed.

(* integral form, from 0: the integrand n(x)/x is singular as an expression at 0 only *)
Lemma TSLangmuir_spread_is_RInt n_m1 n_m2 n_m3 K1 K2 K3 a p : 0 <= K1 -> 0 <= K2 -> 0 <= K3 -> 0 <= a -> a <= p ->
  is_RInt (fun x => TSLangmuir_loading n_m1 n_m2 n_m3 K1 K2 K3 x / x) a p
          (TSLangmuir_spreading_pressure n_m1 n_m2 n_m3 K1 K2 K3 p - TSLangmuir_spreading_pressure n_m1 n_m2 n_m3 K1 K2 K3 a).
Proof.
  intros HK1 HK2 HK3 Ha Hap.
  apply (RInt_from_derivative (TSLangmuir_spreading_pressure n_m1 n_m2 n_m3 K1 K2 K3) _
           (fun x => n_m1 * K1 / (1 + K1 * x) + n_m2 * K2 / (1 + K2 * x) + n_m3 * K3 / (1 + K3 * x))); [exact Hap| | |].
  - intros x Hx. assert (0 <= K1 * x) by (apply Rmult_le_pos; lra).
    assert (0 <= K2 * x) by (apply Rmult_le_pos; lra).
    assert (0 <= K3 * x) by (apply Rmult_le_pos; lra).
    unfold TSLangmuir_spreading_pressure. auto_derive; [repeat split; lra|]. field; lra.
  - intros x Hx. assert (0 <= K1 * x) by (apply Rmult_le_pos; lra).
    assert (0 <= K2 * x) by (apply Rmult_le_pos; lra).
    assert (0 <= K3 * x) by (apply Rmult_le_pos; lra).
    apply (ex_derive_continuous (fun x => n_m1 * K1 / (1 + K1 * x) + n_m2 * K2 / (1 + K2 * x) + n_m3 * K3 / (1 + K3 * x)) x).
    auto_derive. repeat split; lra.
  - intros x Hx. assert (0 <= K1 * x) by (apply Rmult_le_pos; lra).
    assert (0 <= K2 * x) by (apply Rmult_le_pos; lra).
    assert (0 <= K3 * x) by (apply Rmult_le_pos; lra).
    unfold TSLangmuir_loading; cbv zeta. field. repeat split; lra.
Qed.

Lemma TSLangmuir_spread_from_zero n_m1 n_m2 n_m3 K1 K2 K3 p : 0 <= K1 -> 0 <= K2 -> 0 <= K3 -> 0 <= p ->
  is_RInt (fun x => TSLangmuir_loading n_m1 n_m2 n_m3 K1 K2 K3 x / x) 0 p
          (TSLangmuir_spreading_pressure n_m1 n_m2 n_m3 K1 K2 K3 p).
Proof.
  intros HK1 HK2 HK3 Hp.
  generalize (TSLangmuir_spread_is_RInt n_m1 n_m2 n_m3 K1 K2 K3 0 p HK1 HK2 HK3 (Rle_refl 0) Hp).
  rewrite TSLangmuir_spread_zero, Rminus_0_r. exact (fun H => H).
Qed.

Lemma TSLangmuir_spread_incr n_m1 n_m2 n_m3 K1 K2 K3 p q : TSLangmuir_bounds n_m1 n_m2 n_m3 K1 K2 K3 ->
  0 <= p -> p <= q ->
  TSLangmuir_spreading_pressure n_m1 n_m2 n_m3 K1 K2 K3 p <= TSLangmuir_spreading_pressure n_m1 n_m2 n_m3 K1 K2 K3 q.
Proof.
  intros (Hn1 & Hn2 & Hn3 & HK1 & HK2 & HK3) Hp Hpq. rewrite !TSLangmuir_spreading_split.
  apply Rplus_le_compat; [apply Rplus_le_compat|]; apply Langmuir_spread_incr; try split; assumption.
Qed.
