(* Tactic used by the correspondence goals written by the harness (coq/Cases/*.v):
     Goal Rabs (<M>_<method> <literal parameters> <literal point> - <implementation's float>) <= tol.
   The generated definition is unfolded, pypow / nan_div are resolved on the concrete numbers (side conditions by
   coq-interval), and the remaining closed real expression is enclosed by `interval`. A failing goal = disagreement. *)
From Coq Require Import Reals Lra.
From Interval Require Import Tactic.
From PG Require Import Models.PyReal.
Open Scope R_scope.

Lemma nan_div_lt num den : den < 0 -> nan_div num den = num / den.
Proof. intros H; apply nan_div_nz; lra. Qed.
Lemma nan_div_gt num den : 0 < den -> nan_div num den = num / den.
Proof. intros H; apply nan_div_nz; lra. Qed.

Ltac kill_pypow :=
  repeat match goal with
  | |- context [pypow ?a ?b] =>
      match a with context [pypow _ _] => fail 1 | _ => idtac end;
      rewrite (pypow_pos a b) by (interval with (i_prec 80))
  end.
Ltac kill_nan_div :=
  repeat match goal with
  | |- context [nan_div ?a ?b] =>
      first [ rewrite (nan_div_gt a b) by (interval with (i_prec 80))
            | rewrite (nan_div_lt a b) by (interval with (i_prec 80)) ]
  end.
Ltac formula_interval := cbv zeta; kill_pypow; kill_nan_div; interval with (i_prec 80).

(* point isotherms: Goal Rabs (sp_point [rows] p - value) <= tol on concrete rows: unfold the hand-written model,
   decide every pressure comparison with lra, enclose the logarithms with interval *)
From Coq Require Import List.
From PG Require Import Models.SpreadPoint.
Lemma if_Rlt_true a b (x y : R) : a < b -> (if Rlt_dec a b then x else y) = x.
Proof. intros H; destruct (Rlt_dec a b); [reflexivity | contradiction]. Qed.
Lemma if_Rlt_false a b (x y : R) : b <= a -> (if Rlt_dec a b then x else y) = y.
Proof. intros H; destruct (Rlt_dec a b); [lra | reflexivity]. Qed.
(* binary64 values are dyadic rationals: exactly representable at 80 bits, so interval decides equal knots too; lra is the fallback *)
Ltac decide_cmp :=
  repeat match goal with
  | |- context [if Rlt_dec ?a ?b then ?x else ?y] =>
      first [ rewrite (if_Rlt_true a b x y) by (interval with (i_prec 80))
            | rewrite (if_Rlt_false a b x y) by (interval with (i_prec 80))
            | rewrite (if_Rlt_true a b x y) by lra
            | rewrite (if_Rlt_false a b x y) by lra ]
  end.
Ltac cmp_tac := first [ interval with (i_prec 80) | lra ].
Ltac sp_steps :=
  first [ rewrite sp_point_head_lt by cmp_tac | rewrite sp_point_below_first by cmp_tac ];
  repeat first [ rewrite sp_from_step_lt by cmp_tac | rewrite sp_from_step_ge by cmp_tac ].
Ltac sp_point_interval := sp_steps; cbv [seg last_seg lin]; interval with (i_prec 80).

(* the CALL spreading_pressure_at (range guard + value) on concrete rows:
     Goal sp_point_at [rows] p = CalculationError.                                   (sp_point_refused)
     Goal exists v, sp_point_at [rows] p = Value v /\ Rabs (v - value) <= tol.       (sp_point_answered) *)
Ltac inc_tac := cbv [increasing increasing_from]; repeat split; cmp_tac.
Ltac last_tac := cbv [last_pressure last_from]; cmp_tac.
Ltac sp_point_refused := apply sp_point_at_above; [inc_tac | last_tac].
Ltac sp_point_answered := eexists; split; [apply sp_point_at_value; [inc_tac | last_tac] | sp_point_interval].
