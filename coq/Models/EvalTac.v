(* Tactic used by the correspondence goals written by the harness (coq/Cases/*.v):
     Goal Rabs (<M>_<method> <literal parameters> <literal point> - <implementation's float>) <= tol.
   The generated definition is unfolded, pypow / nan_div are resolved on the concrete numbers (side conditions by
   coq-interval), and the remaining closed real expression is enclosed by `interval`. A failing goal = disagreement. *)
From Coq Require Import Reals Lra.
From Interval Require Import Tactic.
From PG Require Import Models.PyReal.
Open Scope R_scope.

Lemma nan_div_lt num den : den < 0 -> nan_div num den = num / den.
Proof. intros H; apply nan_div_nz; lra. Qed.
Lemma nan_div_gt num den : 0 < den -> nan_div num den = num / den.
Proof. intros H; apply nan_div_nz; lra. Qed.

Ltac kill_pypow :=
  repeat match goal with
  | |- context [pypow ?a ?b] =>
      match a with context [pypow _ _] => fail 1 | _ => idtac end;
      rewrite (pypow_pos a b) by (interval with (i_prec 80))
  end.
Ltac kill_nan_div :=
  repeat match goal with
  | |- context [nan_div ?a ?b] =>
      first [ rewrite (nan_div_gt a b) by (interval with (i_prec 80))
            | rewrite (nan_div_lt a b) by (interval with (i_prec 80)) ]
  end.
Ltac formula_interval := cbv zeta; kill_pypow; kill_nan_div; interval with (i_prec 80).

(* point isotherms: Goal Rabs (sp_point [rows] p - value) <= tol on concrete rows: unfold the hand-written model,
   decide every pressure comparison with lra, enclose the logarithms with interval *)
From Coq Require Import List.
From PG Require Import Models.SpreadPoint.
Ltac decide_cmp :=
  repeat match goal with
  | |- context [Rlt_dec ?a ?b] => destruct (Rlt_dec a b); [ try (exfalso; lra) | try (exfalso; lra) ]
  end.
Ltac sp_point_interval := cbv [sp_point sp_from seg last_seg lin]; decide_cmp; interval with (i_prec 80).
