(* Dubinin-Astakhov: n(p) = n_m exp(-(minus_rt ln p / e)^m),  p(n) = exp(e / minus_rt * (-ln(n/n_m))^(1/m)), 1 <= m <= 3.
   minus_rt = -R T < 0 is an instance attribute; valid on 0 < p <= 1.  The powers are numpy float powers (pypow):
   at p = 1 the base minus_rt ln p / e is 0 and 0 ** m = 0 (defined because m > 0).
   Proofs about the GENERATED definitions of Gen/FormulasGen.v. *)
From Coq Require Import Reals Lra Psatz.
From Coquelicot Require Import Coquelicot.
From PG Require Import Models.PyReal Models.Common Models.PowAux Models.DR Gen.FormulasGen.
Open Scope R_scope.

(* ---------------- C10 *)
Lemma DA_inverse_lp minus_rt n_m e m p : DA_bounds n_m e m -> minus_rt < 0 -> 0 < n_m -> 0 < e -> 0 < p <= 1 ->
  DA_loading_def minus_rt n_m e m p /\ DA_pressure_def minus_rt n_m e m (DA_loading minus_rt n_m e m p) /\
  DA_pressure minus_rt n_m e m (DA_loading minus_rt n_m e m p) = p.
Proof.
  unfold DA_bounds. intros [_ [_ [Hm _]]] Hr Hn He Hp.
  assert (Hm0 : 0 < m) by lra.
  assert (Hx := DR_potential_nonneg minus_rt e p Hr He Hp).
  unfold DA_loading_def, DA_pressure_def, DA_pressure, DA_loading; cbv zeta.
  set (x := minus_rt * ln p / e) in *.
  assert (Ec : n_m * exp (- pypow x m) / n_m = exp (- pypow x m)) by (field; lra).
  rewrite Ec, ln_exp, Ropp_involutive.
  assert (Him : 0 < 1 / m) by (apply Rdiv_lt_0_compat; lra).
  repeat split; try lra.
  - apply pypow_def_nonneg; assumption.
  - apply exp_pos.
  - apply pypow_def_nonneg; [apply pypow_nonneg | exact Him].
  - rewrite pypow_inv_r by assumption. unfold x.
    replace (e / minus_rt * (minus_rt * ln p / e)) with (ln p) by (field; lra).
    apply exp_ln; lra.
Qed.

Lemma DA_inverse_pl minus_rt n_m e m n : DA_bounds n_m e m -> minus_rt < 0 -> 0 < n_m -> 0 < e -> 0 < n <= n_m ->
  DA_pressure_def minus_rt n_m e m n /\ DA_loading_def minus_rt n_m e m (DA_pressure minus_rt n_m e m n) /\
  DA_loading minus_rt n_m e m (DA_pressure minus_rt n_m e m n) = n.
Proof.
  unfold DA_bounds. intros [_ [_ [Hm _]]] Hr Hn He Hrange.
  assert (Hm0 : 0 < m) by lra.
  assert (Him : 0 < 1 / m) by (apply Rdiv_lt_0_compat; lra).
  assert (Hr0 : 0 < n / n_m) by (apply Rdiv_lt_0_compat; lra).
  assert (Hr1 : n / n_m <= 1) by (apply Rmult_le_reg_r with n_m; [lra|]; unfold Rdiv; rewrite Rmult_assoc, Rinv_l by lra; lra).
  assert (Hl := ln_nonpos (n / n_m) (conj Hr0 Hr1)).
  assert (HL : 0 <= - ln (n / n_m)) by lra.
  unfold DA_loading_def, DA_pressure_def, DA_pressure, DA_loading; cbv zeta.
  rewrite ln_exp.
  replace (minus_rt * (e / minus_rt * pypow (- ln (n / n_m)) (1 / m)) / e) with (pypow (- ln (n / n_m)) (1 / m)) by (field; lra).
  rewrite pypow_inv_l by assumption. rewrite Ropp_involutive, exp_ln by exact Hr0.
  repeat split; try lra.
  - apply pypow_def_nonneg; assumption.
  - apply exp_pos.
  - apply pypow_def_nonneg; [apply pypow_nonneg | exact Hm0].
  - field; lra.
Qed.

Lemma DA_pressure_range minus_rt n_m e m n : DA_bounds n_m e m -> minus_rt < 0 -> 0 < n_m -> 0 < e -> 0 < n <= n_m ->
  0 < DA_pressure minus_rt n_m e m n <= 1.
Proof.
  intros _ Hr _ He _. unfold DA_pressure; cbv zeta. split; [apply exp_pos|].
  apply Rle_trans with (exp 0); [|rewrite exp_0; lra]. apply exp_le_mono.
  assert (H := pypow_nonneg (- ln (n / n_m)) (1 / m)).
  assert (Hq : e / minus_rt < 0).
  { assert (0 < e / (- minus_rt)) by (apply Rdiv_lt_0_compat; lra).
    replace (e / minus_rt) with (- (e / (- minus_rt))) by (field; lra). lra. }
  set (a := e / minus_rt) in *. set (b := pypow (- ln (n / n_m)) (1 / m)) in *.
  replace (a * b) with (- ((- a) * b)) by ring.
  assert (0 <= (- a) * b) by (apply Rmult_le_pos; lra). lra.
Qed.

Lemma DA_nonneg minus_rt n_m e m p : DA_bounds n_m e m -> DA_loading_def minus_rt n_m e m p ->
  0 <= DA_loading minus_rt n_m e m p.
Proof.
  unfold DA_bounds, DA_loading. intros [Hn _] _; cbv zeta. apply Rmult_le_pos; [exact Hn | left; apply exp_pos].
Qed.

Lemma DA_saturation minus_rt n_m e m p : DA_bounds n_m e m -> DA_loading_def minus_rt n_m e m p ->
  DA_loading minus_rt n_m e m p <= n_m.
Proof.
  unfold DA_bounds, DA_loading. intros [Hn _] _; cbv zeta.
  assert (exp (- pypow (minus_rt * ln p / e) m) <= 1).
  { rewrite <- exp_0. apply exp_le_mono. generalize (pypow_nonneg (minus_rt * ln p / e) m); lra. }
  nra.
Qed.

Lemma DA_monotone minus_rt n_m e m p q : DA_bounds n_m e m -> minus_rt < 0 -> 0 < e -> 0 < p -> p <= q -> q <= 1 ->
  DA_loading minus_rt n_m e m p <= DA_loading minus_rt n_m e m q.
Proof.
  unfold DA_bounds, DA_loading. intros [Hn [_ [Hm _]]] Hr He Hp Hpq Hq; cbv zeta.
  assert (Hxq := DR_potential_nonneg minus_rt e q Hr He (conj (Rlt_le_trans _ _ _ Hp Hpq) Hq)).
  assert (Hd := DR_potential_decr minus_rt e p q Hr He Hp Hpq).
  apply Rmult_le_compat_l; [exact Hn|]. apply exp_le_mono. apply Ropp_le_contravar.
  apply pypow_le; [lra | exact Hxq | exact Hd].
Qed.

Lemma DA_strictly_monotone minus_rt n_m e m p q : DA_bounds n_m e m -> minus_rt < 0 -> 0 < n_m -> 0 < e ->
  0 < p -> p < q -> q <= 1 ->
  DA_loading minus_rt n_m e m p < DA_loading minus_rt n_m e m q.
Proof.
  unfold DA_bounds, DA_loading. intros [_ [_ [Hm _]]] Hr Hn He Hp Hpq Hq; cbv zeta.
  assert (Hxq := DR_potential_nonneg minus_rt e q Hr He (conj (Rlt_trans _ _ _ Hp Hpq) Hq)).
  assert (Hd := DR_potential_strict_decr minus_rt e p q Hr He Hp Hpq).
  apply Rmult_lt_compat_l; [exact Hn|]. apply exp_increasing. apply Ropp_lt_contravar.
  apply pypow_lt; [lra | exact Hxq | exact Hd].
Qed.

Lemma DA_at_one minus_rt n_m e m : DA_bounds n_m e m -> e <> 0 ->
  DA_loading_def minus_rt n_m e m 1 /\ DA_loading minus_rt n_m e m 1 = n_m.
Proof.
  unfold DA_bounds. intros [_ [_ [Hm _]]] He. unfold DA_loading_def, DA_loading; cbv zeta.
  assert (E : minus_rt * ln 1 / e = 0) by (rewrite ln_1; field; exact He).
  rewrite E. repeat split; [lra | exact He | right; split; [reflexivity | lra] |].
  rewrite pypow_0, Ropp_0, exp_0. ring.
Qed.

Example DA_hyps_sat : DA_bounds 2 3 2 /\ DA_loading (-1) 2 3 2 1 = 2.
Proof.
  assert (B : DA_bounds 2 3 2) by (unfold DA_bounds; lra).
  split; [exact B | apply DA_at_one; [exact B | lra]].
Qed.
