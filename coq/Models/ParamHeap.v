(* C10 - who owns a model's parameter dictionary.  A heap of dictionary OBJECTS (identity = nat), hand-written; the bindings made by
   IsothermBaseModel.__init__ / to_dict() are GENERATED (Gen/ModelInitGen.v) as values of `binding`.  The tie of this heap reading to
   the running code is tools/props/c10.py parameter_ownership (object identities observed + evaluations at the original parameters). *)
From Coq Require Import Reals List String Arith Lia.
Import ListNotations.

Inductive binding := Fresh | Alias.

Definition pdict := string -> option R.
Record heap := { cell : nat -> pdict; next : nat }.
Definition live (h : heap) (i : nat) : Prop := i < next h.

Definition restrict (names : list string) (d : pdict) : pdict :=
  fun k => if in_dec string_dec k names then d k else None.

Definition alloc (h : heap) (d : pdict) : heap * nat :=
  ({| cell := fun i => if Nat.eqb i (next h) then d else cell h i; next := S (next h) |}, next h).

(* model(parameters = <object src>): the identity of the new model's self.params *)
Definition construct (b : binding) (names : list string) (h : heap) (src : nat) : heap * nat :=
  match b with Fresh => alloc h (restrict names (cell h src)) | Alias => (h, src) end.

(* m.to_dict()['parameters'] for the model whose self.params is object m *)
Definition to_dict_parameters (b : binding) (h : heap) (m : nat) : heap * nat :=
  match b with Fresh => alloc h (cell h m) | Alias => (h, m) end.

(* d[k] = v on object i *)
Definition write (h : heap) (i : nat) (k : string) (v : R) : heap :=
  {| cell := fun j => if Nat.eqb j i then (fun k' => if string_dec k' k then Some v else cell h i k') else cell h j; next := next h |}.

Definition store := (nat * string * R)%type.
Definition target (w : store) : nat := fst (fst w).

Fixpoint writes (h : heap) (ws : list store) : heap :=
  match ws with [] => h | (i, k, v) :: r => writes (write h i k v) r end.

Lemma write_next h i k v : next (write h i k v) = next h.
Proof. reflexivity. Qed.

Lemma write_other h i k v j : j <> i -> cell (write h i k v) j = cell h j.
Proof. intros H. simpl. destruct (Nat.eqb_spec j i); [contradiction|reflexivity]. Qed.

Lemma writes_next ws : forall h, next (writes h ws) = next h.
Proof. induction ws as [|[[i k] v] r IH]; intros h; simpl; [reflexivity|]. rewrite IH. reflexivity. Qed.

Lemma writes_frame ws : forall h m, (forall w, In w ws -> target w <> m) -> cell (writes h ws) m = cell h m.
Proof.
  induction ws as [|[[i k] v] r IH]; intros h m H; simpl; [reflexivity|].
  rewrite IH by (intros w Hw; apply H; right; exact Hw).
  apply write_other. intros E. apply (H (i, k, v)); [left; reflexivity|]. unfold target; simpl. congruence.
Qed.

Lemma alloc_id h d : snd (alloc h d) = next h.
Proof. reflexivity. Qed.

Lemma alloc_new h d : cell (fst (alloc h d)) (next h) = d.
Proof. simpl. rewrite Nat.eqb_refl. reflexivity. Qed.

Lemma alloc_old h d i : live h i -> cell (fst (alloc h d)) i = cell h i.
Proof. unfold live. intros H. simpl. destruct (Nat.eqb_spec i (next h)); [lia|reflexivity]. Qed.

Lemma alloc_next h d : next (fst (alloc h d)) = S (next h).
Proof. reflexivity. Qed.

Lemma restrict_in names d k : In k names -> restrict names d k = d k.
Proof. intros H. unfold restrict. destruct (in_dec string_dec k names); [reflexivity|contradiction]. Qed.

(* ---- a constructor that builds a FRESH dictionary *)
Lemma fresh_is_new names h src : live h src ->
  let r := construct Fresh names h src in
  snd r <> src /\ ~ live h (snd r) /\ live (fst r) (snd r) /\
  (forall k, In k names -> cell (fst r) (snd r) k = cell h src k) /\
  (forall i, live h i -> cell (fst r) i = cell h i).
Proof.
  intros H r. subst r. unfold construct. rewrite alloc_id. unfold live in *.
  repeat split.
  - lia.
  - lia.
  - rewrite alloc_next. lia.
  - intros k Hk. rewrite alloc_new. apply restrict_in; exact Hk.
  - intros i Hi. apply alloc_old; exact Hi.
Qed.

(* stores into ANY object that existed before the construction (the caller's dictionary included) do not reach the model *)
Lemma fresh_frame names h src ws : live h src -> (forall w, In w ws -> live h (target w)) ->
  let r := construct Fresh names h src in
  forall k, In k names -> cell (writes (fst r) ws) (snd r) k = cell h src k.
Proof.
  intros H Hws r k Hk. subst r. unfold construct. rewrite alloc_id.
  rewrite writes_frame.
  - rewrite alloc_new. apply restrict_in; exact Hk.
  - intros w Hw E. specialize (Hws w Hw). unfold live in Hws. lia.
Qed.
