(* Jensen-Seaton: n(p) = K p / (1 + (K p / (a (1 + b p)))^c)^(1/c).  The pressure is a numerical root
   (scipy.optimize.root): generated relation JensenSeaton_pressure_spec.
   Proofs about the GENERATED definitions of Gen/FormulasGen.v. *)
From Coq Require Import Reals Lra Psatz.
From Coquelicot Require Import Coquelicot.
From PG Require Import Models.PyReal Models.Common Models.PowAux Gen.FormulasGen.
Open Scope R_scope.

Lemma JensenSeaton_zero K a b c : 0 < a -> 0 < c ->
  JensenSeaton_loading_def K a b c 0 /\ JensenSeaton_loading K a b c 0 = 0.
Proof.
  intros Ha Hc. unfold JensenSeaton_loading_def, JensenSeaton_loading; cbv zeta.
  assert (E : K * 0 / (a * (1 + b * 0)) = 0) by (field; lra). rewrite E.
  rewrite pypow_0, Rplus_0_r. rewrite pypow_pos by lra. rewrite Rpower_base1.
  repeat split; try lra.
  - right; split; [reflexivity | exact Hc].
  - left; lra.
Qed.

(* the denominator is a genuine power of a base >= 1 *)
Lemma JensenSeaton_den_ge1 z c : 0 < c -> 1 <= pypow (1 + pypow z c) (1 / c).
Proof.
  intros Hc. assert (H := pypow_nonneg z c).
  rewrite pypow_pos by lra. apply Rpower_ge1; [lra|]. left; apply Rdiv_lt_0_compat; lra.
Qed.

Lemma JensenSeaton_nonneg K a b c p : JensenSeaton_bounds K a b c -> 0 < a -> 0 < c -> 0 <= p ->
  0 <= JensenSeaton_loading K a b c p.
Proof.
  unfold JensenSeaton_bounds, JensenSeaton_loading. intros [HK _] _ _ Hp; cbv zeta.
  assert (0 <= K * p) by (apply Rmult_le_pos; lra).
  assert (Hb : 0 < 1 + pypow (K * p / (a * (1 + b * p))) c) by (generalize (pypow_nonneg (K * p / (a * (1 + b * p))) c); lra).
  apply Rmult_le_pos; [assumption|]. left; apply Rinv_0_lt_compat. apply pypow_gt0; exact Hb.
Qed.

Lemma JensenSeaton_below_henry K a b c p : JensenSeaton_bounds K a b c -> 0 < a -> 0 < c -> 0 <= p ->
  JensenSeaton_loading K a b c p <= K * p.
Proof.
  unfold JensenSeaton_bounds, JensenSeaton_loading. intros [HK _] _ Hc Hp; cbv zeta.
  assert (Hx : 0 <= K * p) by (apply Rmult_le_pos; lra).
  assert (Hd := JensenSeaton_den_ge1 (K * p / (a * (1 + b * p))) c Hc).
  set (d := pypow (1 + pypow (K * p / (a * (1 + b * p))) c) (1 / c)) in *.
  apply Rmult_le_reg_r with d; [lra|]. unfold Rdiv. rewrite Rmult_assoc, Rinv_l by lra. nra.
Qed.

(* for K p > 0:  n(p) = 1 / ((K p)^-c + (a (1 + b p))^-c)^(1/c), i.e. n^-c = (K p)^-c + (a (1 + b p))^-c *)
Lemma JensenSeaton_loading_harmonic K a b c p : 0 < K * p -> 0 < a * (1 + b * p) -> 0 < c ->
  JensenSeaton_loading K a b c p =
  / Rpower (/ Rpower (K * p) c + / Rpower (a * (1 + b * p)) c) (1 / c).
Proof.
  intros Hx Hy Hc. unfold JensenSeaton_loading; cbv zeta.
  set (x := K * p) in *. set (y := a * (1 + b * p)) in *.
  assert (Hz : 0 < x / y) by (apply Rdiv_lt_0_compat; lra).
  rewrite (pypow_pos (x / y)) by exact Hz.
  rewrite pypow_pos by (generalize (Rpower_gt0 (x / y) c); lra).
  rewrite Rpower_div_base by lra.
  assert (Hxc := Rpower_gt0 x c). assert (Hyc := Rpower_gt0 y c).
  assert (Hix : 0 < / Rpower x c) by (apply Rinv_0_lt_compat; lra).
  assert (Hiy : 0 < / Rpower y c) by (apply Rinv_0_lt_compat; lra).
  replace (1 + Rpower x c / Rpower y c) with (Rpower x c * (/ Rpower x c + / Rpower y c)) by (field; lra).
  rewrite <- Rpower_mult_distr by lra. rewrite Rpower_inv_r by lra.
  assert (Hs := Rpower_gt0 (/ Rpower x c + / Rpower y c) (1 / c)).
  field. lra.
Qed.

Lemma JensenSeaton_strictly_monotone K a b c p q : JensenSeaton_bounds K a b c -> 0 < K -> 0 < a -> 0 < c ->
  0 <= p -> p < q -> JensenSeaton_loading K a b c p < JensenSeaton_loading K a b c q.
Proof.
  unfold JensenSeaton_bounds. intros [_ [_ [Hb _]]] HK Ha Hc Hp Hpq.
  assert (Hic : 0 < 1 / c) by (apply Rdiv_lt_0_compat; lra).
  assert (Hxq : 0 < K * q) by (apply Rmult_lt_0_compat; lra).
  assert (Hyq : 0 < a * (1 + b * q)) by (apply Rmult_lt_0_compat; nra).
  rewrite (JensenSeaton_loading_harmonic K a b c q) by assumption.
  assert (Hxqc := Rpower_gt0 (K * q) c). assert (Hyqc := Rpower_gt0 (a * (1 + b * q)) c).
  assert (Hixq : 0 < / Rpower (K * q) c) by (apply Rinv_0_lt_compat; lra).
  assert (Hiyq : 0 < / Rpower (a * (1 + b * q)) c) by (apply Rinv_0_lt_compat; lra).
  destruct (Req_dec p 0) as [->|Hne].
  - destruct (JensenSeaton_zero K a b c Ha Hc) as [_ ->]. apply Rinv_0_lt_compat, Rpower_gt0.
  - assert (Hxp : 0 < K * p) by (apply Rmult_lt_0_compat; lra).
    assert (Hyp : 0 < a * (1 + b * p)) by (apply Rmult_lt_0_compat; nra).
    rewrite (JensenSeaton_loading_harmonic K a b c p) by assumption.
    assert (Hxpc := Rpower_gt0 (K * p) c). assert (Hypc := Rpower_gt0 (a * (1 + b * p)) c).
    assert (H1 : / Rpower (K * q) c < / Rpower (K * p) c).
    { apply Rinv_lt_contravar; [apply Rmult_lt_0_compat; lra|].
      apply Rlt_Rpower_l; [exact Hc|]. split; [exact Hxp | apply Rmult_lt_compat_l; lra]. }
    assert (H2 : / Rpower (a * (1 + b * q)) c <= / Rpower (a * (1 + b * p)) c).
    { apply Rinv_le_contravar; [lra|]. apply Rle_Rpower_l; [lra|]. split; [exact Hyp | apply Rmult_le_compat_l; nra]. }
    apply Rinv_lt_contravar; [apply Rmult_lt_0_compat; apply Rpower_gt0|].
    apply Rlt_Rpower_l; [exact Hic|]. lra.
Qed.

Lemma JensenSeaton_monotone K a b c p q : JensenSeaton_bounds K a b c -> 0 < K -> 0 < a -> 0 < c ->
  0 <= p -> p <= q -> JensenSeaton_loading K a b c p <= JensenSeaton_loading K a b c q.
Proof.
  intros HB HK Ha Hc Hp Hpq. destruct (Req_dec p q) as [->|Hne]; [apply Rle_refl|].
  left. apply JensenSeaton_strictly_monotone; try assumption. lra.
Qed.

(* any two non-negative roots the solver may return coincide, given strict monotonicity of the loading *)
Lemma JensenSeaton_root_unique_from_monotone K a b c n x y :
  (forall u v, 0 <= u -> u < v -> JensenSeaton_loading K a b c u < JensenSeaton_loading K a b c v) ->
  0 <= x -> 0 <= y ->
  JensenSeaton_pressure_spec K a b c n x -> JensenSeaton_pressure_spec K a b c n y -> x = y.
Proof.
  unfold JensenSeaton_pressure_spec. intros Hmono Hx Hy Ex Ey.
  apply (strict_incr_injective (JensenSeaton_loading K a b c) (fun u => 0 <= u)); [|exact Hx|exact Hy|lra].
  intros u v Hu _ Huv. apply Hmono; assumption.
Qed.

Lemma JensenSeaton_root_unique K a b c n x y : JensenSeaton_bounds K a b c -> 0 < K -> 0 < a -> 0 < c ->
  0 <= x -> 0 <= y ->
  JensenSeaton_pressure_spec K a b c n x -> JensenSeaton_pressure_spec K a b c n y -> x = y.
Proof.
  intros HB HK Ha Hc. apply JensenSeaton_root_unique_from_monotone.
  intros u v Hu Huv. apply JensenSeaton_strictly_monotone; assumption.
Qed.

Example JensenSeaton_hyps_sat : JensenSeaton_bounds 1 1 0 1 /\ JensenSeaton_loading 1 1 0 1 1 = 1 / 2.
Proof.
  split; [unfold JensenSeaton_bounds; lra|].
  rewrite JensenSeaton_loading_harmonic by lra.
  replace (1 / 1) with 1 by field. replace (1 * (1 + 0 * 1)) with 1 by ring. replace (1 * 1) with 1 by ring.
  rewrite !Rpower_1 by (try rewrite Rpower_1; lra). lra.
Qed.
