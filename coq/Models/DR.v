(* Dubinin-Radushkevich: n(p) = n_m exp(-(minus_rt ln p / e)^2),  p(n) = exp(e / minus_rt * sqrt(-ln(n/n_m))).
   minus_rt = -R T < 0 is an instance attribute; p is a relative pressure, the model is valid on 0 < p <= 1.
   Proofs about the GENERATED definitions of Gen/FormulasGen.v. *)
From Coq Require Import Reals Lra Psatz.
From Coquelicot Require Import Coquelicot.
From PG Require Import Models.PyReal Models.Common Models.PowAux Gen.FormulasGen.
Open Scope R_scope.

(* the adsorption potential over e: A/e = minus_rt ln p / e is non-negative on 0 < p <= 1 and decreasing in p *)
Lemma DR_potential_nonneg minus_rt e p : minus_rt < 0 -> 0 < e -> 0 < p <= 1 -> 0 <= minus_rt * ln p / e.
Proof.
  intros Hr He Hp. assert (Hl := ln_nonpos p Hp).
  apply Rmult_le_pos; [nra | left; apply Rinv_0_lt_compat; exact He].
Qed.

Lemma DR_potential_decr minus_rt e p q : minus_rt < 0 -> 0 < e -> 0 < p -> p <= q ->
  minus_rt * ln q / e <= minus_rt * ln p / e.
Proof.
  intros Hr He Hp Hpq. assert (Hl : ln p <= ln q) by (apply ln_le; lra).
  apply Rmult_le_compat_r; [left; apply Rinv_0_lt_compat; exact He | nra].
Qed.

Lemma DR_potential_strict_decr minus_rt e p q : minus_rt < 0 -> 0 < e -> 0 < p -> p < q ->
  minus_rt * ln q / e < minus_rt * ln p / e.
Proof.
  intros Hr He Hp Hpq. assert (Hl : ln p < ln q) by (apply ln_increasing; lra).
  apply Rmult_lt_compat_r; [apply Rinv_0_lt_compat; exact He | nra].
Qed.

(* ---------------- C10 *)
Lemma DR_inverse_lp minus_rt n_m e p : DR_bounds n_m e -> minus_rt < 0 -> 0 < n_m -> 0 < e -> 0 < p <= 1 ->
  DR_loading_def minus_rt n_m e p /\ DR_pressure_def minus_rt n_m e (DR_loading minus_rt n_m e p) /\
  DR_pressure minus_rt n_m e (DR_loading minus_rt n_m e p) = p.
Proof.
  intros _ Hr Hn He Hp.
  assert (Hx := DR_potential_nonneg minus_rt e p Hr He Hp).
  unfold DR_loading_def, DR_pressure_def, DR_pressure, DR_loading; cbv zeta.
  set (x := minus_rt * ln p / e) in *.
  assert (Ec : n_m * exp (- x ^ 2) / n_m = exp (- x ^ 2)) by (field; lra).
  rewrite Ec, ln_exp, Ropp_involutive.
  repeat split; try lra.
  - apply exp_pos.
  - apply pow2_ge_0.
  - rewrite sqrt_pow2 by exact Hx. unfold x.
    replace (e / minus_rt * (minus_rt * ln p / e)) with (ln p) by (field; lra).
    apply exp_ln; lra.
Qed.

Lemma DR_inverse_pl minus_rt n_m e n : DR_bounds n_m e -> minus_rt < 0 -> 0 < n_m -> 0 < e -> 0 < n <= n_m ->
  DR_pressure_def minus_rt n_m e n /\ DR_loading_def minus_rt n_m e (DR_pressure minus_rt n_m e n) /\
  DR_loading minus_rt n_m e (DR_pressure minus_rt n_m e n) = n.
Proof.
  intros _ Hr Hn He Hrange.
  assert (Hr0 : 0 < n / n_m) by (apply Rdiv_lt_0_compat; lra).
  assert (Hr1 : n / n_m <= 1) by (apply Rmult_le_reg_r with n_m; [lra|]; unfold Rdiv; rewrite Rmult_assoc, Rinv_l by lra; lra).
  assert (Hl := ln_nonpos (n / n_m) (conj Hr0 Hr1)).
  unfold DR_loading_def, DR_pressure_def, DR_pressure, DR_loading; cbv zeta.
  rewrite ln_exp.
  replace (minus_rt * (e / minus_rt * sqrt (- ln (n / n_m))) / e) with (sqrt (- ln (n / n_m))) by (field; lra).
  rewrite pow2_sqrt by lra. rewrite Ropp_involutive, exp_ln by exact Hr0.
  repeat split; try lra.
  - apply exp_pos.
  - field; lra.
Qed.

(* the pressure returned for a loading in (0, n_m] is a relative pressure in (0, 1] *)
Lemma DR_pressure_range minus_rt n_m e n : minus_rt < 0 -> 0 < n_m -> 0 < e -> 0 < n <= n_m ->
  0 < DR_pressure minus_rt n_m e n <= 1.
Proof.
  intros Hr Hn He Hrange. unfold DR_pressure; cbv zeta. split; [apply exp_pos|].
  rewrite <- exp_0. apply exp_le_mono.
  assert (0 <= sqrt (- ln (n / n_m))) by apply sqrt_pos.
  assert (Hq : e / minus_rt < 0).
  { assert (0 < e / (- minus_rt)) by (apply Rdiv_lt_0_compat; lra).
    replace (e / minus_rt) with (- (e / (- minus_rt))) by (field; lra). lra. }
  nra.
Qed.

Lemma DR_nonneg minus_rt n_m e p : DR_bounds n_m e -> DR_loading_def minus_rt n_m e p ->
  0 <= DR_loading minus_rt n_m e p.
Proof.
  unfold DR_bounds, DR_loading. intros [Hn _] _; cbv zeta. apply Rmult_le_pos; [exact Hn | left; apply exp_pos].
Qed.

Lemma DR_saturation minus_rt n_m e p : DR_bounds n_m e -> DR_loading_def minus_rt n_m e p ->
  DR_loading minus_rt n_m e p <= n_m.
Proof.
  unfold DR_bounds, DR_loading. intros [Hn _] _; cbv zeta.
  assert (exp (- (minus_rt * ln p / e) ^ 2) <= 1).
  { rewrite <- exp_0. apply exp_le_mono. generalize (pow2_ge_0 (minus_rt * ln p / e)); lra. }
  nra.
Qed.

Lemma DR_monotone minus_rt n_m e p q : DR_bounds n_m e -> minus_rt < 0 -> 0 < e -> 0 < p -> p <= q -> q <= 1 ->
  DR_loading minus_rt n_m e p <= DR_loading minus_rt n_m e q.
Proof.
  unfold DR_bounds, DR_loading. intros [Hn _] Hr He Hp Hpq Hq; cbv zeta.
  assert (Hxq := DR_potential_nonneg minus_rt e q Hr He (conj (Rlt_le_trans _ _ _ Hp Hpq) Hq)).
  assert (Hd := DR_potential_decr minus_rt e p q Hr He Hp Hpq).
  apply Rmult_le_compat_l; [exact Hn|]. apply exp_le_mono. nra.
Qed.

Lemma DR_strictly_monotone minus_rt n_m e p q : minus_rt < 0 -> 0 < n_m -> 0 < e -> 0 < p -> p < q -> q <= 1 ->
  DR_loading minus_rt n_m e p < DR_loading minus_rt n_m e q.
Proof.
  unfold DR_loading. intros Hr Hn He Hp Hpq Hq; cbv zeta.
  assert (Hxq := DR_potential_nonneg minus_rt e q Hr He (conj (Rlt_trans _ _ _ Hp Hpq) Hq)).
  assert (Hd := DR_potential_strict_decr minus_rt e p q Hr He Hp Hpq).
  apply Rmult_lt_compat_l; [exact Hn|]. apply exp_increasing. nra.
Qed.

Lemma DR_at_one minus_rt n_m e : e <> 0 ->
  DR_loading_def minus_rt n_m e 1 /\ DR_loading minus_rt n_m e 1 = n_m.
Proof.
  intros He. unfold DR_loading_def, DR_loading; cbv zeta. repeat split; [lra | exact He |].
  rewrite ln_1, Rmult_0_r. unfold Rdiv. rewrite Rmult_0_l. simpl. rewrite Rmult_0_l, Ropp_0, exp_0. ring.
Qed.

Example DR_hyps_sat : DR_bounds 2 3 /\ DR_loading (-1) 2 3 1 = 2.
Proof. split; [unfold DR_bounds; lra | apply DR_at_one; lra]. Qed.
