(* Power-function helpers shared by the Freundlich / Toth / DR / DA / JensenSeaton proofs (pypow of Models/PyReal.v). *)
From Coq Require Import Reals Lra Psatz.
From Coquelicot Require Import Coquelicot.
From PG Require Import Models.PyReal.
Open Scope R_scope.

Lemma Rpower_gt0 x y : 0 < Rpower x y.
Proof. unfold Rpower; apply exp_pos. Qed.

Lemma Rpower_base1 y : Rpower 1 y = 1.
Proof. unfold Rpower. rewrite ln_1, Rmult_0_r. apply exp_0. Qed.

Lemma Rpower_inv_r x y : 0 < x -> y <> 0 -> Rpower (Rpower x y) (1 / y) = x.
Proof.
  intros Hx Hy. rewrite Rpower_mult. replace (y * (1 / y)) with 1 by (field; exact Hy). apply Rpower_1; exact Hx.
Qed.

Lemma Rpower_inv_l x y : 0 < x -> y <> 0 -> Rpower (Rpower x (1 / y)) y = x.
Proof.
  intros Hx Hy. rewrite Rpower_mult. replace (1 / y * y) with 1 by (field; exact Hy). apply Rpower_1; exact Hx.
Qed.

Lemma Rpower_Rinv_base x z : 0 < x -> Rpower (/ x) z = / Rpower x z.
Proof.
  intros Hx. unfold Rpower. rewrite ln_Rinv by exact Hx.
  replace (z * - ln x) with (- (z * ln x)) by ring. apply exp_Ropp.
Qed.

Lemma Rpower_div_base x y z : 0 < x -> 0 < y -> Rpower (x / y) z = Rpower x z / Rpower y z.
Proof.
  intros Hx Hy. unfold Rdiv. rewrite <- Rpower_mult_distr; [|exact Hx|apply Rinv_0_lt_compat; exact Hy].
  rewrite Rpower_Rinv_base by exact Hy. reflexivity.
Qed.

Lemma Rpower_lt1 x z : 0 < x < 1 -> 0 < z -> Rpower x z < 1.
Proof. intros Hx Hz. rewrite <- (Rpower_base1 z). apply Rlt_Rpower_l; lra. Qed.

Lemma Rpower_ge1 x z : 1 <= x -> 0 <= z -> 1 <= Rpower x z.
Proof. intros Hx Hz. rewrite <- (Rpower_base1 z). apply Rle_Rpower_l; lra. Qed.

Lemma Rpower_gt1 x z : 1 < x -> 0 < z -> 1 < Rpower x z.
Proof. intros Hx Hz. rewrite <- (Rpower_base1 z). apply Rlt_Rpower_l; lra. Qed.

(* strictly increasing in the base => the base can be recovered from an inequality of powers *)
Lemma Rpower_lt_reg_l a b c : 0 < c -> 0 < a -> 0 < b -> Rpower a c < Rpower b c -> a < b.
Proof.
  intros Hc Ha Hb H. destruct (Rlt_le_dec a b) as [L|L]; [exact L|].
  assert (Rpower b c <= Rpower a c) by (apply Rle_Rpower_l; lra). lra.
Qed.

(* ---- pypow on the non-negative half line *)
Lemma pypow_inv_r x m : 0 <= x -> 0 < m -> pypow (pypow x m) (1 / m) = x.
Proof.
  intros Hx Hm. destruct (Req_dec x 0) as [->|Hne].
  - rewrite pypow_0, pypow_0. reflexivity.
  - assert (0 < x) by lra. rewrite (pypow_pos x) by assumption.
    rewrite pypow_pos by apply Rpower_gt0. apply Rpower_inv_r; lra.
Qed.

Lemma pypow_inv_l x m : 0 <= x -> 0 < m -> pypow (pypow x (1 / m)) m = x.
Proof.
  intros Hx Hm. destruct (Req_dec x 0) as [->|Hne].
  - rewrite pypow_0, pypow_0. reflexivity.
  - assert (0 < x) by lra. rewrite (pypow_pos x) by assumption.
    rewrite pypow_pos by apply Rpower_gt0. apply Rpower_inv_l; lra.
Qed.

Lemma pypow_def_nonneg x m : 0 <= x -> 0 < m -> pypow_def x m.
Proof. intros Hx Hm. unfold pypow_def. destruct (Req_dec x 0); [right; split; assumption | left; lra]. Qed.

Lemma pypow_le x y m : 0 < m -> 0 <= x -> x <= y -> pypow x m <= pypow y m.
Proof.
  intros Hm Hx Hxy. destruct (Req_dec x 0) as [->|Hne].
  - rewrite pypow_0. apply pypow_nonneg.
  - rewrite !pypow_pos by lra. apply Rle_Rpower_l; lra.
Qed.

Lemma pypow_lt x y m : 0 < m -> 0 <= x -> x < y -> pypow x m < pypow y m.
Proof.
  intros Hm Hx Hxy. destruct (Req_dec x 0) as [->|Hne].
  - rewrite pypow_0. apply pypow_gt0; lra.
  - rewrite !pypow_pos by lra. apply Rlt_Rpower_l; lra.
Qed.

(* ---- derivative of u |-> pypow u y at a positive point (pypow = Rpower on the open set u > 0) *)
Lemma is_derive_Rpower_base x y : 0 < x -> is_derive (fun u => Rpower u y) x (y * Rpower x y / x).
Proof.
  intros Hx. unfold Rpower. auto_derive; [exact Hx|]. field. lra.
Qed.

Lemma pypow_locally_Rpower x y : 0 < x -> locally x (fun u => Rpower u y = pypow u y).
Proof.
  intros Hx. apply (locally_interval _ x 0 p_infty); simpl; [exact Hx|exact I|].
  intros u Hu _. symmetry; apply pypow_pos; exact Hu.
Qed.

Lemma is_derive_pypow_base x y : 0 < x -> is_derive (fun u => pypow u y) x (y * Rpower x y / x).
Proof.
  intros Hx. apply (is_derive_ext_loc (fun u => Rpower u y)); [apply pypow_locally_Rpower; exact Hx|].
  apply is_derive_Rpower_base; exact Hx.
Qed.

Lemma exp_le_mono x y : x <= y -> exp x <= exp y.
Proof. intros [H| ->]; [left; apply exp_increasing; exact H | apply Rle_refl]. Qed.

Lemma ln_nonpos x : 0 < x <= 1 -> ln x <= 0.
Proof. intros [H0 H1]. rewrite <- ln_1. apply ln_le; assumption. Qed.

Lemma ln_neg x : 0 < x < 1 -> ln x < 0.
Proof. intros [H0 H1]. rewrite <- ln_1. apply ln_increasing; assumption. Qed.
