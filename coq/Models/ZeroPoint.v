(* C10, the zero point of the four quadratic-formula models whose pressure() ends with
     res = num / (2 x);  if numpy.isnan(res).any(): res = numpy.nan_to_num(res)
   (bet.py, gab.py, dslangmuir.py, quadratic.py; generated as `nan_div num (2 x)` by tools/py2v_formulas.py, which accepts
   exactly the spelling WITHOUT copy=False: that one also works for Python floats, numpy scalars and 0-d arrays, so the
   pointwise reading is the method's behaviour for every input kind).
   For EVERY parameter vector inside the declared bounds - including the degenerate points C = N, C = 1, Kb = 0, K = 0, n_m = 0
   where the leading coefficient vanishes and the quotient is 0/0 - the round trip through the zero point is the identity in
   both orders, and every sqrt / denominator side condition holds (no reliance on Coq's x / 0 = 0).
   Proofs about the GENERATED definitions of Gen/FormulasGen.v. *)
From Coq Require Import Reals Lra Psatz.
From Coquelicot Require Import Coquelicot.
From PG Require Import Models.PyReal Models.Common Gen.FormulasGen Models.BET Models.GAB Models.DSLangmuir Models.Quadratic.
Open Scope R_scope.

Lemma sqrt_sq_nonneg y : 0 <= y -> sqrt (y ^ 2) = y.
Proof. intros H. rewrite <- Rsqr_pow2. apply sqrt_Rsqr; exact H. Qed.

(* ---------------- BET *)
Lemma BET_zero_roundtrip n_m C N : BET_bounds n_m C N ->
  BET_loading_def n_m C N 0 /\ BET_pressure_def n_m C N (BET_loading n_m C N 0) /\
  BET_pressure n_m C N (BET_loading n_m C N 0) = 0 /\
  BET_loading n_m C N (BET_pressure n_m C N 0) = 0.
Proof.
  intros (Hn & HC & _ & _).
  destruct (BET_zero_point n_m C N Hn HC) as [E D].
  rewrite BET_zero, E, BET_zero.
  split; [|split; [exact D | split; reflexivity]].
  unfold BET_loading_def; cbv zeta. rewrite !Rmult_0_r. lra.
Qed.

(* ---------------- GAB *)
Lemma GAB_zero_roundtrip n_m C K : GAB_bounds n_m C K ->
  GAB_loading_def n_m C K 0 /\ GAB_pressure_def n_m C K (GAB_loading n_m C K 0) /\
  GAB_pressure n_m C K (GAB_loading n_m C K 0) = 0 /\
  GAB_loading n_m C K (GAB_pressure n_m C K 0) = 0.
Proof.
  intros (Hn & HC & HK & _).
  destruct (GAB_zero_point n_m C K Hn HC HK) as [E D].
  rewrite GAB_zero, E, GAB_zero.
  split; [|split; [exact D | split; reflexivity]].
  unfold GAB_loading_def; cbv zeta. rewrite !Rmult_0_r. lra.
Qed.

(* ---------------- DSLangmuir: x = (n_m1 + n_m2) K1 K2 >= 0 (0 when a site is switched off), y = n_m1 K1 + n_m2 K2 >= 0,
   numerator - y + sqrt (y^2) = 0 *)
Lemma DSLangmuir_zero_point n_m1 K1 n_m2 K2 : DSLangmuir_bounds n_m1 K1 n_m2 K2 ->
  DSLangmuir_pressure n_m1 K1 n_m2 K2 0 = 0 /\ DSLangmuir_pressure_def n_m1 K1 n_m2 K2 0.
Proof.
  intros (H1 & H2 & H3 & H4).
  assert (Hy : 0 <= n_m1 * K1 + n_m2 * K2 - 0 * (K1 + K2)).
  { assert (0 <= n_m1 * K1) by (apply Rmult_le_pos; lra). assert (0 <= n_m2 * K2) by (apply Rmult_le_pos; lra). lra. }
  unfold DSLangmuir_pressure, DSLangmuir_pressure_def; cbv zeta.
  set (x := (n_m1 + n_m2 - 0) * K1 * K2).
  set (y := n_m1 * K1 + n_m2 * K2 - 0 * (K1 + K2)) in *.
  replace (y ^ 2 - 4 * x * - 0) with (y ^ 2) by ring.
  rewrite sqrt_sq_nonneg by exact Hy.
  replace (- y + y) with 0 by ring.
  split.
  - unfold nan_div. destruct (Req_EM_T (2 * x) 0); [reflexivity | unfold Rdiv; apply Rmult_0_l].
  - split; [apply pow2_ge_0 | split; [right; reflexivity | exact I]].
Qed.

Lemma DSLangmuir_zero_roundtrip n_m1 K1 n_m2 K2 : DSLangmuir_bounds n_m1 K1 n_m2 K2 ->
  DSLangmuir_loading_def n_m1 K1 n_m2 K2 0 /\ DSLangmuir_pressure_def n_m1 K1 n_m2 K2 (DSLangmuir_loading n_m1 K1 n_m2 K2 0) /\
  DSLangmuir_pressure n_m1 K1 n_m2 K2 (DSLangmuir_loading n_m1 K1 n_m2 K2 0) = 0 /\
  DSLangmuir_loading n_m1 K1 n_m2 K2 (DSLangmuir_pressure n_m1 K1 n_m2 K2 0) = 0.
Proof.
  intros B. destruct (DSLangmuir_zero_point n_m1 K1 n_m2 K2 B) as [E D].
  rewrite DSLangmuir_zero, E, DSLangmuir_zero.
  split; [|split; [exact D | split; reflexivity]].
  apply DSLangmuir_loading_defined; [exact B | lra].
Qed.

(* ---------------- Quadratic (library bounds: only 0 <= n_m; the model's own domain 0 <= Ka; Kb arbitrary, incl. Kb = 0) *)
Lemma Quadratic_zero_point_all n_m Ka Kb : Quadratic_bounds n_m Ka Kb -> 0 <= Ka ->
  Quadratic_pressure n_m Ka Kb 0 = 0 /\ Quadratic_pressure_def n_m Ka Kb 0.
Proof.
  unfold Quadratic_bounds. intros Hn HKa.
  assert (Hy : (0 - n_m) * Ka <= 0) by nra.
  unfold Quadratic_pressure, Quadratic_pressure_def; cbv zeta.
  set (x := (0 - 2 * n_m) * Kb).
  set (y := (0 - n_m) * Ka) in *.
  replace (4 * x * 0) with 0 by ring.
  rewrite (Quadratic_sqrt_sq_neg y Hy).
  split.
  - unfold nan_div. destruct (Req_EM_T (2 * x) 0); [reflexivity | unfold Rdiv; apply Rmult_0_l].
  - split; [rewrite Rminus_0_r; apply pow2_ge_0 | split; [right; reflexivity | exact I]].
Qed.

Lemma Quadratic_zero_roundtrip n_m Ka Kb : Quadratic_bounds n_m Ka Kb -> 0 <= Ka ->
  Quadratic_loading_def n_m Ka Kb 0 /\ Quadratic_pressure_def n_m Ka Kb (Quadratic_loading n_m Ka Kb 0) /\
  Quadratic_pressure n_m Ka Kb (Quadratic_loading n_m Ka Kb 0) = 0 /\
  Quadratic_loading n_m Ka Kb (Quadratic_pressure n_m Ka Kb 0) = 0.
Proof.
  intros B HKa. destruct (Quadratic_zero_point_all n_m Ka Kb B HKa) as [E D].
  rewrite Quadratic_zero, E, Quadratic_zero.
  split; [|split; [exact D | split; reflexivity]].
  unfold Quadratic_loading_def; cbv zeta. replace (1 + Ka * 0 + Kb * 0 ^ 2) with 1 by ring. lra.
Qed.

(* the hypotheses are satisfiable at a degenerate point: BET with C = N *)
Example BET_zero_roundtrip_degenerate_example :
  BET_bounds 5 (1/2) (1/2) /\ BET_pressure 5 (1/2) (1/2) (BET_loading 5 (1/2) (1/2) 0) = 0.
Proof.
  assert (B : BET_bounds 5 (1/2) (1/2)) by (unfold BET_bounds; lra).
  split; [exact B|]. apply (BET_zero_roundtrip 5 (1/2) (1/2) B).
Qed.
