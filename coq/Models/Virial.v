(* Virial: p(n) = n exp(-ln K + A n + B n^2 + C n^3).  The loading is a numerical root (Nelder-Mead on the squared
   residual): generated relation Virial_loading_spec.  Proofs about the GENERATED definitions of Gen/FormulasGen.v. *)
From Coq Require Import Reals Lra Psatz.
From Coquelicot Require Import Coquelicot.
From PG Require Import Models.PyReal Models.Common Models.PowAux Gen.FormulasGen.
Open Scope R_scope.

Lemma Virial_zero K A B C : 0 < K -> Virial_pressure_def K A B C 0 /\ Virial_pressure K A B C 0 = 0.
Proof. intros HK. unfold Virial_pressure_def, Virial_pressure. split; [exact HK | apply Rmult_0_l]. Qed.

Lemma Virial_nonneg K A B C n : 0 < K -> 0 <= n -> 0 <= Virial_pressure K A B C n.
Proof. intros _ Hn. unfold Virial_pressure. apply Rmult_le_pos; [exact Hn | left; apply exp_pos]. Qed.

Lemma Virial_pos K A B C n : 0 < K -> 0 < n -> 0 < Virial_pressure K A B C n.
Proof. intros _ Hn. unfold Virial_pressure. apply Rmult_lt_0_compat; [exact Hn | apply exp_pos]. Qed.

(* Henry slope: dp/dn at zero loading is 1/K, i.e. the loading has initial slope K *)
Lemma Virial_henry K A B C : 0 < K -> is_derive (Virial_pressure K A B C) 0 (1 / K).
Proof.
  intros HK. unfold Virial_pressure. auto_derive; [exact I|].
  replace (- ln K + A * 0 + B * (0 * (0 * 1)) + C * (0 * (0 * (0 * 1)))) with (- ln K) by ring.
  rewrite exp_Ropp, exp_ln by exact HK. field. lra.
Qed.

(* the exponent is non-decreasing on n >= 0 when A, B, C >= 0 *)
Lemma Virial_exponent_incr K A B C u v : 0 <= A -> 0 <= B -> 0 <= C -> 0 <= u -> u <= v ->
  - ln K + A * u + B * u ^ 2 + C * u ^ 3 <= - ln K + A * v + B * v ^ 2 + C * v ^ 3.
Proof.
  intros HA HB HC Hu Huv.
  assert (H1 : A * u <= A * v) by (apply Rmult_le_compat_l; lra).
  assert (H2 : u ^ 2 <= v ^ 2) by (apply pow_incr; lra).
  assert (H3 : u ^ 3 <= v ^ 3) by (apply pow_incr; lra).
  assert (B * u ^ 2 <= B * v ^ 2) by (apply Rmult_le_compat_l; lra).
  assert (C * u ^ 3 <= C * v ^ 3) by (apply Rmult_le_compat_l; lra).
  lra.
Qed.

Lemma Virial_monotone_when_nonneg K A B C u v : Virial_bounds K A B C -> 0 < K -> 0 <= A -> 0 <= B -> 0 <= C ->
  0 <= u -> u < v -> Virial_pressure K A B C u < Virial_pressure K A B C v.
Proof.
  intros _ HK HA HB HC Hu Huv. unfold Virial_pressure.
  assert (He := exp_le_mono _ _ (Virial_exponent_incr K A B C u v HA HB HC Hu (Rlt_le _ _ Huv))).
  assert (Hpu := exp_pos (- ln K + A * u + B * u ^ 2 + C * u ^ 3)).
  set (eu := exp (- ln K + A * u + B * u ^ 2 + C * u ^ 3)) in *.
  set (ev := exp (- ln K + A * v + B * v ^ 2 + C * v ^ 3)) in *.
  apply Rle_lt_trans with (u * ev); [apply Rmult_le_compat_l; lra | apply Rmult_lt_compat_r; lra].
Qed.

Lemma Virial_root_unique K A B C p x y : Virial_bounds K A B C -> 0 < K -> 0 <= A -> 0 <= B -> 0 <= C ->
  0 <= x -> 0 <= y ->
  Virial_loading_spec K A B C p x -> Virial_loading_spec K A B C p y -> x = y.
Proof.
  unfold Virial_loading_spec. intros HBd HK HA HB HC Hx Hy Ex Ey.
  apply (strict_incr_injective (Virial_pressure K A B C) (fun u => 0 <= u)); [|exact Hx|exact Hy|lra].
  intros u v Hu _ Huv. apply Virial_monotone_when_nonneg; assumption.
Qed.

Lemma Virial_loading_increasing K A B C p q x y : Virial_bounds K A B C -> 0 < K -> 0 <= A -> 0 <= B -> 0 <= C ->
  0 <= x -> 0 <= y ->
  Virial_loading_spec K A B C p x -> Virial_loading_spec K A B C q y -> p < q -> x < y.
Proof.
  unfold Virial_loading_spec. intros HBd HK HA HB HC Hx Hy Ex Ey Hpq.
  destruct (Rlt_le_dec x y) as [Hlt|Hle]; [exact Hlt|exfalso].
  destruct (Req_dec y x) as [->|Hne]; [lra|].
  assert (H := Virial_monotone_when_nonneg K A B C y x HBd HK HA HB HC). lra.
Qed.

Lemma Virial_root_unique_from_monotone K A B C p x y :
  (forall u v, 0 <= u -> u < v -> Virial_pressure K A B C u < Virial_pressure K A B C v) ->
  0 <= x -> 0 <= y ->
  Virial_loading_spec K A B C p x -> Virial_loading_spec K A B C p y -> x = y.
Proof.
  unfold Virial_loading_spec. intros Hmono Hx Hy Ex Ey.
  apply (strict_incr_injective (Virial_pressure K A B C) (fun u => 0 <= u)); [|exact Hx|exact Hy|lra].
  intros u v Hu _ Huv. apply Hmono; assumption.
Qed.

Example Virial_hyps_sat : Virial_bounds 1 0 0 0 /\ Virial_pressure_def 1 0 0 0 2 /\ Virial_pressure 1 0 0 0 2 = 2.
Proof.
  unfold Virial_bounds, Virial_pressure_def, Virial_pressure. repeat split; try lra.
  rewrite ln_1. replace (- 0 + 0 * 2 + 0 * 2 ^ 2 + 0 * 2 ^ 3) with 0 by ring. rewrite exp_0. ring.
Qed.
