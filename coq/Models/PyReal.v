(* Real-number reading of the two numpy idioms the generated formulas need (used by Gen/FormulasGen.v).
   pypow  : numpy `x ** y` / numpy.power for float exponents: exp (y ln x) for x > 0, and 0 ** y = 0 for y > 0;
            every other combination (negative base, 0 ** non-positive) is outside pypow_def (numpy gives nan / inf / 1).
   nan_div: `res = num / den; if isnan(res).any(): res = nan_to_num(res)` : 0/0 |-> 0; defined when den <> 0 or num = 0
            (x/0 with x <> 0 is +-inf in numpy and stays outside the definedness predicate). *)
From Coq Require Import Reals Lra.
Open Scope R_scope.

Definition pypow (x y : R) : R := if Req_EM_T x 0 then 0 else Rpower x y.
Definition pypow_def (x y : R) : Prop := 0 < x \/ (x = 0 /\ 0 < y).
Definition nan_div (num den : R) : R := if Req_EM_T den 0 then 0 else num / den.

Lemma pypow_pos x y : 0 < x -> pypow x y = Rpower x y.
Proof. intros H; unfold pypow; destruct (Req_EM_T x 0); [lra | reflexivity]. Qed.
Lemma pypow_0 y : pypow 0 y = 0.
Proof. unfold pypow; destruct (Req_EM_T 0 0); [reflexivity | lra]. Qed.
Lemma pypow_nonneg x y : 0 <= pypow x y.
Proof. unfold pypow; destruct (Req_EM_T x 0); [lra |]. unfold Rpower; left; apply exp_pos. Qed.
Lemma pypow_gt0 x y : 0 < x -> 0 < pypow x y.
Proof. intros H; rewrite pypow_pos by assumption; unfold Rpower; apply exp_pos. Qed.
Lemma nan_div_nz num den : den <> 0 -> nan_div num den = num / den.
Proof. intros H; unfold nan_div; destruct (Req_EM_T den 0); [contradiction | reflexivity]. Qed.
Lemma nan_div_0 num : nan_div num 0 = 0.
Proof. unfold nan_div; destruct (Req_EM_T 0 0); [reflexivity | lra]. Qed.
