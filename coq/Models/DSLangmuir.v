(* DSLangmuir: n(p) = n_m1 K1 p / (1 + K1 p) + n_m2 K2 p / (1 + K2 p).
   Proofs about the GENERATED definitions of Gen/FormulasGen.v. *)
From Coq Require Import Reals Lra Psatz.
From Coquelicot Require Import Coquelicot.
From PG Require Import Models.PyReal Models.Common Gen.FormulasGen Models.Langmuir.
Open Scope R_scope.

(* the loading / spreading pressure are sums of two Langmuir terms (definitional) *)
Lemma DSLangmuir_loading_split n_m1 K1 n_m2 K2 p :
  DSLangmuir_loading n_m1 K1 n_m2 K2 p = Langmuir_loading K1 n_m1 p + Langmuir_loading K2 n_m2 p.
Proof. reflexivity. Qed.

Lemma DSLangmuir_spreading_split n_m1 K1 n_m2 K2 p :
  DSLangmuir_spreading_pressure n_m1 K1 n_m2 K2 p =
  Langmuir_spreading_pressure K1 n_m1 p + Langmuir_spreading_pressure K2 n_m2 p.
Proof. reflexivity. Qed.

Lemma DSLangmuir_loading_defined n_m1 K1 n_m2 K2 p : DSLangmuir_bounds n_m1 K1 n_m2 K2 -> 0 <= p ->
  DSLangmuir_loading_def n_m1 K1 n_m2 K2 p.
Proof.
  unfold DSLangmuir_bounds, DSLangmuir_loading_def. intros (Hn1 & HK1 & Hn2 & HK2) Hp; cbv zeta.
  assert (0 <= K1 * p) by (apply Rmult_le_pos; lra).
  assert (0 <= K2 * p) by (apply Rmult_le_pos; lra).
  split; lra.
Qed.

(* ---------------- C10 *)
Lemma DSLangmuir_zero n_m1 K1 n_m2 K2 : DSLangmuir_loading n_m1 K1 n_m2 K2 0 = 0.
Proof. rewrite DSLangmuir_loading_split, !Langmuir_zero. lra. Qed.

Lemma DSLangmuir_nonneg n_m1 K1 n_m2 K2 p : DSLangmuir_bounds n_m1 K1 n_m2 K2 -> 0 <= p ->
  0 <= DSLangmuir_loading n_m1 K1 n_m2 K2 p.
Proof.
  intros (Hn1 & HK1 & Hn2 & HK2) Hp. rewrite DSLangmuir_loading_split.
  assert (0 <= Langmuir_loading K1 n_m1 p) by (apply Langmuir_nonneg; [split|]; assumption).
  assert (0 <= Langmuir_loading K2 n_m2 p) by (apply Langmuir_nonneg; [split|]; assumption).
  lra.
Qed.

(* a single Langmuir term never exceeds its capacity (also when the capacity is 0) *)
Lemma DSLangmuir_site_le_capacity K n_m p : Langmuir_bounds K n_m -> 0 <= p -> Langmuir_loading K n_m p <= n_m.
Proof.
  intros [HK Hn] Hp. destruct (Req_dec n_m 0) as [->|Hne].
  - unfold Langmuir_loading; cbv zeta. unfold Rdiv. rewrite !Rmult_0_l. lra.
  - left. apply Langmuir_saturation; [split; assumption | lra | assumption].
Qed.

(* strictly below the total capacity as soon as one site has positive capacity *)
Lemma DSLangmuir_saturation n_m1 K1 n_m2 K2 p : DSLangmuir_bounds n_m1 K1 n_m2 K2 ->
  0 < n_m1 \/ 0 < n_m2 -> 0 <= p ->
  DSLangmuir_loading n_m1 K1 n_m2 K2 p < n_m1 + n_m2.
Proof.
  intros (Hn1 & HK1 & Hn2 & HK2) Hpos Hp. rewrite DSLangmuir_loading_split.
  assert (B1 : Langmuir_bounds K1 n_m1) by (split; assumption).
  assert (B2 : Langmuir_bounds K2 n_m2) by (split; assumption).
  destruct Hpos as [H1|H2].
  - generalize (Langmuir_saturation K1 n_m1 p B1 H1 Hp) (DSLangmuir_site_le_capacity K2 n_m2 p B2 Hp). lra.
  - generalize (Langmuir_saturation K2 n_m2 p B2 H2 Hp) (DSLangmuir_site_le_capacity K1 n_m1 p B1 Hp). lra.
Qed.

Lemma DSLangmuir_monotone n_m1 K1 n_m2 K2 p q : DSLangmuir_bounds n_m1 K1 n_m2 K2 -> 0 <= p -> p <= q ->
  DSLangmuir_loading n_m1 K1 n_m2 K2 p <= DSLangmuir_loading n_m1 K1 n_m2 K2 q.
Proof.
  intros (Hn1 & HK1 & Hn2 & HK2) Hp Hpq. rewrite !DSLangmuir_loading_split.
  apply Rplus_le_compat; apply Langmuir_monotone; try split; assumption.
Qed.

Lemma DSLangmuir_strictly_monotone n_m1 K1 n_m2 K2 p q : 0 < n_m1 -> 0 < K1 -> 0 < n_m2 -> 0 < K2 ->
  0 <= p -> p < q ->
  DSLangmuir_loading n_m1 K1 n_m2 K2 p < DSLangmuir_loading n_m1 K1 n_m2 K2 q.
Proof.
  intros Hn1 HK1 Hn2 HK2 Hp Hpq. rewrite !DSLangmuir_loading_split.
  apply Rplus_lt_compat; apply Langmuir_strictly_monotone; assumption.
Qed.

(* strict monotonicity already holds when ONE site is active (n_m K > 0), the other merely within bounds *)
Lemma DSLangmuir_strictly_monotone_one_site n_m1 K1 n_m2 K2 p q : DSLangmuir_bounds n_m1 K1 n_m2 K2 ->
  (0 < n_m1 /\ 0 < K1) \/ (0 < n_m2 /\ 0 < K2) -> 0 <= p -> p < q ->
  DSLangmuir_loading n_m1 K1 n_m2 K2 p < DSLangmuir_loading n_m1 K1 n_m2 K2 q.
Proof.
  intros (Hn1 & HK1 & Hn2 & HK2) Hact Hp Hpq. rewrite !DSLangmuir_loading_split.
  assert (Hle : p <= q) by lra.
  destruct Hact as [[A B]|[A B]].
  - generalize (Langmuir_strictly_monotone K1 n_m1 p q B A Hp Hpq)
               (Langmuir_monotone K2 n_m2 p q (conj HK2 Hn2) Hp Hle). lra.
  - generalize (Langmuir_strictly_monotone K2 n_m2 p q B A Hp Hpq)
               (Langmuir_monotone K1 n_m1 p q (conj HK1 Hn1) Hp Hle). lra.
Qed.

(* Henry slope: the derivative of the loading at zero pressure is n_m1 K1 + n_m2 K2 *)
Lemma DSLangmuir_henry n_m1 K1 n_m2 K2 :
  is_derive (DSLangmuir_loading n_m1 K1 n_m2 K2) 0 (n_m1 * K1 + n_m2 * K2).
Proof.
  apply (is_derive_ext (fun p => plus (Langmuir_loading K1 n_m1 p) (Langmuir_loading K2 n_m2 p))).
  - intros t. reflexivity.
  - apply (is_derive_plus (Langmuir_loading K1 n_m1) (Langmuir_loading K2 n_m2)); apply Langmuir_henry.
Qed.

(* the quadratic solved by pressure(): with x = (n_m1+n_m2-n) K1 K2 and y = n_m1 K1 + n_m2 K2 - n (K1+K2),
   n = loading p  <->  x p^2 + y p - n = 0  (for 1 + K1 p <> 0, 1 + K2 p <> 0) *)
Lemma DSLangmuir_quadratic n_m1 K1 n_m2 K2 p n : 1 + K1 * p <> 0 -> 1 + K2 * p <> 0 ->
  (n_m1 + n_m2 - n) * K1 * K2 * p ^ 2 + (n_m1 * K1 + n_m2 * K2 - n * (K1 + K2)) * p + - n =
  (DSLangmuir_loading n_m1 K1 n_m2 K2 p - n) * ((1 + K1 * p) * (1 + K2 * p)).
Proof. intros H1 H2. unfold DSLangmuir_loading; cbv zeta. field. split; assumption. Qed.

Lemma DSLangmuir_inverse_lp n_m1 K1 n_m2 K2 p : DSLangmuir_bounds n_m1 K1 n_m2 K2 ->
  0 < n_m1 -> 0 < n_m2 -> 0 < K1 -> 0 < K2 -> 0 <= p ->
  DSLangmuir_loading_def n_m1 K1 n_m2 K2 p /\
  DSLangmuir_pressure_def n_m1 K1 n_m2 K2 (DSLangmuir_loading n_m1 K1 n_m2 K2 p) /\
  DSLangmuir_pressure n_m1 K1 n_m2 K2 (DSLangmuir_loading n_m1 K1 n_m2 K2 p) = p.
Proof.
  intros B Hn1 Hn2 HK1 HK2 Hp.
  assert (Hnn := DSLangmuir_nonneg n_m1 K1 n_m2 K2 p B Hp).
  assert (Hsat := DSLangmuir_saturation n_m1 K1 n_m2 K2 p B (or_introl Hn1) Hp).
  assert (Hdef := DSLangmuir_loading_defined n_m1 K1 n_m2 K2 p B Hp).
  assert (Hz := DSLangmuir_zero n_m1 K1 n_m2 K2).
  assert (P1 : 0 <= K1 * p) by (apply Rmult_le_pos; lra).
  assert (P2 : 0 <= K2 * p) by (apply Rmult_le_pos; lra).
  assert (Hq := DSLangmuir_quadratic n_m1 K1 n_m2 K2 p (DSLangmuir_loading n_m1 K1 n_m2 K2 p)
                  ltac:(lra) ltac:(lra)).
  replace (DSLangmuir_loading n_m1 K1 n_m2 K2 p - DSLangmuir_loading n_m1 K1 n_m2 K2 p) with 0 in Hq by ring.
  rewrite Rmult_0_l in Hq.
  unfold DSLangmuir_pressure_def, DSLangmuir_pressure; cbv zeta.
  set (n := DSLangmuir_loading n_m1 K1 n_m2 K2 p) in *.
  set (x := (n_m1 + n_m2 - n) * K1 * K2) in *.
  set (y := n_m1 * K1 + n_m2 * K2 - n * (K1 + K2)) in *.
  assert (Hx : 0 < x) by (unfold x; apply Rmult_lt_0_compat; [apply Rmult_lt_0_compat|]; lra).
  assert (Hs : 0 <= 2 * x * p + y).
  { destruct (Req_dec p 0) as [E|E].
    - assert (E0 : n = 0) by (unfold n; rewrite E; exact Hz).
      unfold y. rewrite E, E0.
      assert (0 < n_m1 * K1) by (apply Rmult_lt_0_compat; lra).
      assert (0 < n_m2 * K2) by (apply Rmult_lt_0_compat; lra). lra.
    - assert (Hp' : 0 < p) by lra.
      assert (0 <= x * p ^ 2) by (apply Rmult_le_pos; [lra | apply pow2_ge_0]).
      assert (Hm : 0 <= (2 * x * p + y) * p) by (replace ((2 * x * p + y) * p) with (x * p ^ 2 + n) by lra; lra).
      destruct (Rle_lt_dec 0 (2 * x * p + y)) as [L|L]; [exact L|].
      exfalso. assert (0 < (- (2 * x * p + y)) * p) by (apply Rmult_lt_0_compat; lra). lra. }
  split; [exact Hdef|]. repeat split.
  - rewrite (quad_disc x y (- n) p Hq). apply pow2_ge_0.
  - left. lra.
  - rewrite nan_div_nz by lra. apply quad_root_plus; [lra | exact Hq | exact Hs].
Qed.

(* the converse on the image of the loading function *)
Lemma DSLangmuir_inverse_pl_partial n_m1 K1 n_m2 K2 p : DSLangmuir_bounds n_m1 K1 n_m2 K2 ->
  0 < n_m1 -> 0 < n_m2 -> 0 < K1 -> 0 < K2 -> 0 <= p ->
  let n := DSLangmuir_loading n_m1 K1 n_m2 K2 p in
  DSLangmuir_loading n_m1 K1 n_m2 K2 (DSLangmuir_pressure n_m1 K1 n_m2 K2 n) = n.
Proof.
  intros B Hn1 Hn2 HK1 HK2 Hp n. unfold n.
  destruct (DSLangmuir_inverse_lp n_m1 K1 n_m2 K2 p B Hn1 Hn2 HK1 HK2 Hp) as (_ & _ & E).
  rewrite E. reflexivity.
Qed.

(* full converse: every loading below the total capacity is attained, at the non-negative pressure the formula returns *)
Lemma DSLangmuir_inverse_pl n_m1 K1 n_m2 K2 n : DSLangmuir_bounds n_m1 K1 n_m2 K2 ->
  0 < n_m1 -> 0 < n_m2 -> 0 < K1 -> 0 < K2 -> 0 <= n < n_m1 + n_m2 ->
  DSLangmuir_pressure_def n_m1 K1 n_m2 K2 n /\
  0 <= DSLangmuir_pressure n_m1 K1 n_m2 K2 n /\
  DSLangmuir_loading_def n_m1 K1 n_m2 K2 (DSLangmuir_pressure n_m1 K1 n_m2 K2 n) /\
  DSLangmuir_loading n_m1 K1 n_m2 K2 (DSLangmuir_pressure n_m1 K1 n_m2 K2 n) = n.
Proof.
  intros B Hn1 Hn2 HK1 HK2 Hn.
  assert (Hx : 0 < (n_m1 + n_m2 - n) * K1 * K2)
    by (apply Rmult_lt_0_compat; [apply Rmult_lt_0_compat|]; lra).
  assert (Hd : 0 <= (n_m1 * K1 + n_m2 * K2 - n * (K1 + K2)) ^ 2 - 4 * ((n_m1 + n_m2 - n) * K1 * K2) * - n).
  { assert (0 <= (n_m1 * K1 + n_m2 * K2 - n * (K1 + K2)) ^ 2) by apply pow2_ge_0.
    assert (0 <= (n_m1 + n_m2 - n) * K1 * K2 * n) by (apply Rmult_le_pos; lra). lra. }
  assert (Hpdef : DSLangmuir_pressure_def n_m1 K1 n_m2 K2 n).
  { unfold DSLangmuir_pressure_def; cbv zeta. repeat split; [exact Hd | left; lra]. }
  assert (Hpv : exists p, DSLangmuir_pressure n_m1 K1 n_m2 K2 n = p /\ 0 <= p /\
            (n_m1 + n_m2 - n) * K1 * K2 * p ^ 2 + (n_m1 * K1 + n_m2 * K2 - n * (K1 + K2)) * p + - n = 0).
  { unfold DSLangmuir_pressure; cbv zeta.
    set (x := (n_m1 + n_m2 - n) * K1 * K2) in *.
    set (y := n_m1 * K1 + n_m2 * K2 - n * (K1 + K2)) in *.
    set (d := y ^ 2 - 4 * x * - n) in *.
    rewrite nan_div_nz by lra.
    assert (Hs0 : 0 <= sqrt d) by apply sqrt_pos.
    assert (Hss : sqrt d * sqrt d = d) by (apply sqrt_sqrt; exact Hd).
    assert (Hxn : 0 <= x * n) by (apply Rmult_le_pos; lra).
    assert (Hys : y <= sqrt d).
    { destruct (Rle_lt_dec y 0) as [L|L]; [lra|].
      destruct (Rle_lt_dec y (sqrt d)) as [M|M]; [exact M|]. exfalso.
      assert (sqrt d * sqrt d < y * y) by (apply Rmult_le_0_lt_compat; lra).
      assert (d = y * y + 4 * (x * n)) by (unfold d; ring). lra. }
    exists ((- y + sqrt d) / (2 * x)). split; [reflexivity|]. split.
    - apply Rmult_le_pos; [lra | left; apply Rinv_0_lt_compat; lra].
    - set (p := (- y + sqrt d) / (2 * x)).
      assert (Ep : 2 * x * p = - y + sqrt d) by (unfold p; field; lra).
      assert (Ex : x * (x * p ^ 2 + y * p + - n) = 0).
      { replace (x * (x * p ^ 2 + y * p + - n)) with (((2 * x * p) ^ 2 + 2 * y * (2 * x * p) - 4 * x * n) / 4) by field.
        rewrite Ep. assert (d = y * y + 4 * (x * n)) by (unfold d; ring). nra. }
      apply Rmult_integral in Ex. destruct Ex; lra. }
  destruct Hpv as (p & Ep & Hp & Hq). rewrite Ep.
  assert (Hdef := DSLangmuir_loading_defined n_m1 K1 n_m2 K2 p B Hp).
  assert (P1 : 0 <= K1 * p) by (apply Rmult_le_pos; lra).
  assert (P2 : 0 <= K2 * p) by (apply Rmult_le_pos; lra).
  rewrite (DSLangmuir_quadratic n_m1 K1 n_m2 K2 p n) in Hq by lra.
  split; [exact Hpdef|]. split; [exact Hp|]. split; [exact Hdef|].
  apply Rmult_integral in Hq. destruct Hq as [Hq|Hq]; [lra|].
  exfalso. assert (0 < (1 + K1 * p) * (1 + K2 * p)) by (apply Rmult_lt_0_compat; lra). lra.
Qed.

(* ---------------- C11 *)
Lemma DSLangmuir_gibbs n_m1 K1 n_m2 K2 p : 0 <= K1 -> 0 <= K2 -> 0 < p ->
  DSLangmuir_spreading_pressure_def n_m1 K1 n_m2 K2 p /\
  is_derive (DSLangmuir_spreading_pressure n_m1 K1 n_m2 K2) p (DSLangmuir_loading n_m1 K1 n_m2 K2 p / p).
Proof.
  intros HK1 HK2 Hp.
  destruct (Langmuir_gibbs K1 n_m1 p HK1 Hp) as [D1 G1].
  destruct (Langmuir_gibbs K2 n_m2 p HK2 Hp) as [D2 G2].
  split; [split; [exact D1 | exact D2]|].
  apply (is_derive_ext (fun p => plus (Langmuir_spreading_pressure K1 n_m1 p) (Langmuir_spreading_pressure K2 n_m2 p))).
  - intros t. reflexivity.
  - rewrite DSLangmuir_loading_split.
    replace ((Langmuir_loading K1 n_m1 p + Langmuir_loading K2 n_m2 p) / p)
      with (plus (Langmuir_loading K1 n_m1 p / p) (Langmuir_loading K2 n_m2 p / p))
      by (unfold plus; simpl; field; lra).
    apply (is_derive_plus (Langmuir_spreading_pressure K1 n_m1) (Langmuir_spreading_pressure K2 n_m2)); assumption.
Qed.

Lemma DSLangmuir_spread_zero n_m1 K1 n_m2 K2 : DSLangmuir_spreading_pressure n_m1 K1 n_m2 K2 0 = 0.
Proof. rewrite DSLangmuir_spreading_split, !Langmuir_spread_zero. lra. Qed.

(* integral form, from 0: the integrand n(x)/x is singular as an expression at 0 only *)
Lemma DSLangmuir_spread_is_RInt n_m1 K1 n_m2 K2 a p : 0 <= K1 -> 0 <= K2 -> 0 <= a -> a <= p ->
  is_RInt (fun x => DSLangmuir_loading n_m1 K1 n_m2 K2 x / x) a p
          (DSLangmuir_spreading_pressure n_m1 K1 n_m2 K2 p - DSLangmuir_spreading_pressure n_m1 K1 n_m2 K2 a).
Proof.
  intros HK1 HK2 Ha Hap.
  apply (RInt_from_derivative (DSLangmuir_spreading_pressure n_m1 K1 n_m2 K2) _
           (fun x => n_m1 * K1 / (1 + K1 * x) + n_m2 * K2 / (1 + K2 * x))); [exact Hap| | |].
  - intros x Hx. assert (0 <= K1 * x) by (apply Rmult_le_pos; lra).
    assert (0 <= K2 * x) by (apply Rmult_le_pos; lra).
    unfold DSLangmuir_spreading_pressure. auto_derive; [split; [lra | split; [lra | exact I]]|]. field; lra.
  - intros x Hx. assert (0 <= K1 * x) by (apply Rmult_le_pos; lra).
    assert (0 <= K2 * x) by (apply Rmult_le_pos; lra).
    apply (ex_derive_continuous (fun x => n_m1 * K1 / (1 + K1 * x) + n_m2 * K2 / (1 + K2 * x)) x).
    auto_derive. split; [lra | split; [lra | exact I]].
  - intros x Hx. assert (0 <= K1 * x) by (apply Rmult_le_pos; lra).
    assert (0 <= K2 * x) by (apply Rmult_le_pos; lra).
    unfold DSLangmuir_loading; cbv zeta. field. repeat split; lra.
Qed.

Lemma DSLangmuir_spread_from_zero n_m1 K1 n_m2 K2 p : 0 <= K1 -> 0 <= K2 -> 0 <= p ->
  is_RInt (fun x => DSLangmuir_loading n_m1 K1 n_m2 K2 x / x) 0 p (DSLangmuir_spreading_pressure n_m1 K1 n_m2 K2 p).
Proof.
  intros HK1 HK2 Hp. generalize (DSLangmuir_spread_is_RInt n_m1 K1 n_m2 K2 0 p HK1 HK2 (Rle_refl 0) Hp).
  rewrite DSLangmuir_spread_zero, Rminus_0_r. exact (fun H => H).
Qed.

Lemma DSLangmuir_spread_incr n_m1 K1 n_m2 K2 p q : DSLangmuir_bounds n_m1 K1 n_m2 K2 -> 0 <= p -> p <= q ->
  DSLangmuir_spreading_pressure n_m1 K1 n_m2 K2 p <= DSLangmuir_spreading_pressure n_m1 K1 n_m2 K2 q.
Proof.
  intros (Hn1 & HK1 & Hn2 & HK2) Hp Hpq. rewrite !DSLangmuir_spreading_split.
  apply Rplus_le_compat; apply Langmuir_spread_incr; try split; assumption.
Qed.
