(* Executable twin of UnitsSpec over Q, proved equal to the real-valued specification
   (so the harness can evaluate the SPEC, not the code's model, when searching for a failing input). *)
From Coq Require Import Reals Lra QArith Qreals String List.
From PG Require Import Units.UnitsSpec.
Import ListNotations.

Definition pa_perQ (u : punit) : Q :=
  match u with Pa => 1 | kPa => 1000 | MPa => 1000000 | mbar => 100 | bar => 100000 | atm => 101325
             | mmHg => 133322 # 1000 | torr => 133322 # 1000 end.
Definition p_canonQ (psat : Q) (r : prep) : Q :=
  match r with PAbs u => pa_perQ u | PRel => psat | PRelPct => psat / 100 end.
Definition mol_perQ (u : molunit) : Q :=
  match u with mmol => 1 # 1000 | mol => 1 | kmol => 1000 | cm3STP => 4461 # 100000000 | mLSTP => 4461 # 100000000
             | ccSTP => 4461 # 100000000 | LSTP => 4461 # 100000 end.
Definition g_perQ (u : massunit) : Q :=
  match u with amu => 166054 # 100000000000000000000000000000000 | mg => 1 # 1000 | cg => 1 # 100 | dg => 1 # 10 | g => 1 | kg => 1000 end.
Definition cm3_perQ (u : volunit) : Q :=
  match u with cm3 => 1 | mL => 1 | cc => 1 | dm3 => 1000 | L => 1000 | m3 => 1000000 end.
Definition m_canonQ (dens mm : Q) (r : mrep) : Q :=
  match r with MMass u => g_perQ u | MVol u => cm3_perQ u * dens | MMolar u => mol_perQ u * mm end.
Definition l_canon_physQ (M rml rmg : Q) (r : lrep) : Q :=
  match r with
  | LMolar u => mol_perQ u | LMass u => g_perQ u / M
  | LVolGas u => cm3_perQ u * rmg | LVolLiq u => cm3_perQ u * rml
  | _ => 0 end.
Definition l_canonQ (M rml rmg : Q) (mat : mrep) (r : lrep) : Q :=
  match r with
  | LFraction => l_canon_physQ M rml rmg (l_of_m mat)
  | LPercent => l_canon_physQ M rml rmg (l_of_m mat) / 100
  | _ => l_canon_physQ M rml rmg r end.
Definition spec_convQ (c1 c2 v : Q) : Q := v * c1 / c2.

Open Scope R_scope.
Ltac q2r := unfold Q2R; simpl; lra.
Lemma pa_perQ_ok u : Q2R (pa_perQ u) = pa_per u. Proof. destruct u; q2r. Qed.
Lemma mol_perQ_ok u : Q2R (mol_perQ u) = mol_per u. Proof. destruct u; q2r. Qed.
Lemma g_perQ_ok u : Q2R (g_perQ u) = g_per u. Proof. destruct u; q2r. Qed.
Lemma cm3_perQ_ok u : Q2R (cm3_perQ u) = cm3_per u. Proof. destruct u; q2r. Qed.
Lemma Q2R_100 : Q2R 100 = 100. Proof. q2r. Qed.
Lemma p_canonQ_ok psat r : ~ (psat == 0)%Q -> Q2R (p_canonQ psat r) = p_canon (Q2R psat) r.
Proof.
  intro H; destruct r as [u| |]; simpl; [apply pa_perQ_ok|reflexivity|].
  rewrite Q2R_div by (intro E; discriminate E). now rewrite Q2R_100.
Qed.
Lemma m_canonQ_ok d mm r : Q2R (m_canonQ d mm r) = m_canon (Q2R d) (Q2R mm) r.
Proof. destruct r as [u|u|u]; simpl; rewrite ?Q2R_mult, ?g_perQ_ok, ?cm3_perQ_ok, ?mol_perQ_ok; reflexivity. Qed.
Lemma l_canon_physQ_ok M rml rmg r : ~ (M == 0)%Q ->
  Q2R (l_canon_physQ M rml rmg r) = l_canon_phys (Q2R M) (Q2R rml) (Q2R rmg) r.
Proof.
  intro H; destruct r as [u|u|u|u| |]; simpl;
  rewrite ?Q2R_mult, ?Q2R_div, ?g_perQ_ok, ?cm3_perQ_ok, ?mol_perQ_ok by assumption; try reflexivity; q2r.
Qed.
Lemma l_canonQ_ok M rml rmg mat r : ~ (M == 0)%Q ->
  Q2R (l_canonQ M rml rmg mat r) = l_canon (Q2R M) (Q2R rml) (Q2R rmg) mat r.
Proof.
  intro H; destruct r as [u|u|u|u| |]; cbn [l_canonQ l_canon]; try (apply l_canon_physQ_ok; assumption).
  rewrite Q2R_div by (intro E; discriminate E). rewrite Q2R_100, l_canon_physQ_ok by assumption. reflexivity.
Qed.
Lemma spec_convQ_ok c1 c2 v : ~ (c2 == 0)%Q -> Q2R (spec_convQ c1 c2 v) = spec_conv (Q2R c1) (Q2R c2) (Q2R v).
Proof. intro H; unfold spec_convQ, spec_conv. rewrite Q2R_div, Q2R_mult by assumption. reflexivity. Qed.
