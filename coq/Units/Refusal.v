(* C01, refusal clause: statements for ALL strings (not only the enumerated labels). *)
From Coq Require Import Reals Lra QArith Qreals ZArith String List Bool.
From PG Require Import Lib.Num Lib.Py Lib.Tac Gen.UnitsGen1 Units.AdsOracle Gen.UnitsGen2 Units.UnitsSpec
  Units.PressureProofs Units.LoadingPhys Units.MaterialProofs.
Import ListNotations.
Open Scope string_scope.

Definition known_pmode (s : option string) : bool := ostr_in s [Some "absolute"; Some "relative"; Some "relative%"].
Definition known_lbasis (s : option string) : bool :=
  ostr_in s [Some "mass"; Some "volume_gas"; Some "volume_liquid"; Some "molar"; Some "percent"; Some "fraction"].
Definition known_mbasis (s : option string) : bool := ostr_in s [Some "mass"; Some "volume"; Some "molar"].
Definition known_punit (s : option string) : bool := tbl_mem s (_PRESSURE_UNITS RNum).

Lemma eqb_sym_false a b : String.eqb a b = false -> String.eqb b a = false.
Proof. rewrite String.eqb_sym; auto. Qed.

Ltac kill_eqb :=
  repeat match goal with
  | H : (_ || _)%bool = false |- _ => apply orb_false_elim in H; destruct H
  | H : String.eqb _ _ = false |- _ => first [rewrite H | rewrite (eqb_sym_false _ _ H)]; clear H
  end.

Lemma check_basis_unknown_p s : known_pmode s = false ->
  _check_basis RNum s (_PRESSURE_MODE RNum) (Some "pressure") = Err ParameterError.
Proof.
  destruct s as [s|]; [|reflexivity]. unfold known_pmode; cbn [ostr_in ostr_eqb]. intro H.
  unfold _check_basis. destruct (ostr_truthy (Some s)); [|reflexivity]. cbn [negb].
  unfold mtbl_mem, _PRESSURE_MODE; cbn [assoc]. kill_eqb. reflexivity.
Qed.
Lemma check_basis_unknown_l s : known_lbasis s = false ->
  _check_basis RNum s (_LOADING_MODE RNum) (Some "loading") = Err ParameterError.
Proof.
  destruct s as [s|]; [|reflexivity]. unfold known_lbasis; cbn [ostr_in ostr_eqb]. intro H.
  unfold _check_basis. destruct (ostr_truthy (Some s)); [|reflexivity]. cbn [negb].
  unfold mtbl_mem, _LOADING_MODE; cbn [assoc]. kill_eqb. reflexivity.
Qed.
Lemma check_basis_unknown_m s : known_mbasis s = false ->
  _check_basis RNum s (_MATERIAL_MODE RNum) (Some "material") = Err ParameterError.
Proof.
  destruct s as [s|]; [|reflexivity]. unfold known_mbasis; cbn [ostr_in ostr_eqb]. intro H.
  unfold _check_basis. destruct (ostr_truthy (Some s)); [|reflexivity]. cbn [negb].
  unfold mtbl_mem, _MATERIAL_MODE; cbn [assoc]. kill_eqb. reflexivity.
Qed.
Lemma check_basis_known_p s : known_pmode s = true ->
  _check_basis RNum s (_PRESSURE_MODE RNum) (Some "pressure") = Ok tt.
Proof.
  unfold known_pmode; cbn [ostr_in]. rewrite !orb_true_iff, !ostr_eqb_eq.
  intros [H|[H|[H|H]]]; try discriminate H; subst; reflexivity.
Qed.

(* a missing (None / empty) or unknown mode, source or target, is a ParameterError whatever else is passed *)
Theorem c_pressure_refuses_unknown_mode v m1 m2 u1 u2 a T :
  known_pmode m1 = false \/ known_pmode m2 = false ->
  c_pressure RNum v m1 m2 u1 u2 a T = Err ParameterError.
Proof.
  intros [H|H]; unfold c_pressure.
  - rewrite (check_basis_unknown_p _ H). reflexivity.
  - destruct (known_pmode m1) eqn:E1.
    + rewrite (check_basis_known_p _ E1), (check_basis_unknown_p _ H). reflexivity.
    + rewrite (check_basis_unknown_p _ E1). reflexivity.
Qed.
Theorem c_loading_refuses_unknown_basis v b1 b2 u1 u2 a T bm um :
  known_lbasis b1 = false -> c_loading RNum v b1 b2 u1 u2 a T bm um = Err ParameterError.
Proof. intro H; unfold c_loading. rewrite (check_basis_unknown_l _ H). reflexivity. Qed.
Theorem c_material_refuses_unknown_basis v b1 b2 u1 u2 m :
  known_mbasis b1 = false -> c_material RNum v b1 b2 u1 u2 m = Err ParameterError.
Proof. intro H; unfold c_material. rewrite (check_basis_unknown_m _ H). reflexivity. Qed.

Lemma check_unit_unknown_p u : known_punit u = false ->
  _check_unit RNum u (_PRESSURE_UNITS RNum) (Some "pressure") = Err ParameterError.
Proof. unfold known_punit, _check_unit; intro H. destruct (ostr_truthy u); cbn [negb]; [rewrite H|]; reflexivity. Qed.

(* relative(%) -> absolute with a missing or unknown target unit: ParameterError, for every string *)
Theorem c_pressure_refuses_unknown_unit_to v rel u1 u2 a T :
  rel = Some "relative" \/ rel = Some "relative%" -> known_punit u2 = false ->
  c_pressure RNum v rel (Some "absolute") u1 u2 a T = Err ParameterError.
Proof.
  intros [->| ->] H; unfold c_pressure; cbn -[_check_unit _PRESSURE_UNITS ads_saturation_pressure];
  rewrite (check_unit_unknown_p _ H); reflexivity.
Qed.
Theorem c_pressure_refuses_unknown_unit_from v rel u1 u2 a T :
  rel = Some "relative" \/ rel = Some "relative%" -> known_punit u1 = false ->
  c_pressure RNum v (Some "absolute") rel u1 u2 a T = Err ParameterError.
Proof.
  intros [->| ->] H; unfold c_pressure; cbn -[_check_unit _PRESSURE_UNITS ads_saturation_pressure];
  rewrite (check_unit_unknown_p _ H); reflexivity.
Qed.
(* absolute -> absolute naming a target unit: both units are checked *)
Theorem c_pressure_refuses_unknown_unit_abs v u1 u2 a T :
  ostr_truthy u2 = true -> known_punit u1 = false \/ known_punit u2 = false ->
  c_pressure RNum v (Some "absolute") (Some "absolute") u1 u2 a T = Err ParameterError.
Proof.
  intros Ht H. unfold c_pressure. cbn -[c_unit _PRESSURE_UNITS ostr_truthy]. rewrite Ht.
  cbn -[c_unit _PRESSURE_UNITS]. unfold c_unit.
  fold (_PRESSURE_UNITS RNum).
  destruct (known_punit u2) eqn:E2.
  - destruct H as [H|H]; [|discriminate H].
    assert (Hc : _check_unit RNum u2 (_PRESSURE_UNITS RNum) (Some "conversion") = Ok tt).
    { unfold _check_unit. rewrite Ht. unfold known_punit in E2. rewrite E2. reflexivity. }
    rewrite Hc. cbn [bind].
    assert (Hd : _check_unit RNum u1 (_PRESSURE_UNITS RNum) (Some "conversion") = Err ParameterError).
    { unfold _check_unit. unfold known_punit in H. destruct (ostr_truthy u1); cbn [negb]; [rewrite H|]; reflexivity. }
    rewrite Hd. reflexivity.
  - assert (Hd : _check_unit RNum u2 (_PRESSURE_UNITS RNum) (Some "conversion") = Err ParameterError).
    { unfold _check_unit. rewrite Ht. unfold known_punit in E2. cbn [negb]. rewrite E2. reflexivity. }
    rewrite Hd. reflexivity.
Qed.

(* ---- where the code does NOT refuse (the exact statement, so these are theorems too) *)
Open Scope R_scope.
(* same mode: labels that make no sense are not looked at *)
Theorem same_repr_skips_checks_refuted :
  (forall v a T, c_pressure RNum v (Some "relative") (Some "relative") (Some "bogus") (Some "bogus") a T = Ok v)
  /\ (forall v a T, c_pressure RNum v (Some "absolute") (Some "absolute") (Some "bogus") None a T = Ok v)
  /\ (forall v a T bm um, c_loading RNum v (Some "molar") (Some "molar") (Some "bogus") (Some "bogus") a T bm um = Ok v)
  /\ (forall v m, c_material RNum v (Some "mass") (Some "mass") (Some "bogus") None m = Ok v).
Proof. repeat split; intros; reflexivity. Qed.
(* fraction without a material basis: KeyError, not ParameterError *)
Theorem fraction_without_material_refuted :
  forall v a T, c_loading RNum v (Some "molar") (Some "fraction") (Some "mmol") None a T None None = Err KeyError.
Proof. intros; reflexivity. Qed.
(* material without density: TypeError, not ParameterError *)
Theorem material_without_density_refuted :
  forall v, c_material RNum v (Some "mass") (Some "volume") (Some "g") (Some "cm3") (mkMat RNum None None) = Err TypeError.
Proof. intros; reflexivity. Qed.
(* a zero or missing temperature is refused when a mode change needs the saturation pressure *)
Theorem c_pressure_refuses_missing_temp v u a :
  known_punit u = true ->
  c_pressure RNum v (Some "relative") (Some "absolute") None u a None = Err ParameterError.
Proof.
  intro H. unfold c_pressure. cbn -[_check_unit _PRESSURE_UNITS ads_saturation_pressure].
  assert (Hc : _check_unit RNum u (_PRESSURE_UNITS RNum) (Some "pressure") = Ok tt).
  { unfold _check_unit, known_punit in *. destruct u as [[|c s]|]; try discriminate H. cbn [ostr_truthy negb]. rewrite H. reflexivity. }
  rewrite Hc. reflexivity.
Qed.
