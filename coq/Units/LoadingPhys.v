From Coq Require Import Reals Lra QArith Qreals ZArith String List Bool.
From PG Require Import Lib.Num Lib.Py Lib.Tac Gen.UnitsGen1 Units.AdsOracle Gen.UnitsGen2 Units.UnitsSpec.
Import ListNotations.
Open Scope R_scope.

(* adsorbate constants at the isotherm temperature; the mass densities are the molar ones times M
   (the consistency C20 establishes for backend adsorbates) *)
Definition ads_l (M rml rmg : R) : adsorbate RNum :=
  @ads_const RNum None (Some M) (Some (rml * M)) (Some (rmg * M)) (Some rml) (Some rmg).

Lemma l_canon_phys_eq M rml rmg mat r : l_is_phys r = true -> l_canon M rml rmg mat r = l_canon_phys M rml rmg r.
Proof. destruct r; simpl; congruence. Qed.

(* 25 x 25 physical representations: the material labels are not consulted at all *)
Lemma c_loading_factor_phys M rml rmg temp v bm um op (r1 r2 : lrep) :
  0 < M -> 0 < rml -> 0 < rmg -> l_is_phys r1 = true -> l_is_phys r2 = true ->
  c_loading RNum v (l_basis r1) (l_basis r2) (l_unit r1) (l_unit r2) (@ads_const RNum op (Some M) (Some (rml * M)) (Some (rmg * M)) (Some rml) (Some rmg)) temp bm um
  = Ok (spec_conv (l_canon_phys M rml rmg r1) (l_canon_phys M rml rmg r2) v).
Proof.
  intros HM Hl Hg H1 H2. unfold spec_conv.
  destruct r1 as [[]|[]|[]|[]| |]; try discriminate H1;
  destruct r2 as [[]|[]|[]|[]| |]; try discriminate H2;
  cbn [l_basis l_unit l_canon_phys mol_per g_per cm3_per molunit_name massunit_name volunit_name];
  solve_conv.
Qed.
