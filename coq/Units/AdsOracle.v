(* Hand-written oracle boundary (H): what converter_mode.py reads from the Adsorbate and Material
   objects. The thermodynamic backend is NOT modelled: an adsorbate is the record of the values its
   methods return at the isotherm temperature, each possibly unavailable (backend fails and no user
   property -> CalculationError, adsorbate.py:_raise_calculation_error). The one piece of logic on
   this boundary, Adsorbate.saturation_pressure's unit argument (adsorbate.py:551-561), is transcribed. *)
From Coq Require Import QArith ZArith String List Bool.
From PG Require Import Lib.Num Lib.Py Gen.UnitsGen1.
Open Scope string_scope.
Section Oracle.
Variable N : Num.
(* every temperature-dependent property is a FUNCTION of the temperature argument the code passes
   (None when the call omits it), so that passing the wrong temperature is visible in the model *)
Record adsorbate := mkAds { a_psat_Pa : option N -> option N; a_M : option N; a_rho_l : option N -> option N;
                            a_rho_g : option N -> option N; a_rhom_l : option N -> option N; a_rhom_g : option N -> option N }.
Record material := mkMat { m_density : option N; m_molar_mass : option N }.
Definition oget (x : option N) : res N := match x with Some v => Ok v | None => Err CalculationError end.
Definition ads_molar_mass (a : adsorbate) := oget (a_M a).
Definition ads_liquid_density (a : adsorbate) (temp : option N) := oget (a_rho_l a temp).
Definition ads_gas_density (a : adsorbate) (temp : option N) := oget (a_rho_g a temp).
Definition ads_liquid_molar_density (a : adsorbate) (temp : option N) := oget (a_rhom_l a temp).
Definition ads_gas_molar_density (a : adsorbate) (temp : option N) := oget (a_rhom_g a temp).
(* sat_p in Pa from the backend or the properties dictionary; then `if unit is not None: c_unit(...)` *)
Definition ads_saturation_pressure (a : adsorbate) (temp : option N) (py_unit : option string) : res N :=
  bind (oget (a_psat_Pa a temp)) (fun p =>
    match py_unit with
    | None => Ok p
    | Some _ => c_unit N (_PRESSURE_UNITS N) p (Some "Pa") py_unit 1%Z
    end).
(* Material.density / .molar_mass are properties.get(...) : None when absent; arithmetic on None -> TypeError *)
Definition mat_density (m : material) : res N := match m_density m with Some v => Ok v | None => Err TypeError end.
Definition mat_molar_mass (m : material) : res N := match m_molar_mass m with Some v => Ok v | None => Err TypeError end.
(* the adsorbate seen at one temperature: constant functions *)
Definition ads_const (p : option N) (M : option N) (rl rg rml rmg : option N) : adsorbate :=
  mkAds (fun _ => p) M (fun _ => rl) (fun _ => rg) (fun _ => rml) (fun _ => rmg).
Definition at_temp (a : adsorbate) (temp : option N) : adsorbate :=
  ads_const (a_psat_Pa a temp) (a_M a) (a_rho_l a temp) (a_rho_g a temp) (a_rhom_l a temp) (a_rhom_g a temp).
End Oracle.
Arguments ads_const {N}. Arguments at_temp {N}.
Arguments a_psat_Pa {N}. Arguments a_M {N}. Arguments a_rho_l {N}. Arguments a_rho_g {N}.
Arguments a_rhom_l {N}. Arguments a_rhom_g {N}. Arguments m_density {N}. Arguments m_molar_mass {N}.
Arguments ads_molar_mass {N}. Arguments ads_liquid_density {N}. Arguments ads_gas_density {N}.
Arguments ads_liquid_molar_density {N}. Arguments ads_gas_molar_density {N}.
Arguments ads_saturation_pressure {N}. Arguments mat_density {N}. Arguments mat_molar_mass {N}. Arguments oget {N}.
