From Coq Require Import Reals Lra QArith Qreals ZArith String List Bool.
From PG Require Import Lib.Num Lib.Py Lib.Tac Gen.UnitsGen1 Units.AdsOracle Gen.UnitsGen2 Units.UnitsSpec.
Import ListNotations.
Open Scope R_scope.

Definition ads_p (psat : R) : adsorbate RNum :=
  @ads_const RNum (Some psat) None None None None None.

(* c_pressure reads nothing of the adsorbate but its saturation pressure: the other fields are arbitrary *)
Lemma c_pressure_factor_gen psat T v (r1 r2 : prep) oM o1 o2 o3 o4 :
  0 < psat -> T <> 0 ->
  c_pressure RNum v (p_mode r1) (p_mode r2) (p_unit r1) (p_unit r2) (@ads_const RNum (Some psat) oM o1 o2 o3 o4) (Some T)
  = Ok (spec_conv (p_canon psat r1) (p_canon psat r2) v).
Proof.
  intros Hp HT. unfold spec_conv.
  destruct r1 as [[]| |], r2 as [[]| |]; cbn [p_mode p_unit p_canon pa_per punit_name]; solve_conv.
Qed.

(* c_pressure multiplies by exactly the SI factor, for every ordered pair of the 10 representations,
   every value, every positive saturation pressure and non-zero temperature. *)
Lemma c_pressure_factor_all psat T v (r1 r2 : prep) :
  0 < psat -> T <> 0 ->
  c_pressure RNum v (p_mode r1) (p_mode r2) (p_unit r1) (p_unit r2) (ads_p psat) (Some T)
  = Ok (spec_conv (p_canon psat r1) (p_canon psat r2) v).
Proof. intros; now apply c_pressure_factor_gen. Qed.
