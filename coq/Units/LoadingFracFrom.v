From Coq Require Import Reals Lra QArith Qreals ZArith String List Bool.
From PG Require Import Lib.Num Lib.Py Lib.Tac Gen.UnitsGen1 Units.AdsOracle Gen.UnitsGen2 Units.UnitsSpec Units.LoadingPhys.
Import ListNotations.
Open Scope R_scope.

(* fraction / percent -> physical, for each of the 19 material representations *)
Lemma c_loading_factor_frac_from M rml rmg temp v op (mat : mrep) (r1 r2 : lrep) :
  0 < M -> 0 < rml -> 0 < rmg -> l_is_phys r1 = false -> l_is_phys r2 = true ->
  c_loading RNum v (l_basis r1) (l_basis r2) (l_unit r1) (l_unit r2) (@ads_const RNum op (Some M) (Some (rml * M)) (Some (rmg * M)) (Some rml) (Some rmg)) temp (m_basis mat) (m_unit mat)
  = Ok (spec_conv (l_canon M rml rmg mat r1) (l_canon_phys M rml rmg r2) v).
Proof.
  intros HM Hl Hg H1 H2. unfold spec_conv.
  destruct r1 as [[]|[]|[]|[]| |]; try discriminate H1;
  destruct r2 as [[]|[]|[]|[]| |]; try discriminate H2;
  destruct mat as [[]|[]|[]];
  cbn [l_basis l_unit l_canon l_of_m l_canon_phys m_basis m_unit mol_per g_per cm3_per molunit_name massunit_name volunit_name];
  solve_conv.
Qed.
