From Coq Require Import Reals Lra QArith Qreals ZArith String List Bool.
From PG Require Import Lib.Num Lib.Py Lib.Tac Gen.UnitsGen1 Units.AdsOracle Gen.UnitsGen2 Units.UnitsSpec.
Import ListNotations.
Open Scope R_scope.

Definition mat_of (dens mm : R) : material RNum := mkMat RNum (Some dens) (Some mm).

(* a quantity "per amount of material": the canonical factors enter inverted *)
Lemma c_material_factor_all dens mm v (r1 r2 : mrep) :
  0 < dens -> 0 < mm ->
  c_material RNum v (m_basis r1) (m_basis r2) (m_unit r1) (m_unit r2) (mat_of dens mm)
  = Ok (spec_conv (m_canon dens mm r2) (m_canon dens mm r1) v).
Proof.
  intros Hd Hm. unfold spec_conv.
  destruct r1 as [[]|[]|[]], r2 as [[]|[]|[]];
  cbn [m_basis m_unit m_canon mol_per g_per cm3_per molunit_name massunit_name volunit_name];
  solve_conv.
Qed.
