(* C01: consequences of the factor theorems, the refusal clause, temperature. *)
From Coq Require Import Reals Lra QArith Qreals ZArith String List Bool.
From PG Require Import Lib.Num Lib.Py Lib.Tac Gen.UnitsGen1 Units.AdsOracle Gen.UnitsGen2 Units.UnitsSpec
  Units.PressureProofs Units.LoadingPhys Units.LoadingFracFrom Units.LoadingFracTo Units.MaterialProofs.
Import ListNotations.
Open Scope R_scope.

(* ---- loading: all 27 x 27 pairs x 19 material representations *)
Lemma c_loading_factor_gen M rml rmg temp v op (mat : mrep) (r1 r2 : lrep) :
  0 < M -> 0 < rml -> 0 < rmg ->
  c_loading RNum v (l_basis r1) (l_basis r2) (l_unit r1) (l_unit r2)
    (@ads_const RNum op (Some M) (Some (rml * M)) (Some (rmg * M)) (Some rml) (Some rmg)) temp (m_basis mat) (m_unit mat)
  = Ok (spec_conv (l_canon M rml rmg mat r1) (l_canon M rml rmg mat r2) v).
Proof.
  intros HM Hl Hg.
  destruct (l_is_phys r1) eqn:E1, (l_is_phys r2) eqn:E2.
  - rewrite (l_canon_phys_eq _ _ _ _ _ E1), (l_canon_phys_eq _ _ _ _ _ E2). now apply c_loading_factor_phys.
  - rewrite (l_canon_phys_eq _ _ _ _ _ E1). now apply c_loading_factor_frac_to.
  - rewrite (l_canon_phys_eq _ _ _ _ _ E2). now apply c_loading_factor_frac_from.
  - now apply c_loading_factor_frac_frac.
Qed.
Lemma c_loading_factor_all M rml rmg temp v (mat : mrep) (r1 r2 : lrep) :
  0 < M -> 0 < rml -> 0 < rmg ->
  c_loading RNum v (l_basis r1) (l_basis r2) (l_unit r1) (l_unit r2) (ads_l M rml rmg) temp (m_basis mat) (m_unit mat)
  = Ok (spec_conv (l_canon M rml rmg mat r1) (l_canon M rml rmg mat r2) v).
Proof. intros; unfold ads_l; now apply c_loading_factor_gen. Qed.

(* ---- adsorbates whose properties depend on the temperature argument: the converters consult them at exactly
   the temperature they are given, so the factor theorems hold with the constants read AT THAT temperature *)
Lemma c_pressure_at_temp v m1 m2 u1 u2 (a : adsorbate RNum) T :
  c_pressure RNum v m1 m2 u1 u2 a T = c_pressure RNum v m1 m2 u1 u2 (at_temp a T) T.
Proof. reflexivity. Qed.
Lemma c_loading_at_temp v b1 b2 u1 u2 (a : adsorbate RNum) T bm um :
  c_loading RNum v b1 b2 u1 u2 a T bm um = c_loading RNum v b1 b2 u1 u2 (at_temp a T) T bm um.
Proof. reflexivity. Qed.
Definition ads_at (a : adsorbate RNum) (temp : option R) (M rml rmg : R) : Prop :=
  a_M a = Some M /\ a_rho_l a temp = Some (rml * M) /\ a_rho_g a temp = Some (rmg * M)
  /\ a_rhom_l a temp = Some rml /\ a_rhom_g a temp = Some rmg.
Theorem c_pressure_factor_at psat T v (r1 r2 : prep) (a : adsorbate RNum) :
  a_psat_Pa a (Some T) = Some psat -> 0 < psat -> T <> 0 ->
  c_pressure RNum v (p_mode r1) (p_mode r2) (p_unit r1) (p_unit r2) a (Some T)
  = Ok (spec_conv (p_canon psat r1) (p_canon psat r2) v).
Proof.
  intros Ha Hp HT. rewrite c_pressure_at_temp. unfold at_temp. rewrite Ha. now apply c_pressure_factor_gen.
Qed.
Theorem c_loading_factor_at M rml rmg temp v (mat : mrep) (r1 r2 : lrep) (a : adsorbate RNum) :
  ads_at a temp M rml rmg -> 0 < M -> 0 < rml -> 0 < rmg ->
  c_loading RNum v (l_basis r1) (l_basis r2) (l_unit r1) (l_unit r2) a temp (m_basis mat) (m_unit mat)
  = Ok (spec_conv (l_canon M rml rmg mat r1) (l_canon M rml rmg mat r2) v).
Proof.
  intros (H1 & H2 & H3 & H4 & H5) HM Hl Hg. rewrite c_loading_at_temp. unfold at_temp.
  rewrite H1, H2, H3, H4, H5. now apply c_loading_factor_gen.
Qed.
Theorem c_loading_factor_phys_at M rml rmg temp v bm um (r1 r2 : lrep) (a : adsorbate RNum) :
  ads_at a temp M rml rmg -> 0 < M -> 0 < rml -> 0 < rmg -> l_is_phys r1 = true -> l_is_phys r2 = true ->
  c_loading RNum v (l_basis r1) (l_basis r2) (l_unit r1) (l_unit r2) a temp bm um
  = Ok (spec_conv (l_canon_phys M rml rmg r1) (l_canon_phys M rml rmg r2) v).
Proof.
  intros (H1 & H2 & H3 & H4 & H5) HM Hl Hg P1 P2. rewrite c_loading_at_temp. unfold at_temp.
  rewrite H1, H2, H3, H4, H5. now apply c_loading_factor_phys.
Qed.

Lemma p_canon_pos psat r : 0 < psat -> 0 < p_canon psat r.
Proof. intros; destruct r as [u| |]; simpl; [apply pa_per_pos|lra|lra]. Qed.
Lemma m_canon_pos d mm r : 0 < d -> 0 < mm -> 0 < m_canon d mm r.
Proof.
  intros; destruct r as [u|u|u]; simpl;
  [apply g_per_pos|pose proof (cm3_per_pos u); nra|pose proof (mol_per_pos u); nra].
Qed.
Lemma l_canon_phys_pos M rml rmg r : 0 < M -> 0 < rml -> 0 < rmg -> l_is_phys r = true -> 0 < l_canon_phys M rml rmg r.
Proof.
  intros HM Hl Hg Hp; destruct r as [u|u|u|u| |]; try discriminate; simpl.
  - apply mol_per_pos. - apply Rdiv_lt_0_compat; [apply g_per_pos|lra].
  - pose proof (cm3_per_pos u); nra. - pose proof (cm3_per_pos u); nra.
Qed.
Lemma l_canon_pos M rml rmg mat r : 0 < M -> 0 < rml -> 0 < rmg -> 0 < l_canon M rml rmg mat r.
Proof.
  intros HM Hl Hg.
  assert (Hm : 0 < l_canon_phys M rml rmg (l_of_m mat)) by (apply l_canon_phys_pos; auto; destruct mat; reflexivity).
  destruct r as [u|u|u|u| |]; cbn [l_canon]; try lra; apply l_canon_phys_pos; auto.
Qed.

(* ---- generic algebra of spec_conv: identity, there-and-back, composition *)
Lemma spec_conv_id c v : c <> 0 -> spec_conv c c v = v.
Proof. intros; unfold spec_conv; field; auto. Qed.
Lemma spec_conv_back c1 c2 v : c1 <> 0 -> c2 <> 0 -> spec_conv c2 c1 (spec_conv c1 c2 v) = v.
Proof. intros; unfold spec_conv; field; auto. Qed.
Lemma spec_conv_compose c1 c2 c3 v : c2 <> 0 -> c3 <> 0 -> spec_conv c2 c3 (spec_conv c1 c2 v) = spec_conv c1 c3 v.
Proof. intros; unfold spec_conv; field; auto. Qed.

Section Pressure.
  Variables (psat T : R) (Hp : 0 < psat) (HT : T <> 0).
  Let cp v r1 r2 := c_pressure RNum v (p_mode r1) (p_mode r2) (p_unit r1) (p_unit r2) (ads_p psat) (Some T).
  Lemma c_pressure_same_is_identity v r : cp v r r = Ok v.
  Proof. unfold cp; rewrite c_pressure_factor_all by assumption. rewrite spec_conv_id; [reflexivity|].
         apply Rgt_not_eq, p_canon_pos; assumption. Qed.
  Lemma c_pressure_there_and_back v r1 r2 : bind (cp v r1 r2) (fun w => cp w r2 r1) = Ok v.
  Proof. unfold cp; rewrite c_pressure_factor_all by assumption; cbn [bind].
         rewrite c_pressure_factor_all by assumption. rewrite spec_conv_back; [reflexivity| |]; apply Rgt_not_eq, p_canon_pos; assumption. Qed.
  Lemma c_pressure_compose v r1 r2 r3 : bind (cp v r1 r2) (fun w => cp w r2 r3) = cp v r1 r3.
  Proof. unfold cp; rewrite !c_pressure_factor_all by assumption; cbn [bind].
         rewrite c_pressure_factor_all by assumption. rewrite spec_conv_compose; [reflexivity| |]; apply Rgt_not_eq, p_canon_pos; assumption. Qed.
  (* arrays: the same scalar function at every element (what numpy broadcasting must deliver) *)
  Lemma c_pressure_pointwise vs r1 r2 :
    map (fun v => cp v r1 r2) vs = map (fun v => Ok (spec_conv (p_canon psat r1) (p_canon psat r2) v)) vs.
  Proof. apply map_ext; intro v; unfold cp; now rewrite c_pressure_factor_all. Qed.
End Pressure.

Section Loading.
  Variables (M rml rmg : R) (HM : 0 < M) (Hl : 0 < rml) (Hg : 0 < rmg) (temp : option R) (mat : mrep).
  Let cl v r1 r2 := c_loading RNum v (l_basis r1) (l_basis r2) (l_unit r1) (l_unit r2) (ads_l M rml rmg) temp (m_basis mat) (m_unit mat).
  Lemma c_loading_same_is_identity v r : cl v r r = Ok v.
  Proof. unfold cl; rewrite c_loading_factor_all by assumption. rewrite spec_conv_id; [reflexivity|].
         apply Rgt_not_eq, l_canon_pos; assumption. Qed.
  Lemma c_loading_there_and_back v r1 r2 : bind (cl v r1 r2) (fun w => cl w r2 r1) = Ok v.
  Proof. unfold cl; rewrite c_loading_factor_all by assumption; cbn [bind].
         rewrite c_loading_factor_all by assumption. rewrite spec_conv_back; [reflexivity| |]; apply Rgt_not_eq, l_canon_pos; assumption. Qed.
  Lemma c_loading_compose v r1 r2 r3 : bind (cl v r1 r2) (fun w => cl w r2 r3) = cl v r1 r3.
  Proof. unfold cl; rewrite !c_loading_factor_all by assumption; cbn [bind].
         rewrite c_loading_factor_all by assumption. rewrite spec_conv_compose; [reflexivity| |]; apply Rgt_not_eq, l_canon_pos; assumption. Qed.
End Loading.

Section Material.
  Variables (dens mm : R) (Hd : 0 < dens) (Hm : 0 < mm).
  Let cm v r1 r2 := c_material RNum v (m_basis r1) (m_basis r2) (m_unit r1) (m_unit r2) (mat_of dens mm).
  Lemma c_material_same_is_identity v r : cm v r r = Ok v.
  Proof. unfold cm; rewrite c_material_factor_all by assumption. rewrite spec_conv_id; [reflexivity|].
         apply Rgt_not_eq, m_canon_pos; assumption. Qed.
  Lemma c_material_there_and_back v r1 r2 : bind (cm v r1 r2) (fun w => cm w r2 r1) = Ok v.
  Proof. unfold cm; rewrite c_material_factor_all by assumption; cbn [bind].
         rewrite c_material_factor_all by assumption. rewrite spec_conv_back; [reflexivity| |]; apply Rgt_not_eq, m_canon_pos; assumption. Qed.
  Lemma c_material_compose v r1 r2 r3 : bind (cm v r1 r2) (fun w => cm w r2 r3) = cm v r1 r3.
  Proof. unfold cm; rewrite !c_material_factor_all by assumption; cbn [bind].
         rewrite c_material_factor_all by assumption. apply f_equal. unfold spec_conv. cbv [t RNum] in *. field.
         split; apply Rgt_not_eq, m_canon_pos; assumption. Qed.
End Material.

(* the consistency hypothesis built into ads_l is necessary: with unrelated user densities,
   mass -> liquid volume directly differs from mass -> molar -> liquid volume *)
Lemma c_loading_inconsistent_ads_refuted :
  exists a : adsorbate RNum,
    c_loading RNum 1 (Some "mass") (Some "volume_liquid") (Some "g") (Some "cm3") a None None None
    <> bind (c_loading RNum 1 (Some "mass") (Some "molar") (Some "g") (Some "mol") a None None None)
            (fun w => c_loading RNum w (Some "molar") (Some "volume_liquid") (Some "mol") (Some "cm3") a None None None).
Proof.
  exists (@ads_const RNum None (Some 2) (Some 1) (Some 1) (Some 1) (Some 1)).
  eval_model. intro H; injection H; unfold Q2R; simpl; lra.
Qed.

(* ---- temperature *)
Definition is_celsius (s : string) : bool := contains "c" (lower s).
Lemma c_temperature_K_to_C v s : is_celsius s = true -> c_temperature RNum v (Some "K") (Some s) = Ok (v - 273.15).
Proof.
  intro H. unfold c_temperature.
  assert (Ht : ostr_truthy (Some s) = true) by (destruct s; [discriminate H|reflexivity]).
  rewrite Ht. cbn [ostr_lower option_map ostr_contains andb]. unfold is_celsius in H. rewrite H.
  solve_conv.
Qed.
Lemma c_temperature_C_to_K v s : is_celsius s = true -> c_temperature RNum v (Some s) (Some "K") = Ok (v + 273.15).
Proof.
  intro H. unfold c_temperature.
  assert (Ht : ostr_truthy (Some s) = true) by (destruct s; [discriminate H|reflexivity]).
  rewrite Ht. cbn [ostr_lower option_map ostr_contains andb]. unfold is_celsius in H. rewrite H.
  solve_conv.
Qed.
Lemma c_temperature_same_K v : c_temperature RNum v (Some "K") (Some "K") = Ok v.
Proof. solve_conv. Qed.
Lemma c_temperature_same_C v s1 s2 : is_celsius s1 = true -> is_celsius s2 = true ->
  c_temperature RNum v (Some s1) (Some s2) = Ok v.
Proof.
  intros H1 H2. unfold c_temperature.
  assert (Ht1 : ostr_truthy (Some s1) = true) by (destruct s1; [discriminate H1|reflexivity]).
  assert (Ht2 : ostr_truthy (Some s2) = true) by (destruct s2; [discriminate H2|reflexivity]).
  rewrite Ht1, Ht2. cbn [ostr_lower option_map ostr_contains andb]. unfold is_celsius in *. rewrite H1, H2.
  solve_conv.
Qed.
Lemma c_temperature_there_and_back v s : is_celsius s = true ->
  bind (c_temperature RNum v (Some "K") (Some s)) (fun w => c_temperature RNum w (Some s) (Some "K")) = Ok v.
Proof. intro H. rewrite c_temperature_K_to_C by assumption. cbn [bind]. rewrite c_temperature_C_to_K by assumption.
       apply f_equal. cbv [t RNum] in *. lra. Qed.
