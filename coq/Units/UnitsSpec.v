(* SPECIFICATION (hand-written, independent of the code): the representations of a pressure, a loading and
   a "per material" quantity, and for each the factor to one canonical quantity, from the SI
   definitions of the units. Nothing here is derived from pygaps; the numbers are the SI/IUPAC ones. *)
From Coq Require Import Reals String List Lra.
Import ListNotations.
Open Scope R_scope.

(* ---------- pressure: canonical quantity = pascal *)
Inductive punit := Pa | kPa | MPa | mbar | bar | atm | mmHg | torr.
Inductive prep := PAbs (u : punit) | PRel | PRelPct.
Definition punit_name (u : punit) : string :=
  match u with Pa => "Pa" | kPa => "kPa" | MPa => "MPa" | mbar => "mbar" | bar => "bar" | atm => "atm"
             | mmHg => "mmHg" | torr => "torr" end.
Definition pa_per (u : punit) : R :=
  match u with Pa => 1 | kPa => 1000 | MPa => 1000000 | mbar => 100 | bar => 100000 | atm => 101325
             | mmHg => 133.322 | torr => 133.322 end.
(* pascals per one unit of the representation; psat = saturation pressure in Pa at the isotherm temperature *)
Definition p_canon (psat : R) (r : prep) : R :=
  match r with PAbs u => pa_per u | PRel => psat | PRelPct => psat / 100 end.
Definition p_mode (r : prep) : option string :=
  Some (match r with PAbs _ => "absolute" | PRel => "relative" | PRelPct => "relative%" end)%string.
Definition p_unit (r : prep) : option string :=
  match r with PAbs u => Some (punit_name u) | _ => None end.
Definition all_punits := [Pa; kPa; MPa; mbar; bar; atm; mmHg; torr].
Definition all_preps := map PAbs all_punits ++ [PRel; PRelPct].

(* ---------- amounts *)
Inductive molunit := mmol | mol | kmol | cm3STP | mLSTP | ccSTP | LSTP.
Inductive massunit := amu | mg | cg | dg | g | kg.
Inductive volunit := cm3 | mL | cc | dm3 | L | m3.
Definition molunit_name u : string :=
  match u with mmol => "mmol" | mol => "mol" | kmol => "kmol" | cm3STP => "cm3(STP)" | mLSTP => "mL(STP)"
             | ccSTP => "cc(STP)" | LSTP => "L(STP)" end.
Definition massunit_name u : string :=
  match u with amu => "amu" | mg => "mg" | cg => "cg" | dg => "dg" | g => "g" | kg => "kg" end.
Definition volunit_name u : string :=
  match u with cm3 => "cm3" | mL => "mL" | cc => "cc" | dm3 => "dm3" | L => "L" | m3 => "m3" end.
(* mol per unit: 1 cm3(STP) of ideal gas = 4.461e-5 mol (22 414 cm3/mol) *)
Definition mol_per (u : molunit) : R :=
  match u with mmol => 0.001 | mol => 1 | kmol => 1000 | cm3STP => 4.461e-5 | mLSTP => 4.461e-5
             | ccSTP => 4.461e-5 | LSTP => 4.461e-2 end.
(* gram per unit: 1 amu = 1.66054e-27 kg *)
Definition g_per (u : massunit) : R :=
  match u with amu => 1.66054e-27 | mg => 0.001 | cg => 0.01 | dg => 0.1 | g => 1 | kg => 1000 end.
Definition cm3_per (u : volunit) : R :=
  match u with cm3 => 1 | mL => 1 | cc => 1 | dm3 => 1000 | L => 1000 | m3 => 1000000 end.
Definition all_molunits := [mmol; mol; kmol; cm3STP; mLSTP; ccSTP; LSTP].
Definition all_massunits := [amu; mg; cg; dg; g; kg].
Definition all_volunits := [cm3; mL; cc; dm3; L; m3].

(* ---------- material: canonical quantity = gram of material.
   dens = material density g/cm3, mm = material molar mass g/mol *)
Inductive mrep := MMass (u : massunit) | MVol (u : volunit) | MMolar (u : molunit).
Definition m_canon (dens mm : R) (r : mrep) : R :=
  match r with MMass u => g_per u | MVol u => cm3_per u * dens | MMolar u => mol_per u * mm end.
Definition m_basis (r : mrep) : option string :=
  Some (match r with MMass _ => "mass" | MVol _ => "volume" | MMolar _ => "molar" end)%string.
Definition m_unit (r : mrep) : option string :=
  Some (match r with MMass u => massunit_name u | MVol u => volunit_name u | MMolar u => molunit_name u end).
Definition all_mreps := map MMass all_massunits ++ map MVol all_volunits ++ map MMolar all_molunits.

(* ---------- loading: canonical quantity = mol of adsorbate.
   M = adsorbate molar mass g/mol, rml / rmg = liquid / gas molar density mol/cm3 at the isotherm temperature.
   fraction = amount of adsorbate expressed in the basis and unit of the material, per that amount of
   material (dimensionless); percent = 100 x fraction. A material volume basis means liquid volume. *)
Inductive lrep := LMolar (u : molunit) | LMass (u : massunit) | LVolGas (u : volunit) | LVolLiq (u : volunit)
                | LFraction | LPercent.
Definition l_of_m (r : mrep) : lrep :=
  match r with MMass u => LMass u | MVol u => LVolLiq u | MMolar u => LMolar u end.
Definition l_canon_phys (M rml rmg : R) (r : lrep) : R :=
  match r with
  | LMolar u => mol_per u | LMass u => g_per u / M
  | LVolGas u => cm3_per u * rmg | LVolLiq u => cm3_per u * rml
  | _ => 0 end.
Definition l_canon (M rml rmg : R) (mat : mrep) (r : lrep) : R :=
  match r with
  | LFraction => l_canon_phys M rml rmg (l_of_m mat)
  | LPercent => l_canon_phys M rml rmg (l_of_m mat) / 100
  | _ => l_canon_phys M rml rmg r end.
Definition l_basis (r : lrep) : option string :=
  Some (match r with LMolar _ => "molar" | LMass _ => "mass" | LVolGas _ => "volume_gas"
                   | LVolLiq _ => "volume_liquid" | LFraction => "fraction" | LPercent => "percent" end)%string.
Definition l_unit (r : lrep) : option string :=
  match r with LMolar u => Some (molunit_name u) | LMass u => Some (massunit_name u)
             | LVolGas u => Some (volunit_name u) | LVolLiq u => Some (volunit_name u) | _ => None end.
Definition l_is_phys (r : lrep) : bool := match r with LFraction | LPercent => false | _ => true end.
Definition all_lreps := map LMolar all_molunits ++ map LMass all_massunits ++ map LVolGas all_volunits
                        ++ map LVolLiq all_volunits ++ [LFraction; LPercent].

(* The spec of a conversion: re-express the same canonical quantity. *)
Definition spec_conv (c1 c2 v : R) : R := v * c1 / c2.

Lemma pa_per_pos u : 0 < pa_per u. Proof. destruct u; simpl; lra. Qed.
Lemma mol_per_pos u : 0 < mol_per u. Proof. destruct u; simpl; lra. Qed.
Lemma g_per_pos u : 0 < g_per u. Proof. destruct u; simpl; lra. Qed.
Lemma cm3_per_pos u : 0 < cm3_per u. Proof. destruct u; simpl; lra. Qed.

Lemma all_preps_complete r : In r all_preps.
Proof. destruct r as [[]| |]; simpl; tauto. Qed.
Lemma all_mreps_complete r : In r all_mreps.
Proof. destruct r as [[]|[]|[]]; simpl; tauto. Qed.
Lemma all_lreps_complete r : In r all_lreps.
Proof. destruct r as [[]|[]|[]|[]| |]; simpl; intuition. Qed.
Lemma rep_counts : length all_preps = 10%nat /\ length all_lreps = 27%nat /\ length all_mreps = 19%nat.
Proof. repeat split. Qed.
