(* C13 - theorems about the GENERATED helpers (Gen/IastWrapGen.v, translated from pygaps/iast/pgiast.py by tools/py2v_iastwrap.py):
   iast_point_fraction, iast_binary_svp and iast_binary_vle are exactly a map of the point calculation over the requested pressures /
   compositions: same values where the point calculation returns, the error of the FIRST point that the point calculation refuses otherwise
   (and then no value at all), for ALL inputs the helpers accept - in particular gas fractions that do not sum to one are handed to the
   point calculation as y_i * P, unchanged. *)
From Coq Require Import String.
From Coq Require Import Reals Lra Lia List Bool QArith Qreals.
From PG Require Import Lib.Num Lib.Py Iast.IastSpec Iast.IastGlue Iast.IastTheorems Iast.IastWrapPre Gen.IastWrapGen.
Import ListNotations.
Open Scope list_scope.
Open Scope R_scope.

(* ---------------------------------------------------------------- a loop of calls that may raise *)
Lemma mapM_ok_iff {A B} (f : A -> res B) : forall l r, mapM f l = Ok r <-> Forall2 (fun a b => f a = Ok b) l r.
Proof.
  induction l as [|a l IH]; intros r; simpl.
  - split; [intros H; inversion H; constructor | intros H; inversion H; reflexivity].
  - destruct (f a) as [b|e] eqn:Ea; simpl.
    + destruct (mapM f l) as [br|e] eqn:Em; simpl.
      * split; [intros H; inversion H; subst; constructor; [assumption|apply IH; reflexivity]|].
        intros H. inversion H; subst. apply IH in H4. rewrite Ea in H2. inversion H2; inversion H4; subst. reflexivity.
      * split; [discriminate|]. intros H. inversion H; subst. apply IH in H4. discriminate.
    + split; [discriminate|]. intros H. inversion H; subst. rewrite Ea in H2. discriminate.
Qed.
(* the loop fails exactly when some call fails, with the error of the first failing call; the calls before it had returned *)
Lemma mapM_err_iff {A B} (f : A -> res B) : forall l e,
  mapM f l = Err e <-> exists pre a post, l = pre ++ a :: post /\ Forall (fun x => exists b, f x = Ok b) pre /\ f a = Err e.
Proof.
  induction l as [|a l IH]; intros e.
  - simpl. split; [discriminate|]. intros (pre & x & post & H & _). destruct pre; discriminate.
  - split.
    + intros H. simpl in H. destruct (f a) as [b|e1] eqn:Ea; simpl in H.
      * destruct (mapM f l) as [br|e2] eqn:Em; simpl in H; [discriminate|]. inversion H; subst.
        destruct (proj1 (IH e) eq_refl) as (pre & x & post & Hl & Hp & Hx).
        exists (a :: pre), x, post. split; [simpl; congruence|]. split; [constructor; eauto|assumption].
      * inversion H; subst. exists [], a, l. split; [reflexivity|]. split; [constructor|assumption].
    + intros (pre & x & post & H & Hp & Hx). destruct pre as [|p pre]; simpl in H; inversion H; subst; simpl.
      * rewrite Hx. reflexivity.
      * inversion Hp as [|? ? [b Hb] Hp']; subst. rewrite Hb. simpl.
        assert (E : mapM f (pre ++ x :: post) = Err e) by (apply IH; exists pre, x, post; auto). rewrite E. reflexivity.
Qed.
Lemma mapM_ext {A B} (f g : A -> res B) l : (forall a, f a = g a) -> mapM f l = mapM g l.
Proof. intros H. induction l as [|a l IH]; simpl; [reflexivity|]. rewrite H, IH. reflexivity. Qed.
Lemma mapM_map {A B C} (f : B -> res C) (g : A -> B) l : mapM f (map g l) = mapM (fun a => f (g a)) l.
Proof. induction l as [|a l IH]; simpl; [reflexivity|]. rewrite IH. reflexivity. Qed.
Lemma map2_pair_map {A B} (g : A -> A) (h : A -> A -> B) (l : list A) : map2 h l (map g l) = map (fun y => h y (g y)) l.
Proof. induction l as [|a l IH]; simpl; [reflexivity|]. rewrite IH. reflexivity. Qed.
Lemma mapM_res_map {A B C} (g : B -> C) (f : A -> res B) l : mapM (fun a => res_map g (f a)) l = res_map (map g) (mapM f l).
Proof. induction l as [|a l IH]; simpl; [reflexivity|]. destruct (f a); simpl; [|reflexivity]. rewrite IH. destruct (mapM f l); reflexivity. Qed.
Lemma bind_ok_is_res_map {A B} (m : res A) (g : A -> B) : bind m (fun a => Ok (g a)) = res_map g m.
Proof. destruct m; reflexivity. Qed.
Lemma Q2R_1 : Q2R (1 # 1) = 1. Proof. unfold Q2R; simpl; lra. Qed.
Lemma Q2R_0 : Q2R (0 # 1) = 0. Proof. unfold Q2R; simpl; lra. Qed.

Section Wrappers.
  Variable point : list R -> res (list R).           (* iast_point(isotherms, ., branch, warningoff, guess) *)
  Variable linspace : R -> R -> nat -> list R.       (* numpy.linspace *)

  (* the formulas applied to a returned row of loadings *)
  Definition sel_of (ys ns : list R) : R := (nth 0 ns 0 / nth 0 ys 0) / (nth 1 ns 0 / nth 1 ys 0).
  Definition x1_of (ns : list R) : R := nth 0 ns 0 / (nth 0 ns 0 + nth 1 ns 0).
  (* argument checks of the two binary helpers *)
  Definition svp_refused (cs : list (icomp RNum)) (ys : list R) : bool :=
    negb (Nat.eqb (length cs) 2) || negb (Nat.eqb (length ys) 2) || negb (Reqb (sumR ys) 1)
    || existsb (fun c => prefix "relative" (i_mode RNum c)) cs.
  Definition vle_refused (cs : list (icomp RNum)) : bool :=
    negb (Nat.eqb (length cs) 2) || existsb (fun c => prefix "relative" (i_mode RNum c)) cs.
  Definition vle_grid (npoints : nat) : list R := linspace (Q2R (5764607523034235 # 576460752303423488)) (Q2R (4458563631096791 # 4503599627370496)) npoints.

  (* iast_point_fraction IS the point calculation at the partial pressures y_i * P - for every fraction vector, normalised or not *)
  Theorem gen_fraction_is_point : forall ys P, G_iast_point_fraction RNum point ys P = point (map (fun y => y * P) ys).
  Proof. reflexivity. Qed.

  (* iast_binary_svp IS the map of the point calculation over the requested pressures, followed by (n1/y1)/(n2/y2) per row *)
  Theorem gen_svp_is_map_of_point : forall cs ys Ps,
    G_iast_binary_svp RNum point cs ys Ps =
    if svp_refused cs ys then Err ParameterError
    else res_map (fun rows => (Ps, map (sel_of ys) rows)) (mapM (fun P => point (map (fun y => y * P) ys)) Ps).
  Proof.
    intros cs ys Ps. unfold G_iast_binary_svp, svp_refused.
    change (@nofQ RNum (1 # 1)) with (Q2R (1 # 1)). rewrite Q2R_1, sumN_R. change (@neqb RNum) with Reqb.
    change (@length (t RNum) ys) with (@length R ys).
    match goal with |- (if ?c then _ else _) = _ => destruct c end; cbn [orb]; [reflexivity|].
    match goal with |- (if ?c then _ else _) = _ => destruct c end; cbn [orb]; [reflexivity|].
    match goal with |- (if ?c then _ else _) = _ => destruct c end; [reflexivity|].
    cbv zeta. rewrite (bind_ok_is_res_map _ (fun rows => (Ps, map _ rows))).
    f_equal.
    assert (E : forall x : list R, ndiv (ndiv (ix RNum x 0) (ix RNum ys 0)) (ndiv (ix RNum x 1) (ix RNum ys 1)) = sel_of ys x).
    { intros x. unfold ix, sel_of. rewrite n0_R. reflexivity. }
    match goal with |- (fun rows => (Ps, map ?f rows)) = _ => replace f with (sel_of ys) end; [reflexivity|].
    apply FunctionalExtensionality.functional_extensionality. intros x. symmetry. apply E.
  Qed.

  (* consequences, per point: (1) whenever the sweep returns, the pressures are those requested and entry k is the selectivity of the
     loadings the point calculation returns at pressure k; (2) the sweep returns exactly when the point calculation returns at EVERY
     requested pressure; (3) otherwise it fails with the error of the first pressure the point calculation refuses - no value is reported *)
  Theorem gen_svp_returns_point_values : forall cs ys Ps ps sel,
    G_iast_binary_svp RNum point cs ys Ps = Ok (ps, sel) ->
    svp_refused cs ys = false /\ ps = Ps
    /\ Forall2 (fun P s => exists ns, point (map (fun y => y * P) ys) = Ok ns /\ s = sel_of ys ns) Ps sel.
  Proof.
    intros cs ys Ps ps sel H. rewrite gen_svp_is_map_of_point in H. destruct (svp_refused cs ys); [discriminate|].
    match type of H with context [mapM ?f Ps] => destruct (mapM f Ps) as [rows|e] eqn:Em end; [|discriminate]. inversion H; subst. split; [reflexivity|]. split; [reflexivity|].
    apply mapM_ok_iff in Em. clear H. induction Em; simpl; constructor; eauto.
  Qed.
  Theorem gen_svp_returns_iff_every_point_returns : forall cs ys Ps, svp_refused cs ys = false ->
    ((exists r, G_iast_binary_svp RNum point cs ys Ps = Ok r) <-> Forall (fun P => exists ns, point (map (fun y => y * P) ys) = Ok ns) Ps).
  Proof.
    intros cs ys Ps Hg. rewrite gen_svp_is_map_of_point, Hg. split.
    - intros [r H]. match type of H with context [mapM ?f Ps] => destruct (mapM f Ps) as [rows|e] eqn:Em end; [|discriminate]. apply mapM_ok_iff in Em.
      clear H. induction Em; constructor; eauto.
    - intros H. assert (exists rows, mapM (fun P => point (map (fun y => y * P) ys)) Ps = Ok rows) as [rows ->].
      { induction H as [|P Ps [ns Hn] _ [rows IH]]; [exists []; reflexivity|]. exists (ns :: rows). simpl. rewrite Hn, IH. reflexivity. }
      eexists. reflexivity.
  Qed.
  Theorem gen_svp_fails_with_first_refused_point : forall cs ys Ps e, svp_refused cs ys = false ->
    (G_iast_binary_svp RNum point cs ys Ps = Err e <->
     exists pre P post, Ps = pre ++ P :: post /\ Forall (fun P' => exists ns, point (map (fun y => y * P') ys) = Ok ns) pre
                        /\ point (map (fun y => y * P) ys) = Err e).
  Proof.
    intros cs ys Ps e Hg. rewrite gen_svp_is_map_of_point, Hg. rewrite <- mapM_err_iff.
    match goal with |- res_map _ ?m = _ <-> ?m2 = _ => change m2 with m; destruct m as [rows|e']; simpl; split; congruence end.
  Qed.

  (* iast_binary_vle IS the map of the point calculation over the compositions (y, 1 - y) of the grid, followed by n1/(n1+n2) per row,
     with the end points (0,0) and (1,1) added *)
  Theorem gen_vle_is_map_of_point : forall cs P npoints,
    G_iast_binary_vle RNum point linspace cs P npoints =
    if vle_refused cs then Err ParameterError
    else res_map (fun rows => (0 :: map x1_of rows ++ [1], 0 :: vle_grid npoints ++ [1]))
                 (mapM (fun y => point [y * P; (1 - y) * P]) (vle_grid npoints)).
  Proof.
    intros cs P npoints. unfold G_iast_binary_vle, vle_refused.
    match goal with |- (if ?c then _ else _) = _ => destruct c end; cbn [orb]; [reflexivity|].
    match goal with |- (if ?c then _ else _) = _ => destruct c end; [reflexivity|].
    cbv zeta. fold (vle_grid npoints).
    change (@nofQ RNum (1 # 1)) with (Q2R (1 # 1)). change (@nofQ RNum (0 # 1)) with (Q2R (0 # 1)). rewrite Q2R_1, Q2R_0.
    rewrite (map2_pair_map (fun v : R => 1 - v) (fun a b : R => [a; b])). rewrite mapM_map.
    rewrite (bind_ok_is_res_map _ (fun rows => (([0] ++ map _ rows ++ [1])%list, ([0] ++ vle_grid npoints ++ [1])%list))).
    f_equal.
    match goal with |- (fun rows => ((_ ++ map ?f rows ++ _)%list, _)) = _ => replace f with x1_of end; [reflexivity|].
    apply FunctionalExtensionality.functional_extensionality. intros x. unfold ix, x1_of. rewrite n0_R. reflexivity.
  Qed.
  Theorem gen_vle_returns_point_values : forall cs P npoints xs ys,
    G_iast_binary_vle RNum point linspace cs P npoints = Ok (xs, ys) ->
    vle_refused cs = false
    /\ exists mid, xs = 0 :: mid ++ [1] /\ ys = 0 :: vle_grid npoints ++ [1]
       /\ Forall2 (fun y x => exists ns, point [y * P; (1 - y) * P] = Ok ns /\ x = x1_of ns) (vle_grid npoints) mid.
  Proof.
    intros cs P npoints xs ys H. rewrite gen_vle_is_map_of_point in H. destruct (vle_refused cs); [discriminate|].
    match type of H with context [mapM ?f (vle_grid npoints)] => destruct (mapM f (vle_grid npoints)) as [rows|e] eqn:Em end; [|discriminate]. inversion H; subst. split; [reflexivity|].
    exists (map x1_of rows). split; [reflexivity|]. split; [reflexivity|].
    apply mapM_ok_iff in Em. clear H. induction Em; simpl; constructor; eauto.
  Qed.
  Theorem gen_vle_fails_with_first_refused_point : forall cs P npoints e, vle_refused cs = false ->
    (G_iast_binary_vle RNum point linspace cs P npoints = Err e <->
     exists pre y post, vle_grid npoints = pre ++ y :: post /\ Forall (fun y' => exists ns, point [y' * P; (1 - y') * P] = Ok ns) pre
                        /\ point [y * P; (1 - y) * P] = Err e).
  Proof.
    intros cs P npoints e Hg. rewrite gen_vle_is_map_of_point, Hg. rewrite <- mapM_err_iff.
    match goal with |- res_map _ ?m = _ <-> ?m2 = _ => change m2 with m; destruct m as [rows|e']; simpl; split; congruence end.
  Qed.

  (* the hand-written wrappers of Iast/IastGlue.v (older theorems, examples) are the generated ones *)
  Theorem generated_wrappers_are_the_hand_model :
    (forall ys P, G_iast_point_fraction RNum point ys P = iast_point_fraction RNum point ys P)
    /\ (forall cs ys Ps, res_map snd (G_iast_binary_svp RNum point cs ys Ps) = iast_binary_svp RNum point cs ys Ps).
  Proof.
    split; [reflexivity|]. intros cs ys Ps. unfold G_iast_binary_svp, iast_binary_svp, wrapper_guard.
    change (@nofQ RNum (1 # 1)) with (n1 RNum).
    match goal with |- res_map _ (if ?c then _ else _) = _ => destruct c end; [reflexivity|].
    match goal with |- res_map _ (if ?c then _ else _) = _ => destruct c end; [reflexivity|].
    match goal with |- res_map _ (if ?c then _ else _) = _ => destruct c end; [reflexivity|].
    cbv zeta. cbn [bind].
    rewrite (mapM_res_map (selectivity RNum ys) (fun P => iast_point_fraction RNum point ys P)).
    change (fun pressure : RNum => G_iast_point_fraction RNum point ys pressure) with (fun P : R => iast_point_fraction RNum point ys P).
    match goal with |- res_map snd (bind ?m _) = res_map _ ?m2 => change m2 with m; destruct m as [rows|e] end; simpl; [|reflexivity].
    reflexivity.
  Qed.
End Wrappers.

(* the statements are not vacuous: a point calculation defined below 10 (Henry-like n_i = K_i p_i, K = (2, 1)) and refusing above;
   a sweep inside the range returns the point values, a sweep crossing it fails with the point calculation's error *)
Definition demo_point (ps : list R) : res (list R) :=
  match ps with [a; b] => if Rltb 10 (a + b) then Err CalculationError else Ok [2 * a; 1 * b] | _ => Err ParameterError end.
Definition demo_cs : list (icomp RNum) :=
  [mkI RNum true "Henry" "absolute" (fun p => p) (fun p => p); mkI RNum true "Henry" "absolute" (fun p => p) (fun p => p)].
Example demo_sweep_fails_at_the_refused_point :
  G_iast_binary_svp RNum demo_point demo_cs [1 / 2; 1 / 2] [2; 4; 20; 6] = Err CalculationError.
Proof.
  apply (gen_svp_fails_with_first_refused_point demo_point).
  - unfold svp_refused. simpl. unfold Reqb. destruct (Req_EM_T (1 / 2 + (1 / 2 + 0)) 1) as [_|n]; [reflexivity|exfalso; apply n; lra].
  - exists [2; 4], 20, [6]. split; [reflexivity|]. split.
    + repeat constructor; eexists; simpl; unfold Rltb; match goal with |- context [Rlt_dec ?a ?b] => destruct (Rlt_dec a b); [exfalso; lra|reflexivity] end.
    + simpl. unfold Rltb. match goal with |- context [Rlt_dec ?a ?b] => destruct (Rlt_dec a b); [reflexivity|exfalso; lra] end.
Qed.
