(* C13 - execution of the IastGlue model on QNum against what the implementation did (correspondence part of c13.py).
   Isotherm methods are finite tables of the implementation's own spreading_pressure_at / loading_at values;
   the root finder is replaced by the (success, x) the real scipy call returned. Only small integers are printed. *)
From Coq Require Import QArith Qabs ZArith String List Bool.
From PG Require Import Lib.Num Lib.Py Lib.Show Iast.IastGlue Iast.IastWrapPre Gen.IastWrapGen.
Import ListNotations.
Open Scope Z_scope.

(* table lookup; every row carries its own relative key tolerance 1/td: 1e-12 in general (the model divides exactly, the
   code in binary64), wider for a fictitious pressure p/x whose x = 1 - sum(others) suffers cancellation in binary64.
   A missing key gives a sentinel that cannot agree with the implementation *)
Fixpoint tbl (rows : list ((Z * Z) * (Z * Z) * Z)) (x : Q) : Q :=
  match rows with
  | [] => (-(123456789 # 1))%Q
  | ((km, ke), (vm, ve), td) :: r => if close_q 1 td x (fl km ke) then fl vm ve else tbl r x end.
Definition qcomp (is_model : bool) (name mode : string) (sp ld : list ((Z * Z) * (Z * Z) * Z)) : icomp QNum :=
  mkI QNum is_model name mode (tbl sp) (tbl ld).
Definition code {A} (r : res A) : Z := match r with Ok _ => 0 | Err e => exn_code e end.
Definition b2z (b : bool) : Z := if b then 1 else 0.
Definition fls (l : list (Z * Z)) : list Q := map (fun me => fl (fst me) (snd me)) l.
(* |a - b| <= tol, element-wise *)
Fixpoint abs_close (tol : Q) (a b : list Q) : bool :=
  match a, b with
  | [], [] => true
  | x :: ar, y :: br => Qle_bool (Qabs (x - y)) tol && abs_close tol ar br
  | _, _ => false end.
Definition const_root (succ : bool) (x : list Q) : (list Q -> list Q) -> list Q -> bool * list Q := fun _ _ => (succ, x).

(* iast_point: (model outcome, outcome agrees, start vector agrees, residual at the returned x agrees, loadings agree) *)
Definition cmp_fwd (cs : list (icomp QNum)) (ps : list (Z * Z)) (guess : option (list (Z * Z))) (succ : bool) (xr : list (Z * Z))
    (oc : Z) (x0 : list (Z * Z)) (resid : list (Z * Z)) (scale nscale : Z * Z) (loads : list (Z * Z)) : Z * Z * Z * Z * Z :=
  let psq := fls ps in
  let g := option_map fls guess in
  let r := iast_point QNum (const_root succ (fls xr)) cs psq g in
  let gm := removelast (match g with None => fwd_guess QNum cs psq | Some g0 => g0 end) in
  (code r, b2z (oc =? code r),
   match x0 with [] => 1 | _ => b2z (all_close 1 1000000000 gm x0) end,
   b2z (abs_close (fl (fst scale) (snd scale) * (1 # 1000000000)) (fwd_residual QNum cs psq (fls xr)) (fls resid)),
   match r with Ok ns => b2z (abs_close (fl (fst nscale) (snd nscale) * (1 # 1000000000)) ns (fls loads)) | Err _ => 1 end).
(* reverse_iast: same, plus the returned gas fractions *)
Definition cmp_rev (cs : list (icomp QNum)) (xs : list (Z * Z)) (P : Z * Z) (guess : option (list (Z * Z))) (succ : bool) (yr : list (Z * Z))
    (oc : Z) (resid : list (Z * Z)) (scale nscale : Z * Z) (ys loads : list (Z * Z)) : Z * Z * Z * Z * Z :=
  let xsq := fls xs in
  let Pq := fl (fst P) (snd P) in
  let r := reverse_iast QNum (const_root succ (fls yr)) cs xsq Pq (option_map fls guess) in
  (code r, b2z (oc =? code r),
   match r with Ok (yf, _) => b2z (abs_close (1 # 1000000000) yf (fls ys)) | Err _ => 1 end,
   b2z (abs_close (fl (fst scale) (snd scale) * (1 # 1000000000)) (rev_residual QNum cs Pq xsq (fls yr)) (fls resid)),
   match r with Ok (_, ns) => b2z (abs_close (fl (fst nscale) (snd nscale) * (1 # 1000000000)) ns (fls loads)) | Err _ => 1 end).
(* wrappers: the GENERATED definitions (Gen/IastWrapGen.v) are executed; the point calculation is a table of what iast_point itself returned
   (or raised) for the partial-pressure vectors of the sweep, keyed by the WHOLE vector; numpy.linspace is the grid the code produced *)
Fixpoint ptbl (rows : list (list (Z * Z) * res (list (Z * Z)))) (ps : list Q) : res (list Q) :=
  match rows with
  | (k, v) :: r => if all_close 1 1000000000000 ps k then res_map fls v else ptbl r ps
  | [] => Err KeyError end.
Definition const_grid (g : list Q) : Q -> Q -> nat -> list Q := fun _ _ _ => g.
(* iast_point_fraction: (model outcome, outcome agrees, returned loadings agree) *)
Definition cmp_frac (rows : list (list (Z * Z) * res (list (Z * Z)))) (ys : list (Z * Z)) (P : Z * Z) (oc : Z) (nscale : Z * Z) (loads : list (Z * Z)) : Z * Z * Z :=
  let r := G_iast_point_fraction QNum (ptbl rows) (fls ys) (fl (fst P) (snd P)) in
  (code r, b2z (oc =? code r),
   match r with Ok ns => b2z (abs_close (fl (fst nscale) (snd nscale) * (1 # 1000000000)) ns (fls loads)) | Err _ => 1 end).
Definition cmp_svp (cs : list (icomp QNum)) (rows : list (list (Z * Z) * res (list (Z * Z)))) (ys Ps : list (Z * Z)) (oc : Z) (pout sel : list (Z * Z)) : Z * Z * Z :=
  let r := G_iast_binary_svp QNum (ptbl rows) cs (fls ys) (fls Ps) in
  (code r, b2z (oc =? code r), match r with Ok (p, s) => b2z (all_close 1 1000000000 p pout && all_close 1 1000000000 s sel) | Err _ => 1 end).
Definition cmp_vle (cs : list (icomp QNum)) (rows : list (list (Z * Z) * res (list (Z * Z)))) (P : Z * Z) (ygrid : list (Z * Z)) (oc : Z) (xs ys : list (Z * Z)) : Z * Z * Z :=
  let r := G_iast_binary_vle QNum (ptbl rows) (const_grid (fls ygrid)) cs (fl (fst P) (snd P)) (length ygrid) in
  (code r, b2z (oc =? code r),
   match r with Ok (x, y) => b2z (all_close 1 1000000000 x xs && all_close 1 1000000000 y ys) | Err _ => 1 end).
