(* C13 - theorems connecting the model of pgiast.py (Iast/IastGlue.v, carrier RNum) with the IAST equations (Iast/IastSpec.v).
   scipy.optimize.root is a Section variable; its post-condition (success -> every residual is zero; the result has the
   shape of the start vector) is a Section hypothesis and therefore an explicit premise of every theorem below.
   The check validates that premise on every result the implementation returns (certificate check). *)
From Coq Require Import Reals Lra Lia List Bool QArith Qreals Permutation.
From PG Require Import Lib.Num Lib.Py Iast.IastSpec Iast.IastGlue.
Import ListNotations.
Open Scope R_scope.

Lemma n0_R : n0 RNum = 0. Proof. unfold n0; simpl; unfold Q2R; simpl; lra. Qed.
Lemma n1_R : n1 RNum = 1. Proof. unfold n1; simpl; unfold Q2R; simpl; lra. Qed.
Lemma sumN_R (l : list R) : sumN RNum l = sumR l.
Proof. induction l; simpl; [apply n0_R|]. rewrite IHl. reflexivity. Qed.

(* ---------------------------------------------------------------- the residual vector *)
Lemma all_equal_2 a b l : all_equal (a :: b :: l) <-> a = b /\ all_equal (b :: l).
Proof.
  split.
  - intros H. split; [apply H; simpl; auto|]. intros x y Hx Hy; apply H; simpl in *; tauto.
  - intros [-> H] x y Hx Hy. apply H; simpl in *; tauto.
Qed.
(* the code's residual (differences of neighbouring spreading pressures) vanishes iff all spreading pressures are equal *)
Theorem adj_zero_iff_all_equal : forall l : list R, Forall (fun d => d = 0) (adj RNum l) <-> all_equal l.
Proof.
  induction l as [|a l IH].
  - simpl. split; [intros _ x y []|constructor].
  - destruct l as [|b l].
    + simpl. split; [intros _ x y [<-|[]] [<-|[]]; reflexivity|constructor].
    + change (adj RNum (a :: b :: l)) with ((a - b) :: adj RNum (b :: l)). rewrite all_equal_2. split.
      * intros H. inversion H; subst. split; [lra|]. apply IH. assumption.
      * intros [E H]. constructor; [lra|]. apply IH. assumption.
Qed.

(* ---------------------------------------------------------------- from the model's lists to the specification's entries *)
Definition to_comp (c : icomp RNum) : comp := mkC (i_sp RNum c) (i_ld RNum c).
Fixpoint entries (cs : list (icomp RNum)) (ps xf : list R) : list entry :=
  match cs, ps, xf with c :: cr, p :: pr, x :: xr => (to_comp c, p, x) :: entries cr pr xr | _, _, _ => [] end.

Lemma sps_entries : forall cs ps xf, sps RNum cs (fwd_p0 RNum ps xf) = map e_sp (entries cs ps xf).
Proof.
  unfold sps, fwd_p0. induction cs as [|c cs IH]; intros ps xf; [reflexivity|].
  destruct ps as [|p ps]; [reflexivity|]. destruct xf as [|x xf]; [reflexivity|].
  simpl. f_equal. apply IH.
Qed.
Lemma terms_entries : forall cs ps xf,
  map2 (fun x l : R => x / l) xf (map2 (fun c p => i_ld RNum c p) cs (fwd_p0 RNum ps xf)) = map e_term (entries cs ps xf).
Proof.
  unfold fwd_p0. induction cs as [|c cs IH]; intros ps xf.
  - destruct xf; reflexivity.
  - destruct ps as [|p ps]; [destruct xf; reflexivity|]. destruct xf as [|x xf]; [reflexivity|].
    simpl. f_equal. apply IH.
Qed.
Lemma entries_x : forall cs ps xf, length ps = length cs -> length xf = length cs -> map e_x (entries cs ps xf) = xf.
Proof.
  induction cs as [|c cs IH]; intros ps xf Lp Lx.
  - destruct xf; [reflexivity|discriminate].
  - destruct ps as [|p ps]; [discriminate|]. destruct xf as [|x xf]; [discriminate|].
    simpl in *. f_equal. apply IH; congruence.
Qed.
Lemma out_of_range_false xs : out_of_range RNum xs = false -> Forall (fun x => 0 <= x <= 1) xs.
Proof.
  unfold out_of_range. induction xs as [|x xs IH]; simpl; intros H; [constructor|].
  apply orb_false_iff in H. destruct H as [H1 H2]. apply orb_false_iff in H1. destruct H1 as [Ha Hb].
  constructor; [|apply IH; assumption].
  apply Rltb_false in Ha. apply Rltb_false in Hb. pose proof n0_R as Z0. pose proof n1_R as Z1. unfold n0, n1 in Z0, Z1. simpl in Z0, Z1. lra.
Qed.
Lemma full_sum xs : sumR (full RNum xs) = 1.
Proof.
  unfold full. rewrite sumR_app. cbn [sumR]. change (nsub (n1 RNum) (sumN RNum xs)) with (n1 RNum - sumN RNum xs).
  rewrite sumN_R, n1_R. lra.
Qed.
Lemma full_length xs : length (full RNum xs) = S (length xs).
Proof. unfold full. rewrite app_length. simpl. lia. Qed.
Lemma map2_length {A B C} (f : A -> B -> C) : forall l1 l2, length l1 = length l2 -> length (IastGlue.map2 f l1 l2) = length l1.
Proof. induction l1; destruct l2; simpl; intros; try discriminate; [reflexivity|]. f_equal. apply IHl1. congruence. Qed.
Lemma removelast_length {A} (l : list A) : l <> [] -> S (length (removelast l)) = length l.
Proof.
  induction l as [|a l IH]; [congruence|]. intros _. destruct l as [|b l]; [reflexivity|].
  change (removelast (a :: b :: l)) with (a :: removelast (b :: l)).
  change (S (S (length (removelast (b :: l)))) = S (length (b :: l))). f_equal. apply IH. discriminate.
Qed.

(* ideal mixing step: with a non-zero inverse total loading the returned loadings are x_i n_t, n_t = their sum *)
Lemma mix_spec : forall cs ps xf, length ps = length cs -> length xf = length cs -> sumR xf = 1 ->
  let es := entries cs ps xf in
  sumR (map e_term es) <> 0 ->
  let ns := mix RNum cs (fwd_p0 RNum ps xf) xf in
  sumR ns * sumR (map e_term es) = 1 /\ ns = loadings es (sumR ns).
Proof.
  intros cs ps xf Lp Lx S es T ns.
  assert (Hns : ns = map (fun x => x * (1 / sumR (map e_term es))) xf).
  { unfold ns, mix. rewrite terms_entries, sumN_R, n1_R. reflexivity. }
  assert (Hsum : sumR ns = 1 / sumR (map e_term es)).
  { rewrite Hns. rewrite sumR_scal, S. lra. }
  split.
  - rewrite Hsum. field. assumption.
  - unfold loadings. rewrite <- (map_map e_x (fun y => y * sumR ns)). unfold es. rewrite entries_x by assumption.
    rewrite Hns at 1. rewrite Hsum. reflexivity.
Qed.

Section WithRoot.
  Variable root : (list R -> list R) -> list R -> bool * list R.
  (* post-condition assumed of scipy.optimize.root(method='lm'): a result flagged successful is a zero of the function,
     and it has as many entries as the start vector *)
  Hypothesis root_zero : forall f x0, fst (root f x0) = true -> Forall (fun d => d = 0) (f (snd (root f x0))).
  Hypothesis root_shape : forall f x0, length (snd (root f x0)) = length x0.

  (* iast_point: whenever the model of the code returns loadings ns (for a start vector of the right size, default or
     user supplied), there are adsorbed fractions xf, one per component, in [0,1] and summing to 1, at which all spreading
     pressures are equal; and if no fraction is zero and the mixing sum is non-zero (numpy would return inf/nan there),
     ns satisfies the IAST equations with n_t = sum ns, and ns_i = x_i n_t. *)
  Theorem iast_point_satisfies_iast : forall (cs : list (icomp RNum)) (ps : list R) (g : option (list R)) (ns : list R),
    cs <> [] -> (forall gu, g = Some gu -> length gu = length cs) ->
    iast_point RNum root cs ps g = Ok ns ->
    exists xf, length xf = length cs /\ length ps = length cs
      /\ Forall (fun x => 0 <= x <= 1) xf /\ sumR xf = 1
      /\ all_equal (map e_sp (entries cs ps xf))
      /\ (sumR (map e_term (entries cs ps xf)) <> 0 ->
          is_iast (entries cs ps xf) (sumR ns) /\ ns = loadings (entries cs ps xf) (sumR ns)).
  Proof.
    intros cs ps g ns Hne Hg H. unfold iast_point in H.
    unfold guard in H.
    destruct (existsb _ cs); [discriminate|]. destruct (existsb _ cs); [discriminate|].
    destruct (Nat.eqb (length cs) 1); [discriminate|].
    match type of H with context [negb (Nat.eqb ?a ?b)] => destruct (Nat.eqb a b) eqn:Lp end; [|simpl in H; discriminate]. apply Nat.eqb_eq in Lp.
    cbv beta iota zeta delta [bind negb] in H.
    match type of H with context [removelast ?G] => remember G as g' eqn:Eg end.
    match type of H with context [root ?F ?X] => remember (root F X) as r eqn:Er end.
    match type of H with context [if ?c then false else true] => destruct c eqn:Hok end; cbv beta iota in H; [|discriminate].
    match type of H with (if ?c then _ else _) = _ => destruct c eqn:Hr end; [discriminate|].
    inversion H as [Hns]; clear H.
    assert (Lg : length g' = length cs).
    { rewrite Eg. destruct g as [gu|]; [apply Hg; reflexivity|].
      unfold fwd_guess. rewrite map_length, map2_length; congruence. }
    assert (Lx : length (full RNum (snd r)) = length cs).
    { rewrite full_length. rewrite Er. rewrite root_shape. rewrite removelast_length; [assumption|].
      intros E. rewrite E in Lg. destruct cs; [congruence|discriminate]. }
    exists (full RNum (snd r)).
    pose proof (out_of_range_false _ Hr) as Hrange.
    pose proof (full_sum (snd r)) as Hsum.
    assert (Heq : all_equal (map e_sp (entries cs ps (full RNum (snd r))))).
    { rewrite <- sps_entries. apply adj_zero_iff_all_equal. rewrite Er in Hok |- *.
      exact (root_zero (fwd_residual RNum cs ps) (removelast g') Hok). }
    split; [assumption|]. split; [assumption|]. split; [assumption|]. split; [assumption|]. split; [assumption|].
    intros T. destruct (mix_spec cs ps _ Lp Lx Hsum T) as [M1 M2]. rewrite Hns in *.
    split; [|assumption]. split; [|split; [|split]]; try assumption.
    - apply (proj1 (Forall_map e_x (fun x => 0 <= x <= 1) _)). rewrite entries_x by assumption. assumption.
    - rewrite entries_x by assumption. assumption.
  Qed.

  (* reverse_iast: the returned gas fractions yf lie in [0,1] and sum to 1, and the requested adsorbed fractions xs together
     with the partial pressures P*yf satisfy the IAST equations (xs in [0,1] is the caller's obligation: the code only tests
     that they sum to one) *)
  Lemma rev_fwd P xs yf : rev_p0 RNum P xs yf = fwd_p0 RNum (map (fun y => P * y) yf) xs.
  Proof. unfold rev_p0, fwd_p0. revert xs. induction yf; destruct xs; simpl; try reflexivity. f_equal. apply IHyf. Qed.
  Theorem reverse_iast_satisfies_iast : forall (cs : list (icomp RNum)) (xs : list R) (P : R) (g : option (list R)) (yf ns : list R),
    cs <> [] -> (forall gu, g = Some gu -> length gu = length cs) ->
    reverse_iast RNum root cs xs P g = Ok (yf, ns) ->
    length yf = length cs /\ length xs = length cs
    /\ Forall (fun y => 0 <= y <= 1) yf /\ sumR yf = 1 /\ sumR xs = 1
    /\ all_equal (map e_sp (entries cs (map (fun y => P * y) yf) xs))
    /\ (Forall (fun x => 0 <= x <= 1) xs -> sumR (map e_term (entries cs (map (fun y => P * y) yf) xs)) <> 0 ->
        is_iast (entries cs (map (fun y => P * y) yf) xs) (sumR ns)
        /\ ns = loadings (entries cs (map (fun y => P * y) yf) xs) (sumR ns)).
  Proof.
    intros cs xs P g yf ns Hne Hg H. unfold reverse_iast in H. unfold guard in H.
    destruct (existsb _ cs); [discriminate|]. destruct (existsb _ cs); [discriminate|].
    destruct (Nat.eqb (length cs) 1); [discriminate|].
    match type of H with context [negb (Nat.eqb ?a ?b)] => destruct (Nat.eqb a b) eqn:Lp end; [|simpl in H; discriminate]. apply Nat.eqb_eq in Lp.
    cbv beta iota zeta delta [bind negb] in H.
    match type of H with context [neqb ?a ?b] => destruct (neqb a b) eqn:S1 end; cbv beta iota in H; [|discriminate].
    change (Reqb (sumN RNum xs) (n1 RNum) = true) in S1. apply Reqb_true in S1. rewrite sumN_R, n1_R in S1.
    match type of H with context [removelast ?G] => remember G as g' eqn:Eg end.
    match type of H with context [root ?F ?X] => remember (root F X) as r eqn:Er end.
    match type of H with context [if ?c then false else true] => destruct c eqn:Hok end; cbv beta iota in H; [|discriminate].
    match type of H with (if ?c then _ else _) = _ => destruct c eqn:Hr end; [discriminate|].
    inversion H as [[Hy Hns]]; clear H.
    assert (Lg : length g' = length cs).
    { rewrite Eg. destruct g as [gu|]; [apply Hg; reflexivity|]. assumption. }
    assert (Ly : length (full RNum (snd r)) = length cs).
    { rewrite full_length. rewrite Er. rewrite root_shape. rewrite removelast_length; [assumption|].
      intros E. rewrite E in Lg. destruct cs; [congruence|discriminate]. }
    pose proof (out_of_range_false _ Hr) as Hrange.
    pose proof (full_sum (snd r)) as Hsum.
    set (yf0 := full RNum (snd r)) in *.
    assert (Lpy : length (map (fun y => P * y) yf0) = length cs) by (rewrite map_length; assumption).
    assert (Heq : all_equal (map e_sp (entries cs (map (fun y => P * y) yf0) xs))).
    { rewrite <- sps_entries, <- rev_fwd. apply adj_zero_iff_all_equal. rewrite Er in Hok.
      pose proof (root_zero (rev_residual RNum cs P xs) (removelast g') Hok) as Z. rewrite <- Er in Z. exact Z. }
    split; [assumption|]. split; [assumption|]. split; [assumption|]. split; [assumption|]. split; [assumption|]. split; [assumption|].
    intros Xr T. rewrite rev_fwd.
    destruct (mix_spec cs (map (fun y => P * y) yf0) xs Lpy Lp S1 T) as [M1 M2].
    split; [|assumption]. split; [|split; [|split]]; try assumption.
    - apply (proj1 (Forall_map e_x (fun x => 0 <= x <= 1) _)). rewrite entries_x by assumption. assumption.
    - rewrite entries_x by assumption. assumption.
  Qed.
End WithRoot.

(* ---------------------------------------------------------------- wrappers *)
Section Wrappers.
  Variable point : list R -> res (list R).
  (* iast_point_fraction is the point calculation at partial pressures y_i * P *)
  Theorem fraction_is_point : forall ys P, iast_point_fraction RNum point ys P = point (map (fun y => y * P) ys).
  Proof. reflexivity. Qed.
  (* iast_binary_svp: whenever it returns, entry k of the result is (n1/y1)/(n2/y2) for the loadings the point
     calculation returns at total pressure Ps[k] *)
  Theorem svp_is_point : forall cs y1 y2 Ps sel,
    iast_binary_svp RNum point cs [y1; y2] Ps = Ok sel ->
    Forall2 (fun P s => exists ns, point [y1 * P; y2 * P] = Ok ns /\ s = selectivity RNum [y1; y2] ns) Ps sel.
  Proof.
    intros cs y1 y2 Ps sel H. unfold iast_binary_svp in H.
    destruct (_ || _); [discriminate|]. destruct (negb _); [discriminate|].
    destruct (wrapper_guard RNum cs); [|simpl in H; discriminate]. cbv beta iota delta [bind] in H.
    revert sel H. induction Ps as [|P Ps IH]; intros sel H.
    - inversion H. constructor.
    - simpl in H. unfold iast_point_fraction at 1 in H. simpl map in H.
      change (nmul y1 P) with (y1 * P) in H. change (nmul y2 P) with (y2 * P) in H.
      destruct (point [y1 * P; y2 * P]) as [n|] eqn:Hp; [|discriminate]. simpl in H.
      match type of H with context [mapM ?f Ps] => destruct (mapM f Ps) as [br|] eqn:Hm end; simpl in H; [|discriminate]. inversion H; subst. constructor; [|apply IH; exact Hm].
      exists n. split; [exact Hp|reflexivity].
  Qed.
  Lemma selectivity_formula y1 y2 na nb : selectivity RNum [y1; y2] [na; nb] = (na / y1) / (nb / y2).
  Proof. reflexivity. Qed.
  (* iast_binary_vle: whenever it returns, the curve is (0,0), then (n1/(n1+n2), y) for every grid value y, then (1,1) *)
  Theorem vle_is_point : forall cs P ygrid xs ys,
    iast_binary_vle RNum point cs P ygrid = Ok (xs, ys) ->
    exists mid, xs = 0 :: mid ++ [1] /\ ys = 0 :: ygrid ++ [1]
      /\ Forall2 (fun y x => exists ns, point [y * P; (1 - y) * P] = Ok ns /\ x = vle_x RNum ns) ygrid mid.
  Proof.
    intros cs P ygrid xs ys H. unfold iast_binary_vle in H.
    destruct (negb _); [discriminate|].
    destruct (wrapper_guard RNum cs); [|simpl in H; discriminate]. cbv beta iota delta [bind] in H.
    match type of H with context [mapM ?f ygrid] => destruct (mapM f ygrid) as [mid|] eqn:Hm end; [|discriminate].
    inversion H; subst. exists mid.
    change (Q2R 0) with (n0 RNum). change (Q2R 1) with (n1 RNum). rewrite n0_R, n1_R. split; [reflexivity|]. split; [reflexivity|].
    clear H. revert mid Hm. induction ygrid as [|y ygrid IH]; intros mid Hm.
    - inversion Hm. constructor.
    - cbn [mapM] in Hm.
      assert (E : iast_point_fraction RNum point [y; nsub (n1 RNum) y] P = point [y * P; (1 - y) * P]).
      { unfold iast_point_fraction. simpl map. rewrite <- n1_R. reflexivity. }
      rewrite E in Hm.
      destruct (point [y * P; (1 - y) * P]) as [n|] eqn:Hp; [|discriminate]. simpl in Hm.
      match type of Hm with context [mapM ?f ygrid] => destruct (mapM f ygrid) as [br|] eqn:Hm2 end; simpl in Hm; [|discriminate].
      inversion Hm; subst. constructor; [|apply IH; exact Hm2].
      exists n. split; [exact Hp|reflexivity].
  Qed.
End Wrappers.

