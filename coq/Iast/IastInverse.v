(* C13 - forward and reverse IAST invert each other: a consequence of the uniqueness theorem (Iast/IastSpec.v) and of the two
   post-condition theorems about the model of pgiast.py (Iast/IastTheorems.v).  The root finder stays a premise. *)
From Coq Require Import Reals Lra Lia List Bool QArith.
From PG Require Import Lib.Num Lib.Py Iast.IastSpec Iast.IastGlue Iast.IastTheorems.
Import ListNotations.
Open Scope R_scope.

Lemma entries_combine : forall cs ps xf, entries cs ps xf = combine (combine (map to_comp cs) ps) xf.
Proof.
  induction cs as [|c cs IH]; intros ps xf; [reflexivity|].
  destruct ps as [|p ps]; [reflexivity|]. destruct xf as [|x xf]; [reflexivity|].
  simpl. f_equal. apply IH.
Qed.

(* pure-component loadings are positive at positive pressures => the mixing sum is positive for fractions in [0,1] that are not all 0
   (a zero fraction contributes 0 / n0(..) = 0) *)
Definition ld_pos (c : icomp RNum) : Prop := forall p, 0 < p -> 0 < i_ld RNum c p.
Lemma terms_nonneg_pos : forall cs ps xf, Forall ld_pos cs -> Forall (fun p => 0 < p) ps -> Forall (fun x => 0 <= x) xf ->
  0 <= sumR (map e_term (entries cs ps xf))
  /\ (length ps = length cs -> length xf = length cs -> 0 < sumR xf -> 0 < sumR (map e_term (entries cs ps xf))).
Proof.
  induction cs as [|c cs IH]; intros ps xf Hc Hp Hx.
  - simpl. split; [lra|]. intros _ Lx. destruct xf; [simpl; lra|discriminate].
  - destruct ps as [|p ps]; [simpl; split; [lra|discriminate]|]. destruct xf as [|x xf]; [simpl; split; [lra|discriminate]|].
    inversion Hc; subst. inversion Hp; subst. inversion Hx; subst.
    destruct (IH ps xf) as [N Pz]; try assumption.
    assert (T : 0 <= e_term (to_comp c, p, x) /\ (0 < x -> 0 < e_term (to_comp c, p, x))).
    { unfold e_term, e_x, e_c, e_p0, e_p. simpl.
      destruct (Rle_lt_or_eq_dec 0 x ltac:(assumption)) as [Lt|<-].
      - assert (0 < p / x) by (apply Rdiv_lt_0_compat; assumption).
        assert (0 < x / i_ld RNum c (p / x)) by (apply Rdiv_lt_0_compat; [assumption|auto]). split; [lra|auto].
      - unfold Rdiv at 1. rewrite Rmult_0_l. split; [lra|intros; lra]. }
    simpl. split; [lra|]. intros Lp Lx S. simpl in Lp, Lx.
    destruct (Rle_lt_or_eq_dec 0 x ltac:(assumption)) as [Lt|E].
    + pose proof (proj2 T Lt). lra.
    + subst x. assert (0 < sumR xf) by lra. specialize (Pz ltac:(congruence) ltac:(congruence) H). lra.
Qed.

Lemma good_combine : forall cs ps, Forall (fun c => increasing_pos (i_sp RNum c)) cs -> Forall (fun p => 0 < p) ps ->
  Forall good_cp (combine (map to_comp cs) ps).
Proof.
  induction cs as [|c cs IH]; intros [|p ps] Hinc Hps; simpl; try constructor.
  - inversion Hinc; subst. inversion Hps; subst. split; simpl; assumption.
  - inversion Hinc; subst. inversion Hps; subst. apply IH; assumption.
Qed.

Section Inverse.
  Variable root root' : (list R -> list R) -> list R -> bool * list R.
  Hypothesis root_zero : forall f x0, fst (root f x0) = true -> Forall (fun d => d = 0) (f (snd (root f x0))).
  Hypothesis root_shape : forall f x0, length (snd (root f x0)) = length x0.
  Hypothesis root_zero' : forall f x0, fst (root' f x0) = true -> Forall (fun d => d = 0) (f (snd (root' f x0))).
  Hypothesis root_shape' : forall f x0, length (snd (root' f x0)) = length x0.

  (* reverse_iast gives gas fractions yf and loadings ns for requested adsorbed fractions xs at total pressure P; the point calculation at
     the partial pressures P*yf then returns the same loadings (hence the requested fractions).  For strictly increasing spreading
     pressures, positive pure-component loadings, positive requested fractions, positive returned gas fractions and non-zero returned
     loadings; any start vectors, and the two root finders may differ (only their post-condition is used). *)
  Theorem reverse_then_forward : forall (cs : list (icomp RNum)) (xs : list R) (P : R) (g g' : option (list R)) (yf ns ns' : list R),
    cs <> [] -> (forall gu, g = Some gu -> length gu = length cs) -> (forall gu, g' = Some gu -> length gu = length cs) ->
    Forall (fun c => increasing_pos (i_sp RNum c)) cs -> Forall ld_pos cs ->
    0 < P -> Forall (fun x => 0 < x <= 1) xs ->
    reverse_iast RNum root cs xs P g = Ok (yf, ns) -> Forall (fun y => 0 < y) yf ->
    iast_point RNum root' cs (map (fun y => P * y) yf) g' = Ok ns' -> Forall (fun n => n <> 0) ns' ->
    ns' = ns
    /\ exists nt, is_iast (entries cs (map (fun y => P * y) yf) xs) nt /\ ns = loadings (entries cs (map (fun y => P * y) yf) xs) nt.
  Proof.
    intros cs xs P g g' yf ns ns' Hne Hg Hg' Hinc Hld HP Hxs Hrev Hyf Hfwd Hns'.
    set (ps := map (fun y => P * y) yf) in *.
    destruct (reverse_iast_satisfies_iast root root_zero root_shape cs xs P g yf ns Hne Hg Hrev) as (Ly & Lx & Yr & Ys & Xs & Eq & Cond).
    assert (Hps : Forall (fun p => 0 < p) ps).
    { unfold ps. apply Forall_map. eapply Forall_impl; [|exact Hyf]. intros y Hy. simpl. apply Rmult_lt_0_compat; assumption. }
    assert (Lps : length ps = length cs) by (unfold ps; rewrite map_length; assumption).
    assert (Hxs0 : Forall (fun x => 0 <= x) xs) by (eapply Forall_impl; [|exact Hxs]; intros; simpl in *; lra).
    assert (Hxs1 : Forall (fun x => 0 <= x <= 1) xs) by (eapply Forall_impl; [|exact Hxs]; intros; simpl in *; lra).
    assert (Hxsp : Forall (fun x => 0 < x) xs) by (eapply Forall_impl; [|exact Hxs]; intros; simpl in *; lra).
    destruct (terms_nonneg_pos cs ps xs Hld Hps Hxs0) as [_ Tpos].
    specialize (Tpos Lps Lx ltac:(lra)).
    destruct (Cond Hxs1 ltac:(fold ps; lra)) as [I1 L1]. fold ps in I1, L1.
    destruct (iast_point_satisfies_iast root' root_zero' root_shape' cs ps g' ns' Hne Hg' Hfwd)
      as (xf & Lxf & _ & Xr & Xsum & _ & Cond').
    assert (Hxf0 : Forall (fun x => 0 <= x) xf) by (eapply Forall_impl; [|exact Xr]; intros; simpl in *; lra).
    destruct (terms_nonneg_pos cs ps xf Hld Hps Hxf0) as [_ Tpos'].
    specialize (Tpos' Lps Lxf ltac:(lra)).
    destruct (Cond' ltac:(lra)) as [I2 L2].
    (* no returned loading is zero => every forward fraction is positive *)
    assert (Hxfp : Forall (fun x => 0 < x) xf).
    { assert (Hl : loadings (entries cs ps xf) (sumR ns') = map (fun x => x * sumR ns') xf).
      { unfold loadings. rewrite <- (map_map e_x (fun y => y * sumR ns')). rewrite entries_x by assumption. reflexivity. }
      rewrite Hl in L2. rewrite L2 in Hns'. rewrite Forall_map in Hns'.
      rewrite Forall_forall in *. intros x Hx. specialize (Hns' x Hx). specialize (Hxf0 x Hx). simpl in *.
      destruct (Rle_lt_or_eq_dec 0 x Hxf0) as [|E]; [assumption|]. subst x. exfalso. apply Hns'. ring. }
    rewrite entries_combine in I1, I2.
    assert (Good : Forall good_cp (combine (map to_comp cs) ps)).
    { apply good_combine; assumption. }
    assert (Lc : length (combine (map to_comp cs) ps) = length cs) by (rewrite combine_length, map_length, Lps; apply Nat.min_id).
    destruct (iast_unique_pos (combine (map to_comp cs) ps) xs xf (sumR ns) (sumR ns') Good (eq_trans Lx (eq_sym Lc)) (eq_trans Lxf (eq_sym Lc)) Hxsp Hxfp I1 I2) as [Ex En].
    split.
    - rewrite L2, L1. rewrite <- Ex, <- En. reflexivity.
    - exists (sumR ns). rewrite entries_combine. split; assumption || (rewrite <- entries_combine; assumption).
  Qed.
End Inverse.
