(* C13 - vocabulary of the generated wrappers (Gen/IastWrapGen.v): indexing a row. `v[k]` of the code raises IndexError past the end;
   the generated helpers only index rows / fraction vectors whose length the argument checks fixed to 2. *)
From Coq Require Import List.
From PG Require Import Lib.Num Lib.Py Iast.IastGlue.
Definition ix (N : Num) (v : list N) (k : nat) : N := nth k v (n0 N).
