(* C13 - examples: the IAST equations are satisfiable, the model executes *)
From Coq Require Import Reals Lra List Bool QArith Qreals String.
From PG Require Import Lib.Num Lib.Py Iast.IastSpec Iast.IastGlue.
Import ListNotations.
Open Scope R_scope.
(* ---------------------------------------------------------------- examples used by Props/C13.v *)
Example henry_example :
  is_iast (combine (map (fun k => (henry (fst k), snd k)) [(2, 1); (1, 2)]) [1/2; 1/2]) 4.
Proof.
  unfold is_iast. simpl. unfold e_x, e_sp, e_term, e_p0, e_c, e_p, e_x; simpl. repeat split.
  - repeat constructor; simpl; lra.
  - lra.
  - intros a b [<-|[<-|[]]] [<-|[<-|[]]]; lra.
  - field.
Qed.
Definition q_henry (K : Q) : icomp QNum := mkI QNum true "Henry"%string "absolute"%string (fun p => K * p)%Q (fun p => K * p)%Q.
Definition q_root_half (f : list Q -> list Q) (x0 : list Q) : bool * list Q :=
  let x := map (fun _ => 1 # 2)%Q x0 in (forallb (fun d => Qeq_bool d 0) (f x), x).
Definition henry_run : bool :=
  match iast_point QNum q_root_half [q_henry 2; q_henry 1] [1%Q; 2%Q] None with
  | Ok [a; b] => Qeq_bool a 2 && Qeq_bool b 2
  | _ => false end.
(* reverse then forward on the same Henry mixture: x = (1/2, 1/2) at P = 3 gives y = (1/3, 2/3), n = (2, 2); iast_point at P*y gives n again *)
Definition q_root_third (f : list Q -> list Q) (x0 : list Q) : bool * list Q :=
  let x := map (fun _ => 1 # 3)%Q x0 in (forallb (fun d => Qeq_bool d 0) (f x), x).
Definition Qlist_eqb (a b : list Q) : bool := Nat.eqb (List.length a) (List.length b) && forallb (fun ab => Qeq_bool (fst ab) (snd ab)) (combine a b).
Definition reverse_forward_run : bool :=
  match reverse_iast QNum q_root_third [q_henry 2; q_henry 1] [1 # 2; 1 # 2]%Q 3%Q None with
  | Ok (yf, ns) =>
      match iast_point QNum q_root_half [q_henry 2; q_henry 1] (map (fun y => 3 * y)%Q yf) None with
      | Ok ns' => Qlist_eqb ns' ns && Qlist_eqb ns [2; 2]%Q && Qlist_eqb yf [1 # 3; 2 # 3]%Q
      | Err _ => false end
  | Err _ => false end.
