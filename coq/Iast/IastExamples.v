(* C13 - examples: the IAST equations are satisfiable, the model executes *)
From Coq Require Import Reals Lra List Bool QArith Qreals String.
From PG Require Import Lib.Num Lib.Py Iast.IastSpec Iast.IastGlue.
Import ListNotations.
Open Scope R_scope.
(* ---------------------------------------------------------------- examples used by Props/C13.v *)
Example henry_example :
  is_iast (combine (map (fun k => (henry (fst k), snd k)) [(2, 1); (1, 2)]) [1/2; 1/2]) 4.
Proof.
  unfold is_iast. simpl. unfold e_x, e_sp, e_term, e_p0, e_c, e_p, e_x; simpl. repeat split.
  - repeat constructor; simpl; lra.
  - lra.
  - intros a b [<-|[<-|[]]] [<-|[<-|[]]]; lra.
  - field.
Qed.
Definition q_henry (K : Q) : icomp QNum := mkI QNum true "Henry"%string "absolute"%string (fun p => K * p)%Q (fun p => K * p)%Q.
Definition q_root_half (f : list Q -> list Q) (x0 : list Q) : bool * list Q :=
  let x := map (fun _ => 1 # 2)%Q x0 in (forallb (fun d => Qeq_bool d 0) (f x), x).
Definition henry_run : bool :=
  match iast_point QNum q_root_half [q_henry 2; q_henry 1] [1%Q; 2%Q] None with
  | Ok [a; b] => Qeq_bool a 2 && Qeq_bool b 2
  | _ => false end.
