(* C13 - the IAST equations as a specification over R, and their mathematical consequences:
   permutation invariance, uniqueness, closed forms (Henry, equal-capacity Langmuir).
   Nothing here mentions the code; Iast/IastGlue.v models pgiast.py and Iast/IastTheorems.v connects the two. *)
From Coq Require Import Reals Lra List Permutation.
Import ListNotations.
Open Scope R_scope.

(* a pure-component isotherm as IAST sees it: reduced spreading pressure and loading as functions of pressure *)
Record comp := mkC { sp : R -> R; ld : R -> R }.
(* component, its partial pressure, its adsorbed mole fraction *)
Definition entry := (comp * R * R)%type.
Definition e_c (e : entry) : comp := fst (fst e).
Definition e_p (e : entry) : R := snd (fst e).
Definition e_x (e : entry) : R := snd e.
Definition e_p0 (e : entry) : R := e_p e / e_x e.            (* fictitious pure-component pressure *)
Definition e_sp (e : entry) : R := sp (e_c e) (e_p0 e).
Definition e_term (e : entry) : R := e_x e / ld (e_c e) (e_p0 e).

Fixpoint sumR (l : list R) : R := match l with [] => 0 | a :: r => a + sumR r end.
Definition all_equal (l : list R) : Prop := forall a b, In a l -> In b l -> a = b.

(* the IAST equations of the property text *)
Definition is_iast (es : list entry) (ntot : R) : Prop :=
  Forall (fun e => 0 <= e_x e <= 1) es
  /\ sumR (map e_x es) = 1
  /\ all_equal (map e_sp es)
  /\ ntot * sumR (map e_term es) = 1.
Definition loadings (es : list entry) (ntot : R) : list R := map (fun e => e_x e * ntot) es.

(* ---------------------------------------------------------------- sums *)
Lemma sumR_app l1 l2 : sumR (l1 ++ l2) = sumR l1 + sumR l2.
Proof. induction l1; simpl; lra. Qed.
Lemma sumR_perm l l' : Permutation l l' -> sumR l = sumR l'.
Proof. induction 1; simpl; lra. Qed.
Lemma sumR_scal c l : sumR (map (fun a => a * c) l) = sumR l * c.
Proof. induction l; simpl; lra. Qed.
Lemma sumR_map_ext {A} (f g : A -> R) l : (forall a, In a l -> f a = g a) -> sumR (map f l) = sumR (map g l).
Proof. induction l; simpl; intros H; [reflexivity|]. rewrite H by auto. rewrite IHl by auto. reflexivity. Qed.

Lemma all_equal_cons a l : all_equal (a :: l) -> Forall (fun b => b = a) l /\ all_equal l.
Proof.
  intros H; split.
  - apply Forall_forall; intros b Hb. apply H; simpl; auto.
  - intros x y Hx Hy. apply H; simpl; auto.
Qed.
Lemma all_equal_const v l : Forall (fun b => b = v) l -> all_equal l.
Proof. intros H a b Ha Hb. rewrite Forall_forall in H. rewrite (H a Ha), (H b Hb). reflexivity. Qed.
Lemma all_equal_exists l : all_equal l -> l <> [] -> exists v, Forall (fun b => b = v) l.
Proof.
  destruct l as [|a l]; [congruence|]. intros H _. exists a. constructor; [reflexivity|].
  apply (all_equal_cons _ _ H).
Qed.

(* ---------------------------------------------------------------- permutation of the components *)
Theorem is_iast_perm es es' nt : Permutation es es' -> is_iast es nt -> is_iast es' nt.
Proof.
  intros P (Hr & Hs & He & Hn). repeat split.
  - eapply Permutation_Forall; eauto.
  - rewrite <- Hs. symmetry. apply sumR_perm, Permutation_map, P.
  - intros a b Ha Hb. apply He; eapply Permutation_in; try eassumption; apply Permutation_sym, Permutation_map, P.
  - rewrite <- Hn. f_equal. symmetry. apply sumR_perm, Permutation_map, P.
Qed.
Lemma loadings_perm es es' nt : Permutation es es' -> Permutation (loadings es nt) (loadings es' nt).
Proof. intros; unfold loadings; apply Permutation_map; assumption. Qed.

(* ---------------------------------------------------------------- uniqueness *)
Definition increasing_pos (f : R -> R) : Prop := forall a b, 0 < a -> a < b -> f a < f b.
Lemma incr_le f a b : increasing_pos f -> 0 < a -> a <= b -> f a <= f b.
Proof. intros H Ha [Hl | ->]; [left; apply H; assumption | right; reflexivity]. Qed.
Lemma incr_inj f a b : increasing_pos f -> 0 < a -> 0 < b -> f a = f b -> a = b.
Proof.
  intros H Ha Hb E. destruct (Rtotal_order a b) as [L|[L|L]]; [|assumption|].
  - pose proof (H a b Ha L); lra.
  - pose proof (H b a Hb L); lra.
Qed.
Lemma div_lt_swap p x x' : 0 < p -> 0 < x -> 0 < x' -> x <= x' -> p / x' <= p / x.
Proof.
  intros Hp Hx Hx' L. unfold Rdiv. apply Rmult_le_compat_l; [lra|]. apply Rinv_le_contravar; assumption.
Qed.

Definition cp := (comp * R)%type.
Definition good_cp (c : cp) : Prop := increasing_pos (sp (fst c)) /\ 0 < snd c.

(* if every component sits at spreading pressure v with fractions xs and at v' > v with fractions xs', then
   every fraction of the second state is strictly smaller *)
Lemma higher_pi_smaller_x : forall (cps : list cp) xs xs' v v',
  Forall good_cp cps -> length xs = length cps -> length xs' = length cps ->
  Forall (fun x => 0 < x) xs -> Forall (fun x => 0 < x) xs' ->
  Forall (fun b => b = v) (map e_sp (combine cps xs)) -> Forall (fun b => b = v') (map e_sp (combine cps xs')) ->
  v < v' -> cps <> [] -> sumR xs' < sumR xs.
Proof.
  induction cps as [|c cps IH]; intros xs xs' v v' G L L' P P' E E' Hv Hne; [congruence|].
  destruct xs as [|x xs]; [discriminate|]. destruct xs' as [|x' xs']; [discriminate|].
  simpl in *. inversion G as [|? ? [Ginc Gp] G']; subst. inversion P; subst. inversion P'; subst.
  inversion E as [|? ? E1 E2]; subst. inversion E' as [|? ? E1' E2']; subst.
  assert (Hx : x' < x).
  { destruct (Rlt_dec x' x) as [|N]; [assumption|exfalso]. apply Rnot_lt_le in N.
    assert (Q : e_sp (c, x') <= e_sp (c, x)).
    { unfold e_sp, e_p0, e_c, e_p, e_x; simpl. apply incr_le; [assumption| |].
      - apply Rdiv_lt_0_compat; assumption.
      - apply div_lt_swap; assumption. }
    lra. }
  destruct cps as [|c2 cps].
  - destruct xs; [|discriminate]. destruct xs'; [|discriminate]. simpl; lra.
  - assert (sumR xs' < sumR xs); [|lra].
    eapply (IH xs xs' (e_sp (c, x)) (e_sp (c, x'))); eauto; try congruence.
Qed.

Lemma same_pi_same_x : forall (cps : list cp) xs xs' v,
  Forall good_cp cps -> length xs = length cps -> length xs' = length cps ->
  Forall (fun x => 0 < x) xs -> Forall (fun x => 0 < x) xs' ->
  Forall (fun b => b = v) (map e_sp (combine cps xs)) -> Forall (fun b => b = v) (map e_sp (combine cps xs')) ->
  xs = xs'.
Proof.
  induction cps as [|c cps IH]; intros xs xs' v G L L' P P' E E'.
  - destruct xs; [|discriminate]. destruct xs'; [reflexivity|discriminate].
  - destruct xs as [|x xs]; [discriminate|]. destruct xs' as [|x' xs']; [discriminate|].
    simpl in *. inversion G as [|? ? [Ginc Gp] G']; subst. inversion P; subst. inversion P'; subst.
    inversion E as [|? ? E1 E2]; subst. inversion E' as [|? ? E1' E2']; subst.
    f_equal.
    + unfold e_sp, e_p0, e_c, e_p, e_x in E1'; simpl in E1'.
      apply incr_inj in E1'; try assumption; try (apply Rdiv_lt_0_compat; assumption).
      unfold Rdiv in E1'. apply Rmult_eq_reg_l in E1'; [|lra].
      rewrite <- (Rinv_inv x), <- (Rinv_inv x'). rewrite E1'. reflexivity.
    + eapply IH; eauto.
Qed.

(* IAST has at most one solution with positive fractions when every spreading pressure is strictly increasing
   and every partial pressure is positive *)
Theorem iast_unique_pos : forall (cps : list cp) xs xs' nt nt',
  Forall good_cp cps -> length xs = length cps -> length xs' = length cps ->
  Forall (fun x => 0 < x) xs -> Forall (fun x => 0 < x) xs' ->
  is_iast (combine cps xs) nt -> is_iast (combine cps xs') nt' -> xs = xs' /\ nt = nt'.
Proof.
  intros cps xs xs' nt nt' G L L' P P' (_ & S & E & T) (_ & S' & E' & T').
  assert (Hx : forall ys, length ys = length cps -> map e_x (combine cps ys) = ys).
  { clear. induction cps; destruct ys; simpl; intros; try discriminate; [reflexivity|]. f_equal. apply IHcps. congruence. }
  rewrite Hx in S, S' by assumption.
  assert (Hne : cps <> []). { intros ->. destruct xs; [simpl in S; lra|discriminate]. }
  assert (Hne1 : map e_sp (combine cps xs) <> []). { destruct cps; [congruence|]. destruct xs; discriminate. }
  assert (Hne2 : map e_sp (combine cps xs') <> []). { destruct cps; [congruence|]. destruct xs'; discriminate. }
  destruct (all_equal_exists _ E Hne1) as [v Hv]. destruct (all_equal_exists _ E' Hne2) as [v' Hv'].
  assert (xs = xs').
  { destruct (Rtotal_order v v') as [Lt|[Eq|Gt]].
    - pose proof (higher_pi_smaller_x cps xs xs' v v' G L L' P P' Hv Hv' Lt Hne). lra.
    - subst v'. eapply same_pi_same_x; eauto.
    - pose proof (higher_pi_smaller_x cps xs' xs v' v G L' L P' P Hv' Hv Gt Hne). lra. }
  subst xs'. split; [reflexivity|].
  transitivity (nt * (nt' * sumR (map e_term (combine cps xs)))); [rewrite T'; ring|].
  transitivity (nt' * (nt * sumR (map e_term (combine cps xs)))); [ring|rewrite T; ring].
Qed.

(* ---------------------------------------------------------------- closed forms *)
(* a family of isotherms that differ only by the affinity K: Pi_i(p) = F (K_i p), n0_i(p) = G (K_i p).
   Henry: F u = G u = u.  Langmuir with a common capacity M: F u = M ln (1+u), G u = M u / (1+u). *)
Definition fam (F G : R -> R) (K : R) : comp := mkC (fun p => F (K * p)) (fun p => G (K * p)).
Definition kp := (R * R)%type.     (* (K_i, p_i) *)
Definition fam_entries F G (kps : list kp) (xs : list R) : list entry :=
  combine (map (fun k => (fam F G (fst k), snd k)) kps) xs.
Definition csum (kps : list kp) : R := sumR (map (fun k => fst k * snd k) kps).

Lemma fam_common_u : forall F G (kps : list kp) xs v u,
  (forall a b, 0 < a -> 0 < b -> F a = F b -> a = b) -> 0 < u -> F u = v ->
  length xs = length kps -> Forall (fun x => 0 < x) xs -> Forall (fun k => 0 < fst k /\ 0 < snd k) kps ->
  Forall (fun b => b = v) (map e_sp (fam_entries F G kps xs)) ->
  xs = map (fun k => fst k * snd k / u) kps.
Proof.
  intros F G kps xs v u Finj Hu Fu. revert xs. induction kps as [|[K p] kps IH]; intros xs L P Kp E.
  - destruct xs; [reflexivity|discriminate].
  - destruct xs as [|x xs]; [discriminate|]. simpl in *. inversion P; subst. inversion Kp as [|? ? [HK Hp] Kp']; subst.
    inversion E as [|? ? E1 E2]; subst. simpl in *. f_equal; [|apply IH; auto].
    unfold e_sp, e_p0, e_c, e_p, e_x in E1; simpl in E1.
    assert (Q : K * (p / x) = u).
    { apply Finj; [|assumption|congruence]. apply Rmult_lt_0_compat; [assumption|apply Rdiv_lt_0_compat; assumption]. }
    rewrite <- Q. field. split; lra.
Qed.

Lemma fam_e_x F G : forall kps ys, length ys = length kps -> map e_x (fam_entries F G kps ys) = ys.
Proof.
  unfold fam_entries. induction kps; destruct ys; simpl; intros; try discriminate; [reflexivity|].
  f_equal. apply IHkps. congruence.
Qed.
Lemma fam_terms F G u : 0 < u -> forall kps, Forall (fun k : kp => 0 < fst k /\ 0 < snd k) kps ->
  map e_term (fam_entries F G kps (map (fun k => fst k * snd k / u) kps)) = map (fun k => fst k * snd k * (/ u * / G u)) kps.
Proof.
  intros Hu. induction kps as [|[K p] kps IH]; intros Kp; [reflexivity|].
  inversion Kp as [|? ? [HK Hp] Kp']; subst. unfold fam_entries in *. simpl in *. f_equal; [|apply IH; assumption].
  unfold e_term, e_p0, e_c, e_p, e_x; simpl.
  replace (K * (p / (K * p / u))) with u by (field; repeat split; lra).
  unfold Rdiv. ring.
Qed.
Lemma sumR_scal_map {A} (f : A -> R) c l : sumR (map (fun a => f a * c) l) = sumR (map f l) * c.
Proof. induction l; simpl; [lra|]. rewrite IHl. lra. Qed.

(* in such a family the IAST solution is explicit: x_i = K_i p_i / sum_j K_j p_j, total loading G (sum_j K_j p_j) *)
Theorem family_closed_form : forall F G (kps : list kp) xs nt,
  (forall a b, 0 < a -> 0 < b -> F a = F b -> a = b) ->
  length xs = length kps -> Forall (fun x => 0 < x) xs -> Forall (fun k => 0 < fst k /\ 0 < snd k) kps ->
  G (csum kps) <> 0 ->
  is_iast (fam_entries F G kps xs) nt ->
  xs = map (fun k => fst k * snd k / csum kps) kps
  /\ nt = G (csum kps)
  /\ loadings (fam_entries F G kps xs) nt = map (fun k => fst k * snd k / csum kps * G (csum kps)) kps.
Proof.
  intros F G kps xs nt Finj L P Kp GN (_ & S & E & T).
  rewrite fam_e_x in S by assumption.
  assert (exists u, 0 < u /\ Forall (fun b => b = F u) (map e_sp (fam_entries F G kps xs))) as (u & Hu & Hall).
  { destruct kps as [|[K p] kps]. { destruct xs; [simpl in S; lra|discriminate]. }
    destruct xs as [|x xs]; [discriminate|]. exists (K * (p / x)). split.
    - inversion P; subst. inversion Kp as [|? ? [HK Hp] ?]; subst. simpl in *.
      apply Rmult_lt_0_compat; [assumption|apply Rdiv_lt_0_compat; assumption].
    - apply Forall_forall. intros b Hb. apply E; [assumption|]. simpl. left. reflexivity. }
  pose proof (fam_common_u F G kps xs (F u) u Finj Hu eq_refl L P Kp Hall) as Hxs.
  assert (Hsum : sumR xs = csum kps * / u).
  { rewrite Hxs. unfold csum, Rdiv. apply sumR_scal_map. }
  assert (Hc : u = csum kps). { rewrite Hsum in S. apply (f_equal (fun z => z * u)) in S. field_simplify in S; lra. }
  assert (Hnt : nt = G u).
  { rewrite Hxs, fam_terms, sumR_scal_map in T by assumption. fold (csum kps) in T. rewrite <- Hc in T.
    replace (u * (/ u * / G u)) with (/ G u) in T by (field; split; [rewrite Hc; assumption | lra]).
    assert (GU : G u <> 0) by (rewrite Hc; assumption).
    transitivity (nt * / G u * G u); [field; assumption | rewrite T; ring]. }
  rewrite <- Hc. repeat split; [assumption..|].
  unfold loadings. rewrite <- (map_map e_x (fun y => y * nt)), fam_e_x by assumption.
  rewrite Hxs at 1. rewrite map_map, Hnt. reflexivity.
Qed.

Lemma csum_pos (kps : list kp) : kps <> [] -> Forall (fun k => 0 < fst k /\ 0 < snd k) kps -> 0 < csum kps.
Proof.
  unfold csum. intros Hne Kp. revert Hne. induction Kp as [|k0 l [Hk Hp] Kp IH]; intros Hne; [exfalso; apply Hne; reflexivity|]. simpl.
  assert (0 < fst k0 * snd k0) by (apply Rmult_lt_0_compat; assumption).
  destruct l as [|k1 l]; [simpl; lra|]. assert (Q : k1 :: l <> []) by discriminate. specialize (IH Q). lra.
Qed.

(* Henry mixture: x_i = K_i p_i / sum_j K_j p_j and n_i = K_i p_i *)
Definition henry (K : R) : comp := mkC (fun p => K * p) (fun p => K * p).
Theorem henry_closed : forall (kps : list kp) xs nt,
  length xs = length kps -> Forall (fun x => 0 < x) xs -> Forall (fun k => 0 < fst k /\ 0 < snd k) kps ->
  is_iast (combine (map (fun k => (henry (fst k), snd k)) kps) xs) nt ->
  xs = map (fun k => fst k * snd k / csum kps) kps
  /\ loadings (combine (map (fun k => (henry (fst k), snd k)) kps) xs) nt = map (fun k => fst k * snd k) kps.
Proof.
  intros kps xs nt L P Kp H.
  assert (C : 0 < csum kps).
  { apply csum_pos; [|assumption]. intros ->. destruct H as (_ & S & _). destruct xs; [simpl in S; lra|discriminate]. }
  destruct (family_closed_form (fun u => u) (fun u => u) kps xs nt) as (Hx & Hn & Hl); try assumption; try lra.
  { intros; assumption. }
  split; [assumption|]. change (combine (map (fun k => (henry (fst k), snd k)) kps) xs) with (fam_entries (fun u => u) (fun u => u) kps xs).
  rewrite Hl. apply map_ext. intros k. field. lra.
Qed.

(* Langmuir components with a common capacity M (n0 = M K p/(1+K p), Pi = M ln(1+K p)): the extended Langmuir equation *)
Definition langmuir (M K : R) : comp := mkC (fun p => M * ln (1 + K * p)) (fun p => M * (K * p) / (1 + K * p)).
Theorem langmuir_equal_capacity_closed : forall M (kps : list kp) xs nt,
  M <> 0 -> length xs = length kps -> Forall (fun x => 0 < x) xs -> Forall (fun k => 0 < fst k /\ 0 < snd k) kps ->
  is_iast (combine (map (fun k => (langmuir M (fst k), snd k)) kps) xs) nt ->
  xs = map (fun k => fst k * snd k / csum kps) kps
  /\ loadings (combine (map (fun k => (langmuir M (fst k), snd k)) kps) xs) nt = map (fun k => M * (fst k * snd k) / (1 + csum kps)) kps.
Proof.
  intros M kps xs nt HM L P Kp H.
  assert (C : 0 < csum kps).
  { apply csum_pos; [|assumption]. intros ->. destruct H as (_ & S & _). destruct xs; [simpl in S; lra|discriminate]. }
  destruct (family_closed_form (fun u => M * ln (1 + u)) (fun u => M * u / (1 + u)) kps xs nt) as (Hx & Hn & Hl); try assumption.
  { intros a b Ha Hb E. apply Rmult_eq_reg_l in E; [|assumption]. apply ln_inv in E; lra. }
  { unfold Rdiv. apply Rmult_integral_contrapositive_currified; [apply Rmult_integral_contrapositive_currified; lra|].
    apply Rinv_neq_0_compat. lra. }
  split; [assumption|].
  change (combine (map (fun k => (langmuir M (fst k), snd k)) kps) xs) with (fam_entries (fun u => M * ln (1 + u)) (fun u => M * u / (1 + u)) kps xs).
  rewrite Hl. apply map_ext. intros k. field. split; lra.
Qed.
