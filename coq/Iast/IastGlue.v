(* C13 - hand-written model of the logic of pygaps/iast/pgiast.py around scipy.optimize.root.
   One definition, two carriers: RNum (theorems, Iast/IastTheorems.v) and QNum (executed against the implementation
   by the correspondence part of tools/props/c13.py on every run).
   The pure-component isotherms enter as records of functions (spreading_pressure_at, loading_at), the root finder
   as a Section variable. Not modelled: logging / verbose output, the extrapolation warning, exceptions raised inside the
   isotherm methods while the solver iterates, user guesses rejected by numpy.testing.assert_almost_equal. *)
From Coq Require Import QArith ZArith String List Bool.
From PG Require Import Lib.Num Lib.Py.
Import ListNotations.
Open Scope string_scope.

(* modelling/__init__.py: _IAST_MODELS, compared case-insensitively by is_model_iast *)
Definition iast_models : list string :=
  ["henry"; "langmuir"; "dslangmuir"; "tslangmuir"; "quadratic"; "bet"; "temkinapprox"; "toth"; "jensenseaton"].
Definition is_model_iast (name : string) : bool := existsb (String.eqb (lower name)) iast_models.

Section Glue.
  Variable N : Num.
  Definition n0 : N := @nofQ N 0%Q.
  Definition n1 : N := @nofQ N 1%Q.

  Record icomp := mkI {
    i_is_model : bool;          (* isinstance(isotherm, ModelIsotherm) *)
    i_name : string;            (* isotherm.model.name (ModelIsotherm only) *)
    i_mode : string;            (* isotherm.pressure_mode *)
    i_sp : N -> N;              (* spreading_pressure_at(p, branch=branch) *)
    i_ld : N -> N               (* loading_at(p) *)
  }.

  Fixpoint sumN (l : list N) : N := match l with [] => n0 | a :: r => nadd a (sumN r) end.
  Fixpoint map2 {A B C} (f : A -> B -> C) (l1 : list A) (l2 : list B) : list C :=
    match l1, l2 with a :: r1, b :: r2 => f a b :: map2 f r1 r2 | _, _ => [] end.
  (* differences of neighbours: [a0-a1; a1-a2; ...] *)
  Fixpoint adj (l : list N) : list N :=
    match l with a :: ((b :: _) as r) => nsub a b :: adj r | _ => [] end.
  (* the last fraction is 1 - sum of the others ("automatically assert sum z_i = 1") *)
  Definition full (xs : list N) : list N := (xs ++ [nsub n1 (sumN xs)])%list.

  (* parameter checks shared by iast_point and reverse_iast *)
  Definition guard (cs : list icomp) (nvals : nat) : res Datatypes.unit :=
    if existsb (fun c => i_is_model c && negb (is_model_iast (i_name c))) cs then Err ParameterError
    else if existsb (fun c => prefix "relative" (i_mode c)) cs then Err ParameterError
    else if Nat.eqb (length cs) 1 then Err ParameterError
    else if negb (Nat.eqb nvals (length cs)) then Err ParameterError
    else Ok tt.

  (* spreading pressures of all components at their fictitious pressures *)
  Definition sps (cs : list icomp) (p0 : list N) : list N := map2 (fun c p => i_sp c p) cs p0.
  (* ideal mixing: 1/n_t = sum x_i / n0_i(p0_i); loadings = x_i n_t *)
  Definition mix (cs : list icomp) (p0 xs : list N) : list N :=
    let inv := sumN (map2 (fun x l => ndiv x l) xs (map2 (fun c p => i_ld c p) cs p0)) in
    let tot := ndiv n1 inv in
    map (fun x => nmul x tot) xs.
  Definition out_of_range (xs : list N) : bool := existsb (fun x => nltb x n0 || nltb n1 x) xs.

  (* scipy.optimize.root(fun, x0, method='lm') -> (res.success, res.x) *)
  Variable root : (list N -> list N) -> list N -> bool * list N.

  (* ---- iast_point *)
  Definition fwd_p0 (ps xf : list N) : list N := map2 (fun p x => ndiv p x) ps xf.
  Definition fwd_residual (cs : list icomp) (ps : list N) (xs : list N) : list N :=
    adj (sps cs (fwd_p0 ps (full xs))).
  Definition fwd_guess (cs : list icomp) (ps : list N) : list N :=
    let lg := map2 (fun c p => i_ld c p) cs ps in map (fun l => ndiv l (sumN lg)) lg.
  Definition iast_point (cs : list icomp) (ps : list N) (user_guess : option (list N)) : res (list N) :=
    bind (guard cs (length ps)) (fun _ =>
    let g := match user_guess with None => fwd_guess cs ps | Some g => g end in
    let r := root (fwd_residual cs ps) (removelast g) in
    if negb (fst r) then Err CalculationError else
    let xf := full (snd r) in
    if out_of_range xf then Err CalculationError else
    Ok (mix cs (fwd_p0 ps xf) xf)).

  (* ---- reverse_iast: unknown gas fractions ys, given adsorbed fractions xs and total pressure P *)
  Definition rev_p0 (P : N) (xs yf : list N) : list N := map2 (fun y x => ndiv (nmul P y) x) yf xs.
  Definition rev_residual (cs : list icomp) (P : N) (xs ys : list N) : list N :=
    adj (sps cs (rev_p0 P xs (full ys))).
  Definition reverse_iast (cs : list icomp) (xs : list N) (P : N) (user_guess : option (list N)) : res (list N * list N) :=
    bind (guard cs (length xs)) (fun _ =>
    if negb (neqb (sumN xs) n1) then Err ParameterError else
    let g := match user_guess with None => xs | Some g => g end in
    let r := root (rev_residual cs P xs) (removelast g) in
    if negb (fst r) then Err CalculationError else
    let yf := full (snd r) in
    if out_of_range yf then Err CalculationError else
    Ok (yf, mix cs (rev_p0 P xs yf) xs)).

  (* ---- wrappers, over the point calculation they call *)
  Variable point : list N -> res (list N).     (* iast_point(isotherms, ., branch, warningoff, guess) *)
  Definition iast_point_fraction (ys : list N) (P : N) : res (list N) := point (map (fun y => nmul y P) ys).

  Fixpoint mapM {A B} (f : A -> res B) (l : list A) : res (list B) :=
    match l with [] => Ok [] | a :: r => bind (f a) (fun b => bind (mapM f r) (fun br => Ok (b :: br))) end.
  Definition nth0 (l : list N) := nth 0 l n0.
  Definition nth1 (l : list N) := nth 1 l n0.
  Definition wrapper_guard (cs : list icomp) : res Datatypes.unit :=
    if existsb (fun c => prefix "relative" (i_mode c)) cs then Err ParameterError else Ok tt.
  (* iast_binary_svp: selectivity (n1/y1)/(n2/y2) at every total pressure *)
  Definition selectivity (ys ns : list N) : N := ndiv (ndiv (nth0 ns) (nth0 ys)) (ndiv (nth1 ns) (nth1 ys)).
  Definition iast_binary_svp (cs : list icomp) (ys : list N) (Ps : list N) : res (list N) :=
    if negb (Nat.eqb (length cs) 2) || negb (Nat.eqb (length ys) 2) then Err ParameterError
    else if negb (neqb (sumN ys) n1) then Err ParameterError
    else bind (wrapper_guard cs) (fun _ => mapM (fun P => res_map (selectivity ys) (iast_point_fraction ys P)) Ps).
  (* iast_binary_vle: x1 = n1/(n1+n2) on the grid y = linspace(0.01, 0.99, npoints), with the end points (0,0), (1,1) added *)
  Definition vle_x (ns : list N) : N := ndiv (nth0 ns) (nadd (nth0 ns) (nth1 ns)).
  Definition iast_binary_vle (cs : list icomp) (P : N) (ygrid : list N) : res (list N * list N) :=
    if negb (Nat.eqb (length cs) 2) then Err ParameterError
    else bind (wrapper_guard cs) (fun _ =>
      bind (mapM (fun y => res_map vle_x (iast_point_fraction [y; nsub n1 y] P)) ygrid) (fun xs =>
      Ok ((n0 :: xs ++ [n1])%list, (n0 :: ygrid ++ [n1])%list))).
End Glue.
