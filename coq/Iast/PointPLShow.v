(* C13 - execution of the piecewise-linear interpolant (Iast/PointPL.v, QNum) beside PointIsotherm.loading_at called with its default
   arguments on an object WITH A HISTORY. queries: (pressure, implementation outcome 0 = returned / 1 = refused, returned value).
   -> (0, 1, 1, 1, every query agrees) in the layout of the other C13 comparisons *)
From Coq Require Import QArith ZArith List Bool.
From PG Require Import Lib.Num Lib.Show Iast.PointPL.
Import ListNotations.
Open Scope Z_scope.

Definition flq (me : Z * Z) : Q := fl (fst me) (snd me).
Definition cmp_pl (rows : list ((Z * Z) * (Z * Z))) (queries : list ((Z * Z) * Z * (Z * Z))) : Z * Z * Z * Z * Z :=
  let d := map (fun r => (flq (fst r), flq (snd r))) rows in
  let ok := forallb (fun qy =>
    match pl_at QNum d (flq (fst (fst qy))) with
    | Some v => (snd (fst qy) =? 0) && close_q 1 1000000000 v (flq (snd qy))
    | None => (snd (fst qy) =? 1)
    end) queries in
  (0, 1, 1, 1, if ok then 1 else 0).
