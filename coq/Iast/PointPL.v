(* C13 - the pure-component isotherm GIVEN BY THE DATA of a point isotherm: the piecewise-linear interpolant of the measured rows
   (core/pointisotherm.py loading_at with its default arguments: scipy interp1d(kind='linear'), no fill: refused outside the measured range).
   One definition, two carriers: RNum for the theorems below, QNum executed beside the implementation by tools/props/c13.py on OBJECTS WITH
   A HISTORY (earlier queries with other interpolation kinds / fills / branches / units): whatever was asked before, a default query
   must return this interpolant.  Not modelled: the other interpolation kinds, fill values, unit conversion of the query. *)
From Coq Require Import QArith ZArith List Bool Reals Lra.
From PG Require Import Lib.Num.
Import ListNotations.

Section PL.
  Variable N : Num.
  (* value on the segment (p1,l1)-(p2,l2) *)
  Definition seg (p1 l1 p2 l2 p : N) : N := nadd l1 (nmul (ndiv (nsub l2 l1) (nsub p2 p1)) (nsub p p1)).
  (* rows in increasing pressure; None = outside the measured range (interp1d raises) *)
  Fixpoint pl_at (d : list (N * N)) (p : N) : option N :=
    match d with
    | [] => None
    | (p1, l1) :: r =>
      if nltb p p1 then None else
      match r with
      | [] => if neqb p p1 then Some l1 else None
      | (p2, l2) :: _ => if nltb p2 p then pl_at r p else Some (seg p1 l1 p2 l2 p)
      end
    end.
End PL.

Local Open Scope R_scope.

Fixpoint increasing (d : list (R * R)) : Prop :=
  match d with
  | (p1, _) :: r => match r with (p2, _) :: _ => p1 < p2 /\ increasing r | [] => True end
  | [] => True
  end.

Lemma seg_R p1 l1 p2 l2 p : seg RNum p1 l1 p2 l2 p = l1 + (l2 - l1) / (p2 - p1) * (p - p1).
Proof. reflexivity. Qed.

(* the segment passes through its end points *)
Lemma seg_ends p1 l1 p2 l2 : p1 < p2 -> seg RNum p1 l1 p2 l2 p1 = l1 /\ seg RNum p1 l1 p2 l2 p2 = l2.
Proof. intro H. rewrite !seg_R. cbv [t RNum]. split; field; lra. Qed.

(* between its end points it stays between any bounds of the two end loadings *)
Lemma seg_hull a b p1 l1 p2 l2 p :
  p1 < p2 -> p1 <= p <= p2 -> a <= l1 <= b -> a <= l2 <= b -> a <= seg RNum p1 l1 p2 l2 p <= b.
Proof.
  intros H Hp H1 H2. rewrite seg_R.
  set (t := (p - p1) / (p2 - p1)).
  assert (Ht : 0 <= t <= 1).
  { unfold t. split.
    - apply Rmult_le_pos; [lra|]. apply Rlt_le, Rinv_0_lt_compat; lra.
    - apply Rmult_le_reg_r with (p2 - p1); [lra|]. unfold Rdiv. rewrite Rmult_assoc, Rinv_l by lra. lra. }
  cbv [t RNum]. replace (l1 + (l2 - l1) / (p2 - p1) * (p - p1)) with (l1 + (l2 - l1) * t) by (unfold t; field; lra).
  split; nra.
Qed.

(* and it is monotone when the two loadings are *)
Lemma seg_monotone p1 l1 p2 l2 p q : p1 < p2 -> l1 <= l2 -> p <= q -> seg RNum p1 l1 p2 l2 p <= seg RNum p1 l1 p2 l2 q.
Proof.
  intros H Hl Hpq. rewrite !seg_R. cbv [t RNum].
  assert (0 <= (l2 - l1) / (p2 - p1)) by (apply Rmult_le_pos; [lra|]; apply Rlt_le, Rinv_0_lt_compat; lra).
  nra.
Qed.

(* whenever the interpolant of increasing rows is defined, its value lies within any bounds of the measured loadings *)
Theorem pl_at_hull : forall (d : list (R * R)) a b p v,
  increasing d -> Forall (fun r => a <= snd r <= b) d -> pl_at RNum d p = Some v -> a <= v <= b.
Proof.
  induction d as [|[p1 l1] r IH]; intros a b p v Hinc Hall Hv; [discriminate|].
  inversion Hall as [|x y Hh Ht]; subst. simpl in Hh.
  destruct r as [|[p2 l2] r'].
  - simpl in Hv. change (nltb (n:=RNum) p p1) with (Rltb p p1) in Hv. destruct (Rltb p p1); [discriminate|].
    change (neqb (n:=RNum) p p1) with (Reqb p p1) in Hv. destruct (Reqb p p1); [|discriminate]. injection Hv as <-. exact Hh.
  - destruct Hinc as [H12 Hinc].
    change (pl_at RNum ((p1, l1) :: (p2, l2) :: r') p) with
      (if Rltb p p1 then None else if Rltb p2 p then pl_at RNum ((p2, l2) :: r') p else Some (seg RNum p1 l1 p2 l2 p)) in Hv.
    unfold Rltb in Hv. destruct (Rlt_dec p p1) as [|G1]; [discriminate|]. destruct (Rlt_dec p2 p) as [|G2].
    + eapply IH; eauto.
    + injection Hv as <-. inversion Ht as [|x y Hh2 _]; subst. simpl in Hh2. apply seg_hull; lra.
Qed.

(* it is defined at every measured pressure of increasing rows and returns the measured loading there *)
Theorem pl_at_first_row p1 l1 r : pl_at RNum ((p1, l1) :: r) p1 = Some l1 \/ exists p2 l2 r', r = (p2, l2) :: r' /\ ~ p1 < p2.
Proof.
  destruct r as [|[p2 l2] r'].
  - left. simpl. change (nltb (n:=RNum) p1 p1) with (Rltb p1 p1). unfold Rltb. destruct (Rlt_dec p1 p1); [lra|].
    change (neqb (n:=RNum) p1 p1) with (Reqb p1 p1). unfold Reqb. destruct (Req_EM_T p1 p1); congruence.
  - destruct (Rlt_dec p1 p2) as [L|NL]; [left|right; eauto].
    change (pl_at RNum ((p1, l1) :: (p2, l2) :: r') p1) with
      (if Rltb p1 p1 then None else if Rltb p2 p1 then pl_at RNum ((p2, l2) :: r') p1 else Some (seg RNum p1 l1 p2 l2 p1)).
    unfold Rltb. destruct (Rlt_dec p1 p1); [lra|]. destruct (Rlt_dec p2 p1); [lra|]. f_equal. apply seg_ends; lra.
Qed.

Example pl_example : pl_at RNum [(1, 2); (3, 6); (4, 7)] 2 = Some 4 /\ pl_at RNum [(1, 2); (3, 6); (4, 7)] 5 = None.
Proof.
  split.
  - change (pl_at RNum [(1, 2); (3, 6); (4, 7)] 2) with
      (if Rltb 2 1 then None else if Rltb 3 2 then pl_at RNum [(3, 6); (4, 7)] 2 else Some (seg RNum 1 2 3 6 2)).
    unfold Rltb. destruct (Rlt_dec 2 1); [lra|]. destruct (Rlt_dec 3 2); [lra|]. f_equal. rewrite seg_R. cbv [t RNum]. field.
  - change (pl_at RNum [(1, 2); (3, 6); (4, 7)] 5) with
      (if Rltb 5 1 then None else if Rltb 3 5 then
         (if Rltb 5 3 then None else if Rltb 4 5 then (if Rltb 5 4 then None else if Reqb 5 4 then Some 7 else None) else Some (seg RNum 3 6 4 7 5))
       else Some (seg RNum 1 2 3 6 5)).
    unfold Rltb, Reqb. repeat match goal with |- context [Rlt_dec ?a ?b] => destruct (Rlt_dec a b); try lra end.
    destruct (Req_EM_T 5 4); [lra|reflexivity].
Qed.
