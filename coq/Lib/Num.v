(* Carrier abstraction: one record of operations, two instances.
   RNum : exact reals, used by every theorem.  QNum : rationals, used to execute the same
   definitions by vm_compute in the correspondence check. *)
From Coq Require Import QArith Qreals Reals ZArith Bool.

Record Num := mkNum {
  t :> Type;
  nofQ : Q -> t;
  nadd : t -> t -> t;
  nsub : t -> t -> t;
  nmul : t -> t -> t;
  ndiv : t -> t -> t;
  nopp : t -> t;
  ninv : t -> t;
  neqb : t -> t -> bool;
  nltb : t -> t -> bool;
  nleb : t -> t -> bool
}.
Arguments nofQ {_} _. Arguments nadd {_} _ _. Arguments nsub {_} _ _. Arguments nmul {_} _ _.
Arguments ndiv {_} _ _. Arguments nopp {_} _. Arguments ninv {_} _.
Arguments neqb {_} _ _. Arguments nltb {_} _ _. Arguments nleb {_} _ _.

Definition Reqb (a b : R) : bool := if Req_EM_T a b then true else false.
Definition Rltb (a b : R) : bool := if Rlt_dec a b then true else false.
Definition Rleb (a b : R) : bool := if Rle_dec a b then true else false.

Definition RNum : Num :=
  mkNum R Q2R Rplus Rminus Rmult Rdiv Ropp Rinv Reqb Rltb Rleb.

Definition Qltb (a b : Q) : bool := negb (Qle_bool b a).
Definition QNum : Num :=
  mkNum Q (fun q => q) Qplus Qminus Qmult Qdiv Qopp Qinv Qeq_bool Qltb Qle_bool.

Lemma Reqb_true a b : Reqb a b = true <-> a = b.
Proof. unfold Reqb; destruct (Req_EM_T a b); split; congruence. Qed.
Lemma Reqb_false a b : Reqb a b = false <-> a <> b.
Proof. unfold Reqb; destruct (Req_EM_T a b); split; congruence. Qed.
Lemma Rltb_true a b : Rltb a b = true <-> (a < b)%R.
Proof. unfold Rltb; destruct (Rlt_dec a b); split; congruence. Qed.
Lemma Rltb_false a b : Rltb a b = false <-> ~ (a < b)%R.
Proof. unfold Rltb; destruct (Rlt_dec a b); split; congruence. Qed.
Lemma Rleb_true a b : Rleb a b = true <-> (a <= b)%R.
Proof. unfold Rleb; destruct (Rle_dec a b); split; congruence. Qed.
Lemma Rleb_false a b : Rleb a b = false <-> ~ (a <= b)%R.
Proof. unfold Rleb; destruct (Rle_dec a b); split; congruence. Qed.
