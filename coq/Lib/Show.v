(* Printing helpers for the correspondence check: every model result becomes a tuple of integers. *)
From Coq Require Import QArith ZArith List.
From PG Require Import Lib.Num Lib.Py.
Definition exn_code (e : exn) : Z :=
  match e with ParameterError => 1 | CalculationError => 2 | ParsingError => 3 | KeyError => 4 | TypeError => 5
             | ZeroDivisionError => 6 | ValueError => 7 | AttributeError => 8 | FellOffEnd => 9 end%Z.
Definition showq (r : res Q) : Z * Z * Z :=
  match r with
  | Ok q => let q' := Qred q in (0%Z, Qnum q', Zpos (Qden q'))
  | Err e => (exn_code e, 0%Z, 0%Z) end.
Definition showqv (q : Q) : Z * Z * Z := let q' := Qred q in (0%Z, Qnum q', Zpos (Qden q')).
