(* NB: no Qred here: Z.gcd on 300-bit numbers costs ~25 ms per value in the VM; the harness reduces fractions itself.
   Printing helpers for the correspondence check: every model result becomes a tuple of integers. *)
From Coq Require Import QArith Qabs ZArith List Bool.
Import ListNotations.
From PG Require Import Lib.Num Lib.Py.
Definition exn_code (e : exn) : Z :=
  match e with ParameterError => 1 | CalculationError => 2 | ParsingError => 3 | KeyError => 4 | TypeError => 5
             | ZeroDivisionError => 6 | ValueError => 7 | AttributeError => 8 | FellOffEnd => 9 end%Z.
Definition showq (r : res Q) : Z * Z * Z :=
  match r with
  | Ok q => (0%Z, Qnum q, Zpos (Qden q))
  | Err e => (exn_code e, 0%Z, 0%Z) end.
Definition showqv (q : Q) : Z * Z * Z := (0%Z, Qnum q, Zpos (Qden q)).

(* Comparison INSIDE Coq (printing 300-digit integers is what is slow, not computing them):
   a binary64 value is passed as mantissa and exponent, fl m e = m * 2^e exactly. *)
Definition fl (m e : Z) : Q := inject_Z m * Qpower (2 # 1) e.
(* |q - p| <= tol * max(|q|,|p|), tol = tn / td *)
Definition close_q (tn td : Z) (q p : Q) : bool :=
  Qle_bool (Qabs (q - p) * inject_Z td) (inject_Z tn * (if Qle_bool (Qabs q) (Qabs p) then Qabs p else Qabs q)).
(* model result vs implementation outcome (code, value): 1 = agree, 0 = disagree; also returns the model's outcome code *)
Definition cmpq (tn td : Z) (r : res Q) (oc m e : Z) : Z * Z :=
  match r with
  | Ok q => (0%Z, if (oc =? 0)%Z && close_q tn td q (fl m e) then 1%Z else 0%Z)
  | Err x => (exn_code x, if (oc =? exn_code x)%Z then 1%Z else 0%Z) end.
Definition cmpqv (tn td : Z) (q : Q) (m e : Z) : Z * Z := (0%Z, if close_q tn td q (fl m e) then 1%Z else 0%Z).
Fixpoint all_close (tn td : Z) (qs : list Q) (ps : list (Z * Z)) : bool :=
  match qs, ps with
  | [], [] => true
  | q :: qr, (m, e) :: pr => close_q tn td q (fl m e) && all_close tn td qr pr
  | _, _ => false end.
