(* Proof by evaluation of a generated model over R: unfold everything except the real operators,
   resolve each numeric test (x =? 0, a <? b) with lra from the hypotheses in scope, finish with field. *)
From Coq Require Import Reals Lra QArith Qreals ZArith String List Bool.
From PG Require Import Lib.Num Lib.Py.
Open Scope R_scope.

Ltac ev := cbv -[Rmult Rdiv Rinv Rplus Rminus Ropp IZR Q2R Req_EM_T Rlt_dec Rle_dec Reqb Rltb Rleb].
Lemma Q2R_zero : Q2R 0 = 0.
Proof. unfold Q2R; simpl; lra. Qed.
Ltac nonzero :=
  unfold Rdiv;
  repeat first [ apply Rinv_neq_0_compat | apply Rmult_integral_contrapositive_currified ];
  try lra.
Ltac num_side := rewrite ?Q2R_zero; unfold Q2R; simpl; first [ lra | nonzero; fail | nra | idtac ].
Ltac test_step :=
  match goal with
  | |- context [Reqb ?a ?b] =>
      let H := fresh "Hb" in
      first [ assert (H : Reqb a b = false) by (apply Reqb_false; num_side)
            | assert (H : Reqb a b = true) by (apply Reqb_true; num_side; field; num_side) ];
      rewrite H; clear H
  | |- context [Rltb ?a ?b] =>
      let H := fresh "Hb" in
      first [ assert (H : Rltb a b = false) by (apply Rltb_false; num_side)
            | assert (H : Rltb a b = true) by (apply Rltb_true; num_side) ];
      rewrite H; clear H
  | |- context [Rleb ?a ?b] =>
      let H := fresh "Hb" in
      first [ assert (H : Rleb a b = false) by (apply Rleb_false; num_side)
            | assert (H : Rleb a b = true) by (apply Rleb_true; num_side) ];
      rewrite H; clear H
  end.
Ltac eval_model := ev; repeat (test_step; ev).
Ltac solve_conv :=
  eval_model; try reflexivity;
  try (f_equal; cbv [t RNum] in *; unfold Q2R; simpl; field; repeat split; num_side).
