(* Python-level plumbing shared by generated and hand-written models:
   result/exception monad, early-return control, str|None truthiness, dict lookups. *)
From Coq Require Import QArith ZArith String List Bool Ascii.
From PG Require Import Lib.Num.
Import ListNotations.
Open Scope string_scope.

Inductive exn := ParameterError | CalculationError | ParsingError | KeyError | TypeError
               | ZeroDivisionError | ValueError | AttributeError | FellOffEnd.
Inductive res (A : Type) := Ok (a : A) | Err (e : exn).
Arguments Ok {A}. Arguments Err {A}.
Inductive ctl (R S : Type) := Return (r : R) | Fall (s : S).
Arguments Return {R S}. Arguments Fall {R S}.
Definition bind {A B} (m : res A) (f : A -> res B) : res B :=
  match m with Ok a => f a | Err e => Err e end.
Definition bindc {R S S'} (m : res (ctl R S)) (f : S -> res (ctl R S')) : res (ctl R S') :=
  match m with Ok (Return r) => Ok (Return r) | Ok (Fall s) => f s | Err e => Err e end.
Definition run {R} (m : res (ctl R Datatypes.unit)) : res R :=
  match m with Ok (Return r) => Ok r | Ok (Fall _) => Err FellOffEnd | Err e => Err e end.
Definition res_map {A B} (f : A -> B) (m : res A) : res B :=
  match m with Ok a => Ok (f a) | Err e => Err e end.
Definition is_ok {A} (m : res A) : bool := match m with Ok _ => true | Err _ => false end.

Definition exn_eqb (a b : exn) : bool :=
  match a, b with
  | ParameterError, ParameterError | CalculationError, CalculationError | ParsingError, ParsingError
  | KeyError, KeyError | TypeError, TypeError | ZeroDivisionError, ZeroDivisionError
  | ValueError, ValueError | AttributeError, AttributeError | FellOffEnd, FellOffEnd => true
  | _, _ => false end.

(* str | None *)
Definition ostr_truthy (s : option string) : bool :=
  match s with Some "" => false | Some _ => true | None => false end.
Definition ostr_eqb (a b : option string) : bool :=
  match a, b with Some x, Some y => String.eqb x y | None, None => true | _, _ => false end.
Fixpoint ostr_in (a : option string) (l : list (option string)) : bool :=
  match l with [] => false | x :: r => ostr_eqb a x || ostr_in a r end.

Definition lower_ascii (c : ascii) : ascii :=
  let n := nat_of_ascii c in
  if (Nat.leb 65 n && Nat.leb n 90)%bool then ascii_of_nat (n + 32) else c.
Fixpoint lower (s : string) : string :=
  match s with EmptyString => EmptyString | String c r => String (lower_ascii c) (lower r) end.
Definition ostr_lower (s : option string) : option string := option_map lower s.
Fixpoint contains (sub s : string) : bool :=
  String.prefix sub s || match s with EmptyString => false | String _ r => contains sub r end.
Definition ostr_contains (sub s : option string) : bool :=
  match sub, s with Some a, Some b => contains a b | _, _ => false end.

Fixpoint assoc {A} (k : string) (l : list (string * A)) : option A :=
  match l with [] => None | (k', v) :: r => if String.eqb k k' then Some v else assoc k r end.

Lemma ostr_eqb_eq a b : ostr_eqb a b = true <-> a = b.
Proof.
  destruct a as [x|], b as [y|]; simpl; try (split; congruence).
  rewrite String.eqb_eq. split; congruence.
Qed.

Section WithNum.
  Variable N : Num.
  Definition tbl := list (string * N).
  Definition mtbl := list (string * option tbl).
  Definition tbl_mem (k : option string) (t : tbl) : bool :=
    match k with Some s => match assoc s t with Some _ => true | None => false end | None => false end.
  Definition mtbl_mem (k : option string) (t : mtbl) : bool :=
    match k with Some s => match assoc s t with Some _ => true | None => false end | None => false end.
  Definition tbl_get (t : tbl) (k : option string) : res N :=
    match k with Some s => match assoc s t with Some v => Ok v | None => Err KeyError end
               | None => Err KeyError end.
  Definition mtbl_get (t : mtbl) (k : option string) : res (option tbl) :=
    match k with Some s => match assoc s t with Some v => Ok v | None => Err KeyError end
               | None => Err KeyError end.
  (* truthiness of dict | None : a non-empty dict is truthy *)
  Definition otbl_truthy (t : option tbl) : bool := match t with Some (_ :: _) => true | _ => false end.
  (* passing None where a dict is indexed / tested with `in` : TypeError *)
  Definition otbl_force (t : option tbl) : res tbl := match t with Some x => Ok x | None => Err TypeError end.
  Definition otbl_get (t : option tbl) (k : option string) : res N :=
    match t with Some x => tbl_get x k | None => Err TypeError end.
  Definition onum_truthy (x : option N) : bool :=
    match x with Some v => negb (neqb v (nofQ 0)) | None => false end.
  Definition safe_div (a b : N) : res N :=
    if neqb b (nofQ 0) then Err ZeroDivisionError else Ok (ndiv a b).
  (* x ** sign, sign in {1,-1}; the translator rejects any other exponent expression.
     Python raises ZeroDivisionError for 0.0 ** -1 *)
  Definition powz (x : N) (z : Z) : res N :=
    match z with
    | 1%Z => Ok x
    | (-1)%Z => if neqb x (nofQ 0) then Err ZeroDivisionError else Ok (ninv x)
    | _ => Err FellOffEnd end.
  Definition ofZ (z : Z) : N := nofQ (inject_Z z).
End WithNum.
Arguments tbl_mem {N}. Arguments mtbl_mem {N}. Arguments tbl_get {N}. Arguments mtbl_get {N}.
Arguments otbl_truthy {N}. Arguments otbl_force {N}. Arguments otbl_get {N}. Arguments onum_truthy {N}.
Arguments safe_div {N}. Arguments powz {N}. Arguments ofZ {N}.
