(* Hand-written (H), tied to the code by the AIF correspondence part of ./check C07 (the model's item list vs the items gemmi parses
   from the text isotherm_to_aif wrote, item by item; the model's import of those items vs the state of isotherm_from_aif's
   result; on generated isotherms, executed in Coq):
   parsing/aif.py   isotherm_to_aif   : to_dict, `sample_` flattening of the material, the audit pairs, adsorptive / temperature /
                                        material, the named _META_DICT tags, the unit strings, `_pygaps_<unit>` backups, `_pygaps_<key>`
                                        for every remaining item (value str()-ed between single quotes), one _adsorp_ loop then one
                                        _desorp_ loop (8-decimal texts) or the `_pygaps_model_*` pairs
                    isotherm_from_aif : version check, creation method, sequential iteration over the items: val.strip("'"), named
                                        tags (float() / str), `_pygaps_` tags through cast_string, other tags, loops (column names
                                        through _DATA_DICT, to_numeric per column, branch by the tag prefix), `sample_` regrouping,
                                        ads rows then des rows, the model dictionary, then the constructors (Codec/JsonDoc.v)
   The document is the abstract item list of a CIF block: pairs (tag, raw value) and loops (tags, rows of raw values).
   Oracles (Section variables): repr of a float, float() of a string, _from_list, pandas.to_numeric on one column of texts, the
   adsorbate registry and the label tables. The LIBRARY gemmi (set_pair / init_loop / as_string, read_string) is the identity on
   item lists whose values are single CIF tokens (`token_ok`); anything else is outside the modelled fragment (FellOffEnd).
   The tag tables and the version are GENERATED from the source (Gen/TablesGen.v). *)
From Coq Require Import QArith Qabs ZArith NArith String List Bool Ascii Lia.
From PG Require Import Lib.Num Lib.Py Codec.PyVal Gen.TablesGen Codec.JsonDoc Codec.CastString Codec.CsvDoc.
Import ListNotations.
Open Scope list_scope.
Open Scope nat_scope.
Open Scope string_scope.

Inductive item := IPair (tag val : string) | ILoop (tags : list string) (rows : list (list string)).

(* ------------------------------------------------------------------ strings *)
Definition sq : ascii := ascii_of_nat 39.            (* the single quote *)
Definition quote (s : string) : string := String sq (s ++ String sq "").
Fixpoint lstrip_q (s : string) : string := match s with String c r => if Ascii.eqb c sq then lstrip_q r else s | "" => "" end.
Fixpoint rstrip_q (s : string) : string :=
  match s with
  | "" => ""
  | String c r => match rstrip_q r with "" => if Ascii.eqb c sq then "" else String c "" | r' => String c r' end
  end.
Definition strip_q (s : string) : string := lstrip_q (rstrip_q s).          (* s.strip("'") *)
Fixpoint replace_char (a b : ascii) (s : string) : string :=
  match s with "" => "" | String c r => String (if Ascii.eqb c a then b else c) (replace_char a b r) end.
Fixpoint drop (n : nat) (s : string) : string := match n, s with S k, String _ r => drop k r | _, _ => s end.
Fixpoint has_space (s : string) : bool := match s with "" => false | String c r => is_space c || has_space r end.
Fixpoint quote_then_space (s : string) : bool :=
  match s with String c (String d r as t) => (Ascii.eqb c sq && is_space d) || quote_then_space t | _ => false end.
Definition is_ascii (s : string) : bool :=          (* no control character (UTF-8 bytes above 127 pass through gemmi unchanged) *)
  (fix go (s : string) := match s with "" => true | String c r => negb (Nat.eqb (nat_of_ascii c) 127) && Nat.leb 32 (nat_of_ascii c) && go r end) s.
Fixpoint removelast_s (s : string) : string := match s with "" => "" | String c "" => "" | String c r => String c (removelast_s r) end.
(* a value gemmi writes and parses back as ONE token with the same raw text: a quoted string (printable ASCII, no quote followed by
   a blank inside), or a bare word without blanks that does not begin with a character special to CIF *)
Definition token_ok (v : string) : bool :=
  match v with
  | "" => false
  | String c r =>
      if Ascii.eqb c sq then
        match last_char r with Some d => Ascii.eqb d sq | None => false end && negb (quote_then_space (removelast_s r)) && is_ascii v
      else negb (has_space v) && is_ascii v
           && negb (existsb (Ascii.eqb c) [ascii_of_nat 34; ascii_of_nat 35; ascii_of_nat 36; ascii_of_nat 95; ascii_of_nat 91; ascii_of_nat 93; ascii_of_nat 59])
  end.
Definition item_tokens_ok (it : item) : bool :=
  match it with
  | IPair t v => token_ok v
  | ILoop tags rows => forallb (forallb token_ok) rows && negb (match rows with [] => true | _ => false end) end.
(* block.set_pair(tag, value): replaces the value of an existing tag in place, else appends *)
Fixpoint set_pair (tag val : string) (items : list item) : list item :=
  match items with
  | [] => [IPair tag val]
  | IPair t v :: r => if String.eqb t tag then IPair t val :: r else IPair t v :: set_pair tag val r
  | x :: r => x :: set_pair tag val r end.

Section Aif.
Variable repr_float : Q -> string.            (* str(float) *)
Variable float_of : string -> pyval.          (* float(s) for a string Python's float() accepts *)
Variable from_list : string -> res pyval.     (* string_utilities._from_list *)
Variable to_numeric : list string -> list pyval.   (* pandas.to_numeric on one column of texts, the texts themselves (VStr) when it fails *)
Variable ads_canon : string -> string.
Variable labels_ok : dict -> bool.

(* ---------------------------------------------------------------- writer *)
Definition sample_prefix : string := "sample_".
Definition flatten_s (d : dict) : dict :=
  match dget "material" d with
  | Some (VDict m) =>
      match dget "name" m with
      | Some nm => dict_update (dict_set "material" nm d) (map (fun kv => (sample_prefix ++ fst kv, snd kv)) (ddel "name" m))
      | None => d end
  | _ => d end.
Definition aif_dict (i : iso) : dict := flatten_s (to_dict i).
Definition fstr (v : pyval) : res string := str_scalar repr_float v.          (* f"{v}" of a scalar *)
Definition gets (k : string) (d : dict) : res string := match dget k d with Some v => fstr v | None => Err KeyError end.

(* the named tags of _META_DICT whose key is in the dictionary, in table order: (items, dictionary without them) *)
Fixpoint named_pairs (tbl : list (string * (string * bool))) (d : dict) (items : list item) : res (list item * dict) :=
  match tbl with
  | [] => Ok (items, d)
  | (tag, (text, _)) :: r =>
      match dget text d with
      | Some v => bind (fstr v) (fun t => named_pairs r (ddel text d) (set_pair tag (quote t) items))
      | None => named_pairs r d items end
  end.
Fixpoint unit_pairs (us : list string) (d : dict) (items : list item) : res (list item * dict) :=
  match us with
  | [] => Ok (items, d)
  | u :: r => bind (gets u d) (fun t => unit_pairs r (ddel u d) (set_pair ("_pygaps_" ++ u) (quote t) items)) end.
Fixpoint meta_pairs (d : dict) (items : list item) : res (list item) :=
  match d with
  | [] => Ok items
  | (k, v) :: r => bind (fstr v) (fun t => meta_pairs r (set_pair ("_pygaps_" ++ replace_char " " "_" k) (quote t) items)) end.
Definition units_loading (d : dict) : res string :=
  bind (gets "loading_basis" d) (fun lb => bind (gets "material_basis" d) (fun mb =>
  bind (gets "loading_unit" d) (fun lu => bind (gets "material_unit" d) (fun mu =>
  Ok (if String.eqb lb "fraction" then quote ("fraction " ++ mb) else if String.eqb lb "percent" then quote ("% " ++ mb)
      else quote (lu ++ "/" ++ mu)))))).
(* df.round(8).astype("string"): one cell *)
Definition aif_cell (v : pyval) : res string :=
  match v with
  | VNaN => Err TypeError                          (* <NA> is handed to gemmi's set_all_values *)
  | VStr s => if token_ok s then Ok s else Err FellOffEnd
  | _ => cell_text "," v end.
Definition loop_rows (cols : list string) (rows : list row) : res (list (list string)) :=
  mapM (fun r => mapM (fun k => match dget k (r_cells r) with Some v => aif_cell v | None => Err KeyError end) cols) rows.
Definition data_loops (pk lk : string) (rows : list row) : res (list item) :=
  match rows with
  | [] => Err FellOffEnd
  | r0 :: _ =>
      let oks := filter (fun k => negb (String.eqb k pk || String.eqb k lk)) (keys (r_cells r0)) in
      let cols := pk :: lk :: oks in
      let ads := filter (fun r => negb (r_des r)) rows in
      let des := filter r_des rows in
      bind (match ads with [] => Ok [] | _ => bind (loop_rows cols ads) (fun rs => Ok [ILoop (map (fun t => "_adsorp_" ++ t) ("pressure" :: "amount" :: oks)) rs]) end) (fun la =>
      bind (match des with [] => Ok [] | _ => bind (loop_rows cols des) (fun rs => Ok [ILoop (map (fun t => "_desorp_" ++ t) ("pressure" :: "amount" :: oks)) rs]) end) (fun ld =>
      Ok (la ++ ld)%list)) end.
Definition range_pair (v : pyval) : res (string * string) :=
  match v with
  | VTuple [a; b] | VList [a; b] => bind (fstr a) (fun x => bind (fstr b) (fun y => Ok (x, y)))
  | _ => Err FellOffEnd end.
Definition model_pairs (m : pmodel) (items : list item) : res (list item) :=
  bind (fstr (md_rmse m)) (fun rm => bind (range_pair (md_prange m)) (fun pr => bind (range_pair (md_lrange m)) (fun lr =>
  let items := set_pair "_pygaps_model_name" (md_name m) items in
  let items := set_pair "_pygaps_model_rmse" rm items in
  let items := set_pair "_pygaps_model_pressure_range_min" (fst pr) items in
  let items := set_pair "_pygaps_model_pressure_range_max" (snd pr) items in
  let items := set_pair "_pygaps_model_loading_range_min" (fst lr) items in
  let items := set_pair "_pygaps_model_loading_range_max" (snd lr) items in
  fold_left (fun acc kv => bind acc (fun its => bind (fstr (snd kv)) (fun t => Ok (set_pair ("_pygaps_model_param_" ++ fst kv) t its))))
            (md_params m) (Ok items)))).
(* the block as its item list *)
Definition aif_items (i : iso) : res (list item) :=
  let d := aif_dict i in
  bind (gets "adsorbate" d) (fun ads => bind (gets "temperature" d) (fun temp => bind (gets "material" d) (fun mat =>
  let items := [IPair "_audit_aif_version" aif_version; IPair "_audit_creation_method" "pyGAPS"] in
  let items := set_pair "_exptl_adsorptive" (quote ads) items in
  let items := set_pair "_exptl_temperature" temp items in
  let items := set_pair "_adsnt_material_id" (quote mat) items in
  let d1 := ddel "material" (ddel "temperature" (ddel "adsorbate" d)) in
  bind (named_pairs aif_meta d1 items) (fun st =>
  let '(items, d2) := st in
  bind (gets "temperature_unit" d2) (fun tu => bind (gets "pressure_mode" d2) (fun pm => bind (gets "pressure_unit" d2) (fun pu =>
  bind (units_loading d2) (fun ul =>
  let items := set_pair "_units_temperature" (quote tu) items in
  let items := set_pair "_units_pressure" (if String.eqb pm "absolute" then pu else pm) items in
  let items := set_pair "_units_loading" ul items in
  bind (unit_pairs (map fst unit_params) d2 items) (fun st2 =>
  let '(items, d3) := st2 in
  bind (meta_pairs d3 items) (fun items =>
  bind (match i_body i with
        | BBase => Ok items
        | BPoint pk lk rows _ _ => bind (data_loops pk lk rows) (fun ls => Ok (items ++ ls)%list)
        | BModel _ m => model_pairs m items end) (fun items =>
  if forallb item_tokens_ok items then Ok items else Err FellOffEnd))))))))))).

(* ---------------------------------------------------------------- reader *)
Definition cast (s : string) : res pyval := CsvDoc.cast float_of from_list s.
Fixpoint find_value (tag : string) (items : list item) : option string :=
  match items with
  | [] => None
  | IPair t v :: r => if String.eqb t tag then Some v else find_value tag r
  | _ :: r => find_value tag r end.
Definition excluded : list string := "_audit_aif_version" :: "_audit_creation_method" :: aif_units.
Definition col_name (tag : string) : string := let c := drop 8 tag in match Lib.Py.assoc c aif_data with Some d => d | None => c end.
(* rows of texts -> columns -> to_numeric -> rows of (name, value) *)
Definition column (j : nat) (rows : list (list string)) : list string := map (fun r => nth j r "") rows.
Definition frame (cols : list string) (rows : list (list string)) : list dict :=
  let cvals := map (fun j => to_numeric (column j rows)) (seq 0 (length cols)) in
  map (fun k => map (fun jc => (snd jc, nth k (nth (fst jc) cvals []) VNaN)) (combine (seq 0 (length cols)) cols)) (seq 0 (length rows)).
Record rstate := mkSt { st_raw : dict; st_cols : list string; st_d0 : option (list dict); st_d1 : option (list dict) }.
Definition read_item (st : rstate) (it : item) : res rstate :=
  match it with
  | IPair key val0 =>
      let val := strip_q val0 in
      match Lib.Py.assoc key aif_meta with
      | Some (text, isfloat) =>
          if isfloat then
            if is_float val then Ok (mkSt (dict_set text (float_of val) (st_raw st)) (st_cols st) (st_d0 st) (st_d1 st))
            else Ok st                                        (* ValueError: a warning, the value is dropped *)
          else Ok (mkSt (dict_set text (VStr val) (st_raw st)) (st_cols st) (st_d0 st) (st_d1 st))
      | None =>
          if prefix "_pygaps_" key then
            bind (cast val) (fun v => Ok (mkSt (dict_set (drop 8 key) v (st_raw st)) (st_cols st) (st_d0 st) (st_d1 st)))
          else if mem key excluded then Ok st
          else bind (cast val) (fun v => Ok (mkSt (dict_set key v (st_raw st)) (st_cols st) (st_d0 st) (st_d1 st)))
      end
  | ILoop tags rows =>
      let des := match tags with t :: _ => prefix "_desorp_" t | [] => false end in
      let cols := match st_cols st with [] => map col_name tags | c => c end in
      let fr := frame cols rows in
      if des then Ok (mkSt (st_raw st) cols (st_d0 st) (Some fr)) else Ok (mkSt (st_raw st) cols (Some fr) (st_d1 st))
  end.
Fixpoint read_items (items : list item) (st : rstate) : res rstate :=
  match items with [] => Ok st | it :: r => bind (read_item st it) (read_items r) end.
Definition regroup_s (d : dict) : res dict :=
  let mats := filter (fun kv => prefix sample_prefix (fst kv)) d in
  match mats with
  | [] => Ok d
  | _ =>
      let m := fold_left (fun acc kv => dict_set (remove_pat sample_prefix (fst kv) 0) (snd kv) acc) mats [] in
      if negb (forallb (fun k => mem (sample_prefix ++ k) (keys d)) (keys m)) then Err KeyError
      else
        let d' := fold_left (fun acc k => ddel (sample_prefix ++ k) acc) (keys m) d in
        match dget "material" d' with
        | Some nm => Ok (dict_set "material" (VDict (dict_set "name" nm m)) d')
        | None => Err KeyError end
  end.
Definition pop (k : string) (d : dict) : res (pyval * dict) := match dget k d with Some v => Ok (v, ddel k d) | None => Err KeyError end.
Definition to_rows (fr : list dict) (des : bool) : list row := map (fun cells => mkRow cells des) fr.
(* everything up to the constructor call *)
Definition aif_parse (items : list item) : res (dict * section) :=
  match find_value "_audit_aif_version" items with
  | None => Err FellOffEnd                                                  (* other versions: not modelled *)
  | Some ver =>
      if negb (String.eqb (strip_q ver) aif_version) then Err FellOffEnd else
      let raw0 := match find_value "_audit_creation_method" items with
                  | Some c => if negb (String.eqb c "") && negb (String.eqb (strip_q c) "pyGAPS") then [("_audit_creation_method", VStr (strip_q c))] else []
                  | None => [] end in
      bind (read_items items (mkSt raw0 [] None None)) (fun st =>
      let raw := st_raw st in
      if negb (forallb (fun u => mem u (keys raw)) (map fst unit_params)) then Err FellOffEnd     (* unit strings are parsed: not modelled *)
      else
      bind (regroup_s raw) (fun raw =>
      let has_data := match st_d0 st, st_d1 st with None, None => false | _, _ => true end in
      if has_data || existsb (prefix "data") (keys raw) then
        match st_d0 st, st_d1 st with
        | Some a, Some b => Ok (raw, SPoint "pressure" "loading" (to_rows a false ++ to_rows b true)%list)
        | Some a, None => Ok (raw, SPoint "pressure" "loading" (to_rows a false))
        | None, Some b => Ok (raw, SPoint "pressure" "loading" (to_rows b true))
        | None, None => Err FellOffEnd end
      else if existsb (prefix "model") (keys raw) then
        bind (pop "model_name" raw) (fun p1 => bind (pop "model_rmse" (snd p1)) (fun p2 =>
        bind (pop "model_pressure_range_min" (snd p2)) (fun p3 => bind (pop "model_pressure_range_max" (snd p3)) (fun p4 =>
        bind (pop "model_loading_range_min" (snd p4)) (fun p5 => bind (pop "model_loading_range_max" (snd p5)) (fun p6 =>
        let rest := snd p6 in
        let pkeys := filter (prefix "model_param") (keys rest) in
        let ps := map (fun k => (drop 12 k, getd k rest VNone)) pkeys in
        let rest := remove_all pkeys rest in
        Ok (rest, SModel (VDict [("name", fst p1); ("rmse", fst p2); ("pressure_range", VList [fst p3; fst p4]);
                                 ("loading_range", VList [fst p5; fst p6]); ("parameters", VDict ps)]))))))))
      else Ok (raw, SBase)))
  end.
Definition aif_import (items : list item) : res iso := bind (aif_parse items) (csv_build ads_canon labels_ok).

End Aif.
