(* Correspondence driver for Codec/CsvDoc.v: the model's CSV document is compared INSIDE Coq with the text isotherm_to_csv wrote,
   and the model's import of that text with the state of the object isotherm_from_csv returned. The oracles of CsvDoc.v
   (repr(float), float(str), _from_list) are finite tables read off the implementation for the strings / floats of the case. *)
From Coq Require Import QArith ZArith NArith String List Bool Ascii.
From PG Require Import Lib.Num Lib.Py Lib.Show Codec.PyVal Gen.TablesGen Codec.JsonDoc Codec.JsonShow Codec.CastString Codec.CsvDoc.
Import ListNotations.
Open Scope list_scope.
Open Scope string_scope.

Definition tbl_repr (t : list (Q * string)) (q : Q) : string :=
  match find (fun e => Qeq_bool (fst e) q) t with Some e => snd e | None => "<no repr>" end.
Definition tbl_float (t : list (string * pyval)) (s : string) : pyval :=
  match Lib.Py.assoc s t with Some v => v | None => VOpaque end.
Definition tbl_list (t : list (string * pyval)) (s : string) : res pyval :=
  match Lib.Py.assoc s t with Some v => Ok v | None => Err ValueError end.

(* cells: floats up to 1e-14 relative (pandas' fast float parser is not correctly rounded), everything else typed and exact *)
Definition cell_close (a b : pyval) : bool :=
  match a, b with
  | VFloat x, VFloat y => Qeq_bool x y || close_q 1 100000000000000 x y
  | _, _ => veqb a b end.
Definition cells_close (a b : dict) : bool :=
  Nat.eqb (length a) (length b) &&
  forallb (fun kv => match dget (fst kv) b with Some w => cell_close (snd kv) w | None => false end) a.
Definition rows_close (a b : list row) : bool :=
  Nat.eqb (length a) (length b) && forallb (fun ab => cells_close (r_cells (fst ab)) (r_cells (snd ab))) (combine a b).
(* [units; material name; material properties; adsorbate; temperature; metadata; class; cells; branch marks; model; keys] *)
Definition iso_cmp_csv (a b : iso) : list Z :=
  ([ b2z (list_veqb (i_units a) (i_units b)); b2z (String.eqb (i_mat a) (i_mat b)); b2z (dict_eqb (i_mprops a) (i_mprops b));
    b2z (String.eqb (i_ads a) (i_ads b)); b2z (veqb (i_temp a) (i_temp b)); b2z (dict_eqb (i_meta a) (i_meta b));
    b2z (Z.eqb (body_kind (i_body a)) (body_kind (i_body b))) ] ++
  (match i_body a, i_body b with
  | BPoint pk lk ra _ _, BPoint pk' lk' rb _ _ =>
      [ b2z (rows_close ra rb); b2z (marks_eqb ra rb); 1%Z; b2z (String.eqb pk pk' && String.eqb lk lk') ]
  | BModel ba ma, BModel bb mb => [ 1%Z; b2z (veqb ba bb); b2z (model_eqb ma mb); 1%Z ]
  | BBase, BBase => [1; 1; 1; 1]%Z
  | _, _ => [0; 0; 0; 0]%Z end))%list.

Fixpoint first_diff (a b : list string) (n : Z) : Z :=
  match a, b with
  | [], [] => (-1)%Z
  | x :: a', y :: b' => if String.eqb x y then first_diff a' b' (n + 1)%Z else n
  | _, _ => n end.

(* -> [export code (9 = outside the modelled fragment); index of the first line that differs from the implementation's text or -1;
       import code; import outcome agrees] ++ iso_cmp_csv *)
Definition chk_csv (sep : ascii) (rt : list (Q * string)) (ft lt : list (string * pyval)) (tbl : list (string * string))
           (i : iso) (text : string) (imp_code : Z) (j : iso) : list Z :=
  let imp :=
    match csv_import_text sep (tbl_float ft) (tbl_list lt) (canon tbl) (fun _ => true) text with
    | Err x => [exn_code x; b2z (Z.eqb imp_code (exn_code x))]
    | Ok i' => ([0%Z; b2z (Z.eqb imp_code 0)] ++ iso_cmp_csv i' j)%list
    end in
  match csv_lines sep (tbl_repr rt) i with
  | Err x => ([exn_code x; (-2)%Z] ++ imp)%list
  | Ok ls => ([0%Z; first_diff (ls ++ [""]) (split nl text) 0%Z] ++ imp)%list
  end.
