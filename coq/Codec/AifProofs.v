(* Proofs about the AIF document model (Codec/AifDoc.v): the `_pygaps_` metadata pairs by induction over the metadata list (writer: the
   pairs are appended in order; reader: they are read back as the dictionary), witnesses and refutations. *)
From Coq Require Import QArith ZArith NArith String List Bool Ascii Lia.
From PG Require Import Lib.Num Lib.Py Codec.PyVal Gen.TablesGen Codec.JsonDoc Codec.CastString Codec.CsvDoc Codec.AifDoc.
Import ListNotations.
Open Scope list_scope.
Open Scope nat_scope.
Open Scope string_scope.

(* ------------------------------------------------------------------ strings *)
Definition first_not_q (t : string) : bool := match t with String c _ => negb (Ascii.eqb c sq) | "" => true end.
Definition last_not_q (t : string) : bool := match last_char t with Some c => negb (Ascii.eqb c sq) | None => true end.
Lemma rstrip_q_app t : last_not_q t = true -> rstrip_q (t ++ String sq "") = t.
Proof.
  induction t as [|c r IH]; intros H.
  - reflexivity.
  - cbn [append rstrip_q]. destruct r as [|d r'].
    + unfold last_not_q in H. cbn [last_char] in H. apply negb_true_iff in H. cbn [append rstrip_q]. change (Ascii.eqb sq sq) with true. cbn iota. rewrite H. reflexivity.
    + assert (H' : last_not_q (String d r') = true) by exact H. rewrite (IH H'). reflexivity.
Qed.
(* val.strip("'") undoes the quoting of a text that neither begins nor ends with a quote *)
Lemma strip_quote t : first_not_q t = true -> last_not_q t = true -> strip_q (quote t) = t.
Proof.
  intros F L. unfold strip_q, quote. cbn [rstrip_q]. rewrite (rstrip_q_app t L).
  destruct t as [|c r].
  - reflexivity.
  - cbn [lstrip_q]. change (Ascii.eqb sq sq) with true. cbn iota. cbn [first_not_q] in F. apply negb_true_iff in F. cbn [lstrip_q]. rewrite F. reflexivity.
Qed.
Lemma drop_prefix k : drop 8 ("_pygaps_" ++ k) = k.
Proof. reflexivity. Qed.
Lemma prefix_pygaps k : prefix "_pygaps_" ("_pygaps_" ++ k) = true.
Proof. cbn. destruct k; reflexivity. Qed.
(* no named tag of _META_DICT begins with _pygaps_ (by evaluation on the generated table) *)
Lemma meta_tags_not_pygaps : forallb (fun e : string * (string * bool) => negb (prefix "_pygaps_" (fst e))) aif_meta = true.
Proof. vm_compute. reflexivity. Qed.
Lemma assoc_not_prefixed {A} (tbl : list (string * A)) k :
  forallb (fun e => negb (prefix "_pygaps_" (fst e))) tbl = true -> Lib.Py.assoc ("_pygaps_" ++ k) tbl = None.
Proof.
  induction tbl as [|[t v] r IH]; intros H; [reflexivity|]. cbn [forallb fst] in H. apply andb_true_iff in H as [H1 H2].
  cbn [Lib.Py.assoc]. destruct (String.eqb ("_pygaps_" ++ k) t) eqn:E.
  - apply String.eqb_eq in E. subst t. rewrite prefix_pygaps in H1. discriminate.
  - exact (IH H2).
Qed.

Section Proofs.
Variable repr_float : Q -> string.
Variable float_of : string -> pyval.
Variable from_list : string -> res pyval.
Variable to_numeric : list string -> list pyval.

(* the value domain: the text written for v, between quotes, is stripped and cast back to v *)
Definition aif_item_ok (kv : string * pyval) : Prop :=
  exists t, fstr repr_float (snd kv) = Ok t /\ first_not_q t = true /\ last_not_q t = true /\ cast float_of from_list t = Ok (snd kv).
Definition meta_item (kv : string * pyval) : res item :=
  bind (fstr repr_float (snd kv)) (fun t => Ok (IPair ("_pygaps_" ++ fst kv) (quote t))).
Definition with_raw (st : rstate) (raw : dict) : rstate := mkSt raw (st_cols st) (st_d0 st) (st_d1 st).

Lemma read_meta_item k v t st : first_not_q t = true -> last_not_q t = true -> cast float_of from_list t = Ok v ->
  read_item float_of from_list to_numeric st (IPair ("_pygaps_" ++ k) (quote t)) = Ok (with_raw st (dict_set k v (st_raw st))).
Proof.
  intros F L C. unfold read_item. rewrite (assoc_not_prefixed aif_meta k meta_tags_not_pygaps).
  rewrite prefix_pygaps, (strip_quote t F L), C. reflexivity.
Qed.
(* induction over the metadata list: the `_pygaps_` pairs of a dictionary in the value domain are read back as that dictionary *)
Theorem read_meta_pairs d : forall ps rest st, Forall aif_item_ok d -> mapM meta_item d = Ok ps ->
  read_items float_of from_list to_numeric (ps ++ rest)%list st
  = read_items float_of from_list to_numeric rest (with_raw st (dict_update (st_raw st) d)).
Proof.
  induction d as [|[k v] d IH]; intros ps rest st F M.
  - cbn in M. injection M as <-. destruct st; reflexivity.
  - inversion F as [|? ? (t & T & Fq & Lq & C) F']; subst. cbn [fst snd] in *.
    cbn [mapM] in M. unfold meta_item at 1 in M. cbn [fst snd] in M. rewrite T in M. cbn [bind] in M.
    destruct (mapM meta_item d) as [ps'|e] eqn:E; cbn [bind] in M; [|discriminate]. injection M as <-.
    cbn [app read_items]. pose proof (read_meta_item k v t st Fq Lq C) as R. cbn [append] in R. rewrite R. cbn [bind].
    rewrite (IH ps' rest _ F' eq_refl). destruct st; reflexivity.
Qed.

(* the writer: on tags that are not yet in the block, set_pair appends; the metadata pairs are appended in dictionary order *)
Fixpoint pair_tags (items : list item) : list string :=
  match items with [] => [] | IPair t _ :: r => t :: pair_tags r | _ :: r => pair_tags r end.
Lemma set_pair_fresh tag v items : mem tag (pair_tags items) = false -> set_pair tag v items = (items ++ [IPair tag v])%list.
Proof.
  induction items as [|[t w|ts rs] r IH]; intros H; [reflexivity| |].
  - cbn [pair_tags mem] in H. apply orb_false_iff in H as [H1 H2]. cbn [set_pair app]. rewrite String.eqb_sym, H1, (IH H2). reflexivity.
  - cbn [pair_tags] in H. cbn [set_pair app]. rewrite (IH H). reflexivity.
Qed.
Lemma pair_tags_app a b : pair_tags (a ++ b)%list = (pair_tags a ++ pair_tags b)%list.
Proof. induction a as [|[t w|ts rs] r IH]; cbn [app pair_tags]; [reflexivity| |]; rewrite IH; reflexivity. Qed.
Fixpoint no_space (s : string) : bool := match s with "" => true | String c r => negb (Ascii.eqb c " ") && no_space r end.
Lemma replace_no_space k : no_space k = true -> replace_char " " "_" k = k.
Proof.
  induction k as [|c r IH]; intros H; [reflexivity|]. cbn [no_space] in H. apply andb_true_iff in H as [H1 H2].
  apply negb_true_iff in H1. cbn [replace_char]. rewrite H1, (IH H2). reflexivity.
Qed.
Theorem meta_pairs_appended d : forall items ps,
  Forall (fun kv => no_space (fst kv) = true) d -> nodup_keys d = true ->
  forallb (fun k => negb (mem ("_pygaps_" ++ k) (pair_tags items))) (keys d) = true ->
  mapM meta_item d = Ok ps -> meta_pairs repr_float d items = Ok (items ++ ps)%list.
Proof.
  induction d as [|[k v] d IH]; intros items ps S N Fr M.
  - cbn in M. injection M as <-. cbn. rewrite app_nil_r. reflexivity.
  - inversion S as [|? ? S1 S']; subst. cbn [fst] in S1.
    cbn [nodup_keys] in N. apply andb_true_iff in N as [N1 N2]. apply negb_true_iff in N1.
    cbn [keys map forallb fst] in Fr. apply andb_true_iff in Fr as [Fr1 Fr2]. apply negb_true_iff in Fr1.
    cbn [mapM] in M. unfold meta_item at 1 in M. cbn [fst snd] in M.
    destruct (fstr repr_float v) as [t|e] eqn:T; cbn [bind] in M; [|discriminate].
    destruct (mapM meta_item d) as [ps'|e] eqn:E; cbn [bind] in M; [|discriminate]. injection M as <-.
    cbn [meta_pairs]. rewrite T. cbn [bind]. rewrite (replace_no_space k S1), (set_pair_fresh _ _ _ Fr1).
    rewrite (IH _ ps' S' N2); [rewrite <- app_assoc; reflexivity| |reflexivity].
    rewrite forallb_forall in *. intros x Hx. fold (keys d) in *. rewrite pair_tags_app, mem_app. cbn [pair_tags mem].
    rewrite (proj1 (negb_true_iff _) (Fr2 x Hx)). cbn [orb]. rewrite orb_false_r.
    destruct (String.eqb ("_pygaps_" ++ x) ("_pygaps_" ++ k)) eqn:Q; [|reflexivity].
    apply String.eqb_eq in Q. cbn in Q. injection Q as Q. subst x. apply mem_In in Hx. rewrite Hx in N1. discriminate.
Qed.

End Proofs.

(* ================================================================ the value domain (from Codec/CastString.v, Codec/CsvDoc.v) *)
Lemma digit_not_quote c : is_digit c = true -> Ascii.eqb c sq = false.
Proof. intros D. destruct (Ascii.eqb c sq) eqn:E; [|reflexivity]. apply Ascii.eqb_eq in E. subst c. discriminate D. Qed.
Lemma digits_no_quote s : all_digits s = true -> first_not_q s = true /\ last_not_q s = true.
Proof.
  intros D. split.
  - destruct s as [|c r]; [reflexivity|]. cbn [all_digits] in D. apply andb_true_iff in D as [D _].
    cbn [first_not_q]. rewrite (digit_not_quote c D). reflexivity.
  - unfold last_not_q. induction s as [|c r IH]; [reflexivity|]. cbn [all_digits] in D. apply andb_true_iff in D as [D1 D2].
    destruct r as [|d r']; [|exact (IH D2)]. cbn [last_char]. rewrite (digit_not_quote c D1). reflexivity.
Qed.
Lemma aif_item_nat repr_float float_of from_list k n : aif_item_ok repr_float float_of from_list (k, VInt (Z.of_N n)).
Proof.
  destruct (castable_nat repr_float float_of from_list n) as [T C]. exists (print_nat n).
  destruct (digits_no_quote (print_nat n) (digits_string_of_uint (N.to_uint n))) as [F L]. cbn [snd]. repeat split; assumption.
Qed.
Lemma aif_item_bool repr_float float_of from_list k b : aif_item_ok repr_float float_of from_list (k, VBool b).
Proof. destruct b; eexists; repeat split; reflexivity. Qed.
Lemma aif_item_none repr_float float_of from_list k : aif_item_ok repr_float float_of from_list (k, VNone).
Proof. eexists; repeat split; reflexivity. Qed.
Lemma aif_item_bool_none repr_float float_of from_list k :
  (forall b : bool, aif_item_ok repr_float float_of from_list (k, VBool b)) /\ aif_item_ok repr_float float_of from_list (k, VNone).
Proof. split; [intros b; apply aif_item_bool|apply aif_item_none]. Qed.
Lemma aif_item_text repr_float float_of from_list k s :
  first_not_q s = true -> last_not_q s = true ->
  CastString.is_none s = false -> is_bool s = false -> isnumeric s = false -> is_float s = false -> is_list s = false ->
  aif_item_ok repr_float float_of from_list (k, VStr s).
Proof.
  intros F L H1 H2 H3 H4 H5. exists s. destruct (castable_text repr_float float_of from_list s H1 H2 H3 H4 H5) as [T C].
  cbn [snd]. repeat split; assumption.
Qed.
Lemma aif_item_float repr_float float_of from_list k q :
  first_not_q (repr_float q) = true -> last_not_q (repr_float q) = true ->
  is_float (repr_float q) = true -> isnumeric (repr_float q) = false -> CastString.is_none (repr_float q) = false ->
  is_bool (repr_float q) = false -> float_of (repr_float q) = VFloat q ->
  aif_item_ok repr_float float_of from_list (k, VFloat q).
Proof.
  intros F L H1 H2 H3 H4 H5. exists (repr_float q). destruct (castable_float repr_float float_of from_list q H1 H2 H3 H4 H5) as [T C].
  cbn [snd]. repeat split; assumption.
Qed.

(* ================================================================ witnesses (tagged oracles) *)
Definition w_arepr (q : Q) : string := if Qeq_bool q 0 then "0.0" else if Qeq_bool q 77 then "77.0" else if Qeq_bool q (1 # 2) then "0.5" else "2.0".
Definition w_afloat (s : string) : pyval :=
  if String.eqb s "0.0" then VFloat 0 else if String.eqb s "77.0" then VFloat 77 else if String.eqb s "0.5" then VFloat (1 # 2) else VFloat 2.
Definition w_alist (s : string) : res pyval := Err ValueError.
Definition w_anum (col : list string) : list pyval := map w_afloat col.
Definition w_arow (p l : Q) (des : bool) : row := mkRow [("pressure", VFloat p); ("loading", VFloat l)] des.
Definition w_aif_rows : list row := [w_arow 0 0 false; w_arow (1 # 2) 2 false; w_arow 2 2 false; w_arow (1 # 2) 2 true; w_arow 0 0 true].
Definition w_aif_iso (rows : list row) : iso :=
  mkIso [VStr "absolute"; VStr "bar"; VStr "mass"; VStr "g"; VStr "molar"; VStr "mmol"; VStr "K"] "carbon-x" [] "nitrogen" (VFloat 77)
        [("comment", VStr "back to vacuum"); ("leak", VFloat 0); ("checked", VBool false); ("count", VInt 0)] (BPoint "pressure" "loading" rows VNone VNone).
(* a table that starts and ends at a pressure of exactly 0, with falsy metadata (0.0, False, 0): everything is read back *)
Lemma w_aif_zero_roundtrip :
  exists items raw, aif_items w_arepr (w_aif_iso w_aif_rows) = Ok items /\
                    aif_parse w_afloat w_alist w_anum items = Ok (raw, SPoint "pressure" "loading" w_aif_rows) /\
                    dget "leak" raw = Some (VFloat 0) /\ dget "checked" raw = Some (VBool false) /\ dget "count" raw = Some (VInt 0) /\
                    dget "temperature" raw = Some (VFloat 77).
Proof. eexists _, _. split; [vm_compute; reflexivity|]. split; [vm_compute; reflexivity|]. repeat split; vm_compute; reflexivity. Qed.
(* REFUTED: desorption-marked points that are not all after the adsorption-marked ones come back re-ordered (all adsorption first) *)
Definition w_aif_interleaved : list row := [w_arow 0 0 false; w_arow 2 2 true; w_arow (1 # 2) 2 false].
Lemma w_aif_regrouped :
  exists items raw, aif_items w_arepr (w_aif_iso w_aif_interleaved) = Ok items /\
                    aif_parse w_afloat w_alist w_anum items = Ok (raw, SPoint "pressure" "loading" [w_arow 0 0 false; w_arow (1 # 2) 2 false; w_arow 2 2 true]).
Proof. eexists _, _. split; vm_compute; reflexivity. Qed.
(* REFUTED: a text that begins and ends with a quote loses them; a negative int is read through float() *)
Lemma w_aif_quotes_lost : strip_q (quote "'quoted'") = "quoted".
Proof. reflexivity. Qed.
Lemma w_aif_negative_int : fstr w_arepr (VInt (-5)) = Ok "-5" /\ cast w_afloat w_alist (strip_q (quote "-5")) = Ok (w_afloat "-5").
Proof. split; reflexivity. Qed.
