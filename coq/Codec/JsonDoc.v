(* Hand-written (H), tied to the code by the correspondence part of ./check C06 (and C05, C07 which reuse it):
   - the content of an isotherm of the three classes (BaseIsotherm / PointIsotherm / ModelIsotherm)
   - BaseIsotherm.to_dict            core/baseisotherm.py : vars(self) -> pops -> reserved removed -> metadata merged last
   - isotherm_to_json / _from_json   parsing/json.py      : file_version, rows as dicts with 'branch':'des' marks only,
                                                            branch column rebuilt (missing -> 0, 'des' -> 1), no mark at all -> 'guess'
   - the constructors                BaseIsotherm.__init__ (shorthands, required, unit defaults, relative -> unit None, label check),
                                     PointIsotherm.__init__ (column presence, branch guess = split_ads_data on a RangeIndex),
                                     ModelIsotherm.__init__ with a model instance, model_from_dict
   The attribute census, the reserved lists, the unit parameters, the constructor argument names, the file version and the
   model parameter names are GENERATED from the source (Gen/TablesGen.v).
   External behaviour enters as Section variables: the json library (contract: loads (dumps v) = jnorm v, up to key order),
   the adsorbate registry (canonical name), the label tables of C01/C02 (labels_ok), the material registry (assumed not to hold
   the material: Material.find fails and a fresh Material is built). *)
From Coq Require Import QArith ZArith String List Bool.
From PG Require Import Lib.Num Lib.Py Codec.PyVal Gen.TablesGen.
Import ListNotations.
Open Scope string_scope.
Open Scope list_scope.

Record row := mkRow { r_cells : dict; r_des : bool }.          (* every column except 'branch'; desorption mark *)
Record pmodel := mkModel { md_name : string; md_rmse : pyval; md_params : dict; md_prange : pyval; md_lrange : pyval }.
Inductive body :=
| BBase
| BPoint (pk lk : string) (rows : list row) (cache_l cache_p : pyval)   (* pressure_key, loading_key, data_raw, interpolator caches *)
| BModel (branch : pyval) (m : pmodel).
Record iso := mkIso {
  i_units : list pyval;         (* values of the unit parameters, in the order of TablesGen.unit_params *)
  i_mat : string; i_mprops : dict; i_ads : string; i_temp : pyval;
  i_meta : dict;                (* self.properties *)
  i_body : body }.

Definition labels (i : iso) : dict := combine (map fst unit_params) (i_units i).
Definition mat_val' (n : string) (mp : dict) : pyval :=
  match mp with [] => VStr n | _ => VDict (dict_update [("name", VStr n)] mp) end.
Definition mat_val (i : iso) : pyval := mat_val' (i_mat i) (i_mprops i).
Definition class_attrs (b : body) : list string :=
  match b with BBase => [] | BPoint _ _ _ _ _ => point_attrs | BModel _ _ => model_attrs end.
Definition class_reserved (b : body) : list string :=
  match b with BBase => base_reserved | BPoint _ _ _ _ _ => point_reserved | BModel _ _ => model_reserved end.

(* vars(self)[name]; an attribute the model does not know is opaque (fail-closed: it would not be serialisable) *)
Definition attr_val (i : iso) (a : string) : pyval :=
  match dget a (labels i) with
  | Some v => v
  | None =>
    if String.eqb a "_temperature" then i_temp i
    else if String.eqb a "properties" then VDict (i_meta i)
    else match i_body i with
         | BPoint pk lk _ cl cp =>
             if String.eqb a "loading_key" then VStr lk else if String.eqb a "pressure_key" then VStr pk
             else if String.eqb a "l_interpolator" then cl else if String.eqb a "p_interpolator" then cp else VOpaque
         | BModel b _ => if String.eqb a "branch" then b else VOpaque
         | BBase => VOpaque end
  end.
Definition pop_to (src dst : string) (f : pyval -> pyval) (d : dict) : dict :=
  match dget src d with Some v => dict_set dst (f v) (ddel src d) | None => d end.
Definition to_dict (i : iso) : dict :=
  let v := map (fun a => (a, attr_val i a)) (base_attrs ++ class_attrs (i_body i)) in
  let v := pop_to "_adsorbate" "adsorbate" (fun _ => VStr (i_ads i)) v in
  let v := pop_to "_material" "material" (fun _ => mat_val i) v in
  let v := pop_to "_temperature" "temperature" (fun x => x) v in
  let v := remove_all (class_reserved (i_body i)) v in
  match dget "properties" v with
  | Some (VDict p) => dict_update (ddel "properties" v) p
  | _ => v end.

(* ------------------------------------------------------------------ export *)
Definition row_doc (r : row) : pyval :=
  VDict (if r_des r then dict_set "branch" (VStr "des") (r_cells r) else ddel "branch" (r_cells r)).
Definition model_doc (m : pmodel) : pyval :=
  VDict [("name", VStr (md_name m)); ("rmse", md_rmse m); ("parameters", VDict (md_params m));
         ("pressure_range", md_prange m); ("loading_range", md_lrange m)].
Definition export_doc (i : iso) : dict :=
  let d := dict_set "file_version" (VStr json_version) (to_dict i) in
  match i_body i with
  | BBase => d
  | BPoint _ _ rows _ _ => dict_set "isotherm_data" (VList (map row_doc rows)) d
  | BModel _ m => dict_set "isotherm_model" (model_doc m) d end.
Definition export (i : iso) : res pyval :=
  let d := VDict (export_doc i) in if serialisable d then Ok d else Err TypeError.

(* ------------------------------------------------------------------ import *)
Section Import.
Variable ads_canon : string -> string.            (* str(Adsorbate.find(name)) or the name itself *)
Variable labels_ok : dict -> bool.                (* the mode/basis/unit tables checked by BaseIsotherm.__init__ *)

Definition getd (k : string) (d : dict) (dflt : pyval) : pyval := match dget k d with Some v => v | None => dflt end.
Definition is_none (v : pyval) : bool := match v with VNone => true | _ => false end.

(* split_ads_data: position of the first pressure maximum *)
Fixpoint argmax_go (l : list Q) (cur best : nat) (bv : Q) : nat :=
  match l with [] => best | x :: r => if Qltb bv x then argmax_go r (S cur) cur x else argmax_go r (S cur) best bv end.
Definition argmax_first (l : list Q) : nat := match l with [] => O | x :: r => argmax_go r 1 0 x end.
Fixpoint marks_after (k cur n : nat) : list bool :=
  match n with O => [] | S n' => Nat.ltb k cur :: marks_after k (S cur) n' end.
(* math_utilities.split_ads_data (after fix 179a001: positions, not row labels): the maximum is the last point -> all adsorption;
   the maximum is the FIRST point (of several) -> all desorption; otherwise the rows after the first maximum are desorption *)
Definition guess (ps : list Q) : list bool :=
  let k := argmax_first ps in
  if Nat.eqb k 0 && negb (Nat.eqb (length ps) 1) then repeat true (length ps) else marks_after k 0 (length ps).
Fixpoint all_some {A} (l : list (option A)) : option (list A) :=
  match l with [] => Some [] | Some x :: r => option_map (cons x) (all_some r) | None :: _ => None end.

(* float(value) of the temperature setter *)
Definition to_float (v : pyval) : res pyval :=
  match v with
  | VInt z => Ok (VFloat (inject_Z z)) | VFloat q => Ok (VFloat q) | VNaN => Ok VNaN | VInf b => Ok (VInf b)
  | VBool b => Ok (VFloat (if b then 1 else 0))
  | VStr _ => Err FellOffEnd          (* float(str): not modelled here (see Codec/CastString.v) *)
  | _ => Err TypeError end.

Definition apply_short (st : pyval * pyval * pyval * dict) (sh : string * string) : pyval * pyval * pyval * dict :=
  let '(m, a, t, kw) := st in
  let data := getd (fst sh) kw VNone in
  let kw := ddel (fst sh) kw in
  if truthy data then
    if String.eqb (snd sh) "material" then (data, a, t, kw)
    else if String.eqb (snd sh) "adsorbate" then (m, data, t, kw)
    else if String.eqb (snd sh) "temperature" then (m, a, data, kw) else (m, a, t, kw)
  else (m, a, t, kw).

(* BaseIsotherm.__init__ with keyword dict kw *)
Definition base_ctor (kw : dict) (b : body) : res iso :=
  let m0 := getd "material" kw VNone in let a0 := getd "adsorbate" kw VNone in let t0 := getd "temperature" kw VNone in
  let kw := remove_all base_ctor_args kw in
  let '(m, a, t, kw) := fold_left apply_short shorthands (m0, a0, t0, kw) in
  if is_none m || is_none a || is_none t then Err ParameterError else
  bind (match m with
        | VStr s => Ok (s, [])
        | VDict md => match dget "name" md with Some (VStr s) => Ok (s, ddel "name" md) | _ => Err FellOffEnd end
        | _ => Err FellOffEnd end) (fun mat =>
  bind (match a with VStr s => Ok (ads_canon s) | _ => Err FellOffEnd end) (fun ads =>
  bind (to_float t) (fun temp =>
  let units := map (fun nd => (fst nd, getd (fst nd) kw (VStr (snd nd)))) unit_params in
  let kw := remove_all (map fst unit_params) kw in
  bind (match dget "pressure_mode" units with
        | Some (VStr s) => Ok (if String.prefix "relative" s then dict_set "pressure_unit" VNone units else units)
        | Some _ => Err AttributeError
        | None => Err KeyError end) (fun units =>
  if labels_ok units then Ok (mkIso (map snd units) (fst mat) (snd mat) ads temp kw b) else Err ParameterError)))).

Definition row_of (v : pyval) : res row :=
  match v with
  | VDict d =>
      match dget "branch" d with
      | None => Ok (mkRow d false)
      | Some VNaN => Ok (mkRow (ddel "branch" d) false)                  (* fillna(0) *)
      | Some (VStr s) => if String.eqb s "des" then Ok (mkRow (ddel "branch" d) true) else Err FellOffEnd
      | Some (VInt 0) => Ok (mkRow (ddel "branch" d) false)
      | Some _ => Err FellOffEnd end
  | _ => Err FellOffEnd end.
Fixpoint mapM {A B} (f : A -> res B) (l : list A) : res (list B) :=
  match l with [] => Ok [] | x :: r => bind (f x) (fun y => bind (mapM f r) (fun ys => Ok (y :: ys))) end.
Definition has_branch_key (v : pyval) : bool :=
  match v with VDict d => match dget "branch" d with Some _ => true | None => false end | _ => false end.
Definition same_keys (ks : list string) (r : row) : bool :=
  Nat.eqb (length ks) (length (r_cells r)) && forallb (fun k => mem k ks) (keys (r_cells r)).

(* PointIsotherm.__init__(isotherm_data = DataFrame.from_dict(rows), pressure_key, loading_key, **kw [, branch='guess']) *)
Definition import_point (pk lk : string) (rowsv : list pyval) (kw : dict) : res iso :=
  bind (mapM row_of rowsv) (fun rows =>
  let cols := match rows with r :: _ => keys (r_cells r) | [] => [] end in
  if negb (forallb (same_keys cols) rows) then Err FellOffEnd        (* ragged rows (NaN fill of from_dict): not modelled *)
  else
  bind (base_ctor (remove_all point_ctor_args kw) BBase) (fun i =>
  if negb (mem pk cols && mem lk cols) then Err ParameterError else
  if existsb has_branch_key rowsv then Ok (mkIso (i_units i) (i_mat i) (i_mprops i) (i_ads i) (i_temp i) (i_meta i) (BPoint pk lk rows VNone VNone))
  else
    match all_some (map (fun r => match dget pk (r_cells r) with Some v => num_of v | None => None end) rows) with
    | None => Err FellOffEnd
    | Some ps =>
        let rows' := map (fun rm => mkRow (r_cells (fst rm)) (snd rm)) (combine rows (guess ps)) in
        Ok (mkIso (i_units i) (i_mat i) (i_mprops i) (i_ads i) (i_temp i) (i_meta i) (BPoint pk lk rows' VNone VNone))
    end)).

(* model_from_dict: get_isotherm_model(name, **rest) ; IsothermBaseModel.__init__ keeps exactly the parameters named by the class *)
Definition model_of (v : pyval) : res pmodel :=
  match v with
  | VDict d =>
      match dget "name" d with
      | Some (VStr n) =>
          match assoc n model_params with
          | None => Err ParameterError
          | Some names =>
              bind (match dget "parameters" d with
                    | Some (VDict ps) =>
                        mapM (fun p => match dget p ps with Some x => Ok (p, x) | None => Err KeyError end) names
                    | _ => Err FellOffEnd end) (fun ps =>
              Ok (mkModel n (getd "rmse" d VNaN) ps (getd "pressure_range" d (VTuple [VNaN; VNaN])) (getd "loading_range" d (VTuple [VNaN; VNaN]))))
          end
      | _ => Err FellOffEnd end
  | _ => Err FellOffEnd end.
Definition import_model (mv : pyval) (kw : dict) : res iso :=
  bind (model_of mv) (fun m =>
  let br := getd "branch" kw (VStr "ads") in
  bind (base_ctor (remove_all model_ctor_args kw) BBase) (fun i =>
  Ok (mkIso (i_units i) (i_mat i) (i_mprops i) (i_ads i) (i_temp i) (i_meta i) (BModel br m)))).

Definition import (pk lk : string) (doc : pyval) : res iso :=
  match doc with
  | VDict d0 =>
      let d1 := ddel "file_version" d0 in
      let data := getd "isotherm_data" d1 VNone in let d2 := ddel "isotherm_data" d1 in
      let mdl := getd "isotherm_model" d2 VNone in let d3 := ddel "isotherm_model" d2 in
      if truthy data then match data with VList rowsv => import_point pk lk rowsv d3 | _ => Err FellOffEnd end
      else if truthy mdl then import_model mdl d3
      else base_ctor d3 BBase
  | _ => Err FellOffEnd end.
End Import.

(* ------------------------------------------------------------------ comparison helpers for the correspondence check *)
Definition rows_eqb (a b : list row) : bool :=
  Nat.eqb (length a) (length b) &&
  forallb (fun ab => dict_eqb (r_cells (fst ab)) (r_cells (snd ab)) && Bool.eqb (r_des (fst ab)) (r_des (snd ab))) (combine a b).
Definition cells_eqb (a b : list row) : bool :=
  Nat.eqb (length a) (length b) && forallb (fun ab => dict_eqb (r_cells (fst ab)) (r_cells (snd ab))) (combine a b).
Definition marks_eqb (a b : list row) : bool :=
  Nat.eqb (length a) (length b) && forallb (fun ab => Bool.eqb (r_des (fst ab)) (r_des (snd ab))) (combine a b).
Definition model_eqb (a b : pmodel) : bool :=
  String.eqb (md_name a) (md_name b) && veqb (jnorm (md_rmse a)) (jnorm (md_rmse b)) && dict_eqb (md_params a) (md_params b)
  && veqb (jnorm (md_prange a)) (jnorm (md_prange b)) && veqb (jnorm (md_lrange a)) (jnorm (md_lrange b)).
Definition b2z (b : bool) : Z := if b then 1%Z else 0%Z.
