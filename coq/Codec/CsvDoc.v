(* Hand-written (H), tied to the code by the CSV correspondence part of ./check C07 (model document vs isotherm_to_csv line by line,
   model parse vs the state of isotherm_from_csv's result, on generated isotherms, executed in Coq):
   parsing/csv.py   isotherm_to_csv : to_dict + file_version, `_material_` flattening, `key<sep>_to_string(value)` lines, the
                                      `data:[...]` marker + table (8-decimal rounding, 'ads'/'des' marks) or the `model:[...]`
                                      marker + name / rmse / ranges / parameter lines
                    isotherm_from_csv : readline().rstrip(), strip().split(sep), > 2 fields -> ParsingError, cast_string on the
                                      values, version pop, `_material_` regrouping (str.replace!), table rows with the branch column
                                      rebuilt, model lines, then the constructors (model of Codec/JsonDoc.v)
   Strings are byte strings (UTF-8); the separator is ONE character (the code accepts longer ones; the default is ',').
   Oracles (Section variables): repr of a float, float() of a string, _from_list (ast.literal_eval), the adsorbate registry and
   the label tables. pandas.to_csv / read_csv are modelled for the cells the writer produces on homogeneous columns (decimal text
   of the value rounded to 8 decimals, ints, booleans, empty = missing, unquoted text); quoting and column-wise type inference are
   NOT modelled (fail-closed: FellOffEnd). *)
From Coq Require Import QArith Qabs ZArith NArith String List Bool Ascii Lia.
From Coq Require DecimalString DecimalN.
From PG Require Import Lib.Num Lib.Py Codec.PyVal Gen.TablesGen Codec.JsonDoc Codec.CastString.
Import ListNotations.
Open Scope list_scope.
Open Scope string_scope.

(* ------------------------------------------------------------------ strings *)
Definition nl : ascii := ascii_of_nat 10.
Fixpoint has_char (c : ascii) (s : string) : bool :=
  match s with "" => false | String a r => Ascii.eqb a c || has_char c r end.
(* str.split(c) for a one-character separator *)
Fixpoint split (c : ascii) (s : string) : list string :=
  match s with
  | "" => [""]
  | String a r => if Ascii.eqb a c then "" :: split c r
                  else match split c r with f :: fs => String a f :: fs | [] => [String a ""] end
  end.
(* str.rstrip(): ASCII white space (CastString.is_space) *)
Fixpoint rstrip (s : string) : string :=
  match s with
  | "" => ""
  | String c r => match rstrip r with "" => if is_space c then "" else String c "" | r' => String c r' end
  end.
Definition pstrip (s : string) : string := lstrip (rstrip s).
Definition first_nonspace (s : string) : bool := match s with "" => true | String c _ => negb (is_space c) end.
Fixpoint join (d : string) (l : list string) : string :=
  match l with [] => "" | [x] => x | x :: r => x ++ d ++ join d r end.
(* str.replace(p, "") : non-overlapping occurrences from the left; p non-empty *)
Fixpoint remove_pat (p s : string) (skip : nat) : string :=
  match s with
  | "" => ""
  | String c r => match skip with
                  | S k => remove_pat p r k
                  | O => if prefix p s then remove_pat p r (String.length p - 1) else String c (remove_pat p r 0) end
  end.
Fixpoint rstrip0 (s : string) : string :=     (* trailing '0' characters removed *)
  match s with
  | "" => ""
  | String c r => match rstrip0 r with "" => if Ascii.eqb c "0" then "" else String c "" | r' => String c r' end
  end.
Definition tail_str (s : string) : string := match s with "" => "" | String _ r => r end.

Lemma split_nonempty c s : split c s <> [].
Proof. destruct s; simpl; [discriminate|]. destruct (Ascii.eqb a c); [discriminate|]. destruct (split c s); discriminate. Qed.
Lemma split_nochar c s : has_char c s = false -> split c s = [s].
Proof.
  induction s as [|a r IH]; simpl; auto. intros H. apply orb_false_iff in H as [H1 H2]. rewrite H1, (IH H2). reflexivity.
Qed.
Lemma split_app c k v : has_char c k = false -> split c (k ++ String c v) = k :: split c v.
Proof.
  induction k as [|a r IH]; simpl.
  - intros _. rewrite Ascii.eqb_refl. reflexivity.
  - intros H. apply orb_false_iff in H as [H1 H2]. rewrite H1, (IH H2). reflexivity.
Qed.
Lemma split_two c s : has_char c s = true -> exists a b l, split c s = a :: b :: l.
Proof.
  induction s as [|x r IH]; simpl; [discriminate|]. destruct (Ascii.eqb x c) eqn:E.
  - intros _. destruct (split c r) as [|f fs] eqn:S; [exfalso; eapply split_nonempty; eauto|]. eauto.
  - simpl. intros H. destruct (IH H) as (a & b & l & ->). eauto.
Qed.
Lemma rstrip_id s : match last_char s with Some c => is_space c = false | None => True end -> rstrip s = s.
Proof.
  induction s as [|c r IH]; simpl; auto. destruct r as [|d r'].
  - simpl. intros ->. reflexivity.
  - intros H. specialize (IH H). rewrite IH. reflexivity.
Qed.
Lemma rstrip_idem s : rstrip (rstrip s) = rstrip s.
Proof.
  induction s as [|c r IH]; simpl; auto. destruct (rstrip r) as [|d r'] eqn:E.
  - destruct (is_space c) eqn:Ec; simpl; auto. rewrite Ec. reflexivity.
  - simpl in *. rewrite IH. reflexivity.
Qed.
Lemma rstrip_app a b : rstrip b <> "" -> rstrip (a ++ b) = a ++ rstrip b.
Proof.
  intros Hb. induction a as [|c a' IH]; simpl; auto. rewrite IH. destruct (a' ++ rstrip b) eqn:E; auto.
  destruct a'; simpl in E; [contradiction|discriminate].
Qed.
Lemma rstrip_cons_nonspace c s : is_space c = false -> rstrip (String c s) = String c (rstrip s).
Proof. intros H. simpl. rewrite H. destruct (rstrip s); reflexivity. Qed.
Lemma has_char_rstrip c s : is_space c = false -> has_char c (rstrip s) = has_char c s.
Proof.
  intros Hc. induction s as [|a r IH]; simpl; auto. destruct (rstrip r) as [|d r'] eqn:E.
  - simpl in IH. rewrite <- IH, orb_false_r. destruct (is_space a) eqn:Ea; simpl.
    + destruct (Ascii.eqb a c) eqn:Eac; auto. apply Ascii.eqb_eq in Eac. congruence.
    + rewrite orb_false_r. reflexivity.
  - simpl in *. rewrite IH. reflexivity.
Qed.
Lemma lstrip_id s : first_nonspace s = true -> lstrip s = s.
Proof. destruct s; simpl; auto. intros H. apply negb_true_iff in H. rewrite H. reflexivity. Qed.
Lemma prefix_app_sep p k c t : prefix p (k ++ String c t) = true -> prefix p k = true \/ has_char c p = true.
Proof.
  revert k. induction p as [|a p' IH]; intros k.
  - intros _. left. destruct k; reflexivity.
  - destruct k as [|b k']; simpl.
    + destruct (ascii_dec a c) as [->|N]; [rewrite Ascii.eqb_refl; auto|discriminate].
    + destruct (ascii_dec a b) as [->|N]; [|discriminate]. intros H. destruct (IH _ H) as [H1|H1]; auto. rewrite H1, orb_true_r. auto.
Qed.
Lemma remove_pat_absent p k : contains p k = false -> remove_pat p k 0 = k.
Proof.
  induction k as [|c r IH]; simpl; auto. intros H. apply orb_false_iff in H as [H1 H2].
  destruct p as [|a p']; [simpl in H1; discriminate|]. simpl in H1. simpl. rewrite H1. rewrite (IH H2). reflexivity.
Qed.

(* ------------------------------------------------------------------ decimal text of a value on the 1e-8 grid *)
(* repr() of the double nearest k / 10^8 for 0 <= k < 10^15 (at most 15 significant digits: the decimal IS the shortest repr) *)
Definition dec8 (neg : bool) (k : N) : res string :=
  let sign := if neg then "-" else "" in
  if (k =? 0)%N then Ok (sign ++ "0.0")
  else if (1000000000000000 <=? k)%N then Err FellOffEnd
  else
    let ds := print_nat k in
    let L := String.length ds in
    if Nat.leb L 4 then      (* below 1e-4: scientific notation d[.ddd]e-0X *)
      let m := rstrip0 ds in
      let mant := match m with String d "" => String d "" | String d r => String d (String "." r) | "" => "" end in
      Ok (sign ++ mant ++ "e-0" ++ print_nat (N.of_nat (9 - L)))
    else
      let ip := (k / 100000000)%N in
      let fr := rstrip0 (tail_str (print_nat (100000000 + k mod 100000000)%N)) in
      Ok (sign ++ print_nat ip ++ "." ++ (match fr with "" => "0" | _ => fr end)).
(* numpy round(8) as exact rounding half to even onto the 1e-8 grid (the harness stays away from ties) *)
Definition round8 (q : Q) : bool * N :=
  let x := Qabs q * inject_Z 100000000 in
  let fl := (Qnum x / Zpos (Qden x))%Z in
  let r := x - inject_Z fl in
  let k := match Qcompare r (1 # 2) with Lt => fl | Gt => (fl + 1)%Z | Eq => if Z.even fl then fl else (fl + 1)%Z end in
  (negb (Qle_bool 0 q), Z.to_N k).
Definition q_of8 (nk : bool * N) : Q := (if fst nk then -1 else 1) * (Z.of_N (snd nk) # 100000000).

Definition print_Z (z : Z) : string := match z with Zneg p => "-" ++ print_nat (Npos p) | _ => print_nat (Z.to_N z) end.

Section Csv.
Variable sep : ascii.
Variable repr_float : Q -> string.            (* str(float) *)
Variable float_of : string -> pyval.          (* float(s) for a string Python's float() accepts *)
Variable from_list : string -> res pyval.     (* string_utilities._from_list = ast.literal_eval(s.replace(' ', ',')) *)
Variable ads_canon : string -> string.
Variable labels_ok : dict -> bool.

Definition seps : string := String sep "".

(* ---------------------------------------------------------------- values <-> text *)
Definition str_scalar (v : pyval) : res string :=          (* str(x) *)
  match v with
  | VNone => Ok "None" | VBool true => Ok "True" | VBool false => Ok "False" | VInt z => Ok (print_Z z)
  | VFloat q => Ok (repr_float q) | VNaN => Ok "nan" | VInf false => Ok "inf" | VInf true => Ok "-inf"
  | VStr s => Ok s
  | _ => Err FellOffEnd end.                               (* str() of a nested container: Python's repr, not modelled *)
Definition to_string (v : pyval) : res string :=           (* string_utilities._to_string *)
  match v with
  | VList l => bind (mapM str_scalar l) (fun ss => Ok ("[" ++ join " " ss ++ "]"))
  | VTuple l => bind (mapM str_scalar l) (fun ss => Ok ("(" ++ join " " ss ++ ")"))
  | VDict _ | VOpaque => Err FellOffEnd
  | x => str_scalar x end.
Definition cast (s : string) : res pyval :=                (* string_utilities.cast_string, inside the reader's try block *)
  match cast_string s with
  | CNone => Ok VNone | CBool b => Ok (VBool b) | CInt n => Ok (VInt (Z.of_N n)) | CFloat t => Ok (float_of t)
  | CList t => match from_list t with Ok v => Ok v | Err _ => Err ParsingError end
  | CStr t => Ok (VStr t) end.

(* ---------------------------------------------------------------- writer *)
Definition mat_prefix : string := "_material_".
Definition flatten (d : dict) : dict :=
  match dget "material" d with
  | Some (VDict m) =>
      match dget "name" m with
      | Some nm => dict_update (dict_set "material" nm d) (map (fun kv => (mat_prefix ++ fst kv, snd kv)) (ddel "name" m))
      | None => d end
  | _ => d end.
Definition csv_dict (i : iso) : dict := flatten (dict_set "file_version" (VStr csv_version) (to_dict i)).
Definition item_line (kv : string * pyval) : res string := bind (to_string (snd kv)) (fun t => Ok (fst kv ++ String sep t)).
Definition meta_lines (d : dict) : res (list string) := mapM item_line d.

Definition data_marker : string := "data:[pressure,loading,branch,(otherdata)]".
Definition model_marker : string := "model:[name and parameters]".
Definition quote : ascii := ascii_of_nat 34.
Definition plain_field (s : string) : bool :=       (* written by pandas without quoting *)
  negb (has_char sep s) && negb (has_char quote s) && negb (has_char nl s) && negb (has_char (ascii_of_nat 13) s).
Definition cell_text (v : pyval) : res string :=
  match v with
  | VFloat q => let nk := round8 q in dec8 (fst nk && negb (snd nk =? 0)%N || (fst nk && (snd nk =? 0)%N && negb (Qeq_bool q 0))) (snd nk)
  | VInt z => Ok (print_Z z)
  | VBool b => Ok (if b then "True" else "False")
  | VNaN => Ok ""
  | VInf b => Ok (if b then "-inf" else "inf")
  | VStr s => if plain_field s && negb (String.eqb s "") then Ok s else Err FellOffEnd
  | _ => Err FellOffEnd end.
Definition with_branch (b : string) (l : list string) : res (list string) :=
  match l with x :: y :: rest => Ok (x :: y :: b :: rest) | _ => Err FellOffEnd end.
Definition header_fields (r0 : row) : res (list string) :=
  if forallb plain_field (keys (r_cells r0)) then with_branch "branch" (keys (r_cells r0)) else Err FellOffEnd.
Definition row_fields (r : row) : res (list string) :=
  bind (mapM (fun kv => cell_text (snd kv)) (r_cells r)) (with_branch (if r_des r then "des" else "ads")).
Definition row_line (r : row) : res string := res_map (join seps) (row_fields r).
Definition table_lines (rows : list row) : res (list string) :=
  match rows with
  | [] => Err FellOffEnd
  | r0 :: _ => bind (header_fields r0) (fun h => bind (mapM row_line rows) (fun ls => Ok (join seps h :: ls))) end.
Definition model_lines (m : pmodel) : res (list string) :=
  bind (to_string (md_rmse m)) (fun rm => bind (to_string (md_prange m)) (fun pr => bind (to_string (md_lrange m)) (fun lr =>
  bind (mapM (fun kv => bind (str_scalar (snd kv)) (fun t => Ok (fst kv ++ String sep t))) (md_params m)) (fun ps =>
  Ok (("name" ++ String sep (md_name m)) :: ("rmse" ++ String sep rm) :: ("pressure range" ++ String sep pr)
      :: ("loading range" ++ String sep lr) :: ps))))).
(* the document as its list of lines (each is followed by a newline in the text) *)
Definition csv_lines (i : iso) : res (list string) :=
  bind (meta_lines (csv_dict i)) (fun ml =>
  match i_body i with
  | BBase => Ok ml
  | BPoint _ _ rows _ _ => bind (table_lines rows) (fun tl => Ok (ml ++ data_marker :: tl)%list)
  | BModel _ m => bind (model_lines m) (fun l => Ok (ml ++ model_marker :: l)%list) end).
Definition render (ls : list string) : string := fold_right (fun l acc => l ++ String nl acc) "" ls.

(* ---------------------------------------------------------------- reader *)
Inductive section := SBase | SPoint (pk lk : string) (rows : list row) | SModel (m : pyval).
Definition starts_section (line : string) : bool := prefix "data" line || prefix "model" line || String.eqb line "".
(* the while loop over the metadata lines -> (raw_dict, the line that ended the loop, the lines after it) *)
Fixpoint read_meta (ls : list string) (acc : dict) : res (dict * string * list string) :=
  match ls with
  | [] => Ok (acc, "", [])
  | l :: rest =>
      let line := rstrip l in
      if starts_section line then Ok (acc, line, rest)
      else match split sep (lstrip line) with
           | [k; v] => bind (cast v) (fun x => read_meta rest (dict_set k x acc))
           | _ => Err ParsingError        (* > 2 fields: explicit; 1 field: the unpacking ValueError, wrapped into ParsingError *)
           end
  end.
Definition pop_version (d : dict) : res dict :=
  match dget "file_version" d with
  | Some (VStr _) => Err ValueError            (* float(version) of a text *)
  | _ => Ok (ddel "file_version" d) end.
Definition regroup (d : dict) : res dict :=
  let mats := filter (fun kv => prefix mat_prefix (fst kv)) d in
  match mats with
  | [] => Ok d
  | _ =>
      let m := fold_left (fun acc kv => dict_set (remove_pat mat_prefix (fst kv) 0) (snd kv) acc) mats [] in
      if negb (forallb (fun k => mem (mat_prefix ++ k) (keys d)) (keys m)) then Err KeyError     (* raw_dict.pop("_material_" + key) *)
      else
        let d' := fold_left (fun acc k => ddel (mat_prefix ++ k) acc) (keys m) d in
        match dget "material" d' with
        | Some nm => Ok (dict_set "material" (VDict (dict_set "name" nm m)) d')
        | None => Err KeyError end
  end.

(* pandas.read_csv on what the writer produces: one cell *)
Definition cell_of (s : string) : pyval :=
  let other := if is_float s then float_of s else VStr s in
  if String.eqb s "" then VNaN
  else if String.eqb s "True" then VBool true else if String.eqb s "False" then VBool false
  else if isnumeric s then VInt (Z.of_N (parse_nat s))
  else match s with
       | String c r => if Ascii.eqb c "-" && isnumeric r then VInt (- Z.of_N (parse_nat r)) else other
       | "" => other end.
Definition read_row (hdr : list string) (l : string) : res row :=
  let fs := split sep l in
  if negb (Nat.eqb (length fs) (length hdr)) then Err FellOffEnd           (* ragged line: pandas pads / raises, not modelled *)
  else
    let kf := combine hdr fs in
    match Lib.Py.assoc "branch" kf with
    | None => Err FellOffEnd                                                (* no branch column: 'guess', not modelled here *)
    | Some b =>
        Ok (mkRow (map (fun x => (fst x, cell_of (snd x))) (filter (fun x => negb (String.eqb (fst x) "branch")) kf))
                  (negb (String.eqb b "ads")))
    end.
Fixpoint read_rows (hdr : list string) (ls : list string) : res (list row) :=
  match ls with
  | [] => Ok []
  | l :: rest => if String.eqb l "" then read_rows hdr rest        (* skip_blank_lines *)
                 else bind (read_row hdr l) (fun r => bind (read_rows hdr rest) (fun rs => Ok (r :: rs)))
  end.
Definition read_table (ls : list string) : res section :=
  match ls with
  | [] => Err FellOffEnd                                            (* EmptyDataError *)
  | h :: rest =>
      match split sep h with
      | pk :: lk :: more =>
          if mem "branch" (pk :: lk :: more) then bind (read_rows (pk :: lk :: more) rest) (fun rows => Ok (SPoint pk lk rows))
          else Err FellOffEnd                                        (* no branch column: branch='guess', not modelled here *)
      | _ => Err FellOffEnd end
  end.
Definition field1 (l : string) : res string :=
  match split sep (rstrip l) with _ :: v :: _ => Ok v | _ => Err FellOffEnd end.      (* IndexError *)
Fixpoint read_params (ls : list string) (acc : dict) : res dict :=
  match ls with
  | [] => Ok acc
  | l :: rest =>
      let line := rstrip l in
      if String.eqb line "" then Ok acc
      else match split sep line with
           | k :: v :: _ => if is_float v then read_params rest (dict_set k (float_of v) acc) else Err ValueError
           | _ => Err FellOffEnd end
  end.
Definition read_model (ls : list string) : res section :=
  match ls with
  | l1 :: l2 :: l3 :: l4 :: rest =>
      bind (field1 l1) (fun nm => bind (field1 l2) (fun rm => bind (field1 l3) (fun prs => bind (field1 l4) (fun lrs =>
      bind (from_list prs) (fun pr => bind (from_list lrs) (fun lr => bind (read_params rest []) (fun ps =>
      Ok (SModel (VDict [("name", VStr nm); ("rmse", VStr rm); ("pressure_range", pr); ("loading_range", lr); ("parameters", VDict ps)])))))))))
  | _ => Err FellOffEnd end.

(* everything up to the constructor call: the keyword dictionary and the data section *)
Definition csv_parse (ls : list string) : res (dict * section) :=
  bind (read_meta ls []) (fun st =>
  let '(raw, line, rest) := st in
  bind (pop_version raw) (fun raw => bind (regroup raw) (fun raw =>
  if prefix "data" line then bind (read_table rest) (fun s => Ok (raw, s))
  else if prefix "model" line then bind (read_model rest) (fun s => Ok (raw, s))
  else Ok (raw, SBase)))).
Definition csv_build (p : dict * section) : res iso :=
  let raw := fst p in
  match snd p with
  | SBase => base_ctor ads_canon labels_ok raw BBase
  | SPoint pk lk rows =>
      bind (base_ctor ads_canon labels_ok (remove_all point_ctor_args raw) BBase) (fun i =>
      Ok (mkIso (i_units i) (i_mat i) (i_mprops i) (i_ads i) (i_temp i) (i_meta i) (BPoint pk lk rows VNone VNone)))
  | SModel mv => import_model ads_canon labels_ok mv raw end.
Definition csv_import (ls : list string) : res iso := bind (csv_parse ls) csv_build.
(* readline() over the text: the lines between newlines; after the last newline readline() returns "" for ever *)
Definition csv_import_text (text : string) : res iso := csv_import (split nl text).

(* ================================================================ proofs *)
Lemma mapM_app {A B} (f : A -> res B) l1 : forall l2 ls, mapM f (l1 ++ l2)%list = Ok ls ->
  exists a b, mapM f l1 = Ok a /\ mapM f l2 = Ok b /\ ls = (a ++ b)%list.
Proof.
  induction l1 as [|x r IH]; intros l2 ls H; cbn [app mapM] in *.
  - exists [], ls. auto.
  - destruct (f x) as [y|e]; cbn [bind] in *; [|discriminate].
    destruct (mapM f (r ++ l2)%list) as [ys|e] eqn:E; cbn [bind] in H; [|discriminate]. injection H as <-.
    destruct (IH _ _ E) as (a & b & -> & Hb & ->). exists (y :: a), b. auto.
Qed.

Section Proofs.
Hypothesis sep_nonspace : is_space sep = false.
Hypothesis sep_not_data : has_char sep "data" = false.
Hypothesis sep_not_model : has_char sep "model" = false.

(* a key the reader takes back unchanged: non-empty, no separator, no leading blank, not the spelling of a section marker *)
Definition key_ok (k : string) : bool :=
  negb (String.eqb k "") && negb (has_char sep k) && first_nonspace k && negb (prefix "data" k) && negb (prefix "model" k).
(* a value text the line reader hands to cast_string unchanged: no separator, no trailing blank *)
Definition val_ok (t : string) : bool := negb (has_char sep t) && String.eqb (rstrip t) t.
(* the value domain: the text written for v is read back as v  (instances: castable_* below, from Codec/CastString.v) *)
Definition item_ok (kv : string * pyval) : Prop :=
  key_ok (fst kv) = true /\ exists t, to_string (snd kv) = Ok t /\ val_ok t = true /\ cast t = Ok (snd kv).

Lemma key_ok_parts k : key_ok k = true ->
  k <> "" /\ has_char sep k = false /\ first_nonspace k = true /\ prefix "data" k = false /\ prefix "model" k = false.
Proof.
  unfold key_ok. intros K. apply andb_true_iff in K as [K H5]. apply andb_true_iff in K as [K H4].
  apply andb_true_iff in K as [K H3]. apply andb_true_iff in K as [H1 H2].
  apply negb_true_iff in H1, H2, H4, H5. apply String.eqb_neq in H1. auto.
Qed.

Lemma line_shape k t : key_ok k = true ->
  rstrip (k ++ String sep t) = k ++ String sep (rstrip t) /\
  starts_section (k ++ String sep (rstrip t)) = false /\ lstrip (k ++ String sep (rstrip t)) = k ++ String sep (rstrip t).
Proof.
  intros K. destruct (key_ok_parts k K) as (K1 & K2 & K3 & K4 & K5).
  split; [|split].
  - rewrite rstrip_app; rewrite rstrip_cons_nonspace by exact sep_nonspace; [reflexivity|discriminate].
  - unfold starts_section.
    destruct (prefix "data" (k ++ String sep (rstrip t))) eqn:E1.
    { apply prefix_app_sep in E1 as [E|E]; congruence. }
    destruct (prefix "model" (k ++ String sep (rstrip t))) eqn:E2.
    { apply prefix_app_sep in E2 as [E|E]; congruence. }
    destruct k; [contradiction|reflexivity].
  - apply lstrip_id. destruct k; [contradiction|exact K3].
Qed.

(* one metadata line written by the writer is read back as the same key and cast_string of the value text *)
Lemma read_meta_item k v t rest acc : key_ok k = true -> val_ok t = true -> cast t = Ok v ->
  read_meta ((k ++ String sep t) :: rest) acc = read_meta rest (dict_set k v acc).
Proof.
  intros K V C. destruct (line_shape k t K) as (R & S & L). destruct (key_ok_parts k K) as (_ & K2 & _).
  unfold val_ok in V. apply andb_true_iff in V as [V1 V2]. apply negb_true_iff in V1. apply String.eqb_eq in V2.
  cbn [read_meta]. cbv zeta. rewrite R, S, L, V2. rewrite (split_app _ _ _ K2), (split_nochar _ _ V1), C. reflexivity.
Qed.

(* induction over the metadata list: the lines of a dictionary in the value domain are read back as that dictionary *)
Lemma read_meta_lines d : forall ls rest acc, Forall item_ok d -> meta_lines d = Ok ls ->
  read_meta (ls ++ rest)%list acc = read_meta rest (dict_update acc d).
Proof.
  induction d as [|[k v] d IH]; intros ls rest acc F M.
  - cbn in M. injection M as <-. reflexivity.
  - inversion F as [|? ? (K & t & T & V & C) F']; subst. cbn [fst snd] in *.
    unfold meta_lines in M. cbn [mapM] in M. unfold item_line at 1 in M. cbn [fst snd] in M. rewrite T in M. cbn [bind] in M.
    destruct (mapM item_line d) as [ls'|e] eqn:E; cbn [bind] in M; [|discriminate]. injection M as <-.
    cbn [app]. rewrite (read_meta_item k v t _ _ K V C). cbn [dict_update]. apply IH; auto.
Qed.

(* a value whose text contains the separator gives more than two fields: ParsingError, whatever follows *)
Lemma read_meta_refuses k t rest acc : key_ok k = true -> has_char sep t = true ->
  read_meta ((k ++ String sep t) :: rest) acc = Err ParsingError.
Proof.
  intros K H. destruct (line_shape k t K) as (R & S & L). destruct (key_ok_parts k K) as (_ & K2 & _).
  cbn [read_meta]. cbv zeta. rewrite R, S, L. rewrite (split_app _ _ _ K2).
  destruct (split_two sep (rstrip t)) as (a & b & l & ->); [rewrite has_char_rstrip; auto|]. reflexivity.
Qed.

Theorem refuses_separator_in_value d1 k v d2 t ls rest :
  Forall item_ok d1 -> key_ok k = true -> to_string v = Ok t -> has_char sep t = true ->
  meta_lines (d1 ++ (k, v) :: d2)%list = Ok ls ->
  csv_import (ls ++ rest)%list = Err ParsingError.
Proof.
  intros F K T H M. unfold meta_lines in M. apply mapM_app in M as (l1 & l2 & M1 & M2 & ->).
  cbn [mapM] in M2. unfold item_line at 1 in M2. cbn [fst snd] in M2. rewrite T in M2. cbn [bind] in M2.
  destruct (mapM item_line d2) as [l2'|e]; cbn [bind] in M2; [|discriminate]. injection M2 as <-.
  unfold csv_import, csv_parse. rewrite <- app_assoc. rewrite (read_meta_lines d1 l1 _ [] F M1).
  cbn [app]. rewrite (read_meta_refuses k t _ _ K H). reflexivity.
Qed.

(* ---------------------------------------------------------------- the value domain, from Codec/CastString.v *)
Lemma castable_none : cast "None" = Ok VNone. Proof. reflexivity. Qed.
Lemma castable_bool b : exists t, to_string (VBool b) = Ok t /\ cast t = Ok (VBool b).
Proof. destruct b; eexists; split; reflexivity. Qed.
Lemma castable_nat n : to_string (VInt (Z.of_N n)) = Ok (print_nat n) /\ cast (print_nat n) = Ok (VInt (Z.of_N n)).
Proof.
  split.
  - unfold to_string, str_scalar, print_Z. destruct n; cbn [Z.of_N]; rewrite ?N2Z.id; reflexivity.
  - unfold cast. rewrite cast_int_roundtrip. reflexivity.
Qed.
Lemma castable_text s :
  CastString.is_none s = false -> is_bool s = false -> isnumeric s = false -> is_float s = false -> is_list s = false ->
  to_string (VStr s) = Ok s /\ cast s = Ok (VStr s).
Proof. intros. split; [reflexivity|]. unfold cast. rewrite cast_text_roundtrip; auto. Qed.
(* floats: given that repr(q) has the shape of a float literal and float(repr(q)) = q (the oracles' contract) *)
Lemma castable_float q :
  is_float (repr_float q) = true -> isnumeric (repr_float q) = false -> CastString.is_none (repr_float q) = false ->
  is_bool (repr_float q) = false -> float_of (repr_float q) = VFloat q ->
  to_string (VFloat q) = Ok (repr_float q) /\ cast (repr_float q) = Ok (VFloat q).
Proof. intros H1 H2 H3 H4 H5. split; [reflexivity|]. unfold cast. rewrite cast_float_roundtrip; auto. rewrite H5. reflexivity. Qed.

(* ---------------------------------------------------------------- the table: rows in order, marks, cells through the cell codec *)
Hypothesis sep_not_ads : has_char sep "ads" = false.
Hypothesis sep_not_des : has_char sep "des" = false.

Lemma join_cons x y r : join seps (x :: y :: r) = x ++ String sep (join seps (y :: r)).
Proof. reflexivity. Qed.
Lemma split_join fs : fs <> [] -> forallb (fun t => negb (has_char sep t)) fs = true -> split sep (join seps fs) = fs.
Proof.
  induction fs as [|x [|y r] IH]; intros N H.
  - contradiction.
  - cbn [join]. apply split_nochar. cbn in H. rewrite andb_true_r in H. apply negb_true_iff in H. exact H.
  - rewrite join_cons. cbn [forallb] in H. apply andb_true_iff in H as [H1 H2]. apply negb_true_iff in H1.
    rewrite split_app by exact H1. f_equal. apply IH; [discriminate|exact H2].
Qed.
Lemma mapM_length {A B} (f : A -> res B) l : forall ys, mapM f l = Ok ys -> length ys = length l.
Proof.
  induction l as [|x r IH]; intros ys H; cbn [mapM] in H.
  - injection H as <-. reflexivity.
  - destruct (f x); cbn [bind] in H; [|discriminate]. destruct (mapM f r) eqn:E; cbn [bind] in H; [|discriminate].
    injection H as <-. cbn [length]. rewrite (IH _ eq_refl). reflexivity.
Qed.
Lemma filter_nobranch ks : forall fs, mem "branch" ks = false ->
  filter (fun x : string * string => negb (String.eqb (fst x) "branch")) (combine ks fs) = combine ks fs.
Proof.
  induction ks as [|k r IH]; intros fs H; [reflexivity|]. destruct fs as [|f fs']; [reflexivity|].
  cbn [mem] in H. apply orb_false_iff in H as [H1 H2]. cbn [combine filter fst].
  rewrite String.eqb_sym in H1. rewrite H1. cbn [negb]. rewrite IH by exact H2. reflexivity.
Qed.
Lemma assoc_nobranch ks : forall fs : list string, mem "branch" ks = false -> Lib.Py.assoc "branch" (combine ks fs) = None.
Proof.
  induction ks as [|k r IH]; intros fs H; [reflexivity|]. destruct fs as [|f fs']; [reflexivity|].
  cbn [mem] in H. apply orb_false_iff in H as [H1 H2]. cbn [combine Lib.Py.assoc]. rewrite H1. apply IH. exact H2.
Qed.
Lemma map_combine_cells ks : forall fs,
  map (fun x : string * string => (fst x, cell_of (snd x))) (combine ks fs) = combine ks (map cell_of fs).
Proof. induction ks as [|k r IH]; intros fs; [reflexivity|]. destruct fs; [reflexivity|]. cbn [combine map fst snd]. rewrite IH. reflexivity. Qed.

(* what the reader makes of one written row: the same column names, every cell text through pandas' cell reader, the same mark *)
Definition row_back (r : row) : res row :=
  bind (mapM (fun kv => cell_text (snd kv)) (r_cells r)) (fun fs => Ok (mkRow (combine (keys (r_cells r)) (map cell_of fs)) (r_des r))).
Definition row_wf (cols : list string) (r : row) : Prop :=
  keys (r_cells r) = cols /\ mem "branch" cols = false /\
  forall fs, mapM (fun kv => cell_text (snd kv)) (r_cells r) = Ok fs -> forallb (fun t => negb (has_char sep t)) fs = true.

Opaque join.
Lemma read_row_line a b rest r line : row_wf (a :: b :: rest) r -> row_line r = Ok line ->
  line <> "" /\ read_row (a :: b :: "branch" :: rest) line = row_back r.
Proof.
  intros (Hk & Hb & Hs) HL. unfold row_line, row_fields in HL. unfold row_back.
  destruct (mapM (fun kv => cell_text (snd kv)) (r_cells r)) as [fs|e] eqn:E; cbn [bind res_map] in *; [|discriminate].
  specialize (Hs fs eq_refl). pose proof (mapM_length _ _ _ E) as Len.
  assert (Lk : length (r_cells r) = length (a :: b :: rest)) by (rewrite <- Hk; unfold keys; rewrite map_length; reflexivity).
  rewrite Lk in Len. destruct fs as [|fa [|fb frest]]; try discriminate Len. cbn [with_branch res_map] in HL. injection HL as <-.
  set (mark := if r_des r then "des" else "ads").
  assert (Hm : has_char sep mark = false) by (unfold mark; destruct (r_des r); assumption).
  cbn [forallb] in Hs. apply andb_true_iff in Hs as [Hs1 Hs]. apply andb_true_iff in Hs as [Hs2 Hs3].
  assert (Hall : forallb (fun t => negb (has_char sep t)) (fa :: fb :: mark :: frest) = true).
  { cbn [forallb]. rewrite Hs1, Hs2, Hm, Hs3. reflexivity. }
  split.
  - rewrite join_cons. destruct fa; discriminate.
  - unfold read_row. rewrite (split_join (fa :: fb :: mark :: frest)); [|discriminate|exact Hall].
    cbn [length] in *. injection Len as Len. rewrite Len, Nat.eqb_refl. cbn [negb].
    cbn [mem] in Hb. apply orb_false_iff in Hb as [Hb1 Hb]. apply orb_false_iff in Hb as [Hb2 Hb3].
    cbn [combine Lib.Py.assoc]. rewrite Hb1, Hb2. change (String.eqb "branch" "branch") with true. cbn iota.
    cbn [filter fst]. rewrite (String.eqb_sym a), (String.eqb_sym b), Hb1, Hb2. change (String.eqb "branch" "branch") with true.
    cbn [negb]. rewrite (filter_nobranch _ _ Hb3). rewrite Hk.
    cbn [map fst snd]. rewrite map_combine_cells. cbn [combine map].
    replace (negb (String.eqb mark "ads")) with (r_des r) by (unfold mark; destruct (r_des r); reflexivity).
    reflexivity.
Qed.
Transparent join.

(* induction over the row list: every row comes back, in order, with its mark *)
Theorem read_rows_lines a b rest rows : forall ls, Forall (row_wf (a :: b :: rest)) rows -> mapM row_line rows = Ok ls ->
  read_rows (a :: b :: "branch" :: rest) (ls ++ [""])%list = mapM row_back rows.
Proof.
  induction rows as [|r rs IH]; intros ls F M; cbn [mapM] in *.
  - injection M as <-. reflexivity.
  - inversion F as [|? ? W F']; subst. destruct (row_line r) as [line|e] eqn:E; cbn [bind] in M; [|discriminate].
    destruct (mapM row_line rs) as [ls'|e] eqn:E2; cbn [bind] in M; [|discriminate]. injection M as <-.
    destruct (read_row_line a b rest r line W E) as [NE RR].
    cbn [app read_rows]. destruct (String.eqb line "") eqn:E0; [apply String.eqb_eq in E0; contradiction|].
    rewrite RR. rewrite (IH ls' F' eq_refl). reflexivity.
Qed.

(* the cell codec on the cells the writer produces *)
Lemma cell_nat n : exists t, cell_text (VInt (Z.of_N n)) = Ok t /\ cell_of t = VInt (Z.of_N n).
Proof.
  exists (print_nat n). split.
  - unfold cell_text, print_Z. destruct n; cbn [Z.of_N]; rewrite ?N2Z.id; reflexivity.
  - pose proof (cast_int_roundtrip n) as C. unfold cast_string in C. unfold cell_of.
    pose proof (digits_string_of_uint (N.to_uint n)) as D. fold (print_nat n) in D.
    assert (E0 : String.eqb (print_nat n) "" = false) by (apply String.eqb_neq; apply print_nat_nonempty).
    rewrite E0, (digits_not_word _ "True" "T" "rue" D eq_refl eq_refl), (digits_not_word _ "False" "F" "alse" D eq_refl eq_refl).
    unfold isnumeric. rewrite E0, D. cbn [negb andb]. unfold parse_nat, print_nat. rewrite DecimalString.NilEmpty.usu, DecimalN.Unsigned.of_to. reflexivity.
Qed.
Lemma cell_bool b : exists t, cell_text (VBool b) = Ok t /\ cell_of t = VBool b.
Proof. destruct b; eexists; split; reflexivity. Qed.
Lemma cell_missing : cell_text VNaN = Ok "" /\ cell_of "" = VNaN.
Proof. split; reflexivity. Qed.

(* ---------------------------------------------------------------- the reader applied to the writer's document *)
Hypothesis sep_not_branch : has_char sep "branch" = false.

Lemma plain_nosep l : forallb plain_field l = true -> forallb (fun t => negb (has_char sep t)) l = true.
Proof.
  induction l as [|x r IH]; cbn [forallb]; auto. intros H. apply andb_true_iff in H as [H1 H2]. rewrite (IH H2), andb_true_r.
  unfold plain_field in H1. apply andb_true_iff in H1 as [H1 _]. apply andb_true_iff in H1 as [H1 _]. apply andb_true_iff in H1 as [H1 _]. exact H1.
Qed.

(* metadata-only isotherm: the keyword dictionary is the written dictionary (values through cast_string) *)
Theorem csv_parse_base d ml : Forall item_ok d -> meta_lines d = Ok ml ->
  csv_parse (ml ++ [""])%list =
    bind (pop_version (dict_update [] d)) (fun raw => bind (regroup raw) (fun raw => Ok (raw, SBase))).
Proof.
  intros F M. unfold csv_parse. rewrite (read_meta_lines d ml _ [] F M).
  change (read_meta [""] (dict_update [] d)) with (Ok (dict_update [] d, "", @nil string)). cbn [bind].
  destruct (pop_version (dict_update [] d)) as [raw|e]; cbn [bind]; [|reflexivity].
  destruct (regroup raw) as [raw'|e]; cbn [bind]; reflexivity.
Qed.

(* point isotherm: additionally the column names and every row, in order, with its mark *)
Opaque join.
Theorem csv_parse_point d ml a b rest rows tl :
  Forall item_ok d -> meta_lines d = Ok ml ->
  Forall (row_wf (a :: b :: rest)) rows -> forallb plain_field (a :: b :: rest) = true ->
  table_lines rows = Ok tl ->
  csv_parse (ml ++ data_marker :: tl ++ [""])%list =
    bind (pop_version (dict_update [] d)) (fun raw => bind (regroup raw) (fun raw =>
    bind (mapM row_back rows) (fun rows' => Ok (raw, SPoint a b rows')))).
Proof.
  intros F M W P T. unfold csv_parse. rewrite (read_meta_lines d ml _ [] F M).
  change (read_meta (data_marker :: (tl ++ [""])%list) (dict_update [] d)) with (Ok (dict_update [] d, data_marker, (tl ++ [""])%list)).
  cbn [bind]. destruct (pop_version (dict_update [] d)) as [raw|e]; cbn [bind]; [|reflexivity].
  destruct (regroup raw) as [raw'|e]; cbn [bind]; [|reflexivity].
  change (prefix "data" data_marker) with true. cbn iota.
  destruct rows as [|r0 rs]; [discriminate T|]. unfold table_lines in T.
  assert (K0 : keys (r_cells r0) = a :: b :: rest) by (inversion W as [|? ? (Hk & _) _]; exact Hk).
  unfold header_fields in T. rewrite K0, P in T. cbn [with_branch bind] in T.
  destruct (mapM row_line (r0 :: rs)) as [ls|e] eqn:E; cbn [bind] in T; [|discriminate]. injection T as <-.
  cbn [app read_table].
  assert (Hh : forallb (fun t => negb (has_char sep t)) (a :: b :: "branch" :: rest) = true).
  { pose proof (plain_nosep _ P) as Q. cbn [forallb] in *. apply andb_true_iff in Q as [Q1 Q]. apply andb_true_iff in Q as [Q2 Q3].
    rewrite Q1, Q2, Q3, sep_not_branch. reflexivity. }
  rewrite (split_join (a :: b :: "branch" :: rest)); [|discriminate|exact Hh].
  assert (Hm : mem "branch" (a :: b :: "branch" :: rest) = true).
  { cbn [mem]. change (String.eqb "branch" "branch") with true. rewrite !orb_true_r. reflexivity. }
  rewrite Hm. rewrite (read_rows_lines a b rest (r0 :: rs) ls W E).
  destruct (mapM row_back (r0 :: rs)); reflexivity.
Qed.
Transparent join.

End Proofs.

End Csv.

(* ================================================================ witnesses (separator ',', tagged oracles) *)
Definition comma : ascii := ",".
Definition w_repr (q : Q) : string := "1.5".
Definition w_float_of (s : string) : pyval := VStr ("float:" ++ s).        (* shows where float() is reached and on which text *)
Definition w_from_list (s : string) : res pyval := Ok (VStr ("list:" ++ s)).

(* the hypotheses on the separator hold for the default separator *)
Lemma comma_ok : is_space comma = false /\ has_char comma "data" = false /\ has_char comma "model" = false /\
                 has_char comma "ads" = false /\ has_char comma "des" = false /\ has_char comma "branch" = false.
Proof. repeat split; reflexivity. Qed.
(* the value domain is inhabited: text, a non-negative int, a boolean, None *)
Definition w_csv_meta : dict := [("operator", VStr "abc def"); ("batch", VInt 7); ("ok", VBool true); ("nothing", VNone)].
Lemma w_csv_meta_ok : Forall (item_ok comma w_repr w_float_of w_from_list) w_csv_meta.
Proof. repeat constructor; cbn [fst snd]; try reflexivity; eexists; repeat split; reflexivity. Qed.
Lemma w_csv_meta_roundtrip :
  exists ml, meta_lines comma w_repr w_csv_meta = Ok ml /\
             csv_parse comma w_float_of w_from_list (ml ++ [""])%list = Ok (w_csv_meta, SBase).
Proof. eexists. split; vm_compute; reflexivity. Qed.
Definition w_rows : list row :=
  [mkRow [("pressure", VFloat (1 # 2)); ("loading", VInt 3); ("flag", VBool true)] false;
   mkRow [("pressure", VFloat (123456789 # 100000000000)); ("loading", VInt 4); ("flag", VBool false)] true].
Lemma w_table : table_lines comma w_rows = Ok ["pressure,loading,branch,flag"; "0.5,3,ads,True"; "0.00123457,4,des,False"].
Proof. vm_compute. reflexivity. Qed.
Lemma w_dec8 : map (fun k => dec8 false k) [150000000; 1000; 1234; 12345; 100000000; 1]%N
             = [Ok "1.5"; Ok "1e-05"; Ok "1.234e-05"; Ok "0.00012345"; Ok "1.0"; Ok "1e-08"].
Proof. vm_compute. reflexivity. Qed.

(* silent changes (each is a finding replayed on the implementation by ./check C07) *)
Lemma w_negative_int : to_string w_repr (VInt (-5)) = Ok "-5" /\ cast w_float_of w_from_list "-5" = Ok (w_float_of "-5").
Proof. split; reflexivity. Qed.
Lemma w_numeric_text : to_string w_repr (VStr "12") = Ok "12" /\ cast w_float_of w_from_list "12" = Ok (VInt 12).
Proof. split; reflexivity. Qed.
Lemma w_trailing_blank :
  read_meta comma w_float_of w_from_list ["comment,trail "; ""] [] = Ok ([("comment", VStr "trail")], "", []).
Proof. vm_compute. reflexivity. Qed.
(* a key spelled like a section marker ends the metadata: the lines after it are never read as metadata *)
Lemma w_marker_key :
  read_meta comma w_float_of w_from_list ["k1,2"; "datafile,x1"; "k2,3"] [] = Ok ([("k1", VInt 2)], "datafile,x1", ["k2,3"]).
Proof. vm_compute. reflexivity. Qed.
(* str.replace removes EVERY "_material_": the property raw_material_id is looked up as rawid *)
Lemma w_material_key : regroup [("material", VStr "m"); ("_material_raw_material_id", VInt 7)] = Err KeyError.
Proof. vm_compute. reflexivity. Qed.
Lemma w_material_regroup :
  regroup [("material", VStr "m"); ("temperature", VInt 77); ("_material_density", VInt 2)]
  = Ok [("material", VDict [("density", VInt 2); ("name", VStr "m")]); ("temperature", VInt 77)].
Proof. vm_compute. reflexivity. Qed.
(* the fit error of a model comes back as text *)
Lemma w_rmse_text :
  read_model comma w_float_of w_from_list ["name,Henry"; "rmse,0.5"; "pressure range,(0 1)"; "loading range,(0 2)"; "K,2.0"; ""]
  = Ok (SModel (VDict [("name", VStr "Henry"); ("rmse", VStr "0.5"); ("pressure_range", VStr "list:(0 1)");
                       ("loading_range", VStr "list:(0 2)"); ("parameters", VDict [("K", VStr "float:2.0")])])).
Proof. vm_compute. reflexivity. Qed.
