(* Hand-written (H): the cells of an .xls worksheet as xlrd presents them (ctype, value), shared by the generated logic of
   parsing/excel.py (Gen/XlGen.v) and the document model (Codec/XlDoc.v).
     XEmpty   ctype XL_CELL_EMPTY   value ''      (never written, or written with '' / None: xlwt stores a blank record that xlrd
                                                   does not materialise without formatting_info)
     XText s  ctype XL_CELL_TEXT    value s       (s non-empty)
     XNum v   ctype XL_CELL_NUMBER  value float   (v is VFloat q, VNaN or VInf b)
     XBool b  ctype XL_CELL_BOOLEAN value 0 / 1   (an int) *)
From Coq Require Import QArith ZArith String List Bool.
From PG Require Import Lib.Py Codec.PyVal.
Import ListNotations.
Open Scope string_scope.

Inductive xcell := XEmpty | XText (s : string) | XNum (v : pyval) | XBool (b : bool).
Definition cell_value (c : xcell) : pyval :=
  match c with XEmpty => VStr "" | XText s => VStr s | XNum v => v | XBool b => VInt (if b then 1 else 0) end.
Definition is_empty (c : xcell) : bool := match c with XEmpty => true | _ => false end.
Definition is_boolean (c : xcell) : bool := match c with XBool _ => true | _ => false end.

Definition xcell_eqb (a b : xcell) : bool :=
  match a, b with
  | XEmpty, XEmpty => true
  | XText s, XText t => String.eqb s t
  | XNum v, XNum w => veqb v w
  | XBool x, XBool y => Bool.eqb x y
  | _, _ => false end.
