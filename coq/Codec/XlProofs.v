(* Proofs about the Excel document model (Codec/XlDoc.v) and the generated cell tests (Gen/XlGen.v):
   the scanning loops on the cells the library produces, the 'otherdata' sheet by induction over the metadata list, the table by
   induction over the row list, the reader applied to the writer's workbook up to the constructor call. *)
From Coq Require Import QArith ZArith NArith String List Bool Ascii Lia.
From PG Require Import Lib.Num Lib.Py Codec.PyVal Gen.TablesGen Codec.XlCell Gen.XlGen Codec.JsonDoc Codec.CastString Codec.CsvDoc Codec.XlDoc.
Import ListNotations.
Open Scope list_scope.
Open Scope nat_scope.
Open Scope string_scope.

(* ------------------------------------------------------------------ the generated layout, by evaluation *)
Lemma canonical : fields_canonical = true.
Proof. vm_compute. reflexivity. Qed.
Lemma header_count : length (removelast xl_fields) = xl_type_row.
Proof. vm_compute. reflexivity. Qed.
Lemma dtype_col : xl_dtype_from_col = 3.
Proof. reflexivity. Qed.

(* ------------------------------------------------------------------ the generated cell tests on the cells the library produces *)
Definition numeric (v : pyval) : bool := match v with VFloat _ | VNaN | VInf _ => true | _ => false end.
(* a NUMBER cell never ends a scan: in particular a pressure of exactly 0 does not end the table *)
Lemma number_never_stops v : numeric v = true ->
  xl_data_stop (XNum v) = false /\ xl_param_stop (XNum v) = false /\ xl_col_stop (XNum v) = false /\ xl_other_stop (XNum v) = false.
Proof. destruct v; try discriminate; intros _; repeat split; reflexivity. Qed.
Lemma boolean_never_stops b :
  xl_data_stop (XBool b) = false /\ xl_param_stop (XBool b) = false /\ xl_col_stop (XBool b) = false /\ xl_other_stop (XBool b) = false.
Proof. destruct b; repeat split; reflexivity. Qed.
Lemma text_never_stops s : s <> "" ->
  xl_data_stop (XText s) = false /\ xl_param_stop (XText s) = false /\ xl_col_stop (XText s) = false /\ xl_other_stop (XText s) = false.
Proof.
  intros H. apply String.eqb_neq in H. unfold xl_data_stop, xl_param_stop, xl_col_stop, xl_other_stop. cbn [cell_value veqb is_empty].
  rewrite H. repeat split; reflexivity.
Qed.
Lemma empty_stops : xl_data_stop XEmpty = true /\ xl_param_stop XEmpty = true /\ xl_col_stop XEmpty = true /\ xl_other_stop XEmpty = true.
Proof. repeat split; reflexivity. Qed.
Lemma dtype_cell_used s : s <> "" -> xl_dtype_used (XText s) = true /\ xl_dtype_used XEmpty = false.
Proof. intros H. apply String.eqb_neq in H. unfold xl_dtype_used. cbn [cell_value veqb]. rewrite H. split; reflexivity. Qed.

(* ------------------------------------------------------------------ lists and grids *)
Lemma pad_id l : pad (length l) l = l.
Proof. induction l as [|x r IH]; cbn [length pad]; [reflexivity|]. rewrite IH. reflexivity. Qed.
Lemma pad_app l : forall n, pad (length l + n) l = (l ++ repeat XEmpty n)%list.
Proof.
  induction l as [|x r IH]; intros n; cbn [length pad app plus].
  - induction n as [|n IHn]; cbn [pad repeat]; [reflexivity|]. rewrite IHn. reflexivity.
  - rewrite IH. reflexivity.
Qed.
Lemma ncols_app (a b : sheet) : ncols (a ++ b)%list = Nat.max (ncols a) (ncols b).
Proof. induction a as [|x r IH]; cbn [app ncols fold_right]; [reflexivity|]. fold (ncols (r ++ b)%list). fold (ncols r). rewrite IH. lia. Qed.
Lemma ncols_cons x r : ncols (x :: r) = Nat.max (length x) (ncols r).
Proof. reflexivity. Qed.
Lemma nth_error_mid {A} (a : list A) x b : nth_error (a ++ x :: b)%list (length a) = Some x.
Proof. rewrite nth_error_app2 by lia. rewrite Nat.sub_diag. reflexivity. Qed.
Lemma nth_error_mid1 {A} (a : list A) x y b : nth_error (a ++ x :: y :: b)%list (S (length a)) = Some y.
Proof. rewrite nth_error_app2 by lia. replace (S (length a) - length a) with 1 by lia. reflexivity. Qed.
Lemma skipn_mid2 {A} (a : list A) x y b : skipn (S (S (length a))) (a ++ x :: y :: b)%list = b.
Proof. induction a as [|z a IH]; [reflexivity|]. cbn [length app]. exact IH. Qed.
Lemma mapM_cons {A B} (f : A -> res B) x r : mapM f (x :: r) = bind (f x) (fun y => bind (mapM f r) (fun ys => Ok (y :: ys))).
Proof. reflexivity. Qed.
Lemma mapM_len {A B} (f : A -> res B) l : forall ys, mapM f l = Ok ys -> length ys = length l.
Proof.
  induction l as [|x r IH]; intros ys H; cbn [mapM] in H.
  - injection H as <-. reflexivity.
  - destruct (f x); cbn [bind] in H; [|discriminate]. destruct (mapM f r) eqn:E; cbn [bind] in H; [|discriminate].
    injection H as <-. cbn [length]. rewrite (IH _ eq_refl). reflexivity.
Qed.

(* the scan over the rows: every leading row whose first cell does not stop is counted *)
Lemma scan_rows_all stop drs rest : Forall (fun r => stop (at_col 0 r) = false) drs ->
  scan_rows stop (drs ++ rest)%list = length drs + scan_rows stop rest.
Proof.
  induction drs as [|r rs IH]; intros F; [reflexivity|]. inversion F as [|? ? H F']; subst.
  cbn [app scan_rows length plus]. rewrite H, (IH F'). reflexivity.
Qed.
Lemma scan_cols_text names n : Forall (fun s => s <> "") names ->
  scan_cols xl_col_stop (map XText names ++ repeat XEmpty n)%list = map XText names.
Proof.
  induction names as [|s r IH]; intros F.
  - cbn [map app]. destruct n; reflexivity.
  - inversion F as [|? ? H F']; subst. cbn [map app scan_cols].
    destruct (text_never_stops s H) as (_ & _ & -> & _). rewrite (IH F'). reflexivity.
Qed.

Section Proofs.
Variable store : pyval -> res xcell.
Variable dtype_of : string -> string.
Variable str_of : pyval -> string.
Variable literal : string -> res pyval.
Variable astype1 : string -> pyval -> res pyval.
(* the library's contract for text: a non-empty string is stored as a TEXT cell with that string *)
Hypothesis store_text : forall s, s <> "" -> store (VStr s) = Ok (XText s).

(* ---------------------------------------------------------------- the 'otherdata' sheet, by induction over the metadata list *)
(* the value domain: what the library stores for v is read back as v *)
Definition item_ok (kv : string * pyval) : Prop := fst kv <> "" /\ exists c, store (snd kv) = Ok c /\ other_value c = snd kv.

Lemma read_other_item k c rest acc : k <> "" ->
  read_other ([XText k; c] :: rest) acc = read_other rest (dict_set k (other_value c) acc).
Proof.
  intros K. cbn [read_other at_col nth]. destruct (text_never_stops k K) as (_ & _ & _ & ->). reflexivity.
Qed.
Theorem read_other_rows d : forall rows rest acc, Forall item_ok d -> mapM (pair_row store) d = Ok rows ->
  read_other (rows ++ rest)%list acc = read_other rest (dict_update acc d).
Proof.
  induction d as [|[k v] d IH]; intros rows rest acc F M.
  - cbn in M. injection M as <-. reflexivity.
  - inversion F as [|? ? (K & c & S & V) F']; subst. cbn [fst snd] in *.
    cbn [mapM] in M. unfold pair_row at 1 in M. cbn [fst snd] in M. rewrite (store_text k K), S in M. cbn [bind] in M.
    destruct (mapM (pair_row store) d) as [rows'|e] eqn:E; cbn [bind] in M; [|discriminate]. injection M as <-.
    cbn [app]. rewrite (read_other_item k c _ _ K), V. cbn [dict_update]. apply IH; auto.
Qed.

(* ---------------------------------------------------------------- the table, by induction over the row list *)
Definition hdrs_of (pk lk : string) (oks : list string) : list (string * option string) :=
  (pk, None) :: (lk, None) :: ("branch", None) :: map (fun k => (k, Some (dtype_of k))) oks.
(* what the reader makes of one written row: the pressure, the loading and every extra column, in that order, each value through the
   library (store, then the cell's value) and, for the extra columns, through pandas' astype with the recorded dtype; the mark kept *)
Definition row_back (pk lk : string) (oks : list string) (r : row) : res row :=
  bind (mapM (store_col store r) (pk :: lk :: oks)) (fun cs =>
  bind (mapM (conv_cell astype1) (combine ((pk, None) :: (lk, None) :: map (fun k => (k, Some (dtype_of k))) oks) cs)) (fun kvs =>
  Ok (mkRow kvs (r_des r)))).
(* the pressure cell of a row does not end the scan for the last data row (instances: number_never_stops for every number cell) *)
Definition pressure_ok (pk : string) (r : row) : Prop :=
  forall v c, dget pk (r_cells r) = Some v -> store v = Ok c -> xl_data_stop c = false.

Lemma mapM_store_text names : Forall (fun s => s <> "") names -> mapM (fun h => store (VStr h)) names = Ok (map XText names).
Proof.
  induction names as [|s r IH]; intros F; [reflexivity|]. inversion F as [|? ? H F']; subst.
  cbn [mapM map]. rewrite (store_text s H), (IH F'). reflexivity.
Qed.
Lemma mapM_store_dtypes oks : Forall (fun k => k <> "" /\ dtype_of k <> "") oks ->
  mapM (fun k => store (VStr (dtype_of k))) oks = Ok (map XText (map dtype_of oks)).
Proof.
  induction oks as [|k r IH]; intros F; [reflexivity|]. inversion F as [|? ? [_ D] F']; subst.
  cbn [mapM map]. rewrite (store_text _ D), (IH F'). reflexivity.
Qed.
Lemma conv_keep hs : forall cs kvs, Forall (fun h : string * option string => fst h <> "branch") hs ->
  mapM (conv_cell astype1) (combine hs cs) = Ok kvs ->
  filter (fun kv : string * pyval => negb (String.eqb (fst kv) "branch")) kvs = kvs /\ dget "branch" kvs = None.
Proof.
  induction hs as [|h r IH]; intros cs kvs F M.
  - cbn in M. injection M as <-. split; reflexivity.
  - destruct cs as [|c cs']; [cbn in M; injection M as <-; split; reflexivity|].
    inversion F as [|? ? H F']; subst. cbn [combine mapM] in M. unfold conv_cell at 1 in M. cbn [fst snd] in M.
    destruct (conv astype1 (snd h) (cell_value c)) as [v|e]; cbn [bind] in M; [|discriminate].
    destruct (mapM (conv_cell astype1) (combine r cs')) as [kvs'|e] eqn:E; cbn [bind] in M; [|discriminate]. injection M as <-.
    destruct (IH _ _ F' E) as [I1 I2]. apply String.eqb_neq in H.
    cbn [filter fst dget]. rewrite H. rewrite String.eqb_sym in H. rewrite H. cbn [negb]. rewrite I1, I2. split; reflexivity.
Qed.

Lemma conv_cell_none h c : conv_cell astype1 ((h, None), c) = Ok (h, cell_value c).
Proof. reflexivity. Qed.
Lemma read_row_written pk lk oks r cells :
  pk <> "branch" -> lk <> "branch" -> Forall (fun k => k <> "branch") oks ->
  data_row store pk lk oks r = Ok cells ->
  read_row astype1 (hdrs_of pk lk oks) cells = row_back pk lk oks r.
Proof.
  intros Hp Hl Ho D. unfold data_row in D. unfold row_back.
  destruct (mapM (store_col store r) (pk :: lk :: oks)) as [cs|e] eqn:E; cbn [bind] in *; [|discriminate].
  pose proof (mapM_len _ _ _ E) as Len. cbn [length] in Len.
  destruct cs as [|cp [|cl cs']]; try discriminate Len. injection D as <-. injection Len as Len.
  unfold read_row, hdrs_of. cbn [length]. rewrite map_length, <- Len.
  change (S (S (S (length cs')))) with (length (cp :: cl :: XText (mark r) :: cs')). rewrite pad_id.
  cbn [combine mapM]. rewrite !conv_cell_none. cbn [bind cell_value].
  destruct (mapM (conv_cell astype1) (combine (map (fun k => (k, Some (dtype_of k))) oks) cs')) as [kvs'|e] eqn:E2; cbn [bind]; [|reflexivity].
  assert (F : Forall (fun h : string * option string => fst h <> "branch") (map (fun k => (k, Some (dtype_of k))) oks)).
  { clear -Ho. induction Ho; cbn [map]; constructor; auto. }
  destruct (conv_keep _ _ _ F E2) as [K1 K2].
  apply String.eqb_neq in Hp, Hl. cbn [dget]. rewrite (String.eqb_sym "branch" pk), (String.eqb_sym "branch" lk), Hp, Hl.
  change (String.eqb "branch" "branch") with true. cbn iota.
  cbn [filter fst]. rewrite Hp, Hl. change (String.eqb "branch" "branch") with true. cbn [negb]. rewrite K1.
  unfold mark. destruct (r_des r); reflexivity.
Qed.

Lemma rows_back pk lk oks : pk <> "branch" -> lk <> "branch" -> Forall (fun k => k <> "branch") oks ->
  forall rows drs, Forall (pressure_ok pk) rows -> mapM (data_row store pk lk oks) rows = Ok drs ->
  Forall (fun r => xl_data_stop (at_col 0 r) = false) drs /\
  mapM (read_row astype1 (hdrs_of pk lk oks)) drs = mapM (row_back pk lk oks) rows.
Proof.
  intros Hp Hl Ho. induction rows as [|r rs IH]; intros drs F M; cbn [mapM] in M.
  - injection M as <-. split; [constructor|reflexivity].
  - inversion F as [|? ? P F']; subst.
    destruct (data_row store pk lk oks r) as [cells|e] eqn:D; cbn [bind] in M; [|discriminate].
    destruct (mapM (data_row store pk lk oks) rs) as [drs'|e] eqn:E; cbn [bind] in M; [|discriminate]. injection M as <-.
    destruct (IH _ F' eq_refl) as [I1 I2]. split.
    + constructor; [|exact I1]. unfold data_row in D. rewrite mapM_cons in D. unfold store_col at 1 in D.
      destruct (dget pk (r_cells r)) as [v|] eqn:G; cbn [bind] in D; [|discriminate].
      destruct (store v) as [c|e] eqn:S; cbn [bind] in D; [|discriminate].
      destruct (mapM (store_col store r) (lk :: oks)) as [cs|e]; cbn [bind] in D; [|discriminate].
      destruct cs as [|cl cs']; [discriminate|]. injection D as <-. cbn [at_col nth]. exact (P v c G S).
    + cbn [mapM]. rewrite (read_row_written pk lk oks r cells Hp Hl Ho D), I2. reflexivity.
Qed.

(* the scanned header cells with the dtype cells above them *)
Lemma header_tail oks : forall j, 3 <= j -> Forall (fun k => k <> "" /\ dtype_of k <> "") oks ->
  mapM header_of (combine (seq j (length oks)) (combine (map XText oks) (map XText (map dtype_of oks))))
  = Ok (map (fun k => (k, Some (dtype_of k))) oks).
Proof.
  induction oks as [|k r IH]; intros j J F; [reflexivity|]. inversion F as [|? ? [K D] F']; subst.
  cbn [length seq map combine mapM]. unfold header_of at 1. cbn [fst snd cell_value].
  rewrite dtype_col. destruct (dtype_cell_used _ D) as [-> _].
  replace (Nat.leb 3 j) with true by (symmetry; apply Nat.leb_le; exact J). cbn [andb bind].
  rewrite (IH (S j)) by (auto; lia). reflexivity.
Qed.

(* the reader's table on the sheet the writer produced: the column names and every row, in order, with its mark *)
Theorem read_table_written pk lk r0 rs hs tl :
  length hs = xl_type_row ->
  pk <> "" -> lk <> "" -> pk <> "branch" -> lk <> "branch" ->
  Forall (fun k => k <> "" /\ k <> "branch" /\ dtype_of k <> "") (other_keys pk lk r0) ->
  Forall (pressure_ok pk) (r0 :: rs) ->
  point_rows store dtype_of pk lk (r0 :: rs) = Ok tl ->
  read_table astype1 (hs ++ tl)%list =
    bind (mapM (row_back pk lk (other_keys pk lk r0)) (r0 :: rs)) (fun rows' => Ok (SPoint pk lk rows')).
Proof.
  intros Hh Kp Kl Bp Bl Fo Fp T. unfold point_rows in T. set (oks := other_keys pk lk r0) in *.
  assert (Fne : Forall (fun s => s <> "") (pk :: lk :: "branch" :: oks)).
  { repeat constructor; auto; try discriminate. clear -Fo. induction Fo as [|? ? (A & _) ? IH]; constructor; auto. }
  assert (Fnb : Forall (fun k => k <> "branch") oks) by (clear -Fo; induction Fo as [|? ? (_ & A & _) ? IH]; constructor; auto).
  assert (Fdt : Forall (fun k => k <> "" /\ dtype_of k <> "") oks) by (clear -Fo; induction Fo as [|? ? (A & _ & B) ? IH]; constructor; auto).
  assert (Fd : Forall (fun s => s <> "") (map dtype_of oks)) by (clear -Fo; induction Fo as [|? ? (_ & _ & B) ? IH]; cbn [map]; constructor; auto).
  (* the type row, whatever the number of extra columns, padded to the width of the header *)
  assert (TR : exists tr, type_row_point store dtype_of oks = Ok tr /\
                          pad (length (pk :: lk :: "branch" :: oks)) tr = XText type_label :: XText "data" :: XEmpty :: map XText (map dtype_of oks)).
  { unfold type_row_point. destruct oks as [|k ks] eqn:Eo.
    - eexists. split; reflexivity.
    - rewrite <- Eo in *. rewrite (mapM_store_dtypes _ Fdt). cbn [bind]. eexists. split; [reflexivity|].
      replace (length (pk :: lk :: "branch" :: oks)) with (length (XText type_label :: XText "data" :: XEmpty :: map XText (map dtype_of oks)))
        by (cbn [length]; rewrite !map_length; reflexivity).
      apply pad_id. }
  destruct TR as (tr & TR1 & TR2). rewrite TR1 in T. cbn [bind] in T.
  rewrite (mapM_store_text _ Fne) in T. cbn [bind] in T.
  destruct (mapM (data_row store pk lk oks) (r0 :: rs)) as [drs|e] eqn:E; cbn [bind] in T; [|discriminate]. injection T as <-.
  destruct (rows_back pk lk oks Bp Bl Fnb _ _ Fp E) as [NS RB].
  unfold read_table. rewrite <- Hh. rewrite skipn_mid2, nth_error_mid, nth_error_mid1.
  (* the header scan *)
  change (XText pk :: XText lk :: XText "branch" :: map XText oks) with (map XText (pk :: lk :: "branch" :: oks)).
  set (hr := map XText (pk :: lk :: "branch" :: oks)).
  set (sh := (hs ++ tr :: hr :: drs)%list).
  assert (W : exists n, ncols sh = length hr + n).
  { exists (ncols sh - length hr). unfold sh. rewrite ncols_app, !ncols_cons. lia. }
  destruct W as [n ->]. rewrite pad_app. unfold hr. rewrite (scan_cols_text _ n Fne).
  rewrite map_length, TR2.
  cbn [length seq map combine mapM]. unfold header_of at 1 2 3. cbn [fst snd cell_value]. rewrite dtype_col. cbn [Nat.leb andb bind].
  rewrite (header_tail oks 3 (le_n 3) Fdt). cbn [bind].
  rewrite <- (app_nil_r drs) at 1. rewrite (scan_rows_all _ _ _ NS). cbn [scan_rows]. rewrite Nat.add_0_r, firstn_all.
  fold (hdrs_of pk lk oks). rewrite RB. reflexivity.
Qed.

(* ---------------------------------------------------------------- the model parameters, by induction over the parameter list *)
Definition param_ok (kv : string * pyval) : Prop := fst kv <> "" /\ exists c, store (snd kv) = Ok c /\ cell_value c = snd kv.
Theorem read_params_rows ps : forall rows rest acc, Forall param_ok ps -> mapM (pair_row store) ps = Ok rows ->
  read_params (rows ++ rest)%list acc = read_params rest (dict_update acc ps).
Proof.
  induction ps as [|[k v] ps IH]; intros rows rest acc F M.
  - cbn in M. injection M as <-. reflexivity.
  - inversion F as [|? ? (K & c & S & V) F']; subst. cbn [fst snd] in *.
    rewrite mapM_cons in M. unfold pair_row at 1 in M. cbn [fst snd] in M. rewrite (store_text k K), S in M. cbn [bind] in M.
    destruct (mapM (pair_row store) ps) as [rows'|e] eqn:E; cbn [bind] in M; [|discriminate]. injection M as <-.
    cbn [app read_params at_col nth]. destruct (text_never_stops k K) as (_ & -> & _). cbn [cell_value]. rewrite V.
    cbn [dict_update]. apply IH; auto.
Qed.

(* ---------------------------------------------------------------- the fixed header fields *)
Lemma cell_hit (sh : sheet) r c row : nth_error sh r = Some row -> c < length row -> cell sh r c = Ok (at_col c row).
Proof.
  intros N L. unfold cell. rewrite N.
  assert (length row <= ncols sh).
  { apply nth_error_In in N. clear -N. induction sh as [|x t IH]; [contradiction|]. rewrite ncols_cons. destruct N as [->|N]; [lia|]. specialize (IH N). lia. }
  replace (Nat.ltb c (ncols sh)) with true by (symmetry; apply Nat.ltb_lt; lia). reflexivity.
Qed.
(* what the reader takes from the header: name -> value of the cell the writer put there (EMPTY -> None) *)
Definition header_back (d : dict) : res dict :=
  mapM (fun f => bind (header_cell store d f) (fun c => Ok (f_name f, header_value c))) (removelast xl_fields).
Lemma read_fields_written d hs tr rest : header_rows store d = Ok hs -> 2 <= length tr ->
  read_fields (hs ++ tr :: rest)%list = bind (header_back d) (fun hd => Ok (hd ++ [("isotherm_data", header_value (at_col 1 tr))])%list).
Proof.
  intros H L. unfold header_rows in H. unfold header_back. cbn [removelast xl_fields] in *. rewrite !mapM_cons in *.
  unfold header_row in H. cbn [mapM] in *.
  repeat match goal with |- context [header_cell store d ?f] =>
    destruct (header_cell store d f) as [?c|?e]; cbn [bind] in *; [|discriminate H] end.
  injection H as <-. unfold read_fields. cbn [fold_left xl_fields bind f_row f_col f_name fst snd].
  repeat (erewrite cell_hit; [|reflexivity|cbn [length]; lia]; cbn [bind at_col nth]).
  reflexivity.
Qed.
Lemma header_rows_len d hs : header_rows store d = Ok hs -> length hs = xl_type_row.
Proof. intros H. apply mapM_len in H. rewrite H. exact header_count. Qed.
Lemma type_is_hit hs tr rest w s : length hs = xl_type_row -> 2 <= length tr -> at_col 1 tr = XText s ->
  type_is (hs ++ tr :: rest)%list w = Ok (prefix w (lower s)).
Proof.
  intros Hh L A. unfold type_is. rewrite <- Hh. rewrite (cell_hit _ _ 1 tr (nth_error_mid hs tr rest)) by lia.
  cbn [bind]. rewrite A. reflexivity.
Qed.
Lemma point_rows_type pk lk rows tl : point_rows store dtype_of pk lk rows = Ok tl ->
  exists tr rest, tl = tr :: rest /\ at_col 1 tr = XText "data" /\ 2 <= length tr.
Proof.
  unfold point_rows. destruct rows as [|r0 rs]; [discriminate|]. unfold type_row_point.
  destruct (other_keys pk lk r0) as [|k ks].
  - cbn [bind]. destruct (mapM _ _); cbn [bind]; [|discriminate]. destruct (mapM _ _); cbn [bind]; [|discriminate].
    intros H. injection H as <-. eexists _, _. repeat split. cbn [length]. lia.
  - destruct (mapM _ (k :: ks)); cbn [bind]; [|discriminate]. destruct (mapM _ _); cbn [bind]; [|discriminate].
    destruct (mapM _ _); cbn [bind]; [|discriminate].
    intros H. injection H as <-. eexists _, _. repeat split. cbn [length]. lia.
Qed.

(* ---------------------------------------------------------------- the reader applied to the writer's workbook *)
(* metadata-only isotherm: the keyword dictionary is the header (through the library, EMPTY -> None) updated with the remaining
   items of the written dictionary *)
Theorem xl_parse_base d hs os :
  header_rows store d = Ok hs -> other_rows store d = Ok os -> Forall item_ok (other_items d) ->
  xl_parse literal astype1 ((hs ++ [[XText type_label; XText "metadata"]])%list, os) =
    bind (header_back d) (fun hd =>
    bind (xl_pop_version (dict_update (hd ++ [("isotherm_data", VStr "metadata")])%list (other_items d))) (fun raw =>
    bind (regroup (ddel "iso_id" (ddel "isotherm_data" raw))) (fun raw => Ok (raw, SBase)))).
Proof.
  intros H O F. pose proof (header_rows_len d hs H) as Hh. unfold xl_parse. cbn [fst snd].
  rewrite (read_fields_written d hs _ [] H) by (cbn [length]; lia).
  destruct (header_back d) as [hd|e]; cbn [bind]; [|reflexivity].
  rewrite !(type_is_hit hs _ [] _ "metadata" Hh) by (try reflexivity; cbn [length]; lia).
  cbn [bind]. change (prefix "data" (lower "metadata")) with false. change (prefix "model" (lower "metadata")) with false. cbn [bind].
  unfold other_rows in O. rewrite <- (app_nil_r os). rewrite (read_other_rows _ os [] _ F O).
  cbn [read_other bind at_col nth]. reflexivity.
Qed.
(* point isotherm: additionally the column names and every row, in order, with its mark *)
Theorem xl_parse_point d hs os pk lk r0 rs tl :
  header_rows store d = Ok hs -> other_rows store d = Ok os -> Forall item_ok (other_items d) ->
  pk <> "" -> lk <> "" -> pk <> "branch" -> lk <> "branch" ->
  Forall (fun k => k <> "" /\ k <> "branch" /\ dtype_of k <> "") (other_keys pk lk r0) ->
  Forall (pressure_ok pk) (r0 :: rs) ->
  point_rows store dtype_of pk lk (r0 :: rs) = Ok tl ->
  xl_parse literal astype1 ((hs ++ tl)%list, os) =
    bind (header_back d) (fun hd =>
    bind (mapM (row_back pk lk (other_keys pk lk r0)) (r0 :: rs)) (fun rows' =>
    bind (xl_pop_version (dict_update (hd ++ [("isotherm_data", VStr "data")])%list (other_items d))) (fun raw =>
    bind (regroup (ddel "iso_id" (ddel "isotherm_data" raw))) (fun raw => Ok (raw, SPoint pk lk rows'))))).
Proof.
  intros H O F Kp Kl Bp Bl Fo Fp T. pose proof (header_rows_len d hs H) as Hh.
  destruct (point_rows_type _ _ _ _ T) as (tr & rest & -> & A & L).
  unfold xl_parse. cbn [fst snd].
  rewrite (read_fields_written d hs tr rest H L).
  destruct (header_back d) as [hd|e]; cbn [bind]; [|reflexivity].
  rewrite !(type_is_hit hs tr rest _ "data" Hh L A).
  cbn [bind]. change (prefix "data" (lower "data")) with true. cbn iota.
  rewrite (read_table_written pk lk r0 rs hs _ Hh Kp Kl Bp Bl Fo Fp T).
  destruct (mapM (row_back pk lk (other_keys pk lk r0)) (r0 :: rs)) as [rows'|e]; cbn [bind]; [|reflexivity].
  unfold other_rows in O. rewrite <- (app_nil_r os). rewrite (read_other_rows _ os [] _ F O).
  rewrite A. cbn [read_other bind at_col nth]. reflexivity.
Qed.

End Proofs.

(* ================================================================ the library as it behaves (Codec/XlDoc.v xl_store) *)
Definition is_number (v : pyval) : bool := match v with VFloat _ | VNaN | VInf _ | VInt _ => true | _ => false end.
Lemma xl_store_text big s : s <> "" -> xl_store big (VStr s) = Ok (XText s).
Proof. intros H. apply String.eqb_neq in H. unfold xl_store. rewrite H. reflexivity. Qed.
(* whatever number is written into the pressure column - 0, 0.0, a denormal, NaN, an infinity - the scan for the last row goes on *)
Lemma xl_number_cell big v c : is_number v = true -> xl_store big v = Ok c -> xl_data_stop c = false /\ xl_param_stop c = false.
Proof.
  destruct v; try discriminate; intros _; cbn [xl_store].
  - destruct (Z.abs z <=? 9007199254740992)%Z; [|destruct (find _ big)]; intros H; try discriminate; injection H as <-; split; reflexivity.
  - intros H; injection H as <-; split; reflexivity.
  - intros H; injection H as <-; split; reflexivity.
  - intros H; injection H as <-; split; reflexivity.
Qed.
Theorem xl_pressure_number_ok big pk r : (forall v, dget pk (r_cells r) = Some v -> is_number v = true) -> pressure_ok (xl_store big) pk r.
Proof. intros H v c G S. exact (proj1 (xl_number_cell big v c (H v G) S)). Qed.
(* the value domain of the 'otherdata' sheet: floats (incl. nan / inf), booleans, None, non-empty text *)
Definition xl_scalar (v : pyval) : bool :=
  match v with VFloat _ | VNaN | VInf _ | VBool _ | VNone => true | VStr s => negb (String.eqb s "") | _ => false end.
Lemma xl_item_ok big k v : k <> "" -> xl_scalar v = true -> item_ok (xl_store big) (k, v).
Proof.
  intros K S. split; [exact K|]. cbn [snd]. destruct v; try discriminate S; cbn [xl_store].
  - eexists; split; reflexivity.
  - destruct b; eexists; split; reflexivity.
  - eexists; split; reflexivity.
  - eexists; split; reflexivity.
  - eexists; split; reflexivity.
  - cbn [xl_scalar] in S. apply negb_true_iff in S. rewrite S. eexists; split; reflexivity.
Qed.
Lemma xl_param_ok big k q : k <> "" -> param_ok (xl_store big) (k, VFloat q).
Proof. intros K. split; [exact K|]. eexists; split; reflexivity. Qed.
(* REFUTED: ints come back as floats; an empty text comes back as None; a falsy header value (temperature 0) is not written *)
Lemma xl_int_becomes_float : exists c, xl_store [] (VInt 7) = Ok c /\ other_value c = VFloat 7 /\ cell_value c = VFloat 7.
Proof. eexists; repeat split; reflexivity. Qed.
Lemma xl_empty_text_becomes_none : exists c, xl_store [] (VStr "") = Ok c /\ other_value c = VNone.
Proof. eexists; split; reflexivity. Qed.
Lemma xl_zero_temperature_dropped :
  header_cell (xl_store []) [("temperature", VFloat 0)] ("temperature", "Experiment temperature (K)", 1, 0) = Ok XEmpty /\ header_value XEmpty = VNone.
Proof. split; reflexivity. Qed.

(* ================================================================ witness: a table that goes back to vacuum *)
Definition w_dtype (k : string) : string := "float64".
Definition w_str (v : pyval) : string := "(0.0, 1.0)".
Definition w_lit (s : string) : res pyval := Ok (VTuple [VFloat 0; VFloat 1]).
Definition w_row (p l e : Q) (des : bool) : row := mkRow [("pressure", VFloat p); ("loading", VFloat l); ("enthalpy", VFloat e)] des.
Definition w_xl_rows : list row :=
  [w_row 0 0 30 false; w_row (1 # 2) 2 28 false; w_row 0 (1 # 10) 27 true; w_row (1 # 4) 1 26 true; w_row 0 0 25 true].
Definition w_xl_iso : iso :=
  mkIso [VStr "absolute"; VStr "bar"; VStr "mass"; VStr "g"; VStr "molar"; VStr "mmol"; VStr "K"] "carbon-x" [] "nitrogen" (VFloat 77)
        [("comment", VStr "goes back to vacuum"); ("leak", VFloat 0); ("checked", VBool false)] (BPoint "pressure" "loading" w_xl_rows VNone VNone).
(* the rows with a pressure of exactly 0 - the first, a middle one and the last - are all read back, in order, with their marks *)
Lemma w_xl_zero_pressure :
  exists wb raw, xl_book (xl_store []) w_dtype w_str w_xl_iso = Ok wb /\
                 xl_parse w_lit xl_astype1 wb = Ok (raw, SPoint "pressure" "loading" w_xl_rows) /\
                 dget "leak" raw = Some (VFloat 0) /\ dget "checked" raw = Some (VBool false) /\ dget "temperature" raw = Some (VFloat 77).
Proof. eexists _, _. split; [vm_compute; reflexivity|]. split; [vm_compute; reflexivity|]. repeat split; vm_compute; reflexivity. Qed.
Lemma w_xl_rows_ok : Forall (pressure_ok (xl_store []) "pressure") w_xl_rows.
Proof. repeat constructor; apply xl_pressure_number_ok; intros v H; vm_compute in H; injection H as <-; reflexivity. Qed.
