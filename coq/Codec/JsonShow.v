(* Correspondence driver: the model of export / import executed on one case and compared INSIDE Coq with what the
   implementation produced (its JSON document decoded by the json library, the state of the re-imported object).
   Only small integer codes are printed. *)
From Coq Require Import QArith ZArith String List Bool.
From PG Require Import Lib.Num Lib.Py Lib.Show Codec.PyVal Gen.TablesGen Codec.JsonDoc.
Import ListNotations.
Open Scope string_scope.
Open Scope list_scope.

Definition canon (tbl : list (string * string)) (s : string) : string :=
  match Lib.Py.assoc s tbl with Some c => c | None => s end.
Definition body_kind (b : body) : Z := match b with BBase => 0 | BPoint _ _ _ _ _ => 1 | BModel _ _ => 2 end%Z.
Fixpoint list_veqb (a b : list pyval) : bool :=
  match a, b with [], [] => true | x :: r, y :: s => veqb x y && list_veqb r s | _, _ => false end.
(* [units; material name; material properties; adsorbate; temperature; metadata; class; cells; branch marks; model; keys] *)
Definition iso_cmp (a b : iso) : list Z :=
  [ b2z (list_veqb (i_units a) (i_units b)); b2z (String.eqb (i_mat a) (i_mat b)); b2z (dict_eqb (i_mprops a) (i_mprops b));
    b2z (String.eqb (i_ads a) (i_ads b)); b2z (veqb (i_temp a) (i_temp b)); b2z (dict_eqb (i_meta a) (i_meta b));
    b2z (Z.eqb (body_kind (i_body a)) (body_kind (i_body b))) ] ++
  match i_body a, i_body b with
  | BPoint pk lk ra _ _, BPoint pk' lk' rb _ _ =>
      [ b2z (cells_eqb ra rb); b2z (marks_eqb ra rb); 1%Z; b2z (String.eqb pk pk' && String.eqb lk lk') ]
  | BModel ba ma, BModel bb mb => [ 1%Z; b2z (veqb ba bb); b2z (model_eqb ma mb); 1%Z ]
  | BBase, BBase => [1; 1; 1; 1]%Z
  | _, _ => [0; 0; 0; 0]%Z end.
Definition all_one (l : list Z) : bool := forallb (Z.eqb 1) l.

(* -> [export code; export outcome agrees; document agrees; import code; import outcome agrees] ++ iso_cmp *)
Definition chk_json (tbl : list (string * string)) (i : iso) (pk lk : string)
           (exp_code : Z) (impl_doc : pyval) (imp_code : Z) (j : iso) : list Z :=
  match export i with
  | Err x => [exn_code x; b2z (Z.eqb (exn_code x) exp_code)]
  | Ok d =>
      let dn := jnorm d in
      [0%Z; b2z (Z.eqb exp_code 0); b2z (veqb dn impl_doc)] ++
      match import (canon tbl) (fun _ => true) pk lk dn with
      | Err x => [exn_code x; b2z (Z.eqb imp_code (exn_code x))]
      | Ok i' => [0%Z; b2z (Z.eqb imp_code 0)] ++ iso_cmp i' j
      end
  end.
