(* Hand-written (H): the Python values that travel through the isotherm codecs (metadata, cells, documents),
   string-keyed dicts as association lists accessed BY KEY ONLY (dget / ddel / set / update), and a typed,
   key-order-insensitive boolean equality used by the correspondence check (1 <> 1.0 <> True, [..] <> (..)). *)
From Coq Require Import QArith ZArith String List Bool Ascii.
Import ListNotations.
Open Scope string_scope.
Open Scope list_scope.

Inductive pyval :=
| VNone | VBool (b : bool) | VInt (z : Z) | VFloat (q : Q) | VNaN | VInf (neg : bool)
| VOpaque   (* an object json cannot serialise: DataFrame, interpolator, model instance *)
| VStr (s : string) | VList (l : list pyval) | VTuple (l : list pyval) | VDict (d : list (string * pyval)).
Definition dict := list (string * pyval).

Fixpoint dget (k : string) (d : dict) : option pyval :=
  match d with [] => None | (k', v) :: r => if String.eqb k k' then Some v else dget k r end.
Fixpoint ddel (k : string) (d : dict) : dict :=
  match d with [] => [] | (k', v) :: r => if String.eqb k k' then ddel k r else (k', v) :: ddel k r end.
Definition keys (d : dict) : list string := map fst d.
Fixpoint mem (k : string) (l : list string) : bool :=
  match l with [] => false | x :: r => String.eqb k x || mem k r end.
(* d[k] = v : replaces in place, else appends *)
Fixpoint dict_set (k : string) (v : pyval) (d : dict) : dict :=
  match d with [] => [(k, v)] | (k', w) :: r => if String.eqb k k' then (k', v) :: r else (k', w) :: dict_set k v r end.
(* d.update(e) *)
Fixpoint dict_update (d e : dict) : dict :=
  match e with [] => d | (k, v) :: r => dict_update (dict_set k v d) r end.
Fixpoint remove_all (ks : list string) (d : dict) : dict :=
  match ks with [] => d | k :: r => remove_all r (ddel k d) end.
Definition disjoint_from (ks : list string) (d : dict) : bool := forallb (fun k => negb (mem k ks)) (keys d).
Fixpoint nodup_keys (d : dict) : bool :=
  match d with [] => true | (k, _) :: r => negb (mem k (keys r)) && nodup_keys r end.

(* Python truthiness *)
Definition truthy (v : pyval) : bool :=
  match v with
  | VNone => false | VBool b => b | VInt z => negb (Z.eqb z 0) | VFloat q => negb (Qeq_bool q 0) | VNaN => true | VInf _ => true
  | VOpaque => true
  | VStr s => negb (String.eqb s "") | VList l => match l with [] => false | _ => true end
  | VTuple l => match l with [] => false | _ => true end | VDict d => match d with [] => false | _ => true end end.

(* what json.loads(json.dumps(v)) returns, up to key order: tuples become lists, everything else is kept *)
Fixpoint jnorm (v : pyval) : pyval :=
  match v with
  | VList l => VList (map jnorm l)
  | VTuple l => VList (map jnorm l)
  | VDict d => VDict (map (fun kv => (fst kv, jnorm (snd kv))) d)
  | x => x end.
(* JSON-representable without change of type: no tuple anywhere *)
Fixpoint tuple_free (v : pyval) : bool :=
  match v with
  | VList l => forallb tuple_free l
  | VTuple _ => false
  | VDict d => forallb (fun kv => tuple_free (snd kv)) d
  | _ => true end.
Fixpoint serialisable (v : pyval) : bool :=
  match v with
  | VOpaque => false
  | VList l => forallb serialisable l
  | VTuple l => forallb serialisable l
  | VDict d => forallb (fun kv => serialisable (snd kv)) d
  | _ => true end.
Definition dict_tuple_free (d : dict) : bool := forallb (fun kv => tuple_free (snd kv)) d.

(* typed equality; dicts compared as maps (Python's ==), numbers compared by value within their own type *)
Fixpoint veqb (a b : pyval) : bool :=
  match a, b with
  | VNone, VNone => true
  | VBool x, VBool y => Bool.eqb x y
  | VInt x, VInt y => Z.eqb x y
  | VFloat x, VFloat y => Qeq_bool x y
  | VNaN, VNaN => true
  | VInf x, VInf y => Bool.eqb x y
  | VStr x, VStr y => String.eqb x y
  | VList l, VList m =>
      (fix go (l m : list pyval) : bool :=
         match l, m with [], [] => true | x :: l', y :: m' => veqb x y && go l' m' | _, _ => false end) l m
  | VTuple l, VTuple m =>
      (fix go (l m : list pyval) : bool :=
         match l, m with [], [] => true | x :: l', y :: m' => veqb x y && go l' m' | _, _ => false end) l m
  | VDict l, VDict m =>
      Nat.eqb (length l) (length m) &&
      (fix go (l : dict) : bool :=
         match l with [] => true
         | (k, v) :: l' => match dget k m with Some w => veqb v w | None => false end && go l' end) l
  | _, _ => false end.
Definition dict_eqb (a b : dict) : bool := veqb (VDict a) (VDict b).

(* numeric reading of a cell (pressure column): ints and floats *)
Definition num_of (v : pyval) : option Q :=
  match v with VInt z => Some (inject_Z z) | VFloat q => Some q | VBool b => Some (if b then 1 else 0) | _ => None end.

(* ---------------------------------------------------------------- key-access lemmas *)
Lemma mem_In k l : mem k l = true <-> In k l.
Proof.
  induction l as [|x r IH]; simpl; [split; [discriminate|tauto]|].
  rewrite orb_true_iff, IH, String.eqb_eq. split; intros [H|H]; auto.
Qed.
Lemma dget_notin k d : mem k (keys d) = false -> dget k d = None.
Proof.
  induction d as [|[k' v] r IH]; simpl; auto. intros H. apply orb_false_iff in H as [H1 H2].
  rewrite H1. auto.
Qed.
Lemma ddel_notin k d : mem k (keys d) = false -> ddel k d = d.
Proof.
  induction d as [|[k' v] r IH]; simpl; auto. intros H. apply orb_false_iff in H as [H1 H2].
  rewrite H1, IH; auto.
Qed.
Lemma dget_app k a b : dget k (a ++ b) = match dget k a with Some v => Some v | None => dget k b end.
Proof. induction a as [|[k' v] r IH]; simpl; auto. destruct (String.eqb k k'); auto. Qed.
Lemma ddel_app k a b : ddel k (a ++ b) = ddel k a ++ ddel k b.
Proof. induction a as [|[k' v] r IH]; simpl; auto. destruct (String.eqb k k'); simpl; rewrite IH; auto. Qed.
Lemma dict_set_notin k v d : mem k (keys d) = false -> dict_set k v d = d ++ [(k, v)].
Proof.
  induction d as [|[k' w] r IH]; simpl; auto. intros H. apply orb_false_iff in H as [H1 H2].
  rewrite H1, IH; auto.
Qed.
Lemma keys_app a b : keys (a ++ b) = keys a ++ keys b.
Proof. apply map_app. Qed.
Lemma mem_app k a b : mem k (a ++ b) = mem k a || mem k b.
Proof. induction a; simpl; auto. rewrite IHa, orb_assoc. auto. Qed.
Lemma disjoint_mem ks d k : disjoint_from ks d = true -> mem k ks = true -> mem k (keys d) = false.
Proof.
  unfold disjoint_from. intros H Hk. rewrite forallb_forall in H.
  destruct (mem k (keys d)) eqn:E; auto. apply mem_In in E. apply H in E. rewrite Hk in E. discriminate.
Qed.
(* d.update(e) on disjoint, duplicate-free e is concatenation *)
Lemma dict_update_disjoint d e :
  nodup_keys e = true -> forallb (fun k => negb (mem k (keys d))) (keys e) = true -> dict_update d e = d ++ e.
Proof.
  revert d. induction e as [|[k v] r IH]; intros d Hn Hd; simpl in *; [rewrite app_nil_r; auto|].
  apply andb_true_iff in Hn as [Hn1 Hn2]. apply andb_true_iff in Hd as [Hd1 Hd2].
  rewrite dict_set_notin by (destruct (mem k (keys d)); auto; discriminate).
  rewrite IH; auto. { rewrite <- app_assoc. reflexivity. }
  rewrite forallb_forall in *. intros x Hx. rewrite keys_app, mem_app. simpl.
  rewrite (proj1 (negb_true_iff _) (Hd2 x Hx)). simpl. rewrite orb_false_r.
  destruct (String.eqb x k) eqn:E; auto. apply String.eqb_eq in E. subst.
  apply mem_In in Hx. rewrite Hx in Hn1. discriminate.
Qed.

(* jnorm is the identity on tuple-free values: nested induction through lists and dicts *)
Lemma jnorm_tuple_free : forall v, tuple_free v = true -> jnorm v = v.
Proof.
  fix IH 1. intros v. destruct v; simpl; auto; intros H.
  - f_equal. induction l as [|x r IHr]; simpl in *; auto. apply andb_true_iff in H as [H1 H2].
    rewrite IH by exact H1. rewrite IHr by exact H2. reflexivity.
  - discriminate.
  - f_equal. induction d as [|[k x] r IHr]; simpl in *; auto. apply andb_true_iff in H as [H1 H2].
    rewrite IH by exact H1. rewrite IHr by exact H2. reflexivity.
Qed.
Lemma jnorm_dict_tuple_free d : dict_tuple_free d = true -> map (fun kv => (fst kv, jnorm (snd kv))) d = d.
Proof.
  induction d as [|[k x] r IH]; simpl; auto. intros H. apply andb_true_iff in H as [H1 H2].
  rewrite jnorm_tuple_free by exact H1. rewrite IH by exact H2. reflexivity.
Qed.
Lemma jnorm_idem : forall v, jnorm (jnorm v) = jnorm v.
Proof.
  fix IH 1. intros v. destruct v; simpl; auto.
  - f_equal. induction l as [|x r IHr]; simpl; auto. rewrite IH, IHr. reflexivity.
  - f_equal. induction l as [|x r IHr]; simpl; auto. rewrite IH, IHr. reflexivity.
  - f_equal. induction d as [|[k x] r IHr]; simpl; auto. rewrite IH, IHr. reflexivity.
Qed.
Lemma keys_jnorm d : keys (map (fun kv => (fst kv, jnorm (snd kv))) d) = keys d.
Proof. unfold keys. rewrite map_map. reflexivity. Qed.
