(* Hand-written (H) on top of two GENERATED tables of Gen/TablesGen.v:
     to_dict_program  BaseIsotherm.to_dict translated statement by statement into a straight-line program over one dictionary
     method_assigns   for every method of the three isotherm classes the names it binds on the isotherm object
   1. an interpreter for the program; the hand-written model JsonDoc.to_dict (on which the round-trip and identity theorems are
      stated) IS the interpretation of the program read from the current source - a statement of to_dict that reads another
      attribute (e.g. a property giving the temperature in another unit) changes the program and breaks the proof;
   2. the attribute census of the model is closed: no method binds a name outside census + reserved list of its class;
   3. read-only queries (every method / property that is not a constructor, a property setter or a convert_* method) bind only
      names that to_dict DISCARDS (reserved and not the source of a pop) and never write into the metadata dictionary;
   4. to_dict does not depend on the values of the discarded attributes.
   3 + 4: a query performed before an export or an identifier read cannot change the document. *)
From Coq Require Import QArith ZArith String List Bool.
From PG Require Import Lib.Num Lib.Py Codec.PyVal Gen.TablesGen Codec.JsonDoc.
Import ListNotations.
Open Scope string_scope.
Open Scope list_scope.

(* ------------------------------------------------------------------ 1. the to_dict program *)
(* state: the dictionary; local variable -> the attribute it was popped from *)
Definition tdstate := (dict * list (string * string))%type.
(* str(obj) for the attributes that hold objects *)
Definition obj_str (i : iso) (a : string) : option pyval :=
  if String.eqb a "_adsorbate" then Some (VStr (i_ads i)) else None.
(* `x.to_dict() if x.properties else str(x)` for a local holding the Material *)
Definition obj_dict_or_str (i : iso) (src : string) : option pyval :=
  if String.eqb src "_material" then Some (mat_val i) else None.

Definition td_step (i : iso) (st : tdstate) (op : string * string * string) : option tdstate :=
  let '(o, a, b) := op in
  let '(d, loc) := st in
  if String.eqb o "vars" then Some (map (fun x => (x, attr_val i x)) (base_attrs ++ class_attrs (i_body i)), loc)
  else if String.eqb o "pop_str" then
    match dget a d, obj_str i a with Some _, Some s => Some (dict_set b s (ddel a d), loc) | _, _ => None end
  else if String.eqb o "pop" then
    match dget a d with Some v => Some (dict_set b v (ddel a d), loc) | None => None end          (* KeyError *)
  else if String.eqb o "pop_local" then
    match dget a d with Some _ => Some (ddel a d, (b, a) :: loc) | None => None end
  else if String.eqb o "dict_or_str_of_local" then
    match Lib.Py.assoc a loc with
    | Some src => match obj_dict_or_str i src with Some v => Some (dict_set b v d, loc) | None => None end
    | None => None end
  else if String.eqb o "remove_reserved" then Some (remove_all (class_reserved (i_body i)) d, loc)
  else if String.eqb o "merge_pop" then
    match dget a d with Some (VDict p) => Some (dict_update (ddel a d) p, loc) | _ => None end
  else None.   (* 'self_attr' (a value read through the object: possibly a property computing something else) is not what the
                  model does; any other opcode is unknown *)
Fixpoint td_run (i : iso) (st : tdstate) (ops : list (string * string * string)) : option dict :=
  match ops with
  | [] => None                                                           (* fell off the end: returns None, not a dict *)
  | op :: r => if String.eqb (fst (fst op)) "return" then Some (fst st)
               else match td_step i st op with Some st' => td_run i st' r | None => None end
  end.

Theorem to_dict_is_source_program i :
  length (i_units i) = length unit_params -> td_run i ([], []) to_dict_program = Some (to_dict i).
Proof.
  intros L. destruct i as [us mat mp ads temp meta b]. cbn [i_units] in L.
  destruct us as [|u1 [|u2 [|u3 [|u4 [|u5 [|u6 [|u7 [|u8 r]]]]]]]]; try discriminate L.
  destruct b; reflexivity.
Qed.

(* ------------------------------------------------------------------ 2. / 3. the census of bound names *)
Definition class_census (c : string) : list string :=
  base_attrs ++ (if String.eqb c "PointIsotherm" then point_attrs else if String.eqb c "ModelIsotherm" then model_attrs else []).
Definition class_reserved_of (c : string) : list string :=
  if String.eqb c "PointIsotherm" then point_reserved else if String.eqb c "ModelIsotherm" then model_reserved else base_reserved.
(* attributes whose VALUE reaches the dictionary although the name is reserved: the sources of the pops of to_dict *)
Definition popped_sources : list string :=
  flat_map (fun op => let '(o, a, _) := op in
                      if String.eqb o "pop" || String.eqb o "pop_str" || String.eqb o "pop_local" || String.eqb o "merge_pop" then [a] else [])
           to_dict_program.
Definition discarded (reserved : list string) : list string := filter (fun a => negb (mem a popped_sources)) reserved.
(* a read-only query: not the constructor, not a property setter, not one of the documented in-place conversions *)
Definition is_query (m k : string) : bool :=
  (String.eqb k "method" || String.eqb k "property") && negb (String.prefix "convert" m).

Definition census_closed_b : bool :=
  forallb (fun e => let '(c, _, _, l) := e in forallb (fun a => mem a (class_census c ++ class_reserved_of c)) l) method_assigns.
Definition queries_discarded_b : bool :=
  forallb (fun e => let '(c, m, k, l) := e in
                    negb (is_query m k) || forallb (fun a => mem a (discarded (class_reserved_of c))) l) method_assigns.

Theorem census_closed c m k l a :
  In (c, m, k, l) method_assigns -> In a l -> In a (class_census c ++ class_reserved_of c).
Proof.
  intros H Ha. assert (B : census_closed_b = true) by (vm_compute; reflexivity).
  unfold census_closed_b in B. rewrite forallb_forall in B. specialize (B _ H). cbn beta iota in B.
  rewrite forallb_forall in B. apply mem_In. apply B. exact Ha.
Qed.

Theorem queries_bind_only_discarded c m k l a :
  In (c, m, k, l) method_assigns -> is_query m k = true -> In a l ->
  In a (class_reserved_of c) /\ ~ In a popped_sources /\ a <> "properties[]".
Proof.
  intros H Q Ha. assert (B : queries_discarded_b = true) by (vm_compute; reflexivity).
  unfold queries_discarded_b in B. rewrite forallb_forall in B. specialize (B _ H). cbn beta iota in B.
  rewrite Q in B. cbn [negb orb] in B. rewrite forallb_forall in B. specialize (B _ Ha).
  unfold discarded in B. apply mem_In in B. apply filter_In in B. destruct B as [B1 B2].
  split; [exact B1|]. split.
  - intros I. apply mem_In in I. rewrite I in B2. discriminate.
  - intros ->. revert B1. unfold class_reserved_of.
    destruct (String.eqb c "PointIsotherm"); [|destruct (String.eqb c "ModelIsotherm")]; intros B1; apply mem_In in B1; vm_compute in B1; discriminate.
Qed.

(* ------------------------------------------------------------------ 4. to_dict over an arbitrary attribute environment *)
(* vars(self) as a function name -> value; to_dict i is the instance at the model's own environment attr_val i *)
Definition to_dict_env (i : iso) (env : string -> pyval) : dict :=
  let v := map (fun a => (a, env a)) (base_attrs ++ class_attrs (i_body i)) in
  let v := pop_to "_adsorbate" "adsorbate" (fun _ => VStr (i_ads i)) v in
  let v := pop_to "_material" "material" (fun _ => mat_val i) v in
  let v := pop_to "_temperature" "temperature" (fun x => x) v in
  let v := remove_all (class_reserved (i_body i)) v in
  match dget "properties" v with
  | Some (VDict p) => dict_update (ddel "properties" v) p
  | _ => v end.
Lemma to_dict_env_model i : to_dict_env i (attr_val i) = to_dict i.
Proof. reflexivity. Qed.

(* two environments that agree outside the discarded attributes give the same dictionary: whatever a query stores in the
   interpolator caches (or any other discarded attribute) cannot reach to_dict, hence neither the exports nor the identifier *)
Theorem to_dict_ignores_discarded i env env' :
  (forall a, mem a (discarded (class_reserved (i_body i))) = false -> env a = env' a) ->
  to_dict_env i env = to_dict_env i env'.
Proof.
  intros H. destruct i as [us mat mp ads temp meta b].
  destruct b; cbv [to_dict_env i_body i_ads class_attrs class_reserved base_attrs point_attrs model_attrs base_reserved point_reserved
                   model_reserved app map pop_to dget ddel dict_set remove_all String.eqb Ascii.eqb Bool.eqb fst snd];
    cbn [i_body] in H; rewrite !H by reflexivity; reflexivity.
Qed.

(* the discarded attributes of a point isotherm include the two interpolator caches; none of a model / base isotherm is a cache *)
Example caches_are_discarded :
  mem "l_interpolator" (discarded point_reserved) = true /\ mem "p_interpolator" (discarded point_reserved) = true /\
  mem "_temperature" (discarded point_reserved) = false /\ mem "properties" (discarded point_reserved) = false.
Proof. vm_compute. auto. Qed.
(* the query theorem is not vacuous: the table lists read-only queries that bind something *)
Example queries_exist :
  existsb (fun e => let '(_, m, k, l) := e in is_query m k && match l with [] => false | _ => true end) method_assigns = true.
Proof. vm_compute. reflexivity. Qed.

(* ------------------------------------------------------------------ 5. the objects an isotherm HOLDS: Material and Adsorbate *)
(* to_dict() of an isotherm embeds material.to_dict() (name + property dictionary) and str(adsorbate) (name). Generated table
   holder_methods: for EVERY method of the two classes the names it writes on the object and the methods / properties of the class
   it reaches through self. The closure of the writes over the calls is computed here; a getter (property or plain method - not the
   constructor, not a property setter) must not write a name the exported content is read from, neither itself nor through a helper:
   reading a material / adsorbate property (directly, or by an accessor converting to another material basis) cannot change to_dict,
   hence neither the documents nor the identifier. *)
Definition hentry := (string * string * string * list string * list string)%type.
Definition hkey (m k : string) : string := if String.eqb k "setter" then "set:" ++ m else m.
Definition hlookup (c x : string) (tab : list (string * string * list string)) : list string :=
  flat_map (fun e => let '(c', key, w) := e in if String.eqb c c' && String.eqb x key then w else []) tab.
Definition hstep (tab : list (string * string * list string)) : list (string * string * list string) :=
  map (fun e : hentry => let '(c, m, k, w, calls) := e in
                         (c, hkey m k, nodup string_dec (w ++ flat_map (fun x => hlookup c x tab) calls))) holder_methods.
Definition htab0 : list (string * string * list string) :=
  map (fun e : hentry => let '(c, m, k, w, _) := e in (c, hkey m k, nodup string_dec w)) holder_methods.
Fixpoint hiter (n : nat) (tab : list (string * string * list string)) :=
  match n with O => tab | S n => hiter n (hstep tab) end.
(* every name a method may write on the object, directly or through the methods of the class it reaches *)
Definition holder_writes : list (string * string * list string) := hiter (length holder_methods) htab0.
(* the names the exported content of a held object is read from *)
Definition content_names : list string := ["name"; "alias"; "properties"; "properties[]"].
Definition is_getter (k : string) : bool := String.eqb k "property" || String.eqb k "method".
Definition holder_getters_pure_b : bool :=
  forallb (fun e : hentry => let '(c, m, k, _, _) := e in
                             negb (is_getter k) || forallb (fun a => negb (mem a content_names)) (hlookup c (hkey m k) holder_writes))
          holder_methods.

Theorem holder_getters_pure c m k w calls a :
  In (c, m, k, w, calls) holder_methods -> is_getter k = true -> In a (hlookup c (hkey m k) holder_writes) -> ~ In a content_names.
Proof.
  intros H G Ha. assert (B : holder_getters_pure_b = true) by (vm_compute; reflexivity).
  unfold holder_getters_pure_b in B. rewrite forallb_forall in B. specialize (B _ H). cbn beta iota in B.
  rewrite G in B. cbn [negb orb] in B. rewrite forallb_forall in B. specialize (B _ Ha).
  intros I. apply mem_In in I. rewrite I in B. discriminate.
Qed.

(* the table of writes is closed: one more propagation step over the calls adds nothing, and it contains the direct writes *)
Example holder_writes_closed : hstep holder_writes = holder_writes.
Proof. vm_compute. reflexivity. Qed.
Example holder_writes_direct :
  forallb (fun e : hentry => let '(c, m, k, w, _) := e in forallb (fun a => mem a (hlookup c (hkey m k) holder_writes)) w) holder_methods = true.
Proof. vm_compute. reflexivity. Qed.
(* not vacuous: the table sees the writes that exist - the density setter writes the property dictionary, the CoolProp state getter
   caches its state on the adsorbate, and a method reaching that getter inherits the write *)
Example holder_writes_seen :
  hlookup "Material" "set:density" holder_writes = ["properties[]"] /\
  mem "_state" (hlookup "Adsorbate" "backend" holder_writes) = true /\
  mem "_state" (hlookup "Adsorbate" "molar_mass" holder_writes) = true /\
  existsb (fun e : hentry => let '(_, _, k, _, _) := e in is_getter k) holder_methods = true.
Proof. vm_compute. auto. Qed.
