(* C06 proofs: the JSON round trip on the model of Codec/JsonDoc.v, for arbitrary metadata lists and row lists. *)
From Coq Require Import QArith ZArith String List Bool Lia.
From PG Require Import Lib.Num Lib.Py Codec.PyVal Gen.TablesGen Codec.JsonDoc.
Import ListNotations.
Open Scope string_scope.
Open Scope list_scope.

(* every name that the export / import path reads by key: a metadata key equal to one of them is captured *)
Definition reserved_all : list string :=
  base_ctor_args ++ map fst shorthands ++ map fst unit_params ++ point_ctor_args ++ model_ctor_args
  ++ ["file_version"; "isotherm_data"; "isotherm_model"] ++ base_attrs ++ point_attrs ++ model_attrs.
Definition subset (ks R : list string) : bool := forallb (fun k => mem k R) ks.

Lemma disjoint_subset R d ks :
  disjoint_from R d = true -> subset ks R = true -> forallb (fun k => negb (mem k ks)) (keys d) = true.
Proof.
  unfold disjoint_from, subset. rewrite !forallb_forall. intros H S k Hk.
  specialize (H k Hk). destruct (mem k ks) eqn:E; auto. apply mem_In in E. apply S in E.
  rewrite E in H. discriminate.
Qed.

Definition clear_caches (i : iso) : iso :=
  match i_body i with
  | BPoint pk lk rows _ _ => mkIso (i_units i) (i_mat i) (i_mprops i) (i_ads i) (i_temp i) (i_meta i) (BPoint pk lk rows VNone VNone)
  | _ => i end.
Definition float_val (v : pyval) : bool := match v with VFloat _ | VNaN | VInf _ => true | _ => false end.
Definition pressures (pk : string) (rows : list row) : list (option Q) :=
  map (fun r => match dget pk (r_cells r) with Some v => num_of v | None => None end) rows.

Section RT.
Variable ads_canon : string -> string.
Variable labels_ok : dict -> bool.

Definition wf_body (b : body) : Prop :=
  match b with
  | BBase => True
  | BPoint pk lk rows _ _ =>
      exists r0 rest, rows = r0 :: rest /\
      forallb (same_keys (keys (r_cells r0))) rows = true /\
      mem pk (keys (r_cells r0)) = true /\ mem lk (keys (r_cells r0)) = true /\
      forallb (fun r => negb (mem "branch" (keys (r_cells r)))) rows = true /\
      forallb (fun r => forallb (fun kv => serialisable (snd kv)) (r_cells r)) rows = true /\
      (existsb r_des rows = true \/ exists ps, all_some (pressures pk rows) = Some ps /\ map r_des rows = guess ps)
  | BModel br m =>
      Lib.Py.assoc (md_name m) model_params = Some (keys (md_params m)) /\ nodup_keys (md_params m) = true /\
      serialisable br = true /\ serialisable (md_rmse m) = true /\ forallb (fun kv => serialisable (snd kv)) (md_params m) = true /\
      serialisable (md_prange m) = true /\ serialisable (md_lrange m) = true
  end.
Record wf (i : iso) : Prop := mkWf {
  wf_len : length (i_units i) = length unit_params;
  wf_units_ser : forallb serialisable (i_units i) = true;
  wf_mode : exists s, dget "pressure_mode" (labels i) = Some (VStr s) /\
                      (String.prefix "relative" s = true -> dget "pressure_unit" (labels i) = Some VNone);
  wf_labels : labels_ok (labels i) = true;
  wf_ads : ads_canon (i_ads i) = i_ads i;
  wf_temp : float_val (i_temp i) = true;
  wf_meta : disjoint_from reserved_all (i_meta i) = true;
  wf_meta_nodup : nodup_keys (i_meta i) = true;
  wf_meta_ser : forallb (fun kv => serialisable (snd kv)) (i_meta i) = true;
  wf_mp_name : mem "name" (keys (i_mprops i)) = false;
  wf_mp_nodup : nodup_keys (i_mprops i) = true;
  wf_mp_ser : forallb (fun kv => serialisable (snd kv)) (i_mprops i) = true;
  wf_b : wf_body (i_body i) }.

Definition fixed (i : iso) : dict :=
  labels i ++ (match i_body i with BModel br _ => [("branch", br)] | _ => [] end)
  ++ [("adsorbate", VStr (i_ads i)); ("material", mat_val i); ("temperature", i_temp i)].
Definition tail (i : iso) : dict :=
  ("file_version", VStr json_version) ::
  match i_body i with
  | BBase => []
  | BPoint _ _ rows _ _ => [("isotherm_data", VList (map row_doc rows))]
  | BModel _ m => [("isotherm_model", model_doc m)] end.

Lemma meta_free i k : wf i -> mem k reserved_all = true -> mem k (keys (i_meta i)) = false.
Proof. intros W Hk. eapply disjoint_mem; [apply (wf_meta i W)|exact Hk]. Qed.

Lemma units7 i : wf i -> exists u1 u2 u3 u4 u5 u6 u7, i_units i = [u1; u2; u3; u4; u5; u6; u7].
Proof.
  intros W. pose proof (wf_len i W) as L. destruct (i_units i) as [|u1 [|u2 [|u3 [|u4 [|u5 [|u6 [|u7 [|u8 r]]]]]]]]; try discriminate L.
  repeat eexists.
Qed.

(* shape of the exported document: fixed fields, then the metadata untouched, then version and data *)
Lemma export_doc_shape i : wf i -> export_doc i = fixed i ++ i_meta i ++ tail i.
Proof.
  intros W. destruct (units7 i W) as (u1 & u2 & u3 & u4 & u5 & u6 & u7 & Hu).
  pose proof (wf_meta i W) as Hd. pose proof (wf_meta_nodup i W) as Hn.
  destruct i as [us mat mp ads temp meta b]. simpl in *. subst us.
  assert (TD : to_dict (mkIso [u1; u2; u3; u4; u5; u6; u7] mat mp ads temp meta b)
               = fixed (mkIso [u1; u2; u3; u4; u5; u6; u7] mat mp ads temp meta b) ++ meta).
  { destruct b; cbv -[dict_update mat_val']; (rewrite dict_update_disjoint; [reflexivity|exact Hn|]);
      apply (disjoint_subset reserved_all); auto. }
  unfold export_doc. rewrite TD.
  assert (FV : forall X, mem "file_version" (keys X) = false ->
               dict_set "file_version" (VStr json_version) (X ++ meta) = X ++ meta ++ [("file_version", VStr json_version)]).
  { intros X HX. rewrite dict_set_notin, <- app_assoc; auto. rewrite keys_app, mem_app, HX. simpl.
    eapply disjoint_mem; eauto. }
  rewrite FV by (destruct b; reflexivity).
  destruct b; simpl i_body; unfold tail; simpl i_body; auto.
  - rewrite !app_assoc. rewrite dict_set_notin; [rewrite <- !app_assoc; reflexivity|].
    rewrite !keys_app, !mem_app. assert (E : mem "isotherm_data" (keys meta) = false) by (eapply disjoint_mem; eauto). rewrite E. reflexivity.
  - rewrite !app_assoc. rewrite dict_set_notin; [rewrite <- !app_assoc; reflexivity|].
    rewrite !keys_app, !mem_app. assert (E : mem "isotherm_model" (keys meta) = false) by (eapply disjoint_mem; eauto). rewrite E. reflexivity.
Qed.

Lemma getd_meta X meta k dflt : mem k (keys meta) = false -> getd k (X ++ meta) dflt = getd k X dflt.
Proof. intros H. unfold getd. rewrite dget_app, (dget_notin k meta H). destruct (dget k X); auto. Qed.
Lemma ddel_meta X meta k : mem k (keys meta) = false -> ddel k (X ++ meta) = ddel k X ++ meta.
Proof. intros H. rewrite ddel_app, (ddel_notin k meta H). auto. Qed.
Lemma remove_all_meta ks : forall X meta, forallb (fun k => negb (mem k (keys meta))) ks = true ->
  remove_all ks (X ++ meta) = remove_all ks X ++ meta.
Proof.
  induction ks as [|k r IH]; simpl; auto. intros X meta H. apply andb_true_iff in H as [H1 H2].
  rewrite ddel_meta by (destruct (mem k (keys meta)); auto; discriminate). apply IH; auto.
Qed.
Lemma subset_free meta ks : disjoint_from reserved_all meta = true -> subset ks reserved_all = true ->
  forallb (fun k => negb (mem k (keys meta))) ks = true.
Proof.
  intros D S. unfold subset in S. rewrite forallb_forall in *. intros k Hk. rewrite (disjoint_mem reserved_all meta k D (S k Hk)). auto.
Qed.

Ltac meta_step Hd :=
  first [ rewrite getd_meta by (eapply disjoint_mem; [exact Hd|reflexivity])
        | rewrite ddel_meta by (eapply disjoint_mem; [exact Hd|reflexivity])
        | rewrite remove_all_meta by (apply subset_free; [exact Hd|reflexivity]) ].

Ltac noapp X := lazymatch X with context [@app] => fail | _ => idtac end.
Ltac conc_step :=
  match goal with
  | |- context [getd ?k ?X ?d] => noapp X;
      let v := eval cbv in (getd k X d) in progress change (getd k X d) with v
  | |- context [ddel ?k ?X] => noapp X;
      let v := eval cbv in (ddel k X) in progress change (ddel k X) with v
  | |- context [remove_all ?ks ?X] => noapp X;
      let v := eval cbv in (remove_all ks X) in progress change (remove_all ks X) with v
  | |- context [dget ?k ?X] => noapp X;
      let v := eval cbv in (dget k X) in progress change (dget k X) with v
  end.
Ltac red_step := progress cbn [fold_left fst snd truthy is_none orb negb bind to_float map Bool.eqb].

Lemma base_ctor_fixed u1 u2 u3 u4 u5 u6 u7 mat mp ads temp meta mv s :
  disjoint_from reserved_all meta = true ->
  match mv with VStr s => Ok (s, []) | VDict md => match dget "name" md with Some (VStr s) => Ok (s, ddel "name" md) | _ => Err FellOffEnd end
              | _ => Err FellOffEnd end = Ok (mat, mp) ->
  is_none mv = false ->
  u1 = VStr s -> (String.prefix "relative" s = true -> u2 = VNone) ->
  labels_ok [("pressure_mode", u1); ("pressure_unit", u2); ("material_basis", u3); ("material_unit", u4); ("loading_basis", u5);
      ("loading_unit", u6); ("temperature_unit", u7)] = true ->
  ads_canon ads = ads -> float_val temp = true ->
  base_ctor ads_canon labels_ok
    ([("pressure_mode", u1); ("pressure_unit", u2); ("material_basis", u3); ("material_unit", u4); ("loading_basis", u5);
      ("loading_unit", u6); ("temperature_unit", u7); ("adsorbate", VStr ads); ("material", mv); ("temperature", temp)] ++ meta) BBase
  = Ok (mkIso [u1; u2; u3; u4; u5; u6; u7] mat mp ads temp meta BBase).
Proof.
  intros Hd Hmv Hnone Hu1 Hrel Hlab Hads Htemp. unfold base_ctor.
  unfold shorthands, apply_short, unit_params.
  repeat (first [meta_step Hd | conc_step | red_step]).
  rewrite Hnone, Hmv, Hads. subst u1.
  assert (Ht : is_none temp = false) by (destruct temp; auto; discriminate). rewrite Ht.
  assert (Hf : to_float temp = Ok temp) by (destruct temp; auto; discriminate). rewrite Hf.
  cbn [orb bind fst snd app].
  destruct (prefix "relative" s) eqn:Ep.
  - rewrite (Hrel eq_refl) in *. cbn [bind dict_set String.eqb Ascii.eqb Bool.eqb]. cbv [dict_set String.eqb Ascii.eqb Bool.eqb].
    rewrite Hlab. reflexivity.
  - cbn [bind]. rewrite Hlab. reflexivity.
Qed.

Lemma getd_mid X meta T k dflt : mem k (keys meta) = false -> getd k (X ++ meta ++ T) dflt = getd k (X ++ T) dflt.
Proof. intros H. unfold getd. rewrite !dget_app, (dget_notin k meta H). auto. Qed.
Lemma ddel_mid X meta T k : mem k (keys meta) = false -> ddel k (X ++ meta ++ T) = ddel k X ++ meta ++ ddel k T.
Proof. intros H. rewrite !ddel_app, (ddel_notin k meta H). auto. Qed.
Ltac mid_step Hd :=
  first [ rewrite getd_mid by (eapply disjoint_mem; [exact Hd|reflexivity])
        | rewrite ddel_mid by (eapply disjoint_mem; [exact Hd|reflexivity]) ].
Ltac app_conc meta :=
  match goal with
  | |- context [?X ++ ?T] => noapp X; noapp T; lazymatch T with meta => fail | _ => idtac end;
      lazymatch X with meta => fail | _ => idtac end;
      let v := eval cbn [app] in (X ++ T) in progress change (X ++ T) with v
  end.

Lemma mat_parse mat mp : mem "name" (keys mp) = false -> nodup_keys mp = true ->
  let mv := mat_val' mat mp in
  match mv with VStr s => Ok (s, []) | VDict md => match dget "name" md with Some (VStr s) => Ok (s, ddel "name" md) | _ => Err FellOffEnd end
              | _ => Err FellOffEnd end = Ok (mat, mp) /\ is_none mv = false.
Proof.
  intros Hn Hd. unfold mat_val'. destruct mp as [|kv r]; [split; reflexivity|].
  set (p := kv :: r) in *. cbv zeta. rewrite dict_update_disjoint; auto.
  - change ([("name", VStr mat)] ++ p) with (("name", VStr mat) :: p). cbn [dget ddel String.eqb Ascii.eqb Bool.eqb].
    change (String.eqb "name" "name") with true. cbn iota. rewrite ddel_notin by exact Hn. split; reflexivity.
  - rewrite forallb_forall. intros k Hk. cbn [keys map fst mem]. rewrite orb_false_r.
    destruct (String.eqb k "name") eqn:E; auto. apply String.eqb_eq in E. subst k. apply mem_In in Hk. rewrite Hk in Hn. discriminate.
Qed.

Lemma row_rt r : mem "branch" (keys (r_cells r)) = false -> row_of (row_doc r) = Ok r.
Proof.
  intros H. destruct r as [c d]. simpl in H. unfold row_doc, row_of. cbn [r_des r_cells]. destruct d.
  - rewrite dict_set_notin by exact H. rewrite dget_app, (dget_notin _ _ H). cbn [dget String.eqb Ascii.eqb Bool.eqb].
    change (String.eqb "branch" "branch") with true. cbn iota. change (String.eqb "des" "des") with true. cbn iota.
    rewrite ddel_app, (ddel_notin _ _ H). cbn [ddel]. change (String.eqb "branch" "branch") with true. cbn iota. rewrite app_nil_r. reflexivity.
  - rewrite ddel_notin by exact H. rewrite (dget_notin _ _ H). reflexivity.
Qed.
Lemma rows_rt rows : forallb (fun r => negb (mem "branch" (keys (r_cells r)))) rows = true -> mapM row_of (map row_doc rows) = Ok rows.
Proof.
  induction rows as [|r rs IH]; cbn [map mapM forallb]; auto. intros H. apply andb_true_iff in H as [H1 H2].
  rewrite row_rt by (destruct (mem "branch" (keys (r_cells r))); auto; discriminate). cbn [bind]. rewrite IH by exact H2. reflexivity.
Qed.
Lemma has_branch_rt rows : forallb (fun r => negb (mem "branch" (keys (r_cells r)))) rows = true ->
  existsb has_branch_key (map row_doc rows) = existsb r_des rows.
Proof.
  induction rows as [|r rs IH]; cbn [map existsb forallb]; auto. intros H. apply andb_true_iff in H as [H1 H2]. rewrite IH by exact H2. f_equal.
  assert (Hb : mem "branch" (keys (r_cells r)) = false) by (destruct (mem "branch" (keys (r_cells r))); auto; discriminate).
  destruct r as [c d]. simpl in *. unfold has_branch_key, row_doc. cbn [r_des r_cells]. destruct d.
  - rewrite dict_set_notin by exact Hb. rewrite dget_app, (dget_notin _ _ Hb). cbn [dget]. change (String.eqb "branch" "branch") with true. reflexivity.
  - rewrite ddel_notin by exact Hb. rewrite (dget_notin _ _ Hb). reflexivity.
Qed.
Lemma remark_rt rows : map (fun rm : row * bool => mkRow (r_cells (fst rm)) (snd rm)) (combine rows (map r_des rows)) = rows.
Proof. induction rows as [|[c d] rs IH]; simpl; auto. rewrite IH. reflexivity. Qed.
Lemma mapM_ext {A B} (f g : A -> res B) l : (forall x, In x l -> f x = g x) -> mapM f l = mapM g l.
Proof.
  induction l as [|x r IH]; simpl; auto. intros H. rewrite (H x (or_introl eq_refl)). destruct (g x); simpl; auto.
  rewrite IH; auto.
Qed.
Lemma params_rt ps : nodup_keys ps = true ->
  mapM (fun p => match dget p ps with Some x => Ok (p, x) | None => Err KeyError end) (keys ps) = Ok ps.
Proof.
  induction ps as [|[k v] r IH]; simpl; auto. intros H. apply andb_true_iff in H as [H1 H2].
  rewrite String.eqb_refl. simpl.
  rewrite (mapM_ext _ (fun p => match dget p r with Some x => Ok (p, x) | None => Err KeyError end)).
  - rewrite IH by exact H2. reflexivity.
  - intros x Hx. destruct (String.eqb x k) eqn:E; auto. apply String.eqb_eq in E. subst x.
    apply mem_In in Hx. rewrite Hx in H1. discriminate.
Qed.

Definition body_keys (i : iso) (pk lk : string) : Prop :=
  match i_body i with BPoint pk' lk' _ _ _ => pk = pk' /\ lk = lk' | _ => True end.

Theorem import_export_doc i pk lk : wf i -> body_keys i pk lk ->
  import ads_canon labels_ok pk lk (VDict (export_doc i)) = Ok (clear_caches i).
Proof.
  intros W K. rewrite (export_doc_shape i W).
  destruct (units7 i W) as (u1 & u2 & u3 & u4 & u5 & u6 & u7 & Hu).
  destruct W as [_ _ (s & Hs1 & Hs2) Hlab Hads Htemp Hd Hnd _ Hmn Hmd _ Hb].
  destruct i as [us mat mp ads temp meta b]. cbn [i_units i_mat i_mprops i_ads i_temp i_meta i_body] in *. subst us.
  unfold body_keys in K. cbn [i_body] in K.
  destruct (mat_parse mat mp Hmn Hmd) as [Hmv Hnone]. cbv zeta in Hmv, Hnone.
  remember (mat_val' mat mp) as mv eqn:Emv in *.
  assert (Hu1 : u1 = VStr s) by (cbv in Hs1; congruence).
  assert (Hrel : prefix "relative" s = true -> u2 = VNone) by (intros E; specialize (Hs2 E); cbv in Hs2; congruence).
  pose proof (base_ctor_fixed u1 u2 u3 u4 u5 u6 u7 mat mp ads temp meta _ s Hd Hmv Hnone Hu1 Hrel Hlab Hads Htemp) as BC.
  destruct b as [|pk' lk' rows cl cp|br m].
  - (* BaseIsotherm *)
    unfold import, fixed, tail, labels, unit_params, clear_caches. unfold mat_val; cbn [i_units i_body map fst combine i_mprops i_mat i_ads i_temp]. rewrite <- Emv.
    repeat (first [mid_step Hd | meta_step Hd | app_conc meta | conc_step | rewrite app_nil_r | red_step]).
    exact BC.
  - (* PointIsotherm *)
    destruct K as [-> ->]. destruct Hb as (r0 & rest & -> & Hsame & Hpk & Hlk & Hnb & _ & Hbr).
    unfold import, fixed, tail, labels, unit_params, clear_caches. unfold mat_val; cbn [i_units i_body fst combine i_mprops i_mat i_ads i_temp]. rewrite <- Emv.
    remember (VList (map row_doc (r0 :: rest))) as dv eqn:Edv.
    cbn [map fst combine].
    repeat (first [mid_step Hd | meta_step Hd | app_conc meta | conc_step | rewrite app_nil_r | red_step]).
    rewrite Edv. cbn [truthy map]. change (row_doc r0 :: map row_doc rest) with (map row_doc (r0 :: rest)).
    unfold import_point. rewrite rows_rt by exact Hnb. cbn [bind]. rewrite Hsame. cbn [negb].
    repeat (first [meta_step Hd | conc_step]).
    rewrite BC. cbn [bind]. rewrite Hpk, Hlk. cbn [andb negb].
    rewrite has_branch_rt by exact Hnb.
    destruct Hbr as [Hdes | (ps & Hps & Hg)].
    + rewrite Hdes. reflexivity.
    + destruct (existsb r_des (r0 :: rest)); [reflexivity|].
      cbn [i_units i_mat i_mprops i_ads i_temp i_meta]. unfold pressures in Hps. rewrite Hps. rewrite <- Hg, remark_rt. reflexivity.
  - (* ModelIsotherm *)
    destruct m as [mn mr mps mpr mlr]. destruct Hb as (Hnames & Hpn & _). cbn [md_name md_params] in *.
    unfold import, fixed, tail, labels, unit_params, clear_caches. unfold mat_val; cbn [i_units i_body map fst combine i_mprops i_mat i_ads i_temp]. rewrite <- Emv.
    remember (model_doc (mkModel mn mr mps mpr mlr)) as dv eqn:Edv.
    repeat (first [mid_step Hd | meta_step Hd | app_conc meta | conc_step | rewrite app_nil_r | red_step]).
    rewrite Edv. unfold import_model, model_of, model_doc. cbn [truthy].
    repeat (first [meta_step Hd | conc_step | red_step]).
    rewrite Hnames. rewrite params_rt by exact Hpn. cbn [bind].
    repeat (first [meta_step Hd | conc_step | red_step]).
    rewrite BC. cbn [bind i_units i_mat i_mprops i_ads i_temp i_meta]. reflexivity.
Qed.

(* the identifier-relevant document does not see the interpolator caches *)
Lemma export_doc_ignores_caches i : length (i_units i) = length unit_params -> export_doc (clear_caches i) = export_doc i.
Proof.
  intros L. destruct i as [us mat mp ads temp meta b]. cbn [i_units] in L.
  destruct us as [|u1 [|u2 [|u3 [|u4 [|u5 [|u6 [|u7 [|u8 r]]]]]]]]; try discriminate L.
  destruct b; reflexivity.
Qed.

Lemma row_doc_ser r : forallb (fun kv => serialisable (snd kv)) (r_cells r) = true -> serialisable (row_doc r) = true.
Proof.
  destruct r as [c d]. unfold row_doc. cbn [r_cells r_des serialisable]. intros H. destruct d.
  - induction c as [|[k v] c IH]; cbn [dict_set forallb snd serialisable]; auto. cbn [forallb snd] in H. apply andb_true_iff in H as [H1 H2].
    destruct (String.eqb "branch" k); cbn [forallb snd serialisable]; rewrite ?H2, ?IH; auto. rewrite H1. auto.
  - induction c as [|[k v] c IH]; cbn [ddel forallb]; auto. cbn [forallb snd] in H. apply andb_true_iff in H as [H1 H2].
    destruct (String.eqb "branch" k); cbn [forallb snd]; rewrite ?IH; auto. rewrite H1. auto.
Qed.

Theorem export_ok i : wf i -> export i = Ok (VDict (export_doc i)).
Proof.
  intros W. unfold export. rewrite (export_doc_shape i W). cbn [serialisable]. rewrite !forallb_app.
  destruct (units7 i W) as (u1 & u2 & u3 & u4 & u5 & u6 & u7 & Hu).
  destruct W as [_ Hus _ _ _ Htemp _ _ Hms Hmn Hmd Hmps Hb].
  destruct i as [us mat mp ads temp meta b]. cbn [i_units i_mat i_mprops i_ads i_temp i_meta i_body] in *. subst us.
  rewrite Hms. cbn [forallb] in Hus. repeat (apply andb_true_iff in Hus as [?H Hus]).
  assert (Hmat : serialisable (mat_val' mat mp) = true).
  { unfold mat_val'. destruct mp as [|kv r]; auto. set (p := kv :: r) in *. rewrite dict_update_disjoint; auto.
    rewrite forallb_forall. intros k Hk. cbn [keys map fst mem]. rewrite orb_false_r.
    destruct (String.eqb k "name") eqn:E; auto. apply String.eqb_eq in E. subst k. apply mem_In in Hk. rewrite Hk in Hmn. discriminate. }
  assert (Ht : serialisable temp = true) by (destruct temp; auto; discriminate).
  destruct b as [|pk lk rows cl cp|br m]; unfold fixed, tail, labels, unit_params, mat_val;
    cbn [i_units i_body i_mat i_mprops i_ads i_temp map fst combine app forallb snd serialisable];
    rewrite ?H, ?H0, ?H1, ?H2, ?H3, ?H4, ?H5, ?Hmat, ?Ht; cbn [andb]; auto.
  - destruct Hb as (r0 & rest & -> & _ & _ & _ & _ & Hser & _).
    assert (R : forallb serialisable (map row_doc (r0 :: rest)) = true).
    { rewrite forallb_forall in *. intros x Hx. apply in_map_iff in Hx as (r & <- & Hr). apply row_doc_ser. apply Hser. exact Hr. }
    rewrite R. reflexivity.
  - destruct m as [mn mr mps mpr mlr]. destruct Hb as (_ & _ & Hbr & Hr & Hp & Hpr & Hlr). cbn [md_rmse md_params md_prange md_lrange model_doc serialisable forallb snd] in *.
    rewrite Hbr, Hr, Hp, Hpr, Hlr. reflexivity.
Qed.

(* C06 on the model: export, then import, gives back the same isotherm (caches reset), and exporting that again gives the same document *)
Theorem roundtrip i pk lk : wf i -> body_keys i pk lk ->
  exists doc, export i = Ok doc /\
              import ads_canon labels_ok pk lk doc = Ok (clear_caches i) /\
              export_doc (clear_caches i) = export_doc i.
Proof.
  intros W K. exists (VDict (export_doc i)). split; [apply export_ok; auto|]. split; [apply import_export_doc; auto|].
  apply export_doc_ignores_caches. apply (wf_len i W).
Qed.
End RT.

(* ------------------------------------------------------------------ with the json library as an oracle *)
Theorem json_roundtrip_oracle (ads_canon : string -> string) (labels_ok : dict -> bool)
        (dumps : pyval -> string) (loads : string -> option pyval) :
  (forall v, serialisable v = true -> loads (dumps v) = Some (jnorm v)) ->
  forall i pk lk, wf ads_canon labels_ok i -> body_keys i pk lk -> tuple_free (VDict (export_doc i)) = true ->
  exists doc doc', export i = Ok doc /\ loads (dumps doc) = Some doc' /\
    import ads_canon labels_ok pk lk doc' = Ok (clear_caches i) /\
    export (clear_caches i) = Ok doc /\ loads (dumps doc) = Some doc.
Proof.
  intros HJ i pk lk W K TF. pose proof (export_ok ads_canon labels_ok i W) as E.
  exists (VDict (export_doc i)), (VDict (export_doc i)).
  assert (S : serialisable (VDict (export_doc i)) = true).
  { unfold export in E. destruct (serialisable (VDict (export_doc i))); auto. discriminate. }
  rewrite (HJ _ S), (jnorm_tuple_free _ TF).
  repeat split; auto.
  - apply import_export_doc; auto.
  - unfold export. rewrite (export_doc_ignores_caches i (wf_len _ _ i W)). exact E.
Qed.

Lemma export_shape_ok ads_canon labels_ok i : wf ads_canon labels_ok i -> export i = Ok (VDict (fixed i ++ i_meta i ++ tail i)).
Proof. intros H. rewrite <- (export_doc_shape ads_canon labels_ok i H). apply (export_ok ads_canon labels_ok i H). Qed.

(* ------------------------------------------------------------------ witnesses *)
Definition w_units : list pyval := [VStr "absolute"; VStr "bar"; VStr "mass"; VStr "g"; VStr "molar"; VStr "mmol"; VStr "K"].
Definition w_row (p l : Q) (d : bool) : row := mkRow [("pressure", VFloat p); ("loading", VFloat l)] d.
Definition w_meta : dict := [("operator", VStr "12"); ("batch", VInt (-5)); ("ok", VBool true); ("tags", VList [VInt 1; VStr "a"])].
(* hysteresis loop with a desorption mark, metadata of several types, a material with properties *)
Definition w_iso : iso :=
  mkIso w_units "m1" [("density", VFloat (21 # 10))] "nitrogen" (VFloat 77) w_meta
        (BPoint "pressure" "loading" [w_row 1 1 false; w_row 3 2 false; w_row 2 (3 # 2) true] VNone VNone).
(* the user marked every point as adsorption although the pressure maximum is not last *)
Definition w_allads : iso :=
  mkIso w_units "m1" [] "nitrogen" (VFloat 77) []
        (BPoint "pressure" "loading" [w_row 1 1 false; w_row 3 2 false; w_row 2 (3 # 2) false] VNone VNone).
Definition w_model : iso :=
  mkIso w_units "m1" [] "nitrogen" (VFloat 77) w_meta
        (BModel (VStr "ads") (mkModel "Langmuir" (VFloat (1 # 100)) [("K", VFloat 2); ("n_m", VFloat 5)] (VList [VFloat 0; VFloat 1]) (VList [VFloat 0; VFloat 4]))).

Lemma w_iso_wf : wf (fun s => s) (fun _ => true) w_iso.
Proof.
  constructor; try reflexivity.
  - exists "absolute". split; [reflexivity|discriminate].
  - cbn. exists (w_row 1 1 false), [w_row 3 2 false; w_row 2 (3 # 2) true]. repeat split; try reflexivity. left. reflexivity.
Qed.
Lemma w_model_wf : wf (fun s => s) (fun _ => true) w_model.
Proof.
  constructor; try reflexivity.
  - exists "absolute". split; [reflexivity|discriminate].
  - cbn. repeat split; reflexivity.
Qed.
Lemma w_allads_reguessed :
  exists doc i', export w_allads = Ok doc /\ import (fun s => s) (fun _ => true) "pressure" "loading" (jnorm doc) = Ok i' /\
    i_body i' = BPoint "pressure" "loading" [w_row 1 1 false; w_row 3 2 false; w_row 2 (3 # 2) true] VNone VNone.
Proof. eexists. eexists. split; [vm_compute; reflexivity|]. split; vm_compute; reflexivity. Qed.
