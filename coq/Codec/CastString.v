(* Hand-written (H), tied to the code by the differential part of ./check C07 (20 000 structured strings per run):
   utilities/string_utilities.py  _is_none / _is_bool / str.isnumeric / _is_float / _is_list / cast_string / _to_string
   on ASCII strings. float(s) succeeding is modelled by a recogniser of Python's float grammar (ASCII part: blanks, sign,
   digits with single underscores, fraction, exponent, inf / infinity / nan); the VALUE of float(s) and repr(float) stay oracles.
   _from_list (ast.literal_eval) is an oracle: the model says WHEN it is reached and on which string. *)
From Coq Require Import ZArith NArith String List Bool Ascii Decimal DecimalString DecimalN Lia.
From PG Require Import Lib.Py.
Import ListNotations.
Open Scope string_scope.

Definition code (c : ascii) : nat := nat_of_ascii c.
Definition is_digit (c : ascii) : bool := Nat.leb 48 (code c) && Nat.leb (code c) 57.
Definition is_space (c : ascii) : bool := Nat.eqb (code c) 32 || (Nat.leb 9 (code c) && Nat.leb (code c) 13) || (Nat.leb 28 (code c) && Nat.leb (code c) 31).
Fixpoint lstrip (s : string) : string := match s with String c r => if is_space c then lstrip r else s | "" => "" end.
Fixpoint rev_str (s acc : string) : string := match s with "" => acc | String c r => rev_str r (String c acc) end.
Definition strip (s : string) : string := rev_str (lstrip (rev_str (lstrip s) "")) "".
Fixpoint all_digits (s : string) : bool := match s with "" => true | String c r => is_digit c && all_digits r end.
Fixpoint last_char (s : string) : option ascii := match s with "" => None | String c "" => Some c | String _ r => last_char r end.

Definition is_none (s : string) : bool := String.eqb s "" || String.eqb (lower s) "none".
Definition is_bool (s : string) : bool := String.eqb (lower s) "true" || String.eqb (lower s) "false".
Definition isnumeric (s : string) : bool := negb (String.eqb s "") && all_digits s.
Definition is_list (s : string) : bool :=
  match s with String c _ => Nat.eqb (code c) 91 && match last_char s with Some d => Nat.eqb (code d) 93 | None => false end | "" => false end.

(* digits with single underscores between digits *)
Inductive dres := DNone (rest : string) | DOk (rest : string) | DBad.
Fixpoint eat (s : string) (st : nat) : dres :=
  match s with
  | "" => match st with 0 => DNone "" | 1 => DOk "" | _ => DBad end
  | String c r =>
      if is_digit c then eat r 1
      else if Nat.eqb (code c) 95 then match st with 1 => eat r 2 | 0 => DNone s | _ => DBad end
      else match st with 0 => DNone s | 1 => DOk s | _ => DBad end
  end.
Definition skip_sign (s : string) : string :=
  match s with String c r => if Nat.eqb (code c) 43 || Nat.eqb (code c) 45 then r else s | "" => "" end.
Definition exp_part (s : string) : bool :=
  match s with
  | String c r => if Nat.eqb (code c) 101 || Nat.eqb (code c) 69 then match eat (skip_sign r) 0 with DOk "" => true | _ => false end else false
  | "" => false end.
Definition after_frac (s : string) : bool := match s with "" => true | _ => exp_part s end.
Definition is_dot (c : ascii) : bool := Nat.eqb (code c) 46.
Definition float_body (s : string) : bool :=
  match eat s 0 with
  | DBad => false
  | DOk r => match r with
             | "" => true
             | String c r' => if is_dot c then match eat r' 0 with DOk r'' => after_frac r'' | DNone r'' => after_frac r'' | DBad => false end
                              else exp_part r end
  | DNone r => match r with
               | String c r' => if is_dot c then match eat r' 0 with DOk r'' => after_frac r'' | _ => false end else false
               | "" => false end
  end.
Definition is_float (s : string) : bool :=
  let t := skip_sign (strip s) in
  let l := lower t in
  String.eqb l "inf" || String.eqb l "infinity" || String.eqb l "nan" || float_body t.

Definition parse_nat (s : string) : N := match NilEmpty.uint_of_string s with Some u => N.of_uint u | None => 0%N end.
Definition print_nat (n : N) : string := NilEmpty.string_of_uint (N.to_uint n).

Inductive cast :=
| CNone | CBool (b : bool) | CInt (n : N)
| CFloat (s : string)         (* float(s): the value is the oracle's *)
| CList (s : string)          (* _from_list(s) = ast.literal_eval(s.replace(' ', ',')): oracle *)
| CStr (s : string).
Definition cast_string (s : string) : cast :=
  if is_none s then CNone
  else if is_bool s then CBool (String.eqb (lower s) "true")
  else if isnumeric s then CInt (parse_nat s)
  else if is_float s then CFloat s
  else if is_list s then CList s
  else CStr s.
(* printed kind for the differential run: [kind; integer value] *)
Definition cast_code (s : string) : list Z :=
  match cast_string s with
  | CNone => [0; 0] | CBool b => [1; if b then 1 else 0] | CInt n => [2; Z.of_N n] | CFloat _ => [3; 0] | CList _ => [4; 0] | CStr _ => [5; 0] end%Z.

(* ------------------------------------------------------------------ ints: str(n) read back is n, for every n >= 0 *)
Lemma digits_string_of_uint u : all_digits (NilEmpty.string_of_uint u) = true.
Proof. induction u; simpl; auto. Qed.
Lemma print_nat_nonempty n : print_nat n <> "".
Proof.
  unfold print_nat. intros E.
  assert (H : NilEmpty.uint_of_string (NilEmpty.string_of_uint (N.to_uint n)) = Some (N.to_uint n)) by apply NilEmpty.usu.
  rewrite E in H. simpl in H. injection H as H.
  pose proof (DecimalN.Unsigned.of_to n) as R. rewrite <- H in R. simpl in R. subst n. discriminate H.
Qed.
Lemma digit_lower c : is_digit c = true -> lower_ascii c = c.
Proof.
  unfold is_digit, lower_ascii, code. intros H. apply andb_true_iff in H as [H1 H2]. apply Nat.leb_le in H1, H2.
  destruct (Nat.leb 65 (nat_of_ascii c)) eqn:E; auto. apply Nat.leb_le in E. lia.
Qed.
Lemma digits_lower s : all_digits s = true -> lower s = s.
Proof. induction s; simpl; auto. intros H. apply andb_true_iff in H as [H1 H2]. rewrite digit_lower, IHs; auto. Qed.
Lemma digits_not_word s w c r : all_digits s = true -> w = String c r -> is_digit c = false -> String.eqb s w = false.
Proof.
  intros D -> Hc. destruct s as [|a s]; auto. simpl in *. apply andb_true_iff in D as [D _].
  destruct (Ascii.eqb a c) eqn:E; auto. apply Ascii.eqb_eq in E. subst. congruence.
Qed.
Theorem cast_int_roundtrip n : cast_string (print_nat n) = CInt n.
Proof.
  pose proof (digits_string_of_uint (N.to_uint n)) as D. fold (print_nat n) in D.
  pose proof (print_nat_nonempty n) as NE.
  unfold cast_string, is_none, is_bool, isnumeric. rewrite (digits_lower _ D).
  assert (E0 : String.eqb (print_nat n) "" = false) by (apply String.eqb_neq; auto).
  rewrite E0, (digits_not_word _ "none" "n" "one" D eq_refl eq_refl),
    (digits_not_word _ "true" "t" "rue" D eq_refl eq_refl), (digits_not_word _ "false" "f" "alse" D eq_refl eq_refl), D.
  simpl. unfold parse_nat, print_nat. rewrite NilEmpty.usu, DecimalN.Unsigned.of_to. reflexivity.
Qed.

(* ------------------------------------------------------------------ the other scalars *)
Lemma cast_none : cast_string "None" = CNone. Proof. reflexivity. Qed.
Lemma cast_true : cast_string "True" = CBool true. Proof. reflexivity. Qed.
Lemma cast_false : cast_string "False" = CBool false. Proof. reflexivity. Qed.
(* text in the documented domain comes back as the same text *)
Theorem cast_text_roundtrip s :
  is_none s = false -> is_bool s = false -> isnumeric s = false -> is_float s = false -> is_list s = false -> cast_string s = CStr s.
Proof. intros H1 H2 H3 H4 H5. unfold cast_string. rewrite H1, H2, H3, H4, H5. reflexivity. Qed.
(* floats: repr(f) is read back through float(), given what repr(f) looks like *)
Theorem cast_float_roundtrip s :
  is_float s = true -> isnumeric s = false -> is_none s = false -> is_bool s = false -> cast_string s = CFloat s.
Proof. intros H1 H2 H3 H4. unfold cast_string. rewrite H3, H4, H2, H1. reflexivity. Qed.
(* ------------------------------------------------------------------ values the string format does NOT carry *)
(* str(-5) = "-5" is not isnumeric() and is read by float(): the int comes back as a float *)
Lemma cast_negative_int : cast_string "-5" = CFloat "-5". Proof. reflexivity. Qed.
(* text that spells a number / a boolean / none comes back as that number / boolean / None *)
Lemma cast_numeric_text : cast_string "12" = CInt 12 /\ cast_string "1e5" = CFloat "1e5" /\ cast_string "true" = CBool true /\ cast_string "none" = CNone /\ cast_string "" = CNone.
Proof. repeat split; reflexivity. Qed.
(* tuples are written "(a b)" and come back as text; a flat list is written "[a b]" and reaches _from_list *)
Lemma cast_tuple : cast_string "(1 2)" = CStr "(1 2)" /\ cast_string "[1 2]" = CList "[1 2]".
Proof. split; reflexivity. Qed.
(* examples of the float grammar *)
Lemma float_grammar_examples :
  map is_float ["1.5"; "-1.5e-07"; "1e+308"; "1e-320"; "inf"; "-Infinity"; "nan"; " 2.0 "; "5."; ".5"; "1_000.0"; "1e5"; "+4"]
  = [true; true; true; true; true; true; true; true; true; true; true; true; true] /\
  map is_float ["1__0"; "_1"; "1_"; "."; "e5"; "1e"; "0x10"; "1,5"; "1 2"; "abc"; "--1"; "1.5.2"; "infin"]
  = [false; false; false; false; false; false; false; false; false; false; false; false; false].
Proof. split; reflexivity. Qed.
