(* Correspondence driver for Codec/XlDoc.v: the model's two worksheets are compared INSIDE Coq, cell by cell, with the cells xlrd
   reads from the file isotherm_to_xl wrote, and the model's import of those cells with the state of the object isotherm_from_xl
   returned. The oracles of XlDoc.v that are not the library itself (dtype names, str() of the model ranges, ast.literal_eval,
   float() of ints beyond 2^53) are finite tables read off the implementation for the case. *)
From Coq Require Import QArith ZArith NArith String List Bool Ascii.
From PG Require Import Lib.Num Lib.Py Lib.Show Codec.PyVal Gen.TablesGen Codec.XlCell Gen.XlGen Codec.JsonDoc Codec.JsonShow
                       Codec.CastString Codec.CsvDoc Codec.CsvShow Codec.XlDoc.
Import ListNotations.
Open Scope list_scope.
Open Scope string_scope.

Definition tbl_dtype (t : list (string * string)) (k : string) : string :=
  match Lib.Py.assoc k t with Some d => d | None => "<no dtype>" end.
Definition tbl_str (t : list (pyval * string)) (v : pyval) : string :=
  match find (fun e => veqb (fst e) v) t with Some e => snd e | None => "<no str>" end.

Fixpoint row_diff (a b : list xcell) (c : Z) : Z :=
  match a with
  | [] => match find (fun y => negb (is_empty y)) b with None => (-1)%Z | Some _ => c end
  | x :: a' => match b with
               | [] => if is_empty x then row_diff a' [] (c + 1)%Z else c
               | y :: b' => if xcell_eqb x y then row_diff a' b' (c + 1)%Z else c end
  end.
(* the first cell where two grids differ, (-1, -1) when they hold the same cells (absent cells are empty cells) *)
Fixpoint grid_diff (a b : sheet) (r : Z) : Z * Z :=
  match a with
  | [] => match find (fun row => negb (Z.eqb (row_diff [] row 0%Z) (-1)%Z)) b with None => ((-1)%Z, (-1)%Z) | Some _ => (r, (-2)%Z) end
  | x :: a' => match b with
               | [] => if Z.eqb (row_diff x [] 0%Z) (-1)%Z then grid_diff a' [] (r + 1)%Z else (r, row_diff x [] 0%Z)
               | y :: b' => if Z.eqb (row_diff x y 0%Z) (-1)%Z then grid_diff a' b' (r + 1)%Z else (r, row_diff x y 0%Z) end
  end.

(* -> [export code (9 = outside the modelled fragment); row, column of the first cell of the 'data' sheet that differs from the file
       (-1 -1: none); the same for 'otherdata'; import code; import outcome agrees] ++ iso_cmp_csv *)
Definition chk_xl (big : list (Z * Q)) (dts : list (string * string)) (strs : list (pyval * string)) (lits : list (string * pyval))
           (tbl : list (string * string)) (i : iso) (book : sheet * sheet) (imp_code : Z) (j : iso) : list Z :=
  let imp :=
    match xl_import (tbl_list lits) xl_astype1 (canon tbl) (fun _ => true) book with
    | Err x => [exn_code x; b2z (Z.eqb imp_code (exn_code x))]
    | Ok i' => ([0%Z; b2z (Z.eqb imp_code 0)] ++ iso_cmp_csv i' j)%list
    end in
  match xl_book (xl_store big) (tbl_dtype dts) (tbl_str strs) i with
  | Err x => ([exn_code x; (-2)%Z; (-2)%Z; (-2)%Z; (-2)%Z] ++ imp)%list
  | Ok wb => let d1 := grid_diff (fst wb) (fst book) 0%Z in let d2 := grid_diff (snd wb) (snd book) 0%Z in
             ([0%Z; fst d1; snd d1; fst d2; snd d2] ++ imp)%list
  end.
