(* Correspondence driver for Codec/AifDoc.v: the model's item list is compared INSIDE Coq, item by item, with the items gemmi parses
   from the text isotherm_to_aif wrote, and the model's import of those items with the state of the object isotherm_from_aif
   returned. The oracles of AifDoc.v (repr(float), float(str), _from_list, pandas.to_numeric per column) are finite tables read off
   the implementation for the strings / floats of the case. *)
From Coq Require Import QArith ZArith NArith String List Bool Ascii.
From PG Require Import Lib.Num Lib.Py Lib.Show Codec.PyVal Gen.TablesGen Codec.JsonDoc Codec.JsonShow Codec.CastString Codec.CsvDoc
                       Codec.CsvShow Codec.AifDoc.
Import ListNotations.
Open Scope list_scope.
Open Scope string_scope.

Fixpoint strs_eqb (a b : list string) : bool :=
  match a, b with [], [] => true | x :: r, y :: s => String.eqb x y && strs_eqb r s | _, _ => false end.
Fixpoint rows_eqb (a b : list (list string)) : bool :=
  match a, b with [], [] => true | x :: r, y :: s => strs_eqb x y && rows_eqb r s | _, _ => false end.
Definition item_eqb (a b : item) : bool :=
  match a, b with
  | IPair t v, IPair t' v' => String.eqb t t' && String.eqb v v'
  | ILoop ts rs, ILoop ts' rs' => strs_eqb ts ts' && rows_eqb rs rs'
  | _, _ => false end.
Fixpoint first_item_diff (a b : list item) (n : Z) : Z :=
  match a, b with
  | [], [] => (-1)%Z
  | x :: a', y :: b' => if item_eqb x y then first_item_diff a' b' (n + 1)%Z else n
  | _, _ => n end.
Definition tbl_numeric (t : list (list string * list pyval)) (col : list string) : list pyval :=
  match find (fun e => strs_eqb (fst e) col) t with Some e => snd e | None => map VStr col end.

(* -> [export code (9 = outside the modelled fragment); index of the first item that differs from the implementation's block or -1;
       import code; import outcome agrees] ++ iso_cmp_csv *)
Definition chk_aif (rt : list (Q * string)) (ft lt : list (string * pyval)) (nt : list (list string * list pyval))
           (tbl : list (string * string)) (i : iso) (items : list item) (imp_code : Z) (j : iso) : list Z :=
  let imp :=
    match aif_import (tbl_float ft) (tbl_list lt) (tbl_numeric nt) (canon tbl) (fun _ => true) items with
    | Err x => [exn_code x; b2z (Z.eqb imp_code (exn_code x))]
    | Ok i' => ([0%Z; b2z (Z.eqb imp_code 0)] ++ iso_cmp_csv i' j)%list
    end in
  match aif_items (tbl_repr rt) i with
  | Err x => ([exn_code x; (-2)%Z] ++ imp)%list
  | Ok its => ([0%Z; first_item_diff its items 0%Z] ++ imp)%list
  end.
