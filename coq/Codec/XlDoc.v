(* Hand-written (H), tied to the code by the Excel correspondence part of ./check C07 (the model's two worksheets vs the cells
   xlrd reads from the file isotherm_to_xl wrote, cell by cell; the model's import of those cells vs the state of
   isotherm_from_xl's result; on generated isotherms, executed in Coq) and, for the cell tests and the field table, GENERATED
   from the source (Gen/XlGen.v, tools/py2v_xl.py):
   parsing/excel.py   isotherm_to_xl   : to_dict + file_version, `_material_` flattening, the fixed header fields (label, value
                                         only `if val:`), the type cell, the table (dtype row, column names, one row per point with
                                         the 'ads'/'des' mark in the third column) or the model block, the 'otherdata' sheet
                      isotherm_from_xl : header cells (EMPTY -> None), the type cell, the scan for the last data row, the scan
                                         over the header columns, dtype cells + astype, the branch column rebuilt, the model block,
                                         the 'otherdata' rows (BOOLEAN -> bool, EMPTY -> None), version / iso_id pops, `_material_`
                                         regrouping, then the constructors (model of Codec/JsonDoc.v through CsvDoc.csv_build)
   A worksheet is an abstract cell grid: the list of its rows, each the list of its cells (Codec/XlCell.v), read with padding.
   Oracles (Section variables): the LIBRARY xlwt + xlrd as `store` (the cell xlrd presents where xlwt wrote a Python value),
   pandas (dtype name of a column, astype on one value), str() of the model ranges, ast.literal_eval, the adsorbate registry
   and the label tables. *)
From Coq Require Import QArith Qabs ZArith NArith String List Bool Ascii Lia.
From PG Require Import Lib.Num Lib.Py Codec.PyVal Gen.TablesGen Codec.XlCell Gen.XlGen Codec.JsonDoc Codec.CastString Codec.CsvDoc.
Import ListNotations.
Open Scope list_scope.
Open Scope nat_scope.
Open Scope string_scope.

(* ------------------------------------------------------------------ the cell grid *)
Definition sheet := list (list xcell).
Definition ncols (sh : sheet) : nat := fold_right (fun r m => Nat.max (length r) m) 0 sh.
Definition at_col (j : nat) (r : list xcell) : xcell := nth j r XEmpty.
(* sht.cell(r, c): IndexError outside nrows x ncols (mapped to FellOffEnd), an empty cell where nothing was written *)
Definition cell (sh : sheet) (r c : nat) : res xcell :=
  match nth_error sh r with
  | None => Err FellOffEnd
  | Some row => if Nat.ltb c (ncols sh) then Ok (at_col c row) else Err FellOffEnd end.
Fixpoint pad (n : nat) (r : list xcell) : list xcell :=
  match n with O => [] | S k => match r with [] => XEmpty :: pad k [] | x :: t => x :: pad k t end end.

Definition f_name (f : string * string * nat * nat) : string := fst (fst (fst f)).
Definition f_label (f : string * string * nat * nat) : string := snd (fst (fst f)).
Definition f_row (f : string * string * nat * nat) : nat := snd (fst f).
Definition f_col (f : string * string * nat * nat) : nat := snd f.
(* the layout the writer model assumes: field k of _META_DICT sits in row k, column 0; the type field is the last one; the extra
   columns and their dtype cells start in column 3 (fail-closed: otherwise the writer model is outside its fragment) *)
Definition fields_canonical : bool :=
  forallb (fun p => Nat.eqb (f_row (snd p)) (fst p) && Nat.eqb (f_col (snd p)) 0) (combine (seq 0 (length xl_fields)) xl_fields)
  && Nat.eqb (S xl_type_row) (length xl_fields) && Nat.eqb xl_type_col 0 && Nat.eqb xl_dtype_from_col 3
  && match nth_error xl_fields xl_type_row with Some f => String.eqb (f_name f) "isotherm_data" | None => false end.
Definition type_label : string := match nth_error xl_fields xl_type_row with Some f => f_label f | None => "" end.

(* the scanning loops of the reader: `while k < n: if <stop>(cell(k, .)): break; k += 1` *)
Fixpoint scan_rows (stop : xcell -> bool) (rows : sheet) : nat :=
  match rows with [] => 0 | r :: rest => if stop (at_col 0 r) then 0 else S (scan_rows stop rest) end.
Fixpoint scan_cols (stop : xcell -> bool) (cells : list xcell) : list xcell :=
  match cells with [] => [] | c :: r => if stop c then [] else c :: scan_cols stop r end.

Section Xl.
Variable store : pyval -> res xcell.              (* xlwt: sheet.write(r, c, v), then xlrd: sheet.cell(r, c) *)
Variable dtype_of : string -> string.             (* pandas: data[column].dtype.name *)
Variable str_of : pyval -> string.                (* str() of a model range *)
Variable literal : string -> res pyval.           (* ast.literal_eval *)
Variable astype1 : string -> pyval -> res pyval.  (* pandas: DataFrame.astype({column: dtype}) on one value of the column *)
Variable ads_canon : string -> string.
Variable labels_ok : dict -> bool.

(* ---------------------------------------------------------------- writer *)
Definition xl_dict (i : iso) : dict := flatten (dict_set "file_version" (VStr xl_version) (to_dict i)).
Definition header_cell (d : dict) (f : string * string * nat * nat) : res xcell :=
  let v := getd (f_name f) d VNone in if xl_header_written v then store v else Ok XEmpty.
Definition header_row (d : dict) (f : string * string * nat * nat) : res (list xcell) :=
  bind (header_cell d f) (fun c => Ok [XText (f_label f); c]).
Definition header_rows (d : dict) : res sheet := mapM (header_row d) (removelast xl_fields).
(* a (name, value) row: the 'otherdata' sheet and the model parameters *)
Definition pair_row (kv : string * pyval) : res (list xcell) :=
  bind (store (VStr (fst kv))) (fun ck => bind (store (snd kv)) (fun cv => Ok [ck; cv])).
Definition other_items (d : dict) : dict := remove_all (map f_name xl_fields) d.
Definition other_rows (d : dict) : res sheet := mapM pair_row (other_items d).

Definition other_keys (pk lk : string) (r0 : row) : list string :=
  filter (fun k => negb (String.eqb k pk || String.eqb k lk)) (keys (r_cells r0)).
Definition type_row_point (oks : list string) : res (list xcell) :=
  match oks with
  | [] => Ok [XText type_label; XText "data"]
  | _ => bind (mapM (fun k => store (VStr (dtype_of k))) oks) (fun ds => Ok (XText type_label :: XText "data" :: XEmpty :: ds)) end.
Definition mark (r : row) : string := if r_des r then "des" else "ads".
Definition store_col (r : row) (k : string) : res xcell := match dget k (r_cells r) with Some v => store v | None => Err KeyError end.
Definition data_row (pk lk : string) (oks : list string) (r : row) : res (list xcell) :=
  bind (mapM (store_col r) (pk :: lk :: oks)) (fun cs =>
  match cs with cp :: cl :: rest => Ok (cp :: cl :: XText (mark r) :: rest) | _ => Err FellOffEnd end).
Definition point_rows (pk lk : string) (rows : list row) : res sheet :=
  match rows with
  | [] => Err FellOffEnd
  | r0 :: _ =>
      let oks := other_keys pk lk r0 in
      bind (type_row_point oks) (fun tr => bind (mapM (fun h => store (VStr h)) (pk :: lk :: "branch" :: oks)) (fun hr =>
      bind (mapM (data_row pk lk oks) rows) (fun drs => Ok (tr :: hr :: drs)))) end.
Definition model_rows (m : pmodel) : res sheet :=
  bind (store (VStr (md_name m))) (fun cn => bind (store (md_rmse m)) (fun cr =>
  bind (store (VStr (str_of (md_prange m)))) (fun cp => bind (store (VStr (str_of (md_lrange m)))) (fun cl =>
  bind (mapM pair_row (md_params m)) (fun ps =>
  Ok ([XText type_label; XText "model"] :: [XText "Model name"; cn] :: [XText "RMSE"; cr] :: [XText "Pressure range"; cp]
      :: [XText "Loading range"; cl] :: [XText "Model parameters"] :: ps)))))).
(* the workbook: the 'data' sheet and the 'otherdata' sheet *)
Definition xl_book (i : iso) : res (sheet * sheet) :=
  if negb fields_canonical then Err FellOffEnd else
  let d := xl_dict i in
  if truthy (getd "isotherm_data" d VNone) then Err FellOffEnd else       (* xlwt refuses to overwrite the type cell *)
  bind (header_rows d) (fun hs =>
  bind (match i_body i with
        | BBase => Ok [[XText type_label; XText "metadata"]]
        | BPoint pk lk rows _ _ => point_rows pk lk rows
        | BModel _ m => model_rows m end) (fun body =>
  bind (other_rows d) (fun os => Ok ((hs ++ body)%list, os)))).

(* ---------------------------------------------------------------- reader *)
Definition header_value (c : xcell) : pyval := if xl_header_none c then VNone else cell_value c.
Definition read_fields (sh : sheet) : res dict :=
  fold_left (fun acc f => bind acc (fun d => bind (cell sh (f_row f) (S (f_col f))) (fun c =>
             Ok (dict_set (f_name f) (header_value c) d)))) xl_fields (Ok []).
(* sht.cell(type_row, 1).value.lower().startswith(w) *)
Definition type_is (sh : sheet) (w : string) : res bool :=
  bind (cell sh xl_type_row 1) (fun c => match cell_value c with VStr s => Ok (prefix w (lower s)) | _ => Err AttributeError end).

Definition conv (dt : option string) (v : pyval) : res pyval := match dt with Some d => astype1 d v | None => Ok v end.
Definition conv_cell (hc : (string * option string) * xcell) : res (string * pyval) :=
  bind (conv (snd (fst hc)) (cell_value (snd hc))) (fun v => Ok (fst (fst hc), v)).
(* one row of the table under the scanned headers (name, dtype): every column except 'branch', and the mark *)
Definition read_row (hdrs : list (string * option string)) (r : list xcell) : res row :=
  bind (mapM conv_cell (combine hdrs (pad (length hdrs) r))) (fun kvs =>
  match dget "branch" kvs with
  | None => Err FellOffEnd                                               (* no branch column: 'guess', not modelled here *)
  | Some b => Ok (mkRow (filter (fun kv => negb (String.eqb (fst kv) "branch")) kvs) (negb (veqb b (VStr "ads")))) end).
(* one scanned header cell (column j) with the cell above it in the type row -> (column name, dtype to convert to) *)
Definition header_of (jct : nat * (xcell * xcell)) : res (string * option string) :=
  let j := fst jct in let c := fst (snd jct) in let t := snd (snd jct) in
  match cell_value c with
  | VStr h =>
      if Nat.leb xl_dtype_from_col j && xl_dtype_used t
      then match cell_value t with VStr d => Ok (h, Some d) | _ => Err FellOffEnd end
      else Ok (h, None)
  | _ => Err FellOffEnd end.                                             (* a column name that is not text: not modelled *)
Definition read_table (sh : sheet) : res section :=
  let start := S (S xl_type_row) in
  let body := skipn start sh in
  let drows := firstn (scan_rows xl_data_stop body) body in
  match nth_error sh (S xl_type_row), nth_error sh xl_type_row with
  | Some hrow, Some trow =>
      let hcells := scan_cols xl_col_stop (pad (ncols sh) hrow) in
      bind (mapM header_of (combine (seq 0 (length hcells)) (combine hcells (pad (length hcells) trow)))) (fun hdrs =>
      match hdrs with
      | (pk, _) :: (lk, _) :: _ => bind (mapM (read_row hdrs) drows) (fun rows => Ok (SPoint pk lk rows))
      | _ => Err FellOffEnd end)                                         (* headers[1]: IndexError *)
  | _, _ => Err FellOffEnd end.
Fixpoint read_params (rows : sheet) (acc : dict) : res dict :=
  match rows with
  | [] => Ok acc
  | r :: rest =>
      if xl_param_stop (at_col 0 r) then Ok acc
      else match cell_value (at_col 0 r) with
           | VStr k => read_params rest (dict_set k (cell_value (at_col 1 r)) acc)
           | _ => Err FellOffEnd end
  end.
Definition lit_cell (c : xcell) : res pyval := match cell_value c with VStr s => literal s | _ => Err ValueError end.
Definition read_model (sh : sheet) : res section :=
  bind (cell sh (xl_type_row + 1) 1) (fun cn => bind (cell sh (xl_type_row + 2) 1) (fun cr =>
  bind (cell sh (xl_type_row + 3) 1) (fun cp => bind (lit_cell cp) (fun pr =>
  bind (cell sh (xl_type_row + 4) 1) (fun cl => bind (lit_cell cl) (fun lr =>
  bind (read_params (skipn (xl_type_row + 6) sh) []) (fun ps =>
  Ok (SModel (VDict [("name", cell_value cn); ("rmse", cell_value cr); ("pressure_range", pr); ("loading_range", lr);
                     ("parameters", VDict ps)]))))))))).
Definition other_value (c : xcell) : pyval :=
  if xl_other_bool c then VBool (truthy (cell_value c)) else if xl_other_none c then VNone else cell_value c.
Fixpoint read_other (rows : sheet) (acc : dict) : res dict :=
  match rows with
  | [] => Ok acc
  | r :: rest =>
      let namec := at_col 0 r in let valc := at_col 1 r in
      if xl_other_stop namec then Ok acc
      else
        match cell_value namec with VStr k => read_other rest (dict_set k (other_value valc) acc) | _ => Err FellOffEnd end
  end.
(* version = raw_dict.pop("file_version", None); `not version or float(version) < float(_parser_version)` *)
Definition xl_pop_version (d : dict) : res dict :=
  match dget "file_version" d with
  | Some (VStr s) => if negb (String.eqb s "") && negb (is_float s) then Err ValueError else Ok (ddel "file_version" d)
  | _ => Ok (ddel "file_version" d) end.
(* everything up to the constructor call: the keyword dictionary and the data section *)
Definition xl_parse (wb : sheet * sheet) : res (dict * section) :=
  let sh := fst wb in
  bind (read_fields sh) (fun raw =>
  bind (type_is sh "data") (fun isd => bind (type_is sh "model") (fun ism =>
  bind (if isd then read_table sh else if ism then read_model sh else Ok SBase) (fun sec =>
  bind (read_other (snd wb) raw) (fun raw =>
  bind (xl_pop_version raw) (fun raw =>
  bind (regroup (ddel "iso_id" (ddel "isotherm_data" raw))) (fun raw => Ok (raw, sec)))))))).
Definition xl_import (wb : sheet * sheet) : res iso := bind (xl_parse wb) (csv_build ads_canon labels_ok).

End Xl.

(* ================================================================ the library as it behaves (executed in the correspondence) *)
(* xlwt: str -> label cell ('' -> blank), bool -> boolean cell, int / float -> number cell (a double), None -> blank, anything else
   is refused with a bare Exception; xlrd presents blank cells as EMPTY. `big`: float(z) for ints beyond 2^53 (an oracle table). *)
Definition xl_store (big : list (Z * Q)) (v : pyval) : res xcell :=
  match v with
  | VNone => Ok XEmpty
  | VStr s => Ok (if String.eqb s "" then XEmpty else XText s)
  | VBool b => Ok (XBool b)
  | VInt z => if (Z.abs z <=? 9007199254740992)%Z then Ok (XNum (VFloat (inject_Z z)))
              else match find (fun e => Z.eqb (fst e) z) big with Some e => Ok (XNum (VFloat (snd e))) | None => Err FellOffEnd end
  | VFloat q => Ok (XNum (VFloat q))
  | VNaN => Ok (XNum VNaN)
  | VInf b => Ok (XNum (VInf b))
  | _ => Err FellOffEnd end.
Definition q_integral (q : Q) : bool := Z.eqb (Qnum q mod Zpos (Qden q)) 0%Z.
(* pandas astype on the values xlrd yields (floats, text, 0 / 1 of boolean cells) *)
Definition xl_astype1 (d : string) (v : pyval) : res pyval :=
  if String.eqb d "float64" then
    match v with VFloat _ | VNaN | VInf _ => Ok v | VInt z => Ok (VFloat (inject_Z z)) | VBool b => Ok (VFloat (if b then 1 else 0)%Q) | _ => Err ValueError end
  else if String.eqb d "int64" then
    match v with
    | VFloat q => if q_integral q then Ok (VInt (Qnum q / Zpos (Qden q))) else Err FellOffEnd
    | VInt z => Ok (VInt z) | VBool b => Ok (VInt (if b then 1 else 0)%Z) | _ => Err ValueError end
  else if String.eqb d "bool" then
    match v with VFloat _ | VInt _ | VBool _ | VNaN | VInf _ => Ok (VBool (truthy v)) | _ => Err FellOffEnd end
  else if String.eqb d "str" || String.eqb d "object" || String.eqb d "string" then
    match v with VStr _ => Ok v | _ => Err FellOffEnd end
  else Err FellOffEnd.
