"""py2v_charact: fail-closed translator of the straight-line scalar formulas of pygaps/characterisation into Gallina.

Input  (all under <repo_src>/pygaps/characterisation/):
  area_bet.py   roq_transform, bet_transform, bet_parameters, simple_bet
  area_lang.py  langmuir_transform, langmuir_parameters, simple_lang
  t_plots.py    t_plot_parameters : the lines `adsorbed_volume = ...`, `area = ...`, the slope test `... < 3`
  alphas_plots.py  alpha_s_plot_parameters : same three; alpha_s_raw : `alpha_curve = reference_loading / alpha_s_point`
  dr_da_plots.py   log_v_adj, log_p_exp; da_plot_raw : `microp_volume = ...`, `potential = ...`; the exponent search: the nested
                   dr_fit (linregress of log_p_exp(pressure, exp) against logv, objective = its last `return`) and the call
                   optimize.minimize_scalar(dr_fit, bounds=[lo, hi], method='bounded') -> da_search_objective, da_search_lower/upper
  models_thickness.py  thickness_halsey, thickness_harkins_jura, thickness_zero, convert_to_thickness
  models_kelvin.py     get_meniscus_geometry, kelvin_radius, kelvin_radius_kjs  (if-chains on strings, raise)
  isosteric_enth.py    isosteric_enthalpy_raw : the argument of `iso_enth.append(...)`
  enth_sorp_whittaker.py  enthalpy_sorption_whittaker : RT, b, first_bracket, h_vap, theta, theta_t, second_bracket,
                          d_lambda, h_st and the argument of `whittaker_enth.append(...)`
Output: <out_dir>/CharactGen.v : one Section over a carrier N : Num and the four transcendental operations
        nsqrt nln nexp : N -> N, npow : N -> N -> N (instantiated with sqrt / ln / exp / Rpower in the theorems).
Arrays are element-wise in the source, so every definition is a scalar function; loops, windows and regressions are
hand-modelled (coq/Charact) and call these definitions.

Subset: Assign to a local name, Return (expression or tuple), if/elif/else chains on string (in)equality whose branches
assign one name or raise, arithmetic + - * / **, unary minus, numeric literals, scipy.constants.{Avogadro,gas_constant,R},
numpy.{log,exp,sqrt,log10,zeros_like}, `.item()`, `max(name)` (becomes a parameter), `<` against a literal.
Anything else aborts with file:line (non-zero exit): the obligations depending on CharactGen.v then count as broken.

Usage: py2v_charact.py <repo_src_dir> <out_dir>
"""
import ast
import os
import sys
from fractions import Fraction


class Unsupported(Exception):
    pass


def bad(node, why, fn='?'):
    raise Unsupported('%s:%s: %s' % (fn, getattr(node, 'lineno', '?'), why))


RENAME = {'t': 'py_t', 'exp': 'py_exp', 'n': 'py_n', 'N': 'py_N', 'unit': 'py_unit', 'T': 'temp_T', 'K': 'const_K', 'b': 'py_b',
          'p': 'py_p'}
CONSTANTS = {'Avogadro': None, 'gas_constant': None, 'R': None}


def const_value(name):
    import scipy.constants as sc
    return getattr(sc, name)


def qlit(x):
    """exact rational of the DECIMAL text of the number (repr), e.g. 0.354 -> 354/1000"""
    fr = Fraction(repr(x)) if isinstance(x, float) else Fraction(x)
    return fr


def coq_q(fr):
    if fr.numerator < 0:
        return '(nofQ ((-%d) # %d))' % (-fr.numerator, fr.denominator)
    return '(nofQ (%d # %d))' % (fr.numerator, fr.denominator)


class Ctx:
    def __init__(self, fn, params, strings=()):
        self.fn = fn
        self.env = {}          # python name -> coq name
        self.params = []       # (coq name, type)
        self.strings = set(strings)
        for p in params:
            self.add_param(p)

    def add_param(self, p):
        c = RENAME.get(p, p)
        if p not in self.env:
            self.env[p] = c
            self.params.append((c, 'string' if p in self.strings else 'N'))
        return c

    def local(self, p):
        c = RENAME.get(p, p)
        self.env[p] = c
        return c


def try_const(node):
    """numeric constant folding: literal, -literal, literal op literal, literal ** literal"""
    if isinstance(node, ast.Constant) and isinstance(node.value, (int, float)) and not isinstance(node.value, bool):
        return qlit(node.value)
    if isinstance(node, ast.UnaryOp) and isinstance(node.op, ast.USub):
        v = try_const(node.operand)
        return None if v is None else -v
    if isinstance(node, ast.BinOp):
        a, b = try_const(node.left), try_const(node.right)
        if a is None or b is None:
            return None
        if isinstance(node.op, ast.Add): return a + b
        if isinstance(node.op, ast.Sub): return a - b
        if isinstance(node.op, ast.Mult): return a * b
        if isinstance(node.op, ast.Div) and b != 0: return a / b
        if isinstance(node.op, ast.Pow) and b.denominator == 1: return a ** int(b)
    return None


def dotted(node):
    if isinstance(node, ast.Name):
        return node.id
    if isinstance(node, ast.Attribute):
        d = dotted(node.value)
        return None if d is None else d + '.' + node.attr
    return None


def expr(node, cx, free_ok=False):
    """-> coq term of type N"""
    c = try_const(node)
    if c is not None:
        return coq_q(c)
    if isinstance(node, ast.Name):
        if node.id in cx.env:
            return cx.env[node.id]
        if free_ok:
            return cx.add_param(node.id)
        bad(node, 'unknown name %s' % node.id, cx.fn)
    if isinstance(node, ast.UnaryOp) and isinstance(node.op, ast.USub):
        return '(nopp %s)' % expr(node.operand, cx, free_ok)
    if isinstance(node, ast.BinOp):
        op = node.op
        if isinstance(op, ast.Pow):
            e = try_const(node.right)
            base = expr(node.left, cx, free_ok)
            if e is not None and e.denominator == 1 and 1 <= e <= 4:
                t = base
                for _ in range(int(e) - 1):
                    t = '(nmul %s %s)' % (t, base)
                return t
            return '(npow %s %s)' % (base, expr(node.right, cx, free_ok))
        a, b = expr(node.left, cx, free_ok), expr(node.right, cx, free_ok)
        f = {ast.Add: 'nadd', ast.Sub: 'nsub', ast.Mult: 'nmul', ast.Div: 'ndiv'}.get(type(op))
        if f is None:
            bad(node, 'operator %s' % type(op).__name__, cx.fn)
        return '(%s %s %s)' % (f, a, b)
    if isinstance(node, ast.Attribute):
        d = dotted(node)
        if d in ('constants.Avogadro', 'constants.gas_constant', 'scipy.constants.R', 'constants.R'):
            return coq_q(qlit(const_value(d.split('.')[-1])))
        bad(node, 'attribute %s' % d, cx.fn)
    if isinstance(node, ast.Call):
        d = dotted(node.func)
        args = node.args
        if d in ('numpy.log', 'np.log') and len(args) == 1:
            return '(nln %s)' % expr(args[0], cx, free_ok)
        if d in ('numpy.exp', 'np.exp') and len(args) == 1:
            return '(nexp %s)' % expr(args[0], cx, free_ok)
        if d in ('numpy.sqrt', 'np.sqrt') and len(args) == 1:
            return '(nsqrt %s)' % expr(args[0], cx, free_ok)
        if d in ('numpy.log10', 'np.log10') and len(args) == 1:
            return '(ndiv (nln %s) (nln %s))' % (expr(args[0], cx, free_ok), coq_q(Fraction(10)))
        if d in ('numpy.zeros_like', 'np.zeros_like') and len(args) == 1:
            expr(args[0], cx, free_ok)
            return coq_q(Fraction(0))
        if d == 'abs' and len(args) == 1:
            return '(nabs %s)' % expr(args[0], cx, free_ok)
        if d == 'max' and len(args) == 1 and isinstance(args[0], ast.Name):
            return cx.add_param('max_' + args[0].id)
        if isinstance(node.func, ast.Attribute) and node.func.attr == 'item' and not args:
            return expr(node.func.value, cx, free_ok)
        if d and d.startswith('isotherm.adsorbate.') and free_ok:
            # an oracle read of the adsorbate (CoolProp): becomes a parameter named after the method
            return cx.add_param(d.split('.')[-1])
        if d in cx.env.get('__siblings__', {}):
            return '(%s %s)' % (d, ' '.join(expr(a, cx, free_ok) for a in args))
        bad(node, 'call %s' % d, cx.fn)
    bad(node, 'expression %s' % type(node).__name__, cx.fn)


def str_test(node, cx):
    """name == 'lit' | name != 'lit' -> coq bool"""
    if isinstance(node, ast.Compare) and len(node.ops) == 1 and isinstance(node.left, ast.Name) \
            and isinstance(node.comparators[0], ast.Constant) and isinstance(node.comparators[0].value, str):
        nm = node.left.id
        if nm not in cx.strings:
            bad(node, 'string test on non-string %s' % nm, cx.fn)
        t = '(String.eqb %s "%s")' % (cx.env[nm], node.comparators[0].value)
        if isinstance(node.ops[0], ast.Eq): return t
        if isinstance(node.ops[0], ast.NotEq): return '(negb %s)' % t
    bad(node, 'unsupported test', cx.fn)


EXN = {'ParameterError', 'CalculationError'}


def raise_term(st, cx):
    if isinstance(st.exc, ast.Call) and isinstance(st.exc.func, ast.Name) and st.exc.func.id in EXN:
        return '(Err %s)' % st.exc.func.id
    bad(st, 'raise of unknown exception', cx.fn)


def strip_doc(body):
    if body and isinstance(body[0], ast.Expr) and isinstance(body[0].value, ast.Constant) and isinstance(body[0].value.value, str):
        return body[1:]
    return body


def branch_value(body, var, cx, strvar):
    """the value an if-branch gives to `var`, in the res monad"""
    body = strip_doc(body)
    if len(body) == 1 and isinstance(body[0], ast.Assign) and len(body[0].targets) == 1 \
            and isinstance(body[0].targets[0], ast.Name) and body[0].targets[0].id == var:
        v = body[0].value
        if strvar:
            if isinstance(v, ast.Constant) and isinstance(v.value, str):
                return '(Ok "%s")' % v.value
            bad(v, 'string value expected', cx.fn)
        return '(Ok %s)' % expr(v, cx)
    if len(body) == 1 and isinstance(body[0], ast.Raise):
        return raise_term(body[0], cx)
    if len(body) == 1 and isinstance(body[0], ast.If):
        return if_chain(body[0], var, cx, strvar, None)
    bad(body[0], 'branch must assign %s, raise, or be an if-chain' % var, cx.fn)


def assigned_var(st):
    """the single name assigned somewhere in an if-chain"""
    names = set()
    for n in ast.walk(st):
        if isinstance(n, ast.Assign):
            for t in n.targets:
                if isinstance(t, ast.Name):
                    names.add(t.id)
                else:
                    return None
    return names.pop() if len(names) == 1 else None


def if_chain(st, var, cx, strvar, prior):
    t = '(if %s then %s else ' % (str_test(st.test, cx), branch_value(st.body, var, cx, strvar))
    if st.orelse:
        t += branch_value(st.orelse, var, cx, strvar)
    elif prior is not None:
        t += '(Ok %s)' % prior
    else:
        t += '(Err FellOffEnd)'   # the name stays unbound: UnboundLocalError at its first use
    return t + ')'


def stmts(body, cx, ret_res):
    """statement list -> coq term (plain N / tuple when ret_res is False, `res _` otherwise)"""
    body = strip_doc(body)
    if not body:
        bad(None, 'function falls off the end', cx.fn)
    st, rest = body[0], body[1:]
    if isinstance(st, ast.Return):
        if isinstance(st.value, ast.Tuple):
            v = '(' + ', '.join(expr(e, cx) for e in st.value.elts) + ')'
        elif isinstance(st.value, ast.Name) and st.value.id in cx.strings:
            v = cx.env[st.value.id]
        else:
            v = expr(st.value, cx)
        return '(Ok %s)' % v if ret_res else v
    if isinstance(st, ast.Assign) and len(st.targets) == 1 and isinstance(st.targets[0], ast.Name):
        v = expr(st.value, cx)
        nm = cx.local(st.targets[0].id)
        return '(let %s := %s in\n    %s)' % (nm, v, stmts(rest, cx, ret_res))
    if isinstance(st, ast.If):
        if not ret_res:
            bad(st, 'if in a plain function', cx.fn)
        var = assigned_var(st)
        if var is None and len(st.body) == 1 and isinstance(st.body[0], ast.Raise) and not st.orelse:
            return '(if %s then %s else\n    %s)' % (str_test(st.test, cx), raise_term(st.body[0], cx), stmts(rest, cx, ret_res))
        if var is None:
            bad(st, 'if-chain must assign exactly one name', cx.fn)
        strvar = any(isinstance(n, ast.Assign) and isinstance(n.value, ast.Constant) and isinstance(n.value.value, str) for n in ast.walk(st))
        chain = if_chain(st, var, cx, strvar, cx.env.get(var))
        if strvar:
            cx.strings.add(var)
        nm = cx.local(var)
        return '(bind %s (fun %s =>\n    %s))' % (chain, nm, stmts(rest, cx, ret_res))
    bad(st, 'statement %s' % type(st).__name__, cx.fn)


def find_func(tree, name, fn):
    for n in tree.body:
        if isinstance(n, ast.FunctionDef) and n.name == name:
            return n
    raise Unsupported('%s: function %s not found' % (fn, name))


def emit_def(name, cx, body, rty):
    ps = ' '.join('(%s : %s)' % p for p in cx.params)
    return '  Definition %s %s : %s :=\n    %s.\n' % (name, ps, rty, body)


def whole(tree, fn, name, rty='N', strings=(), res=False, siblings=()):
    f = find_func(tree, name, fn)
    params = [a.arg for a in f.args.args]
    cx = Ctx(fn + ':' + name, params, strings)
    cx.env['__siblings__'] = {s: 1 for s in siblings}
    n0 = len(cx.params)
    body = stmts(f.body, cx, res)
    if len(cx.params) != n0:
        raise Unsupported('%s:%s: free names %s' % (fn, name, cx.params[n0:]))
    return emit_def(name, cx, body, rty)


def all_stmts(f):
    """every statement of the function in source order (descending into if / for / try bodies)"""
    out = []

    def go(body):
        for st in body:
            out.append(st)
            for fld in ('body', 'orelse', 'finalbody'):
                if hasattr(st, fld) and isinstance(getattr(st, fld), list):
                    go(getattr(st, fld))
            if isinstance(st, ast.Try):
                for h in st.handlers:
                    go(h.body)
    go(f.body)
    return out


def extract(tree, fn, func, defname, params, chain=(), result_assign=None, result_append=None, result_test_lt=False, rty='N'):
    """a definition from selected lines of `func`: the assignments to the names in `chain` (in source order) become lets,
    the result is the value assigned to `result_assign`, or the argument of `<result_append>.append(...)`, or the
    comparison `<expr> < literal` of the first `if` whose test has that shape (result_test_lt).
    The free names must be exactly `params` (in that order in the emitted definition)."""
    f = find_func(tree, func, fn)
    cx = Ctx(fn + ':' + func, [])
    lets = []
    found = {}
    result = None
    for st in all_stmts(f):
        if isinstance(st, ast.Assign) and len(st.targets) == 1 and isinstance(st.targets[0], ast.Name):
            nm = st.targets[0].id
            if nm in chain:
                if nm in found:
                    bad(st, 'name %s assigned twice' % nm, cx.fn)
                v = expr(st.value, cx, free_ok=True)
                found[nm] = 1
                lets.append((cx.local(nm), v))
            elif nm == result_assign:
                if result is not None:
                    bad(st, 'result %s assigned twice' % nm, cx.fn)
                result = expr(st.value, cx, free_ok=True)
        elif result_append and isinstance(st, ast.Expr) and isinstance(st.value, ast.Call) \
                and dotted(st.value.func) == result_append + '.append' and len(st.value.args) == 1:
            if result is not None:
                bad(st, 'two %s.append' % result_append, cx.fn)
            result = expr(st.value.args[0], cx, free_ok=True)
        elif result_test_lt and isinstance(st, ast.If) and result is None and isinstance(st.test, ast.Compare) \
                and len(st.test.ops) == 1 and isinstance(st.test.ops[0], ast.Lt) and try_const(st.test.comparators[0]) is not None:
            result = '(nltb %s %s)' % (expr(st.test.left, cx, free_ok=True), coq_q(try_const(st.test.comparators[0])))
    if result is None or set(found) != set(chain):
        raise Unsupported('%s:%s: lines for %s not found (have %s)' % (fn, func, defname, sorted(found)))
    have = [p for p, _ in cx.params]
    want = [RENAME.get(p, p) for p in params]
    if sorted(have) != sorted(want):
        raise Unsupported('%s:%s: free names of %s are %s, expected %s' % (fn, func, defname, have, want))
    cx.params = [(p, 'N') for p in want]
    body = result
    for nm, v in reversed(lets):
        body = '(let %s := %s in\n    %s)' % (nm, v, body)
    return emit_def(defname, cx, body, rty)


def da_search(tree, fn):
    """the exponent search of da_plot_raw, fail-closed on its exact shape:
         def dr_fit(exp, ret=False):
             slope, intercept, corr_coef, p_val, stderr = stats.linregress(log_p_exp(pressure, exp), logv)
             if ret: return slope, intercept, corr_coef
             return <objective in stderr, slope>
         if exp is None: res = optimize.minimize_scalar(dr_fit, bounds=[lo, hi], method='bounded'); ...; exp = res.x"""
    f = find_func(tree, 'da_plot_raw', fn)
    where = fn + ':da_plot_raw'
    inner = [n for n in f.body if isinstance(n, ast.FunctionDef) and n.name == 'dr_fit']
    if len(inner) != 1:
        raise Unsupported('%s: nested function dr_fit not found' % where)
    g = inner[0]
    if [a.arg for a in g.args.args] != ['exp', 'ret']:
        bad(g, 'dr_fit parameters', where)
    body = strip_doc(g.body)
    if len(body) != 3:
        bad(g, 'dr_fit body must be: linregress assignment, `if ret: return ...`, return objective', where)
    a, i, r = body
    ok = isinstance(a, ast.Assign) and len(a.targets) == 1 and isinstance(a.targets[0], ast.Tuple) \
        and [getattr(e, 'id', None) for e in a.targets[0].elts] == ['slope', 'intercept', 'corr_coef', 'p_val', 'stderr'] \
        and isinstance(a.value, ast.Call) and dotted(a.value.func) == 'stats.linregress' and len(a.value.args) == 2 and not a.value.keywords \
        and isinstance(a.value.args[0], ast.Call) and dotted(a.value.args[0].func) == 'log_p_exp' \
        and [getattr(e, 'id', None) for e in a.value.args[0].args] == ['pressure', 'exp'] and getattr(a.value.args[1], 'id', None) == 'logv'
    if not ok:
        bad(a, 'dr_fit: expected slope, intercept, corr_coef, p_val, stderr = stats.linregress(log_p_exp(pressure, exp), logv)', where)
    ok = isinstance(i, ast.If) and getattr(i.test, 'id', None) == 'ret' and not i.orelse and len(i.body) == 1 and isinstance(i.body[0], ast.Return) \
        and isinstance(i.body[0].value, ast.Tuple) and [getattr(e, 'id', None) for e in i.body[0].value.elts] == ['slope', 'intercept', 'corr_coef']
    if not ok:
        bad(i, 'dr_fit: expected `if ret: return slope, intercept, corr_coef`', where)
    if not isinstance(r, ast.Return) or r.value is None:
        bad(r, 'dr_fit: expected a final return of the objective', where)
    cx = Ctx(where, ['stderr', 'slope'])
    obj = expr(r.value, cx)
    # the search call and the use of its result
    calls = [st for st in all_stmts(f) if isinstance(st, ast.Assign) and isinstance(st.value, ast.Call) and dotted(st.value.func) == 'optimize.minimize_scalar']
    if len(calls) != 1:
        raise Unsupported('%s: exactly one optimize.minimize_scalar call expected' % where)
    c = calls[0].value
    kw = {k.arg: k.value for k in c.keywords}
    ok = len(c.args) == 1 and getattr(c.args[0], 'id', None) == 'dr_fit' and set(kw) == {'bounds', 'method'} \
        and isinstance(kw['method'], ast.Constant) and kw['method'].value == 'bounded' \
        and isinstance(kw['bounds'], (ast.List, ast.Tuple)) and len(kw['bounds'].elts) == 2 and all(try_const(e) is not None for e in kw['bounds'].elts)
    if not ok:
        bad(calls[0], "expected optimize.minimize_scalar(dr_fit, bounds=[lo, hi], method='bounded')", where)
    res_name = calls[0].targets[0].id if isinstance(calls[0].targets[0], ast.Name) else None
    uses = [st for st in all_stmts(f) if isinstance(st, ast.Assign) and len(st.targets) == 1 and getattr(st.targets[0], 'id', None) == 'exp'
            and dotted(st.value) == '%s.x' % res_name]
    if len(uses) != 1:
        raise Unsupported('%s: `exp = %s.x` not found' % (where, res_name))
    lo, hi = (try_const(e) for e in kw['bounds'].elts)
    return emit_def('da_search_objective', cx, obj, 'N') + '\n' + \
        '  Definition da_search_lower : N :=\n    %s.\n\n  Definition da_search_upper : N :=\n    %s.\n' % (coq_q(lo), coq_q(hi))


HEADER = """(* GENERATED by tools/py2v_charact.py from pygaps/characterisation/*.py - do not edit.
   Scalar formulas of the characterisation methods over a carrier N : Num and the operations
   nsqrt nln nexp npow (numpy.sqrt / log / exp / `**` with a non-integer exponent). *)
From Coq Require Import QArith ZArith String List Bool.
From PG Require Import Lib.Num Lib.Py.
Open Scope string_scope.

Section CharactGen.
  Variable N : Num.
  Variables (nsqrt nln nexp : N -> N) (npow : N -> N -> N).
  Variable nabs : N -> N.

"""


def main(src, out):
    d = os.path.join(src, 'pygaps', 'characterisation')

    def load(fn):
        return ast.parse(open(os.path.join(d, fn), encoding='utf8').read(), fn)
    parts = []
    t = load('area_bet.py')
    parts += [whole(t, 'area_bet.py', 'roq_transform'),
              whole(t, 'area_bet.py', 'bet_transform', siblings=['roq_transform']),
              whole(t, 'area_bet.py', 'bet_parameters', rty='N * N * N * N'),
              whole(t, 'area_bet.py', 'simple_bet')]
    t = load('area_lang.py')
    parts += [whole(t, 'area_lang.py', 'langmuir_transform'),
              whole(t, 'area_lang.py', 'langmuir_parameters', rty='N * N * N'),
              whole(t, 'area_lang.py', 'simple_lang')]
    t = load('t_plots.py')
    parts += [extract(t, 't_plots.py', 't_plot_parameters', 't_plot_adsorbed_volume', ['intercept', 'molar_mass', 'liquid_density'], result_assign='adsorbed_volume'),
              extract(t, 't_plots.py', 't_plot_parameters', 't_plot_area', ['slope', 'molar_mass', 'liquid_density'], result_assign='area'),
              extract(t, 't_plots.py', 't_plot_parameters', 't_plot_slope_ok', ['slope', 'max_thickness_curve', 'max_loading'], result_test_lt=True, rty='bool')]
    t = load('alphas_plots.py')
    parts += [extract(t, 'alphas_plots.py', 'alpha_s_raw', 'alpha_curve_point', ['reference_loading', 'alpha_s_point'], result_assign='alpha_curve'),
              extract(t, 'alphas_plots.py', 'alpha_s_plot_parameters', 'alpha_s_adsorbed_volume', ['intercept', 'molar_mass', 'liquid_density'], result_assign='adsorbed_volume'),
              extract(t, 'alphas_plots.py', 'alpha_s_plot_parameters', 'alpha_s_area', ['reference_area', 'alpha_s_point', 'slope'], result_assign='area'),
              extract(t, 'alphas_plots.py', 'alpha_s_plot_parameters', 'alpha_s_slope_ok', ['slope', 'max_alpha_curve', 'max_loading'], result_test_lt=True, rty='bool')]
    t = load('dr_da_plots.py')
    parts += [whole(t, 'dr_da_plots.py', 'log_v_adj'),
              whole(t, 'dr_da_plots.py', 'log_p_exp'),
              extract(t, 'dr_da_plots.py', 'da_plot_raw', 'da_microp_volume', ['intercept'], result_assign='microp_volume'),
              extract(t, 'dr_da_plots.py', 'da_plot_raw', 'da_potential', ['iso_temp', 'slope', 'exp'], result_assign='potential'),
              da_search(t, 'dr_da_plots.py')]
    t = load('models_thickness.py')
    parts += [whole(t, 'models_thickness.py', 'thickness_halsey'),
              whole(t, 'models_thickness.py', 'thickness_harkins_jura'),
              whole(t, 'models_thickness.py', 'thickness_zero'),
              whole(t, 'models_thickness.py', 'convert_to_thickness')]
    t = load('models_kelvin.py')
    parts += [whole(t, 'models_kelvin.py', 'get_meniscus_geometry', rty='res string', strings=['branch', 'pore_geometry'], res=True),
              whole(t, 'models_kelvin.py', 'kelvin_radius', rty='res N', strings=['meniscus_geometry'], res=True),
              whole(t, 'models_kelvin.py', 'kelvin_radius_kjs', rty='res N', strings=['meniscus_geometry'], res=True)]
    t = load('isosteric_enth.py')
    parts += [extract(t, 'isosteric_enth.py', 'isosteric_enthalpy_raw', 'iso_enthalpy_of_slope', ['slope'], result_append='iso_enth')]
    t = load('enth_sorp_whittaker.py')
    parts += [extract(t, 'enth_sorp_whittaker.py', 'enthalpy_sorption_whittaker', 'whittaker_point',
                      ['T', 'K', 't', 'p_sat', 'n', 'n_m', 'enthalpy_vaporisation'],
                      chain=['RT', 'b', 'first_bracket', 'h_vap', 'theta', 'theta_t', 'second_bracket', 'd_lambda', 'h_st'],
                      result_append='whittaker_enth')]
    text = HEADER + '\n'.join(parts) + '\nEnd CharactGen.\n'
    path = os.path.join(out, 'CharactGen.v')
    if not os.path.exists(path) or open(path).read() != text:
        open(path, 'w').write(text)


if __name__ == '__main__':
    try:
        main(sys.argv[1], sys.argv[2])
    except Unsupported as e:
        sys.stderr.write('py2v_charact: unsupported construct: %s\n' % e)
        sys.exit(1)
