#!/venv/bin/python
"""run_baseline.py <worktree>: run the pinned test suite of the worktree and report every test of the
stable baseline (514 tests that pass on the unchanged tree) that no longer passes. Exit 0 iff none."""
import json, os, subprocess, sys, tempfile
import xml.etree.ElementTree as ET
wt = os.path.abspath(sys.argv[1])
base = json.load(open('/root/.vp/BASELINE.json'))
stable = set(base['stable_pass'])
xml = tempfile.mktemp(suffix='.xml')
env = dict(os.environ, PYTHONPATH=wt + '/src', PYTHONHASHSEED='0')
subprocess.run(['/venv/bin/python', '-m', 'pytest', '-ra', '-q', '-p', 'no:cacheprovider', '--timeout=900',
                '--continue-on-collection-errors', '--junitxml=' + xml], cwd=wt, env=env,
               stdout=subprocess.DEVNULL, stderr=subprocess.DEVNULL)
passed = set()
for tc in ET.parse(xml).getroot().iter('testcase'):
    if not any(c.tag in ('failure', 'error', 'skipped') for c in tc):
        passed.add(tc.get('classname') + '::' + tc.get('name'))
os.remove(xml)
lost = sorted(stable - passed)
print('stable baseline tests: %d, still passing: %d' % (len(stable), len(stable & passed)))
for t in lost:
    print('NO LONGER PASSING:', t)
sys.exit(1 if lost else 0)
