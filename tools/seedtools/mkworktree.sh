#!/bin/bash
# scratch worktree of /repo for seeded-change experiments: mkworktree.sh <dir>
set -e
git -C /repo worktree add -q "$1" HEAD
cp /repo/src/pygaps/_version.py "$1/src/pygaps/_version.py"
echo "$1 ready; run tests with: cd $1 && PYTHONPATH=$1/src /venv/bin/python -m pytest -q -p no:cacheprovider --timeout=900"
