"""py2v_static: the ACQUISITION TABLE of pygaps.characterisation, extracted from the AST (fail-closed). (C15)

For every characterisation entry point: each call through which it reads an isotherm -
    get_iso_loading_and_pressure_ordered(iso, branch, {loading kw}, {pressure kw})     (-> one `loading` and one `pressure` row)
    X.pressure(...), X.loading(...), X.loading_at(...), X.pressure_at(...)              (keywords, `**name` of a dict literal resolved)
with, for each of pressure_mode / pressure_unit / loading_basis / loading_unit / material_basis / material_unit, HOW it is named:
    VConst "s"   a string literal                      VNone       the literal None
    VParam "src" a value that does not come from the isotherm being read (e.g. kernel_units.get('loading_unit', 'mmol'))
    VIso "src"   an expression that mentions an isotherm object (isotherm.pressure_unit, isotherms[0].loading_unit): the
                 isotherm's OWN stored label - naming it gives the native representation, not a fixed one
(absent keyword = not in the list).
Output: <out_dir>/AcquireGen.v  :  Definition acquisitions : list acq.   (record type in Charact/Acquire.v)

A call whose keywords cannot be classified, an entry point that is missing, or an accessor call with positional unit arguments aborts.
Usage: py2v_static.py <repo_src_dir> <out_dir>
"""
import ast
import os
import sys

ENTRY = [  # (entry point, file)
    ('area_BET', 'area_bet.py'), ('area_langmuir', 'area_lang.py'), ('t_plot', 't_plots.py'), ('alpha_s', 'alphas_plots.py'),
    ('dr_plot', 'dr_da_plots.py'), ('da_plot', 'dr_da_plots.py'), ('psd_mesoporous', 'psd_meso.py'), ('psd_microporous', 'psd_micro.py'),
    ('psd_dft', 'psd_kernel.py'), ('initial_henry_slope', 'initial_henry.py'), ('initial_henry_virial', 'initial_henry.py'),
    ('isosteric_enthalpy', 'isosteric_enth.py'),
]
KEYS = ['pressure_mode', 'pressure_unit', 'loading_basis', 'loading_unit', 'material_basis', 'material_unit']
ACCESSORS = {'pressure', 'loading', 'loading_at', 'pressure_at'}
IGNORED_KW = {'branch', 'indexed', 'limits', 'interpolation_type', 'interp_fill'}
ISO_NAMES = ('isotherm', 'isotherms', 'reference_isotherm', 'iso', 'x')   # variables that hold an isotherm in these functions


class Unsupported(Exception):
    pass


def cs(s):
    if not all(32 <= ord(c) < 127 for c in s):
        raise Unsupported('non-ASCII text %r' % s)
    return '"%s"' % s.replace('"', '""')


def mentions_iso(n):
    return any(isinstance(x, ast.Name) and x.id in ISO_NAMES for x in ast.walk(n))


def classify(v, local):
    """value expression -> Coq aval"""
    if isinstance(v, ast.Constant) and isinstance(v.value, str):
        return '(VConst %s)' % cs(v.value)
    if isinstance(v, ast.Constant) and v.value is None:
        return 'VNone'
    if isinstance(v, ast.Name) and v.id in local:
        return classify(local[v.id], {})
    if mentions_iso(v):
        return '(VIso %s)' % cs(ast.unparse(v))
    if isinstance(v, (ast.Call, ast.Name, ast.Attribute, ast.Subscript)):
        return '(VParam %s)' % cs(ast.unparse(v))
    raise Unsupported('line %d: cannot classify %s' % (v.lineno, ast.unparse(v)))


def kw_pairs(keywords, local, where):
    out = []
    for k in keywords:
        if k.arg is None:    # **name
            d = k.value
            if isinstance(d, ast.Name) and d.id in local and isinstance(local[d.id], ast.Dict):
                d = local[d.id]
            if not isinstance(d, ast.Dict):
                raise Unsupported('%s: ** of something that is not a dict literal' % where)
            for kk, vv in zip(d.keys, d.values):
                if not (isinstance(kk, ast.Constant) and isinstance(kk.value, str)):
                    raise Unsupported('%s: non-literal dict key' % where)
                if kk.value in KEYS:
                    out.append((kk.value, classify(vv, local)))
                elif kk.value not in IGNORED_KW:
                    raise Unsupported('%s: unknown accessor keyword %r' % (where, kk.value))
        elif k.arg in KEYS:
            out.append((k.arg, classify(k.value, local)))
        elif k.arg not in IGNORED_KW:
            raise Unsupported('%s: unknown accessor keyword %r' % (where, k.arg))
    return out


def dict_pairs(d, local, where):
    if isinstance(d, ast.Name) and d.id in local:
        d = local[d.id]
    if not isinstance(d, ast.Dict):
        raise Unsupported('%s: units argument is not a dict literal' % where)
    out = []
    for kk, vv in zip(d.keys, d.values):
        if not (isinstance(kk, ast.Constant) and kk.value in KEYS):
            raise Unsupported('%s: unknown key %s' % (where, ast.unparse(kk)))
        out.append((kk.value, classify(vv, local)))
    return out


def scan(fn, fname):
    """-> rows (receiver, call, pairs) ; delegate target or None"""
    local = {}
    for st in ast.walk(fn):
        if isinstance(st, ast.Assign) and len(st.targets) == 1 and isinstance(st.targets[0], ast.Name):
            name = st.targets[0].id
            if name in local:
                local[name] = None    # re-assigned: not resolvable
            else:
                local[name] = st.value
    local = {k: v for k, v in local.items() if v is not None and k not in ISO_NAMES}
    rows = []
    delegate = None
    for n in ast.walk(fn):
        if not isinstance(n, ast.Call):
            continue
        where = '%s:%d' % (fname, n.lineno)
        f = n.func
        if isinstance(f, ast.Name) and f.id == 'get_iso_loading_and_pressure_ordered':
            if len(n.args) != 4 or n.keywords:
                raise Unsupported('%s: unexpected arguments of get_iso_loading_and_pressure_ordered' % where)
            recv = ast.unparse(n.args[0])
            rows.append((n.lineno, recv, 'loading', dict_pairs(n.args[2], local, where)))
            rows.append((n.lineno, recv, 'pressure', dict_pairs(n.args[3], local, where)))
        elif isinstance(f, ast.Attribute) and f.attr in ACCESSORS and mentions_iso(f.value):
            maxpos = 1 if f.attr in ('loading_at', 'pressure_at') else 0
            if len(n.args) > maxpos:
                raise Unsupported('%s: positional unit arguments in %s()' % (where, f.attr))
            rows.append((n.lineno, ast.unparse(f.value), f.attr, kw_pairs(n.keywords, local, where)))
        elif ast.unparse(f) == 'ModelIsotherm.from_pointisotherm' and n.args and mentions_iso(n.args[0]):
            # the model is fitted to the isotherm's stored columns (data_raw): a native read of both columns
            if any(k.arg in KEYS for k in n.keywords):
                raise Unsupported('%s: unit keywords passed to from_pointisotherm' % where)
            rows.append((n.lineno, ast.unparse(n.args[0]), 'native_data', []))
        elif isinstance(f, ast.Name) and f.id in dict(ENTRY) and f.id != fn.name and n.args and isinstance(n.args[0], ast.Name) and n.args[0].id == 'isotherm':
            delegate = f.id
    return rows, delegate


def main(src, out):
    d = os.path.join(src, 'pygaps', 'characterisation')
    trees = {}
    table = {}
    deleg = {}
    for name, fname in ENTRY:
        if fname not in trees:
            trees[fname] = ast.parse(open(os.path.join(d, fname), encoding='utf8').read(), fname)
        fns = [n for n in trees[fname].body if isinstance(n, ast.FunctionDef) and n.name == name]
        if len(fns) != 1:
            raise Unsupported('entry point %s not found in %s' % (name, fname))
        rows, dl = scan(fns[0], fname)
        table[name] = rows
        deleg[name] = dl
    # the helper every routine goes through must pass the two dictionaries on unchanged
    u = ast.parse(open(os.path.join(src, 'pygaps', 'utilities', 'pygaps_utilities.py'), encoding='utf8').read())
    h = [n for n in u.body if isinstance(n, ast.FunctionDef) and n.name == 'get_iso_loading_and_pressure_ordered']
    if len(h) != 1 or [a.arg for a in h[0].args.args] != ['isotherm', 'branch', 'loading_units', 'pressure_units']:
        raise Unsupported('get_iso_loading_and_pressure_ordered: unexpected signature')
    calls = sorted(ast.unparse(n) for n in ast.walk(h[0]) if isinstance(n, ast.Call) and isinstance(n.func, ast.Attribute) and n.func.attr in ACCESSORS)
    if calls != ['isotherm.loading(branch=branch, **loading_units)', 'isotherm.pressure(branch=branch, **pressure_units)']:
        raise Unsupported('get_iso_loading_and_pressure_ordered does not read isotherm.loading(branch, **loading_units) / '
                          'isotherm.pressure(branch, **pressure_units): %r' % calls)
    lines = []
    for name, _ in ENTRY:
        rows = table[name]
        if not rows and deleg[name]:
            rows = table[deleg[name]]          # dr_plot = da_plot(isotherm, exp=2, ...)
        if not rows:
            raise Unsupported('entry point %s reads no isotherm' % name)
        for ln, recv, call, pairs in sorted(rows):
            lines.append('mkAcq %s %s %s [%s]' % (cs(name), cs(recv), cs(call), '; '.join('(%s, %s)' % (cs(k), v) for k, v in pairs)))
    text = ('(* GENERATED by tools/py2v_static.py from pygaps/characterisation/*.py and utilities/pygaps_utilities.py -- do not edit; '
            'regenerated on every check run *)\nFrom Coq Require Import String List.\nFrom PG Require Import Charact.Acquire.\n'
            'Import ListNotations.\nOpen Scope string_scope.\n'
            '(* entry point, receiver, accessor, how each unit keyword is named *)\n'
            'Definition acquisitions : list acq := [\n ' + ';\n '.join(lines) + '\n].\n')
    p = os.path.join(out, 'AcquireGen.v')
    if not os.path.exists(p) or open(p).read() != text:
        open(p, 'w').write(text)


if __name__ == '__main__':
    try:
        main(sys.argv[1], sys.argv[2])
    except Unsupported as e:
        sys.stderr.write('py2v_static: unsupported: %s\n' % e)
        sys.exit(1)
