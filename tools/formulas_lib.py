"""Shared by tools/props/c10.py and c11.py: the IR of tools/py2v_formulas.py evaluated in binary64 (translator validation),
`interval` goals inside Coq against the implementation's floats, parameter samplers and the specification-side facts of
every model (validity range, saturation capacity, Henry slope, monotone-parameter condition)."""
import math
import os
import re
import subprocess
from fractions import Fraction

import vlib
import py2v_formulas

NAN = float('nan')


# ------------------------------------------------------------------ IR in binary64
def ev(e, env):
    k = e[0]
    if k == 'const': return e[1] / e[2]
    if k in ('var', 'param', 'attr'): return env[e[1]]
    if k == 'neg': return -ev(e[1], env)
    a = ev(e[1], env)
    if k == 'powi': return a ** e[2]
    if k == 'log':
        return math.log(a) if a > 0 else (-math.inf if a == 0 else NAN)
    if k == 'exp':
        try: return math.exp(a)
        except OverflowError: return math.inf
    if k == 'sqrt': return math.sqrt(a) if a >= 0 else NAN
    b = ev(e[2], env)
    if k == 'add': return a + b
    if k == 'sub': return a - b
    if k == 'mul': return a * b
    if k in ('div', 'nandiv'):
        if b == 0:
            if a == 0 or a != a: return 0.0 if k == 'nandiv' and a == 0 else NAN
            return math.copysign(math.inf, a) * (math.copysign(1, b))
        return a / b
    if k == 'pow':
        try:
            r = math.pow(a, b)
            return r
        except (ValueError, ZeroDivisionError, OverflowError):
            return NAN
    raise ValueError(k)


def ir_call(cls, method, params, attrs, x):
    """evaluate the generated straight-line method at one point in binary64"""
    m = cls['methods'][method]
    env = dict(params); env.update(attrs); env[m['arg']] = x
    for n, e in m['lets']:
        env[n] = ev(e, env)
    return ev(m['ret'], env)


def nan_branch_hit(cls, method, params, attrs, x):
    """does the nan_to_num guard fire at this point (0/0 in the raw quotient)?"""
    m = cls['methods'][method]
    if m['kind'] != 'fun' or not m.get('nan_guard'):
        return False
    env = dict(params); env.update(attrs); env[m['arg']] = x
    for n, e in m['lets']:
        if e[0] == 'nandiv':
            num, den = ev(e[1], env), ev(e[2], env)
            return den == 0 and (num == 0 or num != num)
        env[n] = ev(e, env)
    return False


def load_ir():
    return {c['class']: c for c in py2v_formulas.translate(vlib.REPO_SRC)}


# ------------------------------------------------------------------ interval goals inside Coq
GOAL_HEADER = """From Coq Require Import Reals Lra.
From Interval Require Import Tactic.
From Coquelicot Require Import Coquelicot.
From PG Require Import Models.PyReal Models.EvalTac Gen.FormulasGen.
Open Scope R_scope.
"""


def rlit(x):
    fr = Fraction(x)
    if fr.denominator == 1:
        return '%d' % fr.numerator if fr.numerator >= 0 else '(%d)' % fr.numerator
    return '(%d / %d)' % (fr.numerator, fr.denominator)


def formula_goal(cls, method, params, attrs, x, value, rtol=1e-9, atol=1e-12):
    M = cls['class']
    args = ' '.join(rlit(attrs[a]) for a in cls['attrs']) + ' ' + ' '.join(rlit(params[p]) for p in cls['params'])
    tol = rtol * abs(value) + atol
    return ('Goal Rabs (%s_%s %s %s - %s) <= %s.\nProof. unfold %s_%s. formula_interval. Qed.\n'
            % (M, method, args.strip(), rlit(x), rlit(value), rlit(Fraction(tol).limit_denominator(10 ** 30)), M, method))


def _run_files(files, timeout):
    procs = []
    res = {}
    pending = list(files)
    running = []
    while pending or running:
        while pending and len(running) < max(2, vlib.NCPU // 2):
            fn = pending.pop(0)
            cmd = 'exec timeout %d coqc -Q . PG %s' % (timeout, os.path.relpath(fn, vlib.COQ))
            running.append((fn, subprocess.Popen(['bash', '-c', cmd], cwd=vlib.COQ, stdout=subprocess.PIPE, stderr=subprocess.PIPE, text=True)))
        fn, p = running.pop(0)
        out, err = p.communicate()
        res[fn] = (p.returncode, (err or out)[-1200:])
    return res


def _cleanup(fn):
    for ext in ('.v', '.vo', '.glob', '.vok', '.vos'):
        try: os.remove(fn[:-2] + ext)
        except OSError: pass
    try: os.remove(os.path.join(os.path.dirname(fn), '.' + os.path.basename(fn)[:-2] + '.aux'))
    except OSError: pass


def run_goals(name, goals, header=GOAL_HEADER, per_file=12, timeout=600):
    """goals: list of (label, coq text of one Goal..Qed). Every goal must be accepted by coqc.
    Returns (n_ok, [(label, message)]) ; a file that fails is re-run goal by goal to name every failing case."""
    cdir = os.path.join(vlib.COQ, 'Cases')
    os.makedirs(cdir, exist_ok=True)
    files = {}
    for k in range(0, len(goals), per_file):
        fn = os.path.join(cdir, '%s_%d_%d.v' % (name, os.getpid(), k // per_file))
        open(fn, 'w').write(header + '\n' + '\n'.join(g for _, g in goals[k:k + per_file]))
        files[fn] = goals[k:k + per_file]
    res = _run_files(list(files), timeout)
    failed = []
    retry = {}
    for fn, (rc, msg) in res.items():
        if rc != 0:
            for j, (label, g) in enumerate(files[fn]):
                f2 = fn[:-2] + '_g%d.v' % j
                open(f2, 'w').write(header + '\n' + g)
                retry[f2] = (label, g)
        _cleanup(fn)
    if retry:
        res2 = _run_files(list(retry), timeout)
        for f2, (rc, msg) in res2.items():
            if rc != 0:
                failed.append((retry[f2][0], re.sub(r'\s+', ' ', msg)[-400:]))
            _cleanup(f2)
    return len(goals) - len(failed), failed


# ------------------------------------------------------------------ specification side of every model
R_GAS = 8.31446261815324


def loguni(rnd, lo, hi):
    return math.exp(rnd.uniform(math.log(lo), math.log(hi)))


def r3(x):
    """parameters are rounded to 4 significant digits: readable replay files, exact rationals stay small"""
    return float('%.4g' % x)


class Spec:
    """what the property text states about one model, as data (the oracle side; never the formula itself)"""

    def __init__(self, name, sample, prange=None, nrange=None, sat=None, henry=None, monotone=lambda p: True, attrs=None,
                 inv_rtol=1e-8, zero_defined=True, iast=False, regimes=None):
        self.name, self.sample, self.prange, self.nrange, self.sat, self.henry = name, sample, prange, nrange, sat, henry
        self.monotone, self.attrs, self.inv_rtol, self.zero_defined = monotone, attrs, inv_rtol, zero_defined
        # parameter REGIMES inside the declared bounds in which the closed forms take another branch / sign (the sign of the leading
        # coefficient of the quadratic the inverse solves, exponents on either side of 1, coinciding sites ...): every run visits each
        # of them at least once, whatever the seed; {label: function(rnd, base parameter vector) -> parameter vector}
        self.regimes = regimes or {}


def _s(rnd, **kw):
    return {k: r3(v(rnd)) for k, v in kw.items()}


NM = lambda r: r.uniform(0.5, 12)
KL = lambda r: loguni(r, 1e-2, 1e2)

SPECS = {
    'Henry': Spec('Henry', lambda r: _s(r, K=KL), prange=lambda p: (1e-3, 10.0), henry=lambda p: p['K']),
    'Langmuir': Spec('Langmuir', lambda r: _s(r, K=KL, n_m=NM), prange=lambda p: (1e-3 / p['K'], 30 / p['K']),
                     sat=lambda p: p['n_m'], henry=lambda p: p['K'] * p['n_m']),
    'DSLangmuir': Spec('DSLangmuir', lambda r: _s(r, n_m1=NM, K1=KL, n_m2=NM, K2=KL),
                       prange=lambda p: (1e-3 / max(p['K1'], p['K2']), 30 / max(p['K1'], p['K2'])),
                       sat=lambda p: p['n_m1'] + p['n_m2'], henry=lambda p: p['n_m1'] * p['K1'] + p['n_m2'] * p['K2'],
                       regimes={'K1>K2': lambda r, p: dict(p, K1=r3(p['K2'] * r.uniform(2, 50))), 'K1<K2': lambda r, p: dict(p, K2=r3(p['K1'] * r.uniform(2, 50))),
                                'K1=K2': lambda r, p: dict(p, K2=p['K1'])}),
    'TSLangmuir': Spec('TSLangmuir', lambda r: _s(r, n_m1=NM, n_m2=NM, n_m3=NM, K1=KL, K2=KL, K3=KL),
                       prange=lambda p: (1e-3 / max(p['K1'], p['K2'], p['K3']), 30 / max(p['K1'], p['K2'], p['K3'])),
                       sat=lambda p: p['n_m1'] + p['n_m2'] + p['n_m3'],
                       henry=lambda p: p['n_m1'] * p['K1'] + p['n_m2'] * p['K2'] + p['n_m3'] * p['K3'], inv_rtol=1e-6,
                       regimes={'K1=K2=K3': lambda r, p: dict(p, K2=p['K1'], K3=p['K1'])}),
    'BET': Spec('BET', lambda r: _s(r, n_m=NM, C=lambda r: loguni(r, 0.5, 300), N=lambda r: r.uniform(0.05, 1.0)),
                prange=lambda p: (1e-3 / p['N'], 0.9 / p['N']), henry=lambda p: p['n_m'] * p['C'], inv_rtol=1e-7,
                # the sign of the leading coefficient n N (N - C) of the quadratic that pressure() solves
                regimes={'C<N': lambda r, p: dict(p, N=r3(r.uniform(0.3, 1.0)), C=r3(r.uniform(0.03, 0.28))),
                         'C>N': lambda r, p: dict(p, C=r3(loguni(r, 1.5, 300)))}),
    'GAB': Spec('GAB', lambda r: _s(r, n_m=NM, C=lambda r: loguni(r, 0.5, 300), K=lambda r: r.uniform(0.05, 1.0)),
                prange=lambda p: (1e-3 / p['K'], 0.9 / p['K']), henry=lambda p: p['n_m'] * p['C'] * p['K'], inv_rtol=1e-7,
                # the sign of the leading coefficient n (1 - C) K^2
                regimes={'C<1': lambda r, p: dict(p, C=r3(r.uniform(0.03, 0.95))), 'C>1': lambda r, p: dict(p, C=r3(loguni(r, 1.2, 300)))}),
    'Freundlich': Spec('Freundlich', lambda r: _s(r, K=lambda r: loguni(r, 0.1, 10), m=lambda r: r.uniform(0.5, 5)),
                       prange=lambda p: (1e-3, 10.0),
                       regimes={'m<1': lambda r, p: dict(p, m=r3(r.uniform(0.3, 0.95))), 'm>1': lambda r, p: dict(p, m=r3(r.uniform(1.1, 5)))}),
    'DR': Spec('DR', lambda r: _s(r, n_m=NM, e=lambda r: r.uniform(2000, 15000)), prange=lambda p: (1e-4, 1.0), sat=lambda p: p['n_m'],
               attrs=lambda r: {'minus_rt': -R_GAS * r3(r.uniform(77, 350))}, zero_defined=False),
    'DA': Spec('DA', lambda r: _s(r, n_m=NM, e=lambda r: r.uniform(2000, 15000), m=lambda r: r.uniform(1, 3)), prange=lambda p: (1e-4, 0.999),
               sat=lambda p: p['n_m'], attrs=lambda r: {'minus_rt': -R_GAS * r3(r.uniform(77, 350))}, zero_defined=False),
    'Quadratic': Spec('Quadratic', lambda r: _s(r, n_m=NM, Ka=lambda r: loguni(r, 1e-2, 10), Kb=lambda r: loguni(r, 1e-3, 10)),
                      prange=lambda p: (1e-3, 20.0), sat=lambda p: 2 * p['n_m'], henry=lambda p: p['n_m'] * p['Ka'],
                      monotone=lambda p: p['Ka'] >= 0 and p['Kb'] >= 0, inv_rtol=1e-7,
                      # discriminant regimes of 1 + Ka p + Kb p^2 (real / complex roots), and the pure second-order isotherm
                      regimes={'Ka^2>4Kb': lambda r, p: dict(p, Ka=r3(r.uniform(2, 10)), Kb=r3(r.uniform(0.01, 0.9))),
                               'Ka^2<4Kb': lambda r, p: dict(p, Ka=r3(r.uniform(0.01, 1)), Kb=r3(r.uniform(1, 10)))}),
    'TemkinApprox': Spec('TemkinApprox', lambda r: _s(r, n_m=NM, K=KL, tht=lambda r: r.uniform(0, 4.5)),
                         prange=lambda p: (1e-3 / p['K'], 30 / p['K']), sat=lambda p: p['n_m'], henry=lambda p: p['n_m'] * p['K'],
                         monotone=lambda p: abs(p['tht']) <= 3, inv_rtol=1e-6,
                         regimes={'tht=0': lambda r, p: dict(p, tht=0.0), 'tht<=3': lambda r, p: dict(p, tht=r3(r.uniform(0.1, 3)))}),
    'Toth': Spec('Toth', lambda r: _s(r, n_m=NM, K=KL, t=lambda r: r.uniform(0.3, 3)), prange=lambda p: (1e-3 / p['K'], 30 / p['K']),
                 sat=lambda p: p['n_m'], henry=lambda p: p['n_m'] * p['K'], inv_rtol=1e-7,
                 regimes={'t<1': lambda r, p: dict(p, t=r3(r.uniform(0.3, 0.95))), 't>1': lambda r, p: dict(p, t=r3(r.uniform(1.1, 3))), 't=1': lambda r, p: dict(p, t=1.0)}),
    'JensenSeaton': Spec('JensenSeaton', lambda r: _s(r, K=lambda r: loguni(r, 0.1, 10), a=lambda r: r.uniform(1, 10), b=lambda r: r.uniform(0.01, 0.5),
                                                      c=lambda r: r.uniform(0.5, 3)), prange=lambda p: (1e-3, 20.0), henry=lambda p: p['K'], inv_rtol=1e-6),
    'Virial': Spec('Virial', lambda r: _s(r, K=lambda r: loguni(r, 0.1, 10), A=lambda r: r.uniform(0, 0.3), B=lambda r: r.uniform(0, 0.1),
                                          C=lambda r: r.uniform(0, 0.02)), nrange=lambda p: (0.05, 5.0), henry=lambda p: p['K'], inv_rtol=2e-3),
    'FHVST': Spec('FHVST', lambda r: _s(r, n_m=NM, K=lambda r: loguni(r, 0.1, 10), a1v=lambda r: r.uniform(-0.5, 2)),
                  nrange=lambda p: (0.01 * p['n_m'], 0.9 * p['n_m']), sat=lambda p: p['n_m'], henry=lambda p: p['K'], inv_rtol=1e-6,
                  regimes={'a1v<0': lambda r, p: dict(p, a1v=r3(r.uniform(-0.5, -0.05))), 'a1v>0': lambda r, p: dict(p, a1v=r3(r.uniform(0.05, 2)))}),
    'WVST': Spec('WVST', lambda r: _s(r, n_m=NM, K=lambda r: loguni(r, 0.1, 10), L1v=lambda r: r.uniform(0.5, 1.5), Lv1=lambda r: r.uniform(0.5, 1.5)),
                 nrange=lambda p: (0.01 * p['n_m'], 0.9 * p['n_m']), sat=lambda p: p['n_m'], henry=lambda p: p['K'], inv_rtol=1e-6),
}


def make_model(name, params, attrs=None):
    from pygaps.modelling import get_isotherm_model
    m = get_isotherm_model(name, parameters=dict(params))
    for k, v in (attrs or {}).items():
        setattr(m, k, v)
    return m


def sample_case(name, rnd, regime=None):
    """a random in-bounds parameter vector; with `regime` (a key of SPECS[name].regimes) moved into that regime"""
    sp = SPECS[name]
    params = sp.sample(rnd)
    attrs = sp.attrs(rnd) if sp.attrs else {}
    if regime is not None:
        params = sp.regimes[regime](rnd, params)
    return params, attrs


def stratified_cases(name, rnd, n_random, per_regime=1):
    """every regime of the model `per_regime` times, then n_random unconstrained vectors"""
    sp = SPECS[name]
    out = [sample_case(name, rnd, g) for g in sorted(sp.regimes) for _ in range(per_regime)]
    return out + [sample_case(name, rnd) for _ in range(n_random)]
