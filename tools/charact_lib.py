"""Helpers shared by the characterisation checks (C14, C16, C19): certified-interval goals, float literals, adsorbates."""
import os
import re
import subprocess

import vlib

IV_HEADER = """From Coq Require Import Reals QArith String.
From Interval Require Import Tactic.
From PG Require Import Lib.Num Lib.Py Gen.CharactGen.
Open Scope R_scope.
Ltac gen_unfold := cbv [da_microp_volume da_potential log_v_adj log_p_exp thickness_halsey thickness_harkins_jura thickness_zero
  convert_to_thickness kelvin_radius kelvin_radius_kjs iso_enthalpy_of_slope whittaker_point
  ndiv nmul nopp nadd nsub nofQ RNum Q2R Qnum Qden bind String.eqb Ascii.eqb Bool.eqb negb].
"""


def rlit(x):
    """Coq R term equal to the binary64 value exactly"""
    m, e = vlib.fme(x)
    return '((%d) * powerRZ 2 (%d))' % (m, e)


def zpair(x):
    return '((%d)%%Z, (%d)%%Z)' % vlib.fme(x)


def zlist(xs):
    return '[' + '; '.join(zpair(x) for x in xs) + ']'


def cbool(b):
    return 'true' if b else 'false'


def run_goals(name, goals, header=IV_HEADER, per_file=60, timeout=600):
    """goals: list of Coq propositions (strings). Each is proved by `gen_unfold; interval with (i_prec 90)`.
    Returns a list of booleans (goal proved). A goal that does not check is a disagreement, never an exception."""
    cdir = os.path.join(vlib.COQ, 'Cases')
    os.makedirs(cdir, exist_ok=True)
    res = [None] * len(goals)
    chunks = [list(range(k, min(k + per_file, len(goals)))) for k in range(0, len(goals), per_file)]

    def write(fn, idxs):
        lines = header.count('\n') + 1
        starts = {}
        with open(fn, 'w') as f:
            f.write(header + '\n')
            for i in idxs:
                starts[i] = lines + 1
                txt = 'Goal %s.\nProof. gen_unfold. interval with (i_prec 90). Qed.\n' % goals[i]
                f.write(txt)
                lines += txt.count('\n')
        return starts

    def launch(fn):
        cmd = 'exec timeout %d coqc -Q . PG %s' % (timeout, os.path.relpath(fn, vlib.COQ))
        return subprocess.Popen(['bash', '-c', cmd], cwd=vlib.COQ, stdout=subprocess.PIPE, stderr=subprocess.PIPE, text=True)
    work = [(ci, idxs) for ci, idxs in enumerate(chunks)]
    rounds = 0
    while work and rounds < 40:
        rounds += 1
        procs = []
        for ci, idxs in work[:vlib.NCPU]:
            fn = os.path.join(cdir, '%s_%d_%d.v' % (name, os.getpid(), ci))
            starts = write(fn, idxs)
            procs.append((ci, idxs, fn, starts, launch(fn)))
        rest = work[vlib.NCPU:]
        work = []
        for ci, idxs, fn, starts, p in procs:
            out, err = p.communicate()
            if p.returncode == 0:
                for i in idxs:
                    res[i] = True
                continue
            m = re.search(r'line (\d+), characters', err or out)
            if not m:
                for i in idxs:
                    res[i] = False
                continue
            ln = int(m.group(1))
            badi = max((i for i in idxs if starts[i] <= ln), key=lambda i: starts[i], default=idxs[0])
            res[badi] = False
            for i in idxs:
                if starts[i] < starts[badi]:
                    res[i] = True
            remaining = [i for i in idxs if starts[i] > starts[badi]]
            if remaining:
                work.append((ci, remaining))
        work += rest
    for ci in range(len(chunks)):
        fn = os.path.join(cdir, '%s_%d_%d.v' % (name, os.getpid(), ci))
        for ext in ('.v', '.vo', '.glob', '.vok', '.vos'):
            try:
                os.remove(fn[:-2] + ext)
            except OSError:
                pass
        try:
            os.remove(os.path.join(cdir, '.' + os.path.basename(fn)[:-2] + '.aux'))
        except OSError:
            pass
    return [bool(x) for x in res]


_ADS = {}


def adsorbate(name, **props):
    """a registered user adsorbate with constant properties (passed to isotherms by NAME, see GUIDE)"""
    import pygaps
    key = 'verif_ch_' + name
    if key not in _ADS:
        _ADS[key] = pygaps.Adsorbate(key, store=True, **props)
    return key


def rel(a, b):
    a, b = float(a), float(b)
    if a != a or b != b:
        return float('inf')
    d = max(abs(a), abs(b))
    return 0.0 if d == 0 else abs(a - b) / d
