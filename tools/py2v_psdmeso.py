"""py2v_psdmeso: fail-closed translator of the three classical mesopore recurrences of pygaps/characterisation/psd_meso.py (C16, C15).

Input : <repo_src>/pygaps/characterisation/psd_meso.py : psd_pygapsdh, psd_bjh, psd_dollimore_heal
Output: <out_dir>/PsdMesoGen.v : for each function (prefix dh / bjh / dhl), inside a Section over a carrier N : Num,
          <p>_<array>      one definition per numpy array of the vectorised prelude, as a STENCIL: a node array (one value per pressure) is a
                           function of that point's (volume, thickness, kelvin radius); an edge array (one value per pressure step, after the
                           arrays were reversed: from the highest pressure downwards) a function of the two neighbouring points
          <p>_step         one pass of the `for i, x in enumerate(edge array)` loop as a let-chain of the body's assignments in source order:
                           (what it stores into pore_volumes[i], (into pore_areas[i], (the loop-carried accumulators after the pass ...)))
          <p>_inner_*      the body of an inner `for x in range(i)` loop (BJH) as a fold step over the rows already emitted
          <p>_run          the loop itself over the list of points (+ lemma <p>_run_step: one unfolding, by conversion), <p>_edges_* the edge array
                           used by the returned distribution as a list
          psd_*_gen        the whole function: length checks, pore geometry, reversal, loop, the returned dictionary

Accepted statement shapes (anything else aborts with exit 1; the obligations depending on the output then count as broken):
  if len(relative_pressure) == 0: raise ParameterError(..)        if len(volume_adsorbed) != len(relative_pressure): raise ParameterError(..)
  if pore_geometry == '<g>': c_length = <int> elif ... else: raise ParameterError(..)       |   if pore_geometry != '<g>': raise ParameterError(..)
  volume_adsorbed = volume_adsorbed[::-1]     relative_pressure = relative_pressure[::-1]          (both, before any array is defined)
  a = thickness_model(relative_pressure) | condensation_model(relative_pressure) | -numpy.diff(node) | node[:-1] | node[1:] |
      arithmetic (+ - * / and **2) of arrays of one kind and number literals | numpy.zeros_like(edge array)
  acc = 0
  for i, x in enumerate(edge array): assignments / `out[i] = e` / `acc += e` / `acc = 0` + `for y in range(i):` (assignments, `acc += e`, arrays indexed [y] or [i])
  return {'pore_widths': node[:0:-1] [* c], 'pore_areas': out[::-1], 'pore_volumes': out[::-1], 'pore_distribution': (arithmetic of out and edge arrays)[::-1]}
Number literals are read as the decimal numbers written in the source (1e-3 = 1/1000).

Usage: py2v_psdmeso.py <repo_src_dir> <out_dir>
"""
import ast
import os
import sys
from fractions import Fraction

FUNCS = [('psd_pygapsdh', 'dh'), ('psd_bjh', 'bjh'), ('psd_dollimore_heal', 'dhl')]
PARAMS = ['volume_adsorbed', 'relative_pressure', 'pore_geometry', 'thickness_model', 'condensation_model']
RET_KEYS = ['pore_widths', 'pore_areas', 'pore_volumes', 'pore_distribution']
N3 = '(v t k : N)'
N6 = '(v1 t1 k1 v2 t2 k2 : N)'


class Unsupported(Exception):
    pass


def fail(node, msg):
    raise Unsupported('psd_meso.py:%s: %s' % (getattr(node, 'lineno', '?'), msg))


def qlit(node, src):
    txt = ast.get_source_segment(src, node)
    try:
        fr = Fraction(txt)
    except (ValueError, TypeError):
        fail(node, 'number literal %r' % txt)
    return '(@nofQ N (%d # %d))' % (fr.numerator, fr.denominator)


def is_num(n):
    return isinstance(n, ast.Constant) and isinstance(n.value, (int, float)) and not isinstance(n.value, bool)


def is_name(n, s=None):
    return isinstance(n, ast.Name) and (s is None or n.id == s)


def is_rev(n, name):
    """name[::-1]"""
    return isinstance(n, ast.Subscript) and is_name(n.value, name) and isinstance(n.slice, ast.Slice) and n.slice.lower is None and n.slice.upper is None \
        and isinstance(n.slice.step, ast.UnaryOp) and isinstance(n.slice.step.op, ast.USub) and is_num(n.slice.step.operand) and n.slice.step.operand.value == 1


OPS = {ast.Add: 'nadd', ast.Sub: 'nsub', ast.Mult: 'nmul', ast.Div: 'ndiv'}


class Fn:
    def __init__(self, fd, prefix, src):
        self.fd, self.p, self.src = fd, prefix, src
        self.arr = {}           # python name -> ('node' | 'edge' | 'out', coq definition name)
        self.order = []         # edge arrays in definition order (parameters of the loop step)
        self.outs = []          # output arrays (zeros_like) in definition order
        self.accs = []          # loop-carried accumulators (assigned 0 before the loop)
        self.defs = []          # emitted Coq text
        self.reversed = set()
        self.has_clen = False
        self.geometry = None

    # ---- vectorised prelude -------------------------------------------------------------------------------------------------------
    def aexpr(self, n):
        """-> (kind, coq term). kind 'node': free variables v t k; 'edge': v1 t1 k1 v2 t2 k2; 'scalar': closed"""
        if is_num(n):
            return 'scalar', qlit(n, self.src)
        if isinstance(n, ast.Name):
            if n.id not in self.arr or self.arr[n.id][0] == 'out':
                fail(n, 'array %s is not defined by a recognised statement' % n.id)
            kind, d = self.arr[n.id]
            return kind, '(%s %s)' % (d, 'v t k' if kind == 'node' else 'v1 t1 k1 v2 t2 k2')
        if isinstance(n, ast.UnaryOp) and isinstance(n.op, ast.USub) and isinstance(n.operand, ast.Call) and ast.unparse(n.operand.func) == 'numpy.diff' \
                and len(n.operand.args) == 1 and not n.operand.keywords:
            kind, d = self.node_of(n.operand.args[0])
            return 'edge', '(nsub (%s v1 t1 k1) (%s v2 t2 k2))' % (d, d)
        if isinstance(n, ast.Subscript) and isinstance(n.slice, ast.Slice) and n.slice.step is None:
            kind, d = self.node_of(n.value)
            lo, up = n.slice.lower, n.slice.upper
            if lo is None and isinstance(up, ast.UnaryOp) and isinstance(up.op, ast.USub) and is_num(up.operand) and up.operand.value == 1:
                return 'edge', '(%s v1 t1 k1)' % d
            if up is None and is_num(lo) and lo.value == 1:
                return 'edge', '(%s v2 t2 k2)' % d
            fail(n, 'slice %s' % ast.unparse(n))
        if isinstance(n, ast.BinOp) and isinstance(n.op, ast.Pow):
            if not (is_num(n.right) and n.right.value == 2):
                fail(n, 'power other than **2 on arrays')
            kind, a = self.aexpr(n.left)
            return kind, '(let sq_base := %s in nmul sq_base sq_base)' % a
        if isinstance(n, ast.BinOp) and type(n.op) in OPS:
            ka, a = self.aexpr(n.left)
            kb, b = self.aexpr(n.right)
            kinds = {ka, kb} - {'scalar'}
            if len(kinds) > 1:
                fail(n, 'arrays of different lengths combined: %s' % ast.unparse(n))
            return (kinds.pop() if kinds else 'scalar'), '(%s %s %s)' % (OPS[type(n.op)], a, b)
        fail(n, 'array expression %s' % ast.unparse(n))

    def node_of(self, n):
        if not (isinstance(n, ast.Name) and n.id in self.arr and self.arr[n.id][0] == 'node'):
            fail(n, '%s is not a per-pressure array defined above' % ast.unparse(n))
        return self.arr[n.id]

    def define(self, name, kind, term, node):
        if name in self.arr or name in self.accs:
            fail(node, 'array %s is assigned twice' % name)
        d = '%s_%s' % (self.p, name)
        self.defs.append('Definition %s %s : N := %s.' % (d, N3 if kind == 'node' else N6, term))
        self.arr[name] = (kind, d)
        if kind == 'edge':
            self.order.append(name)

    # ---- loop bodies --------------------------------------------------------------------------------------------------------------
    def sexpr(self, n, env, idx, xidx=None, xvars=None):
        """scalar expression inside the loop. env: python local -> coq variable; arrays indexed [idx] are the step's parameters;
        arrays indexed [xidx] (inner loop) are recorded in xvars"""
        if is_num(n):
            return qlit(n, self.src)
        if isinstance(n, ast.Name):
            if n.id == 'c_length' and self.has_clen:
                return '(@nofQ N (inject_Z (Z.of_nat c_length)))'
            if n.id in env:
                return env[n.id]
            fail(n, 'variable %s is not a local of the loop' % n.id)
        if isinstance(n, ast.Subscript) and isinstance(n.value, ast.Name) and isinstance(n.slice, ast.Name):
            a = n.value.id
            if n.slice.id == idx and a in self.arr and self.arr[a][0] == 'edge':
                return a
            if xidx is not None and n.slice.id == xidx and a in self.arr and self.arr[a][0] in ('edge', 'out'):
                if a not in xvars:
                    xvars.append(a)
                return 'x_' + a
            fail(n, 'indexing %s' % ast.unparse(n))
        if isinstance(n, ast.BinOp) and isinstance(n.op, ast.Pow):
            base = self.sexpr(n.left, env, idx, xidx, xvars)
            if is_num(n.right) and n.right.value == 2:
                return '(let sq_base := %s in nmul sq_base sq_base)' % base
            if self.has_clen and ast.unparse(n.right) == 'c_length - 1':
                return '(npow_nat N %s (c_length - 1))' % base
            fail(n, 'exponent %s' % ast.unparse(n.right))
        if isinstance(n, ast.BinOp) and type(n.op) in OPS:
            return '(%s %s %s)' % (OPS[type(n.op)], self.sexpr(n.left, env, idx, xidx, xvars), self.sexpr(n.right, env, idx, xidx, xvars))
        fail(n, 'expression %s' % ast.unparse(n))

    def loop(self, s):
        if not (isinstance(s.target, ast.Tuple) and len(s.target.elts) == 2 and all(isinstance(e, ast.Name) for e in s.target.elts)
                and isinstance(s.iter, ast.Call) and is_name(s.iter.func, 'enumerate') and len(s.iter.args) == 1 and isinstance(s.iter.args[0], ast.Name)
                and not s.orelse):
            fail(s, 'loop header %s' % ast.unparse(s).split('\n')[0])
        idx, alias, over = s.target.elts[0].id, s.target.elts[1].id, s.iter.args[0].id
        if over not in self.arr or self.arr[over][0] != 'edge':
            fail(s, 'the loop does not run over a per-step array')
        env = {alias: over}
        for a in self.accs:
            env[a] = a
        lets = []               # (coq var, term)
        stored = {}             # output array -> coq var
        k = [0]
        self.inner = None

        def fresh(nm):
            k[0] += 1
            return '%s_%d' % (nm, k[0])

        for b in s.body:
            if isinstance(b, ast.Assign) and len(b.targets) == 1 and isinstance(b.targets[0], ast.Name):
                nm = b.targets[0].id
                if nm in self.arr or nm in (idx, alias) or nm in self.accs:
                    fail(b, 'assignment to %s inside the loop' % nm)
                v = fresh(nm)
                lets.append((v, self.sexpr(b.value, env, idx)))
                env[nm] = v
            elif isinstance(b, ast.Assign) and len(b.targets) == 1 and isinstance(b.targets[0], ast.Subscript) and is_name(b.targets[0].value) \
                    and is_name(b.targets[0].slice, idx) and b.targets[0].value.id in self.outs:
                o = b.targets[0].value.id
                if o in stored:
                    fail(b, '%s[%s] stored twice' % (o, idx))
                v = fresh('st_' + o)
                lets.append((v, self.sexpr(b.value, env, idx)))
                stored[o] = v
            elif isinstance(b, ast.AugAssign) and isinstance(b.op, ast.Add) and is_name(b.target) and b.target.id in self.accs:
                v = fresh(b.target.id)
                lets.append((v, '(nadd %s %s)' % (env[b.target.id], self.sexpr(b.value, env, idx))))
                env[b.target.id] = v
            elif isinstance(b, ast.For):
                if self.inner is not None:
                    fail(b, 'more than one inner loop')
                if not (is_name(b.target) and isinstance(b.iter, ast.Call) and is_name(b.iter.func, 'range') and len(b.iter.args) == 1
                        and is_name(b.iter.args[0], idx) and not b.orelse):
                    fail(b, 'inner loop header %s' % ast.unparse(b).split('\n')[0])
                xidx = b.target.id
                # the single accumulator of the inner loop: a local that was set to the literal 0 just before
                ienv = dict(env)
                ilets, xvars, acc = [], [], None
                for ib in b.body:
                    if isinstance(ib, ast.Assign) and len(ib.targets) == 1 and is_name(ib.targets[0]) and ib.targets[0].id not in env and ib.targets[0].id not in self.arr:
                        v = fresh(ib.targets[0].id)
                        ilets.append((v, self.sexpr(ib.value, ienv, idx, xidx, xvars)))
                        ienv[ib.targets[0].id] = v
                    elif isinstance(ib, ast.AugAssign) and isinstance(ib.op, ast.Add) and is_name(ib.target) and ib.target.id in env and acc in (None, ib.target.id):
                        acc = ib.target.id
                        if any(acc == p for p in self.accs):
                            fail(ib, 'the inner loop accumulates into a loop-carried variable')
                        v = fresh(acc)
                        ilets.append((v, '(nadd %s %s)' % (ienv[acc], self.sexpr(ib.value, ienv, idx, xidx, xvars))))
                        ienv[acc] = v
                    else:
                        fail(ib, 'inner loop statement %s' % ast.unparse(ib).split('\n')[0])
                if acc is None or not xvars:
                    fail(b, 'inner loop without accumulator or without indexed arrays')
                for o in xvars:
                    if o in self.outs and o not in stored and False:
                        pass
                init = env[acc]
                name = '%s_inner_%s' % (self.p, acc)
                body = ''.join('let %s := %s in ' % (v, t) for v, t in ilets) + ienv[acc]
                self.defs.append('Definition %s %s %s (%s : N) : N :=\n  %s.' % (
                    name, ' '.join('(x_%s : N)' % a for a in xvars), self.step_params(alias=None), init, body))
                self.inner = (xvars, name, acc)
                v = fresh(acc)
                acc_args = self.tuple_access('xa', len(xvars))
                lets.append((v, '(fold_left (fun s xa => %s %s %s s) prev %s)' % (name, ' '.join(acc_args), self.step_args_formal(), init)))
                env[acc] = v
            else:
                fail(b, 'loop statement %s' % ast.unparse(b).split('\n')[0])
        for o in self.outs:
            if o not in stored:
                fail(s, 'output array %s is not stored in the loop' % o)
        chain = ''.join('let %s := %s in ' % (v, t) for v, t in lets)
        params = self.step_params(alias=None) + ''.join(' (%s : N)' % a for a in self.accs) + (' (prev : list %s)' % self.tuple_type(len(self.inner[0])) if self.inner else '')
        pre = 'let %s := %s in ' % (alias, over) if alias != over else ''
        # the loop variable `alias` is the current element of `over`: env maps it to `over`, so no let is needed
        # one pass of the loop: (pore_volumes[i], (pore_areas[i], (accumulators after the pass ...)))
        comps = [stored['pore_volumes'], stored['pore_areas']] + [env[a] for a in self.accs] if set(self.outs) == {'pore_areas', 'pore_volumes'} else None
        if comps is None:
            fail(s, 'output arrays are %s' % self.outs)
        self.step_arity = len(comps)
        self.defs.append('Definition %s_step %s : %s :=\n  %s%s.' % (self.p, params, self.tuple_type(len(comps)), chain, self.tuple_make(comps)))
        self.stored = stored

    def clen(self):
        return '(c_length : nat) ' if self.has_clen else ''

    def step_params(self, alias):
        return self.clen() + ' '.join('(%s : N)' % a for a in self.order)

    def step_args_formal(self):
        return ('c_length ' if self.has_clen else '') + ' '.join(self.order)

    @staticmethod
    def tuple_type(n):
        return 'N' if n == 1 else '(N * %s)' % Fn.tuple_type(n - 1)

    @staticmethod
    def tuple_access(v, n):
        out, cur = [], v
        for i in range(n):
            if i == n - 1:
                out.append(cur if n > 1 else v)
            else:
                out.append('(fst %s)' % cur)
                cur = '(snd %s)' % cur
        return out

    @staticmethod
    def tuple_make(xs):
        return xs[0] if len(xs) == 1 else '(%s, %s)' % (xs[0], Fn.tuple_make(xs[1:]))

    # ---- the function ---------------------------------------------------------------------------------------------------------------
    def translate(self):
        fd, p = self.fd, self.p
        if [a.arg for a in fd.args.args] != PARAMS or fd.args.defaults or fd.args.vararg or fd.args.kwarg or fd.args.kwonlyargs:
            fail(fd, 'signature of %s' % fd.name)
        body = list(fd.body)
        if body and isinstance(body[0], ast.Expr) and isinstance(body[0].value, ast.Constant) and isinstance(body[0].value.value, str):
            body = body[1:]

        def raises_pe(st):
            return len(st) == 1 and isinstance(st[0], ast.Raise) and isinstance(st[0].exc, ast.Call) and is_name(st[0].exc.func, 'ParameterError')
        # 1-2: length checks
        want = ['len(relative_pressure) == 0', 'len(volume_adsorbed) != len(relative_pressure)']
        for w in want:
            s = body.pop(0) if body else None
            if not (isinstance(s, ast.If) and ast.unparse(s.test) == w and raises_pe(s.body) and not s.orelse):
                fail(s or fd, 'expected `if %s: raise ParameterError(...)`' % w)
        # 3: pore geometry
        s = body.pop(0)
        if not isinstance(s, ast.If):
            fail(s, 'expected the pore geometry test')
        table = []
        cur = s
        while True:
            t = cur.test
            if isinstance(t, ast.Compare) and is_name(t.left, 'pore_geometry') and len(t.ops) == 1 and isinstance(t.comparators[0], ast.Constant) \
                    and isinstance(t.comparators[0].value, str):
                g = t.comparators[0].value
                if isinstance(t.ops[0], ast.NotEq) and not table and raises_pe(cur.body) and not cur.orelse:
                    self.geometry = ('only', g)
                    break
                if isinstance(t.ops[0], ast.Eq) and len(cur.body) == 1 and isinstance(cur.body[0], ast.Assign) and is_name(cur.body[0].targets[0], 'c_length') \
                        and isinstance(cur.body[0].value, ast.Constant) and isinstance(cur.body[0].value.value, int) and cur.body[0].value.value >= 1:
                    table.append((g, cur.body[0].value.value))
                    if len(cur.orelse) == 1 and isinstance(cur.orelse[0], ast.If):
                        cur = cur.orelse[0]
                        continue
                    if raises_pe(cur.orelse):
                        self.geometry = ('table', table)
                        self.has_clen = True
                        break
            fail(cur, 'pore geometry test %s' % ast.unparse(cur.test))
        # 4: statements up to the loop
        ret = None
        seen_loop = False
        for s in body:
            if isinstance(s, ast.Return):
                ret = s
                if s is not body[-1]:
                    fail(s, 'statements after return')
                break
            if seen_loop:
                fail(s, 'statement after the loop: %s' % ast.unparse(s).split('\n')[0])
            if isinstance(s, ast.For):
                if self.reversed != {'volume_adsorbed', 'relative_pressure'}:
                    fail(s, 'the arrays are not reversed before the loop')
                self.loop(s)
                seen_loop = True
                continue
            if not (isinstance(s, ast.Assign) and len(s.targets) == 1 and isinstance(s.targets[0], ast.Name)):
                fail(s, 'statement %s' % ast.unparse(s).split('\n')[0])
            nm, v = s.targets[0].id, s.value
            if nm in ('volume_adsorbed', 'relative_pressure'):
                if not is_rev(v, nm) or nm in self.reversed or self.arr:
                    fail(s, 'assignment to %s' % nm)
                self.reversed.add(nm)
                if nm == 'volume_adsorbed':
                    pass
                continue
            if self.reversed != {'volume_adsorbed', 'relative_pressure'}:
                fail(s, 'array defined before both input arrays are reversed')
            if 'volume_adsorbed' not in self.arr:
                self.defs.append('Definition %s_volume_adsorbed %s : N := v.' % (p, N3))
                self.arr['volume_adsorbed'] = ('node', p + '_volume_adsorbed')
            if isinstance(v, ast.Call) and isinstance(v.func, ast.Name) and v.func.id in ('thickness_model', 'condensation_model') and len(v.args) == 1 \
                    and is_name(v.args[0], 'relative_pressure') and not v.keywords:
                self.define(nm, 'node', 't' if v.func.id == 'thickness_model' else 'k', s)
            elif isinstance(v, ast.Call) and ast.unparse(v.func) == 'numpy.zeros_like' and len(v.args) == 1 and is_name(v.args[0]) \
                    and self.arr.get(v.args[0].id, ('', ''))[0] == 'edge' and not v.keywords:
                if nm in self.arr:
                    fail(s, 'array %s assigned twice' % nm)
                self.arr[nm] = ('out', None)
                self.outs.append(nm)
            elif is_num(v) and v.value == 0:
                if nm in self.arr or nm in self.accs:
                    fail(s, '%s assigned twice' % nm)
                self.accs.append(nm)
            else:
                kind, term = self.aexpr(v)
                if kind == 'scalar':
                    fail(s, 'scalar assignment %s' % ast.unparse(s))
                self.define(nm, kind, term, s)
        if ret is None or not seen_loop:
            fail(fd, 'no loop or no return')
        if set(self.outs) != {'pore_areas', 'pore_volumes'}:
            fail(fd, 'output arrays are %s' % self.outs)
        # 5: the returned dictionary
        if not (isinstance(ret.value, ast.Dict) and [k.value if isinstance(k, ast.Constant) else None for k in ret.value.keys] == RET_KEYS):
            fail(ret, 'returned dictionary keys')
        rv = dict(zip(RET_KEYS, ret.value.values))
        # widths: node[:0:-1] [* c]
        w = rv['pore_widths']
        mult = None
        if isinstance(w, ast.BinOp) and isinstance(w.op, ast.Mult) and is_num(w.right):
            w, mult = w.left, qlit(rv['pore_widths'].right, self.src)
        sl = w.slice if isinstance(w, ast.Subscript) else None
        if not (isinstance(sl, ast.Slice) and sl.lower is None and is_num(sl.upper) and sl.upper.value == 0 and isinstance(sl.step, ast.UnaryOp)
                and isinstance(sl.step.op, ast.USub) and is_num(sl.step.operand) and sl.step.operand.value == 1):
            fail(ret, 'pore_widths is not <array>[:0:-1]')
        kind, d = self.node_of(w.value)
        term = '(%s v t k)' % d
        self.defs.append('Definition %s_ret_pore_widths %s : N := %s.' % (p, N3, term if mult is None else '(nmul %s %s)' % (term, mult)))
        for key in ('pore_areas', 'pore_volumes'):
            if not is_rev(rv[key], key):
                fail(ret, '%s is not %s[::-1]' % (key, key))
        dd = rv['pore_distribution']
        if not (isinstance(dd, ast.Subscript) and is_rev(ast.Subscript(value=ast.Name(id='_', ctx=ast.Load()), slice=dd.slice, ctx=ast.Load()), '_')):
            fail(ret, 'pore_distribution is not (...)[::-1]')
        used = []

        def dexpr(n):
            if is_num(n):
                return qlit(n, self.src)
            if is_name(n, 'pore_volumes'):
                return 'pore_volumes'
            if isinstance(n, ast.Name) and self.arr.get(n.id, ('', ''))[0] == 'edge':
                if n.id not in used:
                    used.append(n.id)
                return n.id
            if isinstance(n, ast.BinOp) and type(n.op) in OPS:
                return '(%s %s %s)' % (OPS[type(n.op)], dexpr(n.left), dexpr(n.right))
            fail(n, 'pore_distribution expression %s' % ast.unparse(n))
        dterm = dexpr(dd.value)
        if len(used) != 1:
            fail(ret, 'pore_distribution uses %d per-step arrays (expected 1)' % len(used))
        self.defs.append('Definition %s_ret_pore_distribution (pore_volumes %s : N) : N := %s.' % (p, used[0], dterm))
        self.dist_edge = used[0]
        self.emit_driver()

    def emit_driver(self):
        p = self.p
        E = ' '.join('(%s %s)' % (self.arr[a][1], 'v1 t1 k1 v2 t2 k2') for a in self.order)
        cl = 'c_length ' if self.has_clen else ''
        accs = ' '.join(self.accs)
        prev = ' prev' if self.inner else ''
        step = '(%s_step %s%s %s%s)' % (p, cl, E, accs, prev)

        def pieces(sv):
            proj = self.tuple_access(sv, self.step_arity)
            pv, pa, nxt = proj[0], proj[1], ' '.join(proj[2:])
            if self.inner:
                vals = ['(%s v1 t1 k1 v2 t2 k2)' % self.arr[a][1] if self.arr[a][0] == 'edge' else {'pore_areas': pa, 'pore_volumes': pv}[a] for a in self.inner[0]]
                nprev = ' (prev ++ [%s])' % self.tuple_make(vals)
            else:
                nprev = ''
            return pv, pa, nxt, nprev
        sig = '%s(l : list (N * (N * N)))%s%s' % (self.clen(), ''.join(' (%s : N)' % a for a in self.accs),
                                              (' (prev : list %s)' % self.tuple_type(len(self.inner[0])) if self.inner else ''))
        pv, pa, nxt, nprev = pieces('s')
        self.defs.append(
            'Fixpoint %s_run %s : list (N * N) :=\n'
            '  match l with\n  | (v1, (t1, k1)) :: r =>\n      match r with\n      | (v2, (t2, k2)) :: _ =>\n'
            '          let s := %s in\n          (%s, %s) :: %s_run %sr %s%s\n      | [] => [] end\n  | [] => [] end.' % (p, sig, step, pv, pa, p, cl, nxt, nprev))
        # one unfolding of the loop, stated (without the sharing `let`) for the proofs that relate it to other formulations; closed by conversion
        pv, pa, nxt, nprev = pieces(step)
        self.defs.append(
            'Lemma %s_run_step %s(v1 t1 k1 v2 t2 k2 : N) (r : list (N * (N * N)))%s%s :\n'
            '  %s_run %s((v1, (t1, k1)) :: (v2, (t2, k2)) :: r) %s%s =\n'
            '  (%s, %s) :: %s_run %s((v2, (t2, k2)) :: r) %s%s.\nProof. reflexivity. Qed.' % (
                p, self.clen(), ''.join(' (%s : N)' % a for a in self.accs), (' (prev : list %s)' % self.tuple_type(len(self.inner[0])) if self.inner else ''),
                p, cl, accs, prev, pv, pa, p, cl, nxt, nprev))
        d = self.arr[self.dist_edge][1]
        self.defs.append(
            'Fixpoint %s_edges_%s (l : list (N * (N * N))) : list N :=\n'
            '  match l with\n  | (v1, (t1, k1)) :: r =>\n      match r with\n      | (v2, (t2, k2)) :: _ => %s v1 t1 k1 v2 t2 k2 :: %s_edges_%s r\n      | [] => [] end\n  | [] => [] end.' % (
                p, self.dist_edge, d, p, self.dist_edge))
        zeros = ' '.join('(@nofQ N (0 # 1))' for _ in self.accs)
        run = '%s_run %sl %s%s' % (p, cl, zeros, ' []' if self.inner else '')
        result = ('let l := desc N vol thick kr in\n      let out := %s in\n'
                  '      Ok (mkPsd N (rev (tl (map (fun x => %s_ret_pore_widths (fst x) (fst (snd x)) (snd (snd x))) l)))\n'
                  '                  (rev (map snd out)) (rev (map fst out))\n'
                  '                  (rev (map2 %s_ret_pore_distribution (map fst out) (%s_edges_%s l))))' % (run, p, p, p, self.dist_edge))
        if self.geometry[0] == 'table':
            tbl = self.geometry[1]
            cases = ''.join('if String.eqb g "%s" then Some %d%%nat else ' % (g, c) for g, c in tbl) + 'None'
            self.defs.append('Definition %s_c_length (g : string) : option nat := %s.' % (p, cases))
            geo = '(match %s_c_length g with None => Err ParameterError | Some c_length =>\n      %s end)' % (p, result)
        else:
            geo = '(if negb (String.eqb g "%s") then Err ParameterError else\n      %s)' % (self.geometry[1], result)
        self.defs.append('Lemma %s_edges_step (v1 t1 k1 v2 t2 k2 : N) (r : list (N * (N * N))) :\n  %s_edges_%s ((v1, (t1, k1)) :: (v2, (t2, k2)) :: r) = %s v1 t1 k1 v2 t2 k2 :: %s_edges_%s ((v2, (t2, k2)) :: r).\nProof. reflexivity. Qed.' % (
            p, p, self.dist_edge, self.arr[self.dist_edge][1], p, self.dist_edge))
        self.defs.append('Definition %s_gen (vol thick kr : list N) (g : string) : res (psd_result N) :=\n  len_checks N vol kr\n    %s.' % (self.fd.name, geo))


KELVIN_KW = ['temperature', 'liquid_density', 'adsorbate_molar_mass', 'adsorbate_surface_tension']


def wrapper_tables(tree):
    """psd_mesoporous: where the physical inputs of the Kelvin model come from, and the census of process-wide state of psd_meso.py"""
    sys.path.insert(0, os.path.dirname(os.path.abspath(__file__)))
    from py2v_hk import module_state
    fds = [n for n in tree.body if isinstance(n, ast.FunctionDef) and n.name == 'psd_mesoporous']
    if len(fds) != 1:
        raise Unsupported('psd_meso.py: psd_mesoporous not found exactly once')
    fd = fds[0]
    calls = [n for n in ast.walk(fd) if isinstance(n, ast.Call) and is_name(n.func, 'get_kelvin_model')]
    if len(calls) != 1:
        fail(fd, 'expected exactly one get_kelvin_model(...) call in psd_mesoporous, found %d' % len(calls))
    kws = {k.arg: k.value for k in calls[0].keywords}

    def source(v, depth=0):
        txt = ast.unparse(v)
        if txt == 'isotherm.temperature':
            return 'IsothermTemperature'
        if isinstance(v, ast.Call) and isinstance(v.func, ast.Attribute) and ast.unparse(v.func.value) == 'isotherm.adsorbate' and not v.keywords:
            args = [ast.unparse(a) for a in v.args]
            if args == ['isotherm.temperature']:
                return 'AdsorbateMethodAtIsothermTemperature "%s"' % v.func.attr
            if args == []:
                return 'AdsorbateMethod "%s"' % v.func.attr
        if isinstance(v, ast.Name) and depth == 0:
            stores = [n for n in ast.walk(fd) if isinstance(n, (ast.Assign, ast.AugAssign, ast.AnnAssign, ast.For, ast.With, ast.NamedExpr))
                      and any(isinstance(x, ast.Name) and x.id == v.id and isinstance(x.ctx, ast.Store) for x in ast.walk(n) if not isinstance(n, ast.For) or x in ast.walk(n.target))]
            top = [n for n in fd.body if isinstance(n, ast.Assign) and len(n.targets) == 1 and is_name(n.targets[0], v.id)]
            if len(stores) == 1 and len(top) == 1 and stores[0] is top[0]:
                return source(top[0].value, 1)
            return 'OtherInput "%s assigned %d time(s): %s"' % (v.id, len(stores), '; '.join(ast.unparse(n).split('\n')[0].replace('"', "'") for n in stores)[:200])
        return 'OtherInput "%s"' % txt.replace('"', "'").replace('\n', ' ')[:200]
    rows = []
    for k in KELVIN_KW:
        if k not in kws:
            fail(calls[0], 'get_kelvin_model is not given %s' % k)
        rows.append('("%s", %s)' % (k, source(kws[k])))
    writes = module_state(tree)
    return ['(* psd_mesoporous: where the physical inputs handed to get_kelvin_model come from (each through ONE top-level assignment), and the census of',
            '   process-wide state of psd_meso.py: every (name, function) where a function writes to a module-level name / function attribute / argument or',
            '   carries a memoising decorator *)',
            'Inductive kelvin_input : Set := IsothermTemperature | AdsorbateMethod (method : string) | AdsorbateMethodAtIsothermTemperature (method : string) | OtherInput (text : string).',
            'Definition psd_mesoporous_kelvin_inputs : list (string * kelvin_input) := [%s].' % '; '.join(rows),
            'Definition psd_meso_module_writes : list (string * string) := [%s].' % '; '.join('("%s", "%s")' % (a.replace('"', "'"), b) for a, b in writes), '']


def translate(src_dir):
    fn = os.path.join(src_dir, 'pygaps/characterisation/psd_meso.py')
    src = open(fn).read()
    tree = ast.parse(src)
    out = ['(* GENERATED by tools/py2v_psdmeso.py from pygaps/characterisation/psd_meso.py -- do not edit; regenerated on every check run.',
           '   The vectorised numpy prelude of psd_pygapsdh / psd_bjh / psd_dollimore_heal as stencils over the reversed (volume, thickness,',
           '   kelvin radius) points, the loop bodies as let-chains in source order, the loops and the returned arrays. *)',
           'From Coq Require Import QArith ZArith String List Bool.',
           'From PG Require Import Lib.Num Lib.Py Charact.ListAux Charact.PsdMeso.',
           'Import ListNotations.', 'Open Scope string_scope.', ''] + wrapper_tables(tree) + ['Section Gen.', 'Variable N : Num.', '']
    for pyname, prefix in FUNCS:
        fds = [n for n in tree.body if isinstance(n, ast.FunctionDef) and n.name == pyname]
        if len(fds) != 1:
            raise Unsupported('psd_meso.py: function %s not found exactly once' % pyname)
        f = Fn(fds[0], prefix, src)
        f.translate()
        out.append('(* ---- %s *)' % pyname)
        out += f.defs
        out.append('')
    out.append('End Gen.')
    return '\n'.join(out) + '\n'


def main():
    src, outdir = sys.argv[1], sys.argv[2]
    try:
        text = translate(src)
    except Unsupported as e:
        sys.stderr.write('py2v_psdmeso: unsupported: %s\n' % e)
        sys.exit(1)
    path = os.path.join(outdir, 'PsdMesoGen.v')
    if not os.path.exists(path) or open(path).read() != text:
        open(path, 'w').write(text)


if __name__ == '__main__':
    main()
