"""py2v_tables: fail-closed translator of the DATA the codec / identity models depend on into Gallina (Gen/TablesGen.v).

Read from the current source by `ast` (never imported, never executed):
  core/baseisotherm.py   SHORTHANDS, BaseIsotherm._required_params / _unit_params / _reserved_params, __init__ argument names,
                         the ORDER in which __init__ assigns attributes of self; the test of the unit-default loop; BaseIsotherm.to_dict statement by statement as a
                         straight-line program (to_dict_program); for every method of the three isotherm classes the names it binds on
                         the isotherm object (method_assigns: assignments, deletions, loop / with targets, setattr with a literal name,
                         in-place writes of the metadata dict)
  core/pointisotherm.py  PointIsotherm._reserved_params (= Base + [...]), __init__ argument names, attributes assigned by __init__
  core/modelisotherm.py  ModelIsotherm._reserved_params, __init__ argument names, attributes assigned by __init__
  core/material.py       Material._reserved_params; core/material.py + core/adsorbate.py: for EVERY method of Material / Adsorbate the names it
                         writes on the object and the methods / properties of the class it reaches through self (holder_methods)
  parsing/json.py csv.py excel.py aif.py   _parser_version, _META_DICT (excel: name -> row; aif: tag -> (text, type)), _DATA_DICT, _UNITS_DICT
  parsing/__init__.py    _PARSER_PRECISION
  modelling/*.py         name -> param_names of every model class
Any shape outside what is expected aborts (exit 1): the obligations depending on Gen/TablesGen.v then count as broken.

Usage: py2v_tables.py <repo_src_dir> <out_dir>
"""
import ast
import os
import sys


class Unsupported(Exception):
    pass


def parse(src, rel):
    path = os.path.join(src, 'pygaps', rel)
    return ast.parse(open(path, encoding='utf8').read(), path), path


def lit(node, env, where):
    """literal evaluation extended with Name / Attribute references to already known tables and list `+`"""
    if isinstance(node, ast.BinOp) and isinstance(node.op, ast.Add):
        return lit(node.left, env, where) + lit(node.right, env, where)
    if isinstance(node, ast.Attribute) and isinstance(node.value, ast.Name):
        key = node.value.id + '.' + node.attr
        if key in env:
            return env[key]
    if isinstance(node, ast.Name) and node.id in env:
        return env[node.id]
    if isinstance(node, ast.Dict):
        return {lit(k, env, where): lit(v, env, where) for k, v in zip(node.keys, node.values)}
    if isinstance(node, (ast.List, ast.Tuple)):
        return [lit(e, env, where) for e in node.elts]
    if isinstance(node, ast.Name) and node.id in ('float', 'str', 'int'):
        return 'type:' + node.id
    try:
        return ast.literal_eval(node)
    except Exception:
        raise Unsupported('%s: unsupported literal %s' % (where, ast.dump(node)[:200]))


def assigns(body):
    for st in body:
        if isinstance(st, ast.Assign) and len(st.targets) == 1 and isinstance(st.targets[0], ast.Name):
            yield st.targets[0].id, st.value, st
        elif isinstance(st, ast.AnnAssign) and isinstance(st.target, ast.Name) and st.value is not None:
            yield st.target.id, st.value, st


def find_class(tree, name, path):
    for st in tree.body:
        if isinstance(st, ast.ClassDef) and st.name == name:
            return st
    raise Unsupported('%s: class %s not found' % (path, name))


def init_info(cls, path):
    """argument names of __init__ (without self / **kwargs) and the attributes of self assigned in it, in order"""
    for st in cls.body:
        if isinstance(st, ast.FunctionDef) and st.name == '__init__':
            args = [a.arg for a in st.args.args[1:]] + [a.arg for a in st.args.kwonlyargs]
            attrs = []
            for n in ast.walk(st):
                pass
            # source order: walk statements recursively in order
            def visit(stmts):
                for s in stmts:
                    if isinstance(s, (ast.Assign, ast.AnnAssign)):
                        tg = s.targets if isinstance(s, ast.Assign) else [s.target]
                        for t in tg:
                            if isinstance(t, ast.Attribute) and isinstance(t.value, ast.Name) and t.value.id == 'self' and t.attr not in attrs:
                                attrs.append(t.attr)
                    for fld in ('body', 'orelse', 'finalbody'):
                        if hasattr(s, fld) and isinstance(getattr(s, fld), list):
                            visit(getattr(s, fld))
                    if isinstance(s, ast.Try):
                        for h in s.handlers:
                            visit(h.body)
            visit(st.body)
            return args, attrs, (st.args.kwarg.arg if st.args.kwarg else None)
    raise Unsupported('%s: %s.__init__ not found' % (path, cls.name))


def _self_attr(node):
    """`self.X` -> 'X' (else None)"""
    if isinstance(node, ast.Attribute) and isinstance(node.value, ast.Name) and node.value.id == 'self':
        return node.attr
    return None


def _targets(node):
    """flatten assignment targets (tuples / lists / starred)"""
    if isinstance(node, (ast.Tuple, ast.List)):
        for e in node.elts:
            yield from _targets(e)
    elif isinstance(node, ast.Starred):
        yield from _targets(node.value)
    else:
        yield node


# methods of containers that change the container in place
_MUTATING_CALLS = {'update', 'pop', 'popitem', 'clear', 'setdefault', 'append', 'extend', 'insert', 'remove', 'sort', 'reverse',
                   '__setitem__', '__delitem__', '__setattr__', '__delattr__'}


def method_census(cls, path, setters):
    """For every method of the class whose first argument is `self`: what it binds ON THE ISOTHERM OBJECT.
       'X'    self.X = / += / del self.X / for self.X in / with .. as self.X / setattr(self, 'X', ..) / delattr(self, 'X')
              (a name with a property setter is recorded under the attribute the setter stores: '_X')
       'X[]'  self.X[..] = / += / del self.X[..]   and in-place container methods self.X.update(..) / .pop / .clear / ...
              only for X = properties (the metadata dict) - other held objects (data frame, model) are the business of C04
       Anything that reaches the instance dictionary by another way (self.__dict__, vars(self) other than `vars(self).copy()`,
       setattr / delattr with a computed name) aborts: fail-closed.
       -> [(method, kind, [names])] for methods binding something; kind: init | setter | property | method"""
    out = []
    for st in cls.body:
        if not isinstance(st, (ast.FunctionDef, ast.AsyncFunctionDef)):
            continue
        allargs = st.args.posonlyargs + st.args.args
        if not allargs or allargs[0].arg != 'self':
            continue
        kind = 'method'
        for d in st.decorator_list:
            if isinstance(d, ast.Attribute) and d.attr == 'setter':
                kind = 'setter'
            elif isinstance(d, ast.Name) and d.id == 'property':
                kind = 'property'
            elif isinstance(d, ast.Attribute) and d.attr in ('getter', 'deleter'):
                kind = 'setter' if d.attr == 'deleter' else 'property'
        if st.name == '__init__':
            kind = 'init'
        names = []

        def rec(n):
            if n not in names:
                names.append(n)

        def bind(t):
            for x in _targets(t):
                a = _self_attr(x)
                if a is not None:
                    rec('_' + a if a in setters else a)
                elif isinstance(x, ast.Subscript):
                    b = _self_attr(x.value)
                    if b == 'properties':
                        rec(b + '[]')
        where = '%s: %s.%s' % (path, cls.name, st.name)
        allowed_vars = set()
        for n in ast.walk(st):
            # vars(self).copy() is the one reading use of the instance dictionary that is understood
            if isinstance(n, ast.Call) and isinstance(n.func, ast.Attribute) and n.func.attr == 'copy' and not n.args \
               and isinstance(n.func.value, ast.Call) and isinstance(n.func.value.func, ast.Name) and n.func.value.func.id == 'vars':
                allowed_vars.add(id(n.func.value))
        for n in ast.walk(st):
            if isinstance(n, ast.Assign):
                for t in n.targets:
                    bind(t)
            elif isinstance(n, (ast.AugAssign, ast.AnnAssign)):
                if not (isinstance(n, ast.AnnAssign) and n.value is None):
                    bind(n.target)
            elif isinstance(n, ast.Delete):
                for t in n.targets:
                    bind(t)
            elif isinstance(n, (ast.For, ast.AsyncFor, ast.comprehension)):
                bind(n.target)
            elif isinstance(n, ast.withitem) and n.optional_vars is not None:
                bind(n.optional_vars)
            elif isinstance(n, ast.Attribute) and n.attr == '__dict__' and isinstance(n.value, ast.Name) and n.value.id == 'self':
                raise Unsupported(where + ': self.__dict__ is used')
            elif isinstance(n, ast.Call):
                f = n.func
                if isinstance(f, ast.Name) and f.id in ('vars', 'setattr', 'delattr', 'object'):
                    on_self = bool(n.args) and isinstance(n.args[0], ast.Name) and n.args[0].id == 'self'
                    if f.id == 'vars' and on_self and id(n) not in allowed_vars:
                        raise Unsupported(where + ': vars(self) is used other than as vars(self).copy()')
                    if f.id in ('setattr', 'delattr') and on_self:
                        if len(n.args) >= 2 and isinstance(n.args[1], ast.Constant) and isinstance(n.args[1].value, str):
                            a = n.args[1].value
                            rec('_' + a if a in setters else a)
                        else:
                            raise Unsupported(where + ': %s(self, <computed name>, ..)' % f.id)
                elif isinstance(f, ast.Attribute) and f.attr in _MUTATING_CALLS:
                    if _self_attr(f.value) == 'properties':
                        rec('properties[]')
                    elif isinstance(f.value, ast.Name) and f.value.id == 'self' and f.attr in ('__setattr__', '__delattr__'):
                        raise Unsupported(where + ': self.%s(..)' % f.attr)
        if names:
            out.append((st.name, kind, names))
    return out


def unit_default_rule(cls, path):
    """the loop of BaseIsotherm.__init__ that fills in unit defaults:
           for <u>, <d> in self._unit_params.items():
               if <u> not in <kw>: ...; <kw>[<u>] = <d>
       -> 'absent' (a default is used only when the keyword is ABSENT; an explicit None - the stored label of a relative pressure or
       a fraction / percent loading - is kept, which is what the model's constructor does: `getd k kw default`).
       Any other test (e.g. `<kw>.get(<u>) is None`) or loop body aborts: the model would no longer describe the constructor."""
    init = None
    for st in cls.body:
        if isinstance(st, ast.FunctionDef) and st.name == '__init__':
            init = st
    if init is None or init.args.kwarg is None:
        raise Unsupported(path + ': BaseIsotherm.__init__(**kw) not found')
    kw = init.args.kwarg.arg
    loops = [n for n in ast.walk(init) if isinstance(n, ast.For) and isinstance(n.iter, ast.Call) and isinstance(n.iter.func, ast.Attribute)
             and n.iter.func.attr == 'items' and _self_attr(n.iter.func.value) == '_unit_params']
    if len(loops) != 1:
        raise Unsupported(path + ': expected exactly one loop over self._unit_params.items() in __init__')
    lp = loops[0]
    bad = Unsupported('%s: unit-default loop outside the understood shape at line %d: %s' % (path, lp.lineno, ast.dump(lp)[:300]))
    if not (isinstance(lp.target, ast.Tuple) and len(lp.target.elts) == 2 and all(isinstance(e, ast.Name) for e in lp.target.elts)
            and len(lp.body) == 1 and isinstance(lp.body[0], ast.If) and not lp.body[0].orelse and not lp.orelse):
        raise bad
    u, d = lp.target.elts[0].id, lp.target.elts[1].id
    t = lp.body[0].test
    if not (isinstance(t, ast.Compare) and len(t.ops) == 1 and isinstance(t.ops[0], ast.NotIn) and isinstance(t.left, ast.Name) and t.left.id == u
            and isinstance(t.comparators[0], ast.Name) and t.comparators[0].id == kw):
        raise bad
    stores = [s_ for s_ in lp.body[0].body if not (isinstance(s_, ast.Expr) and isinstance(s_.value, ast.Call))]      # logger calls aside
    if len(stores) != 1 or not (isinstance(stores[0], ast.Assign) and len(stores[0].targets) == 1 and isinstance(stores[0].targets[0], ast.Subscript)
                                and isinstance(stores[0].targets[0].value, ast.Name) and stores[0].targets[0].value.id == kw
                                and isinstance(stores[0].targets[0].slice, ast.Name) and stores[0].targets[0].slice.id == u
                                and isinstance(stores[0].value, ast.Name) and stores[0].value.id == d):
        raise bad
    return 'absent'


def material_merge_rule(cls, path):
    """the `material` property setter of BaseIsotherm given a dict: a material found in the registry under the same name is
       completed with `<found>.properties.update(**<value>)` - the values of the DICT (the imported document) win.
       -> 'document_wins'; any other in-place container call in the setter (setdefault, a loop of item writes ...) aborts."""
    fn = None
    for st in cls.body:
        if isinstance(st, ast.FunctionDef) and st.name == 'material' and any(isinstance(d, ast.Attribute) and d.attr == 'setter' for d in st.decorator_list):
            fn = st
    if fn is None or len(fn.args.args) != 2:
        raise Unsupported(path + ': BaseIsotherm.material setter not found')
    val = fn.args.args[1].arg
    upd = 0
    for n in ast.walk(fn):
        if isinstance(n, ast.Call) and isinstance(n.func, ast.Attribute) and n.func.attr in _MUTATING_CALLS:
            f = n.func
            if f.attr == 'pop' and isinstance(f.value, ast.Name) and f.value.id == val:
                continue        # value.pop('name', None)
            if f.attr == 'update' and isinstance(f.value, ast.Attribute) and f.value.attr == 'properties' and not n.args \
               and len(n.keywords) == 1 and n.keywords[0].arg is None and isinstance(n.keywords[0].value, ast.Name) and n.keywords[0].value.id == val:
                upd += 1
                continue
            raise Unsupported('%s: material setter: in-place call outside the understood shape at line %d: %s' % (path, n.lineno, ast.dump(n)[:200]))
        if isinstance(n, (ast.Assign, ast.AugAssign)):
            for t in (n.targets if isinstance(n, ast.Assign) else [n.target]):
                if isinstance(t, ast.Subscript):
                    raise Unsupported('%s: material setter: item assignment at line %d' % (path, n.lineno))
    if upd != 1:
        raise Unsupported(path + ': material setter: expected exactly one <found>.properties.update(**value)')
    return 'document_wins'


def holder_census(cls, path):
    """For a class whose objects an isotherm HOLDS (Material, Adsorbate): for EVERY method whose first argument is `self`
       -> (method, kind, writes, calls)
       writes: as method_census ('X' bound on the object, 'properties[]' in-place write of the property dict; also recorded when
               `self.properties` is bound to a local name - the alias could be written through)
       calls : the methods / properties of the same class the body reaches through `self.X` ('set:X' = assignment through the
               property setter X; getattr(self, <computed>) = every property getter)
       (the closure of `writes` over `calls` is computed and judged in Coq)."""
    setters = set()
    members = set()
    for st in cls.body:
        if isinstance(st, (ast.FunctionDef, ast.AsyncFunctionDef)):
            members.add(st.name)
            for d in st.decorator_list:
                if isinstance(d, ast.Attribute) and d.attr == 'setter':
                    setters.add(st.name)
    writes = {}
    for m, k, names in method_census(cls, path, set()):
        writes.setdefault((m, k), [])
        for n in names:
            if n not in writes[(m, k)]:
                writes[(m, k)].append(n)
    out = []
    for st in cls.body:
        if not isinstance(st, (ast.FunctionDef, ast.AsyncFunctionDef)):
            continue
        allargs = st.args.posonlyargs + st.args.args
        if not allargs or allargs[0].arg != 'self':
            continue
        kind = 'method'
        for d in st.decorator_list:
            if isinstance(d, ast.Attribute) and d.attr == 'setter':
                kind = 'setter'
            elif isinstance(d, ast.Name) and d.id == 'property':
                kind = 'property'
            elif isinstance(d, ast.Attribute) and d.attr in ('getter', 'deleter'):
                kind = 'setter' if d.attr == 'deleter' else 'property'
        if st.name == '__init__':
            kind = 'init'
        w = list(writes.get((st.name, kind), []))
        calls = []
        for n in ast.walk(st):
            a = _self_attr(n)
            if a is not None and a in members and isinstance(n.ctx, ast.Load) and a not in calls:
                calls.append(a)
            if isinstance(n, ast.Attribute) and isinstance(n.ctx, ast.Store) and _self_attr(n) in setters:
                # self.X = .. with a property setter X: the setter runs
                if 'set:' + n.attr not in calls:
                    calls.append('set:' + n.attr)
            if isinstance(n, ast.Call) and isinstance(n.func, ast.Name) and n.func.id == 'getattr' and n.args \
               and isinstance(n.args[0], ast.Name) and n.args[0].id == 'self':
                # getattr(self, <name>): any property of the class may run
                for st2 in cls.body:
                    if isinstance(st2, ast.FunctionDef) and any(isinstance(d, ast.Name) and d.id == 'property' for d in st2.decorator_list):
                        if st2.name not in calls:
                            calls.append(st2.name)
            if isinstance(n, (ast.Assign, ast.AnnAssign)) and n.value is not None and _self_attr(n.value) == 'properties':
                tg = n.targets if isinstance(n, ast.Assign) else [n.target]
                if any(isinstance(t, ast.Name) for t in tg) and 'properties[]' not in w:
                    w.append('properties[]')
        out.append((st.name, kind, w, calls))
    return out


def to_dict_program(cls, path):
    """BaseIsotherm.to_dict as a straight-line program over ONE dictionary variable, in a closed set of statement shapes:
         D = vars(self).copy()                                   ('vars', '', '')
         D[k] = str(D.pop(a))                                    ('pop_str', a, k)
         D[k] = D.pop(a)                                         ('pop', a, k)
         x = D.pop(a)                                            ('pop_local', a, x)
         if x.properties: D[k] = x.to_dict() else: D[k] = str(x) ('dict_or_str_of_local', x, k)
         D[k] = self.a                                           ('self_attr', a, k)     (a may be a property: its VALUE)
         for p in self._reserved_params: D.pop(p, None)          ('remove_reserved', '', '')
         D.update(D.pop(a))                                      ('merge_pop', a, '')
         return D                                                ('return', '', '')
       Any other statement aborts (fail-closed)."""
    fn = None
    for st in cls.body:
        if isinstance(st, ast.FunctionDef) and st.name == 'to_dict':
            fn = st
    if fn is None:
        raise Unsupported('%s: %s.to_dict not found' % (path, cls.name))
    if [a.arg for a in fn.args.args] != ['self'] or fn.args.vararg or fn.args.kwarg or fn.args.kwonlyargs:
        raise Unsupported(path + ': to_dict takes arguments')
    body = list(fn.body)
    if body and isinstance(body[0], ast.Expr) and isinstance(body[0].value, ast.Constant) and isinstance(body[0].value.value, str):
        body = body[1:]
    D = None
    ops = []

    def is_D(n):
        return isinstance(n, ast.Name) and n.id == D

    def const_str(n):
        return n.value if isinstance(n, ast.Constant) and isinstance(n.value, str) else None

    def pop_of(n, nargs=1):
        """D.pop('a') -> 'a'"""
        if isinstance(n, ast.Call) and isinstance(n.func, ast.Attribute) and n.func.attr == 'pop' and is_D(n.func.value) \
           and len(n.args) == nargs and not n.keywords and const_str(n.args[0]) is not None:
            return const_str(n.args[0])
        return None

    def store_key(st):
        """D['k'] = value -> ('k', value)"""
        if isinstance(st, ast.Assign) and len(st.targets) == 1 and isinstance(st.targets[0], ast.Subscript) and is_D(st.targets[0].value):
            k = st.targets[0].slice
            if const_str(k) is not None:
                return const_str(k), st.value
        return None

    def str_of(n):
        if isinstance(n, ast.Call) and isinstance(n.func, ast.Name) and n.func.id == 'str' and len(n.args) == 1 and not n.keywords:
            return n.args[0]
        return None

    for st in body:
        bad = Unsupported('%s: to_dict: statement outside the understood shapes at line %d: %s' % (path, st.lineno, ast.dump(st)[:160]))
        if D is None:
            v = st.value if isinstance(st, ast.Assign) and len(st.targets) == 1 and isinstance(st.targets[0], ast.Name) else None
            if isinstance(v, ast.Call) and isinstance(v.func, ast.Attribute) and v.func.attr == 'copy' and not v.args \
               and isinstance(v.func.value, ast.Call) and isinstance(v.func.value.func, ast.Name) and v.func.value.func.id == 'vars' \
               and len(v.func.value.args) == 1 and isinstance(v.func.value.args[0], ast.Name) and v.func.value.args[0].id == 'self':
                D = st.targets[0].id
                ops.append(('vars', '', ''))
                continue
            raise bad
        sk = store_key(st)
        if sk is not None:
            k, v = sk
            if pop_of(v) is not None:
                ops.append(('pop', pop_of(v), k))
            elif str_of(v) is not None and pop_of(str_of(v)) is not None:
                ops.append(('pop_str', pop_of(str_of(v)), k))
            elif _self_attr(v) is not None:
                ops.append(('self_attr', _self_attr(v), k))
            else:
                raise bad
        elif isinstance(st, ast.Assign) and len(st.targets) == 1 and isinstance(st.targets[0], ast.Name) and pop_of(st.value) is not None:
            ops.append(('pop_local', pop_of(st.value), st.targets[0].id))
        elif isinstance(st, ast.If):
            t = st.test
            ok = (isinstance(t, ast.Attribute) and t.attr == 'properties' and isinstance(t.value, ast.Name)
                  and len(st.body) == 1 and len(st.orelse) == 1)
            if not ok:
                raise bad
            x = t.value.id
            a, b = store_key(st.body[0]), store_key(st.orelse[0])
            if a is None or b is None or a[0] != b[0]:
                raise bad
            va, vb = a[1], b[1]
            if not (isinstance(va, ast.Call) and isinstance(va.func, ast.Attribute) and va.func.attr == 'to_dict' and not va.args
                    and isinstance(va.func.value, ast.Name) and va.func.value.id == x):
                raise bad
            if not (str_of(vb) is not None and isinstance(str_of(vb), ast.Name) and str_of(vb).id == x):
                raise bad
            ops.append(('dict_or_str_of_local', x, a[0]))
        elif isinstance(st, ast.For):
            it = st.iter
            ok = (_self_attr(it) == '_reserved_params' and isinstance(st.target, ast.Name) and len(st.body) == 1 and not st.orelse
                  and isinstance(st.body[0], ast.Expr))
            if not ok:
                raise bad
            c = st.body[0].value
            if not (isinstance(c, ast.Call) and isinstance(c.func, ast.Attribute) and c.func.attr == 'pop' and is_D(c.func.value)
                    and len(c.args) == 2 and isinstance(c.args[0], ast.Name) and c.args[0].id == st.target.id
                    and isinstance(c.args[1], ast.Constant) and c.args[1].value is None):
                raise bad
            ops.append(('remove_reserved', '', ''))
        elif isinstance(st, ast.Expr) and isinstance(st.value, ast.Call) and isinstance(st.value.func, ast.Attribute) \
                and st.value.func.attr == 'update' and is_D(st.value.func.value) and len(st.value.args) == 1 and not st.value.keywords \
                and pop_of(st.value.args[0]) is not None:
            ops.append(('merge_pop', pop_of(st.value.args[0]), ''))
        elif isinstance(st, ast.Return) and is_D(st.value):
            ops.append(('return', '', ''))
        else:
            raise bad
    return ops


def cstr(s):
    if not isinstance(s, str):
        raise Unsupported('expected a string, got %r' % (s,))
    return '"%s"' % s.replace('"', '""')


def clist(xs):
    return '[' + '; '.join(cstr(x) for x in xs) + ']'


def main(src, out):
    env = {}
    L = []
    add = L.append
    add('(* GENERATED by tools/py2v_tables.py from %s -- do not edit. *)' % 'src/pygaps/{core,parsing,modelling}')
    add('From Coq Require Import String List ZArith.')
    add('Import ListNotations.')
    add('Open Scope string_scope.')
    add('')
    # ---- baseisotherm
    tree, path = parse(src, 'core/baseisotherm.py')
    for name, val, _ in assigns(tree.body):
        if name == 'SHORTHANDS':
            env['SHORTHANDS'] = lit(val, env, path)
    if 'SHORTHANDS' not in env or not isinstance(env['SHORTHANDS'], dict):
        raise Unsupported(path + ': SHORTHANDS dict literal not found')
    base = find_class(tree, 'BaseIsotherm', path)
    for name, val, _ in assigns(base.body):
        if name in ('_required_params', '_unit_params', '_reserved_params'):
            env['BaseIsotherm.' + name] = lit(val, env, path)
    for k in ('_required_params', '_unit_params', '_reserved_params'):
        if 'BaseIsotherm.' + k not in env:
            raise Unsupported('%s: BaseIsotherm.%s not found' % (path, k))
    up = env['BaseIsotherm._unit_params']
    if not isinstance(up, dict) or not all(isinstance(v, str) for v in up.values()):
        raise Unsupported(path + ': _unit_params must be a dict of strings')
    bargs, battrs, bkw = init_info(base, path)
    # attributes assigned through property setters are stored under the underscore name
    setters = set()
    for st in base.body:
        if isinstance(st, ast.FunctionDef):
            for d in st.decorator_list:
                if isinstance(d, ast.Attribute) and d.attr == 'setter':
                    setters.add(st.name)
    battrs = [('_' + a if a in setters else a) for a in battrs]
    add('Definition shorthands : list (string * string) := [%s].' % '; '.join('(%s, %s)' % (cstr(k), cstr(v)) for k, v in env['SHORTHANDS'].items()))
    add('Definition required_params : list string := %s.' % clist(env['BaseIsotherm._required_params']))
    add('Definition unit_params : list (string * string) := [%s].' % '; '.join('(%s, %s)' % (cstr(k), cstr(v)) for k, v in up.items()))
    add('Definition base_reserved : list string := %s.' % clist(env['BaseIsotherm._reserved_params']))
    add('Definition base_ctor_args : list string := %s.' % clist(bargs))
    add('Definition base_attrs : list string := %s.' % clist(battrs))
    add('(* BaseIsotherm.__init__ uses the default of a unit parameter only when the keyword is: *)')
    add('Definition unit_default_when : string := %s.' % cstr(unit_default_rule(base, path)))
    add('(* the material setter given a dict while a material of that name is registered: *)')
    add('Definition material_dict_merge : string := %s.' % cstr(material_merge_rule(base, path)))
    if bkw is None:
        raise Unsupported(path + ': BaseIsotherm.__init__ has no **properties')
    census = [('BaseIsotherm', m, k, a) for m, k, a in method_census(base, path, setters)]
    prog = to_dict_program(base, path)
    # ---- point / model isotherm
    for rel, cname, pre in (('core/pointisotherm.py', 'PointIsotherm', 'point'), ('core/modelisotherm.py', 'ModelIsotherm', 'model')):
        tree, path = parse(src, rel)
        cls = find_class(tree, cname, path)
        got = None
        for name, val, _ in assigns(cls.body):
            if name == '_reserved_params':
                got = lit(val, env, path)
        if got is None:
            raise Unsupported('%s: %s._reserved_params not found' % (path, cname))
        args, attrs, kw = init_info(cls, path)
        if kw is None:
            raise Unsupported('%s: %s.__init__ has no **kwargs' % (path, cname))
        own = set(setters)
        for st in cls.body:
            if isinstance(st, ast.FunctionDef):
                if st.name == 'to_dict':
                    raise Unsupported('%s: %s overrides to_dict' % (path, cname))
                for d in st.decorator_list:
                    if isinstance(d, ast.Attribute) and d.attr == 'setter':
                        own.add(st.name)
        census += [(cname, m, k, a) for m, k, a in method_census(cls, path, own)]
        add('Definition %s_reserved : list string := %s.' % (pre, clist(got)))
        add('Definition %s_ctor_args : list string := %s.' % (pre, clist(args)))
        add('Definition %s_attrs : list string := %s.' % (pre, clist(attrs)))
    add('(* (class, method, kind, names the method binds on the isotherm object); kind: init | setter | property | method;')
    add('   a name "X[]" = the metadata dictionary X is changed in place; methods binding nothing are not listed *)')
    add('Definition method_assigns : list (string * string * string * list string) := [%s].'
        % '; '.join('(%s, %s, %s, %s)' % (cstr(c), cstr(m), cstr(k), clist(a)) for c, m, k, a in census))
    add('(* BaseIsotherm.to_dict as a straight-line program (opcode, argument, argument); see tools/py2v_tables.py to_dict_program *)')
    add('Definition to_dict_program : list (string * string * string) := [%s].'
        % '; '.join('(%s, %s, %s)' % (cstr(o), cstr(a), cstr(b)) for o, a, b in prog))
    # ---- material
    tree, path = parse(src, 'core/material.py')
    cls = find_class(tree, 'Material', path)
    got = None
    for name, val, _ in assigns(cls.body):
        if name == '_reserved_params':
            got = lit(val, env, path)
    if got is None:
        raise Unsupported(path + ': Material._reserved_params not found')
    add('Definition material_reserved : list string := %s.' % clist(got))
    holders = [('Material', m, k, w, c) for m, k, w, c in holder_census(cls, path)]
    tree, path = parse(src, 'core/adsorbate.py')
    cls = find_class(tree, 'Adsorbate', path)
    holders += [('Adsorbate', m, k, w, c) for m, k, w, c in holder_census(cls, path)]
    add('(* the classes whose objects an isotherm holds: (class, method, kind, names written on the object, methods / properties of')
    add('   the same class reached through self); "properties[]" = the property dictionary is changed in place; ALL methods listed *)')
    add('Definition holder_methods : list (string * string * string * list string * list string) := [%s].'
        % '; '.join('(%s, %s, %s, %s, %s)' % (cstr(c), cstr(m), cstr(k), clist(w), clist(cl)) for c, m, k, w, cl in holders))
    # ---- parsers
    tree, path = parse(src, 'parsing/__init__.py')
    prec = None
    for name, val, _ in assigns(tree.body):
        if name == '_PARSER_PRECISION':
            prec = lit(val, env, path)
    if not isinstance(prec, int):
        raise Unsupported(path + ': _PARSER_PRECISION int literal not found')
    add('Definition parser_precision : Z := %d%%Z.' % prec)
    for rel, pre in (('parsing/json.py', 'json'), ('parsing/csv.py', 'csv'), ('parsing/excel.py', 'xl'), ('parsing/aif.py', 'aif')):
        tree, path = parse(src, rel)
        tabs = {}
        for name, val, _ in assigns(tree.body):
            if name in ('_parser_version', '_META_DICT', '_DATA_DICT', '_UNITS_DICT', '_META_DICT_OLD'):
                tabs[name] = lit(val, env, path)
        if not isinstance(tabs.get('_parser_version'), str):
            raise Unsupported(path + ': _parser_version string not found')
        add('Definition %s_version : string := %s.' % (pre, cstr(tabs['_parser_version'])))
        if pre == 'xl':
            md = tabs.get('_META_DICT')
            if not isinstance(md, dict):
                raise Unsupported(path + ': _META_DICT not found')
            rows = []
            for k, v in md.items():
                if not (isinstance(v, dict) and isinstance(v.get('name'), str) and isinstance(v.get('row'), int) and v.get('column') == 0):
                    raise Unsupported(path + ': unexpected _META_DICT entry %r' % (k,))
                rows.append('(%s, %d%%Z)' % (cstr(v['name']), v['row']))
            add('Definition xl_meta : list (string * Z) := [%s].' % '; '.join(rows))
        if pre == 'aif':
            md = tabs.get('_META_DICT')
            if not isinstance(md, dict):
                raise Unsupported(path + ': _META_DICT not found')
            rows = []
            for k, v in md.items():
                if not (isinstance(v, dict) and isinstance(v.get('text'), str) and v.get('type') in ('type:float', 'type:str')):
                    raise Unsupported(path + ': unexpected _META_DICT entry %r' % (k,))
                rows.append('(%s, (%s, %s))' % (cstr(k), cstr(v['text']), 'true' if v['type'] == 'type:float' else 'false'))
            add('(* tag -> (metadata key, value is read with float()) *)')
            add('Definition aif_meta : list (string * (string * bool)) := [%s].' % '; '.join(rows))
            dd = tabs.get('_DATA_DICT')
            if not isinstance(dd, dict):
                raise Unsupported(path + ': _DATA_DICT not found')
            add('Definition aif_data : list (string * string) := [%s].' % '; '.join('(%s, %s)' % (cstr(k), cstr(v)) for k, v in dd.items()))
            ud = tabs.get('_UNITS_DICT')
            if not isinstance(ud, list):
                raise Unsupported(path + ': _UNITS_DICT not found')
            add('Definition aif_units : list string := %s.' % clist(ud))
    # ---- models: name -> param_names
    mdir = os.path.join(src, 'pygaps', 'modelling')
    models = []
    for fn in sorted(os.listdir(mdir)):
        if not fn.endswith('.py') or fn in ('__init__.py', 'base_model.py'):
            continue
        tree, path = parse(src, 'modelling/' + fn)
        for st in tree.body:
            if isinstance(st, ast.ClassDef):
                d = {}
                for name, val, _ in assigns(st.body):
                    if name in ('name', 'param_names'):
                        d[name] = lit(val, env, path)
                if 'name' in d and 'param_names' in d:
                    if not isinstance(d['name'], str) or not all(isinstance(x, str) for x in d['param_names']):
                        raise Unsupported(path + ': unexpected name/param_names in class ' + st.name)
                    models.append((d['name'], list(d['param_names'])))
    if len(models) < 5:
        raise Unsupported('modelling/: fewer than 5 model classes with literal name/param_names found')
    add('Definition model_params : list (string * list string) := [%s].' % '; '.join('(%s, %s)' % (cstr(n), clist(p)) for n, p in models))
    text = '\n'.join(L) + '\n'
    outp = os.path.join(out, 'TablesGen.v')
    if not os.path.exists(outp) or open(outp, encoding='utf8').read() != text:
        open(outp, 'w', encoding='utf8').write(text)


if __name__ == '__main__':
    try:
        main(sys.argv[1], sys.argv[2])
    except Unsupported as e:
        sys.stderr.write('py2v_tables: %s\n' % e)
        sys.exit(1)
