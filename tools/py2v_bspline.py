"""py2v_bspline: fail-closed translator of the integer bookkeeping of pygaps.utilities.math_utilities.bspline (open curve) into Gallina.

Input : <repo_src>/pygaps/utilities/math_utilities.py, function `bspline(xs, ys, n=100, degree=2, periodic=False)`; required shape
          count = len(xs)
          if degree == <int>: return xs, ys                     -> bspline_identity_degree
          if periodic: ... else: degree = <iexpr>               -> bspline_open_degree count degree
          if periodic: kv = ... else: kv = numpy.concatenate((<part>, <part>, ...))   -> bspline_open_knots count degree
                 <part> ::= [<iexpr>] * <iexpr> | numpy.arange(<iexpr>)
          rng = numpy.linspace(periodic, <iexpr>, n)            -> bspline_open_range_end count degree  (periodic = False = 0)
          ... interpolate.splev(rng, (kv, cv.T, degree))        (checked: kv, degree are the names handed to splev)
        <iexpr> ::= count | degree | integer literal | <iexpr> (+|-) <iexpr> | numpy.clip(<iexpr>, <iexpr>, <iexpr>)
                  | max(<iexpr>, <iexpr>) | min(<iexpr>, <iexpr>) | int(<iexpr>)
        numpy.clip(x, lo, hi) = minimum(maximum(x, lo), hi)  (numpy's definition, also when lo > hi).
Output: <out_dir>/BsplineGen.v (definitions over Z; list helpers zrepeat / zarange from Charact/BsplineLib.v).
Anything else aborts with file:line (non-zero exit): the obligations depending on BsplineGen.v then count as broken.

Usage: py2v_bspline.py <repo_src_dir> <out_dir>
"""
import ast
import os
import sys


class Unsupported(Exception):
    pass


FN = 'math_utilities.py'


def bad(node, why):
    raise Unsupported('%s:%s: %s' % (FN, getattr(node, 'lineno', '?'), why))


def dotted(node):
    if isinstance(node, ast.Name):
        return node.id
    if isinstance(node, ast.Attribute):
        d = dotted(node.value)
        return None if d is None else d + '.' + node.attr
    return None


def iexpr(n):
    if isinstance(n, ast.Name) and n.id in ('count', 'degree'):
        return n.id
    if isinstance(n, ast.Constant) and isinstance(n.value, int) and not isinstance(n.value, bool):
        return '(%d)' % n.value
    if isinstance(n, ast.UnaryOp) and isinstance(n.op, ast.USub):
        return '(- %s)' % iexpr(n.operand)
    if isinstance(n, ast.BinOp) and isinstance(n.op, (ast.Add, ast.Sub)):
        return '(%s %s %s)' % (iexpr(n.left), '+' if isinstance(n.op, ast.Add) else '-', iexpr(n.right))
    if isinstance(n, ast.Call) and not n.keywords:
        d = dotted(n.func)
        a = n.args
        if d in ('numpy.clip', 'np.clip') and len(a) == 3:
            return '(Z.min (Z.max %s %s) %s)' % (iexpr(a[0]), iexpr(a[1]), iexpr(a[2]))
        if d == 'max' and len(a) == 2:
            return '(Z.max %s %s)' % (iexpr(a[0]), iexpr(a[1]))
        if d == 'min' and len(a) == 2:
            return '(Z.min %s %s)' % (iexpr(a[0]), iexpr(a[1]))
        if d == 'int' and len(a) == 1:
            return iexpr(a[0])
    bad(n, 'integer expression outside the subset: %s' % ast.dump(n)[:120])


def part(n):
    if isinstance(n, ast.BinOp) and isinstance(n.op, ast.Mult) and isinstance(n.left, ast.List) and len(n.left.elts) == 1:
        return '(zrepeat %s %s)' % (iexpr(n.left.elts[0]), iexpr(n.right))
    if isinstance(n, ast.Call) and dotted(n.func) in ('numpy.arange', 'np.arange') and len(n.args) == 1 and not n.keywords:
        return '(zarange %s)' % iexpr(n.args[0])
    bad(n, 'knot vector part must be [e] * e or numpy.arange(e)')


def is_periodic_if(st):
    return isinstance(st, ast.If) and isinstance(st.test, ast.Name) and st.test.id == 'periodic'


def else_assign(st, name):
    """value assigned to `name` by the single statement of the else branch of `if periodic:`"""
    body = [x for x in st.orelse if not (isinstance(x, ast.Expr) and isinstance(x.value, ast.Constant))]
    if len(body) == 1 and isinstance(body[0], ast.Assign) and len(body[0].targets) == 1 and getattr(body[0].targets[0], 'id', None) == name:
        return body[0].value
    return None


def main(src, out):
    path = os.path.join(src, 'pygaps', 'utilities', FN)
    tree = ast.parse(open(path, encoding='utf8').read(), FN)
    f = next((n for n in tree.body if isinstance(n, ast.FunctionDef) and n.name == 'bspline'), None)
    if f is None:
        raise Unsupported('%s: function bspline not found' % FN)
    if [a.arg for a in f.args.args] != ['xs', 'ys', 'n', 'degree', 'periodic']:
        bad(f, 'bspline parameters')
    ident = deg = kv = rng = None
    splev_ok = False
    count_ok = False
    # `degree` and `count` may be assigned only where the subset expects it (top level; periodic branch ignored)
    for st in f.body:
        if isinstance(st, ast.Assign) and len(st.targets) == 1 and getattr(st.targets[0], 'id', None) == 'count':
            if not (isinstance(st.value, ast.Call) and dotted(st.value.func) == 'len' and getattr(st.value.args[0], 'id', None) == 'xs') or count_ok:
                bad(st, 'count must be len(xs), assigned once')
            count_ok = True
        elif isinstance(st, ast.If) and isinstance(st.test, ast.Compare) and getattr(st.test.left, 'id', None) == 'degree' \
                and len(st.test.ops) == 1 and isinstance(st.test.ops[0], ast.Eq) and isinstance(st.test.comparators[0], ast.Constant) \
                and len(st.body) == 1 and isinstance(st.body[0], ast.Return) and not st.orelse:
            r = st.body[0].value
            if not (isinstance(r, ast.Tuple) and [getattr(e, 'id', None) for e in r.elts] == ['xs', 'ys']) or ident is not None or deg is not None:
                bad(st, '`if degree == k: return xs, ys` expected once, before the clamp')
            ident = iexpr(st.test.comparators[0])
        elif is_periodic_if(st):
            v = else_assign(st, 'degree')
            w = else_assign(st, 'kv')
            if v is not None:
                if deg is not None or kv is not None:
                    bad(st, 'degree clamped twice / after the knot vector')
                deg = iexpr(v)
            elif w is not None:
                if kv is not None or deg is None:
                    bad(st, 'knot vector assigned twice / before the clamp')
                if not (isinstance(w, ast.Call) and dotted(w.func) in ('numpy.concatenate', 'np.concatenate') and len(w.args) == 1
                        and isinstance(w.args[0], (ast.Tuple, ast.List))):
                    bad(w, 'kv = numpy.concatenate((...)) expected')
                kv = '(' + ' ++ '.join(part(e) for e in w.args[0].elts) + ')'
            else:
                bad(st, '`if periodic:` block outside the subset')
        elif isinstance(st, ast.Assign) and len(st.targets) == 1 and getattr(st.targets[0], 'id', None) == 'rng':
            v = st.value
            if not (isinstance(v, ast.Call) and dotted(v.func) in ('numpy.linspace', 'np.linspace') and len(v.args) == 3
                    and getattr(v.args[0], 'id', None) == 'periodic' and getattr(v.args[2], 'id', None) == 'n') or rng is not None or kv is None:
                bad(st, 'rng = numpy.linspace(periodic, <e>, n) expected once, after the knot vector')
            rng = iexpr(v.args[1])
        elif isinstance(st, ast.Assign) and any(getattr(t, 'id', None) in ('degree', 'count', 'kv', 'rng') for t in st.targets) \
                and not (getattr(st.targets[0], 'id', None) == 'kv' and isinstance(st.value, ast.Constant) and st.value.value is None):
            bad(st, 'unexpected assignment to degree / count / kv / rng')
        elif isinstance(st, ast.AugAssign) and getattr(st.target, 'id', None) in ('degree', 'count', 'kv', 'rng'):
            bad(st, 'unexpected augmented assignment')
        for n in ast.walk(st):
            if isinstance(n, ast.Call) and (dotted(n.func) or '').endswith('splev'):
                a = n.args
                if len(a) == 2 and getattr(a[0], 'id', None) == 'rng' and isinstance(a[1], ast.Tuple) and len(a[1].elts) == 3 \
                        and getattr(a[1].elts[0], 'id', None) == 'kv' and getattr(a[1].elts[2], 'id', None) == 'degree' and rng is not None:
                    splev_ok = True
                else:
                    bad(n, 'splev(rng, (kv, cv.T, degree)) expected after rng')
    if None in (ident, deg, kv, rng) or not splev_ok or not count_ok:
        raise Unsupported('%s:bspline: missing piece (identity %s, clamp %s, knots %s, range %s, splev %s)' % (FN, ident, deg, kv, rng, splev_ok))
    text = ('(* GENERATED by tools/py2v_bspline.py from pygaps/utilities/math_utilities.py (bspline, open curve) - do not edit. *)\n'
            'From Coq Require Import ZArith List.\nFrom PG Require Import Charact.BsplineLib.\nImport ListNotations. Open Scope Z_scope.\n\n'
            '(* `if degree == k: return xs, ys` *)\nDefinition bspline_identity_degree : Z := %s.\n\n'
            '(* the else branch of `if periodic:` : degree = ... *)\nDefinition bspline_open_degree (count degree : Z) : Z :=\n  %s.\n\n'
            '(* kv of the open curve, in terms of the CLAMPED degree *)\nDefinition bspline_open_knots (count degree : Z) : list Z :=\n  %s.\n\n'
            '(* rng = numpy.linspace(periodic = 0, <this>, n), in terms of the clamped degree *)\nDefinition bspline_open_range_end (count degree : Z) : Z :=\n  %s.\n'
            % (ident, deg, kv, rng))
    outp = os.path.join(out, 'BsplineGen.v')
    if not os.path.exists(outp) or open(outp).read() != text:
        open(outp, 'w').write(text)


if __name__ == '__main__':
    try:
        main(sys.argv[1], sys.argv[2])
    except Unsupported as e:
        sys.stderr.write('py2v_bspline: unsupported construct: %s\n' % e)
        sys.exit(1)
