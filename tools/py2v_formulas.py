"""py2v_formulas: /repo/src/pygaps/modelling/*.py  ->  coq/Gen/FormulasGen.v   (fail-closed)

For every class deriving IsothermBaseModel the methods loading / pressure / spreading_pressure are translated from the
Python AST into real-valued Coq definitions (one scalar point; numpy broadcasting = pointwise application), each with its
DEFINEDNESS predicate (denominators <> 0, sqrt arguments >= 0, log arguments > 0, power bases > 0 or 0 with a positive
exponent), plus `<M>_bounds` from param_default_bounds.

Subset: straight-line numeric code (Assign to a local, Return, + - * / unary -, `**`, numpy.log/exp/sqrt/power,
self.params['x'], self.<attr> for instance attributes such as minus_rt).  Four idioms are recognised as such:
  * `if numpy.isnan(res).any(): res = numpy.nan_to_num(res)`                -> res = nan_div num den (0/0 |-> 0)
    (the older spelling `nan_to_num(res, copy=False)` is REFUSED: with numpy 2 it raises ValueError for scalar input, so
     the pointwise reading "0/0 |-> 0" would not describe the method for Python floats / numpy scalars / 0-d arrays)
  * optimize.root(lambda x: self.f(x) - y) / optimize.minimize((self.f(x) - y)**2)  -> relation `<M>_<g>_spec params y x`
  * integrate.quad(lambda x: self.loading(x) / x, 0, p)[0]                    -> RInt (fun x => loading x / x) 0 p
  * `return NotImplementedError` / `raise NotImplementedError`                -> no definition
Anything else aborts with file:line (exit 1): the generated file is then replaced by a stub that does not compile.

The same IR is returned by translate() for the harness (binary64 evaluation of the IR against the real methods).
"""
import ast
import os
import re
import sys
from fractions import Fraction

METHODS = ('loading', 'pressure', 'spreading_pressure')


class Unsupported(Exception):
    pass


def bail(fn, node, msg):
    raise Unsupported('%s:%s: %s' % (fn, getattr(node, 'lineno', '?'), msg))


# ---------------------------------------------------------------- expressions -> IR
def expr_ir(e, fn, locals_, params, attrs):
    R = lambda x: expr_ir(x, fn, locals_, params, attrs)
    if isinstance(e, ast.Constant):
        if isinstance(e.value, bool) or not isinstance(e.value, (int, float)):
            bail(fn, e, 'constant %r' % (e.value,))
        fr = Fraction(e.value)
        return ['const', fr.numerator, fr.denominator]
    if isinstance(e, ast.Name):
        if e.id in locals_:
            return ['var', e.id]
        bail(fn, e, 'unknown name %s' % e.id)
    if isinstance(e, ast.Subscript):
        if ast.unparse(e.value) == 'self.params' and isinstance(e.slice, ast.Constant) and isinstance(e.slice.value, str):
            if e.slice.value not in params:
                bail(fn, e, 'parameter %r not in param_names' % e.slice.value)
            return ['param', e.slice.value]
        bail(fn, e, 'subscript ' + ast.unparse(e))
    if isinstance(e, ast.Attribute):
        if isinstance(e.value, ast.Name) and e.value.id == 'self' and e.attr in attrs:
            return ['attr', e.attr]
        bail(fn, e, 'attribute ' + ast.unparse(e))
    if isinstance(e, ast.UnaryOp):
        if isinstance(e.op, ast.USub):
            return ['neg', R(e.operand)]
        if isinstance(e.op, ast.UAdd):
            return R(e.operand)
        bail(fn, e, 'unary operator')
    if isinstance(e, ast.BinOp):
        ops = {ast.Add: 'add', ast.Sub: 'sub', ast.Mult: 'mul', ast.Div: 'div'}
        if type(e.op) in ops:
            return [ops[type(e.op)], R(e.left), R(e.right)]
        if isinstance(e.op, ast.Pow):
            if isinstance(e.right, ast.Constant) and isinstance(e.right.value, int) and not isinstance(e.right.value, bool) \
                    and 0 <= e.right.value <= 9:
                return ['powi', R(e.left), e.right.value]
            return ['pow', R(e.left), R(e.right)]
        bail(fn, e, 'binary operator ' + type(e.op).__name__)
    if isinstance(e, ast.Call):
        f = ast.unparse(e.func)
        un = {'numpy.log': 'log', 'numpy.exp': 'exp', 'numpy.sqrt': 'sqrt'}
        if f in un and len(e.args) == 1 and not e.keywords:
            return [un[f], R(e.args[0])]
        if f == 'numpy.power' and len(e.args) == 2 and not e.keywords:
            return ['pow', R(e.args[0]), R(e.args[1])]
        bail(fn, e, 'call ' + f)
    bail(fn, e, 'expression ' + type(e).__name__)


def strip_doc(body):
    if body and isinstance(body[0], ast.Expr) and isinstance(body[0].value, ast.Constant) and isinstance(body[0].value.value, str):
        return body[1:]
    return body


NAN_IF = "if numpy.isnan(res).any():\n    res = numpy.nan_to_num(res)"
ROOT_RE = re.compile(
    r"^def fun\(x\):\n    return self\.(\w+)\(x\) - (\w+)\n"
    r"opt_res = optimize\.root\(fun, numpy\.zeros_like\(\2\), method='hybr'\)\n"
    r"if not opt_res\.success:\n    raise CalculationError\(.*\)\n"
    r"return opt_res\.x$", re.S)
MIN_RE = re.compile(
    r"^def fun\(x\):\n    return \(self\.(\w+)\(x\) - (\w+)\) \*\* 2\n"
    r"opt_res = optimize\.minimize\(fun, \2, method='Nelder-Mead'\)\n"
    r"if not opt_res\.success:\n    raise CalculationError\(.*\)\n"
    r"return opt_res\.x$", re.S)
QUAD_RE = re.compile(r"^return integrate\.quad\(lambda x: self\.(\w+)\(x\) / x, 0, (\w+)\)\[0\]$")


def method_ir(fd, fn, params, attrs):
    if len(fd.args.args) != 2 or fd.args.args[0].arg != 'self' or fd.args.vararg or fd.args.kwarg or fd.args.kwonlyargs or fd.args.defaults:
        bail(fn, fd, 'signature of ' + fd.name)
    if fd.decorator_list:
        bail(fn, fd, 'decorator on %s (memoisation / wrapping changes what the method returns)' % fd.name)
    arg = fd.args.args[1].arg
    body = strip_doc(fd.body)
    text = '\n'.join(ast.unparse(s) for s in body)
    if text in ('return NotImplementedError', 'raise NotImplementedError'):
        return {'kind': 'none', 'arg': arg}
    m = ROOT_RE.match(text)
    if m and m.group(2) == arg and m.group(1) in METHODS:
        return {'kind': 'root', 'arg': arg, 'of': m.group(1), 'solver': 'optimize.root(hybr)'}
    m = MIN_RE.match(text)
    if m and m.group(2) == arg and m.group(1) in METHODS:
        return {'kind': 'root', 'arg': arg, 'of': m.group(1), 'solver': 'optimize.minimize(Nelder-Mead) of the squared residual'}
    m = QUAD_RE.match(text)
    if m and m.group(2) == arg and m.group(1) in METHODS:
        return {'kind': 'quad', 'arg': arg, 'of': m.group(1)}
    lets, locals_, nan_guard, ret = [], {arg}, False, None
    for i, s in enumerate(body):
        if isinstance(s, ast.Assign) and len(s.targets) == 1 and isinstance(s.targets[0], ast.Name):
            name = s.targets[0].id
            if name in locals_:
                bail(fn, s, 're-assignment of ' + name)
            lets.append([name, expr_ir(s.value, fn, locals_, params, attrs)])
            locals_.add(name)
        elif isinstance(s, ast.If) and ast.unparse(s) == NAN_IF:
            if i != len(body) - 2 or not lets or lets[-1][0] != 'res' or lets[-1][1][0] != 'div' or ast.unparse(body[-1]) != 'return res':
                bail(fn, s, 'nan_to_num guard in an unexpected position')
            nan_guard = True
        elif isinstance(s, ast.Return) and i == len(body) - 1 and s.value is not None:
            ret = expr_ir(s.value, fn, locals_, params, attrs)
        else:
            bail(fn, s, 'statement ' + ast.unparse(s).split('\n')[0])
    if ret is None:
        bail(fn, fd, 'no return in ' + fd.name)
    if nan_guard:
        lets[-1][1] = ['nandiv', lets[-1][1][1], lets[-1][1][2]]
    return {'kind': 'fun', 'arg': arg, 'lets': lets, 'ret': ret, 'nan_guard': nan_guard}


def class_ir(cd, fn):
    info = {'class': cd.name, 'file': os.path.basename(fn)}
    attrs = []
    for n in cd.body:
        if isinstance(n, ast.Assign) and len(n.targets) == 1 and isinstance(n.targets[0], ast.Name):
            k = n.targets[0].id
            if k in ('name', 'calculates'):
                info[k] = ast.literal_eval(n.value)
            elif k == 'param_names':
                v = ast.literal_eval(n.value)
                info['params'] = [v] if isinstance(v, str) else list(v)
            elif k == 'param_default_bounds':
                pass
            elif k in ('formula', 'rmse'):
                pass
            elif isinstance(n.value, ast.Constant) or (isinstance(n.value, ast.UnaryOp) and isinstance(n.value.operand, ast.Constant)):
                attrs.append(k)          # numeric class attribute that instances overwrite (minus_rt)
    # bounds: parse again properly (handles -numpy.inf)
    for n in cd.body:
        if isinstance(n, ast.Assign) and getattr(n.targets[0], 'id', None) == 'param_default_bounds':
            bs = []
            if not isinstance(n.value, ast.Tuple):
                bail(fn, n, 'param_default_bounds')
            for b in n.value.elts:
                if not (isinstance(b, ast.Tuple) and len(b.elts) == 2):
                    bail(fn, n, 'param_default_bounds entry')
                pair = []
                for x in b.elts:
                    u = ast.unparse(x)
                    if u in ('numpy.inf', '-numpy.inf'):
                        pair.append(None)
                    else:
                        try:
                            fr = Fraction(ast.literal_eval(x))
                        except Exception:
                            bail(fn, n, 'bound ' + u)
                        pair.append([fr.numerator, fr.denominator])
                bs.append(pair)
            info['bounds'] = bs
    for k in ('name', 'calculates', 'params', 'bounds'):
        if k not in info:
            bail(fn, cd, 'class attribute %s missing' % k)
    if len(info['bounds']) != len(info['params']):
        bail(fn, cd, 'param_default_bounds / param_names length mismatch')
    used_attrs = [a for a in attrs if re.search(r'self\.%s\b' % a, ast.unparse(cd))]
    # only attributes that the three methods read
    info['attrs'] = []
    info['methods'] = {}
    for n in cd.body:
        if isinstance(n, ast.FunctionDef) and n.name in METHODS:
            src = ast.unparse(n)
            for a in used_attrs:
                if re.search(r'self\.%s\b' % a, src) and a not in info['attrs']:
                    info['attrs'].append(a)
    for n in cd.body:
        if isinstance(n, ast.FunctionDef) and n.name in METHODS:
            info['methods'][n.name] = method_ir(n, fn, info['params'], info['attrs'])
    for m in METHODS:
        if m not in info['methods']:
            bail(fn, cd, 'method %s missing' % m)
    return info


def translate(repo_src):
    d = os.path.join(repo_src, 'pygaps', 'modelling')
    out = []
    for f in sorted(os.listdir(d)):
        if not f.endswith('.py') or f in ('__init__.py', 'base_model.py'):
            continue
        fn = os.path.join(d, f)
        tree = ast.parse(open(fn, encoding='utf8').read())
        for c in tree.body:
            if isinstance(c, ast.ClassDef) and any(ast.unparse(b).endswith('IsothermBaseModel') for b in c.bases):
                out.append(class_ir(c, fn))
    # the registry of model names must be exactly the translated classes
    init = open(os.path.join(d, '__init__.py'), encoding='utf8').read()
    t = ast.parse(init)
    reg = None
    for n in t.body:
        if isinstance(n, ast.Assign) and getattr(n.targets[0], 'id', None) == '_MODELS':
            reg = ast.literal_eval(n.value)
    if reg is None or sorted(reg) != sorted(c['class'] for c in out):
        raise Unsupported('__init__.py: _MODELS %r differs from the translated classes %r' % (reg, [c['class'] for c in out]))
    iast = None
    for n in t.body:
        if isinstance(n, ast.Assign) and getattr(n.targets[0], 'id', None) == '_IAST_MODELS':
            iast = ast.literal_eval(n.value)
    for c in out:
        c['iast'] = bool(iast and c['class'] in iast)
    return out


# ---------------------------------------------------------------- IR -> Coq
def cq(fr_n, fr_d):
    if fr_d == 1:
        return str(fr_n) if fr_n >= 0 else '(%d)' % fr_n
    return '(%d / %d)' % (fr_n, fr_d)


def coq_expr(e):
    k = e[0]
    if k == 'const': return cq(e[1], e[2])
    if k in ('var', 'param', 'attr'): return cname(e[1])
    if k == 'neg': return '(- %s)' % coq_expr(e[1])
    if k in ('add', 'sub', 'mul', 'div'):
        return '(%s %s %s)' % (coq_expr(e[1]), {'add': '+', 'sub': '-', 'mul': '*', 'div': '/'}[k], coq_expr(e[2]))
    if k == 'nandiv': return '(nan_div %s %s)' % (coq_expr(e[1]), coq_expr(e[2]))
    if k == 'powi': return '(%s ^ %d)' % (coq_expr(e[1]), e[2])
    if k == 'pow': return '(pypow %s %s)' % (coq_expr(e[1]), coq_expr(e[2]))
    if k == 'log': return '(ln %s)' % coq_expr(e[1])
    if k == 'exp': return '(exp %s)' % coq_expr(e[1])
    if k == 'sqrt': return '(sqrt %s)' % coq_expr(e[1])
    raise Unsupported('IR node ' + k)


def conds(e, acc):
    k = e[0]
    if k in ('const', 'var', 'param', 'attr'):
        return
    for sub in e[1:]:
        if isinstance(sub, list):
            conds(sub, acc)
    if k == 'div': acc.append('%s <> 0' % coq_expr(e[2]))
    if k == 'nandiv': acc.append('(%s <> 0 \\/ %s = 0)' % (coq_expr(e[2]), coq_expr(e[1])))
    if k == 'pow': acc.append('pypow_def %s %s' % (coq_expr(e[1]), coq_expr(e[2])))
    if k == 'log': acc.append('0 < %s' % coq_expr(e[1]))
    if k == 'sqrt': acc.append('0 <= %s' % coq_expr(e[1]))


RESERVED = {'e': 'e', 'exp': 'exp_', 'ln': 'ln_', 'sqrt': 'sqrt_', 'fun': 'fun_', 'in': 'in_', 'at': 'at_', 'as': 'as_', 'if': 'if_',
            'let': 'let_', 'R': 'R_', 'PI': 'PI_', 'pypow': 'pypow_', 'nan_div': 'nan_div_'}


def cname(n):
    return RESERVED.get(n, n)


def emit_class(c):
    M = c['class']
    sig = ' '.join(cname(x) for x in c['attrs'] + c['params'])
    L = ['(* ---- %s (%s), calculates %s; parameters %s%s *)' % (M, c['file'], c['calculates'], ', '.join(c['params']),
                                                                 ('; instance attributes ' + ', '.join(c['attrs'])) if c['attrs'] else '')]
    bs = []
    for p, (lo, hi) in zip(c['params'], c['bounds']):
        if lo is not None: bs.append('%s <= %s' % (cq(*lo), cname(p)))
        if hi is not None: bs.append('%s <= %s' % (cname(p), cq(*hi)))
    L.append('Definition %s_bounds (%s : R) : Prop := %s.' % (M, ' '.join(cname(x) for x in c['params']), ' /\\ '.join(bs) if bs else 'True'))
    order = [m for m in METHODS if c['methods'][m]['kind'] == 'fun'] + [m for m in METHODS if c['methods'][m]['kind'] != 'fun']
    for mname in order:
        m = c['methods'][mname]
        arg = cname(m['arg'])
        if m['kind'] == 'none':
            L.append('(* %s.%s: not implemented by the library *)' % (M, mname))
        elif m['kind'] == 'fun':
            lets = ''.join('let %s := %s in\n  ' % (cname(n), coq_expr(e)) for n, e in m['lets'])
            L.append('Definition %s_%s (%s : R) (%s : R) : R :=\n  %s%s.' % (M, mname, sig, arg, lets, coq_expr(m['ret'])))
            # definedness: conditions are collected let by let, in the scope of the earlier lets
            parts = []
            for n, e in m['lets']:
                acc = []
                conds(e, acc)
                parts.append((acc, 'let %s := %s in\n  ' % (cname(n), coq_expr(e))))
            acc = []
            conds(m['ret'], acc)
            body = ' /\\ '.join(acc) if acc else 'True'
            for acc_i, let_i in reversed(parts):
                body = let_i + body
                if acc_i:
                    body = ' /\\ '.join(acc_i) + ' /\\\n  ' + body
            L.append('Definition %s_%s_def (%s : R) (%s : R) : Prop :=\n  %s.' % (M, mname, sig, arg, body))
        elif m['kind'] == 'root':
            L.append('(* %s.%s: numerical inverse by %s; CalculationError unless the solver reports success *)' % (M, mname, m['solver']))
            L.append('Definition %s_%s_spec (%s : R) (%s x : R) : Prop := %s_%s %s x - %s = 0.' % (M, mname, sig, arg, M, m['of'], sig, arg))
        elif m['kind'] == 'quad':
            L.append('(* %s.%s: scipy.integrate.quad of %s(x)/x over [0, %s] *)' % (M, mname, m['of'], arg))
            L.append('Definition %s_%s (%s : R) (%s : R) : R := RInt (fun x => %s_%s %s x / x) 0 %s.' % (M, mname, sig, arg, M, m['of'], sig, arg))
    return '\n'.join(L)


def emit(ir):
    head = ('(* GENERATED by tools/py2v_formulas.py from /repo/src/pygaps/modelling/*.py - do not edit.\n'
            '   One scalar point of loading / pressure / spreading_pressure of every isotherm model over R, with definedness predicates. *)\n'
            'From Coq Require Import Reals.\nFrom Coquelicot Require Import Coquelicot.\nFrom PG Require Import Models.PyReal.\nOpen Scope R_scope.\n')
    return head + '\n' + '\n\n'.join(emit_class(c) for c in ir) + '\n'


def main():
    repo_src, outdir = sys.argv[1], sys.argv[2]
    try:
        ir = translate(repo_src)
        text = emit(ir)
    except (Unsupported, SyntaxError, OSError) as e:
        sys.stderr.write('py2v_formulas: unsupported construct: %s\n' % e)
        sys.exit(1)
    path = os.path.join(outdir, 'FormulasGen.v')
    if not os.path.exists(path) or open(path).read() != text:
        open(path, 'w').write(text)


if __name__ == '__main__':
    main()
