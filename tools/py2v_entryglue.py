"""py2v_entryglue: fail-closed translator of the GLUE of the isotherm entry points of pygaps/characterisation - what area_BET,
area_langmuir, t_plot, alpha_s, da_plot (dr_plot delegates to it) read from the isotherm / adsorbate and hand to their *_raw function.

For every entry point E with raw function R: the statements of E before the (single, top-level) call `... = R(a1, ..., an)` are the
prefix. Every argument must be a plain name (positional, or keyword name=name); it is paired with the PARAMETER NAME of R at that position
and classified:
  array   pressure / loading bound by `pressure, loading = get_iso_loading_and_pressure_ordered(isotherm, branch, {..}, {..})`
          (the two literal dicts are emitted: <E>_loading_units, <E>_pressure_units), or a name bound by `<iso>.loading_at(...)`
  user    a parameter of E (exp, p_limits, t_limits, reference_area ...), or a name bound by get_thickness_model(...)
  scalar  a local assigned EXACTLY ONCE in the prefix, at top level (an assignment inside an if / loop / try, or a second assignment,
          aborts), by an expression of the grammar
              s ::= isotherm.temperature | adsorbate.molar_mass() | adsorbate.liquid_density(s) | adsorbate.get_prop("cross_sectional_area")
                  | <scalar local>            with  adsorbate = Adsorbate.find(isotherm.adsorbate)  assigned once, at top level
Output: <out_dir>/EntryGlueGen.v : Section over a carrier N and the readings iso_temperature (the isotherm's `temperature` property, which is
kelvin whatever the stored unit - C02), ads_molar_mass, ads_cross_section : N, ads_liquid_density : N -> N;
  Definition <E>_scalars : list (string * N)   (raw parameter name, value handed over), in call order
  Definition <E>_args    : list (string * string)  (raw parameter name, kind) for every argument
Anything else aborts with file:line (non-zero exit): the obligations depending on EntryGlueGen.v then count as broken.

Usage: py2v_entryglue.py <repo_src_dir> <out_dir>
"""
import ast
import os
import sys


class Unsupported(Exception):
    pass


ENTRIES = [('area_bet.py', 'area_BET', 'area_BET_raw'), ('area_lang.py', 'area_langmuir', 'area_langmuir_raw'), ('t_plots.py', 't_plot', 't_plot_raw'),
           ('alphas_plots.py', 'alpha_s', 'alpha_s_raw'), ('dr_da_plots.py', 'da_plot', 'da_plot_raw')]


def dotted(node):
    if isinstance(node, ast.Name):
        return node.id
    if isinstance(node, ast.Attribute):
        d = dotted(node.value)
        return None if d is None else d + '.' + node.attr
    return None


def targets_of(st):
    """names bound by a statement (not descending)"""
    out = []

    def names(t):
        if isinstance(t, ast.Name):
            out.append(t.id)
        elif isinstance(t, (ast.Tuple, ast.List)):
            for e in t.elts:
                names(e)
    if isinstance(st, ast.Assign):
        for t in st.targets:
            names(t)
    elif isinstance(st, (ast.AugAssign, ast.AnnAssign)):
        names(st.target)
    elif isinstance(st, (ast.For, ast.AsyncFor)):
        names(st.target)
    elif isinstance(st, (ast.With, ast.AsyncWith)):
        for i in st.items:
            if i.optional_vars is not None:
                names(i.optional_vars)
    elif isinstance(st, (ast.Import, ast.ImportFrom)):
        out.extend((a.asname or a.name).split('.')[0] for a in st.names)
    return out


def one_entry(src, fn, ename, rname):
    tree = ast.parse(open(os.path.join(src, 'pygaps', 'characterisation', fn), encoding='utf8').read(), fn)
    funcs = {n.name: n for n in tree.body if isinstance(n, ast.FunctionDef)}
    if ename not in funcs or rname not in funcs:
        raise Unsupported('%s: %s / %s not found' % (fn, ename, rname))
    f, r = funcs[ename], funcs[rname]
    where = '%s:%s' % (fn, ename)

    def bad(node, why):
        raise Unsupported('%s:%s: %s' % (where, getattr(node, 'lineno', '?'), why))
    rparams = [a.arg for a in r.args.args]
    eparams = [a.arg for a in f.args.args] + [a.arg for a in f.args.kwonlyargs]
    # the raw call: a top-level statement `<targets> = R(...)`; exactly one call of R in the whole function
    calls = [n for n in ast.walk(f) if isinstance(n, ast.Call) and dotted(n.func) == rname]
    if len(calls) != 1:
        bad(f, 'exactly one call of %s expected, found %d' % (rname, len(calls)))
    idx = next((i for i, st in enumerate(f.body) if isinstance(st, ast.Assign) and st.value is calls[0]), None)
    if idx is None:
        bad(calls[0], 'the call of %s must be a top-level assignment' % rname)
    call = calls[0]
    prefix = f.body[:idx]
    top = {}      # name -> [value nodes] of top-level single-name assignments
    count = {}    # name -> number of bindings anywhere in the prefix
    tuples = {}   # name -> call node of a top-level tuple assignment
    for st in prefix:
        for n in ast.walk(st):
            if isinstance(n, ast.stmt):
                for t in targets_of(n):
                    count[t] = count.get(t, 0) + 1
            if isinstance(n, ast.NamedExpr):
                count[n.target.id] = count.get(n.target.id, 0) + 1
        if isinstance(st, ast.Assign) and len(st.targets) == 1:
            t = st.targets[0]
            if isinstance(t, ast.Name):
                top.setdefault(t.id, []).append(st.value)
            elif isinstance(t, ast.Tuple) and all(isinstance(e, ast.Name) for e in t.elts):
                for e in t.elts:
                    tuples[e.id] = (st.value, [x.id for x in t.elts])

    def once(name, node):
        if count.get(name, 0) != 1 or len(top.get(name, [])) != 1:
            bad(node, 'the local `%s` handed to %s must be assigned exactly once, unconditionally (bindings in the prefix: %d, of which top-level: %d)'
                % (name, rname, count.get(name, 0), len(top.get(name, []))))
        return top[name][0]

    def scalar(node, depth=0):
        if depth > 8:
            bad(node, 'definition chain too long')
        d = dotted(node)
        if d == 'isotherm.temperature':
            return 'iso_temperature'
        if isinstance(node, ast.Name):
            if node.id in eparams:
                bad(node, 'parameter `%s` used as a scalar reading' % node.id)
            return scalar(once(node.id, node), depth + 1)
        if isinstance(node, ast.Call) and isinstance(node.func, ast.Attribute) and isinstance(node.func.value, ast.Name) and node.func.value.id == 'adsorbate':
            a = once('adsorbate', node)
            if not (isinstance(a, ast.Call) and dotted(a.func) == 'Adsorbate.find' and len(a.args) == 1 and dotted(a.args[0]) == 'isotherm.adsorbate' and not a.keywords):
                bad(a, 'adsorbate = Adsorbate.find(isotherm.adsorbate) expected')
            m = node.func.attr
            if m == 'molar_mass' and not node.args and not node.keywords:
                return 'ads_molar_mass'
            if m == 'liquid_density' and len(node.args) == 1 and not node.keywords:
                return '(ads_liquid_density %s)' % scalar(node.args[0], depth + 1)
            if m == 'get_prop' and len(node.args) == 1 and isinstance(node.args[0], ast.Constant) and node.args[0].value == 'cross_sectional_area' and not node.keywords:
                return 'ads_cross_section'
        bad(node, 'scalar expression outside the subset: %s' % ast.dump(node)[:160])

    def strdict(node):
        if not (isinstance(node, ast.Dict) and all(isinstance(k, ast.Constant) and isinstance(k.value, str) for k in node.keys)
                and all(isinstance(v, ast.Constant) and isinstance(v.value, str) for v in node.values)):
            bad(node, 'literal dict of strings expected')
        return '[' + '; '.join('("%s", "%s")' % (k.value, v.value) for k, v in zip(node.keys, node.values)) + ']'
    pairs = []
    for i, a in enumerate(call.args):
        if i >= len(rparams):
            bad(call, 'too many arguments')
        pairs.append((rparams[i], a))
    for kw in call.keywords:
        if kw.arg not in rparams or kw.arg in [p for p, _ in pairs]:
            bad(call, 'keyword %s' % kw.arg)
        pairs.append((kw.arg, kw.value))
    scalars, kinds, units = [], [], None
    for pname, a in pairs:
        if not isinstance(a, ast.Name):
            bad(a, 'argument `%s` of %s must be a plain name' % (pname, rname))
        nm = a.id
        if nm in tuples and count.get(nm) == 1:
            v, names = tuples[nm]
            if not (isinstance(v, ast.Call) and dotted(v.func) == 'get_iso_loading_and_pressure_ordered' and len(v.args) == 4 and not v.keywords
                    and dotted(v.args[0]) == 'isotherm' and names == ['pressure', 'loading']):
                bad(v, 'pressure, loading = get_iso_loading_and_pressure_ordered(isotherm, branch, {..}, {..}) expected')
            units = (strdict(v.args[2]), strdict(v.args[3]))
            kinds.append((pname, 'array:isotherm.' + nm))
        elif nm in top and isinstance(top[nm][0], ast.Call) and (dotted(top[nm][0].func) or '').endswith('.loading_at'):
            kinds.append((pname, 'array:' + dotted(top[nm][0].func)))
        elif nm in top and count.get(nm) == 1 and isinstance(top[nm][0], ast.Call) and dotted(top[nm][0].func) == 'get_thickness_model':
            kinds.append((pname, 'user:thickness-model'))
        elif nm in eparams:
            kinds.append((pname, 'user:' + nm))
        else:
            scalars.append((pname, scalar(a)))
            kinds.append((pname, 'scalar'))
    if units is None:
        bad(call, 'the isotherm data are not read with get_iso_loading_and_pressure_ordered')
    out = '  Definition %s_scalars : list (string * N) :=\n    [%s].\n' % (ename, '; '.join('("%s", %s)' % p for p in scalars))
    out += '  Definition %s_args : list (string * string) :=\n    [%s].\n' % (ename, '; '.join('("%s", "%s")' % p for p in kinds))
    out += '  Definition %s_loading_units : list (string * string) := %s.\n  Definition %s_pressure_units : list (string * string) := %s.\n' % (
        ename, units[0], ename, units[1])
    return out


HEADER = """(* GENERATED by tools/py2v_entryglue.py from pygaps/characterisation/*.py - do not edit.
   What the isotherm entry points read from the isotherm / adsorbate and hand to their *_raw function (raw parameter name, value). *)
From Coq Require Import String List.
Import ListNotations. Open Scope string_scope.

Section EntryGlueGen.
  Variable N : Type.
  Variables (iso_temperature ads_molar_mass ads_cross_section : N) (ads_liquid_density : N -> N).

"""


def main(src, out):
    parts = [one_entry(src, *e) for e in ENTRIES]
    # dr_plot must delegate to da_plot
    tree = ast.parse(open(os.path.join(src, 'pygaps', 'characterisation', 'dr_da_plots.py'), encoding='utf8').read())
    dr = next(n for n in tree.body if isinstance(n, ast.FunctionDef) and n.name == 'dr_plot')
    body = [st for st in dr.body if not (isinstance(st, ast.Expr) and isinstance(st.value, ast.Constant))]
    ok = len(body) == 1 and isinstance(body[0], ast.Return) and isinstance(body[0].value, ast.Call) and dotted(body[0].value.func) == 'da_plot' \
        and dotted(body[0].value.args[0]) == 'isotherm' and not any(kw.arg in ('isotherm',) for kw in body[0].value.keywords)
    if not ok:
        raise Unsupported('dr_da_plots.py:dr_plot: `return da_plot(isotherm, ...)` expected')
    text = HEADER + '\n'.join(parts) + '\nEnd EntryGlueGen.\n'
    path = os.path.join(out, 'EntryGlueGen.v')
    if not os.path.exists(path) or open(path).read() != text:
        open(path, 'w').write(text)


if __name__ == '__main__':
    try:
        main(sys.argv[1], sys.argv[2])
    except Unsupported as e:
        sys.stderr.write('py2v_entryglue: unsupported construct: %s\n' % e)
        sys.exit(1)
