#!/usr/bin/env python3
"""seed_eval.py <PROP> <srcdir containing patch.diff demo.py notes.txt> <name>
Confirms a seeded change independently (applies cleanly, stable baseline still passes, demo fails with / passes without),
then applies it to /repo, runs ./check <PROP> --tier quick, restores /repo, and stores everything under /verif/seeded/<name>/."""
import json, os, shutil, subprocess, sys, time
prop, src, name = sys.argv[1], sys.argv[2], sys.argv[3]
# VERIF_ROOT / VERIF_REPO: a private copy of /verif and of /repo (parallel evaluation, tools/seed_eval_all.sh); results always go to /verif/seeded
ROOT = os.environ.get('VERIF_ROOT', '/verif')
REPO = os.environ.get('VERIF_REPO', '/repo')
wt = '/tmp/seedeval_%s' % name
out = '/verif/seeded/%s' % name
def sh(cmd, **kw):
    return subprocess.run(cmd, shell=True, capture_output=True, text=True, **kw)
sh('git -C /repo worktree remove --force %s' % wt)
r = sh('/verif/tools/seedtools/mkworktree.sh %s' % wt); assert r.returncode == 0, r.stderr
env = dict(os.environ, PYTHONPATH=wt + '/src', PYTHONHASHSEED='0')
meta = {'property': prop, 'name': name, 'repo_commit': sh('git -C /repo rev-parse --short HEAD').stdout.strip()}
try:
    d0 = sh('/venv/bin/python %s/demo.py' % src, env=env, cwd=wt)
    meta['demo_without_change_exit'] = d0.returncode
    a = sh('git apply %s/patch.diff' % src, cwd=wt)
    meta['applies_cleanly'] = a.returncode == 0
    d1 = sh('/venv/bin/python %s/demo.py' % src, env=env, cwd=wt)
    meta['demo_with_change_exit'] = d1.returncode
    meta['demo_with_change_tail'] = (d1.stdout + d1.stderr)[-600:]
    b = sh('/verif/tools/seedtools/run_baseline.py %s' % wt)
    meta['baseline_ok'] = b.returncode == 0
    meta['baseline_out'] = b.stdout[-400:]
finally:
    sh('git -C /repo worktree remove --force %s' % wt)
meta['confirmed'] = bool(meta.get('applies_cleanly') and meta.get('baseline_ok') and meta.get('demo_without_change_exit') == 0 and meta.get('demo_with_change_exit') not in (0, None))
# run our check against it (exclusive lock on /repo: no other check may read it while it is patched)
import fcntl
gate = open(ROOT + '/.repo.gate', 'w'); fcntl.flock(gate, fcntl.LOCK_EX)
lockf = open(ROOT + '/.repo.lock', 'w'); fcntl.flock(lockf, fcntl.LOCK_EX)
fcntl.flock(gate, fcntl.LOCK_UN)
assert sh('git -C %s status --porcelain' % REPO).stdout.strip() == '', REPO + ' not clean'
t0 = time.time()
try:
    a = sh('git -C %s apply %s/patch.diff' % (REPO, src))
    c = sh('VERIF_NOLOCK=1 VERIF_REPO=%s %s/check %s --tier quick' % (REPO, ROOT, prop), cwd=ROOT)
    meta['check_exit'] = c.returncode
    meta['check_lines'] = [l for l in c.stdout.split('\n') if l.startswith(('VIOLATION', 'KNOWN-FINDING', 'PASS', 'FAIL', 'ERROR'))][:12]
    rp = [l.split('replay=')[1].split()[0] for l in c.stdout.split('\n') if l.startswith('VIOLATION')]
    if rp:
        try: meta['first_replay'] = json.load(open(rp[0]))
        except Exception as e: meta['first_replay'] = str(e)
finally:
    sh('git -C %s checkout -- .' % REPO)
    fcntl.flock(lockf, fcntl.LOCK_UN)
meta['check_wall_s'] = round(time.time() - t0)
meta['detected'] = meta.get('check_exit') == 1
os.makedirs(out, exist_ok=True)
for f in ('patch.diff', 'demo.py', 'notes.txt'):
    if os.path.exists(os.path.join(src, f)): shutil.copy(os.path.join(src, f), out)
meta['what_it_needs'] = open(os.path.join(src, 'notes.txt')).read()[:1500] if os.path.exists(os.path.join(src, 'notes.txt')) else ''
meta['ran'] = ['demo.py with/without the change in a scratch worktree', 'tools/seedtools/run_baseline.py (514 stable tests)', 'git -C /repo apply; ./check %s --tier quick; git -C /repo checkout -- .' % prop]
json.dump(meta, open(os.path.join(out, 'meta.json'), 'w'), indent=1)
print(json.dumps({k: meta[k] for k in ('confirmed', 'detected', 'check_exit', 'check_lines', 'check_wall_s', 'demo_without_change_exit', 'demo_with_change_exit', 'baseline_ok')}, indent=1))
