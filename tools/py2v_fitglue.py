"""py2v_fitglue: the fit() methods of /repo/src/pygaps/modelling/base_model.py and virial.py  ->  coq/Gen/FitGlueGen.v   (fail-closed)

What is translated (the "holes"):
  * IsothermBaseModel.fit: the branch on self.calculates that defines the residual `fit_func_base` handed to least_squares and the
    normalising `model_range`, and the line `self.rmse = <expr>` computing the reported error;
  * Virial.fit: the line `self.rmse = <expr>`.
Everything else of the two methods (and of fit_leastsq) is NOT translated but must be, statement by statement, the text this translator was
written against (SKELETON below): how the start / bound vectors are assembled by name, that `opt_res` is what fit_leastsq returned, that
nothing re-assigns opt_res / loading / model_range between the optimiser call and the rmse line, that verbose blocks only log / plot.
Any other statement, or an expression outside the small typed vocabulary below, aborts with file:line (exit 1): the generated file is then
replaced by a stub that does not compile, so every theorem about the generated definitions is reported broken.

Expression vocabulary of the rmse line (typed: V = vector over the fitted rows / parameters, S = scalar):
  opt_res.fun : V   opt_res.x : V   loading, pressure : V   opt_res.cost, opt_res.optimality, model_range : S   int / float constants : S
  len(V) : S   numpy.sum(V) : S   numpy.mean(V) : S   numpy.dot(V, V) : S   numpy.sqrt(S) : S   abs(S) : S   S (+ - * /) S : S   S ** k : S
  V ** k, numpy.square(V), V * V, V (* /) S, numpy.abs(V) : V            (k a literal natural number <= 9)
"""
import ast
import os
import sys
from fractions import Fraction


class Unsupported(Exception):
    pass


def bail(fn, node, msg):
    raise Unsupported('%s:%s: %s' % (fn, getattr(node, 'lineno', '?'), msg))


HOLE = '<<translated>>'
SKELETON = {
    ('base_model.py', 'IsothermBaseModel', 'fit'): (
        "self, pressure: 'list[float]', loading: 'list[float]', param_guess: 'list[float]', optimization_params: dict=None, verbose: bool=False",
        ["if verbose:\n    logger.info(f'Attempting to model using {self.name}.')",
         "param_names = list(self.params)",
         "guess = numpy.array([param_guess[p] for p in param_names])",
         "bounds = [[self.param_bounds[p][0] for p in param_names], [self.param_bounds[p][1] for p in param_names]]",
         HOLE,
         "def fit_func(x, pressure, loading):\n    for i, _ in enumerate(param_names):\n        self.params[param_names[i]] = x[i]\n    return fit_func_base(pressure, loading)",
         "fit_args = {'fun': fit_func, 'x0': guess, 'bounds': bounds, 'args': (pressure, loading)}",
         "if optimization_params:\n    fit_args.update(optimization_params)",
         "opt_res = self.fit_leastsq(fit_args)",
         "for i, _ in enumerate(param_names):\n    self.params[param_names[i]] = opt_res.x[i]",
         HOLE,
         "if verbose:\n    logger.info(f'Model {self.name} success, RMSE is {self.rmse:.3g}')"]),
    ('base_model.py', 'IsothermBaseModel', 'fit_leastsq'): (
        "self, leastsq_args: dict",
        ["try:\n    opt_res = optimize.least_squares(**leastsq_args)\nexcept ValueError as err:\n    raise CalculationError(f'Fitting routine for {self.name} failed with error:\\n\\t{err}') from err",
         "if not opt_res.success:\n    raise CalculationError(<<message>>)",
         "return opt_res"]),
    ('virial.py', 'Virial', 'fit'): (
        "self, pressure, loading, param_guess, optimization_params=None, verbose=False",
        ["if verbose:\n    logger.info(f'Attempting to model using {self.name}')",
         "param_names = [param for param in self.params]",
         "guess = numpy.array([param_guess[param] for param in param_names])",
         "bounds = [[self.param_bounds[param][0] for param in param_names], [self.param_bounds[param][1] for param in param_names]]",
         "zero_values = ~numpy.logical_and(pressure > 0, loading > 0)",
         "if any(zero_values):\n    logger.warning('Removed points which are equal to 0.')\n    pressure = pressure[~zero_values]\n    loading = loading[~zero_values]",
         "ln_p_over_n = numpy.log(numpy.divide(pressure, loading))",
         "add_point = False",
         "added_point = False",
         "if optimization_params:\n    add_point = optimization_params.pop('add_point', None)",
         "fractional_loading = loading / max(loading)",
         "if len(fractional_loading[fractional_loading < 0.5]) < 3:\n    if not add_point:\n        raise CalculationError(<<message>>)\n    added_point = True\n"
         "    ln_p_over_n = numpy.hstack([ln_p_over_n[0], ln_p_over_n])\n    loading = numpy.hstack([0.1, loading])",
         "def fit_func(x, L, ln_p_over_n):\n    for i, _ in enumerate(param_names):\n        self.params[param_names[i]] = x[i]\n"
         "    return self.params['C'] * L ** 3 + self.params['B'] * L ** 2 + self.params['A'] * L - numpy.log(self.params['K']) - ln_p_over_n",
         "kwargs = dict(fun=fit_func, x0=guess, bounds=bounds, args=(loading, ln_p_over_n))",
         "if optimization_params:\n    kwargs.update(optimization_params)",
         "opt_res = self.fit_leastsq(kwargs)",
         "for index, _ in enumerate(param_names):\n    self.params[param_names[index]] = opt_res.x[index]",
         HOLE,
         "if verbose:\n    logger.info(f'Model {self.name} success, RMSE is {self.rmse:.4g}')\n    n_load = numpy.linspace(0.01, numpy.amax(loading), 100)\n"
         "    virial_plot(loading, ln_p_over_n, n_load, numpy.log(numpy.divide(self.pressure(n_load), n_load)), added_point)"]),
}


class _Msg(ast.NodeTransformer):
    """the text of an error message is not logic: `raise CalculationError(<any string expression>)` is compared up to the message"""

    def visit_Raise(self, node):
        self.generic_visit(node)
        c = node.exc
        if isinstance(c, ast.Call) and isinstance(c.func, ast.Name) and c.func.id in ('CalculationError', 'ParameterError') and len(c.args) == 1 \
                and not c.keywords and isinstance(c.args[0], (ast.Constant, ast.JoinedStr)) and node.cause is None:
            if isinstance(c.args[0], ast.JoinedStr) or isinstance(c.args[0].value, str):
                c.args = [ast.Name(id='<<message>>', ctx=ast.Load())]
        return node


def stmt_text(s):
    import copy
    return ast.unparse(_Msg().visit(copy.deepcopy(s)))


def find_method(tree, cls, name, fn):
    for c in tree.body:
        if isinstance(c, ast.ClassDef) and c.name == cls:
            hits = [f for f in c.body if isinstance(f, ast.FunctionDef) and f.name == name]
            if len(hits) != 1:
                bail(fn, c, '%d definitions of %s.%s' % (len(hits), cls, name))
            return hits[0]
    raise Unsupported('%s: class %s not found' % (fn, cls))


def body_of(fd):
    b = fd.body
    if b and isinstance(b[0], ast.Expr) and isinstance(b[0].value, ast.Constant) and isinstance(b[0].value.value, str):
        b = b[1:]
    return b


def check_skeleton(fd, key, fn):
    """-> the statements standing at the HOLE positions"""
    sig, expected = SKELETON[key]
    if fd.decorator_list:
        bail(fn, fd, 'decorator on %s' % fd.name)
    if ast.unparse(fd.args) != sig:
        bail(fn, fd, 'signature of %s.%s is (%s), expected (%s)' % (key[1], key[2], ast.unparse(fd.args), sig))
    body = body_of(fd)
    if len(body) != len(expected):
        bail(fn, fd, '%s.%s has %d statements, the translator knows %d' % (key[1], key[2], len(body), len(expected)))
    holes = []
    for s, e in zip(body, expected):
        if e == HOLE:
            holes.append(s)
        elif stmt_text(s) != e:
            bail(fn, s, 'statement of %s.%s outside the translated subset:\n    %s\n  expected\n    %s' % (
                key[1], key[2], stmt_text(s).replace('\n', '\n    '), e.replace('\n', '\n    ')))
    return holes


# ---------------------------------------------------------------- typed expressions of the rmse line
VEC = {'opt_res.fun': 'opt_res_fun', 'opt_res.x': 'opt_res_x', 'loading': 'loading', 'pressure': 'pressure'}
SCA = {'opt_res.cost': 'opt_res_cost', 'opt_res.optimality': 'opt_res_optimality'}


def lit_nat(e):
    return isinstance(e, ast.Constant) and isinstance(e.value, int) and not isinstance(e.value, bool) and 0 <= e.value <= 9


def const(e, fn):
    if isinstance(e.value, bool) or not isinstance(e.value, (int, float)):
        bail(fn, e, 'constant %r' % (e.value,))
    fr = Fraction(e.value)
    if fr.denominator == 1:
        return str(fr.numerator) if fr.numerator >= 0 else '(%d)' % fr.numerator
    return '(%d / %d)' % (fr.numerator, fr.denominator)


def texpr(e, fn, scalars):
    """-> ('S'|'V', coq text)"""
    T = lambda x: texpr(x, fn, scalars)
    u = ast.unparse(e)
    if isinstance(e, ast.Constant):
        return 'S', const(e, fn)
    if isinstance(e, (ast.Name, ast.Attribute)):
        if u in VEC:
            return 'V', VEC[u]
        if u in SCA:
            return 'S', SCA[u]
        if u in scalars:
            return 'S', scalars[u]
        bail(fn, e, 'name %s outside the vocabulary of the reported-error line' % u)
    if isinstance(e, ast.UnaryOp) and isinstance(e.op, ast.USub):
        ty, a = T(e.operand)
        return (ty, '(- %s)' % a) if ty == 'S' else (ty, '(vscale (-1) %s)' % a)
    if isinstance(e, ast.BinOp):
        if isinstance(e.op, ast.Pow):
            if not lit_nat(e.right):
                bail(fn, e, 'exponent %s (only literal naturals <= 9)' % ast.unparse(e.right))
            ty, a = T(e.left)
            return (ty, '(%s ^ %d)' % (a, e.right.value)) if ty == 'S' else (ty, '(vpowi %s %d)' % (a, e.right.value))
        ops = {ast.Add: '+', ast.Sub: '-', ast.Mult: '*', ast.Div: '/'}
        if type(e.op) not in ops:
            bail(fn, e, 'operator ' + type(e.op).__name__)
        o = ops[type(e.op)]
        (ta, a), (tb, b) = T(e.left), T(e.right)
        if ta == 'S' and tb == 'S':
            return 'S', '(%s %s %s)' % (a, o, b)
        if ta == 'V' and tb == 'V' and o == '*':
            return 'V', '(vmul %s %s)' % (a, b)
        if ta == 'V' and tb == 'S' and o == '*':
            return 'V', '(vscale %s %s)' % (b, a)
        if ta == 'S' and tb == 'V' and o == '*':
            return 'V', '(vscale %s %s)' % (a, b)
        if ta == 'V' and tb == 'S' and o == '/':
            return 'V', '(vscale (/ %s) %s)' % (b, a)
        bail(fn, e, 'operand shapes of %s' % u)
    if isinstance(e, ast.Call) and not e.keywords:
        f = ast.unparse(e.func)
        args = [T(a) for a in e.args]
        shape = ''.join(t for t, _ in args)
        table = {('len', 'V'): ('S', '(np_len %s)'), ('numpy.sum', 'V'): ('S', '(np_sum %s)'), ('sum', 'V'): ('S', '(np_sum %s)'),
                 ('numpy.mean', 'V'): ('S', '(np_mean %s)'), ('numpy.dot', 'VV'): ('S', '(np_dot %s %s)'), ('numpy.sqrt', 'S'): ('S', '(sqrt %s)'),
                 ('abs', 'S'): ('S', '(Rabs %s)'), ('numpy.abs', 'S'): ('S', '(Rabs %s)'), ('numpy.square', 'V'): ('V', '(vpowi %s 2)'),
                 ('numpy.abs', 'V'): ('V', '(vabs %s)'), ('numpy.square', 'S'): ('S', '(%s ^ 2)')}
        if (f, shape) in table:
            ty, pat = table[(f, shape)]
            return ty, pat % tuple(a for _, a in args)
        bail(fn, e, 'call %s on %s' % (f, shape or 'no arguments'))
    bail(fn, e, 'expression ' + u)


def rmse_line(s, fn, scalars):
    if not (isinstance(s, ast.Assign) and len(s.targets) == 1 and ast.unparse(s.targets[0]) == 'self.rmse'):
        bail(fn, s, 'expected `self.rmse = <expr>`, found ' + ast.unparse(s).split('\n')[0])
    ty, txt = texpr(s.value, fn, scalars)
    if ty != 'S':
        bail(fn, s, 'the reported error is not a scalar')
    return txt


# ---------------------------------------------------------------- the branch on self.calculates
def sexpr(e, fn, names):
    """scalar expression over lambda arguments / self.loading(.) / self.pressure(.) / self.<x>_range[i]"""
    T = lambda x: sexpr(x, fn, names)
    if isinstance(e, ast.Constant):
        return const(e, fn)
    if isinstance(e, ast.Name) and e.id in names:
        return names[e.id]
    if isinstance(e, ast.BinOp) and type(e.op) in (ast.Add, ast.Sub, ast.Mult, ast.Div):
        return '(%s %s %s)' % (T(e.left), {ast.Add: '+', ast.Sub: '-', ast.Mult: '*', ast.Div: '/'}[type(e.op)], T(e.right))
    if isinstance(e, ast.UnaryOp) and isinstance(e.op, ast.USub):
        return '(- %s)' % T(e.operand)
    if isinstance(e, ast.Call) and ast.unparse(e.func) in ('self.loading', 'self.pressure') and len(e.args) == 1 and not e.keywords:
        return '(%s %s)' % (ast.unparse(e.func).replace('.', '_'), T(e.args[0]))
    if isinstance(e, ast.Subscript) and ast.unparse(e.value) in ('self.loading_range', 'self.pressure_range') and isinstance(e.slice, ast.Constant) \
            and e.slice.value in (0, 1) and not isinstance(e.slice.value, bool):
        return '(%s %s)' % ('fst' if e.slice.value == 0 else 'snd', ast.unparse(e.value).replace('self.', ''))
    bail(fn, e, 'expression %s in the branch on self.calculates' % ast.unparse(e))


def calculates_branch(s, fn):
    def arm(body, node):
        if len(body) != 2:
            bail(fn, node, 'an arm of the branch on self.calculates must define fit_func_base and model_range, nothing else')
        a, b = body
        if not (isinstance(a, ast.Assign) and ast.unparse(a.targets[0]) == 'fit_func_base' and len(a.targets) == 1 and isinstance(a.value, ast.Lambda)):
            bail(fn, a, 'expected `fit_func_base = lambda pr, ld: ...`')
        la = a.value.args
        if [x.arg for x in la.args] != ['pr', 'ld'] or la.vararg or la.kwarg or la.kwonlyargs or la.defaults or la.posonlyargs:
            bail(fn, a, 'lambda arguments of fit_func_base')
        if not (isinstance(b, ast.Assign) and len(b.targets) == 1 and ast.unparse(b.targets[0]) == 'model_range'):
            bail(fn, b, 'expected `model_range = ...`')
        return sexpr(a.value.body, fn, {'pr': 'pr', 'ld': 'ld'}), sexpr(b.value, fn, {})
    if not (isinstance(s, ast.If) and ast.unparse(s.test) == "self.calculates == 'loading'" and len(s.orelse) == 1 and isinstance(s.orelse[0], ast.If)
            and ast.unparse(s.orelse[0].test) == "self.calculates == 'pressure'" and not s.orelse[0].orelse):
        bail(fn, s, "expected `if self.calculates == 'loading': ... elif self.calculates == 'pressure': ...`")
    return arm(s.body, s), arm(s.orelse[0].body, s.orelse[0])


def translate(repo_src):
    d = os.path.join(repo_src, 'pygaps', 'modelling')
    out = {}
    fb = os.path.join(d, 'base_model.py')
    tb = ast.parse(open(fb, encoding='utf8').read())
    holes = check_skeleton(find_method(tb, 'IsothermBaseModel', 'fit', fb), ('base_model.py', 'IsothermBaseModel', 'fit'), fb)
    check_skeleton(find_method(tb, 'IsothermBaseModel', 'fit_leastsq', fb), ('base_model.py', 'IsothermBaseModel', 'fit_leastsq'), fb)
    (out['res_l'], out['range_l']), (out['res_p'], out['range_p']) = calculates_branch(holes[0], fb)
    out['base_rmse'] = rmse_line(holes[1], fb, {'model_range': 'model_range'})
    fv = os.path.join(d, 'virial.py')
    tv = ast.parse(open(fv, encoding='utf8').read())
    holes = check_skeleton(find_method(tv, 'Virial', 'fit', fv), ('virial.py', 'Virial', 'fit'), fv)
    out['virial_rmse'] = rmse_line(holes[0], fv, {})
    # every other model class must inherit fit / fit_leastsq unchanged (a class overriding them has its own error definition)
    for f in sorted(os.listdir(d)):
        if not f.endswith('.py') or f == 'base_model.py':
            continue
        fn = os.path.join(d, f)
        for c in ast.parse(open(fn, encoding='utf8').read()).body:
            if isinstance(c, ast.ClassDef):
                for m in c.body:
                    if isinstance(m, (ast.FunctionDef, ast.AsyncFunctionDef)) and m.name in ('fit', 'fit_leastsq') and not (f == 'virial.py' and c.name == 'Virial' and m.name == 'fit'):
                        bail(fn, m, 'class %s overrides %s' % (c.name, m.name))
                    if isinstance(m, ast.Assign) and any(ast.unparse(t) in ('fit', 'fit_leastsq') for t in m.targets):
                        bail(fn, m, 'class %s rebinds %s' % (c.name, ast.unparse(m).split('\n')[0]))
    return out


def emit(ir):
    return ('(* GENERATED by tools/py2v_fitglue.py from /repo/src/pygaps/modelling/base_model.py and virial.py - do not edit.\n'
            '   IsothermBaseModel.fit: the residual handed to scipy.optimize.least_squares and the normalising range (branch on self.calculates),\n'
            '   and the line computing the reported error self.rmse; Virial.fit: its reported error. The rest of both methods is checked, statement by\n'
            '   statement, against the text the translator was written for. opt_res_* are the attributes of the OptimizeResult returned by\n'
            '   least_squares (fun: residual vector, x: parameters, cost / optimality: scalars the optimiser reports). *)\n'
            'From Coq Require Import Reals List.\nFrom PG Require Import Fit.FitPre.\nOpen Scope R_scope.\n\n'
            '(* fit_func_base = lambda pr, ld: ... *)\n'
            'Definition BaseFit_residual (calculates_loading : bool) (self_loading self_pressure : R -> R) (pr ld : R) : R :=\n'
            '  if calculates_loading then %(res_l)s else %(res_p)s.\n'
            '(* model_range = ... *)\n'
            'Definition BaseFit_model_range (calculates_loading : bool) (loading_range pressure_range : R * R) : R :=\n'
            '  if calculates_loading then %(range_l)s else %(range_p)s.\n'
            '(* self.rmse = ... *)\n'
            'Definition BaseFit_rmse (opt_res_fun opt_res_x : list R) (opt_res_cost opt_res_optimality : R) (pressure loading : list R) (model_range : R) : R :=\n'
            '  %(base_rmse)s.\n'
            '(* Virial.fit: self.rmse = ...   (loading: the rows handed to the optimiser) *)\n'
            'Definition VirialFit_rmse (opt_res_fun opt_res_x : list R) (opt_res_cost opt_res_optimality : R) (pressure loading : list R) : R :=\n'
            '  %(virial_rmse)s.\n') % ir


def main():
    repo_src, outdir = sys.argv[1], sys.argv[2]
    try:
        text = emit(translate(repo_src))
    except (Unsupported, SyntaxError, OSError) as e:
        sys.stderr.write('py2v_fitglue: unsupported construct: %s\n' % e)
        sys.exit(1)
    path = os.path.join(outdir, 'FitGlueGen.v')
    if not os.path.exists(path) or open(path).read() != text:
        open(path, 'w').write(text)


if __name__ == '__main__':
    main()
