"""py2v_xl: fail-closed translator of the LOGIC of parsing/excel.py that the Excel document model (Codec/XlDoc.v) depends on
into Gallina (Gen/XlGen.v).  Read from the current source by `ast` (never imported, never executed):

  _META_DICT                        name, label text, row, column of every fixed header field
  isotherm_to_xl                    the guard under which a header VALUE is written (`if val:`), the row offsets of the table /
                                    of the model block, the column offset of the dtype row and of the extra columns
  isotherm_from_xl                  the test that maps a header cell to None, the `break` tests of the four scanning loops
                                    (data rows, header columns, model parameters, 'otherdata' rows), the guard of the dtype cell,
                                    the tests of the 'otherdata' value (boolean / empty), the row offsets the reader uses

A cell test is translated from a closed grammar over ONE cell `c`:
    <cell>.value == ''   |  <cell>.value != ''  |  not <cell>.value  |  <cell>.value  (truthiness)
    <cell>.ctype == xlrd.XL_CELL_EMPTY | XL_CELL_BOOLEAN  (and != )
where <cell> is `sht.cell(R, C)` possibly through local names assigned in the same block.  The (R, C) expressions are checked
against what the model assumes (loop counter, constant column ...).  Anything else aborts (exit 1): the obligations depending on
Gen/XlGen.v then count as broken.

Usage: py2v_xl.py <repo_src_dir> <out_dir>
"""
import ast
import os
import sys


class Unsupported(Exception):
    pass


def cstr(s):
    if not isinstance(s, str) or not all(32 <= ord(ch) < 127 for ch in s):
        raise Unsupported('expected an ASCII string, got %r' % (s,))
    return '"%s"' % s.replace('"', '""')


def src(n):
    return ast.unparse(n)


def find_func(tree, name):
    for st in tree.body:
        if isinstance(st, ast.FunctionDef) and st.name == name:
            return st
    raise Unsupported('function %s not found' % name)


def resolve(node, env):
    """substitute local names (single assignment in the enclosing block) by their defining expressions"""
    if isinstance(node, ast.Name) and node.id in env:
        return resolve(env[node.id], env)
    if isinstance(node, ast.Attribute):
        return ast.Attribute(value=resolve(node.value, env), attr=node.attr, ctx=ast.Load())
    return node


def cell_of(node, where):
    """node must be <sheet>.cell(R, C) -> (R source, C source)"""
    if isinstance(node, ast.Call) and isinstance(node.func, ast.Attribute) and node.func.attr == 'cell' and \
            isinstance(node.func.value, ast.Name) and len(node.args) == 2 and not node.keywords:
        return src(node.args[0]), src(node.args[1])
    raise Unsupported('%s: expected <sheet>.cell(r, c), got %s' % (where, src(node)))


def cell_test(test, env, where):
    """-> (Coq boolean expression over `c : xcell`, (R, C) of the cell it looks at)"""
    t = test
    if isinstance(t, ast.UnaryOp) and isinstance(t.op, ast.Not):
        inner, rc = cell_test(t.operand, env, where)
        return 'negb (%s)' % inner, rc
    if isinstance(t, ast.Compare) and len(t.ops) == 1 and len(t.comparators) == 1 and isinstance(t.ops[0], (ast.Eq, ast.NotEq)):
        left, right = resolve(t.left, env), t.comparators[0]
        neg = isinstance(t.ops[0], ast.NotEq)
        if isinstance(left, ast.Attribute) and left.attr == 'value' and isinstance(right, ast.Constant) and right.value == '':
            rc = cell_of(left.value, where)
            e = 'veqb (cell_value c) (VStr "")'
            return ('negb (%s)' % e if neg else e), rc
        if isinstance(left, ast.Attribute) and left.attr == 'ctype' and isinstance(right, ast.Attribute) and \
                isinstance(right.value, ast.Name) and right.value.id == 'xlrd' and right.attr in ('XL_CELL_EMPTY', 'XL_CELL_BOOLEAN'):
            rc = cell_of(left.value, where)
            e = 'is_empty c' if right.attr == 'XL_CELL_EMPTY' else 'is_boolean c'
            return ('negb (%s)' % e if neg else e), rc
        raise Unsupported('%s: unsupported comparison %s' % (where, src(test)))
    r = resolve(t, env)
    if isinstance(r, ast.Attribute) and r.attr == 'value':      # truthiness of the cell value
        rc = cell_of(r.value, where)
        return 'truthy (cell_value c)', rc
    raise Unsupported('%s: unsupported cell test %s' % (where, src(test)))


def block_env(stmts, upto):
    env = {}
    for s in stmts:
        if s is upto:
            break
        if isinstance(s, ast.Assign) and len(s.targets) == 1 and isinstance(s.targets[0], ast.Name):
            env[s.targets[0].id] = s.value
    return env


def break_test(loop, where):
    """the single `if <test>: break` directly in the loop body -> (coq, (R, C))"""
    found = [s for s in loop.body if isinstance(s, ast.If) and len(s.body) == 1 and isinstance(s.body[0], ast.Break) and not s.orelse]
    if len(found) != 1:
        raise Unsupported('%s: expected exactly one `if ...: break` in the loop, found %d' % (where, len(found)))
    for n in ast.walk(loop):
        if isinstance(n, (ast.Break, ast.Continue)) and n is not found[0].body[0]:
            raise Unsupported('%s: further break / continue in the loop' % where)
    return cell_test(found[0].test, block_env(loop.body, found[0]), where)


def loop_header(loop, where):
    """`while <counter> < <sheet>.nrows|ncols` -> (counter, 'nrows'|'ncols')"""
    t = loop.test
    if isinstance(t, ast.Compare) and len(t.ops) == 1 and isinstance(t.ops[0], ast.Lt) and isinstance(t.left, ast.Name) and \
            isinstance(t.comparators[0], ast.Attribute) and t.comparators[0].attr in ('nrows', 'ncols'):
        if loop.orelse:
            raise Unsupported('%s: while ... else' % where)
        inc = [s for s in loop.body if isinstance(s, ast.AugAssign) and isinstance(s.target, ast.Name) and s.target.id == t.left.id]
        if len(inc) != 1 or not isinstance(inc[0].op, ast.Add) or not (isinstance(inc[0].value, ast.Constant) and inc[0].value.value == 1) \
                or loop.body[-1] is not inc[0]:
            raise Unsupported('%s: the loop must end with `%s += 1`' % (where, t.left.id))
        return t.left.id, t.comparators[0].attr
    raise Unsupported('%s: unexpected loop test %s' % (where, src(t)))


def offset(node, base, where):
    """`base`, `base + k`, `k + base` -> k"""
    if isinstance(node, ast.Name) and node.id == base:
        return 0
    if isinstance(node, ast.BinOp) and isinstance(node.op, ast.Add):
        a, b = node.left, node.right
        if isinstance(a, ast.Name) and a.id == base and isinstance(b, ast.Constant) and isinstance(b.value, int):
            return b.value
        if isinstance(b, ast.Name) and b.id == base and isinstance(a, ast.Constant) and isinstance(a.value, int):
            return a.value
    raise Unsupported('%s: expected %s + <int>, got %s' % (where, base, src(node)))


def main(srcdir, out):
    path = os.path.join(srcdir, 'pygaps', 'parsing', 'excel.py')
    tree = ast.parse(open(path, encoding='utf8').read(), path)
    L = []
    add = L.append
    add('(* GENERATED by tools/py2v_xl.py from src/pygaps/parsing/excel.py -- do not edit. *)')
    add('From Coq Require Import String List ZArith Bool.')
    add('From PG Require Import Codec.PyVal Codec.XlCell.')
    add('Import ListNotations.')
    add('Open Scope string_scope.')
    add('')
    # ---------------------------------------------------------------- _META_DICT
    md = None
    for st in tree.body:
        if isinstance(st, ast.Assign) and len(st.targets) == 1 and isinstance(st.targets[0], ast.Name) and st.targets[0].id == '_META_DICT':
            try:
                md = ast.literal_eval(st.value)
            except Exception:
                raise Unsupported('_META_DICT is not a literal')
    if not isinstance(md, dict) or not md:
        raise Unsupported('_META_DICT not found')
    rows = []
    for k, v in md.items():
        if not (isinstance(v, dict) and set(v) == {'text', 'name', 'row', 'column'} and isinstance(v['name'], str) and v['name'] == k and
                isinstance(v['text'], tuple) and len(v['text']) >= 1 and isinstance(v['row'], int) and isinstance(v['column'], int)
                and v['row'] >= 0 and v['column'] >= 0):
            raise Unsupported('unexpected _META_DICT entry %r' % (k,))
        rows.append('(%s, %s, %d, %d)' % (cstr(v['name']), cstr(v['text'][0]), v['row'], v['column']))
    if 'isotherm_data' not in md:
        raise Unsupported("_META_DICT has no 'isotherm_data' entry")
    add('(* name, label, row, column of the fixed header fields *)')
    add('Definition xl_fields : list (string * string * nat * nat) := [%s].' % '; '.join(rows))
    add('Definition xl_type_row : nat := %d.' % md['isotherm_data']['row'])
    add('Definition xl_type_col : nat := %d.' % md['isotherm_data']['column'])

    # ---------------------------------------------------------------- writer
    w = find_func(tree, 'isotherm_to_xl')
    hdr = [s for s in w.body if isinstance(s, ast.For) and isinstance(s.iter, ast.Call) and src(s.iter) == '_META_DICT.values()']
    if len(hdr) != 1:
        raise Unsupported('isotherm_to_xl: the loop over _META_DICT.values() was not found')
    hb = hdr[0].body
    # val = iso_dict.pop(field['name'], None) ; sht.write(row, column, text[0], style) ; if val: sht.write(row, column + 1, val, style)
    if not (len(hb) == 3 and isinstance(hb[0], ast.Assign) and src(hb[0]) == "val = iso_dict.pop(field['name'], None)"
            and isinstance(hb[1], ast.Expr) and src(hb[1]).startswith("sht.write(field['row'], field['column'], field['text'][0]")
            and isinstance(hb[2], ast.If) and not hb[2].orelse and len(hb[2].body) == 1
            and src(hb[2].body[0]).startswith("sht.write(field['row'], field['column'] + 1, val")):
        raise Unsupported('isotherm_to_xl: unexpected shape of the header loop: %s' % src(hdr[0])[:300])
    g = hb[2].test
    if isinstance(g, ast.Name) and g.id == 'val':
        guard = 'truthy v'
    elif isinstance(g, ast.Compare) and src(g) == 'val is not None':
        guard = 'match v with VNone => false | _ => true end'
    else:
        raise Unsupported('isotherm_to_xl: unsupported guard of the header value: %s' % src(g))
    add('(* isotherm_to_xl: the header value is written only under `if %s:` *)' % src(g))
    add('Definition xl_header_written (v : pyval) : bool := %s.' % guard)
    # offsets used by the writer: data_row = type_row + 1 ; cells at data_row + row_index + 1 ; dtype cells at (data_row - 1, col_index + 3)
    wsrc = src(w)
    need = ['data_row = type_row + 1', 'sht.write(data_row - 1, col_index + 3, data[heading].dtype.name)', 'sht.write(data_row, col_index, heading)',
            'sht.write(data_row + row_index + 1, col_index, datapoint)',
            "columns = [isotherm.pressure_key, isotherm.loading_key, 'branch'] + isotherm.other_keys",
            "data['branch'] = data['branch'].replace(0, 'ads').replace(1, 'des')",
            "sht.write(type_row, type_col + 1, 'data', prop_style)", "sht.write(type_row, type_col + 1, 'model', prop_style)",
            "sht.write(type_row, type_col + 1, 'metadata', prop_style)",
            'model_row = type_row', "sht.write(model_row + 1, 1, isotherm.model.name)", 'sht.write(model_row + 2, 1, isotherm.model.rmse)',
            'sht.write(model_row + 3, 1, str(isotherm.model.pressure_range))', 'sht.write(model_row + 4, 1, str(isotherm.model.loading_range))',
            'model_row = model_row + 5', 'sht.write(model_row + row_index + 1, 0, param)',
            'sht.write(model_row + row_index + 1, 1, isotherm.model.params[param])',
            'sht.write(row, col, prop)', 'sht.write(row, col + 1, iso_dict[prop])']
    for n in need:
        if n not in wsrc:
            raise Unsupported('isotherm_to_xl: statement not found: ' + n)

    # ---------------------------------------------------------------- reader
    r = find_func(tree, 'isotherm_from_xl')
    rsrc = src(r)
    for n in ['header_row = type_row + 1', 'start_row = header_row + 1', 'final_row = start_row', 'final_row = type_row + 6',
              "raw_dict['pressure_key'] = headers[0]", "raw_dict['loading_key'] = headers[1]",
              "data['branch'] = data['branch'].apply(lambda x: 0 if x == 'ads' else 1)",
              "'name': sht.cell(type_row + 1, 1).value", "'rmse': sht.cell(type_row + 2, 1).value",
              "'pressure_range': ast.literal_eval(sht.cell(type_row + 3, 1).value)",
              "'loading_range': ast.literal_eval(sht.cell(type_row + 4, 1).value)",
              "experiment_data[header] = [sht.cell(i, header_col).value for i in range(start_row, final_row)]",
              "model['parameters'][point] = sht.cell(final_row, 1).value", 'raw_dict[namec.value] = val']:
        if n not in rsrc:
            raise Unsupported('isotherm_from_xl: statement not found: ' + n)
    # header cells
    hdr = [s for s in r.body if isinstance(s, ast.For) and src(s.iter) == '_META_DICT.values()']
    if len(hdr) != 1:
        raise Unsupported('isotherm_from_xl: the loop over _META_DICT.values() was not found')
    hb = hdr[0].body
    if not (len(hb) == 3 and src(hb[0]) == "valc = sht.cell(field['row'], field['column'] + 1)" and isinstance(hb[1], ast.If)
            and src(hb[1].body[0]) == 'val = None' and len(hb[1].orelse) == 1 and src(hb[1].orelse[0]) == 'val = valc.value'
            and src(hb[2]) == "raw_dict[field['name']] = val"):
        raise Unsupported('isotherm_from_xl: unexpected shape of the header loop')
    e, _ = cell_test(hb[1].test, block_env(hb, hb[1]), 'header cell')
    add('(* isotherm_from_xl: a header cell is read as None under `if %s:` *)' % src(hb[1].test))
    add('Definition xl_header_none (c : xcell) : bool := %s.' % e)
    # the four scanning loops, in source order
    loops = [n for n in ast.walk(r) if isinstance(n, ast.While)]
    loops.sort(key=lambda n: n.lineno)
    if len(loops) != 4:
        raise Unsupported('isotherm_from_xl: expected 4 while loops, found %d' % len(loops))
    spec = [('xl_data_stop', 'final_row', 'nrows', ('final_row', '0'), 'data rows'),
            ('xl_col_stop', 'header_col', 'ncols', ('header_row', 'header_col'), 'header columns'),
            ('xl_param_stop', 'final_row', 'nrows', ('final_row', '0'), 'model parameters'),
            ('xl_other_stop', 'row_index', 'nrows', ('row_index', '0'), "'otherdata' rows")]
    for loop, (name, ctr, dim, rc, what) in zip(loops, spec):
        c, d = loop_header(loop, what)
        if (c, d) != (ctr, dim):
            raise Unsupported('%s: expected `while %s < sht.%s`, got `while %s < sht.%s`' % (what, ctr, dim, c, d))
        e, got = break_test(loop, what)
        if got != rc:
            raise Unsupported('%s: the break test looks at cell(%s, %s), expected cell(%s, %s)' % ((what,) + got + rc))
        t = [s for s in loop.body if isinstance(s, ast.If) and isinstance(s.body[0], ast.Break)][0].test
        add('(* isotherm_from_xl, %s: the scan stops under `if %s: break` *)' % (what, src(t)))
        add('Definition %s (c : xcell) : bool := %s.' % (name, e))
    # dtype cell of the header-column loop: if header_col > 2: dtype = sht.cell(header_row - 1, header_col).value ; if dtype != '': dtypes[header] = dtype
    cl = loops[1]
    dt = [s for s in cl.body if isinstance(s, ast.If) and not isinstance(s.body[0], ast.Break)]
    if len(dt) != 1 or not (isinstance(dt[0].test, ast.Compare) and src(dt[0].test).startswith('header_col > ') and
                            isinstance(dt[0].test.comparators[0], ast.Constant) and isinstance(dt[0].test.comparators[0].value, int)):
        raise Unsupported('header columns: the dtype guard `if header_col > k:` was not found')
    kcol = dt[0].test.comparators[0].value
    body = dt[0].body
    if not (len(body) == 2 and src(body[0]) == 'dtype = sht.cell(header_row - 1, header_col).value' and isinstance(body[1], ast.If)
            and not body[1].orelse and src(body[1].body[0]) == 'dtypes[header] = dtype'):
        raise Unsupported('header columns: unexpected shape of the dtype block')
    e, _ = cell_test(body[1].test, block_env(body, body[1]), 'dtype cell')
    add('(* isotherm_from_xl: the dtype cell of column c is used under `if header_col > %d` and `if %s` *)' % (kcol, src(body[1].test)))
    add('Definition xl_dtype_from_col : nat := %d.' % (kcol + 1))
    add('Definition xl_dtype_used (c : xcell) : bool := %s.' % e)
    # 'otherdata' value: if valc.ctype == BOOLEAN: bool(valc.value) elif valc.ctype == EMPTY: None else: valc.value
    ol = loops[3]
    ifs = [s for s in ol.body if isinstance(s, ast.If) and not isinstance(s.body[0], ast.Break)]
    if len(ifs) != 1:
        raise Unsupported("'otherdata' rows: the value conversion was not found")
    i1 = ifs[0]
    env = block_env(ol.body, i1)
    if not (src(i1.body[0]) == 'val = bool(valc.value)' and len(i1.orelse) == 1 and isinstance(i1.orelse[0], ast.If)
            and src(i1.orelse[0].body[0]) == 'val = None' and len(i1.orelse[0].orelse) == 1 and src(i1.orelse[0].orelse[0]) == 'val = valc.value'):
        raise Unsupported("'otherdata' rows: unexpected shape of the value conversion")
    e1, rc1 = cell_test(i1.test, env, 'otherdata value')
    e2, rc2 = cell_test(i1.orelse[0].test, env, 'otherdata value')
    if rc1 != ('row_index', '1') or rc2 != ('row_index', '1') or src(env.get('namec')) != 'sht.cell(row_index, 0)':
        raise Unsupported("'otherdata' rows: unexpected cells")
    add("(* isotherm_from_xl, 'otherdata' value: `if %s: bool(value)` / `elif %s: None` / else value *)" % (src(i1.test), src(i1.orelse[0].test)))
    add('Definition xl_other_bool (c : xcell) : bool := %s.' % e1)
    add('Definition xl_other_none (c : xcell) : bool := %s.' % e2)
    text = '\n'.join(L) + '\n'
    outp = os.path.join(out, 'XlGen.v')
    if not os.path.exists(outp) or open(outp, encoding='utf8').read() != text:
        open(outp, 'w', encoding='utf8').write(text)


if __name__ == '__main__':
    try:
        main(sys.argv[1], sys.argv[2])
    except Unsupported as e:
        sys.stderr.write('py2v_xl: %s\n' % e)
        sys.exit(1)
