"""py2v_purity: static census of the calls by which read-only entry points could change an isotherm passed to them.

Scans every function of pygaps/characterisation/*.py, pygaps/iast/pgiast.py, pygaps/modelling/__init__.py, pygaps/parsing/{json,csv,aif,excel}.py
(exporters) and reports, for every parameter or local that (syntactically) holds an isotherm (name contains 'iso' or is 'reference'/'ref'):
  - calls of a MUTATING method on it (convert, convert_pressure, convert_loading, convert_material, convert_temperature),
  - calls of an in-place container method (setdefault, update, pop, append, sort, ... or any call with inplace=True) on an attribute
    chain rooted at it (`x.model.params.setdefault(...)`, `x.data_raw.sort_values(..., inplace=True)`), and `del x.attr[...]`,
  - assignments to one of its attributes or into one of them (`x.attr = ...`, `x.data_raw[...] = ...`), also through a local alias of
    such an attribute chain (`params = x.model.params; params['t'] = 1`),
for names that are PARAMETERS of the function (objects the caller handed in), including elements of a parameter iterated in a for loop.
Output: coq/Gen/PurityGen.v  with  mutating_sites : list (module * function * what).
Fail-closed: a file that does not parse aborts.  Usage: py2v_purity.py <repo_src_dir> <out_dir>
"""
import ast
import glob
import os
import sys

MUTATING = {'convert', 'convert_pressure', 'convert_loading', 'convert_material', 'convert_temperature'}
INPLACE = {'setdefault', 'update', 'pop', 'popitem', 'clear', 'append', 'extend', 'insert', 'remove', 'sort', 'reverse', 'fill', 'put',
           'itemset', 'resize', '__setitem__', '__delitem__', '__setattr__'}


FRESH_PROPS = set()


def fresh_properties(src):
    """@property methods of the isotherm classes whose every return value is a freshly built object (dict / comprehension / call /
    constant): reading them never hands out a part of the isotherm, so changing the result in place is harmless"""
    out = set()
    for f in ('baseisotherm', 'pointisotherm', 'modelisotherm'):
        tree = ast.parse(open(os.path.join(src, 'pygaps/core/%s.py' % f), encoding='utf8').read())
        for fn in ast.walk(tree):
            if isinstance(fn, ast.FunctionDef) and any(isinstance(d, ast.Name) and d.id == 'property' for d in fn.decorator_list):
                rets = [r.value for r in ast.walk(fn) if isinstance(r, ast.Return)]
                if rets and all(isinstance(r, (ast.Dict, ast.DictComp, ast.ListComp, ast.SetComp, ast.Constant, ast.JoinedStr)) for r in rets):
                    out.add(fn.name)
    return out


def isoish(name):
    n = name.lower()
    return 'iso' in n or n in ('reference', 'ref')


def scan(path, mod):
    tree = ast.parse(open(path, encoding='utf8').read())
    out = []
    for fn in ast.walk(tree):
        if not isinstance(fn, (ast.FunctionDef, ast.AsyncFunctionDef)):
            continue
        params = {a.arg for a in fn.args.args + fn.args.kwonlyargs}
        # loop variables ranging over a parameter (for iso in isotherms) alias the caller's objects too
        for n in ast.walk(fn):
            if isinstance(n, (ast.For, ast.comprehension)) and isinstance(n.target, ast.Name):
                it = n.iter
                while isinstance(it, (ast.Call, ast.Attribute, ast.Subscript)):
                    it = it.args[0] if isinstance(it, ast.Call) and it.args else getattr(it, 'value', None) or getattr(it, 'func', None)
                if isinstance(it, ast.Name) and it.id in params:
                    params.add(n.target.id)
        handed = {p for p in params if isoish(p)}

        def root(e):
            """(root name, chain contains an attribute access) of an attribute / subscript chain without calls"""
            has_attr = False
            first = None
            while isinstance(e, (ast.Attribute, ast.Subscript)):
                has_attr = has_attr or isinstance(e, ast.Attribute)
                if isinstance(e, ast.Attribute):
                    first = e.attr
                e = e.value
            if first in FRESH_PROPS:   # x.units... : a fresh dictionary, not a part of x
                return None, False
            return (e.id if isinstance(e, ast.Name) else None), has_attr

        def visit_expr_stmt(n, live, views):
            """record mutating calls / attribute assignments on names that still denote the caller's object (live) or a part of it (views)"""
            for m in ast.walk(n):
                if isinstance(m, ast.Call) and isinstance(m.func, ast.Attribute):
                    base, has_attr = root(m.func.value)
                    inplace_kw = any(k.arg == 'inplace' and not (isinstance(k.value, ast.Constant) and k.value.value is False) for k in m.keywords)
                    if m.func.attr in MUTATING and base in live:
                        out.append((mod, fn.name, 'call:%s.%s' % (base, m.func.attr)))
                    elif (m.func.attr in INPLACE or inplace_kw) and ((base in live and has_attr) or base in views):
                        out.append((mod, fn.name, 'inplace:%s' % ast.unparse(m.func)[:60]))
            if isinstance(n, ast.Delete):
                for t in n.targets:
                    base, has_attr = root(t)
                    if isinstance(t, (ast.Attribute, ast.Subscript)) and ((base in live and has_attr) or base in views):
                        out.append((mod, fn.name, 'del:%s' % ast.unparse(t)[:60]))
            if isinstance(n, (ast.Assign, ast.AugAssign)):
                targets = n.targets if isinstance(n, ast.Assign) else [n.target]
                for t in targets:
                    base, has_attr = root(t)
                    if isinstance(t, (ast.Attribute, ast.Subscript)) and ((has_attr and base in live) or base in views):
                        out.append((mod, fn.name, 'assign:%s' % ast.unparse(t)[:60]))
                    elif isinstance(n, ast.AugAssign) and isinstance(t, ast.Name) and t.id in views:
                        out.append((mod, fn.name, 'augassign:%s' % t.id))   # `view += ...` works in place on arrays / lists

        def visit_block(stmts, live, views=()):
            """flow-sensitive along a statement list: `x = <new object>` makes x a local from there on (in this block and below);
            `v = x.attr...` (no call) makes v a view of the caller's object"""
            live = set(live)
            views = set(views)
            for st in stmts:
                if isinstance(st, (ast.FunctionDef, ast.AsyncFunctionDef, ast.ClassDef)):
                    continue
                if isinstance(st, (ast.If, ast.For, ast.While, ast.With, ast.Try)):
                    for field in ('test', 'iter', 'items'):
                        v = getattr(st, field, None)
                        if v is not None:
                            for e in (v if isinstance(v, list) else [v]):
                                visit_expr_stmt(e, live, views)
                    for field in ('body', 'orelse', 'finalbody'):
                        visit_block(getattr(st, field, []) or [], live, views)
                    for h in getattr(st, 'handlers', []) or []:
                        visit_block(h.body, live, views)
                    continue
                visit_expr_stmt(st, live, views)
                if isinstance(st, ast.Assign):
                    vbase, vattr = root(st.value)
                    is_view = isinstance(st.value, (ast.Attribute, ast.Subscript)) and ((vbase in live and vattr) or vbase in views)
                    for t in st.targets:
                        if isinstance(t, ast.Name):
                            if is_view:
                                views.add(t.id)
                            else:
                                views.discard(t.id)
                            if t.id in live and not (isinstance(st.value, ast.Name) and st.value.id == t.id):
                                live.discard(t.id)
        visit_block(fn.body, handed)
    return out


def main():
    src, outdir = sys.argv[1], sys.argv[2]
    files = sorted(glob.glob(os.path.join(src, 'pygaps/characterisation/*.py'))) + \
        [os.path.join(src, 'pygaps/iast/pgiast.py'), os.path.join(src, 'pygaps/modelling/__init__.py')] + \
        [os.path.join(src, 'pygaps/parsing/%s.py' % m) for m in ('json', 'csv', 'aif', 'excel')]
    sites = []
    nfun = 0
    try:
        FRESH_PROPS.update(fresh_properties(src))
        for f in files:
            mod = os.path.relpath(f, os.path.join(src, 'pygaps'))[:-3].replace('/', '.')
            tree = ast.parse(open(f, encoding='utf8').read())
            nfun += sum(isinstance(x, ast.FunctionDef) for x in ast.walk(tree))
            sites += scan(f, mod)
    except (SyntaxError, OSError) as e:
        sys.stderr.write('py2v_purity: UNSUPPORTED: %s\n' % e)
        sys.exit(3)
    q = lambda s: '"' + s.replace('"', '""') + '"'
    text = ('(* GENERATED by tools/py2v_purity.py from pygaps/characterisation, iast, modelling/__init__, parsing exporters -- do not edit *)\n'
            'From Coq Require Import String List.\nImport ListNotations.\nOpen Scope string_scope.\n'
            '(* every syntactic site where a read-only entry point calls a mutating method on, or assigns into, an isotherm it was given *)\n'
            'Definition mutating_sites : list (string * string * string) :=\n  [' +
            ';\n   '.join('(%s, %s, %s)' % (q(a), q(b), q(c)) for a, b, c in sites) + '].\n'
            'Definition scanned_functions : nat := %d.\n' % nfun)
    path = os.path.join(outdir, 'PurityGen.v')
    if not os.path.exists(path) or open(path).read() != text:
        open(path, 'w').write(text)


if __name__ == '__main__':
    main()
